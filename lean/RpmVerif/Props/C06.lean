import RpmVerif.Lemmas.Builder
import RpmVerif.Lemmas.BuilderFiles
import RpmVerif.Lemmas.RpmValid
import RpmVerif.Model.Accessors
import RpmVerif.Lemmas.WithFile
import RpmVerif.Spec.FileOptions
import RpmVerif.Lemmas.ValidCalls
import RpmVerif.Lemmas.ValidWeight
/-!
# C06 — everything given to the builder is read back unchanged

`mainHeader c …` is `from_entries` applied to the records `prepare_data` emits (`Bld.slots`, in source
order). For every valid configuration (`Valid`: all record data canonical — NUL-free valid UTF-8,
integers in range — and the header below 2 GiB) the written package re-parses to the very same value
(`build_reparse`), so every accessor on the re-parsed package equals the accessor on the built header,
and that is the value supplied to the builder (`readback_*`). The per-file data is also proved through the accessor
users call, `get_file_entries()` (`readback_file_entries`, `…_build`, `…_reparsed`): one record per builder file with
its exact path, mode, owner, group, clamped mtime, size, flags, digest, capabilities and link target.

The builder FRONT-END (`FileOptions::new`, the `FileOptionsBuilder` setters, `PackageBuilder::with_file`; model
`Model/WithFile.lean`) is tied to this at the end of the file: `with_file_readback` (sequence of calls → accessors),
`with_file_inherit_mode` / `with_file_inherit_regular` / `explicit_mode_wins` (which mode word is stored),
`readback_flags_of_setters`, `defaults_readback`, and the translator checks `file_option_defaults_standard` /
`file_option_setters_standard` of the table scraped from types.rs.
-/
namespace RpmVerif.C06
open RpmVerif.Hdr RpmVerif.Bld RpmVerif.Gen RpmVerif.Acc

/-- the tags `prepare_data` can emit are pairwise distinct and none is the region tag -/
theorem slots_tags_nodup : (slots.map (·.1)).Nodup := by decide +kernel
theorem slots_no_region : IndexTag.RPMTAG_HEADERIMMUTABLE ∉ slots.map (·.1) := by decide +kernel

theorem filterMap_tags_sublist (l : List Slot) (x : Ctx) :
    ((l.filterMap fun s => (s.2 x).map fun d => (s.1, d)).map (·.1)).Sublist (l.map (·.1)) := by
  induction l with
  | nil => simp
  | cons s ss ih =>
    simp only [List.filterMap_cons, List.map_cons]
    cases h : s.2 x with
    | none => simp only [Option.map_none]; exact List.Sublist.cons _ ih
    | some d => simp only [Option.map_some, List.map_cons]; exact List.Sublist.cons₂ _ ih

theorem records_tags_nodup (x : Ctx) : ((recordsOf x).map (·.1)).Nodup :=
  (filterMap_tags_sublist slots x).nodup slots_tags_nodup

theorem records_no_region (x : Ctx) : ∀ r ∈ recordsOf x, r.1 ≠ IndexTag.RPMTAG_HEADERIMMUTABLE := by
  intro r hr e
  have : r.1 ∈ (recordsOf x).map (·.1) := List.mem_map_of_mem hr
  exact slots_no_region (e ▸ (filterMap_tags_sublist slots x).subset this)

theorem eq_of_nodup_key {α} (key : α → Nat) {l : List α} (hn : (l.map key).Nodup) {a b : α}
    (ha : a ∈ l) (hb : b ∈ l) (e : key a = key b) : a = b := by
  induction l with
  | nil => cases ha
  | cons y ys ih =>
    simp only [List.map_cons, List.nodup_cons] at hn
    rcases List.mem_cons.mp ha with rfl | ha' <;> rcases List.mem_cons.mp hb with rfl | hb'
    · rfl
    · exact absurd (e ▸ List.mem_map_of_mem hb') hn.1
    · exact absurd (e ▸ List.mem_map_of_mem ha') hn.1
    · exact ih hn.2 ha' hb'

theorem record_of_slot {x : Ctx} {s : Slot} (hs : s ∈ slots) {d : IndexData} (hd : s.2 x = some d) :
    (s.1, d) ∈ recordsOf x := by
  simp only [recordsOf, List.mem_filterMap]
  exact ⟨s, hs, by simp [hd]⟩

theorem no_record_of_slot {x : Ctx} {s : Slot} (hs : s ∈ slots) (hd : s.2 x = none) :
    ∀ r ∈ recordsOf x, r.1 ≠ s.1 := by
  intro r hr e
  simp only [recordsOf, List.mem_filterMap] at hr
  obtain ⟨s', hs', hm⟩ := hr
  cases h' : s'.2 x with
  | none => simp [h'] at hm
  | some d' =>
    simp only [h', Option.map_some, Option.some.injEq] at hm
    subst hm
    -- same tag, both in `slots` whose tags are pairwise distinct → same slot
    have : s' = s := eq_of_nodup_key (fun s : Slot => s.1) slots_tags_nodup hs' hs e
    subst this
    rw [hd] at h'; cases h'

/-- the header `prepare_data` builds for a context -/
def hdrOf (x : Ctx) : Header := fromEntries (recordsOf x) IndexTag.RPMTAG_HEADERIMMUTABLE

/-- **read-back through a typed getter**: a slot that emits data `d` is read back as the projection of `d` -/
theorem getter_of_slot {α} (proj : IndexData → Option α) {x : Ctx} {s : Slot} (hs : s ∈ slots)
    {d : IndexData} (hd : s.2 x = some d) {a : α} (hp : proj d = some a) :
    getWith proj (hdrOf x) s.1 = .ok a :=
  fromEntries_get proj (records_tags_nodup x) (records_no_region x) (record_of_slot hs hd) hp

/-- a slot that emits nothing is reported absent -/
theorem getter_of_empty_slot {α} (proj : IndexData → Option α) {x : Ctx} {s : Slot} (hs : s ∈ slots)
    (hd : s.2 x = none) : getWith proj (hdrOf x) s.1 = .err "notfound" := by
  refine fromEntries_absent proj ?_ (no_record_of_slot hs hd)
  intro e
  exact slots_no_region (e ▸ List.mem_map_of_mem hs)

/-! ### validity and the write → parse fixpoint -/

/-- a valid configuration: what `from_entries` needs (canonical data, sizes below the format's limits) -/
def Valid (x : Ctx) : Prop := RecsOk (recordsOf x) IndexTag.RPMTAG_HEADERIMMUTABLE

theorem hdr_wf {x : Ctx} (v : Valid x) : HeaderWF (hdrOf x) := fromEntries_wf v

/-- the main header written and parsed again is the same value (so every accessor sees the same data) -/
theorem header_reparse {x : Ctx} (v : Valid x) (rest : Bytes) :
    parseHeader (writeHeader (hdrOf x) ++ rest) = .ok (hdrOf x, rest) := by
  rw [writeHeader_eq]; exact parseHeader_write (hdr_wf v) rfl rest

theorem leadNew_wf (name : Bytes) : LeadWF (leadNew name) := by
  refine ⟨by simp [leadNew], by simp [leadNew], by simp [leadNew], by simp [leadNew], ?_, by simp [leadNew], by simp [leadNew], by simp [leadNew]⟩
  simp only [leadNew, List.length_append, List.length_take, List.length_replicate]
  omega

/-- **whole package**: build → write → parse gives back the built value, for any signature header that
`from_entries` can produce and any payload -/
theorem build_reparse {x : Ctx} (v : Valid x) {sigRecs : List (Nat × IndexData)}
    (vs : RecsOk sigRecs SigTag.HEADER_SIGNATURES) (payload : Bytes) :
    let p : Package := ⟨⟨leadNew x.c.name, fromEntries sigRecs SigTag.HEADER_SIGNATURES, hdrOf x⟩, payload⟩
    parsePackage (writePackage p) = .ok p := by
  intro p
  have wf : MetadataWF p.md := ⟨leadNew_wf _, fromEntries_wf vs, hdr_wf v⟩
  simp only [writePackage, parsePackage, writeMetadata_eq]
  rw [parseMetadata_write wf rfl (by simp) rfl]
  rfl

/-! ### the read-back statements (on the built header; by `build_reparse` the same on the re-parsed package) -/
section readback
variable (x : Ctx)

theorem mem_slot {i : Nat} {s : Slot} (h : slots[i]? = some s) : s ∈ slots := List.mem_of_getElem? h

theorem readback_name : getString (hdrOf x) IndexTag.RPMTAG_NAME = .ok x.c.name :=
  getter_of_slot IndexData.asStr (s := (IndexTag.RPMTAG_NAME, always fun x => .str x.c.name)) (mem_slot (i := 2) rfl) rfl rfl
theorem readback_epoch : getU32 (hdrOf x) IndexTag.RPMTAG_EPOCH = .ok x.c.epoch :=
  getter_of_slot IndexData.asU32 (s := (IndexTag.RPMTAG_EPOCH, always fun x => .int32 [x.c.epoch])) (mem_slot (i := 3) rfl) rfl rfl
theorem readback_version : getString (hdrOf x) IndexTag.RPMTAG_VERSION = .ok x.c.version :=
  getter_of_slot IndexData.asStr (s := (IndexTag.RPMTAG_VERSION, always fun x => .str x.c.version)) (mem_slot (i := 5) rfl) rfl rfl
theorem readback_release : getString (hdrOf x) IndexTag.RPMTAG_RELEASE = .ok x.c.release :=
  getter_of_slot IndexData.asStr (s := (IndexTag.RPMTAG_RELEASE, always fun x => .str x.c.release)) (mem_slot (i := 6) rfl) rfl rfl
/-- the description defaults to the summary when none is supplied -/
theorem readback_description : getI18nString (hdrOf x) IndexTag.RPMTAG_DESCRIPTION = .ok (x.c.desc.getD x.c.summary) :=
  getter_of_slot IndexData.asI18nStr (s := (IndexTag.RPMTAG_DESCRIPTION, always fun x => .i18n [x.c.desc.getD x.c.summary])) (mem_slot (i := 7) rfl) rfl rfl
theorem readback_summary : getI18nString (hdrOf x) IndexTag.RPMTAG_SUMMARY = .ok x.c.summary :=
  getter_of_slot IndexData.asI18nStr (s := (IndexTag.RPMTAG_SUMMARY, always fun x => .i18n [x.c.summary])) (mem_slot (i := 8) rfl) rfl rfl
theorem readback_license : getString (hdrOf x) IndexTag.RPMTAG_LICENSE = .ok x.c.license :=
  getter_of_slot IndexData.asStr (s := (IndexTag.RPMTAG_LICENSE, always fun x => .str x.c.license)) (mem_slot (i := 11) rfl) rfl rfl
theorem readback_group : getI18nString (hdrOf x) IndexTag.RPMTAG_GROUP = .ok (x.c.group.getD sUnspecified) :=
  getter_of_slot IndexData.asI18nStr (s := (IndexTag.RPMTAG_GROUP, always fun x => .i18n [x.c.group.getD sUnspecified])) (mem_slot (i := 13) rfl) rfl rfl
theorem readback_arch : getString (hdrOf x) IndexTag.RPMTAG_ARCH = .ok x.c.arch :=
  getter_of_slot IndexData.asStr (s := (IndexTag.RPMTAG_ARCH, always fun x => .str x.c.arch)) (mem_slot (i := 14) rfl) rfl rfl

/-- optional string fields: `Some v` is read back as `v`, `None` as TagNotFound -/
theorem readback_opt {i : Nat} {tag : Nat} {f : Cfg → Option Bytes} (hi : slots[i]? = some (tag, optS f)) :
    getString (hdrOf x) tag = match f x.c with | some v => .ok v | none => .err "notfound" := by
  cases hv : f x.c with
  | some v => exact getter_of_slot IndexData.asStr (s := (tag, optS f)) (d := .str v) (a := v) (mem_slot hi) (by simp [optS, hv]) rfl
  | none => exact getter_of_empty_slot IndexData.asStr (s := (tag, optS f)) (mem_slot hi) (by simp [optS, hv])

theorem readback_buildhost : getString (hdrOf x) IndexTag.RPMTAG_BUILDHOST = match x.c.buildHost with | some v => .ok v | none => .err "notfound" :=
  readback_opt x (i := 18) rfl
theorem readback_vendor : getString (hdrOf x) IndexTag.RPMTAG_VENDOR = match x.c.vendor with | some v => .ok v | none => .err "notfound" :=
  readback_opt x (i := 97) rfl
theorem readback_packager : getString (hdrOf x) IndexTag.RPMTAG_PACKAGER = match x.c.packager with | some v => .ok v | none => .err "notfound" :=
  readback_opt x (i := 98) rfl
theorem readback_url : getString (hdrOf x) IndexTag.RPMTAG_URL = match x.c.url with | some v => .ok v | none => .err "notfound" :=
  readback_opt x (i := 99) rfl
theorem readback_vcs : getString (hdrOf x) IndexTag.RPMTAG_VCS = match x.c.vcs with | some v => .ok v | none => .err "notfound" :=
  readback_opt x (i := 100) rfl
theorem readback_cookie : getString (hdrOf x) IndexTag.RPMTAG_COOKIE = match x.c.cookie with | some v => .ok v | none => .err "notfound" :=
  readback_opt x (i := 101) rfl

/-! #### scriptlets (all nine kinds, incl. the verify scriptlet which is read through the raw getters) -/

/-- what is read back for a scriptlet: script, flags, and the interpreter list (an empty list reads back as none) -/
def Scriptlet.readBack (s : Bld.Scriptlet) : Acc.Scriptlet :=
  ⟨s.script, s.flags, s.prog.bind fun p => if p.isEmpty then none else some p⟩

theorem readback_scriptlet {i : Nat} {a b c : Nat} {g : Cfg → Option Bld.Scriptlet}
    (h1 : slots[i]? = some (a, scrScript g)) (h2 : slots[i + 1]? = some (b, scrFlags g))
    (h3 : slots[i + 2]? = some (c, scrProg g)) :
    getScriptlet (hdrOf x) (a, b, c) = match g x.c with
      | some s => .ok (Scriptlet.readBack s)
      | none => .err "notfound" := by
  cases hs : g x.c with
  | none =>
    simp only [getScriptlet]
    rw [show getString = getWith IndexData.asStr from rfl,
      getter_of_empty_slot IndexData.asStr (s := (a, scrScript g)) (mem_slot h1) (by simp [scrScript, hs])]
    rfl
  | some s =>
    simp only [getScriptlet]
    rw [show getString = getWith IndexData.asStr from rfl,
      getter_of_slot IndexData.asStr (s := (a, scrScript g)) (d := .str s.script) (a := s.script) (mem_slot h1)
        (by simp [scrScript, hs]) rfl]
    simp only [Out.bind_ok, Out.pure_eq, Scriptlet.readBack]
    have hf : (getU32 (hdrOf x) b).toOption = s.flags := by
      cases hfl : s.flags with
      | none =>
        rw [show getU32 = getWith IndexData.asU32 from rfl,
          getter_of_empty_slot IndexData.asU32 (s := (b, scrFlags g)) (mem_slot h2) (by simp [scrFlags, hs, hfl])]; rfl
      | some fl =>
        rw [show getU32 = getWith IndexData.asU32 from rfl,
          getter_of_slot IndexData.asU32 (s := (b, scrFlags g)) (d := .int32 [fl]) (a := fl) (mem_slot h2)
            (by simp [scrFlags, hs, hfl]) rfl]; rfl
    have hp : (getStringArray (hdrOf x) c).toOption = s.prog.bind fun p => if p.isEmpty then none else some p := by
      cases hpr : s.prog with
      | none =>
        rw [show getStringArray = getWith IndexData.asStringArray from rfl,
          getter_of_empty_slot IndexData.asStringArray (s := (c, scrProg g)) (mem_slot h3) (by simp [scrProg, hs, hpr])]; rfl
      | some p =>
        cases hpe : p.isEmpty with
        | true =>
          rw [show getStringArray = getWith IndexData.asStringArray from rfl,
            getter_of_empty_slot IndexData.asStringArray (s := (c, scrProg g)) (mem_slot h3)
              (by simp only [scrProg, hs, hpr, Option.bind_some, hpe, if_true])]
          simp only [Option.bind_some, hpe, if_true, Out.toOption]
        | false =>
          rw [show getStringArray = getWith IndexData.asStringArray from rfl,
            getter_of_slot IndexData.asStringArray (s := (c, scrProg g)) (d := .strArray p) (a := p) (mem_slot h3)
              (by simp only [scrProg, hs, hpr, Option.bind_some, hpe, Bool.false_eq_true, if_false]) rfl]
          simp only [Option.bind_some, hpe, Bool.false_eq_true, if_false, Out.toOption]
    rw [hf, hp]

theorem readback_prein : getScriptlet (hdrOf x) (IndexTag.RPMTAG_PREIN, IndexTag.RPMTAG_PREINFLAGS, IndexTag.RPMTAG_PREINPROG) =
    match x.c.preIn with | some s => .ok (Scriptlet.readBack s) | none => .err "notfound" := readback_scriptlet x (i := 70) rfl rfl rfl
theorem readback_postin : getScriptlet (hdrOf x) (IndexTag.RPMTAG_POSTIN, IndexTag.RPMTAG_POSTINFLAGS, IndexTag.RPMTAG_POSTINPROG) =
    match x.c.postIn with | some s => .ok (Scriptlet.readBack s) | none => .err "notfound" := readback_scriptlet x (i := 73) rfl rfl rfl
theorem readback_preun : getScriptlet (hdrOf x) (IndexTag.RPMTAG_PREUN, IndexTag.RPMTAG_PREUNFLAGS, IndexTag.RPMTAG_PREUNPROG) =
    match x.c.preUn with | some s => .ok (Scriptlet.readBack s) | none => .err "notfound" := readback_scriptlet x (i := 76) rfl rfl rfl
theorem readback_postun : getScriptlet (hdrOf x) (IndexTag.RPMTAG_POSTUN, IndexTag.RPMTAG_POSTUNFLAGS, IndexTag.RPMTAG_POSTUNPROG) =
    match x.c.postUn with | some s => .ok (Scriptlet.readBack s) | none => .err "notfound" := readback_scriptlet x (i := 79) rfl rfl rfl
theorem readback_pretrans : getScriptlet (hdrOf x) (IndexTag.RPMTAG_PRETRANS, IndexTag.RPMTAG_PRETRANSFLAGS, IndexTag.RPMTAG_PRETRANSPROG) =
    match x.c.preTrans with | some s => .ok (Scriptlet.readBack s) | none => .err "notfound" := readback_scriptlet x (i := 82) rfl rfl rfl
theorem readback_posttrans : getScriptlet (hdrOf x) (IndexTag.RPMTAG_POSTTRANS, IndexTag.RPMTAG_POSTTRANSFLAGS, IndexTag.RPMTAG_POSTTRANSPROG) =
    match x.c.postTrans with | some s => .ok (Scriptlet.readBack s) | none => .err "notfound" := readback_scriptlet x (i := 85) rfl rfl rfl
theorem readback_preuntrans : getScriptlet (hdrOf x) (IndexTag.RPMTAG_PREUNTRANS, IndexTag.RPMTAG_PREUNTRANSFLAGS, IndexTag.RPMTAG_PREUNTRANSPROG) =
    match x.c.preUntrans with | some s => .ok (Scriptlet.readBack s) | none => .err "notfound" := readback_scriptlet x (i := 88) rfl rfl rfl
theorem readback_postuntrans : getScriptlet (hdrOf x) (IndexTag.RPMTAG_POSTUNTRANS, IndexTag.RPMTAG_POSTUNTRANSFLAGS, IndexTag.RPMTAG_POSTUNTRANSPROG) =
    match x.c.postUntrans with | some s => .ok (Scriptlet.readBack s) | none => .err "notfound" := readback_scriptlet x (i := 91) rfl rfl rfl
theorem readback_verify : getScriptlet (hdrOf x) (IndexTag.RPMTAG_VERIFYSCRIPT, IndexTag.RPMTAG_VERIFYSCRIPTFLAGS, IndexTag.RPMTAG_VERIFYSCRIPTPROG) =
    match x.c.verify with | some s => .ok (Scriptlet.readBack s) | none => .err "notfound" := readback_scriptlet x (i := 94) rfl rfl rfl

/-! #### dependencies and changelog -/

def Dep.toAcc (d : Dep) : Acc.Dependency := ⟨d.name, d.flags, d.version⟩

theorem zip3_map (l : List Dep) : (zip3 (l.map (·.name)) (l.map (·.flags)) (l.map (·.version))).map
    (fun (n, f, v) => (⟨n, f, v⟩ : Acc.Dependency)) = l.map Dep.toAcc := by
  induction l with
  | nil => rfl
  | cons d ds ih => simp only [List.map_cons, zip3, ih, Dep.toAcc]

/-- a dependency list is read back whole and in order (the empty list: all three tags absent → `[]`) -/
theorem readback_deps {i : Nat} {n v f : Nat} {g : Ctx → List Dep} {al : Bool}
    (h1 : slots[i]? = some (n, depNames g al)) (h2 : slots[i + 1]? = some (v, depVersions g al))
    (h3 : slots[i + 2]? = some (f, depFlags g al)) :
    getDependencies (hdrOf x) n f v = .ok ((g x).map Dep.toAcc) := by
  by_cases he : (!al && (g x).isEmpty) = true
  · have e1 := getter_of_empty_slot IndexData.asStringArray (x := x) (s := (n, depNames g al)) (mem_slot h1) (by simp [depNames, he])
    have e2 := getter_of_empty_slot IndexData.asStringArray (x := x) (s := (v, depVersions g al)) (mem_slot h2) (by simp [depVersions, he])
    have e3 := getter_of_empty_slot IndexData.asU32Array (x := x) (s := (f, depFlags g al)) (mem_slot h3) (by simp [depFlags, he])
    have hemp : g x = [] := by
      simp only [Bool.and_eq_true, Bool.not_eq_true', List.isEmpty_iff] at he; exact he.2
    simp only [getDependencies, getStringArray, getU32Array, e1, e2, e3, triple, isNotFound, hemp]
    rfl
  · have e1 := getter_of_slot IndexData.asStringArray (x := x) (s := (n, depNames g al)) (d := .strArray ((g x).map (·.name)))
      (a := (g x).map (·.name)) (mem_slot h1) (by simp [depNames, he]) rfl
    have e2 := getter_of_slot IndexData.asStringArray (x := x) (s := (v, depVersions g al)) (d := .strArray ((g x).map (·.version)))
      (a := (g x).map (·.version)) (mem_slot h2) (by simp [depVersions, he]) rfl
    have e3 := getter_of_slot IndexData.asU32Array (x := x) (s := (f, depFlags g al)) (d := .int32 ((g x).map (·.flags)))
      (a := (g x).map (·.flags)) (mem_slot h3) (by simp [depFlags, he]) rfl
    simp only [getDependencies, getStringArray, getU32Array, e1, e2, e3, triple, isNotFound]
    simp only [Bool.false_and, Bool.false_eq_true, if_false, zip3_map]

/-- user-supplied `provides` come back in order, followed by the library's own two entries -/
theorem readback_provides : getDependencies (hdrOf x) IndexTag.RPMTAG_PROVIDENAME IndexTag.RPMTAG_PROVIDEFLAGS IndexTag.RPMTAG_PROVIDEVERSION =
    .ok ((allProvides x.c).map Dep.toAcc) ∧ x.c.provides <+: allProvides x.c :=
  ⟨readback_deps x (i := 38) (g := fun x => allProvides x.c) rfl rfl rfl, ⟨_, rfl⟩⟩
theorem prefix_pushFeature {l reqs : List Dep} (h : l <+: reqs) (u : Bool) (f v : Bytes) : l <+: pushFeature reqs u f v := by
  unfold pushFeature; split
  · exact h.trans (List.prefix_append _ _)
  · exact h
theorem requires_prefix_base (c : Cfg) : c.requires <+: baseRequires c := by
  unfold baseRequires; simp only [List.append_assoc]; exact List.prefix_append _ _
theorem base_prefix_all (c : Cfg) : baseRequires c <+: allRequires c := by
  unfold allRequires
  exact prefix_pushFeature (prefix_pushFeature (prefix_pushFeature (prefix_pushFeature (List.prefix_refl _) _ _ _) _ _ _) _ _ _) _ _ _
theorem readback_requires : getDependencies (hdrOf x) IndexTag.RPMTAG_REQUIRENAME IndexTag.RPMTAG_REQUIREFLAGS IndexTag.RPMTAG_REQUIREVERSION =
    .ok ((allRequires x.c).map Dep.toAcc) ∧ x.c.requires <+: allRequires x.c :=
  ⟨readback_deps x (i := 52) (g := fun x => allRequires x.c) rfl rfl rfl, (requires_prefix_base x.c).trans (base_prefix_all x.c)⟩
theorem readback_recommends : getDependencies (hdrOf x) IndexTag.RPMTAG_RECOMMENDNAME IndexTag.RPMTAG_RECOMMENDFLAGS IndexTag.RPMTAG_RECOMMENDVERSION =
    .ok ((allRecommends x.c).map Dep.toAcc) ∧ x.c.recommends <+: allRecommends x.c :=
  ⟨readback_deps x (i := 58) (g := fun x => allRecommends x.c) rfl rfl rfl, by
    unfold allRecommends; simp only [List.append_assoc]; exact List.prefix_append _ _⟩
theorem readback_obsoletes : getDependencies (hdrOf x) IndexTag.RPMTAG_OBSOLETENAME IndexTag.RPMTAG_OBSOLETEFLAGS IndexTag.RPMTAG_OBSOLETEVERSION =
    .ok (x.c.obsoletes.map Dep.toAcc) := readback_deps x (i := 49) (g := fun x => x.c.obsoletes) rfl rfl rfl
theorem readback_conflicts : getDependencies (hdrOf x) IndexTag.RPMTAG_CONFLICTNAME IndexTag.RPMTAG_CONFLICTFLAGS IndexTag.RPMTAG_CONFLICTVERSION =
    .ok (x.c.conflicts.map Dep.toAcc) := readback_deps x (i := 55) (g := fun x => x.c.conflicts) rfl rfl rfl
theorem readback_suggests : getDependencies (hdrOf x) IndexTag.RPMTAG_SUGGESTNAME IndexTag.RPMTAG_SUGGESTFLAGS IndexTag.RPMTAG_SUGGESTVERSION =
    .ok (x.c.suggests.map Dep.toAcc) := readback_deps x (i := 61) (g := fun x => x.c.suggests) rfl rfl rfl
theorem readback_enhances : getDependencies (hdrOf x) IndexTag.RPMTAG_ENHANCENAME IndexTag.RPMTAG_ENHANCEFLAGS IndexTag.RPMTAG_ENHANCEVERSION =
    .ok (x.c.enhances.map Dep.toAcc) := readback_deps x (i := 64) (g := fun x => x.c.enhances) rfl rfl rfl
theorem readback_supplements : getDependencies (hdrOf x) IndexTag.RPMTAG_SUPPLEMENTNAME IndexTag.RPMTAG_SUPPLEMENTFLAGS IndexTag.RPMTAG_SUPPLEMENTVERSION =
    .ok (x.c.supplements.map Dep.toAcc) := readback_deps x (i := 67) (g := fun x => x.c.supplements) rfl rfl rfl

/-! #### the public `Dependency` constructors (`any`, `eq`, `less`, … ; table regenerated from src/rpm/headers/types.rs) -/

/-- what constructor `k` makes: the row's fixed text around the name argument, the row's flags, the row's fixed version
or else the version argument -/
theorem dep_ctor_spec {k : Nat} {name version : Bytes} {d : Dep} (h : depCtor k name version = some d) :
    ∃ s, depCtors[k]? = some s ∧ d.name = s.pre ++ name ++ s.post ∧ d.flags = s.flags
      ∧ d.version = s.version.getD version := by
  unfold depCtor at h
  cases hs : depCtors[k]? with
  | none => rw [hs] at h; cases h
  | some s =>
    rw [hs] at h
    simp only [Option.map_some, Option.some.injEq] at h
    subst h
    exact ⟨s, rfl, rfl, rfl, rfl⟩

/-- every row of the table is a constructor: defined for all arguments -/
theorem dep_ctor_defined {k : Nat} (hk : k < depCtors.length) (name version : Bytes) :
    ∃ d, depCtor k name version = some d := by
  unfold depCtor
  rw [List.getElem?_eq_getElem hk]
  exact ⟨_, rfl⟩

/-- the flag values the constructors use are sense bits / context bits of `DependencyFlags`, nothing else -/
theorem dep_ctor_flags_known : ∀ s ∈ depCtors, s.flags &&& DependencyFlags.all = s.flags := by decide

/-- the constructors the builder itself calls (hand-written in Model/Builder.lean) are rows of the scraped table -/
theorem builder_ctors_in_table (n v : Bytes) :
    (∃ k, depCtor k n v = some (rpmlib n v)) ∧ (∃ k, depCtor k n v = some (depEq n v))
    ∧ (∃ k, depCtor k n v = some (depUser n)) ∧ (∃ k, depCtor k n v = some (depGroup n)) := by
  have key : ∀ s : DepCtor, s ∈ depCtors → ∃ k, depCtor k n v = some ⟨s.pre ++ n ++ s.post, s.flags, s.version.getD v⟩ := by
    intro s hs
    obtain ⟨k, hk, e⟩ := List.getElem_of_mem hs
    refine ⟨k, ?_⟩
    unfold depCtor
    rw [List.getElem?_eq_getElem hk, e]
    rfl
  refine ⟨?_, ?_, ?_, ?_⟩
  · exact key ⟨[114, 112, 109, 108, 105, 98, 40], [41], DependencyFlags.RPMLIB ||| DependencyFlags.EQUAL, none⟩ (by decide)
  · have := key ⟨[], [], DependencyFlags.EQUAL, none⟩ (by decide)
    simpa [depEq] using this
  · exact key ⟨[117, 115, 101, 114, 40], [41], DependencyFlags.SCRIPT_PRE ||| DependencyFlags.SCRIPT_POSTUN, some []⟩ (by decide)
  · exact key ⟨[103, 114, 111, 117, 112, 40], [41], DependencyFlags.SCRIPT_PRE ||| DependencyFlags.SCRIPT_POSTUN, some []⟩ (by decide)

/-- **specification side**: what each constructor name means in rpm's terms — the RPMSENSE_* bits of rpm's `rpmds.h`
(LESS 2, GREATER 4, EQUAL 8, SCRIPT_PRE 2⁹, SCRIPT_POST 2¹⁰, SCRIPT_PREUN 2¹¹, SCRIPT_POSTUN 2¹², RPMLIB 2²⁴, CONFIG 2²⁸),
the `rpmlib(…)` / `config(…)` / `user(…)` / `group(…)` name forms, and no version where none is given. Typed here, not scraped. -/
def standardCtors : List (String × DepCtor) := [
  ("any", ⟨[], [], 0, some []⟩),
  ("eq", ⟨[], [], 8, none⟩),
  ("less", ⟨[], [], 2, none⟩),
  ("less_eq", ⟨[], [], 2 + 8, none⟩),
  ("greater", ⟨[], [], 4, none⟩),
  ("greater_eq", ⟨[], [], 4 + 8, none⟩),
  ("rpmlib", ⟨[114, 112, 109, 108, 105, 98, 40], [41], 2 ^ 24 + 8, none⟩),
  ("config", ⟨[99, 111, 110, 102, 105, 103, 40], [41], 2 ^ 28 + 8, none⟩),
  ("user", ⟨[117, 115, 101, 114, 40], [41], 2 ^ 9 + 2 ^ 12, some []⟩),
  ("group", ⟨[103, 114, 111, 117, 112, 40], [41], 2 ^ 9 + 2 ^ 12, some []⟩),
  ("script_pre", ⟨[], [], 2 ^ 9, some []⟩),
  ("script_post", ⟨[], [], 2 ^ 10, some []⟩),
  ("script_preun", ⟨[], [], 2 ^ 11, some []⟩),
  ("script_postun", ⟨[], [], 2 ^ 12, some []⟩)]

/-- every constructor of the source (table regenerated on every run) that bears one of these names has exactly the standard
name form, flags and version behaviour (constructors added to the source later are not constrained) -/
theorem dep_ctor_table_standard : ∀ e ∈ standardCtors, e ∈ depCtorNames.zip depCtors := by decide

/-- **a dependency made by constructor `k` and given to the builder is read back with the wrapped name, the version and
exactly the table's flags**, under whichever of the eight dependency kinds it was added (composition of `dep_ctor_spec`
with the eight `readback_*` theorems; for provides / requires / recommends the library's own entries follow) -/
theorem dep_ctor_flags_readback {k : Nat} {name version : Bytes} {d : Dep} (h : depCtor k name version = some d) :
    ∃ s, depCtors[k]? = some s ∧
    let want : Acc.Dependency := ⟨s.pre ++ name ++ s.post, s.flags, s.version.getD version⟩
    (d ∈ x.c.provides → ∃ l, getDependencies (hdrOf x) IndexTag.RPMTAG_PROVIDENAME IndexTag.RPMTAG_PROVIDEFLAGS IndexTag.RPMTAG_PROVIDEVERSION = .ok l ∧ want ∈ l)
    ∧ (d ∈ x.c.requires → ∃ l, getDependencies (hdrOf x) IndexTag.RPMTAG_REQUIRENAME IndexTag.RPMTAG_REQUIREFLAGS IndexTag.RPMTAG_REQUIREVERSION = .ok l ∧ want ∈ l)
    ∧ (d ∈ x.c.conflicts → ∃ l, getDependencies (hdrOf x) IndexTag.RPMTAG_CONFLICTNAME IndexTag.RPMTAG_CONFLICTFLAGS IndexTag.RPMTAG_CONFLICTVERSION = .ok l ∧ want ∈ l)
    ∧ (d ∈ x.c.obsoletes → ∃ l, getDependencies (hdrOf x) IndexTag.RPMTAG_OBSOLETENAME IndexTag.RPMTAG_OBSOLETEFLAGS IndexTag.RPMTAG_OBSOLETEVERSION = .ok l ∧ want ∈ l)
    ∧ (d ∈ x.c.recommends → ∃ l, getDependencies (hdrOf x) IndexTag.RPMTAG_RECOMMENDNAME IndexTag.RPMTAG_RECOMMENDFLAGS IndexTag.RPMTAG_RECOMMENDVERSION = .ok l ∧ want ∈ l)
    ∧ (d ∈ x.c.suggests → ∃ l, getDependencies (hdrOf x) IndexTag.RPMTAG_SUGGESTNAME IndexTag.RPMTAG_SUGGESTFLAGS IndexTag.RPMTAG_SUGGESTVERSION = .ok l ∧ want ∈ l)
    ∧ (d ∈ x.c.enhances → ∃ l, getDependencies (hdrOf x) IndexTag.RPMTAG_ENHANCENAME IndexTag.RPMTAG_ENHANCEFLAGS IndexTag.RPMTAG_ENHANCEVERSION = .ok l ∧ want ∈ l)
    ∧ (d ∈ x.c.supplements → ∃ l, getDependencies (hdrOf x) IndexTag.RPMTAG_SUPPLEMENTNAME IndexTag.RPMTAG_SUPPLEMENTFLAGS IndexTag.RPMTAG_SUPPLEMENTVERSION = .ok l ∧ want ∈ l) := by
  obtain ⟨s, hs, hn, hf, hv⟩ := dep_ctor_spec h
  refine ⟨s, hs, ?_⟩
  have hw : Dep.toAcc d = ⟨s.pre ++ name ++ s.post, s.flags, s.version.getD version⟩ := by
    simp only [Dep.toAcc, hn, hf, hv]
  intro want
  have mem_of : ∀ {l : List Dep}, d ∈ l → want ∈ l.map Dep.toAcc := by
    intro l hm
    have := List.mem_map_of_mem (f := Dep.toAcc) hm
    rw [hw] at this
    exact this
  refine ⟨?_, ?_, ?_, ?_, ?_, ?_, ?_, ?_⟩
  · intro hm; exact ⟨_, (readback_provides x).1, mem_of ((readback_provides x).2.subset hm)⟩
  · intro hm; exact ⟨_, (readback_requires x).1, mem_of ((readback_requires x).2.subset hm)⟩
  · intro hm; exact ⟨_, readback_conflicts x, mem_of hm⟩
  · intro hm; exact ⟨_, readback_obsoletes x, mem_of hm⟩
  · intro hm; exact ⟨_, (readback_recommends x).1, mem_of ((readback_recommends x).2.subset hm)⟩
  · intro hm; exact ⟨_, readback_suggests x, mem_of hm⟩
  · intro hm; exact ⟨_, readback_enhances x, mem_of hm⟩
  · intro hm; exact ⟨_, readback_supplements x, mem_of hm⟩

/-! #### changelog -/
theorem zip3_changelog (l : List (Bytes × Bytes × Nat)) :
    (zip3 (l.map (·.1)) (l.map (·.2.2)) (l.map (·.2.1))).map (fun (n, t, d) => (⟨n, t, d⟩ : Acc.Changelog)) =
      l.map fun e => ⟨e.1, e.2.2, e.2.1⟩ := by
  induction l with
  | nil => rfl
  | cons d ds ih => simp only [List.map_cons, zip3, ih]

/-- changelog entries come back in order with their name, time and text -/
theorem readback_changelog : getChangelog (hdrOf x) = .ok (x.c.changelog.map fun e => ⟨e.1, e.2.2, e.2.1⟩) := by
  have m1 : (IndexTag.RPMTAG_CHANGELOGNAME, fun x : Ctx => if x.c.changelog.isEmpty then none else some (IndexData.strArray (x.c.changelog.map (·.1)))) ∈ slots := mem_slot (i := 46) rfl
  have m2 : (IndexTag.RPMTAG_CHANGELOGTEXT, fun x : Ctx => if x.c.changelog.isEmpty then none else some (IndexData.strArray (x.c.changelog.map (·.2.1)))) ∈ slots := mem_slot (i := 47) rfl
  have m3 : (IndexTag.RPMTAG_CHANGELOGTIME, fun x : Ctx => if x.c.changelog.isEmpty then none else some (IndexData.int32 (x.c.changelog.map (·.2.2)))) ∈ slots := mem_slot (i := 48) rfl
  cases he : x.c.changelog.isEmpty with
  | true =>
    have e1 := getter_of_empty_slot IndexData.asStringArray (x := x) m1 (by simp only [he, if_true])
    have e2 := getter_of_empty_slot IndexData.asStringArray (x := x) m2 (by simp only [he, if_true])
    have e3 := getter_of_empty_slot IndexData.asU32Array (x := x) m3 (by simp only [he, if_true])
    have hemp : x.c.changelog = [] := List.isEmpty_iff.mp he
    simp only [getChangelog, getStringArray, getU32Array, e1, e2, e3, triple, isNotFound, hemp]
    rfl
  | false =>
    have e1 := getter_of_slot IndexData.asStringArray (x := x) (d := .strArray (x.c.changelog.map (·.1))) (a := x.c.changelog.map (·.1)) m1
      (by simp only [he, Bool.false_eq_true, if_false]) rfl
    have e2 := getter_of_slot IndexData.asStringArray (x := x) (d := .strArray (x.c.changelog.map (·.2.1))) (a := x.c.changelog.map (·.2.1)) m2
      (by simp only [he, Bool.false_eq_true, if_false]) rfl
    have e3 := getter_of_slot IndexData.asU32Array (x := x) (d := .int32 (x.c.changelog.map (·.2.2))) (a := x.c.changelog.map (·.2.2)) m3
      (by simp only [he, Bool.false_eq_true, if_false]) rfl
    simp only [getChangelog, getStringArray, getU32Array, e1, e2, e3, triple, isNotFound]
    simp only [Bool.false_and, Bool.false_eq_true, if_false, zip3_changelog]

/-! #### per-file arrays and paths -/

/-- every per-file array is read back whole and in file order (when the package has files) -/
theorem readback_file_array {α} (proj : IndexData → Option α) {i tag : Nat} {f : Ctx → IndexData}
    (hi : slots[i]? = some (tag, whenFiles f)) (hne : x.c.files.isEmpty = false) {a : α} (hp : proj (f x) = some a) :
    getWith proj (hdrOf x) tag = .ok a :=
  getter_of_slot proj (s := (tag, whenFiles f)) (mem_slot hi) (by simp only [whenFiles, hne, Bool.false_eq_true, if_false]) hp

theorem readback_modes (hne : x.c.files.isEmpty = false) : getU16Array (hdrOf x) IndexTag.RPMTAG_FILEMODES = .ok (x.c.files.map (·.mode)) :=
  readback_file_array x IndexData.asU16Array (i := 21) rfl hne rfl
theorem readback_mtimes (hne : x.c.files.isEmpty = false) :
    getU32Array (hdrOf x) IndexTag.RPMTAG_FILEMTIMES = .ok (x.c.files.map fun f => clampMtime x.c.sourceDate f.mtime) :=
  readback_file_array x IndexData.asU32Array (i := 23) rfl hne rfl
theorem readback_digests (hne : x.c.files.isEmpty = false) : getStringArray (hdrOf x) IndexTag.RPMTAG_FILEDIGESTS = .ok (x.c.files.map (·.shaHex)) :=
  readback_file_array x IndexData.asStringArray (i := 24) rfl hne rfl
theorem readback_linktos (hne : x.c.files.isEmpty = false) : getStringArray (hdrOf x) IndexTag.RPMTAG_FILELINKTOS = .ok (x.c.files.map (·.link)) :=
  readback_file_array x IndexData.asStringArray (i := 25) rfl hne rfl
theorem readback_fileflags (hne : x.c.files.isEmpty = false) : getU32Array (hdrOf x) IndexTag.RPMTAG_FILEFLAGS = .ok (x.c.files.map (·.flags)) :=
  readback_file_array x IndexData.asU32Array (i := 26) rfl hne rfl
theorem readback_users (hne : x.c.files.isEmpty = false) : getStringArray (hdrOf x) IndexTag.RPMTAG_FILEUSERNAME = .ok (x.c.files.map (·.user)) :=
  readback_file_array x IndexData.asStringArray (i := 27) rfl hne rfl
theorem readback_groups (hne : x.c.files.isEmpty = false) : getStringArray (hdrOf x) IndexTag.RPMTAG_FILEGROUPNAME = .ok (x.c.files.map (·.group)) :=
  readback_file_array x IndexData.asStringArray (i := 28) rfl hne rfl

/-- the clamp: a recorded mtime never exceeds the source date, and equals the file's own mtime when that is earlier -/
theorem clamp_spec (sd : Option Nat) (m : Nat) :
    clampMtime sd m = (match sd with | some d => min d m | none => m) ∧ (∀ d, sd = some d → clampMtime sd m ≤ d) := by
  cases sd with
  | none => exact ⟨rfl, fun _ h => by cases h⟩
  | some d =>
    simp only [clampMtime]
    refine ⟨by split <;> omega, fun d' h => ?_⟩
    cases h; split <;> omega

theorem dirs_lookup {dirs : List Bytes} {d : Bytes} (hd : d ∈ dirs) : dirs[dirIndex dirs d]? = some d := by
  unfold dirIndex
  induction dirs with
  | nil => cases hd
  | cons y ys ih =>
    simp only [List.findIdx?_cons]
    by_cases hy : (y == d) = true
    · simp only [hy, if_true, Option.getD_some, List.getElem?_cons_zero]
      exact congrArg some (by simpa using hy)
    · have hm : d ∈ ys := by
        rcases List.mem_cons.mp hd with rfl | h
        · simp at hy
        · exact h
      simp only [hy, Bool.false_eq_true, if_false]
      have := ih hm
      cases hf : List.findIdx? (fun x => x == d) ys with
      | none => simp only [hf, Option.getD_none] at this ⊢; simp only [Option.map_none, Option.getD_none, List.getElem?_cons_zero]
                -- findIdx? = none contradicts membership
                exact absurd (List.findIdx?_eq_none_iff.mp hf d hm) (by simp)
      | some k => simp only [hf, Option.getD_some] at this; simp only [Option.map_some, Option.getD_some, List.getElem?_cons_succ, this]

theorem filePaths_of_files (dirs : List Bytes) (fs : List FileE) (hd : ∀ f ∈ fs, f.dir ∈ dirs) :
    filePathsFrom (fs.map (·.baseName)) (fs.map fun f => dirIndex dirs f.dir) dirs =
      .ok (fs.map fun f => pathJoin f.dir f.baseName) := by
  induction fs with
  | nil => rfl
  | cons f fs ih =>
    simp only [List.map_cons, filePathsFrom, dirs_lookup (hd f (by simp))]
    rw [ih (fun g hg => hd g (by simp [hg]))]
    rfl

/-- **file paths**: every file is listed under `dir ++ base name` of its destination, in file order
(`add_data` guarantees each file's directory is in the directory set) -/
theorem readback_paths (hne : x.c.files.isEmpty = false) (hd : ∀ f ∈ x.c.files, f.dir ∈ x.c.directories) :
    getFilePaths (hdrOf x) = .ok (x.c.files.map fun f => pathJoin f.dir f.baseName) := by
  have e1 := readback_file_array x IndexData.asStringArray (i := 35) (f := fun x => .strArray (x.c.files.map (·.baseName))) rfl hne rfl
  have e2 := readback_file_array x IndexData.asU32Array (i := 31) (f := fun x => .int32 (x.c.files.map (fun f => dirIndex x.c.directories f.dir))) rfl hne rfl
  have e3 := readback_file_array x IndexData.asStringArray (i := 36) (f := fun x => .strArray x.c.directories) rfl hne rfl
  simp only [getFilePaths, getStringArray, getU32Array, e1, e2, e3, triple, isNotFound]
  simp only [Bool.false_and, Bool.false_eq_true, if_false]
  exact filePaths_of_files _ _ hd

/-! #### `get_file_entries`: the whole record of every file -/

/-- the file sizes, whichever of the two encodings `prepare_data` chose: LONGFILESIZES (u64) for a package above the
large-file threshold, else no LONGFILESIZES and FILESIZES (u32) — `get_file_entries` tries them in this order -/
theorem readback_sizes (hne : x.c.files.isEmpty = false) :
    (usesLargeFiles x.c = true ∧ getU64Array (hdrOf x) IndexTag.RPMTAG_LONGFILESIZES = .ok (x.c.files.map (·.size)))
    ∨ (usesLargeFiles x.c = false ∧ getU64Array (hdrOf x) IndexTag.RPMTAG_LONGFILESIZES = .err "notfound"
        ∧ getU32Array (hdrOf x) IndexTag.RPMTAG_FILESIZES = .ok (x.c.files.map (·.size))) := by
  have m19 : (IndexTag.RPMTAG_LONGFILESIZES, fun x : Ctx => if x.c.files.isEmpty || !usesLargeFiles x.c then none
      else some (IndexData.int64 (x.c.files.map (·.size)))) ∈ slots := mem_slot (i := 19) rfl
  have m20 : (IndexTag.RPMTAG_FILESIZES, fun x : Ctx => if x.c.files.isEmpty || usesLargeFiles x.c then none
      else some (IndexData.int32 (x.c.files.map (·.size)))) ∈ slots := mem_slot (i := 20) rfl
  cases hl : usesLargeFiles x.c with
  | true =>
    have h : getWith IndexData.asU64Array (hdrOf x) IndexTag.RPMTAG_LONGFILESIZES = .ok (x.c.files.map (·.size)) :=
      getter_of_slot IndexData.asU64Array (x := x) m19 (d := .int64 (x.c.files.map (·.size))) (by simp only [hne, hl]; rfl) rfl
    exact .inl ⟨rfl, h⟩
  | false =>
    have h1 : getWith IndexData.asU64Array (hdrOf x) IndexTag.RPMTAG_LONGFILESIZES = .err "notfound" :=
      getter_of_empty_slot IndexData.asU64Array (x := x) m19 (by simp only [hne, hl]; rfl)
    have h2 : getWith IndexData.asU32Array (hdrOf x) IndexTag.RPMTAG_FILESIZES = .ok (x.c.files.map (·.size)) :=
      getter_of_slot IndexData.asU32Array (x := x) m20 (d := .int32 (x.c.files.map (·.size))) (by simp only [hne, hl]; rfl) rfl
    exact .inr ⟨rfl, h1, h2⟩

/-- the capability array: present (one text per file, `""` for files without capabilities) exactly when some file has
capabilities -/
theorem readback_caps (hne : x.c.files.isEmpty = false) :
    getStringArray (hdrOf x) IndexTag.RPMTAG_FILECAPS =
      if usesCaps x.c then .ok (x.c.files.map fun f => f.caps.getD []) else .err "notfound" := by
  have m37 : (IndexTag.RPMTAG_FILECAPS, fun x : Ctx => if x.c.files.isEmpty || !usesCaps x.c then none
      else some (IndexData.strArray (x.c.files.map (fun f => f.caps.getD [])))) ∈ slots := mem_slot (i := 37) rfl
  cases hc : usesCaps x.c with
  | true =>
    exact getter_of_slot IndexData.asStringArray (x := x) m37 (d := .strArray (x.c.files.map fun f => f.caps.getD []))
        (a := x.c.files.map fun f => f.caps.getD []) (by simp only [hne, hc]; rfl) rfl
  | false =>
    exact getter_of_empty_slot IndexData.asStringArray (x := x) m37 (by simp only [hne, hc]; rfl)

/-- the file digest algorithm of a package with files is 8 = SHA-256 -/
theorem readback_digest_algo (hne : x.c.files.isEmpty = false) : getFileDigestAlgorithm (hdrOf x) = .ok 8 := by
  have e : getU32 (hdrOf x) IndexTag.RPMTAG_FILEDIGESTALGO = .ok 8 :=
    readback_file_array x IndexData.asU32 (i := 33) (f := fun _ => .int32 [8]) rfl hne rfl
  simp only [getFileDigestAlgorithm, e, Out.bind_ok]
  rfl

/-- **get_file_entries** (any digest-length table that pairs SHA-256 with 64 hex characters): for EVERY configuration
and clock, on the built header and any signature header without IMA signatures, `get_file_entries` returns one record
per builder file, in file order, each carrying that file's destination path, mode, owner, group, clamped mtime, size
(either size encoding), flags, SHA-256 digest, capabilities, link target — and `[]` for a package without files.
Hypotheses: `hd` — every file's directory is in the directory set (`add_data` inserts it); `hdig` — every digest text
is empty or 64 characters long (`add_data` stores a hex SHA-256). No validity hypothesis is needed at this level. -/
theorem readback_file_entries_tbl {tbl : List (Nat × Nat)} (htbl : (8, 64) ∈ tbl) (sig : Header)
    (hsig : getStringArray sig SigTag.RPMSIGTAG_FILESIGNATURES = .err "notfound")
    (hd : ∀ f ∈ x.c.files, f.dir ∈ x.c.directories) (hdig : DigestsOk x.c) :
    getFileEntries sig (hdrOf x) tbl = .ok (x.c.files.map (entryOf x)) := by
  cases he : x.c.files.isEmpty with
  | true =>
    have hemp : x.c.files = [] := List.isEmpty_iff.mp he
    have e : getU16Array (hdrOf x) IndexTag.RPMTAG_FILEMODES = .err "notfound" :=
      getter_of_empty_slot IndexData.asU16Array (x := x)
        (s := (IndexTag.RPMTAG_FILEMODES, whenFiles fun x => .int16 (x.c.files.map (·.mode)))) (mem_slot (i := 21) rfl)
        (if_pos he)
    simp only [getFileEntries, e, isNotFound, if_true, hemp, List.map_nil]
  | false =>
    have hcapsget := readback_caps x he
    have hb := fun caps cap => buildEntries_files htbl caps (fun f => pathJoin f.dir f.baseName)
        (fun f => clampMtime x.c.sourceDate f.mtime) cap x.c.files hdig 0
    have hent : entryOf x = fun f => ⟨pathJoin f.dir f.baseName, f.mode, f.user, f.group, clampMtime x.c.sourceDate f.mtime,
        f.size, f.flags, digestExp f.shaHex, if usesCaps x.c then some (f.caps.getD []) else none, f.link, none⟩ := rfl
    rw [hent]
    cases hc : usesCaps x.c with
    | true =>
      simp only [hc, if_true] at hcapsget
      have hb' := hb (some (x.c.files.map fun f => f.caps.getD [])) (fun f => some (f.caps.getD [])) (caps_lookup x.c.files)
      rcases readback_sizes x he with ⟨_, hs⟩ | ⟨_, hs1, hs2⟩
      · simp only [getFileEntries, readback_digest_algo x he, readback_modes x he, readback_users x he, readback_groups x he,
          readback_digests x he, readback_mtimes x he, hs, readback_fileflags x he, hcapsget,
          readback_linktos x he, readback_paths x he hd, hsig, optStrings, isNotFound, Bool.false_eq_true, if_false, Out.bind_ok, if_true]
        exact hb'
      · simp only [getFileEntries, readback_digest_algo x he, readback_modes x he, readback_users x he, readback_groups x he,
          readback_digests x he, readback_mtimes x he, hs1, hs2, readback_fileflags x he, hcapsget,
          readback_linktos x he, readback_paths x he hd, hsig, optStrings, isNotFound, Bool.false_eq_true, if_false, Out.bind_ok, if_true]
        exact hb'
    | false =>
      simp only [hc, Bool.false_eq_true, if_false] at hcapsget
      have hb' := hb none (fun _ => none) (fun _ _ => rfl)
      rcases readback_sizes x he with ⟨_, hs⟩ | ⟨_, hs1, hs2⟩
      · simp only [getFileEntries, readback_digest_algo x he, readback_modes x he, readback_users x he, readback_groups x he,
          readback_digests x he, readback_mtimes x he, hs, readback_fileflags x he, hcapsget,
          readback_linktos x he, readback_paths x he hd, hsig, optStrings, isNotFound, Bool.false_eq_true, if_false, Out.bind_ok]
        exact hb'
      · simp only [getFileEntries, readback_digest_algo x he, readback_modes x he, readback_users x he, readback_groups x he,
          readback_digests x he, readback_mtimes x he, hs1, hs2, readback_fileflags x he, hcapsget,
          readback_linktos x he, readback_paths x he hd, hsig, optStrings, isNotFound, Bool.false_eq_true, if_false, Out.bind_ok]
        exact hb'

/-- **readback_file_entries**: `get_file_entries` as the library calls it (the digest-length table of the source) -/
theorem readback_file_entries (sig : Header)
    (hsig : getStringArray sig SigTag.RPMSIGTAG_FILESIGNATURES = .err "notfound")
    (hd : ∀ f ∈ x.c.files, f.dir ∈ x.c.directories) (hdig : DigestsOk x.c) :
    getFileEntries sig (hdrOf x) = .ok (x.c.files.map (entryOf x)) :=
  readback_file_entries_tbl x sha256_in_table sig hsig hd hdig

end readback

/-! #### `get_file_entries` on the packages the library returns -/

/-- the destination a `FileEntry` reports is the archive (cpio) name without its leading `.`, for files as
`add_data` stores them (C17: the directory ends with `/`, the base name does not start with `/`, the archive
name is `"." ++ dir ++ base name`) -/
theorem entryOf_path_cpio (x : Ctx) (f : FileE) (hlast : f.dir.getLast? = some 47) (hbase : f.baseName.head? ≠ some 47)
    (hp : f.cpioPath = [46] ++ (f.dir ++ f.baseName)) :
    (entryOf x f).path = f.dir ++ f.baseName ∧ f.cpioPath = 46 :: (entryOf x f).path := by
  have e : (entryOf x f).path = f.dir ++ f.baseName := by
    simp [entryOf, pathJoin, hbase, hlast]
  exact ⟨e, by rw [e, hp]; rfl⟩

/-- **`PackageBuilder::build`**: `get_file_entries` on the package `build` returns (its signature header carries the
header digest only) lists exactly the builder's files — every clock value, hash function, archive and payload -/
theorem readback_file_entries_build (c : Cfg) (now : Nat) (sha256hex : Bytes → Bytes) (archive payload : Bytes)
    (hd : ∀ f ∈ c.files, f.dir ∈ c.directories) (hdig : DigestsOk c) :
    getFileEntries (build c now sha256hex archive payload).md.signature (build c now sha256hex archive payload).md.header
      = .ok (c.files.map (entryOf (mkCtx c now (sha256hex payload) (sha256hex archive)))) :=
  readback_file_entries (mkCtx c now (sha256hex payload) (sha256hex archive)) _
    (signatureHeader_no_ima [] _ (fun _ h => by cases h)) hd hdig

/-- **build → write → parse → `get_file_entries`**: for every valid configuration, any signature header
`from_entries` can produce that has no IMA signatures, and any payload, the written package parses (to the built
value) and `get_file_entries` on the PARSED package returns the builder's files -/
theorem readback_file_entries_reparsed {x : Ctx} (v : Valid x) {sigRecs : List (Nat × IndexData)}
    (vs : RecsOk sigRecs SigTag.HEADER_SIGNATURES)
    (hsig : getStringArray (fromEntries sigRecs SigTag.HEADER_SIGNATURES) SigTag.RPMSIGTAG_FILESIGNATURES = .err "notfound")
    (payload : Bytes) (hd : ∀ f ∈ x.c.files, f.dir ∈ x.c.directories) (hdig : DigestsOk x.c) :
    ∃ p', parsePackage (writePackage ⟨⟨leadNew x.c.name, fromEntries sigRecs SigTag.HEADER_SIGNATURES, hdrOf x⟩, payload⟩) = .ok p'
      ∧ p'.content = payload
      ∧ getFileEntries p'.md.signature p'.md.header = .ok (x.c.files.map (entryOf x)) :=
  ⟨_, build_reparse v vs payload, rfl, readback_file_entries x _ hsig hd hdig⟩

/-! ### non-vacuity: a concrete valid configuration (multi-byte summary, one file, a scriptlet, gzip) -/
instance : DecidablePred (fun s : Bytes => StrOk s) := fun s => by unfold StrOk; exact inferInstance
instance (d : IndexData) : Decidable d.Canon := by
  cases d <;> simp only [IndexData.Canon] <;> exact inferInstance

def sampleCfg : Cfg := {
  name := [112, 107, 103], epoch := 0, version := [49], release := [49], license := [77, 73, 84], arch := [120],
  summary := [195, 188, 33], desc := none, vendor := some [118], packager := some [112], group := none, url := none,
  vcs := none, cookie := none, buildHost := none, sourceDate := some 1600000000,
  files := [⟨[46, 47, 97], [47], [97], 3, 33188, [114], [114], [], 0, none, 4294967295, 1700000000, [48, 48]⟩],
  directories := [[47]], provides := [], requires := [⟨[119], 0, []⟩], conflicts := [], obsoletes := [], recommends := [],
  suggests := [], enhances := [], supplements := [], preIn := some ⟨[101], some 1, some [[47, 98]]⟩, postIn := none,
  preUn := none, postUn := none, preTrans := none, postTrans := none, preUntrans := none, postUntrans := none,
  verify := none, changelog := [([109], [116], 5)], compression := .gzip 6 }
def sampleCtx : Ctx := ⟨sampleCfg, 1700000000, [97], [98]⟩

example : ∀ r ∈ recordsOf sampleCtx, r.2.Canon := by decide +kernel
example : 40 < (recordsOf sampleCtx).length := by decide +kernel
example : getString (hdrOf sampleCtx) IndexTag.RPMTAG_PACKAGER = .ok [112] := readback_packager sampleCtx
example : getDependencies (hdrOf sampleCtx) IndexTag.RPMTAG_REQUIRENAME IndexTag.RPMTAG_REQUIREFLAGS IndexTag.RPMTAG_REQUIREVERSION =
    .ok ((allRequires sampleCfg).map Dep.toAcc) := (readback_requires sampleCtx).1

/-! ### non-vacuity for `get_file_entries`: three files in two directories — a regular file with capabilities
(mtime after the source date: clamped), a plain file (mtime before it: kept), a symbolic-link entry (mode 0120777,
link target, empty digest), owners root / root and u / g — in both size encodings -/
def sha64 : Bytes := List.replicate 64 97
def sampleFiles2 : List FileE :=
  [ ⟨[46, 47, 101, 116, 99, 47, 97], [47, 101, 116, 99, 47], [97], 3, 33188, sRoot, sRoot, [], 1, some [99, 61, 112], 4294967295, 1700000000, sha64⟩,
    ⟨[46, 47, 101, 116, 99, 47, 98], [47, 101, 116, 99, 47], [98], 5, 33261, [117], [103], [], 0, none, 4294967295, 1500000000, sha64⟩,
    ⟨[46, 47, 117, 47, 108], [47, 117, 47], [108], 1, 41471, sRoot, sRoot, [97], 0, none, 4294967295, 1600000001, []⟩ ]
def sampleCfg2 : Cfg := { sampleCfg with files := sampleFiles2, directories := [[47, 101, 116, 99, 47], [47, 117, 47]] }
def sampleCfg2L : Cfg := { sampleCfg2 with largeFileThreshold := 8 }
def sampleCtx2 : Ctx := ⟨sampleCfg2, 1600000000, [97], [98]⟩
def sampleCtx2L : Ctx := ⟨sampleCfg2L, 1600000000, [97], [98]⟩
/-- what `get_file_entries` must return for them -/
def sampleEntries2 : List FileEntry :=
  [ ⟨[47, 101, 116, 99, 47, 97], 33188, sRoot, sRoot, 1600000000, 3, 1, some (8, sha64), some [99, 61, 112], [], none⟩,
    ⟨[47, 101, 116, 99, 47, 98], 33261, [117], [103], 1500000000, 5, 0, some (8, sha64), some [], [], none⟩,
    ⟨[47, 117, 47, 108], 41471, sRoot, sRoot, 1600000000, 1, 0, none, some [], [97], none⟩ ]

example : usesCaps sampleCfg2 = true ∧ usesLargeFiles sampleCfg2 = false ∧ usesLargeFiles sampleCfg2L = true := by decide
example : sampleCfg2.files.map (entryOf sampleCtx2) = sampleEntries2 := by decide +kernel
example : sampleCfg2L.files.map (entryOf sampleCtx2L) = sampleEntries2 := by decide +kernel
example : DigestsOk sampleCfg2 := by decide
/-- every stored file has the `add_data` shape, so the reported path is the archive name without the `.` -/
example : ∀ f ∈ sampleFiles2, f.cpioPath = 46 :: (entryOf sampleCtx2 f).path := by
  intro f hf
  refine (entryOf_path_cpio sampleCtx2 f ?_ ?_ ?_).2 <;>
    (simp only [sampleFiles2, List.mem_cons, List.not_mem_nil, or_false] at hf; rcases hf with rfl | rfl | rfl <;> decide)

/-- the getter-level theorem, FILESIZES encoding, the signature header of `build` -/
example : getFileEntries (signatureHeader [] (some [97])) (hdrOf sampleCtx2) = .ok sampleEntries2 :=
  (show sampleCfg2.files.map (entryOf sampleCtx2) = sampleEntries2 by decide +kernel) ▸
    readback_file_entries sampleCtx2 _ (signatureHeader_no_ima [] _ (fun _ h => by cases h)) (by decide) (by decide)
/-- … LONGFILESIZES encoding, a signed package's signature header (RSA legacy tag) -/
example : getFileEntries (signatureHeader [(SigTag.RPMSIGTAG_RSA, [1], [65])] (some [97])) (hdrOf sampleCtx2L) = .ok sampleEntries2 :=
  (show sampleCfg2L.files.map (entryOf sampleCtx2L) = sampleEntries2 by decide +kernel) ▸
    readback_file_entries sampleCtx2L _ (signatureHeader_no_ima _ _ (fun _ h => by cases h; decide)) (by decide) (by decide)
/-- … and the package without files -/
example : getFileEntries (signatureHeader [] none) (hdrOf ⟨{ sampleCfg with files := [], directories := [] }, 0, [], []⟩) = .ok [] :=
  readback_file_entries ⟨{ sampleCfg with files := [], directories := [] }, 0, [], []⟩ _
    (signatureHeader_no_ima [] _ (fun _ h => by cases h)) (fun _ h => by cases h) (fun _ h => by cases h)
example : getFileEntries (build sampleCfg2 1700000123 (fun _ => [97]) [] []).md.signature
    (build sampleCfg2 1700000123 (fun _ => [97]) [] []).md.header = .ok sampleEntries2 :=
  (show sampleCfg2.files.map (entryOf sampleCtx2) = sampleEntries2 by decide +kernel) ▸
    readback_file_entries_build sampleCfg2 1700000123 (fun _ => [97]) [] [] (by decide) (by decide)

theorem sample2_valid : Valid sampleCtx2 := by
  refine ⟨by decide +kernel, by decide +kernel, by decide, by decide +kernel, ?_⟩
  have h := fromEntries_store_le (recordsOf sampleCtx2) IndexTag.RPMTAG_HEADERIMMUTABLE
  have : (List.map (fun r => r.2.enc.length + 7) (recordsOf sampleCtx2)).sum + 16 < 2147483648 := by decide +kernel
  omega
theorem sample2_sig_ok : RecsOk [(SigTag.RPMSIGTAG_SHA256, .str [97])] SigTag.HEADER_SIGNATURES := by
  refine ⟨by decide +kernel, by decide +kernel, by decide, by decide, ?_⟩
  have h := fromEntries_store_le [(SigTag.RPMSIGTAG_SHA256, IndexData.str [97])] SigTag.HEADER_SIGNATURES
  have : (List.map (fun r : Nat × IndexData => r.2.enc.length + 7) [(SigTag.RPMSIGTAG_SHA256, IndexData.str [97])]).sum + 16 < 2147483648 := by
    decide +kernel
  omega
/-- the write → parse theorem at the sample: all hypotheses hold -/
example : ∃ p', parsePackage (writePackage ⟨⟨leadNew sampleCfg2.name, fromEntries [(SigTag.RPMSIGTAG_SHA256, .str [97])]
      SigTag.HEADER_SIGNATURES, hdrOf sampleCtx2⟩, [1, 2, 3]⟩) = .ok p' ∧ p'.content = [1, 2, 3]
    ∧ getFileEntries p'.md.signature p'.md.header = .ok (sampleCfg2.files.map (entryOf sampleCtx2)) :=
  readback_file_entries_reparsed sample2_valid sample2_sig_ok
    (signatureHeader_no_ima [] (some [97]) (fun _ h => by cases h)) [1, 2, 3] (by decide) (by decide)

/-! ### non-vacuity for the `Dependency` constructors: some constructor makes `w <= 1` (LESS | EQUAL = 10), `config(w) = 1`,
and the sample configuration's `requires` entry is `Dependency::any("w")`, read back through `dep_ctor_flags_readback` -/
example : (List.range depCtors.length).any (fun k => depCtor k [119] [49] == some ⟨[119], 10, [49]⟩) = true := by decide
example : (List.range depCtors.length).any (fun k => depCtor k [119] [49] ==
    some ⟨[99, 111, 110, 102, 105, 103, 40, 119, 41], 268435464, [49]⟩) = true := by decide
example : 10 ≤ depCtors.length ∧ depCtorNames.length = depCtors.length := by decide
example : ∃ k, depCtor k [119] [49] = some ⟨[119], 0, []⟩ ∧
    ∃ l, getDependencies (hdrOf sampleCtx) IndexTag.RPMTAG_REQUIRENAME IndexTag.RPMTAG_REQUIREFLAGS IndexTag.RPMTAG_REQUIREVERSION = .ok l
      ∧ (⟨[119], 0, []⟩ : Acc.Dependency) ∈ l := by
  have hk : ∃ k, depCtor k [119] [49] = some ⟨[119], 0, []⟩ := by
    have : (List.range depCtors.length).any (fun k => depCtor k [119] [49] == some ⟨[119], 0, []⟩) = true := by decide
    obtain ⟨k, _, hk⟩ := List.any_eq_true.mp this
    exact ⟨k, by simpa using hk⟩
  obtain ⟨k, hk⟩ := hk
  obtain ⟨s, hs, hall⟩ := dep_ctor_flags_readback sampleCtx hk
  obtain ⟨s', hs', hn', hf', hv'⟩ := dep_ctor_spec hk
  have : s' = s := by rw [hs] at hs'; cases hs'; rfl
  subst this
  obtain ⟨l, hl, hm⟩ := hall.2.1 (by decide)
  refine ⟨k, hk, l, hl, ?_⟩
  simp only at hn' hf' hv'
  rw [← hn', ← hf', ← hv'] at hm
  exact hm
/-! ## the builder front-end: `FileOptions::new`, its setters, `with_file` (coverage gaps G5, G11) -/
open RpmVerif.WithFile RpmVerif.FileMode

/-! ### the builder front-end: `FileOptions::new`, its setters, `with_file` (coverage gaps G5, G11) -/

/-- **the scraped defaults are the documented ones**: root / root, no link target, regular 0o664 (only used when the mode
is not inherited — it is), no flags, inherit, no capabilities, every verify flag -/
theorem file_option_defaults_standard (dest : Bytes) :
    FileOpts.new dest = ⟨dest, FileOptionsSpec.root, FileOptionsSpec.root, [], .regular 0o664, 0, true, none, FileVerifyFlags.all⟩ := rfl

/-- **the scraped `insert(..)` arguments are rpm's attribute bits of the directive each setter stands for** -/
theorem file_option_setters_standard : Gen.fileOptionSetters = FileOptionsSpec.settersStd := rfl

/-- the other setters have the shape the model writes out (checked by the scraper on every run) -/
theorem file_option_setters_shape :
    Gen.fileOptionPlainSettersAssign = true ∧ Gen.fileOptionModeSetterClearsInherit = true ∧
    Gen.fileOptionCapsSetterValidates = true ∧ Gen.fileOptionNoOtherSetters = true ∧
    Gen.fileOptionsNewDestIsArg = true ∧ Gen.fileOptionsNewCapsIsNone = true := by decide


/-- what a successful call stored: the source was readable with an mtime a `Timestamp` can hold, the setter chain and the
destination were accepted, and the entry carries exactly the source's data and the options' fields -/
theorem runCall_ok {sha256hex : Bytes → Bytes} {valid : Bytes → Bool} {c : Call} {e : FileE}
    (h : runCall sha256hex valid c = .ok e) :
    ∃ f o cpio dir base, c.src = .readable f ∧ 0 ≤ f.mtime.secs ∧ f.mtime.secs < 4294967296 ∧
      applySetters valid c.setters (FileOpts.new c.dest) = .ok o ∧ AddData.addData c.dest = .ok (cpio, dir, base) ∧
      e = entryFor sha256hex f o cpio dir base := by
  unfold runCall at h
  cases ho : applySetters valid c.setters (FileOpts.new c.dest) with
  | ok o =>
    rw [ho] at h
    obtain ⟨f, cpio, dir, base, hs, h0, h1, ha, he⟩ := withFile_ok h
    have hd : o.destination = c.dest := applySetters_keeps_dest ho
    exact ⟨f, o, cpio, dir, base, hs, h0, h1, rfl, hd ▸ ha, he⟩
  | err x => rw [ho] at h; cases h
  | panic p => rw [ho] at h; cases h

/-- **inherited mode** (no `mode(..)` in the chain): the stored mode word is the source's `st_mode`, low 16 bits — file type
and all twelve permission bits (set-uid, set-gid, sticky included), whatever the type -/
theorem with_file_inherit_mode {sha256hex : Bytes → Bytes} {valid : Bytes → Bool} {c : Call} {f : SrcFile} {e : FileE}
    (hsrc : c.src = .readable f) (hnm : ∀ s ∈ c.setters, s.isMode = false)
    (h : runCall sha256hex valid c = .ok e) : e.mode = f.stMode % 65536 := by
  obtain ⟨f', o, cpio, dir, base, hs, _, _, ho, _, rfl⟩ := runCall_ok h
  rw [hsrc] at hs; cases hs
  have := (applySetters_keeps_mode ho hnm).2
  have hi : o.inheritPermissions = true := by rw [this]; rfl
  simp only [entryFor, hi, if_true]

/-- **a regular source file** with permission bits `p`: the stored mode is `0o100000 | p`, which `FileMode::from` reads
back as `Regular { permissions: p }` — this is the word `readback_modes` returns for the file -/
theorem with_file_inherit_regular {sha256hex : Bytes → Bytes} {valid : Bytes → Bool} {c : Call} {f : SrcFile} {e : FileE}
    (p : Nat) (hp : p < 4096) (hst : f.stMode = S_IFREG ||| p)
    (hsrc : c.src = .readable f) (hnm : ∀ s ∈ c.setters, s.isMode = false)
    (h : runCall sha256hex valid c = .ok e) :
    e.mode = 0o100000 ||| p ∧ fromU16 e.mode = .regular p := by
  have hm := with_file_inherit_mode hsrc hnm h
  have hlt : (0o100000 ||| p : Nat) < 2 ^ 16 := Nat.or_lt_two_pow (by decide) (by omega)
  have e1 : e.mode = 0o100000 ||| p := by rw [hm, hst]; exact Nat.mod_eq_of_lt hlt
  refine ⟨e1, ?_⟩
  rw [e1]
  have hpp : p &&& 0o7777 = p := by
    have : (0o7777 : Nat) = 2 ^ 12 - 1 := by decide
    rw [this, Nat.and_two_pow_sub_one_eq_mod]; exact Nat.mod_eq_of_lt hp
  have hty : (0o100000 ||| p) &&& 0o170000 = 0o100000 := by
    rw [Nat.and_or_distrib_right]
    have h0 : p &&& 0o170000 = 0 := by rw [← hpp]; exact perm_and_type p
    have h1 : (0o100000 &&& 0o170000 : Nat) = 0o100000 := by decide
    rw [h0, h1, Nat.or_zero]
  have hpm : (0o100000 ||| p) &&& 0o7777 = p := by
    rw [Nat.and_or_distrib_right]
    have h1 : (0o100000 &&& 0o7777 : Nat) = 0 := by decide
    rw [h1, hpp, Nat.zero_or]
  rcases fromU16_cases (0o100000 ||| p) with ⟨h1, _⟩ | ⟨_, e2⟩ | ⟨h1, _⟩ | ⟨_, h2, _⟩
  · rw [hty] at h1; cases h1
  · rw [e2, hpm]
  · rw [hty] at h1; cases h1
  · exact absurd hty h2

/-- **an explicit mode wins**: when the chain contains `mode(m)` and no later `mode(..)`, the stored mode word is `m`'s
(`raw_mode()`), whatever the source file's `st_mode` and whatever other setters come before or after it -/
theorem explicit_mode_wins {sha256hex : Bytes → Bytes} {valid : Bytes → Bool} {c : Call} {e : FileE}
    (pre post : List Setter) (m : FileMode) (hc : c.setters = pre ++ .mode m :: post)
    (hpost : ∀ s ∈ post, s.isMode = false) (h : runCall sha256hex valid c = .ok e) : e.mode = rawMode m := by
  obtain ⟨f, o, cpio, dir, base, _, _, _, ho, _, rfl⟩ := runCall_ok h
  rw [hc] at ho
  obtain ⟨o₁, _, h2⟩ := applySetters_append_ok ho
  obtain ⟨o₂, h3, h4⟩ := applySetters_cons_ok h2
  obtain ⟨a, b⟩ := applySetters_keeps_mode h4 hpost
  have hclr : Gen.fileOptionModeSetterClearsInherit = true := by decide
  simp only [Setter.apply, Out.ok.injEq] at h3
  subst h3
  simp only [setMode, hclr, if_true] at a b
  simp only [entryFor, b, a, Bool.false_eq_true, if_false]

/-- `mode(i32)` as callers write it (`From<i32>`): the word read back is the integer's low 16 bits -/
theorem explicit_mode_i32 {sha256hex : Bytes → Bytes} {valid : Bytes → Bool} {c : Call} {e : FileE}
    (pre post : List Setter) (n : Int) (hc : c.setters = pre ++ .mode (fromI32 n) :: post)
    (hpost : ∀ s ∈ post, s.isMode = false) (h : runCall sha256hex valid c = .ok e) : e.mode = asU16 n := by
  rw [explicit_mode_wins pre post _ hc hpost h, rawMode_fromI32]

/-- **header mode = cpio mode, for EVERY `i32` given to `mode(..)`** (also those outside 16 bits, which `From<i32>` turns into
`FileMode::Invalid { raw_mode }`): the RPMTAG_FILEMODES word (`u16::from`) and the cpio `c_mode` (`u32::from`) `prepare_data`
derives from the stored mode are the same 16-bit word, the integer's low 16 bits — e.g. `mode(0o271664)` is 0o071664 in both
places, `mode(-1)` is 0o177777, `mode(65536 + 0o100644)` is 0o100644 -/
theorem mode_header_eq_cpio (n : Int) :
    cpioModeWord (fromI32 n) = headerModeWord (fromI32 n) ∧ headerModeWord (fromI32 n) = asU16 n ∧ asU16 n < 65536 :=
  ⟨rfl, rawMode_fromI32 n, asU16_lt n⟩

/-- … and that word is what the entry of a call whose last `mode(..)` is `mode(n)` stores (hence what `readback_modes` returns
and what the archive entry carries) -/
theorem mode_header_eq_cpio_stored {sha256hex : Bytes → Bytes} {valid : Bytes → Bool} {c : Call} {e : FileE}
    (pre post : List Setter) (n : Int) (hc : c.setters = pre ++ .mode (fromI32 n) :: post)
    (hpost : ∀ s ∈ post, s.isMode = false) (h : runCall sha256hex valid c = .ok e) :
    e.mode = headerModeWord (fromI32 n) ∧ e.mode = cpioModeWord (fromI32 n) ∧ e.mode = asU16 n ∧ e.mode < 65536 := by
  have h1 := explicit_mode_i32 pre post n hc hpost h
  obtain ⟨a, b, c'⟩ := mode_header_eq_cpio n
  exact ⟨by rw [h1, b], by rw [h1, a, b], h1, by rw [h1]; exact c'⟩

theorem readback_verifyflags (x : Ctx) (hne : x.c.files.isEmpty = false) :
    getU32Array (hdrOf x) IndexTag.RPMTAG_FILEVERIFYFLAGS = .ok (x.c.files.map (·.verifyFlags)) :=
  readback_file_array x IndexData.asU32Array (i := 34) rfl hne rfl

/-- **`with_file` calls → accessors.** For the builder state a sequence of `FileOptions::new(dest).<setters>` +
`with_file(source, ..)` calls leaves behind (every call with `?`), the per-file arrays of the built header are the stored
entries' fields in `BTreeMap` order, `get_file_paths()` lists `dir ++ base name` (the directory of every entry IS registered:
no hypothesis), and every stored entry is the entry of one of the calls: its source was readable, mtime inside 1970..2106,
setter chain and destination accepted, and it carries that source's size / mtime / digest and those options' fields
(`entryFor`). -/
theorem with_file_readback (x : Ctx) (sha256hex : Bytes → Bytes) (valid : Bytes → Bool) (calls : List Call) (st : BState)
    (hst : buildState sha256hex valid calls BState.empty = .ok st)
    (hf : x.c.files = st.files) (hdir : x.c.directories = st.directories) (hne : x.c.files.isEmpty = false) :
    getU16Array (hdrOf x) IndexTag.RPMTAG_FILEMODES = .ok (x.c.files.map (·.mode)) ∧
    getU32Array (hdrOf x) IndexTag.RPMTAG_FILEMTIMES = .ok (x.c.files.map fun f => clampMtime x.c.sourceDate f.mtime) ∧
    getU32Array (hdrOf x) IndexTag.RPMTAG_FILEFLAGS = .ok (x.c.files.map (·.flags)) ∧
    getStringArray (hdrOf x) IndexTag.RPMTAG_FILEUSERNAME = .ok (x.c.files.map (·.user)) ∧
    getStringArray (hdrOf x) IndexTag.RPMTAG_FILEGROUPNAME = .ok (x.c.files.map (·.group)) ∧
    getStringArray (hdrOf x) IndexTag.RPMTAG_FILELINKTOS = .ok (x.c.files.map (·.link)) ∧
    getStringArray (hdrOf x) IndexTag.RPMTAG_FILEDIGESTS = .ok (x.c.files.map (·.shaHex)) ∧
    getU32Array (hdrOf x) IndexTag.RPMTAG_FILEVERIFYFLAGS = .ok (x.c.files.map (·.verifyFlags)) ∧
    getFilePaths (hdrOf x) = .ok (x.c.files.map fun f => pathJoin f.dir f.baseName) ∧
    ∀ e ∈ x.c.files, ∃ c ∈ calls, ∃ f o cpio dir base, c.src = .readable f ∧ 0 ≤ f.mtime.secs ∧ f.mtime.secs < 4294967296 ∧
      applySetters valid c.setters (FileOpts.new c.dest) = .ok o ∧ AddData.addData c.dest = .ok (cpio, dir, base) ∧
      e = entryFor sha256hex f o cpio dir base := by
  obtain ⟨hfrom, hdirs⟩ := buildState_ok hst
  have hd : ∀ f ∈ x.c.files, f.dir ∈ x.c.directories := by
    rw [hf, hdir]; exact hdirs (fun _ h => by cases h)
  refine ⟨readback_modes x hne, readback_mtimes x hne, readback_fileflags x hne, readback_users x hne, readback_groups x hne,
    readback_linktos x hne, readback_digests x hne, readback_verifyflags x hne, readback_paths x hne hd, ?_⟩
  intro e he
  rw [hf] at he
  rcases hfrom e he with h0 | ⟨c, hc, hr⟩
  · cases h0
  · exact ⟨c, hc, runCall_ok hr⟩

/-- **flags**: the FILEFLAGS word of every file is the OR of the attribute bits of the `is_*` setters its options chain
contained — the bits of `Spec/FileOptions.lean` (`file_option_setters_standard`) -/
theorem readback_flags_of_setters (x : Ctx) (sha256hex : Bytes → Bytes) (valid : Bytes → Bool) (calls : List Call) (st : BState)
    (hst : buildState sha256hex valid calls BState.empty = .ok st)
    (hf : x.c.files = st.files) (hne : x.c.files.isEmpty = false) :
    getU32Array (hdrOf x) IndexTag.RPMTAG_FILEFLAGS = .ok (x.c.files.map (·.flags)) ∧
    ∀ e ∈ x.c.files, ∃ c ∈ calls, runCall sha256hex valid c = .ok e ∧ e.flags = settersFlags 0 c.setters := by
  refine ⟨readback_fileflags x hne, ?_⟩
  intro e he
  rw [hf] at he
  rcases (buildState_ok hst).1 e he with h0 | ⟨c, hc, hr⟩
  · cases h0
  · obtain ⟨f, o, cpio, dir, base, _, _, _, ho, _, rfl⟩ := runCall_ok hr
    exact ⟨c, hc, hr, applySetters_flag ho⟩

/-- each setter's contribution, by name of the directive -/
theorem setterBits_standard :
    setterBits 0 = FileOptionsSpec.RPMFILE_DOC ∧ setterBits 1 = FileOptionsSpec.RPMFILE_CONFIG ∧
    setterBits 2 = FileOptionsSpec.RPMFILE_CONFIG ||| FileOptionsSpec.RPMFILE_NOREPLACE ∧
    setterBits 3 = FileOptionsSpec.RPMFILE_GHOST ∧ setterBits 4 = FileOptionsSpec.RPMFILE_LICENSE ∧
    setterBits 5 = FileOptionsSpec.RPMFILE_README ∧ ∀ i, 6 ≤ i → setterBits i = 0 := by
  refine ⟨rfl, rfl, rfl, rfl, rfl, rfl, ?_⟩
  intro i hi
  unfold setterBits
  rw [List.getElem?_eq_none (by simpa [Gen.fileOptionSetters] using hi)]
  rfl

/-- **defaults**: a package whose only file was added with bare `FileOptions::new(dest)` reads back owner and group `root`,
no flags, no link target, every verify flag, the source's own mode word and (clamped) mtime, and no FILECAPS tag -/
theorem defaults_readback (x : Ctx) (sha256hex : Bytes → Bytes) (valid : Bytes → Bool) (src : Source) (dest : Bytes) (st : BState)
    (hst : buildState sha256hex valid [⟨src, dest, []⟩] BState.empty = .ok st)
    (hf : x.c.files = st.files) :
    ∃ f, src = .readable f ∧
    getStringArray (hdrOf x) IndexTag.RPMTAG_FILEUSERNAME = .ok [FileOptionsSpec.root] ∧
    getStringArray (hdrOf x) IndexTag.RPMTAG_FILEGROUPNAME = .ok [FileOptionsSpec.root] ∧
    getU32Array (hdrOf x) IndexTag.RPMTAG_FILEFLAGS = .ok [0] ∧
    getStringArray (hdrOf x) IndexTag.RPMTAG_FILELINKTOS = .ok [[]] ∧
    getU32Array (hdrOf x) IndexTag.RPMTAG_FILEVERIFYFLAGS = .ok [FileVerifyFlags.all] ∧
    getU16Array (hdrOf x) IndexTag.RPMTAG_FILEMODES = .ok [f.stMode % 65536] ∧
    getU32Array (hdrOf x) IndexTag.RPMTAG_FILEMTIMES = .ok [clampMtime x.c.sourceDate f.mtime.secs.toNat] ∧
    getStringArray (hdrOf x) IndexTag.RPMTAG_FILECAPS = .err "notfound" := by
  obtain ⟨e, hr, h2⟩ := buildState_cons_ok hst
  simp only [buildState, Out.ok.injEq] at h2
  have hfiles : x.c.files = [e] := by rw [hf, ← h2]; rfl
  obtain ⟨f, o, cpio, dir, base, hs, _, _, ho, _, he⟩ := runCall_ok hr
  simp only [applySetters, Out.ok.injEq] at ho
  have hne : x.c.files.isEmpty = false := by rw [hfiles]; rfl
  have hcaps : usesCaps x.c = false := by
    simp only [usesCaps, hfiles, List.any_cons, List.any_nil, Bool.or_false, he, entryFor, ← ho]
    rfl
  refine ⟨f, hs, ?_, ?_, ?_, ?_, ?_, ?_, ?_, ?_⟩
  · rw [readback_users x hne, hfiles, he, ← ho]; rfl
  · rw [readback_groups x hne, hfiles, he, ← ho]; rfl
  · rw [readback_fileflags x hne, hfiles, he, ← ho]; rfl
  · rw [readback_linktos x hne, hfiles, he, ← ho]; rfl
  · rw [readback_verifyflags x hne, hfiles, he, ← ho]; rfl
  · rw [readback_modes x hne, hfiles, he, ← ho]; rfl
  · rw [readback_mtimes x hne, hfiles, he, ← ho]; rfl
  · rw [readback_caps x hne, hcaps]; rfl


/-! ### non-vacuity for the front-end: a set-uid executable (mtime 2017), options chains with flags / owner / explicit
mode / capabilities / verify flags, a duplicate destination (the first call's entry stays), a FIFO source -/
def srcA : SrcFile := ⟨[1, 2, 3], 0o104755, ⟨1500000000, 5, by decide⟩⟩
def srcFifo : SrcFile := ⟨[7], 0o010644, ⟨0, 0, by decide⟩⟩
/-- `FileOptions::new("/u/x").is_config_noreplace().user("u").is_doc()` -/
def callA : Call := ⟨.readable srcA, [47, 117, 47, 120], [.flag 2, .user [117], .flag 0]⟩
/-- `FileOptions::new("./a").mode(0o100644).group("g").caps("=p")?.verify(3)` -/
def callB : Call := ⟨.readable srcA, [46, 47, 97], [.mode (fromI32 0o100644), .group [103], .caps [61, 112], .verify 3]⟩
def entryA : FileE := ⟨[46, 47, 117, 47, 120], [47, 117, 47], [120], 3, 0o104755, [117], sRoot, [], 19, none, FileVerifyFlags.all, 1500000000, sha64⟩
def entryB : FileE := ⟨[46, 47, 97], [47], [97], 3, 0o100644, sRoot, [103], [], 0, some [61, 112], 3, 1500000000, sha64⟩

example : runCall (fun _ => sha64) (fun _ => true) callA = .ok entryA := by decide
example : runCall (fun _ => sha64) (fun _ => true) callB = .ok entryB := by decide
/-- the state: `BTreeMap` order ("./a" before "./u/x"), the second `callA` does not replace the first -/
theorem demo_state : buildState (fun _ => sha64) (fun _ => true) [callA, callB, { callA with setters := [] }] BState.empty =
    .ok ⟨[entryB, entryA], [[47], [47, 117, 47]]⟩ := by decide
/-- `with_file_inherit_mode` at the sample: 0o104755 (set-uid kept) -/
example : entryA.mode = srcA.stMode % 65536 :=
  with_file_inherit_mode (c := callA) rfl (by decide) (show runCall (fun _ => sha64) (fun _ => true) callA = .ok entryA by decide)
example : entryA.mode = 0o100000 ||| 0o4755 ∧ fromU16 entryA.mode = .regular 0o4755 :=
  with_file_inherit_regular (c := callA) 0o4755 (by decide) (by decide) rfl (by decide)
    (show runCall (fun _ => sha64) (fun _ => true) callA = .ok entryA by decide)
/-- `explicit_mode_wins` at the sample: the set-uid source is stored as 0o100644 -/
example : entryB.mode = rawMode (fromI32 0o100644) :=
  explicit_mode_wins (c := callB) [] [.group [103], .caps [61, 112], .verify 3] _ rfl (by decide)
    (show runCall (fun _ => sha64) (fun _ => true) callB = .ok entryB by decide)
/-- `mode_header_eq_cpio` at the words of the seeded change C09-7 and its neighbours -/
example : headerModeWord (fromI32 0o271664) = 0o071664 ∧ cpioModeWord (fromI32 0o271664) = 0o071664 ∧
    headerModeWord (fromI32 2147483647) = 65535 ∧ headerModeWord (fromI32 (-1)) = 65535 ∧ headerModeWord (fromI32 (-32769)) = 32767 ∧
    headerModeWord (fromI32 (65536 + 0o100644)) = 0o100644 ∧ fromI32 0o271664 = .invalid 0o271664 := by decide
/-- a FIFO source is read and stored with the FIFO's own mode word 0o010644 (not a type `FileMode` knows) -/
example : (withFile (fun _ => sha64) (.readable srcFifo) (FileOpts.new [47, 97])).toOption.map (·.mode) = some 0o010644 := by decide
/-- `with_file_readback` / `readback_flags_of_setters` at the sample configuration -/
def demoCtx : Ctx := ⟨{ sampleCfg with files := [entryB, entryA], directories := [[47], [47, 117, 47]] }, 1700000000, [97], [98]⟩
example : getU16Array (hdrOf demoCtx) IndexTag.RPMTAG_FILEMODES = .ok [0o100644, 0o104755] :=
  (with_file_readback demoCtx _ _ _ _ demo_state rfl rfl rfl).1
example : getU32Array (hdrOf demoCtx) IndexTag.RPMTAG_FILEFLAGS = .ok [0, FileOptionsSpec.RPMFILE_CONFIG ||| FileOptionsSpec.RPMFILE_NOREPLACE ||| FileOptionsSpec.RPMFILE_DOC] :=
  (readback_flags_of_setters demoCtx _ _ _ _ demo_state rfl rfl).1
example : settersFlags 0 callA.setters = 19 ∧ settersFlags 0 callB.setters = 0 := by decide
/-- `defaults_readback` at a sample: a single bare `FileOptions::new("/a")` call -/
def entryC : FileE := ⟨[46, 47, 97], [47], [97], 3, 0o104755, sRoot, sRoot, [], 0, none, FileVerifyFlags.all, 1500000000, sha64⟩
theorem demo_state_bare : buildState (fun _ => sha64) (fun _ => true) [⟨.readable srcA, [47, 97], []⟩] BState.empty =
    .ok ⟨[entryC], [[47]]⟩ := by decide
def demoCtxBare : Ctx := ⟨{ sampleCfg with files := [entryC], directories := [[47]] }, 1700000000, [97], [98]⟩
example : ∃ f, Source.readable srcA = .readable f ∧
    getStringArray (hdrOf demoCtxBare) IndexTag.RPMTAG_FILEUSERNAME = .ok [FileOptionsSpec.root] ∧
    getStringArray (hdrOf demoCtxBare) IndexTag.RPMTAG_FILEGROUPNAME = .ok [FileOptionsSpec.root] ∧
    getU32Array (hdrOf demoCtxBare) IndexTag.RPMTAG_FILEFLAGS = .ok [0] ∧
    getStringArray (hdrOf demoCtxBare) IndexTag.RPMTAG_FILELINKTOS = .ok [[]] ∧
    getU32Array (hdrOf demoCtxBare) IndexTag.RPMTAG_FILEVERIFYFLAGS = .ok [FileVerifyFlags.all] ∧
    getU16Array (hdrOf demoCtxBare) IndexTag.RPMTAG_FILEMODES = .ok [f.stMode % 65536] ∧
    getU32Array (hdrOf demoCtxBare) IndexTag.RPMTAG_FILEMTIMES = .ok [clampMtime demoCtxBare.c.sourceDate f.mtime.secs.toNat] ∧
    getStringArray (hdrOf demoCtxBare) IndexTag.RPMTAG_FILECAPS = .err "notfound" :=
  defaults_readback demoCtxBare _ _ _ _ _ demo_state_bare rfl


/-! ## the builder state as a function of the CALLS (audit items a6 / c18), and `Valid` from the inputs (a4 / c17)

`Bld.Cfg.new` / `Bld.MetaSetter.apply` (Model/Builder.lean) are `PackageBuilder::new` and the setters of `impl PackageBuilder`;
`Build.run` (Model/PrepareData.lean) interleaves them with `with_file`. The `readback_*` theorems above speak about the builder
STATE; the theorems here tie the state to the calls, so that "every value supplied to the builder" means the arguments. -/
section calls
open RpmVerif.Build

/-- **the table scraped from `impl PackageBuilder` is what the model implements**: same setters, same order, each writing the
same field in the same way (assign / `Some(..)` / `push`); a setter that is added, renamed or re-pointed breaks this theorem -/
theorem builder_setters_standard : Gen.builderSetters = modelledSetterRows := by decide

/-- … and `PackageBuilder::new` stores its five arguments, `release = "1"`, `epoch = 0`, everything else `Default::default()`;
the `Scriptlet` constructors have the shape the model gives them -/
theorem builder_new_standard : Gen.builderNewArgs = ["name", "version", "license", "arch", "summary"] ∧
    Gen.builderNewArgsAssigned = true ∧ Gen.builderNewRestDefault = true ∧ Gen.builderNewOtherLiterals = [] ∧
    Gen.scriptletCtorsStandard = true ∧ Gen.builderNewRelease = [49] ∧ Gen.builderNewEpoch = 0 := by decide

/-- **`Option<String>` setters: the argument of the last call is what the state holds** -/
theorem opt_setters_last_call_wins : ∀ p ∈ optStrSetters, ∀ (c : Cfg) (pre post : List MetaSetter) (x : Bytes),
    (∀ t ∈ post, ∀ y, t ≠ p.1 y) → p.2 (c.applyAll (pre ++ p.1 x :: post)) = some x := opt_setter_last_wins

/-- a setter that is never called leaves `None` -/
theorem opt_setters_never_called : ∀ p ∈ optStrSetters, ∀ (c : Cfg) (ss : List MetaSetter),
    (∀ t ∈ ss, ∀ y, t ≠ p.1 y) → p.2 (c.applyAll ss) = p.2 c := opt_setter_never

/-- **scriptlet setters: the last call wins** (`k` = position in `Bld.scriptSetterNames`) -/
theorem script_setters_last_call_wins {k : Nat} {π : Cfg → Option Bld.Scriptlet} (hk : scriptFields[k]? = some π) (c : Cfg)
    (pre post : List MetaSetter) (s : Bld.Scriptlet) (h : ∀ t ∈ post, ∀ s', t ≠ .script k s') :
    π (c.applyAll (pre ++ .script k s :: post)) = some s := script_setter_last_wins hk c pre post s h

/-- **dependency setters accumulate in call order** (`k` = position in `Bld.depSetterNames`) -/
theorem dep_setters_accumulate_in_order {k : Nat} {π : Cfg → List Dep} (hk : depFields[k]? = some π) (c : Cfg)
    (ss : List MetaSetter) : π (c.applyAll ss) = π c ++ depCalls k ss := dep_setters_accumulate hk c ss

theorem changelog_accumulates_in_order (c : Cfg) (ss : List MetaSetter) :
    (c.applyAll ss).changelog = c.changelog ++ ss.filterMap (fun | .changelog n e t => some (n, e, t) | _ => none) :=
  changelog_accumulates c ss

/-- `epoch`, `release`, `source_date`, `compression`: the last call wins -/
theorem plain_setters_last_call_wins (c : Cfg) (pre post : List MetaSetter) :
    (∀ n, (∀ t ∈ post, ∀ m, t ≠ .epoch m) → (c.applyAll (pre ++ .epoch n :: post)).epoch = n) ∧
    (∀ x, (∀ t ∈ post, ∀ y, t ≠ .release y) → (c.applyAll (pre ++ .release x :: post)).release = x) ∧
    (∀ n, (∀ t ∈ post, ∀ m, t ≠ .sourceDate m) → (c.applyAll (pre ++ .sourceDate n :: post)).sourceDate = some n) ∧
    (∀ k, (∀ t ∈ post, ∀ m, t ≠ .compression m) → (c.applyAll (pre ++ .compression k :: post)).compression = k) :=
  plain_setters_last_wins c pre post

/-- no setter touches the five arguments of `new`, the files, the directories -/
theorem setters_keep_new_args (c : Cfg) (ss : List MetaSetter) :
    (c.applyAll ss).name = c.name ∧ (c.applyAll ss).version = c.version ∧ (c.applyAll ss).license = c.license ∧
    (c.applyAll ss).arch = c.arch ∧ (c.applyAll ss).summary = c.summary ∧ (c.applyAll ss).files = c.files ∧
    (c.applyAll ss).directories = c.directories ∧ (c.applyAll ss).largeFileThreshold = c.largeFileThreshold :=
  new_args_kept c ss

/-- **the state after a call sequence that interleaves setters and `with_file`**: the metadata part is `Cfg.applyAll` of the
setter calls, the file part `WithFile.buildState` of the `with_file` calls -/
theorem state_of_calls {sha256hex : Bytes → Bytes} {valid : Bytes → Bool} {calls : List Build.Call} {s s' : St}
    (h : run sha256hex valid calls s = .ok s') :
    s'.base = s.base.applyAll (calls.filterMap metaOf) ∧
    WithFile.buildState sha256hex valid (calls.filterMap fileOf) ⟨s.fes.map (·.1), s.dirs⟩ = .ok ⟨s'.fes.map (·.1), s'.dirs⟩ :=
  ⟨run_base h, run_files h⟩

/-! ### from the calls to the accessors -/

/-- **`url(u)` … read back**: whatever else is called before, and whatever OTHER setters after, `get_url` of the built header
returns the argument of the last `url` call -/
theorem url_of_calls (c : Cfg) (pre post : List MetaSetter) (u : Bytes) (h : ∀ t ∈ post, ∀ y, t ≠ .url y)
    (bt : Nat) (p a : Bytes) :
    getString (hdrOf ⟨c.applyAll (pre ++ .url u :: post), bt, p, a⟩) IndexTag.RPMTAG_URL = .ok u := by
  have := opt_setter_last_wins (.url, (·.url)) (by simp [optStrSetters]) c pre post u h
  simp only at this
  rw [readback_url, this]

/-- **a fresh builder reads back the defaults of `new`**: release "1", epoch 0, no optional tag -/
theorem new_defaults_readback (name version license arch summary : Bytes) (dc : Bld.Comp) (bt : Nat) (p a : Bytes) :
    let x : Ctx := ⟨Cfg.new name version license arch summary dc, bt, p, a⟩
    getString (hdrOf x) IndexTag.RPMTAG_RELEASE = .ok [49] ∧ getU32 (hdrOf x) IndexTag.RPMTAG_EPOCH = .ok 0 ∧
    getString (hdrOf x) IndexTag.RPMTAG_NAME = .ok name ∧ getString (hdrOf x) IndexTag.RPMTAG_URL = .err "notfound" ∧
    getString (hdrOf x) IndexTag.RPMTAG_VENDOR = .err "notfound" ∧ getString (hdrOf x) IndexTag.RPMTAG_BUILDHOST = .err "notfound" := by
  intro x
  exact ⟨readback_release x, readback_epoch x, readback_name x, readback_url x, readback_vendor x, readback_buildhost x⟩

/-- **`provides(d)` calls read back in call order**, followed by the two the library adds -/
theorem provides_of_calls (c : Cfg) (ss : List MetaSetter) (bt : Nat) (p a : Bytes) :
    getDependencies (hdrOf (Ctx.mk (c.applyAll ss) bt p a)) IndexTag.RPMTAG_PROVIDENAME IndexTag.RPMTAG_PROVIDEFLAGS IndexTag.RPMTAG_PROVIDEVERSION =
      .ok ((allProvides (c.applyAll ss)).map Dep.toAcc) ∧
    (c.applyAll ss).provides = c.provides ++ depCalls 0 ss :=
  ⟨(readback_provides (Ctx.mk (c.applyAll ss) bt p a)).1, dep_setters_accumulate (k := 0) (π := (·.provides)) rfl c ss⟩


/-! ### `Valid` from the inputs -/

/-- **`Valid` from the builder state**: NUL-free Rust strings, numbers of the width of their Rust types, a clamped build time
and hex digests, and `102 * (2 * weight + 1008 + |digests|) + 16 < 2^31` — with `cfgWeight` the total length of the strings the
state holds plus a constant per file / dependency / changelog entry — give a header `from_entries` lays out canonically below
2 GiB. (102 = number of slots; every single record is at most `slotBound x` long, `Bld.slots_ok`.) -/
theorem valid_of_cfg (x : Ctx) (ok : CfgOk x.c) (hbt : x.bt < 4294967296) (hp : RustStr x.payloadShaHex)
    (ha : RustStr x.archiveShaHex) (hsize : 102 * (slotBound x + 8) + 16 < 2147483648) : Valid x :=
  recsOk_of_cfg ok hbt hp ha (by omega) hsize

/-- **`Valid` from the inputs of the builder** (audit items c17 / a4): `PackageBuilder::new` and ANY sequence of setter and
`with_file` calls whose string arguments are NUL-free (they are valid UTF-8 by their Rust type: `RustStr`) and whose numbers
have the width of their Rust type (`Call.ArgsOk`) — whatever the source files are, whatever `SystemTime` / `DateTime` values
are passed (those calls store a `u32` or do not return) — leave a state whose header is `Valid`, for every clock reading that
is a `u32` and the digests `hex::encode(Sha256(..))` of any payload / archive, as long as the strings held are not too long
(`cfgWeight` of the state below 10.5 MB) and the contents sum below 2^64 bytes. -/
theorem valid_of_inputs (sha256 : Bytes → Bytes) (valid : Bytes → Bool) (name version license arch summary : Bytes)
    (dc : Bld.Comp) (calls : List Build.Call) (s : St)
    (hnew : RustStr name ∧ RustStr version ∧ RustStr license ∧ RustStr arch ∧ RustStr summary)
    (hcalls : ∀ c ∈ calls, c.ArgsOk)
    (hrun : run (Sign.shaHex sha256) valid calls (St.new name version license arch summary dc) = .ok s)
    (now : Nat) (hnow : now < 4294967296) (payload archive : Bytes) (hdig : ∀ b, (sha256 b).length ≤ 32)
    (hmem : (s.fes.map (·.2.length)).sum < 18446744073709551616)
    (hsize : cfgWeight s.cfg < 10500000) :
    Valid (mkCtx s.cfg now (Sign.shaHex sha256 payload) (Sign.shaHex sha256 archive)) := by
  have hsha : ∀ b, RustStr (Sign.shaHex sha256 b) := fun b => rustStr_ascii _ (Sign.hexLower_ascii _)
  have hlen : ∀ b, (Sign.shaHex sha256 b).length = 2 * (sha256 b).length := fun b => Build.hexLower_length _
  obtain ⟨h1, h2, h3, h4, h5⟩ := hnew
  have stok : StOk s := StOk.run (stOk_new dc h1 h2 h3 h4 h5) hsha hcalls hrun
  obtain ⟨inv, _⟩ := (inv_new name version license arch summary dc).run hrun
  have htot : combinedSize s.cfg < 18446744073709551616 := by
    have : combinedSize s.cfg = (s.fes.map (·.2.length)).sum := by
      simp only [combinedSize, St.cfg, List.map_map]
      exact congrArg List.sum (List.map_congr_left (fun p hp => inv.size p hp))
    omega
  have ok := stok.cfgOk htot
  have hbt : (mkCtx s.cfg now (Sign.shaHex sha256 payload) (Sign.shaHex sha256 archive)).bt < 4294967296 := by
    show clampNow s.cfg.sourceDate now < 4294967296
    unfold clampNow
    cases hsd : s.cfg.sourceDate with
    | none => exact hnow
    | some t => simp only; split; exact ok.sourceDate t hsd; exact hnow
  refine valid_of_cfg _ ok hbt (hsha payload) (hsha archive) ?_
  have e1 := hlen payload; have e2 := hlen archive
  have d1 := hdig payload; have d2 := hdig archive
  have hb : slotBound (mkCtx s.cfg now (Sign.shaHex sha256 payload) (Sign.shaHex sha256 archive)) =
      2 * cfgWeight s.cfg + (Sign.shaHex sha256 payload).length + (Sign.shaHex sha256 archive).length + 1000 := rfl
  have hS : slotBound (mkCtx s.cfg now (Sign.shaHex sha256 payload) (Sign.shaHex sha256 archive)) ≤ 21001128 := by
    rw [hb, e1, e2]; omega
  generalize slotBound (mkCtx s.cfg now (Sign.shaHex sha256 payload) (Sign.shaHex sha256 archive)) = S at hS ⊢
  omega



/-- **`Valid` from the arguments alone** (the header-size bound in INPUT lengths): as `valid_of_inputs`, with the weight of the
state replaced by what the caller wrote — the five strings of `new` and, per call, `Call.weight`: the strings of a metadata
setter (+ 4 per dependency / changelog entry), for `with_file` twice the destination, the option strings and 128 — summing below
10.5 MB. (A value that a later call overwrites still counts: the bound is on the calls, not on the state.) -/
theorem valid_of_args (sha256 : Bytes → Bytes) (valid : Bytes → Bool) (name version license arch summary : Bytes)
    (dc : Bld.Comp) (calls : List Build.Call) (s : St)
    (hnew : RustStr name ∧ RustStr version ∧ RustStr license ∧ RustStr arch ∧ RustStr summary)
    (hcalls : ∀ c ∈ calls, c.ArgsOk)
    (hrun : run (Sign.shaHex sha256) valid calls (St.new name version license arch summary dc) = .ok s)
    (now : Nat) (hnow : now < 4294967296) (payload archive : Bytes) (hdig : ∀ b, (sha256 b).length ≤ 32)
    (hmem : (s.fes.map (·.2.length)).sum < 18446744073709551616)
    (hsize : strW name + strW version + strW license + strW arch + strW summary + 2 + (calls.map Build.Call.weight).sum < 10500000) :
    Valid (mkCtx s.cfg now (Sign.shaHex sha256 payload) (Sign.shaHex sha256 archive)) := by
  refine valid_of_inputs sha256 valid name version license arch summary dc calls s hnew hcalls hrun now hnow payload archive hdig hmem ?_
  have hsha : ∀ b, (Sign.shaHex sha256 b).length ≤ 64 := fun b => by
    have := Build.hexLower_length (sha256 b); have := hdig b
    show (Digest.hexLower (sha256 b)).length ≤ 64
    omega
  have hw := run_weight hsha hrun
  obtain ⟨hf, hd⟩ := run_base_nofiles hrun
  rw [cfgWeight_cfg s (by rw [hf]; rfl) (by rw [hd]; rfl)]
  rw [stWeight_new] at hw
  omega

/-! ### non-vacuity -/
section
open RpmVerif.WithFile RpmVerif.Utf8

/-- "ü" (two bytes) and "日" (three bytes) are Rust strings; a string with a NUL is not -/
theorem rustStr_samples : RustStr [195, 188] ∧ RustStr [230, 151, 165, 47, 102] ∧ ¬ RustStr [97, 0, 98] := by
  refine ⟨⟨by decide, Valid.cons (c := [195, 188]) ⟨by decide, by decide⟩ .nil⟩,
    ⟨by decide, Valid.cons (c := [230, 151, 165]) ⟨by decide, by decide, by decide⟩ (valid_ascii [47, 102] (by decide))⟩, fun h => h.1 (by decide)⟩

/-- calls of every kind with non-ASCII arguments: a repeated setter, a typed source date, scriptlets, dependencies, two files -/
def inputCalls : List Build.Call :=
  [.set (.url [195, 188]), .set (.url [104]), .set (.epoch 4294967295), .sourceDate (.src (.sys ⟨1600000000, 5, by decide⟩)),
   .set (.script 0 (Bld.Scriptlet.new [195, 188])), .set (.dep 1 ⟨[119], 8, [49]⟩), .set (.changelog [109] [195, 188] 7),
   .file ⟨.readable ⟨[1, 2, 3], 0o104755, ⟨1500000000, 0, by decide⟩⟩, [47, 195, 188, 47, 102], [.user [195, 188], .flag 0]⟩,
   .file ⟨.readable ⟨[], 0o100644, ⟨0, 0, by decide⟩⟩, [46, 47, 97], []⟩]

-- the hypotheses of `valid_of_inputs` hold for them: the arguments …
example : ∀ c ∈ inputCalls, c.ArgsOk := by
  have hu := rustStr_samples.1
  intro c hc
  simp only [inputCalls, List.mem_cons, List.not_mem_nil, or_false] at hc
  rcases hc with rfl | rfl | rfl | rfl | rfl | rfl | rfl | rfl | rfl
  · exact hu
  · exact rustStr_ascii [104] (by decide)
  · show (4294967295 : Nat) < 4294967296; decide
  · trivial
  · exact ⟨hu, (fun _ h => nomatch h), (fun _ h => nomatch h)⟩
  · exact ⟨rustStr_ascii [119] (by decide), rustStr_ascii [49] (by decide), by decide⟩
  · exact ⟨rustStr_ascii [109] (by decide), hu, by decide⟩
  · refine ⟨⟨by decide, Valid.cons (c := [47]) (show (47 : UInt8) < 0x80 by decide) (Valid.cons (c := [195, 188]) ⟨by decide, by decide⟩ (valid_ascii [47, 102] (by decide)))⟩, ?_⟩
    intro st hst
    simp only [List.mem_cons, List.not_mem_nil, or_false] at hst
    rcases hst with rfl | rfl
    · exact hu
    · trivial
  · exact ⟨rustStr_ascii [46, 47, 97] (by decide), fun _ h => nomatch h⟩
-- … the call sequence succeeds, its contents are small and so is its weight
example : ((run (Sign.shaHex (fun _ => List.replicate 32 7)) (fun _ => true) inputCalls (St.new [195, 188] [49] [77] [120] [115] .none)).toOption.map
    fun s => (decide ((s.fes.map (·.2.length)).sum < 18446744073709551616), decide (cfgWeight s.cfg < 10500000), s.fes.length, s.dirs)) =
    some (true, true, 2, [[47], [47, 195, 188, 47]]) := by decide +kernel
-- … and so is what the caller wrote (`valid_of_args`)
example : strW [195, 188] + strW [49] + strW [77] + strW [120] + strW [115] + 2 + (inputCalls.map Build.Call.weight).sum < 10500000 := by decide +kernel
-- the NUL condition is needed: a name with a NUL gives a record that does not survive encode → decode
example : ¬ Valid ⟨Cfg.new [97, 0, 98] [49] [] [] [] .none, 0, [], []⟩ := fun v => by
  have : ¬ ∀ r ∈ recordsOf ⟨Cfg.new [97, 0, 98] [49] [] [] [] .none, 0, [], []⟩, r.2.Canon := by decide +kernel
  exact this v.canon
-- the setter theorems on a concrete chain: the second `url` wins, the dependency lists keep call order
example : ((Cfg.new [112] [49] [] [] [] .none).applyAll [.url [97], .dep 1 ⟨[120], 0, []⟩, .url [98], .dep 1 ⟨[121], 0, []⟩, .release [50]]).url = some [98] ∧
    ((Cfg.new [112] [49] [] [] [] .none).applyAll [.url [97], .dep 1 ⟨[120], 0, []⟩, .url [98], .dep 1 ⟨[121], 0, []⟩, .release [50]]).requires =
      [⟨[120], 0, []⟩, ⟨[121], 0, []⟩] ∧
    ((Cfg.new [112] [49] [] [] [] .none).applyAll [.url [97], .release [50]]).release = [50] ∧
    (Cfg.new [112] [49] [] [] [] .none).release = [49] := by decide
end

end calls

end RpmVerif.C06
