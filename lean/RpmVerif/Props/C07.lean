import RpmVerif.Lemmas.Cpio
/-!
# C07 — payload iteration returns every file's exact content under its own metadata

Model: `Model/Cpio.lean` (`payload.rs` writer + reader, `FileIterator`, the archive loop of
`prepare_data`).  Compression is a parameter (`decompress (compress x) = .ok x` is a hypothesis; the
real codecs are exercised by the correspondence run, not proved).

What is proved, for ALL file lists (any number of files, any content, every size mod 4 including
empty files, any NUL-free UTF-8 name whose length is below 4096):

* `hex_roundtrip`, `entry_roundtrip` — one `{:08x}` field; one archive entry incl. both paddings.
* `cpio_roundtrip`, `cpio_roundtrip_stripped` — whole archives, standard and large-file form.
* `files_of_build`, `files_of_build_large` — through the (abstract) compressor, for the builder's loop.
* `iterate_lengths`, `iterate_lengths_large` — every yielded content has the recorded size;
  `read_length`, `iterate_lengths_any` — for ANY archive a yielded content has the size the reader took
  for its entry (a stream ending inside an entry is an error).
* `pairing_by_position_partial` — the iterator pairs by POSITION; that is pairing by path exactly when
  the archive names the header's files in header order.  `builder_pairing` shows the library's own
  archives satisfy this.  The full-strength statement of the property (see the comment there) is FALSE
  for foreign archives: `foreign_archive_witness`, `foreign_reordered_witness`.
-/
namespace RpmVerif.C07
open RpmVerif.Cpio RpmVerif.Gen

/-! ## fields and single entries -/

/-- `u32::from_str_radix(format!("{:08x}", n), 16) == n` for every `u32` -/
theorem hex_roundtrip (n : Nat) (h : n < 4294967296) (rest : Bytes) :
    parseHex8 (fmtHex8 n) = some n ∧ readHex8 (fmtHex8 n ++ rest) = .ok (n, rest) :=
  ⟨parseHex8_fmtHex8 h, readHex8_fmt h rest⟩

/-- header padding: header + name + NUL + padding is a multiple of 4, so data starts aligned and the
writer's `pad(header_size + file_size)` equals the reader's `pad(file_size)` -/
theorem padding_arith (m : EntryMeta) (fs : Nat) (ck : Option Nat) (n : Nat) :
    (intoHeader m fs ck).length % 4 = 0 ∧ (n + padLen n) % 4 = 0 ∧ padLen n < 4
    ∧ padLen ((intoHeader m fs ck).length + n) = padLen n ∧ strippedDataPad n = pad n :=
  ⟨intoHeader_length m fs ck, padLen_add_self n, padLen_lt n, padLen_add_mul4 n (intoHeader_length m fs ck),
   strippedDataPad_eq n⟩

/-- **per-entry round trip** (newc and crc magic): `Reader::new` returns the written metadata and size,
`read_to_end` the exact content, `finish` leaves the stream at the next entry — for every content
length (hence every length mod 4, and the empty file) and every admissible name. -/
theorem entry_roundtrip (sizes : List Nat) {m : EntryMeta} (hm : m.WF) {c : Bytes} (hc : c.length < 4294967296)
    (ck : Option Nat) (hck : ck.getD 0 < 4294967296) (rest : Bytes) :
    readerNew sizes (writeEntry m c ck ++ rest)
        = .ok (.cpio (entryOf m c.length ck), c.length, c ++ (pad c.length ++ rest))
    ∧ readData c.length (c ++ (pad c.length ++ rest)) = .ok (c, rest) :=
  ⟨readerNew_writeEntry sizes hm hc ck hck rest, readData_append c rest⟩

/-- the stripped (large-file) entry: size taken from the header's file list by index -/
theorem entry_roundtrip_stripped (sizes : List Nat) {idx : Nat} (hi : idx < 4294967295) (c rest : Bytes)
    (hs : sizes[idx]? = some c.length) :
    readerNew sizes (strippedHeader idx ++ (c ++ (strippedDataPad c.length ++ rest)))
        = .ok (.stripped idx, c.length, c ++ (pad c.length ++ rest))
    ∧ readData c.length (c ++ (pad c.length ++ rest)) = .ok (c, rest) := by
  rw [strippedDataPad_eq]
  exact ⟨readerNew_strippedHeader sizes hi hs _, readData_append c rest⟩

/-! ## whole archives -/

/-- **cpio_roundtrip** — iterating a standard archive of ANY list of admissible entries yields exactly
the written contents, in order, each with the metadata (name, mode, ino, size …) it was written with;
the iterator makes one step per header file entry (`sizes.length`), so with as many header entries as
archive entries everything is returned.  Bytes after the trailer are never touched. -/
theorem cpio_roundtrip (es : List (EntryMeta × Bytes)) (hes : ∀ x ∈ es, EntryOK x) (sizes : List Nat) (rest : Bytes) :
    iterateE sizes sizes.length (archiveOf es ++ rest)
        = ((es.take sizes.length).map fun x => .ok (.cpio (entryOf x.1 x.2.length none), x.2))
    ∧ iterate (archiveOf es ++ rest) sizes = ((es.take sizes.length).map fun x => .ok x.2) := by
  have h := iterateE_archiveOf sizes es hes rest sizes.length
  refine ⟨h, ?_⟩
  simp only [iterate, iterateFrom, h, List.map_map]
  rfl

/-- with as many header entries as archived files: all contents, in order -/
theorem cpio_roundtrip_all (es : List (EntryMeta × Bytes)) (hes : ∀ x ∈ es, EntryOK x) (sizes : List Nat)
    (hl : sizes.length = es.length) (rest : Bytes) :
    iterate (archiveOf es ++ rest) sizes = es.map fun x => .ok x.2 := by
  rw [(cpio_roundtrip es hes sizes rest).2, hl, List.take_length]

/-- **cpio_roundtrip_stripped** — the large-file form: entry `i` carries index `i`, its size is the
header's `sizes[i]`; any contents (no 4 GiB bound), fewer than 2^32 - 1 files. -/
theorem cpio_roundtrip_stripped (cs : List Bytes) (hn : cs.length ≤ 4294967295) (rest : Bytes) :
    iterateE (cs.map List.length) cs.length (archiveStripped cs ++ rest)
        = (cs.zipIdx.map fun x => .ok (.stripped x.2, x.1))
    ∧ iterate (archiveStripped cs ++ rest) (cs.map List.length) = cs.map .ok := by
  have h := iterateE_stripped (cs.map List.length) rest cs 0 cs.length (by omega)
    (fun j hj => by simp [hj])
  rw [List.take_length] at h
  refine ⟨h, ?_⟩
  simp only [iterate, iterateFrom, List.length_map, archiveStripped, h, List.map_map]
  have : ((Out.map fun x : PayloadEntry × Bytes => x.2) ∘ fun x : Bytes × Nat => Out.ok (PayloadEntry.stripped x.2, x.1))
      = (fun x : Bytes × Nat => Out.ok x.1) := rfl
  rw [this]
  calc List.map (fun x : Bytes × Nat => Out.ok x.1) cs.zipIdx
      = List.map Out.ok (cs.zipIdx.map Prod.fst) := by rw [List.map_map]; rfl
    _ = List.map Out.ok cs := by rw [List.zipIdx_map_fst]

/-! ## the builder's archives, through the compressor -/

/-- **files_of_build** — `Package::files()` on a package whose payload is the compressed standard-mode
archive of `fs` (the builder's sorted file list) and whose header lists these files: every file's exact
content, in the builder's order.  Holds for every compressor that round-trips. -/
theorem files_of_build (compress : Bytes → Bytes) (decompress : Bytes → Out Bytes)
    (hcd : ∀ x, decompress (compress x) = .ok x)
    {uid gid : Nat} (hu : uid < 4294967296) (hg : gid < 4294967296)
    (fs : List FileIn) (hfs : ∀ f ∈ fs, f.OK) (hn : fs.length < 4294967296) :
    files decompress (compress (builderArchive uid gid fs)) (fs.map (·.content.length))
      = .ok (fs.map fun f => .ok f.content) := by
  have hes := builderEntriesFrom_ok hu hg fs hfs 1 (by omega)
  have hlen : (builderEntriesFrom uid gid 1 fs).length = fs.length := by
    have := congrArg List.length (builderEntriesFrom_map uid gid fs 1)
    simpa using this
  have h := cpio_roundtrip_all (builderEntriesFrom uid gid 1 fs) hes (fs.map (·.content.length))
    (by simp [hlen]) []
  simp only [List.append_nil] at h
  simp only [files, hcd, Out.bind_ok, Out.pure_eq, builderArchive, h]
  have := congrArg (List.map fun x : Bytes × Bytes => Out.ok x.2) (builderEntriesFrom_map uid gid fs 1)
  simpa [List.map_map, Function.comp_def] using this

/-- the same in large-file mode (stripped entries) -/
theorem files_of_build_large (compress : Bytes → Bytes) (decompress : Bytes → Out Bytes)
    (hcd : ∀ x, decompress (compress x) = .ok x) (fs : List FileIn) (hn : fs.length ≤ 4294967295) :
    files decompress (compress (builderArchiveLarge fs)) (fs.map (·.content.length))
      = .ok (fs.map fun f => .ok f.content) := by
  have h := (cpio_roundtrip_stripped (fs.map (·.content)) (by simpa using hn) []).2
  simp only [List.append_nil, List.map_map] at h
  simp only [files, hcd, Out.bind_ok, Out.pure_eq, builderArchiveLarge]
  rw [show (fs.map fun f => f.content.length) = (fs.map (List.length ∘ fun f => f.content)) from rfl, h]
  rfl

/-- **iterate_lengths** — every content yielded from a library-made standard archive has exactly the
size recorded for the file at that position (and it is the `i`-th file's content) -/
theorem iterate_lengths {uid gid : Nat} (hu : uid < 4294967296) (hg : gid < 4294967296)
    (fs : List FileIn) (hfs : ∀ f ∈ fs, f.OK) (hn : fs.length < 4294967296)
    (i : Nat) (c : Bytes) (hi : i < (iterate (builderArchive uid gid fs) (fs.map (·.content.length))).length)
    (hc : (iterate (builderArchive uid gid fs) (fs.map (·.content.length)))[i] = .ok c) :
    (fs.map (·.content.length))[i]? = some c.length := by
  have h := files_of_build id .ok (fun _ => rfl) hu hg fs hfs hn
  simp only [files, id, Out.bind_ok, Out.pure_eq, Out.ok.injEq] at h
  simp only [h, List.getElem_map, Out.ok.injEq] at hc
  simp only [h, List.length_map] at hi
  simp [hi, hc]

theorem iterate_lengths_large (fs : List FileIn) (hn : fs.length ≤ 4294967295)
    (i : Nat) (c : Bytes) (hi : i < (iterate (builderArchiveLarge fs) (fs.map (·.content.length))).length)
    (hc : (iterate (builderArchiveLarge fs) (fs.map (·.content.length)))[i] = .ok c) :
    (fs.map (·.content.length))[i]? = some c.length := by
  have h := files_of_build_large id .ok (fun _ => rfl) fs hn
  simp only [files, id, Out.bind_ok, Out.pure_eq, Out.ok.injEq] at h
  simp only [h, List.getElem_map, Out.ok.injEq] at hc
  simp only [h, List.length_map] at hi
  simp [hi, hc]

/-- **read_length** (full strength since `fix: c887b00`) — for ANY stream: when reading an entry's data
succeeds, the content has exactly the announced size and the stream was content ++ padding ++ rest;
a stream that ends inside the data is an error (`truncated_archive_witness`). -/
theorem read_length {fileSize : Nat} {r c r' : Bytes} (h : readData fileSize r = .ok (c, r')) :
    c.length = fileSize ∧ ∃ p, p.length = padLen fileSize ∧ r = c ++ (p ++ r') :=
  readData_ok h

/-- **iterate_lengths_any** — for ANY archive bytes and ANY header: every yielded content has exactly
the size the reader took for its entry — the cpio header's `filesize`, or, for a stripped entry, the
recorded size `sizes[idx]` of the header file the entry names. -/
theorem iterate_lengths_any (sizes : List Nat) (fuel : Nat) (archive : Bytes) (e : PayloadEntry) (c : Bytes)
    (h : .ok (e, c) ∈ iterateE sizes fuel archive) : entrySize sizes e = some c.length :=
  iterateE_sizes sizes fuel archive e c h

/-! ## pairing -/

/-- a single entry names header file `i` iff its path is the `i`-th header path -/
theorem entryIndex_eq_iff (paths : List Bytes) (hnd : paths.Nodup) (e : PayloadEntry) (i : Nat) (hi : i < paths.length) :
    entryIndex paths e = i ↔ entryPath paths e = some paths[i] := by
  cases e with
  | cpio ce =>
    simp only [entryIndex, entryPath, Option.some.injEq]
    constructor
    · intro h
      have hlt : paths.idxOf ce.name < paths.length := by omega
      have := List.getElem_idxOf hlt
      simp only [h] at this
      exact this.symm
    · intro h; rw [h]; exact hnd.idxOf_getElem i hi
  | stripped idx =>
    simp only [entryIndex, entryPath]
    constructor
    · intro h; subst h; simp
    · intro h
      obtain ⟨hlt, heq⟩ := List.getElem?_eq_some_iff.mp h
      exact (List.getElem_inj hnd).mp heq

/-- **pairing_by_position_partial** — `FileIterator` attaches to the `i`-th archive entry the metadata of
the `i`-th header file.  For header paths without duplicates this is the metadata *of the entry's own
path* for every yielded entry **iff** the archive lists exactly the header's first paths, in header order.

Full-strength statement of the property (NOT provable — false, see the two witnesses below):
`∀ archive, ∀ i, (iterateE sizes n archive)[i] = .ok (e, c) → entryIndex paths e = i`
("each content is paired with the metadata of the file of that path"). -/
theorem pairing_by_position_partial (paths : List Bytes) (hnd : paths.Nodup) (es : List PayloadEntry)
    (hlen : es.length ≤ paths.length) :
    (∀ i (h : i < es.length), entryIndex paths es[i] = i)
      ↔ es.map (entryPath paths) = (paths.take es.length).map some := by
  constructor
  · intro h
    apply List.ext_getElem
    · simp; omega
    · intro i h1 h2
      simp only [List.length_map] at h1
      simp only [List.getElem_map, List.getElem_take]
      exact (entryIndex_eq_iff paths hnd es[i] i (by omega)).mp (h i h1)
  · intro h i hi
    have := congrArg (fun l => l[i]?) h
    simp only [List.getElem?_map, List.getElem?_take, hi, if_true, List.getElem?_eq_getElem hi, Option.map_some,
      List.getElem?_eq_getElem (show i < paths.length by omega)] at this
    exact (entryIndex_eq_iff paths hnd es[i] i (by omega)).mpr (Option.some.inj this)

/-- the library's own standard archives name the header's files in header order, so for them pairing by
position IS pairing by path (`paths` = the BTreeMap keys, which are distinct) -/
theorem builder_pairing {uid gid : Nat} (hu : uid < 4294967296) (hg : gid < 4294967296)
    (fs : List FileIn) (hfs : ∀ f ∈ fs, f.OK) (hn : fs.length < 4294967296) (hnd : (fs.map (·.path)).Nodup) :
    ∃ es : List (PayloadEntry × Bytes),
      iterateE (fs.map (·.content.length)) fs.length (builderArchive uid gid fs) = es.map .ok
      ∧ es.map (·.2) = fs.map (·.content)
      ∧ ∀ i (h : i < es.length), entryIndex (fs.map (·.path)) es[i].1 = i := by
  have hes := builderEntriesFrom_ok hu hg fs hfs 1 (by omega)
  have hmap := builderEntriesFrom_map uid gid fs 1
  have hlen : (builderEntriesFrom uid gid 1 fs).length = fs.length := by
    simpa using congrArg List.length hmap
  have h := iterateE_archiveOf (fs.map (·.content.length)) _ hes [] fs.length
  rw [List.append_nil, ← hlen, List.take_length] at h
  refine ⟨(builderEntriesFrom uid gid 1 fs).map fun x => (.cpio (entryOf x.1 x.2.length none), x.2), ?_, ?_, ?_⟩
  · rw [← hlen, builderArchive, h, List.map_map]; rfl
  · have := congrArg (List.map Prod.snd) hmap
    simpa [List.map_map, Function.comp_def] using this
  · have hpaths : (builderEntriesFrom uid gid 1 fs).map (fun x => x.1.name) = fs.map (·.path) := by
      have := congrArg (List.map Prod.fst) hmap
      simpa [List.map_map, Function.comp_def] using this
    intro i hi
    simp only [List.length_map] at hi
    simp only [List.getElem_map, entryIndex, entryOf]
    have hi' : i < (fs.map (·.path)).length := by simp; omega
    have : ((builderEntriesFrom uid gid 1 fs)[i]).1.name = (fs.map (·.path))[i] := by
      have := congrArg (fun l => l[i]?) hpaths
      simp only [List.getElem?_map, List.getElem?_eq_getElem hi, Option.map_some,
        List.getElem?_eq_getElem (show i < fs.length by omega)] at this
      simpa using Option.some.inj this
    rw [this]
    exact hnd.idxOf_getElem i hi'

/-- every yielded entry is paired with the metadata of its own path (decidable form of the full-strength
statement, for concrete archives) -/
def pairedByPath (paths : List Bytes) (ys : List (Out (PayloadEntry × Bytes))) : Bool :=
  ys.zipIdx.all fun y => match y.1 with
    | .ok (e, _) => entryIndex paths e == y.2
    | _ => true

/-- header of a foreign package: `/a` (1 byte), `/g` (a %ghost file, not archived), `/b` (1 byte) -/
def wPaths : List Bytes := [[46, 47, 97], [46, 47, 103], [46, 47, 98]]
def wSizes : List Nat := [1, 0, 1]
/-- its archive, as rpm writes it: `./a` = "A", `./b` = "B"; the ghost is omitted -/
def wArchive : Bytes := archiveOf [({ name := [46, 47, 97], ino := 1, mode := 33188 }, [65]),
                                   ({ name := [46, 47, 98], ino := 3, mode := 33188 }, [66])]
/-- an archive that lists `./b` before `./a` for the header `/a`, `/b` -/
def wArchiveReordered : Bytes := archiveOf [({ name := [46, 47, 98], ino := 2, mode := 33188 }, [66]),
                                            ({ name := [46, 47, 97], ino := 1, mode := 33188 }, [65])]

/-- **foreign_archive_witness** — an archive that omits a `%ghost` file: the iterator yields "A" and "B",
and pairs "B" (the content of `/b`, header file 2) with the metadata of header file 1 (`/g`). -/
theorem foreign_archive_witness :
    iterate wArchive wSizes = [.ok [65], .ok [66]]
    ∧ (iterateE wSizes 3 wArchive).map (fun y => y.map fun x => entryIndex wPaths x.1) = [.ok 0, .ok 2]
    ∧ pairedByPath wPaths (iterateE wSizes 3 wArchive) = false := by
  decide +kernel

/-- an archive ordered differently from the header: both contents come back under the other file's metadata -/
theorem foreign_reordered_witness :
    iterate wArchiveReordered [1, 1] = [.ok [66], .ok [65]]
    ∧ pairedByPath [[46, 47, 97], [46, 47, 98]] (iterateE [1, 1] 2 wArchiveReordered) = false := by
  decide +kernel

/-- a truncated archive: the entry announces 4 bytes, the stream ends after 2 — an error, no short file -/
theorem truncated_archive_witness :
    iterate ((writeEntry { name := [46, 47, 97], ino := 1, mode := 33188 } [65, 66, 67, 68]).dropLast.dropLast) [4]
      = [.err "eof"] := by
  decide +kernel

/-! ## order of the builder's files -/

/-- **build_order** — the files the builder iterates over (`self.files`, a BTreeMap keyed by cpio path,
filled by `or_insert`) are strictly ascending by path (byte-lexicographic, as `String: Ord`), each is one
of the given files, every given path is present, and when the given paths are distinct the result is a
permutation of what was given: "the sequence given to the builder ordered by path". Together with
`files_of_build` (applied to `buildFiles given`) this is the last sentence of the property. -/
theorem build_order (given : List FileIn) :
    SortedByPath (buildFiles given)
    ∧ (∀ x ∈ buildFiles given, x ∈ given)
    ∧ (∀ g ∈ given, g.path ∈ (buildFiles given).map (·.path))
    ∧ ((given.map (·.path)).Nodup → (buildFiles given).Perm given) := by
  refine ⟨foldl_insert_sorted given [] List.Pairwise.nil, ?_, foldl_insert_paths given [], ?_⟩
  · intro x hx
    rcases foldl_insert_mem given [] x hx with h | h
    · exact h
    · cases h
  · intro hnd
    have := foldl_insert_perm given [] (by simpa using hnd)
    simpa [buildFiles] using this

/-- a strictly ascending list has no duplicate paths (so `builder_pairing` applies to `buildFiles _`) -/
theorem sorted_nodup {l : List FileIn} (h : SortedByPath l) : (l.map (·.path)).Nodup := by
  refine List.pairwise_map.mpr (h.imp ?_)
  intro a b hab heq
  rw [heq, bytesLt_irrefl] at hab
  cases hab

/-! ## non-vacuity -/

/-- the hypotheses of the round-trip theorems are satisfiable by non-trivial values -/
example : EntryOK ({ name := [46, 47, 97], ino := 1, mode := 33188 }, [65]) :=
  ⟨by constructor <;> decide, by decide, by decide⟩
example : FileIn.OK ⟨[46, 47, 97, 47, 98], 33188, [1, 2, 3, 4, 5]⟩ := by constructor <;> decide
example : iterate (builderArchive 0 0 [⟨[46, 47, 97], 33188, [1, 2, 3]⟩, ⟨[46, 47, 98], 33261, []⟩]) [3, 0]
    = [.ok [1, 2, 3], .ok []] := by decide +kernel
example : iterate (builderArchiveLarge [⟨[46, 47, 97], 33188, [1, 2, 3]⟩, ⟨[46, 47, 98], 33261, [9]⟩]) [3, 1]
    = [.ok [1, 2, 3], .ok [9]] := by decide +kernel
example : (builderArchive 0 0 [⟨[46, 47, 97], 33188, [1, 2, 3]⟩]).length = 116 + 4 + 124 := by decide +kernel
example : wPaths.Nodup := by decide
example : (buildFiles [⟨[46, 47, 98], 1, []⟩, ⟨[46, 47, 97], 2, [7]⟩, ⟨[46, 47, 98], 3, [9]⟩]).map (·.mode) = [2, 1] := by decide

end RpmVerif.C07
