import RpmVerif.Lemmas.Cpio
import RpmVerif.Lemmas.FileIter
import RpmVerif.Lemmas.PayloadWriter
/-!
# C07 — payload iteration returns every file's exact content under its own metadata

Model: `Model/Cpio.lean` (`payload.rs` writer + reader, `FileIterator`, the archive loop of
`prepare_data`).  Compression is a parameter (`decompress (compress x) = .ok x` is a hypothesis; the
real codecs are exercised by the correspondence run, not proved).

What is proved, for ALL file lists (any number of files, any content, every size mod 4 including
empty files, any NUL-free UTF-8 name whose length is below 4096):

* `hex_roundtrip`, `entry_roundtrip` — one `{:08x}` field; one archive entry incl. both paddings.
* `cpio_roundtrip`, `cpio_roundtrip_stripped` — whole archives, standard and large-file form.
* `files_of_build`, `files_of_build_large` — through the (abstract) compressor, for the builder's loop.
* `iterate_lengths`, `iterate_lengths_large` — every yielded content has the recorded size;
  `read_length`, `iterate_lengths_any` — for ANY archive a yielded content has the size the reader took
  for its entry (a stream ending inside an entry is an error).
* `pairing_by_name` (full strength since `fix: 3cfa908`) — for EVERY archive and EVERY header file list with
  pairwise distinct paths: every `ok` item carries the index of exactly the header file its own archive
  entry designates (by path for newc / crc entries, by the carried index for stripped ones), whatever the
  order of the archive and whichever files it omits; `pairing_first_match` drops the distinctness
  hypothesis (first file of that path); `unknown_entry_is_error`: an entry designating no header file is an
  error item, never an `ok` one.  `foreign_archive_pairing`: written archives in ANY order / with ANY files
  left out come back entry by entry under the right index.  `builder_pairing`: the library's own archives.
* `next_none_after_n`, `items_le_entries`, `iterate_terminates` — `FileIterator::next` as a state machine over an
  ARBITRARY stream behaviour (Model/FileIter.lean): `count += 1` precedes the read, so whatever the stream does —
  also after an error item, whose stream position is undefined — at most `file_entries.len()` items come out and a
  `collect()` ends; `iterateE_is_prefix`: the `iterateE` of the theorems above is exactly the items up to the first
  error, for every stream position an error may leave; `after_error_*_witness`: what the code does after an error.
* `prepare_data_invariant`, `standard_mode_sizes_fit_u32`, `writer_eq_writeEntry`, `builder_archive_writer` —
  `payload::Writer` as a state machine with its `UnexpectedEof` / `u32`-overflow / short-write branches
  (Model/PayloadWriter.lean): along the builder's `write_all` of a content of exactly the announced size none of
  them is reachable, for EVERY behaviour of the inner sink, and an `Ok` run emits exactly `writeEntry`;
  `short_write_unpadded_witness`, `excess_write_refused_witness`, `full_writer_overflows`,
  `cast_truncation_accepts_excess` document the branches the builder cannot reach.
* `old_position_pairing_*` — the iterator before the fix (`iterateEOld`, pairing by POSITION) kept as proved
  negative witnesses: an archive omitting a `%ghost` file, a reordered archive.
-/
namespace RpmVerif.C07
open RpmVerif.Cpio RpmVerif.Gen

/-! ## fields and single entries -/

/-- `u32::from_str_radix(format!("{:08x}", n), 16) == n` for every `u32` -/
theorem hex_roundtrip (n : Nat) (h : n < 4294967296) (rest : Bytes) :
    parseHex8 (fmtHex8 n) = some n ∧ readHex8 (fmtHex8 n ++ rest) = .ok (n, rest) :=
  ⟨parseHex8_fmtHex8 h, readHex8_fmt h rest⟩

/-- header padding: header + name + NUL + padding is a multiple of 4, so data starts aligned and the
writer's `pad(header_size + file_size)` equals the reader's `pad(file_size)` -/
theorem padding_arith (m : EntryMeta) (fs : Nat) (ck : Option Nat) (n : Nat) :
    (intoHeader m fs ck).length % 4 = 0 ∧ (n + padLen n) % 4 = 0 ∧ padLen n < 4
    ∧ padLen ((intoHeader m fs ck).length + n) = padLen n ∧ strippedDataPad n = pad n :=
  ⟨intoHeader_length m fs ck, padLen_add_self n, padLen_lt n, padLen_add_mul4 n (intoHeader_length m fs ck),
   strippedDataPad_eq n⟩

/-- **per-entry round trip** (newc and crc magic): `Reader::new` returns the written metadata and size,
`read_to_end` the exact content, `finish` leaves the stream at the next entry — for every content
length (hence every length mod 4, and the empty file) and every admissible name. -/
theorem entry_roundtrip (sizes : List Nat) {m : EntryMeta} (hm : m.WF) {c : Bytes} (hc : c.length < 4294967296)
    (ck : Option Nat) (hck : ck.getD 0 < 4294967296) (rest : Bytes) :
    readerNew sizes (writeEntry m c ck ++ rest)
        = .ok (.cpio (entryOf m c.length ck), c.length, c ++ (pad c.length ++ rest))
    ∧ readData c.length (c ++ (pad c.length ++ rest)) = .ok (c, rest) :=
  ⟨readerNew_writeEntry sizes hm hc ck hck rest, readData_append c rest⟩

/-- the stripped (large-file) entry: size taken from the header's file list by index -/
theorem entry_roundtrip_stripped (sizes : List Nat) {idx : Nat} (hi : idx < 4294967295) (c rest : Bytes)
    (hs : sizes[idx]? = some c.length) :
    readerNew sizes (strippedHeader idx ++ (c ++ (strippedDataPad c.length ++ rest)))
        = .ok (.stripped idx, c.length, c ++ (pad c.length ++ rest))
    ∧ readData c.length (c ++ (pad c.length ++ rest)) = .ok (c, rest) := by
  rw [strippedDataPad_eq]
  exact ⟨readerNew_strippedHeader sizes hi hs _, readData_append c rest⟩

/-! ## whole archives -/

/-- **cpio_roundtrip** — iterating a standard archive of ANY list of admissible entries with pairwise
distinct paths (the header listing exactly these paths, in this order) yields exactly the written
contents, in order, each with the metadata (name, mode, ino, size …) it was written with and under its own
index; the iterator makes one step per header file entry (`sizes.length`), so with as many header entries
as archive entries everything is returned.  Bytes after the trailer are never touched. -/
theorem cpio_roundtrip (es : List (EntryMeta × Bytes)) (hes : ∀ x ∈ es, EntryOK x) (hnd : (pathsOf es).Nodup)
    (sizes : List Nat) (rest : Bytes) :
    iterateE (pathsOf es) sizes sizes.length (archiveOf es ++ rest)
        = ((es.take sizes.length).zipIdx.map fun x => .ok (x.2, readOf x.1, x.1.2))
    ∧ iterate (archiveOf es ++ rest) (pathsOf es) sizes = ((es.take sizes.length).zipIdx.map fun x => .ok (x.2, x.1.2)) := by
  have h := iterateE_archiveOf (pathsOf es) sizes es hes rest sizes.length
  rw [expectItems_known _ _ (fun x hx => List.mem_map.mpr ⟨x, List.mem_of_mem_take hx, rfl⟩)] at h
  have hk : ∀ n, ((es.take n).map fun x => Out.ok ((pathsOf es).idxOf (namePath x.1.name), readOf x, x.2))
      = ((es.take n).zipIdx.map fun x => .ok (x.2, readOf x.1, x.1.2)) := by
    intro n
    apply List.ext_getElem
    · simp
    · intro i h1 h2
      simp only [List.length_map, List.length_take] at h1
      simp only [List.getElem_map, List.getElem_zipIdx, Nat.zero_add, List.getElem_take]
      have := hnd.idxOf_getElem i (by simp; omega)
      simp only [pathsOf, List.getElem_map] at this
      rw [this]
  rw [hk] at h
  refine ⟨h, ?_⟩
  simp only [iterate, iterateFrom, h, List.map_map]
  rfl

/-- with as many header entries as archived files: all contents, in order, each under its own index -/
theorem cpio_roundtrip_all (es : List (EntryMeta × Bytes)) (hes : ∀ x ∈ es, EntryOK x) (hnd : (pathsOf es).Nodup)
    (sizes : List Nat) (hl : sizes.length = es.length) (rest : Bytes) :
    iterate (archiveOf es ++ rest) (pathsOf es) sizes = es.zipIdx.map fun x => .ok (x.2, x.1.2) := by
  rw [(cpio_roundtrip es hes hnd sizes rest).2, hl, List.take_length]

/-- **cpio_roundtrip_stripped** — the large-file form: entry `i` carries index `i`, its size is the
header's `sizes[i]`; any contents (no 4 GiB bound), fewer than 2^32 - 1 files, any header paths. -/
theorem cpio_roundtrip_stripped (cs : List Bytes) (hn : cs.length ≤ 4294967295) (paths : List Bytes)
    (hp : paths.length = cs.length) (rest : Bytes) :
    iterateE paths (cs.map List.length) cs.length (archiveStripped cs ++ rest)
        = (cs.zipIdx.map fun x => .ok (x.2, .stripped x.2, x.1))
    ∧ iterate (archiveStripped cs ++ rest) paths (cs.map List.length) = cs.zipIdx.map fun x => .ok (x.2, x.1) := by
  have h := iterateE_stripped paths (cs.map List.length) rest cs 0 cs.length (by omega) (by omega)
    (fun j hj => by simp [hj])
  rw [List.take_length] at h
  refine ⟨h, ?_⟩
  simp only [iterate, iterateFrom, List.length_map, archiveStripped, h, List.map_map]
  rfl

/-! ## the builder's archives, through the compressor -/

/-- **files_of_build** — `Package::files()` on a package whose payload is the compressed standard-mode
archive of `fs` (the builder's sorted file list) and whose header lists these files: every file's exact
content under its own metadata (index), in the builder's order.  Holds for every compressor that round-trips. -/
theorem files_of_build (compress : Bytes → Bytes) (decompress : Bytes → Out Bytes)
    (hcd : ∀ x, decompress (compress x) = .ok x)
    {uid gid : Nat} (hu : uid < 4294967296) (hg : gid < 4294967296)
    (fs : List FileIn) (hfs : ∀ f ∈ fs, f.OK) (hn : fs.length < 4294967296) (hnd : (headerPaths fs).Nodup) :
    files decompress (compress (builderArchive uid gid fs)) (headerPaths fs) (fs.map (·.content.length))
      = .ok (fs.zipIdx.map fun x => .ok (x.2, x.1.content)) := by
  have hes := builderEntriesFrom_ok hu hg fs hfs 1 (by omega)
  have hmap := builderEntriesFrom_map uid gid fs 1
  have hlen : (builderEntriesFrom uid gid 1 fs).length = fs.length := by
    simpa using congrArg List.length hmap
  have hp := builder_pathsOf uid gid fs 1
  have h := cpio_roundtrip_all (builderEntriesFrom uid gid 1 fs) hes (by rw [hp]; exact hnd)
    (fs.map (·.content.length)) (by simp [hlen]) []
  rw [hp] at h
  simp only [List.append_nil] at h
  simp only [files, hcd, Out.bind_ok, Out.pure_eq, builderArchive, h, Out.ok.injEq]
  apply List.ext_getElem
  · simp [hlen]
  · intro i h1 h2
    simp only [List.length_map, List.length_zipIdx] at h1 h2
    simp only [List.getElem_map, List.getElem_zipIdx, Nat.zero_add, Out.ok.injEq, Prod.mk.injEq, true_and]
    have := congrArg (fun l => (l[i]?).map Prod.snd) hmap
    simpa [List.getElem?_eq_getElem h1, List.getElem?_eq_getElem h2] using this

/-- the same in large-file mode (stripped entries) -/
theorem files_of_build_large (compress : Bytes → Bytes) (decompress : Bytes → Out Bytes)
    (hcd : ∀ x, decompress (compress x) = .ok x) (fs : List FileIn) (hn : fs.length ≤ 4294967295) :
    files decompress (compress (builderArchiveLarge fs)) (headerPaths fs) (fs.map (·.content.length))
      = .ok (fs.zipIdx.map fun x => .ok (x.2, x.1.content)) := by
  have h := (cpio_roundtrip_stripped (fs.map (·.content)) (by simpa using hn) (headerPaths fs) (by simp) []).2
  simp only [List.append_nil, List.map_map] at h
  simp only [files, hcd, Out.bind_ok, Out.pure_eq, builderArchiveLarge, Out.ok.injEq]
  rw [show (fs.map fun f => f.content.length) = (fs.map (List.length ∘ fun f => f.content)) from rfl, h]
  apply List.ext_getElem
  · simp
  · intro i h1 h2
    simp

/-- **iterate_lengths** — every content yielded from a library-made standard archive has exactly the
size recorded for the file whose metadata it is paired with (and it is that file's content) -/
theorem iterate_lengths {uid gid : Nat} (hu : uid < 4294967296) (hg : gid < 4294967296)
    (fs : List FileIn) (hfs : ∀ f ∈ fs, f.OK) (hn : fs.length < 4294967296) (hnd : (headerPaths fs).Nodup)
    (k i : Nat) (c : Bytes)
    (hk : k < (iterate (builderArchive uid gid fs) (headerPaths fs) (fs.map (·.content.length))).length)
    (hc : (iterate (builderArchive uid gid fs) (headerPaths fs) (fs.map (·.content.length)))[k] = .ok (i, c)) :
    (fs.map (·.content.length))[i]? = some c.length ∧ (fs.map (·.content))[i]? = some c := by
  have h := files_of_build id .ok (fun _ => rfl) hu hg fs hfs hn hnd
  simp only [files, id, Out.bind_ok, Out.pure_eq, Out.ok.injEq] at h
  simp only [h, List.getElem_map, List.getElem_zipIdx, Nat.zero_add, Out.ok.injEq, Prod.mk.injEq] at hc
  simp only [h, List.length_map, List.length_zipIdx] at hk
  obtain ⟨rfl, rfl⟩ := hc
  simp [hk]

theorem iterate_lengths_large (fs : List FileIn) (hn : fs.length ≤ 4294967295) (k i : Nat) (c : Bytes)
    (hk : k < (iterate (builderArchiveLarge fs) (headerPaths fs) (fs.map (·.content.length))).length)
    (hc : (iterate (builderArchiveLarge fs) (headerPaths fs) (fs.map (·.content.length)))[k] = .ok (i, c)) :
    (fs.map (·.content.length))[i]? = some c.length ∧ (fs.map (·.content))[i]? = some c := by
  have h := files_of_build_large id .ok (fun _ => rfl) fs hn
  simp only [files, id, Out.bind_ok, Out.pure_eq, Out.ok.injEq] at h
  simp only [h, List.getElem_map, List.getElem_zipIdx, Nat.zero_add, Out.ok.injEq, Prod.mk.injEq] at hc
  simp only [h, List.length_map, List.length_zipIdx] at hk
  obtain ⟨rfl, rfl⟩ := hc
  simp [hk]

/-- **read_length** (full strength since `fix: c887b00`) — for ANY stream: when reading an entry's data
succeeds, the content has exactly the announced size and the stream was content ++ padding ++ rest;
a stream that ends inside the data is an error (`truncated_archive_witness`). -/
theorem read_length {fileSize : Nat} {r c r' : Bytes} (h : readData fileSize r = .ok (c, r')) :
    c.length = fileSize ∧ ∃ p, p.length = padLen fileSize ∧ r = c ++ (p ++ r') :=
  readData_ok h

/-- **iterate_lengths_any** — for ANY archive bytes and ANY header: every yielded content has exactly
the size the reader took for its entry — the cpio header's `filesize`, or, for a stripped entry, the
recorded size `sizes[idx]` of the header file the entry names. -/
theorem iterate_lengths_any (paths : List Bytes) (sizes : List Nat) (fuel : Nat) (archive : Bytes) (i : Nat)
    (e : PayloadEntry) (c : Bytes) (h : .ok (i, e, c) ∈ iterateE paths sizes fuel archive) :
    entrySize sizes e = some c.length :=
  iterateE_sizes paths sizes fuel archive i e c h

/-! ## the size and digest clauses of the property -/

/-- no item is made from a trailer entry -/
theorem item_not_trailer (paths : List Bytes) (sizes : List Nat) : ∀ (fuel : Nat) (bs : Bytes) (i : Nat)
    (e : PayloadEntry) (c : Bytes), .ok (i, e, c) ∈ iterateE paths sizes fuel bs → isTrailer e = false := by
  intro fuel
  induction fuel with
  | zero => intro bs i e c h; simp [iterateE] at h
  | succ k ih =>
    intro bs i e c h
    obtain ⟨e0, fs, r, _, hnt, i0, _, c0, r', _, h⟩ := iterateE_ok_cases h
    rcases h with h | h
    · simp only [Prod.mk.injEq] at h
      obtain ⟨_, rfl, _⟩ := h
      exact hnt
    · exact ih _ _ _ _ h

/-- **item_length_eq_recorded_iff** — "its length equals the recorded size", for ANY archive bytes and ANY header: an
item `(i, e, c)` — content `c` read from archive entry `e`, handed out with the metadata of header file `i` — has the
length recorded for file `i` (`sizes[i]`, FILESIZES / LONGFILESIZES) EXACTLY WHEN the `filesize` field of the cpio header of
`e` says so; a stripped entry has no size of its own, so there the clause always holds.  The iterator does not compare the
two numbers itself (`recorded_size_not_compared_witness`). -/
theorem item_length_eq_recorded_iff (paths : List Bytes) (sizes : List Nat) (fuel : Nat) (archive : Bytes) (i : Nat)
    (e : PayloadEntry) (c : Bytes) (h : .ok (i, e, c) ∈ iterateE paths sizes fuel archive) :
    (sizes[i]? = some c.length) ↔
      (match e with
       | .cpio ce => sizes[i]? = some ce.fileSize
       | .stripped _ => True) := by
  obtain ⟨hfi, hsz⟩ := iterateE_item paths sizes fuel archive i e c h
  have hnt := item_not_trailer paths sizes fuel archive i e c h
  cases e with
  | cpio ce =>
    simp only [entrySize, Option.some.injEq] at hsz
    simp only [hsz]
  | stripped idx =>
    have hi := fileIndex_stripped hfi
    subst hi
    simp only [isTrailer, beq_eq_false_iff_ne, ne_eq] at hnt
    simp only [entrySize, hnt, if_false] at hsz
    simp only [hsz]

/-- **recorded_size_not_compared_witness** — a (foreign) package whose header records 5 bytes for `/a` while the cpio
entry `./a` says `filesize` = 1: the iterator hands out an `Ok` item for file 0 whose content has 1 byte — the bytes stored
in the archive — under metadata that says 5.  (`Package::files` never looks at `FileEntry.size` for newc / crc entries.) -/
theorem recorded_size_not_compared_witness :
    iterate (archiveOf [({ name := [46, 47, 97], ino := 1, mode := 33188 }, [65])]) [[47, 97]] [5] = [.ok (0, [65])] := by
  decide +kernel

/-- the k-th item of the library's own archives is the k-th builder file -/
theorem built_item (fs : List FileIn) (k : Nat) (c : Bytes)
    (h : (Out.ok (k, c) : Out (Nat × Bytes)) ∈ fs.zipIdx.map fun x => .ok (x.2, x.1.content)) :
    (fs.map (·.content))[k]? = some c := by
  obtain ⟨⟨f, j⟩, hq, heq⟩ := List.mem_map.mp h
  simp only [Out.ok.injEq, Prod.mk.injEq] at heq
  obtain ⟨rfl, rfl⟩ := heq
  have hj := List.mem_zipIdx hq
  simp only [Nat.zero_add, Nat.sub_zero] at hj
  obtain ⟨_, hlt, hget⟩ := hj
  have hlt' : j < fs.length := by simpa using hlt
  simp only [List.getElem?_map, List.getElem?_eq_getElem hlt', Option.map_some, hget]

/-- **item_digest_matches** — "its digest equals the recorded file digest", for packages built by the library, standard
form, ANY hash function `H` and ANY round-tripping codec: when the header records for file `k` the digest of the `k`-th
builder file's content (`recorded`; that it does is C08 `file_digest_is_content_digest` + `file_digests`), every item
`(k, c)` that `Package::files()` yields satisfies `recorded[k] = H c` — and `c.len()` is the recorded size -/
theorem item_digest_matches (H : Bytes → Bytes) (compress : Bytes → Bytes) (decompress : Bytes → Out Bytes)
    (hcd : ∀ x, decompress (compress x) = .ok x) {uid gid : Nat} (hu : uid < 4294967296) (hg : gid < 4294967296)
    (fs : List FileIn) (hfs : ∀ f ∈ fs, f.OK) (hn : fs.length < 4294967296) (hnd : (headerPaths fs).Nodup)
    (recorded : List Bytes) (hrec : recorded = fs.map fun f => H f.content) :
    ∃ items, files decompress (compress (builderArchive uid gid fs)) (headerPaths fs) (fs.map (·.content.length)) = .ok items
      ∧ items.length = fs.length
      ∧ ∀ k c, .ok (k, c) ∈ items → recorded[k]? = some (H c) ∧ (fs.map (·.content.length))[k]? = some c.length := by
  refine ⟨_, files_of_build compress decompress hcd hu hg fs hfs hn hnd, by simp, fun k c hm => ?_⟩
  have := built_item fs k c hm
  simp only [List.getElem?_map, Option.map_eq_some_iff] at this
  obtain ⟨f, hf, rfl⟩ := this
  subst hrec
  simp [hf]

/-- the same in large-file mode -/
theorem item_digest_matches_large (H : Bytes → Bytes) (compress : Bytes → Bytes) (decompress : Bytes → Out Bytes)
    (hcd : ∀ x, decompress (compress x) = .ok x) (fs : List FileIn) (hn : fs.length ≤ 4294967295)
    (recorded : List Bytes) (hrec : recorded = fs.map fun f => H f.content) :
    ∃ items, files decompress (compress (builderArchiveLarge fs)) (headerPaths fs) (fs.map (·.content.length)) = .ok items
      ∧ items.length = fs.length
      ∧ ∀ k c, .ok (k, c) ∈ items → recorded[k]? = some (H c) ∧ (fs.map (·.content.length))[k]? = some c.length := by
  refine ⟨_, files_of_build_large compress decompress hcd fs hn, by simp, fun k c hm => ?_⟩
  have := built_item fs k c hm
  simp only [List.getElem?_map, Option.map_eq_some_iff] at this
  obtain ⟨f, hf, rfl⟩ := this
  subst hrec
  simp [hf]

example : ∃ items, files .ok (builderArchive 0 0 [⟨[46, 47, 97], 33188, [1, 2, 3]⟩, ⟨[46, 47, 98], 33261, []⟩])
      [[47, 97], [47, 98]] [3, 0] = .ok items ∧ items = [.ok (0, [1, 2, 3]), .ok (1, [])] := ⟨_, rfl, by decide +kernel⟩
/-- `item_length_eq_recorded_iff` is not vacuous, in either direction: an entry whose `filesize` agrees, and one whose does not -/
example : .ok (0, .cpio ⟨false, [46, 47, 97], 1, 33188, 0, 0, 1, 0, 1, 0, 0, 0, 0, 0⟩, [65])
    ∈ iterateE [[47, 97]] [1] 1 (archiveOf [({ name := [46, 47, 97], ino := 1, mode := 33188 }, [65])]) := by decide +kernel
example : .ok (0, .cpio ⟨false, [46, 47, 97], 1, 33188, 0, 0, 1, 0, 1, 0, 0, 0, 0, 0⟩, [65])
    ∈ iterateE [[47, 97]] [5] 1 (archiveOf [({ name := [46, 47, 97], ino := 1, mode := 33188 }, [65])]) := by decide +kernel

/-! ## pairing -/

/-- header file `i` is the one the archive entry designates: for a newc / crc entry the file whose path
is the one the entry's name stands for (`"." + path`, or the plain path), for a stripped entry the file
at the index the entry carries.  Stated on the header's path list alone — independent of `fileIndex`. -/
def Designates (paths : List Bytes) : PayloadEntry → Nat → Prop
  | .cpio e, i => paths[i]? = some (namePath e.name)
  | .stripped idx, i => i = idx ∧ idx < paths.length

/-- `Reader::file_index` is sound and complete for `Designates`: it returns the FIRST designated file,
and `None` exactly when the entry designates no file -/
theorem fileIndex_spec (paths : List Bytes) (e : PayloadEntry) :
    (∀ i, fileIndex paths e = some i → Designates paths e i ∧ ∀ j, Designates paths e j → i ≤ j)
    ∧ (fileIndex paths e = none ↔ ∀ i, ¬ Designates paths e i) := by
  cases e with
  | cpio ce =>
    refine ⟨fun i h => ⟨fileIndex_cpio h, fileIndex_cpio_first h⟩, ?_⟩
    rw [fileIndex_cpio_none]
    simp only [Designates]
    constructor
    · intro h i hi
      exact h (List.mem_of_getElem? hi)
    · intro h hm
      obtain ⟨i, hi, heq⟩ := List.getElem_of_mem hm
      exact h i (by rw [List.getElem?_eq_getElem hi, heq])
  | stripped idx =>
    refine ⟨fun i h => ?_, ?_⟩
    · have h1 := fileIndex_stripped h
      have h2 := fileIndex_lt h
      subst h1
      exact ⟨⟨rfl, h2⟩, fun j hj => by rw [hj.1]; exact Nat.le_refl _⟩
    · rw [fileIndex_stripped_none]
      simp only [Designates]
      constructor
      · intro h i hi; omega
      · intro h
        refine Nat.le_of_not_lt (fun hlt => h idx ⟨rfl, hlt⟩)

/-- with pairwise distinct header paths an entry designates at most one file -/
theorem designates_unique (paths : List Bytes) (hnd : paths.Nodup) (e : PayloadEntry) (i j : Nat)
    (hi : Designates paths e i) (hj : Designates paths e j) : i = j := by
  cases e with
  | cpio ce =>
    simp only [Designates] at hi hj
    obtain ⟨hil, hie⟩ := List.getElem?_eq_some_iff.mp hi
    obtain ⟨hjl, hje⟩ := List.getElem?_eq_some_iff.mp hj
    exact (List.getElem_inj hnd).mp (hie.trans hje.symm)
  | stripped idx => exact hi.1.trans hj.1.symm

/-- **pairing_by_name** — the property at full strength (after `fix: 3cfa908`).  For EVERY archive (any
bytes: any order of entries, any files left out, newc, crc or stripped entries, damaged or not), EVERY
header file list with pairwise distinct paths, and every `ok` item `(i, e, c)` the iterator yields — the
content `c` read from archive entry `e`, handed out with the metadata of header file `i`:
* `i` is a file of the header and it is the one entry `e` itself designates (its path is the one the
  name of `e` stands for; for a stripped entry `i` is the index `e` carries),
* no other header file is designated by `e`,
* `c` has exactly the size the reader took for `e` (`iterate_lengths_any`). -/
theorem pairing_by_name (paths : List Bytes) (hnd : paths.Nodup) (sizes : List Nat) (fuel : Nat) (archive : Bytes)
    (i : Nat) (e : PayloadEntry) (c : Bytes) (h : .ok (i, e, c) ∈ iterateE paths sizes fuel archive) :
    i < paths.length ∧ Designates paths e i ∧ (∀ j, Designates paths e j → j = i)
    ∧ entrySize sizes e = some c.length := by
  obtain ⟨hfi, hsz⟩ := iterateE_item paths sizes fuel archive i e c h
  have hd := ((fileIndex_spec paths e).1 i hfi).1
  exact ⟨fileIndex_lt hfi, hd, fun j hj => designates_unique paths hnd e j i hj hd, hsz⟩

/-- without the distinctness hypothesis: the FIRST header file the entry designates (`position`) -/
theorem pairing_first_match (paths : List Bytes) (sizes : List Nat) (fuel : Nat) (archive : Bytes)
    (i : Nat) (e : PayloadEntry) (c : Bytes) (h : .ok (i, e, c) ∈ iterateE paths sizes fuel archive) :
    i < paths.length ∧ Designates paths e i ∧ ∀ j, Designates paths e j → i ≤ j := by
  obtain ⟨hfi, _⟩ := iterateE_item paths sizes fuel archive i e c h
  exact ⟨fileIndex_lt hfi, (fileIndex_spec paths e).1 i hfi⟩

/-- **unknown_entry_is_error** — a (non-trailer) archive entry that designates no file of the header is
answered with an error item — never with some file's metadata — wherever in the archive it stands
(`bs` is the stream at that entry). -/
theorem unknown_entry_is_error (paths : List Bytes) (sizes : List Nat) (fuel : Nat) (bs : Bytes) (e : PayloadEntry)
    (fs : Nat) (r : Bytes) (hr : readerNew sizes bs = .ok (e, fs, r)) (hnt : isTrailer e = false)
    (hno : ∀ i, ¬ Designates paths e i) :
    iterateE paths sizes (fuel + 1) bs = [.err "no-such-file"] := by
  have := (fileIndex_spec paths e).2.mpr hno
  simp only [iterateE, hr, hnt, this]
  simp

/-- conversely every `ok` item comes from an entry that designates a header file -/
theorem ok_item_designates (paths : List Bytes) (sizes : List Nat) (fuel : Nat) (archive : Bytes)
    (i : Nat) (e : PayloadEntry) (c : Bytes) (h : .ok (i, e, c) ∈ iterateE paths sizes fuel archive) :
    ∃ j, Designates paths e j :=
  ⟨i, (pairing_first_match paths sizes fuel archive i e c h).2.1⟩

/-- **foreign_archive_pairing** — "whatever the order of the archive and whichever files it omits", for
written archives: `es` is ANY list of admissible entries (any order, repetitions allowed) each naming some
file of the header `paths` (ANY list; files not named by any entry — `%ghost` files — are simply not
yielded).  Every entry comes back, in archive order, with its exact content under the index of the
header file it names.  With an entry that names no header file the items before it are unchanged and
the iteration ends with an error item. -/
theorem foreign_archive_pairing (paths : List Bytes) (sizes : List Nat) (es : List (EntryMeta × Bytes))
    (hes : ∀ x ∈ es, EntryOK x) (rest : Bytes) (fuel : Nat) :
    ((∀ x ∈ es, namePath x.1.name ∈ paths) →
      iterateE paths sizes fuel (archiveOf es ++ rest)
        = (es.take fuel).map fun x => .ok (paths.idxOf (namePath x.1.name), readOf x, x.2))
    ∧ (∀ known x t, es = known ++ x :: t → known.length < fuel → (∀ y ∈ known, namePath y.1.name ∈ paths) →
        namePath x.1.name ∉ paths →
        iterateE paths sizes fuel (archiveOf es ++ rest)
          = (known.map fun y => .ok (paths.idxOf (namePath y.1.name), readOf y, y.2)) ++ [.err "no-such-file"]) := by
  have h := iterateE_archiveOf paths sizes es hes rest fuel
  constructor
  · intro hk
    rw [h, expectItems_known _ _ (fun x hx => hk x (List.mem_of_mem_take hx))]
  · intro known x t he hlt hk hx
    obtain ⟨n, rfl⟩ : ∃ n, fuel = known.length + (n + 1) := ⟨fuel - known.length - 1, by omega⟩
    rw [h, he, List.take_length_add_append, List.take_succ_cons, expectItems_unknown paths known x _ hk hx]

/-- the library's own standard archives: every yielded item carries the index of the file the entry
names, that index is the entry's position (the builder writes the header's files in header order), and
the content is that file's (`headerPaths` of the BTreeMap keys are distinct: `headerPaths_nodup`) -/
theorem builder_pairing {uid gid : Nat} (hu : uid < 4294967296) (hg : gid < 4294967296)
    (fs : List FileIn) (hfs : ∀ f ∈ fs, f.OK) (hn : fs.length < 4294967296) (hnd : (headerPaths fs).Nodup) :
    ∃ es : List (Nat × PayloadEntry × Bytes),
      iterateE (headerPaths fs) (fs.map (·.content.length)) fs.length (builderArchive uid gid fs) = es.map .ok
      ∧ es.map (·.2.2) = fs.map (·.content)
      ∧ es.map (·.1) = List.range fs.length
      ∧ ∀ k (h : k < es.length), Designates (headerPaths fs) es[k].2.1 k := by
  have hes := builderEntriesFrom_ok hu hg fs hfs 1 (by omega)
  have hmap := builderEntriesFrom_map uid gid fs 1
  have hlen : (builderEntriesFrom uid gid 1 fs).length = fs.length := by
    simpa using congrArg List.length hmap
  have hp := builder_pathsOf uid gid fs 1
  have h := (cpio_roundtrip (builderEntriesFrom uid gid 1 fs) hes (by rw [hp]; exact hnd)
    (fs.map (·.content.length)) []).1
  rw [hp, List.append_nil, List.length_map, ← hlen, List.take_length] at h
  refine ⟨(builderEntriesFrom uid gid 1 fs).zipIdx.map fun x => (x.2, readOf x.1, x.1.2), ?_, ?_, ?_, ?_⟩
  · rw [← hlen, builderArchive, h, List.map_map]; rfl
  · apply List.ext_getElem
    · simp [hlen]
    · intro i h1 h2
      simp only [List.length_map, List.length_zipIdx] at h1
      have := congrArg (fun l => (l[i]?).map Prod.snd) hmap
      simpa [List.getElem?_eq_getElem h1, List.getElem?_eq_getElem (show i < fs.length by omega)] using this
  · apply List.ext_getElem
    · simp [hlen]
    · intro i h1 h2; simp
  · intro k hk
    simp only [List.length_map, List.length_zipIdx] at hk
    simp only [List.getElem_map, List.getElem_zipIdx, Nat.zero_add, Designates, readOf, entryOf]
    have := congrArg (fun l => l[k]?) hp
    simp only [pathsOf, List.getElem?_map, List.getElem?_eq_getElem hk, Option.map_some] at this
    simp only [headerPaths, List.getElem?_map]
    exact this.symm

/-! ## the iterator before `fix: 3cfa908`: pairing by position (negative witnesses) -/

/-- the pre-fix `FileIterator::next`: the i-th `next()` hands out `file_entries[i]` with whatever the i-th
archive entry holds (the list position is the metadata index) -/
def iterateEOld (sizes : List Nat) : Nat → Bytes → List (Out (PayloadEntry × Bytes))
  | 0, _ => []
  | fuel + 1, bs =>
    match readerNew sizes bs with
    | .ok (e, fileSize, r) =>
      if isTrailer e then [] else
      match readData fileSize r with
      | .ok (content, r') => .ok (e, content) :: iterateEOld sizes fuel r'
      | .err c => [.err c]
      | .panic s => [.panic s]
    | .err c => [.err c]
    | .panic s => [.panic s]

/-- the `ok` items of an iteration -/
def okItems {α} (l : List (Out α)) : List α := l.filterMap fun o => match o with | .ok x => some x | _ => none

/-- **same_entries_as_before** — the repair changed which METADATA an item carries, nothing else: the
(entry, content) pairs the iterator yields are the archive's entries in archive order with the contents
the pre-fix iterator read for them — all of them, or those before the first entry that designates no
header file. -/
theorem same_entries_as_before (paths : List Bytes) (sizes : List Nat) (fuel : Nat) (bs : Bytes) :
    ∃ n, (okItems (iterateE paths sizes fuel bs)).map (fun x => (x.2.1, x.2.2))
      = (okItems (iterateEOld sizes fuel bs)).take n := by
  induction fuel generalizing bs with
  | zero => exact ⟨0, rfl⟩
  | succ k ih =>
    cases hr : readerNew sizes bs with
    | err c => exact ⟨0, by simp [iterateE, hr, okItems]⟩
    | panic c => exact ⟨0, by simp [iterateE, hr, okItems]⟩
    | ok x =>
      obtain ⟨e, fs, r⟩ := x
      cases ht : isTrailer e with
      | true => exact ⟨0, by simp [iterateE, hr, ht, okItems]⟩
      | false =>
        cases hf : fileIndex paths e with
        | none => exact ⟨0, by simp [iterateE, hr, ht, hf, okItems]⟩
        | some i =>
          cases hd : readData fs r with
          | err c => exact ⟨0, by simp [iterateE, hr, ht, hf, hd, okItems]⟩
          | panic c => exact ⟨0, by simp [iterateE, hr, ht, hf, hd, okItems]⟩
          | ok y =>
            obtain ⟨c, r'⟩ := y
            obtain ⟨n, hn⟩ := ih r'
            refine ⟨n + 1, ?_⟩
            simp only [okItems] at hn
            simp [iterateE, iterateEOld, hr, ht, hf, hd, okItems, hn]

/-- every item of the OLD iterator sits at the position of the file its entry designates (decidable, for
concrete archives) -/
def oldPairedByPath (paths : List Bytes) (ys : List (Out (PayloadEntry × Bytes))) : Bool :=
  ys.zipIdx.all fun y => match y.1 with
    | .ok (e, _) => fileIndex paths e == some y.2
    | _ => true

/-- every item of the NEW iterator carries the index of the file its entry designates -/
def pairedByPath (paths : List Bytes) (ys : List (Out (Nat × PayloadEntry × Bytes))) : Bool :=
  ys.all fun y => match y with
    | .ok (i, e, _) => fileIndex paths e == some i
    | _ => true

/-- header of a foreign package: `/a` (1 byte), `/g` (a %ghost file, not archived), `/b` (1 byte) -/
def wPaths : List Bytes := [[47, 97], [47, 103], [47, 98]]
def wSizes : List Nat := [1, 0, 1]
/-- its archive, as rpm writes it: `./a` = "A", `./b` = "B"; the ghost is omitted -/
def wArchive : Bytes := archiveOf [({ name := [46, 47, 97], ino := 1, mode := 33188 }, [65]),
                                   ({ name := [46, 47, 98], ino := 3, mode := 33188 }, [66])]
/-- an archive that lists `./b` before `./a` for the header `/a`, `/b` -/
def wArchiveReordered : Bytes := archiveOf [({ name := [46, 47, 98], ino := 2, mode := 33188 }, [66]),
                                            ({ name := [46, 47, 97], ino := 1, mode := 33188 }, [65])]
/-- an archive with an entry `./x` that no header file corresponds to, between `./a` and `./b` -/
def wArchiveUnknown : Bytes := archiveOf [({ name := [46, 47, 97], ino := 1, mode := 33188 }, [65]),
                                          ({ name := [46, 47, 120], ino := 9, mode := 33188 }, [88]),
                                          ({ name := [46, 47, 98], ino := 3, mode := 33188 }, [66])]

/-- **old_position_pairing_ghost_witness** — an archive that omits a `%ghost` file: the OLD iterator
yielded "A" and "B" and paired "B" (the content of `/b`, header file 2) with the metadata of header file 1
(`/g`); the repaired iterator yields "B" under index 2. -/
theorem old_position_pairing_ghost_witness :
    (iterateEOld wSizes 3 wArchive).map (fun y => y.map fun x => (fileIndex wPaths x.1, x.2))
        = [.ok (some 0, [65]), .ok (some 2, [66])]
    ∧ oldPairedByPath wPaths (iterateEOld wSizes 3 wArchive) = false
    ∧ iterate wArchive wPaths wSizes = [.ok (0, [65]), .ok (2, [66])] := by
  decide +kernel

/-- an archive ordered differently from the header: the OLD iterator handed both contents out under the
other file's metadata; the repaired one gives "B" to `/b` (1) and "A" to `/a` (0) -/
theorem old_position_pairing_reordered_witness :
    (iterateEOld [1, 1] 2 wArchiveReordered).map (fun y => y.map (·.2)) = [.ok [66], .ok [65]]
    ∧ oldPairedByPath [[47, 97], [47, 98]] (iterateEOld [1, 1] 2 wArchiveReordered) = false
    ∧ iterate wArchiveReordered [[47, 97], [47, 98]] [1, 1] = [.ok (1, [66]), .ok (0, [65])] := by
  decide +kernel

/-- an entry that names no header file: the OLD iterator handed its content ("X") out as `/g`'s; the
repaired one stops with an error item -/
theorem old_position_pairing_unknown_witness :
    (iterateEOld wSizes 3 wArchiveUnknown).map (fun y => y.map (·.2)) = [.ok [65], .ok [88], .ok [66]]
    ∧ iterate wArchiveUnknown wPaths wSizes = [.ok (0, [65]), .err "no-such-file"] := by
  decide +kernel

/-- a truncated archive: the entry announces 4 bytes, the stream ends after 2 — an error, no short file -/
theorem truncated_archive_witness :
    iterate ((writeEntry { name := [46, 47, 97], ino := 1, mode := 33188 } [65, 66, 67, 68]).dropLast.dropLast) [[47, 97]] [4]
      = [.err "eof"] := by
  decide +kernel

/-! ## order of the builder's files -/

/-- **build_order** — the files the builder iterates over (`self.files`, a BTreeMap keyed by cpio path,
filled by `or_insert`) are strictly ascending by path (byte-lexicographic, as `String: Ord`), each is one
of the given files, every given path is present, and when the given paths are distinct the result is a
permutation of what was given: "the sequence given to the builder ordered by path". Together with
`files_of_build` (applied to `buildFiles given`) this is the last sentence of the property. -/
theorem build_order (given : List FileIn) :
    SortedByPath (buildFiles given)
    ∧ (∀ x ∈ buildFiles given, x ∈ given)
    ∧ (∀ g ∈ given, g.path ∈ (buildFiles given).map (·.path))
    ∧ ((given.map (·.path)).Nodup → (buildFiles given).Perm given) := by
  refine ⟨foldl_insert_sorted given [] List.Pairwise.nil, ?_, foldl_insert_paths given [], ?_⟩
  · intro x hx
    rcases foldl_insert_mem given [] x hx with h | h
    · exact h
    · cases h
  · intro hnd
    have := foldl_insert_perm given [] (by simpa using hnd)
    simpa [buildFiles] using this

/-- a strictly ascending list has no duplicate paths (so, with `headerPaths_nodup`, `builder_pairing` and
`files_of_build` apply to `buildFiles _`) -/
theorem sorted_nodup {l : List FileIn} (h : SortedByPath l) : (l.map (·.path)).Nodup := by
  refine List.pairwise_map.mpr (h.imp ?_)
  intro a b hab heq
  rw [heq, bytesLt_irrefl] at hab
  cases hab

/-! ## the iterator as a state machine: what `next()` answers AFTER an error item (Model/FileIter.lean)

`FileIterator::next` is neither fused nor stopped by an error.  The theorems of this section hold for every stream
state type `σ` and every `step : σ → Step σ`, i.e. for every behaviour of the `Box<dyn Read>` behind the iterator
(an in-memory cursor, a decompressor inside a damaged frame, a stream whose position after an error is arbitrary). -/

section StateMachine
open RpmVerif.FileIter

/-- **next_none_after_n** — once `count` has reached `file_entries.len()` the iterator answers `None` and does not
touch the stream any more -/
theorem next_none_after_n {σ : Type} (step : σ → Step σ) (n : Nat) (st : St σ) (h : st.count ≥ n) :
    next step n st = (none, st) :=
  next_of_ge step n st h

example : next (stepMem [[47, 97]] [1]) 1 ⟨1, [1, 2, 3]⟩ = (none, ⟨1, [1, 2, 3]⟩) := rfl

/-- **items_le_entries** — for EVERY stream behaviour: a consumer that pulls until the first `None` (`for`,
`collect()`, `count()`, at most `fuel` pulls) sees at most `file_entries.len() - count` items, errors included;
and a consumer that keeps calling `next()` after a `None` gets at most that many `Some(_)` answers in ANY number
`k` of calls (this is what `count += 1` BEFORE the read buys: seeds C04-4 / C04-8 moved it behind the read) -/
theorem items_le_entries {σ : Type} (step : σ → Step σ) (n : Nat) (st : St σ) :
    (∀ fuel, (drain step n fuel st).length ≤ n - st.count)
    ∧ (∀ k, ((answers step n k st).filter Option.isSome).length ≤ n - st.count) :=
  ⟨fun fuel => drain_length step n fuel st, fun k => answers_some_le step n k st⟩

/-- a fresh `files()` iterator: `collect()` returns at most `file_entries.len()` items -/
theorem collect_le_entries {σ : Type} (step : σ → Step σ) (n : Nat) (s : σ) : (collect step n s).length ≤ n :=
  drain_length step n (n + 1) ⟨0, s⟩

/-- the bound is attained, and attained by errors: a header with three files over an empty payload makes
`collect()` return three error items -/
example : collectMem [] [[47, 97], [47, 98], [47, 99]] [1, 1, 1] = [.err "eof", .err "eof", .err "eof"] := by decide +kernel

/-- **iterate_terminates** — for EVERY stream behaviour the loop `while let Some(x) = it.next()` ends: more than
`file_entries.len() - count` pulls change nothing (so `collect`'s `n + 1` pulls see the whole iteration), and after
that many calls every further call answers `None` -/
theorem iterate_terminates {σ : Type} (step : σ → Step σ) (n : Nat) (st : St σ) :
    (∀ fuel, n - st.count ≤ fuel → drain step n fuel st = drain step n (n - st.count) st)
    ∧ (∀ k, n - st.count ≤ k → (next step n (stateAfter step n k st)).1 = none) := by
  refine ⟨fun fuel hf => drain_fuel step n fuel st hf, fun k hk => ?_⟩
  have := stateAfter_count_ge step n k st (by omega)
  rw [next_of_ge step n _ this]

example : drain (stepMem [] []) 2 7 ⟨0, [9, 9]⟩ = drain (stepMem [] []) 2 2 ⟨0, [9, 9]⟩
    ∧ drain (stepMem [] []) 2 2 ⟨0, [9, 9]⟩ = [.err "eof", .err "eof"] := by decide +kernel

/-- **iterateE_is_prefix** — `Cpio.iterateE` (the iterator of all pairing / round-trip theorems above, which ends
its list at the first error) is exactly what a `collect()` of the real iteration shows up to and including the
first error item — whatever position `after` the stream is left at by an error (`stepAfter`), in particular for the
positions the in-memory stream really has (`stepMem`, `after = id`) -/
theorem iterateE_is_prefix (after : Bytes → Bytes) (paths : List Bytes) (sizes : List Nat) (archive : Bytes) :
    uptoErr (collect (stepAfter after paths sizes) sizes.length archive) = iterateE paths sizes sizes.length archive := by
  unfold collect
  rw [drain_fuel _ _ _ _ (by simp)]
  exact iterateE_is_prefix_gen after paths sizes sizes.length sizes.length 0 archive (by omega)

theorem iterateE_is_prefix_mem (paths : List Bytes) (sizes : List Nat) (archive : Bytes) :
    uptoErr (collectMem archive paths sizes) = iterateE paths sizes sizes.length archive := by
  have := iterateE_is_prefix id paths sizes archive
  rw [stepAfter_id] at this
  exact this

/-- no error item in `iterateE` (every archive the builder writes: `cpio_roundtrip`, `foreign_archive_pairing`):
then `collect()` returns exactly the items of `iterateE` — nothing comes after them -/
theorem collect_eq_iterateE_of_no_error (paths : List Bytes) (sizes : List Nat) (archive : Bytes)
    (h : ∀ o ∈ iterateE paths sizes sizes.length archive, o.isOk = true) :
    collectMem archive paths sizes = iterateE paths sizes sizes.length archive := by
  have hp := iterateE_is_prefix_mem paths sizes archive
  rw [← hp] at h
  rw [← hp, uptoErr_all_ok_iff _ h]

example : collectMem (archiveOf [({ name := [46, 47, 97], ino := 1, mode := 33188 }, [65])]) [[47, 97]] [1]
    = [.ok (0, .cpio ⟨false, [46, 47, 97], 1, 33188, 0, 0, 1, 0, 1, 0, 0, 0, 0, 0⟩, [65])] := by decide +kernel

/-- on a stream that is used up every remaining call is an `UnexpectedEof` item: a payload cut anywhere makes
`collect()` return one error per header file that is left -/
theorem drained_stream_only_errors (paths : List Bytes) (sizes : List Nat) (n fuel c : Nat) :
    drain (stepMem paths sizes) n fuel ⟨c, []⟩ = List.replicate (min fuel (n - c)) (.err "eof") :=
  drain_nil paths sizes n fuel c

/-- **after_error_keeps_answering_witness** — the archive ends inside the second of three files: `iterateE` (and a
consumer using `?`) stops at the error, `collect()` gets a second error item for the third header file -/
theorem after_error_keeps_answering_witness :
    let archive := writeEntry { name := [46, 47, 97], ino := 1, mode := 33188 } [65]
                   ++ (writeEntry { name := [46, 47, 98], ino := 2, mode := 33188 } [66, 66, 66, 66]).dropLast
    (iterate archive [[47, 97], [47, 98], [47, 99]] [1, 4, 0] = [.ok (0, [65]), .err "eof"])
    ∧ (collectMem archive [[47, 97], [47, 98], [47, 99]] [1, 4, 0]).map (Out.map fun x => (x.1, x.2.2))
        = [.ok (0, [65]), .err "eof", .err "eof"] := by
  decide +kernel

/-- **after_error_resumes_witness** — an entry that names no file of the header is an error item that leaves the
stream behind the entry's header; its data is empty here, so the next call finds the next entry and hands out an
`Ok` item AFTER the error (then `count` has reached the two header files and the trailer is never read) -/
theorem after_error_resumes_witness :
    let archive := archiveOf [({ name := [46, 47, 120], ino := 1, mode := 33188 }, []),
                              ({ name := [46, 47, 97], ino := 2, mode := 33188 }, [65])]
    (iterate archive [[47, 97], [47, 103]] [1, 0] = [.err "no-such-file"])
    ∧ (collectMem archive [[47, 97], [47, 103]] [1, 0]).map (Out.map fun x => (x.1, x.2.2))
        = [.err "no-such-file", .ok (0, [65])] := by
  decide +kernel

/-- the iterator is not fused: after the `None` of a trailer a further call reads on behind the trailer's header -/
theorem not_fused_witness :
    answers (stepMem [[47, 97], [47, 98]] [1, 1]) 2 3 ⟨0, trailer ++ writeEntry { name := [46, 47, 97] } [65]⟩
      = [none, some (.ok (0, .cpio ⟨false, [46, 47, 97], 0, 0, 0, 0, 1, 0, 1, 0, 0, 0, 0, 0⟩, [65])), none] := by
  decide +kernel

end StateMachine

/-! ## `payload::Writer` as a state machine (Model/PayloadWriter.lean)

The inner sink is an arbitrary response script (short writes, `Interrupted`, hard errors, a failing `flush`); all
theorems quantify over it. -/

section WriterMachine
open RpmVerif.PWriter

/-- **prepare_data_invariant** — a `Writer` that has exactly `buf` left to take (`written + buf.len() == file_size`,
`file_size <= u32::MAX`): the call `write(buf)` passes the guard `written + buf.len() as u32 <= file_size` without
overflow, does not return `UnexpectedEof`, and leaves the `Writer` with exactly the rest of `buf` to take (after
`Ok(n)`: `buf[n..]`; after `Interrupted`: `buf` again) — so the invariant holds along the whole `write_all(buf)`,
which for EVERY sink behaviour ends without panic, without the `Writer`'s `UnexpectedEof` (and without running out
of the model's fuel), and if `Ok` with `written == file_size`, the state in which `finish` pads. -/
theorem prepare_data_invariant (w : Writer) (buf : Bytes)
    (hinv : w.written + buf.length = w.fileSize) (hfs : w.fileSize ≤ 4294967295) :
    ((∀ p, (w.write buf).1 ≠ .panic p) ∧ (w.write buf).1 ≠ .err "unexpected-eof"
      ∧ (∀ n, (w.write buf).1 = .ok n →
          n ≤ buf.length ∧ (w.write buf).2.written + (buf.drop n).length = (w.write buf).2.fileSize
          ∧ (w.write buf).2.fileSize = w.fileSize)
      ∧ ((w.write buf).1 = .err "interrupted" →
          (w.write buf).2.written + buf.length = (w.write buf).2.fileSize ∧ (w.write buf).2.fileSize = w.fileSize))
    ∧ ((∀ p, (w.writeAll buf).1 ≠ .panic p) ∧ (w.writeAll buf).1 ≠ .err "unexpected-eof"
      ∧ (w.writeAll buf).1 ≠ .err "fuel"
      ∧ ((w.writeAll buf).1 = .ok () → (w.writeAll buf).2.written = (w.writeAll buf).2.fileSize)) := by
  have hfs' : w.fileSize < 4294967296 := by omega
  constructor
  · obtain ⟨h1, _, _, _, _, h6⟩ := Writer.write_spec w buf hinv hfs'
    rcases h6 with ⟨n, e1, e2, e3, _, _, _⟩ | ⟨e1, e3, _⟩ | e1 | e1
    · rw [e1]
      refine ⟨fun p h => (by cases h), fun h => (by cases h), fun k hk => ?_, fun h => (by cases h)⟩
      cases hk
      exact ⟨e2, by rw [e3, h1, List.length_drop]; omega, h1⟩
    · rw [e1]
      refine ⟨fun p h => (by cases h), (by simp), fun k hk => (by cases hk), fun _ => ?_⟩
      exact ⟨by rw [e3, h1]; exact hinv, h1⟩
    · rw [e1]
      exact ⟨fun p h => (by cases h), (by simp), fun k hk => (by cases hk), fun h => (by simp at h)⟩
    · rw [e1]
      exact ⟨fun p h => (by cases h), (by simp), fun k hk => (by cases hk), fun h => (by simp at h)⟩
  · obtain ⟨_, _, _, h4, _, h6⟩ := Writer.writeAll_spec w buf hinv hfs'
    rcases h6 with ⟨e1, e2, _⟩ | e1 | e1
    · rw [e1]
      exact ⟨fun p h => (by cases h), fun h => (by cases h), fun h => (by cases h), fun _ => (by rw [e2, h4])⟩
    · rw [e1]
      exact ⟨fun p h => (by cases h), (by simp), (by simp), fun h => (by cases h)⟩
    · rw [e1]
      exact ⟨fun p h => (by cases h), (by simp), (by simp), fun h => (by cases h)⟩

/-- the hypotheses of `prepare_data_invariant` hold for the `Writer` the builder makes for a content that fits a
`u32` (`write_cpio(&mut archive, content.len() as u32)` followed by `write_all(&content)`) -/
theorem builder_writer_announces_content (m : EntryMeta) (content : Bytes) (check : Option Nat) (s : Sink)
    (hc : content.length ≤ 4294967295) :
    (Writer.new m (content.length % 4294967296) check s).written + content.length
      = (Writer.new m (content.length % 4294967296) check s).fileSize
    ∧ (Writer.new m (content.length % 4294967296) check s).fileSize ≤ 4294967295 := by
  rw [Nat.mod_eq_of_lt (by omega)]
  exact ⟨by simp [Writer.new], hc⟩

example : (Writer.new { name := [46, 47, 97] } 3 none {}).written + [7, 8, 9].length
    = (Writer.new { name := [46, 47, 97] } 3 none {}).fileSize := rfl

/-- **standard_mode_sizes_fit_u32** — the connection to the builder's large-file switch: the `Writer` is only used
when `combined_file_sizes > u32::MAX` is false, and then every single content fits a `u32`, so `content.len() as u32`
is exact and `builder_writer_announces_content` applies to every file of the loop -/
theorem standard_mode_sizes_fit_u32 (files : List FileIn) (h : usesLargeFiles files = false) :
    ∀ f ∈ files, f.content.length ≤ 4294967295 := by
  intro f hf
  have h1 : f.content.length ∈ files.map (·.content.length) := List.mem_map.mpr ⟨f, hf, rfl⟩
  have h2 := sum_le_of_mem h1
  unfold usesLargeFiles at h
  have h3 : ¬ ((files.map (·.content.length)).sum > 4294967295) := by simpa using h
  omega

example : usesLargeFiles [⟨[46, 47, 97], 33188, [1, 2, 3]⟩, ⟨[46, 47, 98], 33188, []⟩] = false := by decide

/-- **writer_eq_writeEntry** — one file through the state machine (`write_cpio`, `write_all`, `finish`), content
fitting a `u32`, EVERY sink: the outcome is `Ok` or an error of the sink (never a panic, never `UnexpectedEof`); when
`Ok`, exactly `Cpio.writeEntry` — header, content, padding — went out (the model of all theorems above); a sink that
accepts everything gives `Ok` -/
theorem writer_eq_writeEntry (m : EntryMeta) (content : Bytes) (s : Sink) (hc : content.length ≤ 4294967295) :
    (((entryW m content s).1 = .ok () ∧ (entryW m content s).2.out = s.out ++ writeEntry m content)
       ∨ (entryW m content s).1 = .err "io" ∨ (entryW m content s).1 = .err "write-zero")
    ∧ (s.script = [] → s.flushFails = false → (entryW m content s).1 = .ok ()) := by
  obtain ⟨_, _, h3, h4⟩ := entryW_spec m content s (by omega)
  exact ⟨h4, h3⟩

example : entryW { name := [46, 47, 97], ino := 1, mode := 33188 } [65, 66, 67] {}
    = (.ok (), { out := writeEntry { name := [46, 47, 97], ino := 1, mode := 33188 } [65, 66, 67] }) := by decide +kernel
/-- a sink that takes one byte per call, is interrupted once and fails at the end: an error, not a panic -/
example : (entryW { name := [46] } [65, 66] { script := [.ok 1, .intr, .ok 200, .ok 1, .fail] }).1 = .err "io" := by
  decide +kernel

/-- **builder_archive_writer** — the standard-mode loop of `prepare_data` plus `payload::trailer` run through the
`Writer` state machine, for a file list that does not trip the large-file switch: `Ok` means the archive is exactly
`builderArchive` (the archive of `files_of_build`, `builder_pairing`, C09's `payload_valid_std`); into a `Vec` (a sink
that accepts everything) the outcome IS `Ok` -/
theorem builder_archive_writer (uid gid : Nat) (files : List FileIn) (h : usesLargeFiles files = false) (s : Sink) :
    (((builderArchiveW uid gid files s).1 = .ok ()
        ∧ (builderArchiveW uid gid files s).2.out = s.out ++ builderArchive uid gid files)
       ∨ (builderArchiveW uid gid files s).1 = .err "io" ∨ (builderArchiveW uid gid files s).1 = .err "write-zero")
    ∧ builderArchiveW uid gid files {} = (.ok (), { out := builderArchive uid gid files }) := by
  have hes : ∀ x ∈ builderEntriesFrom uid gid 1 files, x.2.length < 4294967296 := by
    intro x hx
    obtain ⟨f, hf, e⟩ := builderEntriesFrom_content uid gid files 1 x hx
    have := standard_mode_sizes_fit_u32 files h f hf
    rw [e]; omega
  constructor
  · exact (entriesW_spec _ hes s).2.2.2
  · obtain ⟨h1, h2, h3, h4⟩ := entriesW_spec _ hes {}
    have hok := h3 rfl rfl
    rcases h4 with ⟨_, e2⟩ | e1
    · unfold builderArchiveW
      rcases hr : entriesW (builderEntriesFrom uid gid 1 files) {} with ⟨o, r⟩
      rw [hr] at h1 h2 hok e2
      simp only at h1 h2 hok e2
      subst hok
      have := sink_eta r {} _ e2 h1 h2 rfl
      rw [this]
      simp [builderArchive]
    · rw [hok] at e1; rcases e1 with e1 | e1 <;> cases e1

example : (builderArchiveW 0 0 [⟨[46, 47, 97], 33188, [1, 2, 3]⟩, ⟨[46, 47, 98], 33261, []⟩] {}).2.out
    = builderArchive 0 0 [⟨[46, 47, 97], 33188, [1, 2, 3]⟩, ⟨[46, 47, 98], 33261, []⟩] := by decide +kernel

/-- **short_write_unpadded_witness** — the silent branch of `do_finish`: 5 bytes announced, 3 written; `write_all` and
`finish` both return `Ok`, the entry ends after the 3 bytes without padding (119 bytes: the next entry would start
off the 4-byte grid) while its header still says 5.  Not reachable from `prepare_data` (`prepare_data_invariant`). -/
theorem short_write_unpadded_witness :
    let w := Writer.new { name := [46, 47, 97] } 5 none {}
    (w.writeAll [1, 2, 3]).1 = .ok ()
    ∧ (w.writeAll [1, 2, 3]).2.finish = (.ok (), { out := intoHeader { name := [46, 47, 97] } 5 none ++ [1, 2, 3] })
    ∧ (intoHeader { name := [46, 47, 97] } 5 none ++ [1, 2, 3]).length = 119 := by
  decide +kernel

/-- the general form of the silent branch: whenever fewer (or, after an overflow-free excess, other) bytes than
announced were written, `finish` emits the pending header and nothing else, and does not fail for that reason -/
theorem finish_unpadded_when_short (w : Writer) (h : w.written ≠ w.fileSize) :
    (w.finish.1 = .ok () ∧ w.finish.2.out = w.inner.out ++ w.header)
    ∨ w.finish.1 = .err "io" ∨ w.finish.1 = .err "write-zero" := by
  obtain ⟨_, _, _, h4⟩ := Writer.finish_spec w
  rcases h4 with ⟨e1, e2⟩ | e1
  · left; refine ⟨e1, ?_⟩
    rw [e2, if_neg h]; simp [pendingOut]
  · right; exact e1

/-- **excess_write_refused_witness** — more than announced: the whole `write` is refused with `UnexpectedEof` and
nothing goes out, not even the header; `write_all` stops there -/
theorem excess_write_refused_witness :
    let w := Writer.new { name := [46, 47, 97] } 2 none {}
    w.write [1, 2, 3] = (.err "unexpected-eof", w) ∧ w.writeAll [1, 2, 3] = (.err "unexpected-eof", w) :=
  ⟨rfl, rfl⟩

/-- **full_writer_overflows** — the `u32` addition of the guard: a `Writer` that has taken `u32::MAX` bytes answers a
further non-empty `write` not with `UnexpectedEof` but with an arithmetic overflow (a panic under
`overflow-checks`; a release build wraps to 0 and passes the guard).  The state is reachable only after 4 GiB − 1
bytes went through one `Writer`; `prepare_data` never makes a second call after the announced size is reached. -/
theorem full_writer_overflows (w : Writer) (h : w.written = 4294967295) (b : UInt8) :
    (w.write [b]).1 = .panic "u32-overflow" := by
  unfold Writer.write u32Add
  rw [h]; rfl

example : ((⟨{}, 4294967295, 4294967295, 116, []⟩ : Writer).write [7]).1 = .panic "u32-overflow" := rfl

/-- **cast_truncation_accepts_excess** — `buf.len() as u32` truncates: a buffer of exactly 2^32 bytes counts as 0, so
a `Writer` that is already full (`written == file_size`) passes it on to the sink and reports `Ok(2^32)` with
`written` unchanged.  Needs a single 4 GiB buffer; the builder hands over `content` of the announced size
(`standard_mode_sizes_fit_u32`: below 2^32 in standard mode). -/
theorem cast_truncation_accepts_excess (w : Writer) (buf : Bytes) (hb : buf.length = 4294967296)
    (hh : w.header = []) (hs : w.inner.script = []) (hw : w.written ≤ w.fileSize) (hlt : w.written < 4294967296) :
    w.write buf = (.ok 4294967296, { w with inner := { w.inner with out := w.inner.out ++ buf } }) := by
  unfold Writer.write u32Add Writer.tryWriteHeader Sink.write
  simp [hb, hh, hs, hw, hlt]

end WriterMachine

/-! ## non-vacuity -/

/-- the hypotheses of the round-trip theorems are satisfiable by non-trivial values -/
example : EntryOK ({ name := [46, 47, 97], ino := 1, mode := 33188 }, [65]) :=
  ⟨by constructor <;> decide, by decide, by decide⟩
example : FileIn.OK ⟨[46, 47, 97, 47, 98], 33188, [1, 2, 3, 4, 5]⟩ := by constructor <;> decide
example : iterate (builderArchive 0 0 [⟨[46, 47, 97], 33188, [1, 2, 3]⟩, ⟨[46, 47, 98], 33261, []⟩]) [[47, 97], [47, 98]] [3, 0]
    = [.ok (0, [1, 2, 3]), .ok (1, [])] := by decide +kernel
example : iterate (builderArchiveLarge [⟨[46, 47, 97], 33188, [1, 2, 3]⟩, ⟨[46, 47, 98], 33261, [9]⟩]) [[47, 97], [47, 98]] [3, 1]
    = [.ok (0, [1, 2, 3]), .ok (1, [9])] := by decide +kernel
example : (builderArchive 0 0 [⟨[46, 47, 97], 33188, [1, 2, 3]⟩]).length = 116 + 4 + 124 := by decide +kernel
example : wPaths.Nodup := by decide
example : (buildFiles [⟨[46, 47, 98], 1, []⟩, ⟨[46, 47, 97], 2, [7]⟩, ⟨[46, 47, 98], 3, [9]⟩]).map (·.mode) = [2, 1] := by decide
example : (headerPaths [⟨[46, 47, 97], 33188, [1]⟩, ⟨[46, 47, 98], 33188, []⟩]).Nodup ∧ FileIn.Rooted ⟨[46, 47, 97], 33188, [1]⟩ :=
  ⟨by decide, ⟨[97], rfl⟩⟩
/-- `pairing_by_name` is not vacuous: a reordered archive and a ghost-omitting archive on which the
iterator yields `ok` items, each under the index of the file its entry names -/
example : pairedByPath [[47, 97], [47, 98]] (iterateE [[47, 97], [47, 98]] [1, 1] 2 wArchiveReordered) = true
    ∧ (iterateE [[47, 97], [47, 98]] [1, 1] 2 wArchiveReordered).length = 2 := by decide +kernel
example : pairedByPath wPaths (iterateE wPaths wSizes 3 wArchive) = true
    ∧ (iterateE wPaths wSizes 3 wArchive).map (fun y => y.map (·.1)) = [.ok 0, .ok 2] := by decide +kernel
/-- stripped entries out of order (index 1 before index 0): paired by the carried index -/
example : iterate (strippedHeader 1 ++ ([66, 66] ++ (pad 2 ++ (strippedHeader 0 ++ ([65] ++ (pad 1 ++ trailer))))))
    [[47, 97], [47, 98]] [1, 2] = [.ok (1, [66, 66]), .ok (0, [65])] := by decide +kernel
/-- source-package style names (no `./`), one of them starting with a dot -/
example : iterate (archiveOf [({ name := [46, 104] }, [1]), ({ name := [120, 46, 115] }, [2, 3])]) [[120, 46, 115], [46, 104]] [2, 1]
    = [.ok (1, [1]), .ok (0, [2, 3])] := by decide +kernel
example : Designates wPaths (.stripped 2) 2 ∧ ¬ Designates wPaths (.stripped 3) 3 := by
  simp [Designates, wPaths]
example : namePath [46, 47, 97] = [47, 97] ∧ namePath [46, 97] = [46, 97] ∧ namePath [97] = [97] ∧ namePath [46] = [46] := by decide

end RpmVerif.C07
