import RpmVerif.Lemmas.FileMode
/-!
# C18 — file modes convert without losing or inventing bits

`fromU16`, `fromI32`, `rawMode`, `fileType`, `permissions`, `mkRegular/mkDir/mkSymlink`
(Model/FileMode.lean) mirror `impl From<u16>/From<i32> for FileMode` and the accessors of
src/rpm/headers/types.rs; the mask constants are the generated ones (`consts_ok` pins them to the
numbers of the property text). Every theorem is for **all** 16-bit words (`w < 65536`, by a bit-level
argument: `0o170000 ||| 0o7777 = 2^16 − 1`, no enumeration) respectively **all** integers (`Int`, so
in particular all of `i32`).

The last three theorems (`spec_word`, `spec_int`, `spec_ctor`) say that the very predicates the
driver evaluates on the implementation's observations hold of the model's observation on every input.
-/
set_option linter.unusedVariables false
namespace RpmVerif.C18
open RpmVerif.FileMode RpmVerif.FileMode.Spec RpmVerif.Gen

/-- The constants scraped from the source are the ones the property is about
(S_IFMT, 12 permission bits, S_IFDIR, S_IFREG, S_IFLNK). -/
theorem consts_ok : fileTypeBitMask = 0o170000 ∧ permissionsBitMask = 0o7777 ∧ dirFileType = 0o040000
    ∧ regularFileType = 0o100000 ∧ symbolicLinkFileType = 0o120000 := consts

/-! ### 16-bit words -/

/-- `file_type()` is exactly the type bits and `permissions()` exactly the low 12 bits of the word
(also for the `Invalid` variant, which keeps the whole word). -/
theorem u16_parts (w : Nat) (h : w < 65536) :
    fileType (fromU16 w) = w &&& 0o170000 ∧ permissions (fromU16 w) = w &&& 0o7777 := by
  obtain ⟨e1, e2, e3, e4, e5⟩ := consts
  rcases fromU16_cases w with ⟨h1, e⟩ | ⟨h1, e⟩ | ⟨h1, e⟩ | ⟨_, _, _, e⟩
  · rw [e]; exact ⟨by simp only [fileType]; rw [e3, h1], rfl⟩
  · rw [e]; exact ⟨by simp only [fileType]; rw [e4, h1], rfl⟩
  · rw [e]; exact ⟨by simp only [fileType]; rw [e5, h1], rfl⟩
  · rw [e]; simp only [fileType, permissions]; rw [asU16_ofNat w h, e1, e2]; exact ⟨rfl, rfl⟩

/-- Type part and permission part recombine to the word. -/
theorem u16_recombine (w : Nat) (h : w < 65536) :
    fileType (fromU16 w) ||| permissions (fromU16 w) = w := by
  obtain ⟨a, b⟩ := u16_parts w h
  rw [a, b]; exact split_word w h

/-- Round trip: `raw_mode()`, `u16::from` and `u32::from` of the converted word give the word back. -/
theorem u16_roundtrip (w : Nat) (h : w < 65536) :
    rawMode (fromU16 w) = w ∧ toU16 (fromU16 w) = w ∧ toU32 (fromU16 w) = w := by
  have key : rawMode (fromU16 w) = w := by
    obtain ⟨e1, e2, e3, e4, e5⟩ := consts
    have hs := split_word' w h
    rcases fromU16_cases w with ⟨h1, e⟩ | ⟨h1, e⟩ | ⟨h1, e⟩ | ⟨_, _, _, e⟩
    · rw [e]; simp only [rawMode, fileType]; rw [e3, ← h1]; exact hs
    · rw [e]; simp only [rawMode, fileType]; rw [e4, ← h1]; exact hs
    · rw [e]; simp only [rawMode, fileType]; rw [e5, ← h1]; exact hs
    · rw [e]; simp only [rawMode]; exact asU16_ofNat w h
  exact ⟨key, key, key⟩

/-- Classification: the value is a directory / regular file / symbolic link exactly when the type bits
are S_IFDIR / S_IFREG / S_IFLNK, and it is reported invalid exactly when they are none of the three.
(No bound on `w` needed.) -/
theorem u16_classify (w : Nat) :
    (isDir (fromU16 w) = true ↔ w &&& 0o170000 = 0o040000) ∧
    (isRegular (fromU16 w) = true ↔ w &&& 0o170000 = 0o100000) ∧
    (isSymlink (fromU16 w) = true ↔ w &&& 0o170000 = 0o120000) ∧
    (isErr (fromU16 w) = true ↔
      (w &&& 0o170000 ≠ 0o040000 ∧ w &&& 0o170000 ≠ 0o100000 ∧ w &&& 0o170000 ≠ 0o120000)) := by
  rcases fromU16_cases w with ⟨h1, e⟩ | ⟨h1, e⟩ | ⟨h1, e⟩ | ⟨h1, h2, h3, e⟩
  · rw [e, h1]; simp [isDir, isRegular, isSymlink, isErr]
  · rw [e, h1]; simp [isDir, isRegular, isSymlink, isErr]
  · rw [e, h1]; simp [isDir, isRegular, isSymlink, isErr]
  · rw [e]; simp [isDir, isRegular, isSymlink, isErr, h1, h2, h3]

/-- Unless the word is reported invalid, its permission part has only 12 bits. -/
theorem u16_perm_12bit (w : Nat) : permissions (fromU16 w) < 4096 ∨ isErr (fromU16 w) = true := by
  rcases fromU16_cases w with ⟨_, e⟩ | ⟨_, e⟩ | ⟨_, e⟩ | ⟨_, _, _, e⟩
  · left; rw [e]; exact and_mask_lt w
  · left; rw [e]; exact and_mask_lt w
  · left; rw [e]; exact and_mask_lt w
  · right; rw [e]; rfl

/-! ### integers -/

/-- Integers outside the 16-bit range (above `u16::MAX` or below `i16::MIN`) are reported invalid,
keeping the offending number. -/
theorem i32_out_of_range (n : Int) (h : n > 65535 ∨ n < -32768) :
    fromI32 n = .invalid n ∧ isErr (fromI32 n) = true ∧ (tryFromRaw n).2 = true := by
  have e : fromI32 n = .invalid n := by unfold fromI32; rw [if_pos h]
  refine ⟨e, ?_, ?_⟩
  · rw [e]; rfl
  · unfold tryFromRaw; rw [e]; rfl

/-- Inside the range the integer conversion is the 16-bit conversion of the same bit pattern. -/
theorem i32_in_range (n : Int) (h1 : -32768 ≤ n) (h2 : n ≤ 65535) :
    fromI32 n = fromU16 (n % 65536).toNat ∧ (n % 65536).toNat < 65536 := by
  refine ⟨?_, by omega⟩
  unfold fromI32
  rw [if_neg (by omega)]
  rfl

/-- … which for 0 ≤ n ≤ 65535 is the word `n` itself … -/
theorem i32_nonneg (n : Int) (h1 : 0 ≤ n) (h2 : n ≤ 65535) : fromI32 n = fromU16 n.toNat := by
  rw [(i32_in_range n (by omega) h2).1]
  congr 1; omega

/-- … and for −32768 ≤ n < 0 the word `n + 65536` (two's complement). -/
theorem i32_neg (n : Int) (h1 : -32768 ≤ n) (h2 : n < 0) : fromI32 n = fromU16 (n + 65536).toNat := by
  rw [(i32_in_range n h1 (by omega)).1]
  congr 1; omega

/-- So an in-range integer round-trips to its 16-bit pattern, and its parts recombine to it. -/
theorem i32_roundtrip (n : Int) (h1 : -32768 ≤ n) (h2 : n ≤ 65535) :
    rawMode (fromI32 n) = (n % 65536).toNat ∧
    fileType (fromI32 n) ||| permissions (fromI32 n) = (n % 65536).toNat := by
  obtain ⟨e, hb⟩ := i32_in_range n h1 h2
  rw [e]
  exact ⟨(u16_roundtrip _ hb).1, u16_recombine _ hb⟩

/-- An integer is reported invalid exactly when it is out of range or its type bits are none of the
three known ones. -/
theorem i32_invalid_iff (n : Int) :
    isErr (fromI32 n) = true ↔
      (n > 65535 ∨ n < -32768 ∨
        ((n % 65536).toNat &&& 0o170000 ≠ 0o040000 ∧ (n % 65536).toNat &&& 0o170000 ≠ 0o100000
          ∧ (n % 65536).toNat &&& 0o170000 ≠ 0o120000)) := by
  by_cases h : n > 65535 ∨ n < -32768
  · have := (i32_out_of_range n h).2.1
    constructor
    · intro _; rcases h with h | h
      · exact Or.inl h
      · exact Or.inr (Or.inl h)
    · intro _; exact this
  · have hr : -32768 ≤ n ∧ n ≤ 65535 := by omega
    rw [(i32_in_range n hr.1 hr.2).1, (u16_classify _).2.2.2]
    constructor
    · intro c; exact Or.inr (Or.inr c)
    · intro c
      rcases c with c | c | c
      · exact absurd (Or.inl c) h
      · exact absurd (Or.inr c) h
      · exact c

/-! ### named constructors -/

/-- The named constructors mask the permissions to 12 bits (`0o7777`) and build the named kind. -/
theorem ctor_masks (p : Nat) :
    (mkRegular p = .regular (p &&& 0o7777) ∧ mkDir p = .dir (p &&& 0o7777) ∧ mkSymlink p = .symlink (p &&& 0o7777))
    ∧ permissions (mkRegular p) = p &&& 0o7777 ∧ permissions (mkDir p) = p &&& 0o7777
    ∧ permissions (mkSymlink p) = p &&& 0o7777 ∧ p &&& 0o7777 < 4096 := by
  obtain ⟨_, e2, _, _, _⟩ := consts
  unfold mkRegular mkDir mkSymlink
  rw [e2]
  exact ⟨⟨rfl, rfl, rfl⟩, rfl, rfl, rfl, and_mask_lt p⟩

/-- Their raw mode is the type constant or-ed with the masked permissions … -/
theorem ctor_raw (p : Nat) :
    rawMode (mkRegular p) = (p &&& 0o7777) ||| 0o100000 ∧ rawMode (mkDir p) = (p &&& 0o7777) ||| 0o040000
    ∧ rawMode (mkSymlink p) = (p &&& 0o7777) ||| 0o120000 := by
  obtain ⟨_, e2, e3, e4, e5⟩ := consts
  unfold mkRegular mkDir mkSymlink
  simp only [rawMode, fileType]
  rw [e2, e3, e4, e5]
  exact ⟨rfl, rfl, rfl⟩

/-- … and converting that raw mode gives the constructed value back (constructors and conversion agree). -/
theorem ctor_roundtrip (p : Nat) :
    fromU16 (rawMode (mkRegular p)) = mkRegular p ∧ fromU16 (rawMode (mkDir p)) = mkDir p
    ∧ fromU16 (rawMode (mkSymlink p)) = mkSymlink p := by
  obtain ⟨⟨c1, c2, c3⟩, _⟩ := ctor_masks p
  obtain ⟨r1, r2, r3⟩ := ctor_raw p
  have ht : ∀ t : Nat, t &&& 0o170000 = t → t &&& 0o7777 = 0 →
      ((p &&& 0o7777) ||| t) &&& 0o170000 = t ∧ ((p &&& 0o7777) ||| t) &&& 0o7777 = p &&& 0o7777 := by
    intro t a b
    rw [Nat.and_or_distrib_right, Nat.and_or_distrib_right, perm_and_type, perm_and_perm, a, b,
      Nat.zero_or, Nat.or_zero]
    exact ⟨rfl, rfl⟩
  refine ⟨?_, ?_, ?_⟩
  · rw [r1, c1]
    obtain ⟨a, b⟩ := ht 0o100000 (by decide) (by decide)
    rcases fromU16_cases ((p &&& 0o7777) ||| 0o100000) with ⟨h, e⟩ | ⟨h, e⟩ | ⟨h, e⟩ | ⟨_, h, _, e⟩
    · rw [a] at h; exact absurd h (by decide)
    · rw [e, b]
    · rw [a] at h; exact absurd h (by decide)
    · exact absurd a h
  · rw [r2, c2]
    obtain ⟨a, b⟩ := ht 0o040000 (by decide) (by decide)
    rcases fromU16_cases ((p &&& 0o7777) ||| 0o040000) with ⟨h, e⟩ | ⟨h, e⟩ | ⟨h, e⟩ | ⟨h, _, _, e⟩
    · rw [e, b]
    · rw [a] at h; exact absurd h (by decide)
    · rw [a] at h; exact absurd h (by decide)
    · exact absurd a h
  · rw [r3, c3]
    obtain ⟨a, b⟩ := ht 0o120000 (by decide) (by decide)
    rcases fromU16_cases ((p &&& 0o7777) ||| 0o120000) with ⟨h, e⟩ | ⟨h, e⟩ | ⟨h, e⟩ | ⟨_, _, h, e⟩
    · rw [a] at h; exact absurd h (by decide)
    · rw [a] at h; exact absurd h (by decide)
    · rw [e, b]
    · exact absurd a h

/-! ### the driver's spec predicates hold of the model on every input -/

/-- `specWord` (round trip, recombination, the three classifications) for every 16-bit word. -/
theorem spec_word (w : Nat) (h : w < 65536) : specWord w (observe (fromU16 w)) = true := by
  obtain ⟨r1, r2, r3⟩ := u16_roundtrip w h
  have rc := u16_recombine w h
  obtain ⟨cd, cr, cs, _⟩ := u16_classify w
  have kd : (kindOf (fromU16 w) == Kind.dir) = isDir (fromU16 w) := by cases fromU16 w <;> rfl
  have kr : (kindOf (fromU16 w) == Kind.regular) = isRegular (fromU16 w) := by cases fromU16 w <;> rfl
  have ks : (kindOf (fromU16 w) == Kind.symlink) = isSymlink (fromU16 w) := by cases fromU16 w <;> rfl
  have b : ∀ (x : Bool) (a c : Nat), (x = true ↔ a = c) → (x == (a == c)) = true := by
    intro x a c hx
    cases x
    · have : a ≠ c := fun e => Bool.noConfusion (hx.mpr e)
      simp [this]
    · simp [hx.mp rfl]
  simp only [specWord, observe, typeBits, r1, r2, r3, rc, kd, kr, ks, beq_self_eq_true, Bool.true_and,
    Bool.and_eq_true]
  exact ⟨⟨b _ _ _ cd, b _ _ _ cr⟩, b _ _ _ cs⟩

/-- `specInt` for every integer: out of range → reported invalid; in range → as the 16-bit word. -/
theorem spec_int (n : Int) : specInt n (observe (fromI32 n)) = true := by
  unfold specInt
  by_cases h : n > 65535 ∨ n < -32768
  · have hr : inRange16 n = false := by
      unfold inRange16
      rcases h with h | h
      · have : ¬ n ≤ 65535 := by omega
        simp [this]
      · have : ¬ -32768 ≤ n := by omega
        simp [this]
    rw [hr, (i32_out_of_range n h).1]
    rfl
  · have hb : -32768 ≤ n ∧ n ≤ 65535 := by omega
    have hr : inRange16 n = true := by unfold inRange16; simp [hb.1, hb.2]
    obtain ⟨e, hlt⟩ := i32_in_range n hb.1 hb.2
    rw [hr, e]
    exact spec_word _ hlt

/-- `specCtor` for every argument of the three named constructors. -/
theorem spec_ctor (p : Nat) :
    specCtor .regular p (observe (mkRegular p)) = true ∧ specCtor .dir p (observe (mkDir p)) = true
    ∧ specCtor .symlink p (observe (mkSymlink p)) = true := by
  obtain ⟨⟨c1, c2, c3⟩, _, _, _, hlt⟩ := ctor_masks p
  rw [c1, c2, c3]
  simp [specCtor, observe, kindOf, permissions, hlt, rawMode, toU16, toU32, fileType, typeWord,
    dirFileType, regularFileType, symbolicLinkFileType]
  exact ⟨Nat.or_comm _ _, Nat.or_comm _ _, Nat.or_comm _ _⟩

/-! ### non-vacuity: the hypotheses are met by concrete, non-trivial values -/

example : fromU16 0o100644 = .regular 0o644 ∧ rawMode (fromU16 0o100644) = 0o100644 := by decide
example : fromU16 0o040755 = .dir 0o755 ∧ fromU16 0o120777 = .symlink 0o777 := by decide
example : fromU16 0o104755 = .regular 0o4755 := by decide            -- setuid bit is a permission bit
example : fromU16 0o060660 = .invalid 0o060660 ∧ isErr (fromU16 0o060660) = true := by decide  -- block device
example : (0o100644 : Nat) < 65536 ∧ (0o100644 &&& 0o170000 : Nat) = 0o100000 := by decide
example : ∃ w, w < 65536 ∧ w &&& 0o170000 ≠ 0o040000 ∧ w &&& 0o170000 ≠ 0o100000 ∧ w &&& 0o170000 ≠ 0o120000 :=
  ⟨0o010644, by decide⟩
example : fromI32 65536 = .invalid 65536 ∧ fromI32 (-32769) = .invalid (-32769) := by decide
example : fromI32 65535 = .invalid 65535 ∧ rawMode (fromI32 65535) = 65535 := by decide  -- in range, unknown type
example : fromI32 (-32768) = .regular 0 ∧ fromI32 (-24147) = .symlink 0o655 := by decide   -- negative, in range
example : fromI32 33188 = fromU16 33188 ∧ fromU16 33188 = .regular 0o644 := by decide
example : mkRegular 0o177777 = .regular 0o7777 ∧ mkDir 0o10755 = .dir 0o755 ∧ mkSymlink 0o777 = .symlink 0o777 := by
  decide
example : specWord 0o100644 (observe (.regular 0o645)) = false := by decide     -- the spec can fail
example : specInt 70000 (observe (.regular 0)) = false := by decide
example : specCtor .regular 0o17777 (observe (.regular 0o17777)) = false := by decide
-- the unmasked constructor of seed C18-8 with masking moved to `permissions()`: kind and permissions fine, the word is a symlink's
example : specCtor .regular 0o20644 { (observe (.regular 0o644)) with raw := 0o120644, back16 := 0o120644, back32 := 0o120644 } = false := by decide

end RpmVerif.C18
