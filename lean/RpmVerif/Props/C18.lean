import RpmVerif.Lemmas.FileMode
/-!
# C18 — file modes convert without losing or inventing bits

`fromU16`, `fromI32`, `rawMode`, `fileType`, `permissions`, `mkRegular/mkDir/mkSymlink`
(Model/FileMode.lean) mirror `impl From<u16>/From<i32> for FileMode` and the accessors of
src/rpm/headers/types.rs; the mask constants are the generated ones (`consts_ok` pins them to the
numbers of the property text). Every theorem is for **all** 16-bit words (`w < 65536`, by a bit-level
argument: `0o170000 ||| 0o7777 = 2^16 − 1`, no enumeration) respectively **all** integers (`Int`, so
in particular all of `i32`).

The last three theorems (`spec_word`, `spec_int`, `spec_ctor`) say that the very predicates the
driver evaluates on the implementation's observations hold of the model's observation on every input.
-/
set_option linter.unusedVariables false
namespace RpmVerif.C18
open RpmVerif.FileMode RpmVerif.FileMode.Spec RpmVerif.Gen

/-- The constants scraped from the source are the ones the property is about
(S_IFMT, 12 permission bits, S_IFDIR, S_IFREG, S_IFLNK). -/
theorem consts_ok : fileTypeBitMask = 0o170000 ∧ permissionsBitMask = 0o7777 ∧ dirFileType = 0o040000
    ∧ regularFileType = 0o100000 ∧ symbolicLinkFileType = 0o120000 := consts

/-! ### 16-bit words -/

/-- `file_type()` is exactly the type bits and `permissions()` exactly the low 12 bits of the word
(also for the `Invalid` variant, which keeps the whole word). -/
theorem u16_parts (w : Nat) (h : w < 65536) :
    fileType (fromU16 w) = w &&& 0o170000 ∧ permissions (fromU16 w) = w &&& 0o7777 := by
  obtain ⟨e1, e2, e3, e4, e5⟩ := consts
  rcases fromU16_cases w with ⟨h1, e⟩ | ⟨h1, e⟩ | ⟨h1, e⟩ | ⟨_, _, _, e⟩
  · rw [e]; exact ⟨by simp only [fileType]; rw [e3, h1], rfl⟩
  · rw [e]; exact ⟨by simp only [fileType]; rw [e4, h1], rfl⟩
  · rw [e]; exact ⟨by simp only [fileType]; rw [e5, h1], rfl⟩
  · rw [e]; simp only [fileType, permissions]; rw [asU16_ofNat w h, e1, e2]; exact ⟨rfl, rfl⟩

/-- Type part and permission part recombine to the word. -/
theorem u16_recombine (w : Nat) (h : w < 65536) :
    fileType (fromU16 w) ||| permissions (fromU16 w) = w := by
  obtain ⟨a, b⟩ := u16_parts w h
  rw [a, b]; exact split_word w h

/-- Round trip: `raw_mode()`, `u16::from` and `u32::from` of the converted word give the word back. -/
theorem u16_roundtrip (w : Nat) (h : w < 65536) :
    rawMode (fromU16 w) = w ∧ toU16 (fromU16 w) = w ∧ toU32 (fromU16 w) = w := by
  have key : rawMode (fromU16 w) = w := by
    obtain ⟨e1, e2, e3, e4, e5⟩ := consts
    have hs := split_word' w h
    rcases fromU16_cases w with ⟨h1, e⟩ | ⟨h1, e⟩ | ⟨h1, e⟩ | ⟨_, _, _, e⟩
    · rw [e]; simp only [rawMode, fileType]; rw [e3, ← h1]; exact hs
    · rw [e]; simp only [rawMode, fileType]; rw [e4, ← h1]; exact hs
    · rw [e]; simp only [rawMode, fileType]; rw [e5, ← h1]; exact hs
    · rw [e]; simp only [rawMode]; exact asU16_ofNat w h
  exact ⟨key, key, key⟩

/-- Classification: the value is a directory / regular file / symbolic link exactly when the type bits
are S_IFDIR / S_IFREG / S_IFLNK, and it is reported invalid exactly when they are none of the three.
(No bound on `w` needed.) -/
theorem u16_classify (w : Nat) :
    (isDir (fromU16 w) = true ↔ w &&& 0o170000 = 0o040000) ∧
    (isRegular (fromU16 w) = true ↔ w &&& 0o170000 = 0o100000) ∧
    (isSymlink (fromU16 w) = true ↔ w &&& 0o170000 = 0o120000) ∧
    (isErr (fromU16 w) = true ↔
      (w &&& 0o170000 ≠ 0o040000 ∧ w &&& 0o170000 ≠ 0o100000 ∧ w &&& 0o170000 ≠ 0o120000)) := by
  rcases fromU16_cases w with ⟨h1, e⟩ | ⟨h1, e⟩ | ⟨h1, e⟩ | ⟨h1, h2, h3, e⟩
  · rw [e, h1]; simp [isDir, isRegular, isSymlink, isErr]
  · rw [e, h1]; simp [isDir, isRegular, isSymlink, isErr]
  · rw [e, h1]; simp [isDir, isRegular, isSymlink, isErr]
  · rw [e]; simp [isDir, isRegular, isSymlink, isErr, h1, h2, h3]

/-- Unless the word is reported invalid, its permission part has only 12 bits. -/
theorem u16_perm_12bit (w : Nat) : permissions (fromU16 w) < 4096 ∨ isErr (fromU16 w) = true := by
  rcases fromU16_cases w with ⟨_, e⟩ | ⟨_, e⟩ | ⟨_, e⟩ | ⟨_, _, _, e⟩
  · left; rw [e]; exact and_mask_lt w
  · left; rw [e]; exact and_mask_lt w
  · left; rw [e]; exact and_mask_lt w
  · right; rw [e]; rfl

/-! ### integers -/

/-- Integers outside the 16-bit range (above `u16::MAX` or below `i16::MIN`) are reported invalid,
keeping the offending number. -/
theorem i32_out_of_range (n : Int) (h : n > 65535 ∨ n < -32768) :
    fromI32 n = .invalid n ∧ isErr (fromI32 n) = true ∧ (tryFromRaw n).2 = true := by
  have e : fromI32 n = .invalid n := by unfold fromI32; rw [if_pos h]
  refine ⟨e, ?_, ?_⟩
  · rw [e]; rfl
  · unfold tryFromRaw; rw [e]; rfl

/-- Inside the range the integer conversion is the 16-bit conversion of the same bit pattern. -/
theorem i32_in_range (n : Int) (h1 : -32768 ≤ n) (h2 : n ≤ 65535) :
    fromI32 n = fromU16 (n % 65536).toNat ∧ (n % 65536).toNat < 65536 := by
  refine ⟨?_, by omega⟩
  unfold fromI32
  rw [if_neg (by omega)]
  rfl

/-- … which for 0 ≤ n ≤ 65535 is the word `n` itself … -/
theorem i32_nonneg (n : Int) (h1 : 0 ≤ n) (h2 : n ≤ 65535) : fromI32 n = fromU16 n.toNat := by
  rw [(i32_in_range n (by omega) h2).1]
  congr 1; omega

/-- … and for −32768 ≤ n < 0 the word `n + 65536` (two's complement). -/
theorem i32_neg (n : Int) (h1 : -32768 ≤ n) (h2 : n < 0) : fromI32 n = fromU16 (n + 65536).toNat := by
  rw [(i32_in_range n h1 (by omega)).1]
  congr 1; omega

/-- So an in-range integer round-trips to its 16-bit pattern, and its parts recombine to it. -/
theorem i32_roundtrip (n : Int) (h1 : -32768 ≤ n) (h2 : n ≤ 65535) :
    rawMode (fromI32 n) = (n % 65536).toNat ∧
    fileType (fromI32 n) ||| permissions (fromI32 n) = (n % 65536).toNat := by
  obtain ⟨e, hb⟩ := i32_in_range n h1 h2
  rw [e]
  exact ⟨(u16_roundtrip _ hb).1, u16_recombine _ hb⟩

/-- An integer is reported invalid exactly when it is out of range or its type bits are none of the
three known ones. -/
theorem i32_invalid_iff (n : Int) :
    isErr (fromI32 n) = true ↔
      (n > 65535 ∨ n < -32768 ∨
        ((n % 65536).toNat &&& 0o170000 ≠ 0o040000 ∧ (n % 65536).toNat &&& 0o170000 ≠ 0o100000
          ∧ (n % 65536).toNat &&& 0o170000 ≠ 0o120000)) := by
  by_cases h : n > 65535 ∨ n < -32768
  · have := (i32_out_of_range n h).2.1
    constructor
    · intro _; rcases h with h | h
      · exact Or.inl h
      · exact Or.inr (Or.inl h)
    · intro _; exact this
  · have hr : -32768 ≤ n ∧ n ≤ 65535 := by omega
    rw [(i32_in_range n hr.1 hr.2).1, (u16_classify _).2.2.2]
    constructor
    · intro c; exact Or.inr (Or.inr c)
    · intro c
      rcases c with c | c | c
      · exact absurd (Or.inl c) h
      · exact absurd (Or.inr c) h
      · exact c

/-! ### named constructors -/

/-- The named constructors mask the permissions to 12 bits (`0o7777`) and build the named kind. -/
theorem ctor_masks (p : Nat) :
    (mkRegular p = .regular (p &&& 0o7777) ∧ mkDir p = .dir (p &&& 0o7777) ∧ mkSymlink p = .symlink (p &&& 0o7777))
    ∧ permissions (mkRegular p) = p &&& 0o7777 ∧ permissions (mkDir p) = p &&& 0o7777
    ∧ permissions (mkSymlink p) = p &&& 0o7777 ∧ p &&& 0o7777 < 4096 := by
  obtain ⟨_, e2, _, _, _⟩ := consts
  unfold mkRegular mkDir mkSymlink
  rw [e2]
  exact ⟨⟨rfl, rfl, rfl⟩, rfl, rfl, rfl, and_mask_lt p⟩

/-- Their raw mode is the type constant or-ed with the masked permissions … -/
theorem ctor_raw (p : Nat) :
    rawMode (mkRegular p) = (p &&& 0o7777) ||| 0o100000 ∧ rawMode (mkDir p) = (p &&& 0o7777) ||| 0o040000
    ∧ rawMode (mkSymlink p) = (p &&& 0o7777) ||| 0o120000 := by
  obtain ⟨_, e2, e3, e4, e5⟩ := consts
  unfold mkRegular mkDir mkSymlink
  simp only [rawMode, fileType]
  rw [e2, e3, e4, e5]
  exact ⟨rfl, rfl, rfl⟩

/-- … and converting that raw mode gives the constructed value back (constructors and conversion agree). -/
theorem ctor_roundtrip (p : Nat) :
    fromU16 (rawMode (mkRegular p)) = mkRegular p ∧ fromU16 (rawMode (mkDir p)) = mkDir p
    ∧ fromU16 (rawMode (mkSymlink p)) = mkSymlink p := by
  obtain ⟨⟨c1, c2, c3⟩, _⟩ := ctor_masks p
  obtain ⟨r1, r2, r3⟩ := ctor_raw p
  have ht : ∀ t : Nat, t &&& 0o170000 = t → t &&& 0o7777 = 0 →
      ((p &&& 0o7777) ||| t) &&& 0o170000 = t ∧ ((p &&& 0o7777) ||| t) &&& 0o7777 = p &&& 0o7777 := by
    intro t a b
    rw [Nat.and_or_distrib_right, Nat.and_or_distrib_right, perm_and_type, perm_and_perm, a, b,
      Nat.zero_or, Nat.or_zero]
    exact ⟨rfl, rfl⟩
  refine ⟨?_, ?_, ?_⟩
  · rw [r1, c1]
    obtain ⟨a, b⟩ := ht 0o100000 (by decide) (by decide)
    rcases fromU16_cases ((p &&& 0o7777) ||| 0o100000) with ⟨h, e⟩ | ⟨h, e⟩ | ⟨h, e⟩ | ⟨_, h, _, e⟩
    · rw [a] at h; exact absurd h (by decide)
    · rw [e, b]
    · rw [a] at h; exact absurd h (by decide)
    · exact absurd a h
  · rw [r2, c2]
    obtain ⟨a, b⟩ := ht 0o040000 (by decide) (by decide)
    rcases fromU16_cases ((p &&& 0o7777) ||| 0o040000) with ⟨h, e⟩ | ⟨h, e⟩ | ⟨h, e⟩ | ⟨h, _, _, e⟩
    · rw [e, b]
    · rw [a] at h; exact absurd h (by decide)
    · rw [a] at h; exact absurd h (by decide)
    · exact absurd a h
  · rw [r3, c3]
    obtain ⟨a, b⟩ := ht 0o120000 (by decide) (by decide)
    rcases fromU16_cases ((p &&& 0o7777) ||| 0o120000) with ⟨h, e⟩ | ⟨h, e⟩ | ⟨h, e⟩ | ⟨_, _, h, e⟩
    · rw [a] at h; exact absurd h (by decide)
    · rw [a] at h; exact absurd h (by decide)
    · rw [e, b]
    · exact absurd a h

/-! ### public variant fields, derived `==` and `Hash` (AUDIT2 a19) -/

/-- the derived `==` is equality of the values (the `reason` of an `Invalid` being a function of its number) -/
theorem derivedEq_iff (a b : FileMode) : derivedEq a b = true ↔ a = b := by
  cases a <;> cases b <;> simp [derivedEq]
  intro h; rw [h]

/-- equal values feed the hasher the same sequence (`Hash` agrees with `==`), and different values different ones -/
theorem hashFeed_inj (a b : FileMode) : hashFeed a = hashFeed b ↔ a = b := by
  constructor
  · intro h
    cases a <;> cases b <;> simp [hashFeed] at h <;> first | (simp; omega) | (exact absurd h (by omega)) | skip
    all_goals (try (obtain ⟨h1, _⟩ := h; simp [h1]))
  · intro h; rw [h]

/-- the variant field of a converted word is the word's low 12 bits (`None` only for `Invalid`) -/
theorem u16_field (w : Nat) :
    fieldOf (fromU16 w) = (if isErr (fromU16 w) then none else some (w &&& 0o7777)) := by
  rcases fromU16_cases w with ⟨_, e⟩ | ⟨_, e⟩ | ⟨_, e⟩ | ⟨_, _, _, e⟩ <;> rw [e] <;> rfl

/-- **named constructors**: the value that is built holds the masked permissions in its public field (not only behind
the getters) -/
theorem ctor_field (p : Nat) :
    fieldOf (mkRegular p) = some (p &&& 0o7777) ∧ fieldOf (mkDir p) = some (p &&& 0o7777)
    ∧ fieldOf (mkSymlink p) = some (p &&& 0o7777) := by
  obtain ⟨⟨c1, c2, c3⟩, _⟩ := ctor_masks p
  rw [c1, c2, c3]; exact ⟨rfl, rfl, rfl⟩

/-- converting the mode word of a converted word gives the same value again -/
theorem u16_reconverted (w : Nat) (h : w < 65536) : reconverted (fromU16 w) = fromU16 w := by
  unfold reconverted; rw [(u16_roundtrip w h).1]

/-- … for an integer exactly when it is inside the 16-bit range: an out-of-range `Invalid` keeps the offending number,
its mode word is only the low 16 bits of it -/
theorem i32_reconverted_iff (n : Int) : reconverted (fromI32 n) = fromI32 n ↔ (-32768 ≤ n ∧ n ≤ 65535) := by
  constructor
  · intro h
    by_cases hr : n > 65535 ∨ n < -32768
    · exfalso
      rw [(i32_out_of_range n hr).1] at h
      unfold reconverted at h
      simp only [rawMode] at h
      rcases fromU16_cases (asU16 n) with ⟨_, e⟩ | ⟨_, e⟩ | ⟨_, e⟩ | ⟨_, _, _, e⟩ <;> rw [e] at h
      · cases h
      · cases h
      · cases h
      · have := asU16_lt n
        simp only [FileMode.invalid.injEq] at h
        omega
    · omega
  · rintro ⟨h1, h2⟩
    obtain ⟨e, hb⟩ := i32_in_range n h1 h2
    rw [e]; exact u16_reconverted _ hb

/-- the values a mode word can be converted to without change: permissions of 12 bits under a known type, or an `Invalid`
holding a 16-bit word of unknown type -/
def Canonical : FileMode → Prop
  | .dir p | .regular p | .symlink p => p < 4096
  | .invalid r => 0 ≤ r ∧ r ≤ 65535 ∧ r.toNat &&& 0o170000 ≠ 0o040000 ∧ r.toNat &&& 0o170000 ≠ 0o100000
      ∧ r.toNat &&& 0o170000 ≠ 0o120000

theorem or_type_parts (p t : Nat) (hp : p < 4096) (a : t &&& 0o170000 = t) (b : t &&& 0o7777 = 0) :
    (p ||| t) &&& 0o170000 = t ∧ (p ||| t) &&& 0o7777 = p := by
  have hp' : p &&& 0o7777 = p := by
    have : (0o7777 : Nat) = 2 ^ 12 - 1 := by decide
    rw [this, Nat.and_two_pow_sub_one_eq_mod]; omega
  have h1 := perm_and_type p
  rw [hp'] at h1
  rw [Nat.and_or_distrib_right, Nat.and_or_distrib_right, h1, hp', a, b, Nat.zero_or, Nat.or_zero]
  exact ⟨rfl, rfl⟩

/-- `FileMode::from(m.raw_mode()) == m` holds exactly for the canonical values. In particular a value written as a
variant literal with more than 12 permission bits (`FileMode::Regular { permissions: 0o10644 }` — possible, the fields
are public) is NOT reproduced, while everything the constructors and conversions build is. -/
theorem reconverted_eq_iff (m : FileMode) : reconverted m = m ↔ Canonical m := by
  obtain ⟨e1, e2, e3, e4, e5⟩ := consts
  cases m with
  | dir p =>
    simp only [reconverted, rawMode, fileType, Canonical]
    constructor
    · intro h
      have := u16_perm_12bit (p ||| dirFileType)
      rw [h] at this
      simpa [permissions, isErr] using this
    · intro hp
      rw [e3]
      obtain ⟨a, b⟩ := or_type_parts p 0o040000 hp (by decide) (by decide)
      rcases fromU16_cases (p ||| 0o040000) with ⟨h, e⟩ | ⟨h, e⟩ | ⟨h, e⟩ | ⟨h, _, _, e⟩
      · rw [e, b]
      · rw [a] at h; exact absurd h (by decide)
      · rw [a] at h; exact absurd h (by decide)
      · exact absurd a h
  | regular p =>
    simp only [reconverted, rawMode, fileType, Canonical]
    constructor
    · intro h
      have := u16_perm_12bit (p ||| regularFileType)
      rw [h] at this
      simpa [permissions, isErr] using this
    · intro hp
      rw [e4]
      obtain ⟨a, b⟩ := or_type_parts p 0o100000 hp (by decide) (by decide)
      rcases fromU16_cases (p ||| 0o100000) with ⟨h, e⟩ | ⟨h, e⟩ | ⟨h, e⟩ | ⟨_, h, _, e⟩
      · rw [a] at h; exact absurd h (by decide)
      · rw [e, b]
      · rw [a] at h; exact absurd h (by decide)
      · exact absurd a h
  | symlink p =>
    simp only [reconverted, rawMode, fileType, Canonical]
    constructor
    · intro h
      have := u16_perm_12bit (p ||| symbolicLinkFileType)
      rw [h] at this
      simpa [permissions, isErr] using this
    · intro hp
      rw [e5]
      obtain ⟨a, b⟩ := or_type_parts p 0o120000 hp (by decide) (by decide)
      rcases fromU16_cases (p ||| 0o120000) with ⟨h, e⟩ | ⟨h, e⟩ | ⟨h, e⟩ | ⟨_, _, h, e⟩
      · rw [a] at h; exact absurd h (by decide)
      · rw [a] at h; exact absurd h (by decide)
      · rw [e, b]
      · exact absurd a h
  | invalid r =>
    simp only [reconverted, rawMode, Canonical]
    have hlt := asU16_lt r
    constructor
    · intro h
      rcases fromU16_cases (asU16 r) with ⟨_, e⟩ | ⟨_, e⟩ | ⟨_, e⟩ | ⟨h1, h2, h3, e⟩ <;> rw [e] at h
      · cases h
      · cases h
      · cases h
      · simp only [FileMode.invalid.injEq] at h
        have hr : r.toNat = asU16 r := by omega
        rw [hr]
        exact ⟨by omega, by omega, h1, h2, h3⟩
    · rintro ⟨h0, h1, t1, t2, t3⟩
      have hr : asU16 r = r.toNat := by unfold asU16; omega
      rw [hr]
      rcases fromU16_cases r.toNat with ⟨h, _⟩ | ⟨h, _⟩ | ⟨h, _⟩ | ⟨_, _, _, e⟩
      · exact absurd h t1
      · exact absurd h t2
      · exact absurd h t3
      · rw [e]; congr 1; omega

/-- everything the two conversions and the three constructors build is canonical — except an out-of-range integer -/
theorem built_canonical (w : Nat) (hw : w < 65536) (p : Nat) :
    Canonical (fromU16 w) ∧ Canonical (mkRegular p) ∧ Canonical (mkDir p) ∧ Canonical (mkSymlink p) := by
  obtain ⟨r1, r2, r3⟩ := ctor_roundtrip p
  exact ⟨(reconverted_eq_iff _).mp (u16_reconverted w hw), (reconverted_eq_iff _).mp r1, (reconverted_eq_iff _).mp r2,
    (reconverted_eq_iff _).mp r3⟩

/-- what the observation says about re-conversion: for a value that is reproduced, `==` and the hash comparison both say so -/
theorem observe_reconverted (m : FileMode) (h : reconverted m = m) :
    (observe m).rtEq = true ∧ (observe m).hashEq = true := by
  simp only [observe, h]
  exact ⟨(derivedEq_iff m m).mpr rfl, by simp⟩

/-- `Hash` agrees with `==` on every observation of the model -/
theorem observe_eqHashOk (m : FileMode) : eqHashOk (observe m) = true := by
  unfold eqHashOk
  by_cases h : (observe m).rtEq = true
  · have e : reconverted m = m := (derivedEq_iff _ _).mp (by simpa [observe] using h)
    rw [(observe_reconverted m e).1, (observe_reconverted m e).2]; rfl
  · simp only [Bool.not_eq_true] at h
    rw [h]; rfl

/-! ### the driver's spec predicates hold of the model on every input -/

/-- `specWord` (round trip, recombination, the three classifications) for every 16-bit word. -/
theorem spec_word (w : Nat) (h : w < 65536) : specWord w (observe (fromU16 w)) = true := by
  obtain ⟨r1, r2, r3⟩ := u16_roundtrip w h
  have rc := u16_recombine w h
  obtain ⟨cd, cr, cs, _⟩ := u16_classify w
  have kd : (kindOf (fromU16 w) == Kind.dir) = isDir (fromU16 w) := by cases fromU16 w <;> rfl
  have kr : (kindOf (fromU16 w) == Kind.regular) = isRegular (fromU16 w) := by cases fromU16 w <;> rfl
  have ks : (kindOf (fromU16 w) == Kind.symlink) = isSymlink (fromU16 w) := by cases fromU16 w <;> rfl
  have b : ∀ (x : Bool) (a c : Nat), (x = true ↔ a = c) → (x == (a == c)) = true := by
    intro x a c hx
    cases x
    · have : a ≠ c := fun e => Bool.noConfusion (hx.mpr e)
      simp [this]
    · simp [hx.mp rfl]
  obtain ⟨q1, q2⟩ := observe_reconverted _ (u16_reconverted w h)
  unfold specWord
  rw [q1, q2]
  simp only [observe, typeBits, r1, r2, r3, rc, kd, kr, ks, beq_self_eq_true, Bool.true_and,
    Bool.and_eq_true, Bool.and_true]
  exact ⟨⟨b _ _ _ cd, b _ _ _ cr⟩, b _ _ _ cs⟩

/-- `specInt` for every integer: out of range → reported invalid; in range → as the 16-bit word. -/
theorem spec_int (n : Int) : specInt n (observe (fromI32 n)) = true := by
  unfold specInt
  by_cases h : n > 65535 ∨ n < -32768
  · have hr : inRange16 n = false := by
      unfold inRange16
      rcases h with h | h
      · have : ¬ n ≤ 65535 := by omega
        simp [this]
      · have : ¬ -32768 ≤ n := by omega
        simp [this]
    rw [hr]
    simp only [Bool.false_eq_true, if_false, observe_eqHashOk, Bool.and_true]
    rw [(i32_out_of_range n h).1]
    rfl
  · have hb : -32768 ≤ n ∧ n ≤ 65535 := by omega
    have hr : inRange16 n = true := by unfold inRange16; simp [hb.1, hb.2]
    obtain ⟨e, hlt⟩ := i32_in_range n hb.1 hb.2
    rw [hr, e]
    exact spec_word _ hlt

/-- `specCtor` for every argument of the three named constructors. -/
theorem spec_ctor (p : Nat) :
    specCtor .regular p (observe (mkRegular p)) = true ∧ specCtor .dir p (observe (mkDir p)) = true
    ∧ specCtor .symlink p (observe (mkSymlink p)) = true := by
  obtain ⟨⟨c1, c2, c3⟩, _, _, _, hlt⟩ := ctor_masks p
  have k1 := observe_eqHashOk (mkRegular p)
  have k2 := observe_eqHashOk (mkDir p)
  have k3 := observe_eqHashOk (mkSymlink p)
  unfold specCtor
  rw [k1, k2, k3, c1, c2, c3]
  simp [observe, kindOf, permissions, hlt, rawMode, toU16, toU32, fileType, typeWord, fieldOf,
    dirFileType, regularFileType, symbolicLinkFileType]
  exact ⟨Nat.or_comm _ _, Nat.or_comm _ _, Nat.or_comm _ _⟩

/-! ### non-vacuity: the hypotheses are met by concrete, non-trivial values -/

example : fromU16 0o100644 = .regular 0o644 ∧ rawMode (fromU16 0o100644) = 0o100644 := by decide
example : fromU16 0o040755 = .dir 0o755 ∧ fromU16 0o120777 = .symlink 0o777 := by decide
example : fromU16 0o104755 = .regular 0o4755 := by decide            -- setuid bit is a permission bit
example : fromU16 0o060660 = .invalid 0o060660 ∧ isErr (fromU16 0o060660) = true := by decide  -- block device
example : (0o100644 : Nat) < 65536 ∧ (0o100644 &&& 0o170000 : Nat) = 0o100000 := by decide
example : ∃ w, w < 65536 ∧ w &&& 0o170000 ≠ 0o040000 ∧ w &&& 0o170000 ≠ 0o100000 ∧ w &&& 0o170000 ≠ 0o120000 :=
  ⟨0o010644, by decide⟩
example : fromI32 65536 = .invalid 65536 ∧ fromI32 (-32769) = .invalid (-32769) := by decide
example : fromI32 65535 = .invalid 65535 ∧ rawMode (fromI32 65535) = 65535 := by decide  -- in range, unknown type
example : fromI32 (-32768) = .regular 0 ∧ fromI32 (-24147) = .symlink 0o655 := by decide   -- negative, in range
example : fromI32 33188 = fromU16 33188 ∧ fromU16 33188 = .regular 0o644 := by decide
example : mkRegular 0o177777 = .regular 0o7777 ∧ mkDir 0o10755 = .dir 0o755 ∧ mkSymlink 0o777 = .symlink 0o777 := by
  decide
example : specWord 0o100644 (observe (.regular 0o645)) = false := by decide     -- the spec can fail
example : specInt 70000 (observe (.regular 0)) = false := by decide
example : specCtor .regular 0o17777 (observe (.regular 0o17777)) = false := by decide
-- the unmasked constructor of seed C18-8 with masking moved to `permissions()`: kind and permissions fine, the word is a symlink's
example : specCtor .regular 0o20644 { (observe (.regular 0o644)) with raw := 0o120644, back16 := 0o120644, back32 := 0o120644 } = false := by decide

-- a19: a constructor that stores the argument unmasked while every getter masks — all getters fine, the FIELD clause fails
example : specCtor .regular 0o10644 { (observe (.regular 0o644)) with field := some 0o10644 } = false := by decide
-- … and such a value is not reproduced from its own mode word: `==` says no
example : reconverted (.regular 0o10644) = .invalid 0o110644 ∧ derivedEq (reconverted (.regular 0o10644)) (.regular 0o10644) = false
    ∧ ¬ Canonical (.regular 0o10644) := by
  refine ⟨by decide, by decide, ?_⟩
  simp [Canonical]
-- an out-of-range integer is not reproduced either (its mode word is only its low 16 bits), everything in range is
example : reconverted (fromI32 98304) = .regular 0 ∧ fromI32 98304 = .invalid 98304 ∧ (observe (fromI32 98304)).rtEq = false
    ∧ (observe (fromI32 98304)).hashEq = false ∧ (observe (fromI32 (-24147))).rtEq = true := by decide
-- the two reasons: 0o060660 (a block device) is an unknown type, 70000 is out of bounds
example : (observe (fromU16 0o060660)).reason = some .unknownFileType ∧ (observe (fromI32 70000)).reason = some .outOf16BitBounds
    ∧ (observe (fromI32 (-1))).reason = some .unknownFileType ∧ (observe (fromI32 (-40000))).reason = some .outOf16BitBounds := by decide
-- a word whose `==`-round-trip flag were false fails the word spec
example : specWord 0o100644 { (observe (fromU16 0o100644)) with rtEq := false } = false := by decide

end RpmVerif.C18
