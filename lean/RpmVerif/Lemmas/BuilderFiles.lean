import RpmVerif.Lemmas.Builder
import RpmVerif.Model.Accessors
/-!
# `get_file_entries` on the builder's per-file arrays

`prepare_data` emits one array per file attribute, each a `map` over the builder's file list; `get_file_entries`
zips nine of them back together (`Acc.buildEntries`), looks capabilities / IMA signatures up by index and turns every
non-empty digest text into a `FileDigest` of the header's algorithm. This file proves the zip: on the arrays of a file
list it yields the list of the expected records (`buildEntries_files`), for every file list and every start index.
-/
namespace RpmVerif.C06
open RpmVerif.Hdr RpmVerif.Bld RpmVerif.Gen RpmVerif.Acc

/-- the digest `get_file_entries` reports for the digest text the builder stored: none for the empty text, else the
text under algorithm 8 (SHA-256, the only algorithm the builder uses) -/
def digestExp (hex : Bytes) : Option (Nat × Bytes) := if hex.isEmpty then none else some (8, hex)

/-- the `FileEntry` expected for a builder file: destination path, raw mode, owner, group, clamped mtime, size, flags,
SHA-256 digest, capabilities (reported for every file as soon as one file of the package has some: `""` for the
others), link target, no IMA signature -/
def entryOf (x : Ctx) (f : FileE) : FileEntry :=
  { path := pathJoin f.dir f.baseName, mode := f.mode, user := f.user, group := f.group,
    mtime := clampMtime x.c.sourceDate f.mtime, size := f.size, flags := f.flags,
    digest := digestExp f.shaHex,
    caps := if usesCaps x.c then some (f.caps.getD []) else none,
    linkto := f.link, ima := none }

/-- every stored digest text is empty or has the 64 characters of a hex SHA-256 (`add_data` stores
`hex::encode(Sha256::digest(content))`, always 64 characters) -/
def DigestsOk (c : Cfg) : Prop := ∀ f ∈ c.files, f.shaHex = [] ∨ f.shaHex.length = 64

instance (c : Cfg) : Decidable (DigestsOk c) := by unfold DigestsOk; exact inferInstance

/-- the pairing `FileDigest::new` demands for SHA-256 is in the table regenerated from the source -/
theorem sha256_in_table : (8, 64) ∈ fileDigestHexLen := by decide

theorem digestOf_sha256 {tbl : List (Nat × Nat)} (htbl : (8, 64) ∈ tbl) {hex : Bytes}
    (h : hex = [] ∨ hex.length = 64) : digestOf 8 hex tbl = .ok (digestExp hex) := by
  unfold digestOf digestExp
  cases he : hex.isEmpty with
  | true => rfl
  | false =>
    have hl : hex.length = 64 := by
      rcases h with rfl | h
      · cases he
      · exact h
    have hany : tbl.any (fun p => p.1 == 8 && p.2 == hex.length) = true := by
      rw [List.any_eq_true]
      exact ⟨(8, 64), htbl, by simp [hl]⟩
    simp only [Bool.false_eq_true, if_false, fileDigestNew, hany, if_true]
    rfl

/-- **the zip of `get_file_entries`** on per-file arrays that are maps over one file list: entry `i` of the result is
built from file `i` alone; its capabilities are element `idx + i` of the capability array (`cap` says what that is) -/
theorem buildEntries_files {tbl : List (Nat × Nat)} (htbl : (8, 64) ∈ tbl) (caps : Option (List Bytes))
    (path : FileE → Bytes) (mt : FileE → Nat) (cap : FileE → Option Bytes) (fs : List FileE)
    (hdig : ∀ f ∈ fs, f.shaHex = [] ∨ f.shaHex.length = 64) :
    ∀ idx, (∀ i (h : i < fs.length), caps.bind (·[idx + i]?) = cap fs[i]) →
    buildEntries 8 caps none tbl idx (fs.map path) (fs.map (·.user)) (fs.map (·.group)) (fs.map (·.mode))
        (fs.map (·.shaHex)) (fs.map mt) (fs.map (·.size)) (fs.map (·.flags)) (fs.map (·.link)) =
      .ok (fs.map fun f => ⟨path f, f.mode, f.user, f.group, mt f, f.size, f.flags, digestExp f.shaHex, cap f, f.link, none⟩) := by
  induction fs with
  | nil => intro _ _; rfl
  | cons f fs ih =>
    intro idx hc
    have h0 : caps.bind (·[idx]?) = cap f := hc 0 (Nat.zero_lt_succ _)
    have hrest : ∀ i (h : i < fs.length), caps.bind (·[idx + 1 + i]?) = cap fs[i] := by
      intro i h
      have h' := hc (i + 1) (Nat.succ_lt_succ h)
      rw [show idx + (i + 1) = idx + 1 + i by omega] at h'
      exact h'
    simp only [List.map_cons, buildEntries, digestOf_sha256 htbl (hdig f (by simp)), Out.bind_ok,
      ih (fun g hg => hdig g (by simp [hg])) (idx + 1) hrest, h0, Out.pure_eq, Option.bind_none]

/-- the capability array `prepare_data` emits, looked up at a file's position -/
theorem caps_lookup (fs : List FileE) (i : Nat) (h : i < fs.length) :
    (some (fs.map fun f => f.caps.getD [])).bind (·[0 + i]?) = some (fs[i].caps.getD []) := by
  simp [h]

/-! ### signature headers the library itself produces carry no IMA file signatures -/

/-- `SignatureHeaderBuilder::build` — what `build`, `build_and_sign`, `sign` and `clear_signatures` install — emits
OPENPGP, one legacy signature tag and SHA256 only: as long as the legacy tag is not RPMSIGTAG_FILESIGNATURES (it is
RSA or DSA), `get_file_entries` finds no IMA signature array -/
theorem signatureHeader_no_ima (sigs : List (Nat × Bytes × Bytes)) (sha : Option Bytes)
    (hl : ∀ s, sigs.getLast? = some s → s.1 ≠ SigTag.RPMSIGTAG_FILESIGNATURES) :
    getStringArray (signatureHeader sigs sha) SigTag.RPMSIGTAG_FILESIGNATURES = .err "notfound" := by
  unfold signatureHeader
  refine fromEntries_absent IndexData.asStringArray (by decide) ?_
  intro r hr
  rw [List.mem_append] at hr
  rcases hr with hr | hr
  · cases hlast : sigs.getLast? with
    | none => simp only [hlast] at hr; cases hr
    | some s =>
      obtain ⟨tag, raw, b⟩ := s
      simp only [hlast, List.mem_cons, List.not_mem_nil, or_false] at hr
      rcases hr with rfl | rfl
      · show SigTag.RPMSIGTAG_OPENPGP ≠ SigTag.RPMSIGTAG_FILESIGNATURES; decide
      · exact hl _ hlast
  · cases sha with
    | none => cases hr
    | some d =>
      simp only [List.mem_cons, List.not_mem_nil, or_false] at hr
      subst hr; show SigTag.RPMSIGTAG_SHA256 ≠ SigTag.RPMSIGTAG_FILESIGNATURES; decide

end RpmVerif.C06
