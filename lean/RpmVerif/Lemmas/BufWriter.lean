import RpmVerif.Model.BufWriter
import RpmVerif.Lemmas.Io
/-! Lemmas for the `BufWriter` / `write_file` model: bytes are neither lost, duplicated nor reordered
between the buffer and the inner sink. Invariant: (accepted by the inner sink) ++ (still buffered) is a
prefix of (previously buffered) ++ (data written), and equals it while everything reports `Ok`; the
buffer never exceeds the capacity. -/
namespace RpmVerif.Io

theorem flushBuf_spec (buf : Bytes) (rs : List Resp) :
    (flushBuf buf rs).1 ++ (flushBuf buf rs).2.2.2 = buf
      ∧ ((flushBuf buf rs).2.1 = .ok → (flushBuf buf rs).2.2.2 = []) := by
  obtain ⟨⟨t, ht⟩, h2, _⟩ := writeAll_spec buf rs
  simp only [flushBuf]
  constructor
  · have : buf.drop (writeAll buf rs).1.length = t := by
      conv => lhs; arg 2; rw [← ht]
      exact List.drop_left
    rw [this, ht]
  · intro h
    rw [h2 h, List.drop_length]

theorem flushBuf_len (buf : Bytes) (rs : List Resp) : (flushBuf buf rs).2.2.2.length ≤ buf.length := by
  simp only [flushBuf, List.length_drop]; omega

theorem bwDrop_prefix (buf : Bytes) (rs : List Resp) : bwDrop buf rs <+: buf :=
  ⟨_, (flushBuf_spec buf rs).1⟩

theorem bwDrop_nil (rs : List Resp) : bwDrop [] rs = [] :=
  List.prefix_nil.mp (bwDrop_prefix [] rs)

/-- what `bwPut` guarantees when it is entered with an empty buffer or with data that fits -/
theorem bwPut_spec (cap : Nat) (e buf data : Bytes) (rs : List Resp)
    (h : cap ≤ data.length → buf = []) (hl : data.length < cap → buf.length + data.length ≤ cap) (hb : buf.length ≤ cap) :
    (bwPut cap e buf data rs).1 ++ (bwPut cap e buf data rs).2.2.2 <+: e ++ buf ++ data
      ∧ ((bwPut cap e buf data rs).2.1 = .ok → (bwPut cap e buf data rs).1 ++ (bwPut cap e buf data rs).2.2.2 = e ++ buf ++ data)
      ∧ (bwPut cap e buf data rs).2.2.2.length ≤ cap := by
  unfold bwPut
  split
  · rename_i hc
    obtain ⟨w1, w2, _⟩ := writeAll_spec data rs
    dsimp only
    rw [h hc]
    simp only [List.append_nil, List.length_nil, Nat.zero_le, and_true]
    exact ⟨(List.prefix_append_right_inj e).mpr w1, fun hh => by rw [w2 hh]⟩
  · rename_i hc
    simp only [List.append_assoc, List.length_append]
    exact ⟨List.prefix_refl _, fun _ => trivial, hl (by omega)⟩

theorem bwWriteAll_spec (cap : Nat) (buf data : Bytes) (rs : List Resp) (hb : buf.length ≤ cap) :
    (bwWriteAll cap buf data rs).1 ++ (bwWriteAll cap buf data rs).2.2.2 <+: buf ++ data
      ∧ ((bwWriteAll cap buf data rs).2.1 = .ok →
          (bwWriteAll cap buf data rs).1 ++ (bwWriteAll cap buf data rs).2.2.2 = buf ++ data)
      ∧ (bwWriteAll cap buf data rs).2.2.2.length ≤ cap := by
  unfold bwWriteAll
  split
  · rename_i h1
    simp only [List.nil_append, List.length_append]
    exact ⟨List.prefix_refl _, fun _ => trivial, by omega⟩
  · rename_i h1
    obtain ⟨f1, f2⟩ := flushBuf_spec buf rs
    split
    · rename_i h2
      dsimp only
      split
      · rename_i hok
        have hnil := f2 hok
        have := bwPut_spec cap (flushBuf buf rs).1 (flushBuf buf rs).2.2.2 data (flushBuf buf rs).2.2.1
          (fun _ => hnil) (fun hh => by rw [hnil]; simp; omega) (by rw [hnil]; simp)
        rw [f1] at this
        exact this
      · rename_i hne
        refine ⟨?_, fun h => absurd h hne, ?_⟩
        · rw [f1]; exact List.prefix_append _ _
        · exact Nat.le_trans (flushBuf_len buf rs) hb
    · rename_i h2
      -- data.length = cap - buf.length exactly: no flush needed
      have := bwPut_spec cap [] buf data rs
        (fun hc => List.eq_nil_of_length_eq_zero (by omega)) (fun _ => by omega) hb
      simpa using this

theorem bwRun_spec (cap : Nat) (ds : List Bytes) (buf : Bytes) (rs : List Resp) (hb : buf.length ≤ cap) :
    (bwRun cap ds buf rs).1 ++ (bwRun cap ds buf rs).2.2.2 <+: buf ++ ds.flatten
      ∧ ((bwRun cap ds buf rs).2.1 = .ok →
          (bwRun cap ds buf rs).1 ++ (bwRun cap ds buf rs).2.2.2 = buf ++ ds.flatten) := by
  induction ds generalizing buf rs with
  | nil => simp [bwRun]
  | cons d ds ih =>
    obtain ⟨s1, s2, s3⟩ := bwWriteAll_spec cap buf d rs hb
    rw [bwRun]
    dsimp only
    split
    · rename_i hok
      have heq := s2 hok
      obtain ⟨i1, i2⟩ := ih (bwWriteAll cap buf d rs).2.2.2 (bwWriteAll cap buf d rs).2.2.1 s3
      simp only [List.flatten_cons, ← List.append_assoc, ← heq]
      simp only [List.append_assoc]
      exact ⟨(List.prefix_append_right_inj _).mpr i1, fun h => by rw [i2 h]⟩
    · rename_i hne
      refine ⟨?_, fun h => absurd h hne⟩
      rw [List.flatten_cons, ← List.append_assoc]
      exact List.IsPrefix.trans s1 (List.prefix_append _ _)

/-- **`write_file`, any inner-sink behaviour**: what reached the file is a prefix of what was written,
and everything when the result is `Ok`. -/
theorem writeFile_spec (cap : Nat) (ds : List Bytes) (rs : List Resp) :
    (writeFile cap ds rs).1 <+: ds.flatten ∧ ((writeFile cap ds rs).2 = .ok → (writeFile cap ds rs).1 = ds.flatten) := by
  obtain ⟨r1, r2⟩ := bwRun_spec cap ds [] rs (Nat.zero_le _)
  rw [List.nil_append] at r1 r2
  simp only [writeFile]
  split
  · rename_i hok
    have heq := r2 hok
    obtain ⟨f1, f2⟩ := flushBuf_spec (bwRun cap ds [] rs).2.2.2 (bwRun cap ds [] rs).2.2.1
    have hd := bwDrop_prefix (flushBuf (bwRun cap ds [] rs).2.2.2 (bwRun cap ds [] rs).2.2.1).2.2.2
      (flushBuf (bwRun cap ds [] rs).2.2.2 (bwRun cap ds [] rs).2.2.1).2.2.1
    refine ⟨?_, fun h => ?_⟩
    · rw [← heq]
      conv => rhs; rw [← f1]
      rw [List.append_assoc]
      exact (List.prefix_append_right_inj _).mpr ((List.prefix_append_right_inj _).mpr hd)
    · simp only at h
      have hn := f2 h
      rw [hn] at f1 ⊢
      rw [bwDrop_nil, List.append_nil, ← heq]
      rw [List.append_nil] at f1
      rw [f1]
  · rename_i hne
    have hd := bwDrop_prefix (bwRun cap ds [] rs).2.2.2 (bwRun cap ds [] rs).2.2.1
    exact ⟨List.IsPrefix.trans ((List.prefix_append_right_inj _).mpr hd) r1, fun h => absurd h hne⟩

/-- the old `write_file` still only ever produced a prefix … -/
theorem writeFileOld_prefix (cap : Nat) (ds : List Bytes) (rs : List Resp) :
    (writeFileOld cap ds rs).1 <+: ds.flatten := by
  obtain ⟨r1, _⟩ := bwRun_spec cap ds [] rs (Nat.zero_le _)
  rw [List.nil_append] at r1
  simp only [writeFileOld]
  exact List.IsPrefix.trans ((List.prefix_append_right_inj _).mpr (bwDrop_prefix _ _)) r1

end RpmVerif.Io
