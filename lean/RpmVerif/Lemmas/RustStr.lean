import RpmVerif.Lemmas.FromEntries
/-!
# Valid UTF-8 (a Rust `String`) is stored faithfully: `RustStr s → StrOk s`, closed under concatenation

`StrOk` (Lemmas/FromEntries.lean) asks `Utf8.lossy s = s`, which is awkward as a hypothesis about ARGUMENTS: the builder makes
new strings out of them (`"user(" ++ u ++ ")"`, `name(arch)`, the directory of a destination). `Utf8.Valid` is the invariant
every Rust `&str` / `String` has by its type — a sequence of scalar encodings —, and is what the input-level theorem
`C06.valid_of_inputs` assumes (plus "no NUL").
-/
namespace RpmVerif.Utf8

/-- second byte of a three-byte sequence, as `step` tests it -/
def ok3 (b0 b1 : UInt8) : Bool :=
  if b0 == 0xE0 then 0xA0 ≤ b1 && b1 ≤ 0xBF else if b0 == 0xED then 0x80 ≤ b1 && b1 ≤ 0x9F else isCont b1
def ok4 (b0 b1 : UInt8) : Bool :=
  if b0 == 0xF0 then 0x90 ≤ b1 && b1 ≤ 0xBF else if b0 == 0xF4 then 0x80 ≤ b1 && b1 ≤ 0x8F else isCont b1

/-- the UTF-8 encoding of one scalar value (what a Rust `char` is stored as) -/
def Scalar : Bytes → Prop
  | [b0] => b0 < 0x80
  | [b0, b1] => (0xC2 ≤ b0 && b0 ≤ 0xDF) = true ∧ isCont b1 = true
  | [b0, b1, b2] => (0xE0 ≤ b0 && b0 ≤ 0xEF) = true ∧ ok3 b0 b1 = true ∧ isCont b2 = true
  | [b0, b1, b2, b3] => (0xF0 ≤ b0 && b0 ≤ 0xF4) = true ∧ ok4 b0 b1 = true ∧ isCont b2 = true ∧ isCont b3 = true
  | _ => False

theorem lead2 (b0 : UInt8) (h : (0xC2 ≤ b0 && b0 ≤ 0xDF) = true) : ¬ b0 < 0x80 := by
  simp only [Bool.and_eq_true, decide_eq_true_eq, UInt8.le_iff_toNat_le, UInt8.lt_iff_toNat_lt] at h ⊢
  simp only [UInt8.reduceToNat] at h ⊢; omega
theorem lead3 (b0 : UInt8) (h : (0xE0 ≤ b0 && b0 ≤ 0xEF) = true) : ¬ b0 < 0x80 ∧ (0xC2 ≤ b0 && b0 ≤ 0xDF) = false := by
  simp only [Bool.and_eq_true, Bool.and_eq_false_iff, decide_eq_true_eq, decide_eq_false_iff_not, UInt8.le_iff_toNat_le, UInt8.lt_iff_toNat_lt] at h ⊢
  simp only [UInt8.reduceToNat] at h ⊢; omega
theorem lead4 (b0 : UInt8) (h : (0xF0 ≤ b0 && b0 ≤ 0xF4) = true) :
    ¬ b0 < 0x80 ∧ (0xC2 ≤ b0 && b0 ≤ 0xDF) = false ∧ (0xE0 ≤ b0 && b0 ≤ 0xEF) = false := by
  simp only [Bool.and_eq_true, Bool.and_eq_false_iff, decide_eq_true_eq, decide_eq_false_iff_not, UInt8.le_iff_toNat_le, UInt8.lt_iff_toNat_lt] at h ⊢
  simp only [UInt8.reduceToNat] at h ⊢; omega

theorem step_scalar {c : Bytes} (h : Scalar c) (r : Bytes) : step (c ++ r) = (c.length, true) := by
  match c, h with
  | [b0], h =>
    simp only [Scalar] at h
    simp only [List.cons_append, List.nil_append, step, h, if_true, List.length_cons, List.length_nil]
  | [b0, b1], h =>
    simp only [Scalar] at h
    obtain ⟨h0, h1⟩ := h
    have := lead2 b0 h0
    simp only [List.cons_append, List.nil_append, step, this, if_false, h0, if_true, h1, List.length_cons, List.length_nil]
  | [b0, b1, b2], h =>
    simp only [Scalar] at h
    obtain ⟨h0, h1, h2⟩ := h
    obtain ⟨n1, n2⟩ := lead3 b0 h0
    simp only [ok3] at h1
    simp only [List.cons_append, List.nil_append, step, n1, if_false, n2, Bool.false_eq_true, h0, if_true, h1, Bool.not_true, h2,
      List.length_cons, List.length_nil]
  | [b0, b1, b2, b3], h =>
    simp only [Scalar] at h
    obtain ⟨h0, h1, h2, h3⟩ := h
    obtain ⟨n1, n2, n3⟩ := lead4 b0 h0
    simp only [ok4] at h1
    simp only [List.cons_append, List.nil_append, step, n1, if_false, n2, n3, Bool.false_eq_true, h0, if_true, h1, Bool.not_true, h2, h3,
      List.length_cons, List.length_nil]

theorem scalar_length_pos {c : Bytes} (h : Scalar c) : 0 < c.length := by
  match c, h with
  | [_], _ => simp
  | [_, _], _ => simp
  | [_, _, _], _ => simp
  | [_, _, _, _], _ => simp

/-- valid UTF-8: a sequence of scalar encodings (the invariant of a Rust `String` / `str`) -/
inductive Valid : Bytes → Prop
  | nil : Valid []
  | cons {c r : Bytes} : Scalar c → Valid r → Valid (c ++ r)

theorem Valid.append {a b : Bytes} (ha : Valid a) (hb : Valid b) : Valid (a ++ b) := by
  induction ha with
  | nil => exact hb
  | cons hc _ ih => rw [List.append_assoc]; exact .cons hc ih

theorem valid_ascii (s : Bytes) (h : ∀ b ∈ s, b < 0x80) : Valid s := by
  induction s with
  | nil => exact .nil
  | cons b r ih =>
    have : Scalar [b] := h b (by simp)
    exact Valid.cons (c := [b]) this (ih (fun x m => h x (by simp [m])))

theorem lossyAux_valid {s : Bytes} (h : Valid s) : ∀ fuel acc, s.length ≤ fuel → lossyAux fuel s acc = acc.reverse ++ s := by
  induction h with
  | nil => intro fuel acc _; cases fuel <;> simp [lossyAux]
  | @cons c r hc _ ih =>
    intro fuel acc hf
    have hpos := scalar_length_pos hc
    cases fuel with
    | zero => simp only [List.length_append] at hf; omega
    | succ f =>
      cases hcr : c ++ r with
      | nil => have := congrArg List.length hcr; simp only [List.length_append, List.length_nil] at this; omega
      | cons b t =>
        have hst := step_scalar hc r
        rw [hcr] at hst
        simp only [lossyAux, hst]
        have hne : c.length ≠ 0 := by omega
        simp only [hne, if_false, if_true]
        rw [← hcr, List.drop_left, List.take_left]
        rw [ih f (c.reverse ++ acc) (by simp only [List.length_append] at hf; omega)]
        simp [List.reverse_append]

/-- **valid UTF-8 is a fixed point of `from_utf8_lossy`** -/
theorem lossy_valid {s : Bytes} (h : Valid s) : lossy s = s := by
  have := lossyAux_valid h s.length [] (Nat.le_refl _)
  simpa [lossy] using this

end RpmVerif.Utf8

namespace RpmVerif.Hdr
/-- a Rust `String` without NUL: what the builder's `&str` / `String` arguments are, apart from the NUL -/
def RustStr (s : Bytes) : Prop := (0 : UInt8) ∉ s ∧ Utf8.Valid s

theorem RustStr.strOk {s : Bytes} (h : RustStr s) : StrOk s := ⟨h.1, Utf8.lossy_valid h.2⟩

theorem RustStr.append {a b : Bytes} (ha : RustStr a) (hb : RustStr b) : RustStr (a ++ b) :=
  ⟨fun m => by rcases List.mem_append.mp m with m | m; exact ha.1 m; exact hb.1 m, ha.2.append hb.2⟩

theorem rustStr_ascii (s : Bytes) (h : ∀ b ∈ s, b < 0x80 ∧ b ≠ 0) : RustStr s :=
  ⟨fun m => (h 0 m).2 rfl, Utf8.valid_ascii s (fun b m => (h b m).1)⟩

theorem rustStr_nil : RustStr [] := ⟨by simp, .nil⟩
end RpmVerif.Hdr
