import RpmVerif.Model.PayloadWriter
import RpmVerif.Lemmas.Cpio
/-!
Lemmas for Model/PayloadWriter.lean: effects of one `write` on the sink and on the `Writer`, the `write_all` loops
(fuel is never exhausted; outcome classes; bytes emitted), `try_write_header`, `do_finish`.
-/
namespace RpmVerif.PWriter
open RpmVerif.Cpio RpmVerif.Gen

/-! ## the sink -/

theorem Sink.write_spec (s : Sink) (buf : Bytes) :
    (Sink.write s buf).2.script.length ≤ s.script.length
    ∧ (Sink.write s buf).2.flushFails = s.flushFails
    ∧ (s.script = [] → Sink.write s buf = (.ok buf.length, { s with out := s.out ++ buf }))
    ∧ (s.script ≠ [] → (Sink.write s buf).2.script.length + 1 = s.script.length)
    ∧ ((∃ n, (Sink.write s buf).1 = .ok n ∧ n ≤ buf.length ∧ (Sink.write s buf).2.out = s.out ++ buf.take n)
       ∨ (((Sink.write s buf).1 = .err "interrupted" ∨ (Sink.write s buf).1 = .err "io") ∧ (Sink.write s buf).2.out = s.out)) := by
  unfold Sink.write
  rcases hs : s.script with _ | ⟨r, rs⟩
  · simp
  · cases r with
    | ok n =>
      refine ⟨by simp, rfl, by simp, by simp, Or.inl ⟨min n buf.length, rfl, Nat.min_le_right _ _, ?_⟩⟩
      simp only
      rw [← List.take_eq_take_min]
    | intr => exact ⟨by simp, rfl, by simp, by simp, Or.inr ⟨Or.inl rfl, rfl⟩⟩
    | fail => exact ⟨by simp, rfl, by simp, by simp, Or.inr ⟨Or.inr rfl, rfl⟩⟩

/-- `inner.write_all(buf)` with enough fuel: never out of fuel, never a panic; `Ok` = all of `buf` accepted, an error =
a prefix accepted; an exhausted script stays exhausted and accepts everything -/
theorem sink_loop (fuel : Nat) (buf : Bytes) (s : Sink) (hf : s.script.length < fuel) :
    (writeAllLoop Sink.write fuel buf s).2.script.length ≤ s.script.length
    ∧ (writeAllLoop Sink.write fuel buf s).2.flushFails = s.flushFails
    ∧ (s.script = [] → (writeAllLoop Sink.write fuel buf s) = (.ok (), { s with out := s.out ++ buf }))
    ∧ (((writeAllLoop Sink.write fuel buf s).1 = .ok () ∧ (writeAllLoop Sink.write fuel buf s).2.out = s.out ++ buf)
       ∨ (((writeAllLoop Sink.write fuel buf s).1 = .err "io" ∨ (writeAllLoop Sink.write fuel buf s).1 = .err "write-zero")
          ∧ ∃ k, (writeAllLoop Sink.write fuel buf s).2.out = s.out ++ buf.take k)) := by
  induction fuel generalizing buf s with
  | zero => omega
  | succ f ih =>
    cases buf with
    | nil => simp [writeAllLoop]
    | cons b bs =>
      obtain ⟨h1, h2, h3, h4, h5⟩ := Sink.write_spec s (b :: bs)
      unfold writeAllLoop
      rcases hw : Sink.write s (b :: bs) with ⟨r, s'⟩
      rw [hw] at h1 h2 h4 h5
      simp only at h1 h2 h4 h5
      by_cases hnil : s.script = []
      · -- everything accepted at once
        have := h3 hnil
        rw [hw] at this
        cases this
        simp only [List.length_cons]
        have hd : (b :: bs).drop (bs.length + 1) = [] := by simp
        rw [hd]
        simp [writeAllLoop, hnil]
      · have hlen := h4 hnil
        have hf' : s'.script.length < f := by omega
        rcases h5 with ⟨n, hr, hn, hout⟩ | ⟨hr, hout⟩
        · subst hr
          cases n with
          | zero =>
            refine ⟨h1, h2, fun h => absurd h hnil, Or.inr ⟨Or.inr rfl, 0, by simpa using hout⟩⟩
          | succ n =>
            obtain ⟨i1, i2, _, i4⟩ := ih ((b :: bs).drop (n + 1)) s' hf'
            refine ⟨by simp only; omega, by simp only; rw [i2, h2], fun h => absurd h hnil, ?_⟩
            simp only
            rcases i4 with ⟨e1, e2⟩ | ⟨e1, k, e2⟩
            · left; refine ⟨e1, ?_⟩
              rw [e2, hout, List.append_assoc, List.take_append_drop]
            · right; refine ⟨e1, (n + 1) + k, ?_⟩
              rw [e2, hout, List.append_assoc]
              exact congrArg _ (List.take_add (l := b :: bs) (i := n + 1) (j := k)).symm
        · rcases hr with hr | hr
          · subst hr
            simp only [if_true]
            obtain ⟨i1, i2, _, i4⟩ := ih (b :: bs) s' hf'
            refine ⟨by omega, by rw [i2, h2], fun h => absurd h hnil, ?_⟩
            rw [hout] at i4
            exact i4
          · subst hr
            simp only [show ("io" = "interrupted") = False from by decide, if_false]
            refine ⟨h1, h2, fun h => absurd h hnil, Or.inr ⟨?_, 0, by simpa using hout⟩⟩
            first | exact Or.inl rfl | trivial | simp

theorem Sink.writeAll_spec (s : Sink) (buf : Bytes) :
    (s.writeAll buf).2.script.length ≤ s.script.length
    ∧ (s.writeAll buf).2.flushFails = s.flushFails
    ∧ (s.script = [] → s.writeAll buf = (.ok (), { s with out := s.out ++ buf }))
    ∧ (((s.writeAll buf).1 = .ok () ∧ (s.writeAll buf).2.out = s.out ++ buf)
       ∨ (((s.writeAll buf).1 = .err "io" ∨ (s.writeAll buf).1 = .err "write-zero")
          ∧ ∃ k, (s.writeAll buf).2.out = s.out ++ buf.take k)) :=
  sink_loop _ buf s (Nat.lt_succ_self _)

/-! ## the `Writer` -/

/-- what the archive holds once the pending header is out -/
def pendingOut (w : Writer) : Bytes := w.inner.out ++ w.header

theorem tryWriteHeader_spec (w : Writer) :
    w.tryWriteHeader.2.written = w.written ∧ w.tryWriteHeader.2.fileSize = w.fileSize
    ∧ w.tryWriteHeader.2.headerSize = w.headerSize
    ∧ w.tryWriteHeader.2.inner.script.length ≤ w.inner.script.length
    ∧ w.tryWriteHeader.2.inner.flushFails = w.inner.flushFails
    ∧ (w.inner.script = [] → w.tryWriteHeader.1 = .ok ())
    ∧ ((w.tryWriteHeader.1 = .ok () ∧ w.tryWriteHeader.2.header = [] ∧ w.tryWriteHeader.2.inner.out = pendingOut w)
       ∨ (w.tryWriteHeader.1 = .err "io" ∨ w.tryWriteHeader.1 = .err "write-zero")) := by
  unfold Writer.tryWriteHeader pendingOut
  by_cases hh : w.header.isEmpty
  · simp only [hh, if_true]
    have : w.header = [] := List.isEmpty_iff.mp hh
    simp [this]
  · simp only [hh]
    obtain ⟨h1, h2, h3, h4⟩ := Sink.writeAll_spec w.inner w.header
    rcases hw : w.inner.writeAll w.header with ⟨r, s'⟩
    rw [hw] at h1 h2 h3 h4
    simp only at h1 h2 h4
    rcases h4 with ⟨e1, e2⟩ | ⟨e1, _⟩
    · subst e1
      refine ⟨rfl, rfl, rfl, h1, h2, fun _ => rfl, Or.inl ⟨rfl, rfl, e2⟩⟩
    · have hne : w.inner.script ≠ [] := by
        intro h; have := h3 h; cases this; rcases e1 with e1 | e1 <;> cases e1
      rcases e1 with e1 | e1 <;> subst e1
      · exact ⟨rfl, rfl, rfl, h1, h2, fun h => absurd h hne, Or.inr (Or.inl rfl)⟩
      · exact ⟨rfl, rfl, rfl, h1, h2, fun h => absurd h hne, Or.inr (Or.inr rfl)⟩

/-- one `write(buf)` in a state where exactly `buf` is still announced (`written + buf.len() == file_size`, the
situation `write_all(content)` keeps the `Writer` in): the guard is passed with equality, no `u32` addition
overflows, `UnexpectedEof` is not returned -/
theorem Writer.write_spec (w : Writer) (buf : Bytes) (hinv : w.written + buf.length = w.fileSize)
    (hfs : w.fileSize < 4294967296) :
    (w.write buf).2.fileSize = w.fileSize ∧ (w.write buf).2.headerSize = w.headerSize
    ∧ (w.write buf).2.inner.script.length ≤ w.inner.script.length
    ∧ (w.write buf).2.inner.flushFails = w.inner.flushFails
    ∧ (w.inner.script = [] → (w.write buf).1 = .ok buf.length)
    ∧ ((∃ n, (w.write buf).1 = .ok n ∧ n ≤ buf.length ∧ (w.write buf).2.written = w.written + n
            ∧ (w.write buf).2.header = [] ∧ (w.write buf).2.inner.out = pendingOut w ++ buf.take n
            ∧ ((w.write buf).2.inner.script.length < w.inner.script.length ∨ n = buf.length))
       ∨ ((w.write buf).1 = .err "interrupted" ∧ (w.write buf).2.written = w.written ∧ (w.write buf).2.header = []
            ∧ (w.write buf).2.inner.out = pendingOut w
            ∧ (w.write buf).2.inner.script.length < w.inner.script.length)
       ∨ ((w.write buf).1 = .err "io" ∨ (w.write buf).1 = .err "write-zero")) := by
  unfold Writer.write
  have hb : buf.length % 4294967296 = buf.length := Nat.mod_eq_of_lt (by omega)
  have hsum : u32Add w.written (buf.length % 4294967296) = some w.fileSize := by
    unfold u32Add; rw [hb, hinv]; simp [hfs]
  rw [hsum]
  simp only [Nat.le_refl, if_true]
  obtain ⟨t1, t2, t3, t4, t5, t6, t7⟩ := tryWriteHeader_spec w
  rcases ht : w.tryWriteHeader with ⟨r, w1⟩
  rw [ht] at t1 t2 t3 t4 t5 t6 t7
  simp only at t1 t2 t3 t4 t5 t6 t7
  rcases t7 with ⟨e1, e2, e3⟩ | e1
  · subst e1
    simp only
    obtain ⟨s1, s2, s3, s4, s5⟩ := Sink.write_spec w1.inner buf
    rcases hw : w1.inner.write buf with ⟨r2, s'⟩
    rw [hw] at s1 s2 s3 s4 s5
    simp only at s1 s2 s4 s5
    rcases s5 with ⟨n, f1, f2, f3⟩ | ⟨f1, f3⟩
    · subst f1
      have hn : n % 4294967296 = n := Nat.mod_eq_of_lt (by omega)
      have hadd : u32Add w1.written (n % 4294967296) = some (w.written + n) := by
        unfold u32Add; rw [hn, t1]
        have : w.written + n < 4294967296 := by omega
        simp [this]
      dsimp only
      rw [hadd]
      dsimp only
      refine ⟨t2, t3, by omega, by rw [s2, t5], ?_, Or.inl ⟨n, rfl, f2, rfl, e2, by rw [f3, e3], ?_⟩⟩
      · intro hnil
        have h1nil : w1.inner.script = [] := by
          have : w1.inner.script.length = 0 := by rw [hnil] at t4; simpa using t4
          exact List.eq_nil_of_length_eq_zero this
        have := s3 h1nil
        cases this
        rfl
      · by_cases h1nil : w1.inner.script = []
        · right
          have := s3 h1nil
          cases this
          rfl
        · left
          have := s4 h1nil
          omega
    · have h1ne : w1.inner.script ≠ [] := by
        intro h; have := s3 h; cases this; rcases f1 with f1 | f1 <;> cases f1
      have hne : w.inner.script ≠ [] := by
        intro h; rw [h] at t4
        exact h1ne (List.eq_nil_of_length_eq_zero (by simpa using t4))
      have hlt := s4 h1ne
      rcases f1 with f1 | f1 <;> subst f1 <;> dsimp only
      · exact ⟨t2, t3, by omega, by rw [s2, t5], fun h => absurd h hne,
          Or.inr (Or.inl ⟨rfl, t1, e2, by rw [f3, e3], by omega⟩)⟩
      · exact ⟨t2, t3, by omega, by rw [s2, t5], fun h => absurd h hne, Or.inr (Or.inr (Or.inl rfl))⟩
  · have hne : w.inner.script ≠ [] := by
      intro h; have := t6 h; rw [this] at e1; rcases e1 with e1 | e1 <;> cases e1
    rcases e1 with e1 | e1 <;> subst e1
    · exact ⟨t2, t3, t4, t5, fun h => absurd h hne, Or.inr (Or.inr (Or.inl rfl))⟩
    · exact ⟨t2, t3, t4, t5, fun h => absurd h hne, Or.inr (Or.inr (Or.inr rfl))⟩

theorem writeAllLoop_nil {σ : Type} (write : σ → Bytes → Out Nat × σ) (fuel : Nat) (s : σ) :
    writeAllLoop write fuel [] s = (.ok (), s) := by
  cases fuel <;> rfl

/-- `write_all(buf)` on a `Writer` that has exactly `buf` left to take: for EVERY sink behaviour the loop ends with
`Ok` (everything went out, `written == file_size`) or with an error of the inner sink — never by running out of fuel,
never with a panic, never with the `Writer`'s own `UnexpectedEof` -/
theorem writer_loop (fuel : Nat) (buf : Bytes) (w : Writer) (hinv : w.written + buf.length = w.fileSize)
    (hfs : w.fileSize < 4294967296) (hf : buf ≠ [] → w.inner.script.length < fuel) :
    (w.inner.script = [] → (writeAllLoop Writer.write fuel buf w).1 = .ok ())
    ∧ (writeAllLoop Writer.write fuel buf w).2.inner.script.length ≤ w.inner.script.length
    ∧ (writeAllLoop Writer.write fuel buf w).2.inner.flushFails = w.inner.flushFails
    ∧ (writeAllLoop Writer.write fuel buf w).2.fileSize = w.fileSize
    ∧ (writeAllLoop Writer.write fuel buf w).2.headerSize = w.headerSize
    ∧ (((writeAllLoop Writer.write fuel buf w).1 = .ok ()
          ∧ (writeAllLoop Writer.write fuel buf w).2.written = w.fileSize
          ∧ pendingOut (writeAllLoop Writer.write fuel buf w).2 = pendingOut w ++ buf)
       ∨ ((writeAllLoop Writer.write fuel buf w).1 = .err "io"
          ∨ (writeAllLoop Writer.write fuel buf w).1 = .err "write-zero")) := by
  induction fuel generalizing buf w with
  | zero =>
    cases buf with
    | nil => simp [writeAllLoop]; omega
    | cons b bs => have := hf (by simp); omega
  | succ f ih =>
    cases buf with
    | nil => rw [writeAllLoop_nil]; simp; simpa using hinv
    | cons b bs =>
      have hlt := hf (by simp)
      obtain ⟨h1, h2, h3, h4, h5, h6⟩ := Writer.write_spec w (b :: bs) hinv hfs
      unfold writeAllLoop
      rcases hw : w.write (b :: bs) with ⟨r, w'⟩
      rw [hw] at h1 h2 h3 h4 h5 h6
      simp only at h1 h2 h3 h4 h5 h6
      rcases h6 with ⟨n, e1, e2, e3, e4, e5, e6⟩ | ⟨e1, e3, e4, e5, e6⟩ | e1
      · subst e1
        cases n with
        | zero =>
          have hdec : w'.inner.script.length < w.inner.script.length := by
            rcases e6 with e6 | e6
            · exact e6
            · simp at e6
          have hne : w.inner.script ≠ [] := by intro h; rw [h] at hdec; simp at hdec
          exact ⟨fun h => absurd h hne, h3, h4, h1, h2, Or.inr (Or.inr rfl)⟩
        | succ n =>
          have hinv' : w'.written + ((b :: bs).drop (n + 1)).length = w'.fileSize := by
            rw [e3, h1, List.length_drop]; omega
          have hf' : (b :: bs).drop (n + 1) ≠ [] → w'.inner.script.length < f := by
            intro hne
            rcases e6 with e6 | e6
            · omega
            · exfalso; apply hne; rw [e6]; simp
          obtain ⟨i1, i2, i3, i4, i5, i6⟩ := ih ((b :: bs).drop (n + 1)) w' hinv' (by rw [h1]; exact hfs) hf'
          show (fun r : Out Unit × Writer => (w.inner.script = [] → r.1 = .ok ()) ∧ r.2.inner.script.length ≤ w.inner.script.length
            ∧ r.2.inner.flushFails = w.inner.flushFails ∧ r.2.fileSize = w.fileSize ∧ r.2.headerSize = w.headerSize
            ∧ ((r.1 = .ok () ∧ r.2.written = w.fileSize ∧ pendingOut r.2 = pendingOut w ++ (b :: bs))
               ∨ (r.1 = .err "io" ∨ r.1 = .err "write-zero")))
            (writeAllLoop Writer.write f ((b :: bs).drop (n + 1)) w')
          dsimp only
          refine ⟨fun hnil => i1 ?_, by omega, by rw [i3, h4], by rw [i4, h1], by rw [i5, h2], ?_⟩
          · exact List.eq_nil_of_length_eq_zero (by rw [hnil] at h3; simpa using h3)
          · rcases i6 with ⟨j1, j2, j3⟩ | j1
            · left
              refine ⟨j1, by rw [j2, h1], ?_⟩
              rw [j3]
              unfold pendingOut at e5 ⊢
              rw [e4, e5, List.append_nil, List.append_assoc, List.take_append_drop]
            · right; exact j1
      · subst e1
        simp only [if_true]
        have hinv' : w'.written + (b :: bs).length = w'.fileSize := by rw [e3, h1]; exact hinv
        obtain ⟨i1, i2, i3, i4, i5, i6⟩ := ih (b :: bs) w' hinv' (by rw [h1]; exact hfs) (fun _ => by omega)
        have hne : w.inner.script ≠ [] := by intro h; rw [h] at e6; simp at e6
        refine ⟨fun h => absurd h hne, by omega, by rw [i3, h4], by rw [i4, h1], by rw [i5, h2], ?_⟩
        rcases i6 with ⟨j1, j2, j3⟩ | j1
        · left
          refine ⟨j1, by rw [j2, h1], ?_⟩
          rw [j3]
          unfold pendingOut at e5 ⊢
          rw [e4, e5, List.append_nil]
        · right; exact j1
      · have hne : w.inner.script ≠ [] := by
          intro h; have := h5 h; rw [this] at e1; rcases e1 with e1 | e1 <;> cases e1
        rcases e1 with e1 | e1 <;> subst e1
        · simp only [show ("io" = "interrupted") = False from by decide, if_false]
          refine ⟨fun h => absurd h hne, h3, h4, h1, h2, Or.inr ?_⟩
          first | exact Or.inl rfl | trivial | simp
        · simp only [show ("write-zero" = "interrupted") = False from by decide, if_false]
          refine ⟨fun h => absurd h hne, h3, h4, h1, h2, Or.inr ?_⟩
          first | exact Or.inr rfl | trivial | simp

theorem Writer.writeAll_spec (w : Writer) (buf : Bytes) (hinv : w.written + buf.length = w.fileSize)
    (hfs : w.fileSize < 4294967296) :
    (w.inner.script = [] → (w.writeAll buf).1 = .ok ())
    ∧ (w.writeAll buf).2.inner.script.length ≤ w.inner.script.length
    ∧ (w.writeAll buf).2.inner.flushFails = w.inner.flushFails
    ∧ (w.writeAll buf).2.fileSize = w.fileSize
    ∧ (w.writeAll buf).2.headerSize = w.headerSize
    ∧ (((w.writeAll buf).1 = .ok () ∧ (w.writeAll buf).2.written = w.fileSize
          ∧ pendingOut (w.writeAll buf).2 = pendingOut w ++ buf)
       ∨ ((w.writeAll buf).1 = .err "io" ∨ (w.writeAll buf).1 = .err "write-zero")) :=
  writer_loop _ buf w hinv hfs (fun _ => Nat.lt_succ_self _)

/-- `do_finish` / `finish`: the pending header goes out; padding is written exactly when `written == file_size` -/
theorem Writer.finish_spec (w : Writer) :
    w.finish.2.script.length ≤ w.inner.script.length
    ∧ w.finish.2.flushFails = w.inner.flushFails
    ∧ (w.inner.script = [] → w.inner.flushFails = false → w.finish.1 = .ok ())
    ∧ ((w.finish.1 = .ok ()
          ∧ w.finish.2.out = pendingOut w ++ (if w.written = w.fileSize then pad (w.headerSize + w.fileSize) else []))
       ∨ (w.finish.1 = .err "io" ∨ w.finish.1 = .err "write-zero")) := by
  unfold Writer.finish Writer.doFinish
  obtain ⟨t1, t2, t3, t4, t5, t6, t7⟩ := tryWriteHeader_spec w
  rcases ht : w.tryWriteHeader with ⟨r, w1⟩
  rw [ht] at t1 t2 t3 t4 t5 t6 t7
  simp only at t1 t2 t3 t4 t5 t6 t7
  rcases t7 with ⟨e1, e2, e3⟩ | e1
  · subst e1
    dsimp only
    rw [t1, t2, t3]
    by_cases heq : w.written = w.fileSize
    · simp only [heq, if_true]
      by_cases hp : padLen (w.headerSize + w.fileSize) = 0
      · simp only [hp, if_true]
        refine ⟨t4, t5, fun _ _ => by first | rfl | trivial, Or.inl ⟨by first | rfl | trivial, ?_⟩⟩
        rw [e3]; unfold pad; rw [hp]; simp
      · simp only [hp, if_false]
        obtain ⟨s1, s2, s3, s4⟩ := Sink.writeAll_spec w1.inner (pad (w.headerSize + w.fileSize))
        rcases hs : w1.inner.writeAll (pad (w.headerSize + w.fileSize)) with ⟨r2, s'⟩
        rw [hs] at s1 s2 s3 s4
        simp only at s1 s2 s4
        have h1nil : w.inner.script = [] → w1.inner.script = [] := fun h =>
          List.eq_nil_of_length_eq_zero (by rw [h] at t4; simpa using t4)
        rcases s4 with ⟨f1, f2⟩ | ⟨f1, _⟩
        · subst f1
          dsimp only
          unfold Sink.flush
          cases hfl : s'.flushFails with
          | true =>
            simp only [if_true]
            refine ⟨by omega, by rw [hfl, ← t5, ← s2, hfl], fun _ h => ?_, Or.inr (by first | exact Or.inl rfl | trivial | simp)⟩
            rw [← t5, ← s2, hfl] at h; cases h
          | false =>
            simp only [Bool.false_eq_true, if_false]
            exact ⟨by omega, by rw [hfl, ← t5, ← s2, hfl], fun _ _ => by first | rfl | trivial,
              Or.inl ⟨by first | rfl | trivial, by rw [f2, e3]⟩⟩
        · have hne : w.inner.script ≠ [] := by
            intro h; have := s3 (h1nil h); cases this; rcases f1 with f1 | f1 <;> cases f1
          rcases f1 with f1 | f1 <;> subst f1 <;> dsimp only
          · exact ⟨by omega, by rw [s2, t5], fun h => absurd h hne, Or.inr (Or.inl rfl)⟩
          · exact ⟨by omega, by rw [s2, t5], fun h => absurd h hne, Or.inr (Or.inr rfl)⟩
    · simp only [heq, if_false]
      exact ⟨t4, t5, fun _ _ => by first | rfl | trivial, Or.inl ⟨by first | rfl | trivial, by rw [e3]; simp⟩⟩
  · have hne : w.inner.script ≠ [] := by
      intro h; have := t6 h; rw [this] at e1; rcases e1 with e1 | e1 <;> cases e1
    rcases e1 with e1 | e1 <;> subst e1 <;> dsimp only
    · exact ⟨t4, t5, fun h => absurd h hne, Or.inr (Or.inl rfl)⟩
    · exact ⟨t4, t5, fun h => absurd h hne, Or.inr (Or.inr rfl)⟩

/-- one file of the standard-mode loop (`write_cpio(.., content.len() as u32)`, `write_all(&content)`, `finish()`) for a
content that fits a `u32`: for every sink behaviour `Ok` — and then exactly `Cpio.writeEntry` went out — or an error of
the sink; an all-accepting sink gives `Ok` -/
theorem entryW_spec (m : EntryMeta) (content : Bytes) (s : Sink) (hc : content.length < 4294967296) :
    (entryW m content s).2.script.length ≤ s.script.length
    ∧ (entryW m content s).2.flushFails = s.flushFails
    ∧ (s.script = [] → s.flushFails = false → (entryW m content s).1 = .ok ())
    ∧ (((entryW m content s).1 = .ok () ∧ (entryW m content s).2.out = s.out ++ writeEntry m content)
       ∨ ((entryW m content s).1 = .err "io" ∨ (entryW m content s).1 = .err "write-zero")) := by
  unfold entryW
  rw [Nat.mod_eq_of_lt hc]
  obtain ⟨h1, h2, h3, h4, h5, h6⟩ := Writer.writeAll_spec (Writer.new m content.length none s) content
    (by simp [Writer.new]) (by simpa [Writer.new] using hc)
  rcases hw : (Writer.new m content.length none s).writeAll content with ⟨r, w⟩
  rw [hw] at h1 h2 h3 h4 h5 h6
  simp only [Writer.new] at h1 h2 h3 h4 h5 h6
  rcases h6 with ⟨e1, e2, e3⟩ | e1
  · subst e1
    dsimp only
    obtain ⟨f1, f2, f3, f4⟩ := Writer.finish_spec w
    refine ⟨by omega, by rw [f2, h3], fun hn hf => f3 ?_ (by rw [h3]; exact hf), ?_⟩
    · exact List.eq_nil_of_length_eq_zero (by rw [hn] at h2; simpa using h2)
    · rcases f4 with ⟨g1, g2⟩ | g1
      · left
        refine ⟨g1, ?_⟩
        rw [g2, e3, e2, h4, h5]
        simp only [if_true, pendingOut, writeEntry, List.append_assoc]
      · right; exact g1
  · have hne : s.script ≠ [] := by
      intro h; have := h1 h; rw [this] at e1; rcases e1 with e1 | e1 <;> cases e1
    rcases e1 with e1 | e1 <;> subst e1 <;> dsimp only
    · exact ⟨h2, h3, fun h => absurd h hne, Or.inr (Or.inl rfl)⟩
    · exact ⟨h2, h3, fun h => absurd h hne, Or.inr (Or.inr rfl)⟩

theorem trailerW_spec (s : Sink) :
    (trailerW s).2.script.length ≤ s.script.length
    ∧ (trailerW s).2.flushFails = s.flushFails
    ∧ (s.script = [] → s.flushFails = false → (trailerW s).1 = .ok ())
    ∧ (((trailerW s).1 = .ok () ∧ (trailerW s).2.out = s.out ++ trailer)
       ∨ ((trailerW s).1 = .err "io" ∨ (trailerW s).1 = .err "write-zero")) := by
  unfold trailerW
  obtain ⟨f1, f2, f3, f4⟩ := Writer.finish_spec (Writer.new { name := cpioTrailerName, nlink := 1 } 0 none s)
  refine ⟨f1, f2, f3, ?_⟩
  rcases f4 with ⟨g1, g2⟩ | g1
  · left
    refine ⟨g1, ?_⟩
    rw [g2]
    simp only [Writer.new, if_true, pendingOut, trailer, writeEntry, List.append_assoc, List.length_nil, List.nil_append]
  · right; exact g1

theorem sink_eta (r s : Sink) (o : Bytes) (h1 : r.out = o) (h2 : r.script.length ≤ s.script.length)
    (h3 : r.flushFails = s.flushFails) (hs : s.script = []) : r = { s with out := o } := by
  cases r with
  | mk ro rs rf =>
    simp only at h1 h2 h3
    have : rs = [] := List.eq_nil_of_length_eq_zero (by rw [hs] at h2; simpa using h2)
    subst h1 this h3
    rw [hs]

/-- the whole standard-mode loop plus the trailer, for contents that fit a `u32`: `Ok` means exactly `Cpio.archiveOf`
went out; an all-accepting sink gives `Ok` -/
theorem entriesW_spec (es : List (EntryMeta × Bytes)) (hes : ∀ x ∈ es, x.2.length < 4294967296) (s : Sink) :
    (entriesW es s).2.script.length ≤ s.script.length
    ∧ (entriesW es s).2.flushFails = s.flushFails
    ∧ (s.script = [] → s.flushFails = false → (entriesW es s).1 = .ok ())
    ∧ (((entriesW es s).1 = .ok () ∧ (entriesW es s).2.out = s.out ++ archiveOf es)
       ∨ ((entriesW es s).1 = .err "io" ∨ (entriesW es s).1 = .err "write-zero")) := by
  induction es generalizing s with
  | nil => exact trailerW_spec s
  | cons x r ih =>
    obtain ⟨m, c⟩ := x
    obtain ⟨h1, h2, h3, h4⟩ := entryW_spec m c s (hes (m, c) (List.mem_cons_self ..))
    unfold entriesW
    rcases hw : entryW m c s with ⟨o, s'⟩
    rw [hw] at h1 h2 h3 h4
    simp only at h1 h2 h3 h4
    rcases h4 with ⟨e1, e2⟩ | e1
    · subst e1
      dsimp only
      obtain ⟨i1, i2, i3, i4⟩ := ih (fun x hx => hes x (List.mem_cons_of_mem _ hx)) s'
      refine ⟨by omega, by rw [i2, h2], fun hn hf => i3 ?_ (by rw [h2]; exact hf), ?_⟩
      · exact List.eq_nil_of_length_eq_zero (by rw [hn] at h1; simpa using h1)
      · rcases i4 with ⟨j1, j2⟩ | j1
        · left; refine ⟨j1, ?_⟩
          rw [j2, e2]; simp only [archiveOf, List.append_assoc]
        · right; exact j1
    · have hne : s.script ≠ [] ∨ s.flushFails ≠ false := by
        by_cases hn : s.script = []
        · by_cases hf : s.flushFails = false
          · have := h3 hn hf; rw [this] at e1; rcases e1 with e1 | e1 <;> cases e1
          · exact Or.inr hf
        · exact Or.inl hn
      rcases e1 with e1 | e1 <;> subst e1 <;> dsimp only
      · exact ⟨h1, h2, fun hn hf => by rcases hne with h | h <;> contradiction, Or.inr (Or.inl rfl)⟩
      · exact ⟨h1, h2, fun hn hf => by rcases hne with h | h <;> contradiction, Or.inr (Or.inr rfl)⟩

theorem sum_le_of_mem {l : List Nat} {x : Nat} (h : x ∈ l) : x ≤ l.sum := by
  induction l with
  | nil => cases h
  | cons a r ih =>
    simp only [List.sum_cons]
    rcases List.mem_cons.mp h with rfl | h
    · omega
    · have := ih h; omega

theorem builderEntriesFrom_content (uid gid : Nat) (files : List FileIn) (ino : Nat) :
    ∀ x ∈ builderEntriesFrom uid gid ino files, ∃ f ∈ files, x.2 = f.content := by
  induction files generalizing ino with
  | nil => intro x hx; cases hx
  | cons f r ih =>
    intro x hx
    simp only [builderEntriesFrom, List.mem_cons] at hx
    rcases hx with rfl | hx
    · exact ⟨f, List.mem_cons_self .., rfl⟩
    · obtain ⟨g, hg, e⟩ := ih (ino + 1) x hx
      exact ⟨g, List.mem_cons_of_mem _ hg, e⟩

end RpmVerif.PWriter
