import RpmVerif.Lemmas.RpmValid
import RpmVerif.Model.Builder
/-! Helper lemmas for C09: no slot combinator of the builder's slot table (`Bld.slots`) emits an empty record. -/
namespace RpmVerif.Bld
open RpmVerif RpmVerif.Hdr

/-- `add_data` registers the directory of every file -/
def DirsOk (c : Cfg) : Prop := ∀ f ∈ c.files, f.dir ∈ c.directories

/-- a slot never emits an empty record -/
def SlotNE (f : Ctx → Option IndexData) : Prop := ∀ x d, DirsOk x.c → f x = some d → d.NonEmpty

theorem ne_always {f : Ctx → IndexData} (h : ∀ x, (f x).NonEmpty) : SlotNE (always f) := by
  intro x d _ hd; simp only [always, Option.some.injEq] at hd; subst hd; exact h x

theorem ne_whenFiles {f : Ctx → IndexData} (h : ∀ x, DirsOk x.c → x.c.files ≠ [] → (f x).NonEmpty) : SlotNE (whenFiles f) := by
  intro x d hok hd
  simp only [whenFiles] at hd
  split at hd
  · cases hd
  · rename_i hne
    simp only [Option.some.injEq] at hd; subst hd
    exact h x hok (by simpa using hne)

theorem ne_optS (f : Cfg → Option Bytes) : SlotNE (optS f) := by
  intro x d hok hd
  simp only [optS, Option.map_eq_some_iff] at hd
  obtain ⟨s, _, rfl⟩ := hd
  trivial

theorem map_ne {α β} (f : α → β) {l : List α} (h : l ≠ []) : l.map f ≠ [] := by
  cases l with
  | nil => exact absurd rfl h
  | cons a t => simp

theorem ne_depNames (g : Ctx → List Dep) (al : Bool) (h : al = true → ∀ x, g x ≠ []) : SlotNE (depNames g al) := by
  intro x d hok hd
  simp only [depNames] at hd
  split at hd
  · cases hd
  · rename_i hc
    simp only [Option.some.injEq] at hd; subst hd
    simp only [IndexData.NonEmpty]
    apply map_ne
    cases al with
    | true => exact h rfl x
    | false => simpa using hc
theorem ne_depVersions (g : Ctx → List Dep) (al : Bool) (h : al = true → ∀ x, g x ≠ []) : SlotNE (depVersions g al) := by
  intro x d hok hd
  simp only [depVersions] at hd
  split at hd
  · cases hd
  · rename_i hc
    simp only [Option.some.injEq] at hd; subst hd
    simp only [IndexData.NonEmpty]
    apply map_ne
    cases al with
    | true => exact h rfl x
    | false => simpa using hc
theorem ne_depFlags (g : Ctx → List Dep) (al : Bool) (h : al = true → ∀ x, g x ≠ []) : SlotNE (depFlags g al) := by
  intro x d hok hd
  simp only [depFlags] at hd
  split at hd
  · cases hd
  · rename_i hc
    simp only [Option.some.injEq] at hd; subst hd
    simp only [IndexData.NonEmpty]
    apply map_ne
    cases al with
    | true => exact h rfl x
    | false => simpa using hc

theorem ne_scrScript (g : Cfg → Option Scriptlet) : SlotNE (scrScript g) := by
  intro x d hok hd
  simp only [scrScript, Option.map_eq_some_iff] at hd
  obtain ⟨s, _, rfl⟩ := hd
  trivial
theorem ne_scrFlags (g : Cfg → Option Scriptlet) : SlotNE (scrFlags g) := by
  intro x d hok hd
  simp only [scrFlags, Option.bind_eq_some_iff, Option.map_eq_some_iff] at hd
  obtain ⟨s, _, fl, _, rfl⟩ := hd
  simp [IndexData.NonEmpty]
/-- **fix 024ca91**: an empty interpreter list emits no record -/
theorem ne_scrProg (g : Cfg → Option Scriptlet) : SlotNE (scrProg g) := by
  intro x d hok hd
  simp only [scrProg, Option.bind_eq_some_iff] at hd
  obtain ⟨s, _, p, _, hp⟩ := hd
  split at hp
  · cases hp
  · rename_i hne
    simp only [Option.some.injEq] at hp; subst hp
    simp only [IndexData.NonEmpty]
    simpa using hne

theorem ne_compMap (sel : Bytes × Bytes → Bytes) :
    SlotNE (fun x => x.c.compression.name.map fun p => IndexData.str (sel p)) := by
  intro x d hok hd
  simp only [Option.map_eq_some_iff] at hd
  obtain ⟨s, _, rfl⟩ := hd
  trivial

theorem allProvides_ne (c : Cfg) : allProvides c ≠ [] := by simp [allProvides]


theorem forall_append {α} {P : α → Prop} {a b : List α} (ha : ∀ s ∈ a, P s) (hb : ∀ s ∈ b, P s) : ∀ s ∈ a ++ b, P s := by
  intro s hs; rcases List.mem_append.mp hs with h | h
  · exact ha s h
  · exact hb s h
theorem forall_cons {α} {P : α → Prop} {a : α} {l : List α} (ha : P a) (hl : ∀ s ∈ l, P s) : ∀ s ∈ a :: l, P s := by
  intro s hs; rcases List.mem_cons.mp hs with rfl | h
  · exact ha
  · exact hl s h
theorem forall_nil {α} {P : α → Prop} : ∀ s ∈ ([] : List α), P s := fun _ h => by cases h

theorem ne_dirnames : SlotNE (whenFiles fun x => .strArray x.c.directories) :=
  ne_whenFiles fun x hok hne => by
    simp only [IndexData.NonEmpty]
    cases hf : x.c.files with
    | nil => exact absurd hf hne
    | cons f t =>
      have := hok f (by simp [hf])
      intro he; rw [he] at this; cases this

theorem ne_inodes : SlotNE (whenFiles fun x => .int32 ((List.range x.c.files.length).map (· + 1))) :=
  ne_whenFiles fun x _ hne => by
    simp only [IndexData.NonEmpty]
    apply map_ne
    intro he
    have := congrArg List.length he
    simp only [List.length_range, List.length_nil] at this
    exact hne (List.length_eq_zero_iff.mp this)

theorem depSlots_ne (n v f : Nat) (g : Ctx → List Dep) (al : Bool) (h : al = true → ∀ x, g x ≠ []) :
    ∀ s ∈ depSlots n v f g al, SlotNE s.2 :=
  forall_cons (ne_depNames g al h) (forall_cons (ne_depVersions g al h) (forall_cons (ne_depFlags g al h) forall_nil))

theorem scriptSlots_ne (a b c : Nat) (g : Cfg → Option Scriptlet) : ∀ s ∈ scriptSlots a b c g, SlotNE s.2 :=
  forall_cons (ne_scrScript g) (forall_cons (ne_scrFlags g) (forall_cons (ne_scrProg g) forall_nil))

/-- close `SlotNE` for a slot written as a bare conditional -/
macro "slot_cond" : tactic => `(tactic| (
  intro x d _ hd
  dsimp only at hd
  split at hd <;> cases hd
  all_goals first
    | exact List.cons_ne_nil _ _
    | (rename_i hc
       simp only [Bool.or_eq_true, not_or, List.isEmpty_iff] at hc
       first | exact map_ne _ hc.1 | exact map_ne _ hc)))

end RpmVerif.Bld
