import RpmVerif.Model.Verify
import RpmVerif.Lemmas.Digest
/-!
Helper lemmas for C02.

* `verifySignatureS` is "digests, then a PLAN of steps read off the signature header, run until the first failure":
  `sigPlan` (which signatures, in which order, each header-only or header+payload; `none` inside the list = an
  entry that does not base64-decode) does not depend on the main header or the payload; `runSteps` is the one loop
  both branches of the code amount to (`verifySignatureS_eq`).
* facts about `runSteps`: log shape (all accepted, or all accepted but the last which is rejected), success log,
  faithfulness to the verifier, no panic.
* what a successful `verifyDigests` says about the SHA256 header digest / the payload digest; `hexLower` is injective.
-/
namespace RpmVerif.Verify
open RpmVerif.Hdr RpmVerif.Gen RpmVerif.Digest

/-! ### the plan and the single loop -/

/-- a step of the plan: signature bytes and whether it is the legacy header+payload one; `none` = undecodable entry -/
abbrev PlanStep := Option (Bytes × Bool)

/-- the bytes a step's signature is presented with -/
def dataFor (hdr content : Bytes) (pgp : Bool) : Bytes := if pgp then hdr ++ content else hdr

/-- which signatures `verify_signature` will present, in order; `none` = `NoSignatureFound` -/
def sigPlan (b64 : Bytes → Option Bytes) (sig : Header) : Option (List PlanStep) :=
  match getStringArray sig SigTag.RPMSIGTAG_OPENPGP with
  | .ok sigs => if sigs.isEmpty then none else some (sigs.map fun s => (b64 s).map fun x => (x, false))
  | _ =>
    let rsa := getBinary sig SigTag.RPMSIGTAG_RSA
    let eddsa := getBinary sig SigTag.RPMSIGTAG_DSA
    let v3 := getBinary sig SigTag.RPMSIGTAG_PGP
    if !rsa.isOk && !eddsa.isOk && !v3.isOk then none
    else some ((stepOf eddsa [] false ++ stepOf rsa [] false ++ stepOf v3 [] true).map fun (_, s, g) => some (s, g))

def runSteps (v : Verifier) (hdr content : Bytes) (pre : List Consult) : List PlanStep → Out Unit × List Consult
  | [] => (.ok (), pre)
  | none :: _ => (.err "base64", pre)
  | some (sig, pgp) :: rest =>
    if v pre (dataFor hdr content pgp) sig then
      runSteps v hdr content (pre ++ [⟨dataFor hdr content pgp, sig, true, pgp⟩]) rest
    else (.err "verify", pre ++ [⟨dataFor hdr content pgp, sig, false, pgp⟩])

theorem openpgpLoop_eq (b64 : Bytes → Option Bytes) (v : Verifier) (hdr content : Bytes) (pre : List Consult)
    (sigs : List Bytes) :
    openpgpLoop b64 v hdr pre sigs = runSteps v hdr content pre (sigs.map fun s => (b64 s).map fun x => (x, false)) := by
  induction sigs generalizing pre with
  | nil => rfl
  | cons s rest ih =>
    simp only [openpgpLoop, List.map_cons]
    cases hb : b64 s with
    | none => simp [runSteps]
    | some x =>
      simp only [Option.map_some, runSteps, dataFor, Bool.false_eq_true, if_false]
      cases hv : v pre hdr x
      · simp
      · simp only [if_true]; exact ih _

theorem runConsults_eq (v : Verifier) (hdr content : Bytes) (pre : List Consult) (l : List (Bytes × Bytes × Bool))
    (hl : ∀ x ∈ l, x.1 = dataFor hdr content x.2.2) :
    runConsults v pre l = runSteps v hdr content pre (l.map fun (_, s, g) => some (s, g)) := by
  induction l generalizing pre with
  | nil => rfl
  | cons x rest ih =>
    obtain ⟨d, s, g⟩ := x
    have hd : d = dataFor hdr content g := hl (d, s, g) List.mem_cons_self
    subst hd
    simp only [runConsults, List.map_cons, runSteps]
    cases hv : v pre (dataFor hdr content g) s
    · simp
    · simp only [if_true]
      exact ih _ (fun y hy => hl y (List.mem_cons_of_mem _ hy))

theorem stepOf_data (g : Out Bytes) (d : Bytes) (pgp : Bool) : ∀ x ∈ stepOf g d pgp, x.1 = d ∧ x.2.2 = pgp := by
  intro x hx
  unfold stepOf at hx
  split at hx
  · simp only [List.mem_singleton] at hx; subst hx; exact ⟨rfl, rfl⟩
  · cases hx

theorem stepOf_map (g : Out Bytes) (d d' : Bytes) (pgp : Bool) :
    (stepOf g d pgp).map (fun (_, s, g) => some (s, g)) = (stepOf g d' pgp).map (fun (_, s, g) => (some (s, g) : PlanStep)) := by
  unfold stepOf; split <;> rfl

/-- **`verify_signature` = digests, then the plan run until the first failure** -/
theorem verifySignatureS_eq (md5 sha1 sha256 : Bytes → Bytes) (b64 : Bytes → Option Bytes) (v : Verifier) (p : Package) :
    verifySignatureS md5 sha1 sha256 b64 v p =
      match verifyDigests md5 sha1 sha256 p with
      | .err c => (.err c, [])
      | .panic s => (.panic s, [])
      | .ok _ =>
        match sigPlan b64 p.md.signature with
        | none => (.err "nosig", [])
        | some plan => runSteps v (writeHeader p.md.header) p.content [] plan := by
  unfold verifySignatureS sigPlan
  cases verifyDigests md5 sha1 sha256 p with
  | err c => rfl
  | panic s => rfl
  | ok u =>
    simp only
    cases hg : getStringArray p.md.signature SigTag.RPMSIGTAG_OPENPGP with
    | ok sigs =>
      simp only
      by_cases he : sigs.isEmpty = true
      · simp [he]
      · simp only [he, Bool.false_eq_true, if_false]
        exact openpgpLoop_eq b64 v _ p.content [] sigs
    | err c =>
      simp only [legacy]
      split
      · rfl
      · rw [runConsults_eq v (writeHeader p.md.header) p.content]
        · simp only [List.map_append]
          rw [stepOf_map _ (writeHeader p.md.header) [], stepOf_map _ (writeHeader p.md.header) [],
            stepOf_map _ (writeHeader p.md.header ++ p.content) []]
        · intro x hx
          simp only [List.mem_append] at hx
          rcases hx with (hx | hx) | hx
          · obtain ⟨h1, h2⟩ := stepOf_data _ _ _ x hx; rw [h1, h2]; rfl
          · obtain ⟨h1, h2⟩ := stepOf_data _ _ _ x hx; rw [h1, h2]; rfl
          · obtain ⟨h1, h2⟩ := stepOf_data _ _ _ x hx; rw [h1, h2]; rfl
    | panic s =>
      have := getWith_not_panic IndexData.asStringArray p.md.signature SigTag.RPMSIGTAG_OPENPGP
      unfold getStringArray at hg
      rw [hg] at this
      cases this

theorem stepOf_ne_nil {g : Out Bytes} (h : g.isOk = true) (d : Bytes) (pgp : Bool) : stepOf g d pgp ≠ [] := by
  unfold stepOf
  cases g <;> simp [Out.isOk] at h ⊢

/-- a plan is never empty -/
theorem sigPlan_ne_nil {b64 : Bytes → Option Bytes} {sig : Header} {plan : List PlanStep}
    (h : sigPlan b64 sig = some plan) : plan ≠ [] := by
  unfold sigPlan at h
  split at h
  · split at h
    · cases h
    · rename_i sigs _ he
      simp only [Option.some.injEq] at h
      subst h
      intro hn
      simp only [List.map_eq_nil_iff] at hn
      exact he (by simp [hn])
  · dsimp only at h
    split at h
    · cases h
    · rename_i hc
      simp only [Option.some.injEq] at h
      subst h
      intro hn
      simp only [List.map_eq_nil_iff, List.append_eq_nil_iff] at hn
      obtain ⟨⟨h1, h2⟩, h3⟩ := hn
      apply hc
      have a : (getBinary sig SigTag.RPMSIGTAG_RSA).isOk = false := by
        cases hh : (getBinary sig SigTag.RPMSIGTAG_RSA).isOk
        · rfl
        · exact absurd h2 (stepOf_ne_nil hh _ _)
      have b : (getBinary sig SigTag.RPMSIGTAG_DSA).isOk = false := by
        cases hh : (getBinary sig SigTag.RPMSIGTAG_DSA).isOk
        · rfl
        · exact absurd h1 (stepOf_ne_nil hh _ _)
      have c : (getBinary sig SigTag.RPMSIGTAG_PGP).isOk = false := by
        cases hh : (getBinary sig SigTag.RPMSIGTAG_PGP).isOk
        · rfl
        · exact absurd h3 (stepOf_ne_nil hh _ _)
      simp [a, b, c]

/-- with a readable OPENPGP array every step is header-only -/
theorem sigPlan_openpgp {b64 : Bytes → Option Bytes} {sig : Header} {sigs : List Bytes} {plan : List PlanStep}
    (hg : getStringArray sig SigTag.RPMSIGTAG_OPENPGP = .ok sigs) (h : sigPlan b64 sig = some plan) :
    ∀ s g, some (s, g) ∈ plan → g = false := by
  unfold sigPlan at h
  rw [hg] at h
  simp only at h
  split at h
  · cases h
  · simp only [Option.some.injEq] at h
    subst h
    intro s g hm
    simp only [List.mem_map] at hm
    obtain ⟨t, _, ht⟩ := hm
    cases hb : b64 t with
    | none => rw [hb] at ht; cases ht
    | some x =>
      rw [hb] at ht
      simp only [Option.map_some, Option.some.injEq, Prod.mk.injEq] at ht
      exact ht.2.symm

/-! ### facts about the loop -/

def AllAcc (l : List Consult) : Prop := ∀ c ∈ l, c.accepted = true

/-- every logged verdict is what the verifier said, given the consults before it -/
inductive Faithful (v : Verifier) : List Consult → Prop where
  | nil : Faithful v []
  | snoc {l : List Consult} {c : Consult} : Faithful v l → c.accepted = v l c.data c.sig → Faithful v (l ++ [c])

theorem Faithful.call {v : Verifier} {l : List Consult} (h : Faithful v l) :
    ∀ c ∈ l, ∃ pre, c.accepted = v pre c.data c.sig := by
  induction h with
  | nil => intro c hc; cases hc
  | snoc _ hc ih =>
    intro c hm
    simp only [List.mem_append, List.mem_singleton] at hm
    rcases hm with hm | rfl
    · exact ih c hm
    · exact ⟨_, hc⟩

theorem runSteps_faithful (v : Verifier) (hdr content : Bytes) (pre : List Consult) (plan : List PlanStep)
    (hp : Faithful v pre) : Faithful v (runSteps v hdr content pre plan).2 := by
  induction plan generalizing pre with
  | nil => exact hp
  | cons st rest ih =>
    match st with
    | none => exact hp
    | some (sig, pgp) =>
      simp only [runSteps]
      cases hv : v pre (dataFor hdr content pgp) sig
      · simp only [Bool.false_eq_true, if_false]
        exact .snoc hp hv.symm
      · simp only [if_true]
        exact ih _ (.snoc hp hv.symm)

theorem runSteps_not_panic (v : Verifier) (hdr content : Bytes) (pre : List Consult) (plan : List PlanStep) :
    (runSteps v hdr content pre plan).1.isPanic = false := by
  induction plan generalizing pre with
  | nil => rfl
  | cons st rest ih =>
    match st with
    | none => rfl
    | some (sig, pgp) =>
      simp only [runSteps]
      split
      · exact ih _
      · rfl

/-- the log is: everything accepted, or everything accepted except the LAST entry, which was rejected and made the
result the verifier's error -/
theorem runSteps_shape (v : Verifier) (hdr content : Bytes) (pre : List Consult) (plan : List PlanStep)
    (hp : AllAcc pre) :
    AllAcc (runSteps v hdr content pre plan).2 ∨
      ∃ init c, (runSteps v hdr content pre plan).2 = init ++ [c] ∧ AllAcc init ∧ c.accepted = false ∧
        (runSteps v hdr content pre plan).1 = .err "verify" := by
  induction plan generalizing pre with
  | nil => exact .inl hp
  | cons st rest ih =>
    match st with
    | none => exact .inl hp
    | some (sig, pgp) =>
      cases hv : v pre (dataFor hdr content pgp) sig
      · have e : runSteps v hdr content pre (some (sig, pgp) :: rest) =
            (.err "verify", pre ++ [⟨dataFor hdr content pgp, sig, false, pgp⟩]) := by simp [runSteps, hv]
        rw [e]
        exact .inr ⟨pre, _, rfl, hp, rfl, rfl⟩
      · have e : runSteps v hdr content pre (some (sig, pgp) :: rest) =
            runSteps v hdr content (pre ++ [⟨dataFor hdr content pgp, sig, true, pgp⟩]) rest := by simp [runSteps, hv]
        rw [e]
        apply ih
        intro c hc
        simp only [List.mem_append, List.mem_singleton] at hc
        rcases hc with hc | rfl
        · exact hp c hc
        · rfl

/-- the consult a plan step produces when accepted -/
def okConsult (hdr content : Bytes) : PlanStep → List Consult
  | none => []
  | some (sig, pgp) => [⟨dataFor hdr content pgp, sig, true, pgp⟩]

/-- on success every step of the plan decoded, was presented and was accepted: the log is the plan -/
theorem runSteps_ok (v : Verifier) (hdr content : Bytes) (pre : List Consult) (plan : List PlanStep)
    (h : (runSteps v hdr content pre plan).1 = .ok ()) :
    (runSteps v hdr content pre plan).2 = pre ++ plan.flatMap (okConsult hdr content) ∧ ∀ st ∈ plan, st.isSome = true := by
  induction plan generalizing pre with
  | nil => simp [runSteps]
  | cons st rest ih =>
    match st with
    | none => simp [runSteps] at h
    | some (sig, pgp) =>
      simp only [runSteps] at h ⊢
      cases hv : v pre (dataFor hdr content pgp) sig
      · simp [hv] at h
      · simp only [hv, if_true] at h ⊢
        obtain ⟨h1, h2⟩ := ih _ h
        refine ⟨?_, ?_⟩
        · rw [h1]; simp [okConsult, List.flatMap_cons]
        · intro st hst
          simp only [List.mem_cons] at hst
          rcases hst with rfl | hst
          · rfl
          · exact h2 st hst

/-- every logged consult comes from a step of the plan, with that step's data -/
theorem runSteps_data (v : Verifier) (hdr content : Bytes) (pre : List Consult) (plan : List PlanStep) :
    ∀ c ∈ (runSteps v hdr content pre plan).2,
      c ∈ pre ∨ (some (c.sig, c.fromPgpTag) ∈ plan ∧ c.data = dataFor hdr content c.fromPgpTag) := by
  induction plan generalizing pre with
  | nil => intro c hc; exact .inl hc
  | cons st rest ih =>
    match st with
    | none => intro c hc; exact .inl hc
    | some (sig, pgp) =>
      simp only [runSteps]
      have key : ∀ (b : Bool) (c : Consult), c ∈ pre ++ [⟨dataFor hdr content pgp, sig, b, pgp⟩] →
          c ∈ pre ∨ (some (c.sig, c.fromPgpTag) ∈ (some (sig, pgp) :: rest : List PlanStep) ∧
            c.data = dataFor hdr content c.fromPgpTag) := by
        intro b c hc
        simp only [List.mem_append, List.mem_singleton] at hc
        rcases hc with hc | rfl
        · exact .inl hc
        · exact .inr ⟨List.mem_cons_self, rfl⟩
      split
      · intro c hc
        rcases ih _ c hc with h | ⟨h1, h2⟩
        · exact key true c h
        · exact .inr ⟨List.mem_cons_of_mem _ h1, h2⟩
      · exact key false

/-- the first step decides at once when it is rejected -/
theorem runSteps_first_rejected (v : Verifier) (hdr content : Bytes) (sig : Bytes) (pgp : Bool) (rest : List PlanStep)
    (h : v [] (dataFor hdr content pgp) sig = false) :
    (runSteps v hdr content [] (some (sig, pgp) :: rest)).1 = .err "verify" := by
  simp [runSteps, h]

/-! ### hex text determines the digest -/

theorem hexDigitByte_inj : ∀ i j : Fin 16, hexDigitByte i.val = hexDigitByte j.val → i = j := by decide

theorem hexLower_inj {a b : Bytes} (h : hexLower a = hexLower b) : a = b := by
  induction a generalizing b with
  | nil =>
    cases b with
    | nil => rfl
    | cons y ys => simp [hexLower] at h
  | cons x xs ih =>
    cases b with
    | nil => simp [hexLower] at h
    | cons y ys =>
      simp only [hexLower, List.flatMap_cons, List.cons_append, List.nil_append, List.cons.injEq] at h ih
      obtain ⟨h1, h2, h3⟩ := h
      have hx := x.toNat_lt
      have hy := y.toNat_lt
      have e1 := hexDigitByte_inj ⟨x.toNat / 16, by omega⟩ ⟨y.toNat / 16, by omega⟩ h1
      have e2 := hexDigitByte_inj ⟨x.toNat % 16, by omega⟩ ⟨y.toNat % 16, by omega⟩ h2
      simp only [Fin.mk.injEq] at e1 e2
      have : x = y := UInt8.toNat_inj.mp (by omega)
      rw [this, ih h3]

/-! ### what a successful digest check pins down -/

theorem checkDeclared_ok {g : Out Bytes} {c : Bytes} (h : checkDeclared g c = .ok ()) : ∀ d, g = .ok d → d = c := by
  intro d hd
  subst hd
  simp only [checkDeclared] at h
  split at h
  · cases h
  · rename_i hne; simpa using hne

theorem verifyDigests_ok_sha256 {md5 sha1 sha256 : Bytes → Bytes} {p : Package} {d : Bytes}
    (h : verifyDigests md5 sha1 sha256 p = .ok ()) (hd : getString p.md.signature SigTag.RPMSIGTAG_SHA256 = .ok d) :
    d = hexLower (sha256 (writeHeader p.md.header)) := by
  simp only [verifyDigests, Out.bind_eq_ok] at h
  obtain ⟨_, _, _, _, _, h3, _⟩ := h
  exact checkDeclared_ok h3 d hd

theorem verifyDigests_ok_payload {md5 sha1 sha256 : Bytes → Bytes} {p : Package} {l : List Bytes} {a : Nat}
    (h : verifyDigests md5 sha1 sha256 p = .ok ())
    (hl : getStringArray p.md.header IndexTag.RPMTAG_PAYLOADDIGEST = .ok l)
    (ha : getU32 p.md.header IndexTag.RPMTAG_PAYLOADDIGESTALGO = .ok a) :
    l.head? = some (hexLower (sha256 p.content)) := by
  simp only [verifyDigests, Out.bind_eq_ok] at h
  obtain ⟨_, _, _, _, _, _, h4⟩ := h
  simp only [checkPayload, hl, ha] at h4
  split at h4
  · cases h4
  · split at h4
    · cases h4
    · split at h4
      · cases h4
      · rename_i hne; simpa using hne

theorem verifyDigests_not_panic (md5 sha1 sha256 : Bytes → Bytes) (p : Package) :
    (verifyDigests md5 sha1 sha256 p).isPanic = false := by
  have := verifyDigests_eq_outcome ⟨md5, sha1, sha256⟩ p
  simp only at this
  rw [this]; exact outcome_not_panic _ p _

/-! ### `echo_signature` in place (AUDIT2 a10) -/

/-- what `echo_signature` prints for the signature of a consult -/
def echoOf (c : Consult) : Nat × Bytes := (c.sig.length, c.sig.take Gen.echoPrefixLen)

/-- the slice bound `len.min(N)` is never out of range: the echo is a value — the length and the first `N` bytes -/
theorem echoSignature_eq (sig : Bytes) : echoSignature sig = .ok (sig.length, sig.take Gen.echoPrefixLen) := by
  unfold echoSignature sliceTo
  rw [if_pos (Nat.min_le_left _ _)]
  simp only [Out.bind_ok, Out.pure_eq]
  have : sig.take (min sig.length Gen.echoPrefixLen) = sig.take Gen.echoPrefixLen :=
    List.take_eq_take_iff.mpr (by omega)
  rw [this]

theorem openpgpLoopE_eq (b64 : Bytes → Option Bytes) (v : Verifier) (hdr : Bytes) (pre : List Consult)
    (ech : List (Nat × Bytes)) (sigs : List Bytes) (he : ech = pre.map echoOf) :
    openpgpLoopE b64 v hdr pre ech sigs =
      ((openpgpLoop b64 v hdr pre sigs).1, (openpgpLoop b64 v hdr pre sigs).2,
        (openpgpLoop b64 v hdr pre sigs).2.map echoOf) := by
  induction sigs generalizing pre ech with
  | nil => simp [openpgpLoopE, openpgpLoop, he]
  | cons s rest ih =>
    simp only [openpgpLoopE, openpgpLoop]
    cases hb : b64 s with
    | none => simp [he]
    | some x =>
      simp only [echoSignature_eq]
      cases hv : v pre hdr x
      · simp [echoOf, he]
      · simp only [if_true]
        exact ih _ _ (by simp [he, echoOf])

theorem runConsultsE_eq (v : Verifier) (pre : List Consult) (ech : List (Nat × Bytes)) (l : List (Bytes × Bytes × Bool))
    (he : ech = pre.map echoOf) :
    runConsultsE v pre ech l = ((runConsults v pre l).1, (runConsults v pre l).2, (runConsults v pre l).2.map echoOf) := by
  induction l generalizing pre ech with
  | nil => simp [runConsultsE, runConsults, he]
  | cons x rest ih =>
    obtain ⟨d, s, g⟩ := x
    simp only [runConsultsE, runConsults, echoSignature_eq]
    cases hv : v pre d s
    · simp [echoOf, he]
    · simp only [if_true]
      exact ih _ _ (by simp [he, echoOf])

/-- **`verify_signature` with the `echo_signature` calls in = without them**: same result, same consult log; what the
Debug logger is handed is, per consult and in order, the signature's length and its first `echoPrefixLen` bytes -/
theorem verifySignatureSE_eq (md5 sha1 sha256 : Bytes → Bytes) (b64 : Bytes → Option Bytes) (v : Verifier) (p : Package) :
    verifySignatureSE md5 sha1 sha256 b64 v p =
      ((verifySignatureS md5 sha1 sha256 b64 v p).1, (verifySignatureS md5 sha1 sha256 b64 v p).2,
        (verifySignatureS md5 sha1 sha256 b64 v p).2.map echoOf) := by
  unfold verifySignatureSE verifySignatureS
  cases verifyDigests md5 sha1 sha256 p with
  | err c => rfl
  | panic s => rfl
  | ok u =>
    simp only
    cases getStringArray p.md.signature SigTag.RPMSIGTAG_OPENPGP with
    | ok sigs =>
      simp only
      split
      · rfl
      · exact openpgpLoopE_eq b64 v _ [] [] sigs rfl
    | err c =>
      simp only [legacy]
      split
      · rfl
      · exact runConsultsE_eq v [] [] _ rfl
    | panic s =>
      simp only [legacy]
      split
      · rfl
      · exact runConsultsE_eq v [] [] _ rfl

end RpmVerif.Verify
