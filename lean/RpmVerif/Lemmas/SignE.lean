import RpmVerif.Model.SignE
import RpmVerif.Lemmas.Sign
/-! Lemmas for the signing side with failures (`Model/SignE.lean`): the scraped tables, `SignatureHeaderBuilder::build`
as a fallible function, single steps of `sign_with_timestamp`, and histories with failing attempts as histories of
their effective operations. -/
namespace RpmVerif.Sign
open RpmVerif.Hdr RpmVerif.Gen RpmVerif.Gen.SigAlgs RpmVerif.AddData

/-! ### table look-ups -/

theorem lookup_mem {α β} [BEq α] [LawfulBEq α] {l : List (α × β)} {k : α} {v : β} (h : l.lookup k = some v) :
    (k, v) ∈ l := by
  induction l with
  | nil => cases h
  | cons x xs ih =>
    obtain ⟨a, b⟩ := x
    simp only [List.lookup] at h
    split at h
    · rename_i he; cases h; have := eq_of_beq he; subst this; simp
    · exact List.mem_cons_of_mem _ (ih h)

/-- every arm of the `match` in `SignatureHeaderBuilder::build` selects the RSA or the DSA legacy tag -/
theorem legacyTagOf_mem_range {a t : Nat} (h : legacyTagOf a = some t) :
    t = SigTag.RPMSIGTAG_RSA ∨ t = SigTag.RPMSIGTAG_DSA := by
  have key : ∀ p ∈ buildLegacyArms, p.2 = SigTag.RPMSIGTAG_RSA ∨ p.2 = SigTag.RPMSIGTAG_DSA := by decide
  exact key _ (lookup_mem h)

theorem toPgp_lookup (a : AlgorithmType) : toPgpArms.lookup a = some (toPgp a) := by
  cases a <;> decide

theorem signerLegacyTag_some (a : AlgorithmType) : legacyTagOf (toPgp a) = some (signerLegacyTag a) := by
  cases a <;> decide

theorem signerLegacyTag_range (a : AlgorithmType) :
    signerLegacyTag a = SigTag.RPMSIGTAG_RSA ∨ signerLegacyTag a = SigTag.RPMSIGTAG_DSA :=
  legacyTagOf_mem_range (signerLegacyTag_some a)

/-! ### `SignatureHeaderBuilder::build` -/

variable {S : SigScheme} {pubAlg : Bytes → Option Nat} {sha256 : Bytes → Bytes}

theorem sigTriples_not_panic (b64enc : Bytes → Bytes) (sigs : List Bytes) :
    (sigTriples pubAlg b64enc sigs).isPanic = false := by
  induction sigs with
  | nil => rfl
  | cons s rest ih =>
    simp only [sigTriples]
    split
    · rfl
    · split
      · rfl
      · exact Out.bind_not_panic ih (fun _ _ => rfl)

theorem sigBuilderBuild_not_panic (b64enc : Bytes → Bytes) (sigs : List Bytes) (sha : Option Bytes) :
    (sigBuilderBuild pubAlg b64enc sigs sha).isPanic = false :=
  Out.bind_not_panic (sigTriples_not_panic b64enc sigs) (fun _ _ => rfl)

/-- what the loop of `build` returns: per signature, in order, a tag some arm selects, the bytes, their base64 text -/
theorem sigTriples_spec (b64enc : Bytes → Bytes) : ∀ (sigs : List Bytes) (tr : List (Nat × Bytes × Bytes)),
    sigTriples pubAlg b64enc sigs = .ok tr →
    tr.map (·.2.1) = sigs ∧ ∀ x ∈ tr, (∃ a, pubAlg x.2.1 = some a ∧ legacyTagOf a = some x.1) ∧ x.2.2 = b64enc x.2.1 := by
  intro sigs
  induction sigs with
  | nil => intro tr h; simp only [sigTriples, Out.ok.injEq] at h; subst h; simp
  | cons s rest ih =>
    intro tr h
    simp only [sigTriples] at h
    split at h
    · cases h
    · rename_i a ha
      split at h
      · cases h
      · rename_i tag htag
        obtain ⟨more, hm, hr⟩ := Out.bind_eq_ok.mp h
        simp only [Out.pure_eq, Out.ok.injEq] at hr
        subst hr
        obtain ⟨h1, h2⟩ := ih more hm
        refine ⟨by simp [h1], ?_⟩
        intro x hx
        simp only [List.mem_cons] at hx
        rcases hx with rfl | hx
        · exact ⟨⟨a, ha, htag⟩, rfl⟩
        · exact h2 x hx

theorem sigBuilderBuild_ok {b64enc : Bytes → Bytes} {sigs : List Bytes} {sha : Option Bytes} {h : Header}
    (hb : sigBuilderBuild pubAlg b64enc sigs sha = .ok h) :
    ∃ tr, sigTriples pubAlg b64enc sigs = .ok tr ∧ h = Bld.signatureHeader tr sha := by
  obtain ⟨tr, h1, h2⟩ := Out.bind_eq_ok.mp hb
  simp only [Out.pure_eq, Out.ok.injEq] at h2
  exact ⟨tr, h1, h2.symm⟩

theorem sigBuild_one_ok {sig : Bytes} {a tag : Nat} (b64enc : Bytes → Bytes) (d : Bytes) (h1 : pubAlg sig = some a)
    (h2 : legacyTagOf a = some tag) :
    sigBuilderBuild pubAlg b64enc [sig] (some d) = .ok (Bld.signatureHeader [(tag, sig, b64enc sig)] (some d)) := by
  simp [sigBuilderBuild, sigTriples, h1, h2]

theorem sigBuild_one_nosig {sig : Bytes} (b64enc : Bytes → Bytes) (d : Bytes) (h : pubAlg sig = none) :
    sigBuilderBuild pubAlg b64enc [sig] (some d) = .err "NoSignatureFound" := by
  simp [sigBuilderBuild, sigTriples, h]

theorem sigBuild_one_unsupported {sig : Bytes} {a : Nat} (b64enc : Bytes → Bytes) (d : Bytes) (h1 : pubAlg sig = some a)
    (h2 : legacyTagOf a = none) :
    sigBuilderBuild pubAlg b64enc [sig] (some d) = .err "UnsupportedPGPKeyType" := by
  simp [sigBuilderBuild, sigTriples, h1, h2]

theorem sigBuild_one_rejects {sig : Bytes} (b64enc : Bytes → Bytes) (d : Bytes) (h : BuildRejects pubAlg sig) :
    ∃ c, sigBuilderBuild pubAlg b64enc [sig] (some d) = .err c := by
  rcases h with h | ⟨a, h1, h2⟩
  · exact ⟨_, sigBuild_one_nosig b64enc d h⟩
  · exact ⟨_, sigBuild_one_unsupported b64enc d h1 h2⟩

/-! ### one call of `sign_with_timestamp` / `sign` -/

theorem signOpE_key (ha : AlgOk S pubAlg) {t : TsArg} {n : Nat} (ht : timestampSetter t = .ok n) (k : S.Key) (p : Package) :
    signOpE S pubAlg sha256 ((SignerE.key k).sign S) t p = .ok (signOp S sha256 k n p) := by
  obtain ⟨a, h1, h2⟩ := ha k (writeHeader p.md.header) n
  simp only [signOpE, ht, Out.bind_ok, SignerE.sign, sigBuild_one_ok S.b64enc _ h1 h2]
  rfl

theorem signOpE_failing {t : TsArg} {n : Nat} (ht : timestampSetter t = .ok n) (c : String) (p : Package) :
    signOpE S pubAlg sha256 ((SignerE.failing c).sign S) t p = .err c := by
  simp only [signOpE, ht, Out.bind_ok, SignerE.sign, Out.bind_err]

theorem signOpE_raw_rejected {t : TsArg} {n : Nat} (ht : timestampSetter t = .ok n) {s : Bytes}
    (hr : BuildRejects pubAlg s) (p : Package) :
    ∃ c, signOpE S pubAlg sha256 ((SignerE.raw s).sign S) t p = .err c := by
  obtain ⟨c, hc⟩ := sigBuild_one_rejects S.b64enc (shaHex sha256 (writeHeader p.md.header)) hr
  exact ⟨c, by simp only [signOpE, ht, Out.bind_ok, SignerE.sign, hc, Out.bind_err]⟩

theorem signNowE_ok {c : Timestamp.Instant} {n : Nat} (h : Timestamp.now c = .ok n) (signer : Bytes → Nat → Out Bytes)
    (p : Package) :
    signNowE S pubAlg sha256 signer c p = signOpE S pubAlg sha256 signer (.secs n) p := by
  simp only [signNowE, h, Timestamp.Conv.toOut, Out.bind_ok]

theorem SignerE.sign_not_panic (sg : SignerE S.Key) (m : Bytes) (n : Nat) : (sg.sign S m n).isPanic = false := by
  cases sg <;> rfl

/-! ### quiet attempts: no panic, no foreign signature that `build` accepts -/

/-- the timestamp argument converts (`try_into().unwrap()` does not panic) -/
def TsOk (t : TsArg) : Prop := ∃ n, timestampSetter t = .ok n
/-- `Timestamp::now()` does not panic for this reading of the clock -/
def NowOk (c : Timestamp.Instant) : Prop := ∃ n, Timestamp.now c = .ok n

def SignerE.Quiet {K : Type} (pubAlg : Bytes → Option Nat) : SignerE K → Prop
  | .raw s => BuildRejects pubAlg s
  | _ => True

def OpF.Quiet {K : Type} (pubAlg : Bytes → Option Nat) : OpF K → Prop
  | .sign sg t => TsOk t ∧ sg.Quiet pubAlg
  | .signNow sg c => NowOk c ∧ sg.Quiet pubAlg
  | _ => True

/-- a quiet step is the step of `Model/Sign.lean` it amounts to, or no step at all — on ANY package -/
theorem stepF_quiet (ha : AlgOk S pubAlg) (o : OpF S.Key) (hq : o.Quiet pubAlg) (p : Package) :
    stepF S pubAlg sha256 o p = match o.effective with
      | some o' => step S sha256 o' p
      | none => .ok p := by
  cases o with
  | writeParse => rfl
  | clear => rfl
  | sign sg t =>
    obtain ⟨⟨n, ht⟩, hsg⟩ := hq
    cases sg with
    | key k => simp only [stepF, attemptF, signOpE_key ha ht, settle, OpF.effective, ht, step]
    | failing c => simp only [stepF, attemptF, signOpE_failing ht, settle, OpF.effective]
    | raw s =>
      obtain ⟨c, hc⟩ := signOpE_raw_rejected (S := S) (sha256 := sha256) ht hsg p
      simp only [stepF, attemptF, hc, settle, OpF.effective]
  | signNow sg c =>
    obtain ⟨⟨n, ht⟩, hsg⟩ := hq
    have hs : timestampSetter (.secs n) = .ok n := rfl
    cases sg with
    | key k => simp only [stepF, attemptF, signNowE_ok ht, signOpE_key ha hs, settle, OpF.effective, ht, step]
    | failing c => simp only [stepF, attemptF, signNowE_ok ht, signOpE_failing hs, settle, OpF.effective]
    | raw s =>
      obtain ⟨c, hc⟩ := signOpE_raw_rejected (S := S) (sha256 := sha256) hs hsg p
      simp only [stepF, attemptF, signNowE_ok ht, hc, settle, OpF.effective]

/-- a history with failing attempts is the history of its effective operations (any start package) -/
theorem runF_quiet (ha : AlgOk S pubAlg) (ops : List (OpF S.Key)) (hq : ∀ o ∈ ops, o.Quiet pubAlg) (p : Package) :
    runF S pubAlg sha256 ops p = run S sha256 (effectiveOps ops) p := by
  induction ops generalizing p with
  | nil => rfl
  | cons o os ih =>
    have hq' : ∀ o ∈ os, o.Quiet pubAlg := fun x hx => hq x (List.mem_cons_of_mem _ hx)
    simp only [runF, stepF_quiet ha o (hq o (List.mem_cons_self ..)) p, effectiveOps, List.filterMap_cons]
    cases o.effective with
    | none => simp only [Out.bind_ok]; exact ih hq' p
    | some o' =>
      simp only [run]
      cases step S sha256 o' p with
      | ok q => simp only [Out.bind_ok]; exact ih hq' q
      | err c => rfl
      | panic c => rfl

theorem runF_append (ops1 ops2 : List (OpF S.Key)) (p : Package) :
    runF S pubAlg sha256 (ops1 ++ ops2) p = runF S pubAlg sha256 ops1 p >>= runF S pubAlg sha256 ops2 := by
  induction ops1 generalizing p with
  | nil => rfl
  | cons o os ih =>
    simp only [List.cons_append, runF]
    cases stepF S pubAlg sha256 o p with
    | ok q => simp only [Out.bind_ok]; exact ih q
    | err c => rfl
    | panic c => rfl

/-- the tag hypothesis of `Model/Sign.lean` follows from the source table -/
theorem legacyOk_of_algOk (ha : AlgOk S pubAlg) : S.LegacyOk := by
  intro k
  obtain ⟨a, _, h2⟩ := ha k [] 0
  exact legacyTagOf_mem_range h2

/-! ### `pgp::Signer` spelled out -/

theorem chronoTimestampOpt_u32 {t : Nat} (h : t < 4294967296) : chronoTimestampOpt t 0 = some ((t : Int), 0) := by
  unfold chronoTimestampOpt chronoMinSecs chronoMaxSecs
  rw [if_pos (by omega)]

theorem mkConfig_issuers (a : AlgorithmType) (kid fp : Bytes) (t : Int) : (mkConfig a kid fp t).issuers = [kid] := rfl
theorem mkConfig_fingerprints (a : AlgorithmType) (kid fp : Bytes) (t : Int) : (mkConfig a kid fp t).fingerprints = [fp] := rfl
theorem mkConfig_created (a : AlgorithmType) (kid fp : Bytes) (t : Int) : (mkConfig a kid fp t).created = some t := rfl
theorem mkConfig_pubAlg (a : AlgorithmType) (kid fp : Bytes) (t : Int) : (mkConfig a kid fp t).pubAlg = toPgp a := rfl

theorem PgpScheme.algOk (P : PgpScheme) (hp : P.ParseSeal) : AlgOk P.toSigScheme P.pubAlg := by
  intro (k : P.Key) m t
  have h := hp k m t
  refine ⟨toPgp (P.alg k), ?_, signerLegacyTag_some _⟩
  show Option.map (·.pubAlg) (P.parse (P.sealSig k m (P.configOf k t))) = _
  rw [h]; rfl

theorem PgpScheme.legacyOk (P : PgpScheme) : P.toSigScheme.LegacyOk := fun k => signerLegacyTag_range (P.alg k)

theorem PgpScheme.issuerOk (P : PgpScheme) (hp : P.ParseSeal) : P.toSigScheme.IssuerOk := by
  intro (k : P.Key) m t
  have h := hp k m t
  show Option.map (·.issuers) (P.parse (P.sealSig k m (P.configOf k t))) = _
  rw [h]; rfl

end RpmVerif.Sign

/-! ### the symbolic scheme -/
namespace RpmVerif.Sign.Sym
open RpmVerif.Gen RpmVerif.Gen.SigAlgs

theorem algOf_tag (k : UInt8) :
    legacyTagOf (toPgp (algOf k)) = some (if k < 2 then SigTag.RPMSIGTAG_RSA else SigTag.RPMSIGTAG_DSA) := by
  unfold algOf
  split
  · decide
  · split <;> decide

theorem algOk (ids : UInt8 → Bytes) : AlgOk (scheme ids) pubAlg := by
  intro (k : UInt8) m t
  have h := signerOf_sign k m t
  refine ⟨toPgp (algOf k), ?_, algOf_tag k⟩
  show Option.map (fun k => toPgp (algOf k)) (signerOf (sign k m t)) = _
  rw [h]; rfl

end RpmVerif.Sign.Sym
