import RpmVerif.Lemmas.RustStr
import RpmVerif.Lemmas.Sign
import RpmVerif.Model.Builder
/-!
# From the builder STATE to `C06.Valid`: every record canonical, the header below 2 GiB (audit items a4 / c17)

`C06.Valid x := RecsOk (recordsOf x) …` is a predicate on the model's own OUTPUT. This file derives it from conditions on
the INPUT of `prepare_data`, the builder state `Cfg`:

* `CfgOk c`: every string is a NUL-free Rust string (`RustStr`: valid UTF-8 by the type `String`, so only "no NUL" is a real
  condition), every number has the width of its Rust type (`u32` epoch / flags / times, `u16` mode), the `u64` size sum did
  not overflow, the large-file limit is at most `u32::MAX`;
* a bound on `cfgWeight c` — the total length of the strings plus a constant per file / dependency / changelog entry.

Route: each of the 102 slots of `Bld.slots` emits canonical data of at most `slotBound x` bytes (`slots_ok`, by slot family),
so `Sign.fromEntries_store_le` bounds the store by `102 * (slotBound x + 8) + 16`.
-/
set_option linter.unusedSectionVars false
set_option linter.unusedVariables false
namespace RpmVerif.Bld
open RpmVerif.Hdr RpmVerif.Gen

/-! ## sums -/

theorem sum_map_le {α} (l : List α) (f g : α → Nat) (h : ∀ a ∈ l, f a ≤ g a) : (l.map f).sum ≤ (l.map g).sum := by
  induction l with
  | nil => simp
  | cons a r ih =>
    simp only [List.map_cons, List.sum_cons]
    have := h a (by simp)
    have := ih (fun b hb => h b (by simp [hb]))
    omega

theorem sum_map_const {α} (l : List α) (k : Nat) : (l.map (fun _ => k)).sum = k * l.length := by
  induction l with
  | nil => simp
  | cons a r ih => simp only [List.map_cons, List.sum_cons, List.length_cons, ih]; rw [Nat.mul_succ]; omega

theorem sum_map_add {α} (l : List α) (f g : α → Nat) : (l.map (fun a => f a + g a)).sum = (l.map f).sum + (l.map g).sum := by
  induction l with
  | nil => simp
  | cons a r ih => simp only [List.map_cons, List.sum_cons, ih]; omega

theorem length_le_sum {α} (l : List α) (f : α → Nat) (h : ∀ a ∈ l, 1 ≤ f a) : l.length ≤ (l.map f).sum := by
  have := sum_map_le l (fun _ => 1) f h
  rw [sum_map_const] at this; omega

theorem sublist_sum_le {l₁ l₂ : List Nat} (h : l₁.Sublist l₂) : l₁.sum ≤ l₂.sum := by
  induction h with
  | slnil => simp
  | cons a _ ih => simp only [List.sum_cons]; omega
  | cons_cons a _ ih => simp only [List.sum_cons]; omega

theorem eraseDups_sublist {α} [BEq α] : ∀ (l : List α), l.eraseDups.Sublist l := by
  intro l
  induction hn : l.length using Nat.strongRecOn generalizing l with
  | _ n ih =>
    cases l with
    | nil => simp
    | cons a as =>
      rw [List.eraseDups_cons]
      refine List.Sublist.cons_cons a ?_
      have hl : (as.filter (fun b => !b == a)).length < n := by
        have := List.length_filter_le (fun b => !b == a) as
        simp only [List.length_cons] at hn; omega
      exact (ih _ hl _ rfl).trans List.filter_sublist

/-! ## encodings -/

def strW (s : Bytes) : Nat := s.length + 1
def strsW (l : List Bytes) : Nat := (l.map strW).sum

theorem enc_strs_length (l : List Bytes) : ((l.map (· ++ [0])).flatten).length = strsW l := by
  induction l with
  | nil => rfl
  | cons s r ih => simp only [List.map_cons, List.flatten_cons, List.length_append, ih, strsW, List.sum_cons, strW]; simp

theorem enc_be32_length (l : List Nat) : ((l.map be32).flatten).length = 4 * l.length := by
  induction l with
  | nil => rfl
  | cons s r ih => simp only [List.map_cons, List.flatten_cons, List.length_append, ih, be32_length, List.length_cons]; omega
theorem enc_be16_length (l : List Nat) : ((l.map be16).flatten).length = 2 * l.length := by
  induction l with
  | nil => rfl
  | cons s r ih => simp only [List.map_cons, List.flatten_cons, List.length_append, ih, List.length_cons]; simp [be16]; omega
theorem enc_be64_length (l : List Nat) : ((l.map be64).flatten).length = 8 * l.length := by
  induction l with
  | nil => rfl
  | cons s r ih => simp only [List.map_cons, List.flatten_cons, List.length_append, ih, List.length_cons]; simp [be64, be32_length]; omega

theorem strsW_map_le {α} (l : List α) (f : α → Bytes) (g : α → Nat) (h : ∀ a ∈ l, strW (f a) ≤ g a) :
    strsW (l.map f) ≤ (l.map g).sum := by
  unfold strsW; rw [List.map_map]; exact sum_map_le l _ g h

/-! ## decimal text -/
theorem decDigits_ascii (fuel n : Nat) : ∀ b ∈ decDigits fuel n, b < 0x80 ∧ b ≠ 0 := by
  induction fuel generalizing n with
  | zero => intro b hb; simp [decDigits] at hb
  | succ f ih =>
    intro b hb
    simp only [decDigits] at hb
    have digit : ∀ d, d < 10 → ((48 + d).toUInt8 < 0x80 ∧ (48 + d).toUInt8 ≠ 0) := by
      intro d hd
      have : d = 0 ∨ d = 1 ∨ d = 2 ∨ d = 3 ∨ d = 4 ∨ d = 5 ∨ d = 6 ∨ d = 7 ∨ d = 8 ∨ d = 9 := by omega
      rcases this with rfl | rfl | rfl | rfl | rfl | rfl | rfl | rfl | rfl | rfl <;> decide
    split at hb
    · simp only [List.mem_singleton] at hb; subst hb; exact digit n (by omega)
    · rcases List.mem_append.mp hb with hb | hb
      · exact ih _ b hb
      · simp only [List.mem_singleton] at hb; subst hb; exact digit _ (Nat.mod_lt _ (by decide))

theorem decDigits_length (fuel n : Nat) : (decDigits fuel n).length ≤ fuel := by
  induction fuel generalizing n with
  | zero => simp [decDigits]
  | succ f ih =>
    simp only [decDigits]
    split
    · simp
    · simp only [List.length_append, List.length_cons, List.length_nil]; have := ih (n / 10); omega

theorem natDec_rustStr (n : Nat) : RustStr (natDec n) := rustStr_ascii _ (decDigits_ascii 40 n)
theorem natDec_length (n : Nat) : (natDec n).length ≤ 40 := decDigits_length 40 n
theorem intDec_rustStr (z : Int) : RustStr (intDec z) := by
  unfold intDec
  split
  · exact RustStr.append (a := [45]) (rustStr_ascii _ (by decide)) (natDec_rustStr _)
  · exact natDec_rustStr _
theorem intDec_length (z : Int) : (intDec z).length ≤ 41 := by
  unfold intDec
  split
  · simp only [List.length_cons]; have := natDec_length z.natAbs; omega
  · have := natDec_length z.toNat; omega

/-! ## what is asked of the builder state, and its weight -/

structure DepOk (d : Dep) : Prop where
  name : RustStr d.name
  version : RustStr d.version
  flags : d.flags < 4294967296

structure ScriptOk (s : Scriptlet) : Prop where
  script : RustStr s.script
  flags : ∀ f, s.flags = some f → f < 4294967296
  prog : ∀ p, s.prog = some p → ∀ a ∈ p, RustStr a

structure FileOk (f : FileE) : Prop where
  baseName : RustStr f.baseName
  user : RustStr f.user
  group : RustStr f.group
  link : RustStr f.link
  caps : ∀ c, f.caps = some c → RustStr c
  shaHex : RustStr f.shaHex
  mode : f.mode < 65536
  flags : f.flags < 4294967296
  verifyFlags : f.verifyFlags < 4294967296
  mtime : f.mtime < 4294967296

def optW : Option Bytes → Nat
  | some s => strW s
  | none => 0
def depW (d : Dep) : Nat := strW d.name + strW d.version + 4
def depsW (l : List Dep) : Nat := (l.map depW).sum
def scriptW : Option Scriptlet → Nat
  | some s => strW s.script + 4 + (match s.prog with | some p => strsW p | none => 0)
  | none => 0
/-- at least what one file adds to ANY single record: its strings (the owner also inside `user(..)` / `group(..)`), 8 bytes
of a 64-bit size -/
def fileW (f : FileE) : Nat :=
  f.baseName.length + f.user.length + f.group.length + f.link.length + f.shaHex.length + optW f.caps + 32
def changelogW (l : List (Bytes × Bytes × Nat)) : Nat := (l.map fun e => strW e.1 + strW e.2.1 + 4).sum

/-- the size of the builder state: every string once (with its terminator), a constant per file / dependency / changelog
entry -/
def cfgWeight (c : Cfg) : Nat :=
  strW c.name + strW c.version + strW c.release + strW c.license + strW c.arch + strW c.summary +
  optW c.desc + optW c.vendor + optW c.packager + optW c.group + optW c.url + optW c.vcs + optW c.cookie + optW c.buildHost +
  (c.files.map fileW).sum + strsW c.directories +
  depsW c.provides + depsW c.requires + depsW c.conflicts + depsW c.obsoletes + depsW c.recommends + depsW c.suggests +
  depsW c.enhances + depsW c.supplements +
  scriptW c.preIn + scriptW c.postIn + scriptW c.preUn + scriptW c.postUn + scriptW c.preTrans + scriptW c.postTrans +
  scriptW c.preUntrans + scriptW c.postUntrans + scriptW c.verify + changelogW c.changelog

structure CfgOk (c : Cfg) : Prop where
  name : RustStr c.name
  version : RustStr c.version
  release : RustStr c.release
  license : RustStr c.license
  arch : RustStr c.arch
  summary : RustStr c.summary
  epoch : c.epoch < 4294967296
  desc : ∀ s, c.desc = some s → RustStr s
  vendor : ∀ s, c.vendor = some s → RustStr s
  packager : ∀ s, c.packager = some s → RustStr s
  group : ∀ s, c.group = some s → RustStr s
  url : ∀ s, c.url = some s → RustStr s
  vcs : ∀ s, c.vcs = some s → RustStr s
  cookie : ∀ s, c.cookie = some s → RustStr s
  buildHost : ∀ s, c.buildHost = some s → RustStr s
  sourceDate : ∀ t, c.sourceDate = some t → t < 4294967296
  files : ∀ f ∈ c.files, FileOk f
  dirs : ∀ d ∈ c.directories, RustStr d
  provides : ∀ d ∈ c.provides, DepOk d
  requires : ∀ d ∈ c.requires, DepOk d
  conflicts : ∀ d ∈ c.conflicts, DepOk d
  obsoletes : ∀ d ∈ c.obsoletes, DepOk d
  recommends : ∀ d ∈ c.recommends, DepOk d
  suggests : ∀ d ∈ c.suggests, DepOk d
  enhances : ∀ d ∈ c.enhances, DepOk d
  supplements : ∀ d ∈ c.supplements, DepOk d
  preIn : ∀ s, c.preIn = some s → ScriptOk s
  postIn : ∀ s, c.postIn = some s → ScriptOk s
  preUn : ∀ s, c.preUn = some s → ScriptOk s
  postUn : ∀ s, c.postUn = some s → ScriptOk s
  preTrans : ∀ s, c.preTrans = some s → ScriptOk s
  postTrans : ∀ s, c.postTrans = some s → ScriptOk s
  preUntrans : ∀ s, c.preUntrans = some s → ScriptOk s
  postUntrans : ∀ s, c.postUntrans = some s → ScriptOk s
  verify : ∀ s, c.verify = some s → ScriptOk s
  changelog : ∀ e ∈ c.changelog, RustStr e.1 ∧ RustStr e.2.1 ∧ e.2.2 < 4294967296
  /-- the large-file limit is at most `u32::MAX` (it is `u32::MAX`; only the verification hook moves it) -/
  threshold : c.largeFileThreshold ≤ 4294967295
  /-- the `u64` sum of the sizes did not overflow -/
  total : combinedSize c < 18446744073709551616

/-! ## one record: canonical, and no longer than `W` -/

/-- a slot emits canonical data of at most `W` bytes (or nothing) -/
def SlotOk (x : Ctx) (W : Nat) (s : Slot) : Prop := ∀ d, s.2 x = some d → d.Canon ∧ d.enc.length ≤ W

theorem slotOk_always {x : Ctx} {W tag : Nat} {f : Ctx → IndexData} (h : (f x).Canon ∧ (f x).enc.length ≤ W) :
    SlotOk x W (tag, always f) := by
  intro d hd; simp only [always, Option.some.injEq] at hd; subst hd; exact h

theorem slotOk_whenFiles {x : Ctx} {W tag : Nat} {f : Ctx → IndexData}
    (h : x.c.files.isEmpty = false → (f x).Canon ∧ (f x).enc.length ≤ W) : SlotOk x W (tag, whenFiles f) := by
  intro d hd
  simp only [whenFiles] at hd
  split at hd
  · cases hd
  · rename_i hne; simp only [Option.some.injEq] at hd; subst hd; exact h (by simpa using hne)

theorem slotOk_optS {x : Ctx} {W tag : Nat} {f : Cfg → Option Bytes} (h : ∀ s, f x.c = some s → RustStr s ∧ strW s ≤ W) :
    SlotOk x W (tag, optS f) := by
  intro d hd
  simp only [optS, Option.map_eq_some_iff] at hd
  obtain ⟨s, hs, rfl⟩ := hd
  obtain ⟨h1, h2⟩ := h s hs
  exact ⟨h1.strOk, by simpa [IndexData.enc, strW] using h2⟩

theorem canon_str {s : Bytes} {W : Nat} (h : RustStr s) (hw : strW s ≤ W) : (IndexData.str s).Canon ∧ (IndexData.str s).enc.length ≤ W :=
  ⟨h.strOk, by simpa [IndexData.enc, strW] using hw⟩

theorem canon_strArray {l : List Bytes} {W : Nat} (h : ∀ s ∈ l, RustStr s) (hw : strsW l ≤ W) (hW : W < 4294967296) :
    (IndexData.strArray l).Canon ∧ (IndexData.strArray l).enc.length ≤ W := by
  have hl : l.length ≤ strsW l := length_le_sum l strW (fun a _ => by simp [strW])
  exact ⟨⟨by omega, fun s hs => (h s hs).strOk⟩, by simp only [IndexData.enc, enc_strs_length]; exact hw⟩

theorem canon_i18n {l : List Bytes} {W : Nat} (h : ∀ s ∈ l, RustStr s) (hw : strsW l ≤ W) (hW : W < 4294967296) :
    (IndexData.i18n l).Canon ∧ (IndexData.i18n l).enc.length ≤ W := by
  have hl : l.length ≤ strsW l := length_le_sum l strW (fun a _ => by simp [strW])
  exact ⟨⟨by omega, fun s hs => (h s hs).strOk⟩, by simp only [IndexData.enc, enc_strs_length]; exact hw⟩

theorem canon_int32 {l : List Nat} {W : Nat} (h : ∀ v ∈ l, v < 4294967296) (hw : 4 * l.length ≤ W) (hW : W < 4294967296) :
    (IndexData.int32 l).Canon ∧ (IndexData.int32 l).enc.length ≤ W :=
  ⟨⟨by omega, h⟩, by simp only [IndexData.enc, enc_be32_length]; exact hw⟩

theorem canon_int16 {l : List Nat} {W : Nat} (h : ∀ v ∈ l, v < 65536) (hw : 2 * l.length ≤ W) (hW : W < 4294967296) :
    (IndexData.int16 l).Canon ∧ (IndexData.int16 l).enc.length ≤ W :=
  ⟨⟨by omega, h⟩, by simp only [IndexData.enc, enc_be16_length]; exact hw⟩

theorem canon_int64 {l : List Nat} {W : Nat} (h : ∀ v ∈ l, v < 18446744073709551616) (hw : 8 * l.length ≤ W) (hW : W < 4294967296) :
    (IndexData.int64 l).Canon ∧ (IndexData.int64 l).enc.length ≤ W :=
  ⟨⟨by omega, h⟩, by simp only [IndexData.enc, enc_be64_length]; exact hw⟩

/-- the three records of one dependency kind -/
theorem slotOk_deps {x : Ctx} {W n v f : Nat} {g : Ctx → List Dep} {al : Bool} (hd : ∀ d ∈ g x, DepOk d) (hw : depsW (g x) ≤ W)
    (hW : W < 4294967296) : ∀ s ∈ depSlots n v f g al, SlotOk x W s := by
  have hlen : (g x).length ≤ depsW (g x) := length_le_sum _ depW (fun a _ => by simp [depW])
  have hn : strsW ((g x).map (·.name)) ≤ depsW (g x) := strsW_map_le _ _ _ (fun a _ => by simp only [depW]; omega)
  have hv : strsW ((g x).map (·.version)) ≤ depsW (g x) := strsW_map_le _ _ _ (fun a _ => by simp only [depW]; omega)
  have h4 : 4 * (g x).length ≤ depsW (g x) := by
    have := sum_map_le (g x) (fun _ => 4) depW (fun a _ => by simp [depW])
    rw [sum_map_const] at this; exact this
  intro s hs
  simp only [depSlots, List.mem_cons, List.not_mem_nil, or_false] at hs
  rcases hs with rfl | rfl | rfl <;> intro d hdd
  · simp only [depNames] at hdd; split at hdd
    · cases hdd
    · simp only [Option.some.injEq] at hdd; subst hdd
      exact canon_strArray (fun s hs => by obtain ⟨d, hd', rfl⟩ := List.mem_map.mp hs; exact (hd d hd').name) (by omega) hW
  · simp only [depVersions] at hdd; split at hdd
    · cases hdd
    · simp only [Option.some.injEq] at hdd; subst hdd
      exact canon_strArray (fun s hs => by obtain ⟨d, hd', rfl⟩ := List.mem_map.mp hs; exact (hd d hd').version) (by omega) hW
  · simp only [depFlags] at hdd; split at hdd
    · cases hdd
    · simp only [Option.some.injEq] at hdd; subst hdd
      exact canon_int32 (fun s hs => by obtain ⟨d, hd', rfl⟩ := List.mem_map.mp hs; exact (hd d hd').flags)
        (by simp only [List.length_map]; omega) hW

/-- the three records of one scriptlet -/
theorem slotOk_script {x : Ctx} {W a b c : Nat} {g : Cfg → Option Scriptlet} (hs : ∀ s, g x.c = some s → ScriptOk s)
    (hw : scriptW (g x.c) ≤ W) (hW : W < 4294967296) : ∀ s ∈ scriptSlots a b c g, SlotOk x W s := by
  intro s hm
  simp only [scriptSlots, List.mem_cons, List.not_mem_nil, or_false] at hm
  rcases hm with rfl | rfl | rfl <;> intro d hdd
  · simp only [scrScript, Option.map_eq_some_iff] at hdd
    obtain ⟨sc, hsc, rfl⟩ := hdd
    rw [hsc] at hw
    exact canon_str (hs sc hsc).script (by simp only [scriptW] at hw; omega)
  · simp only [scrFlags, Option.bind_eq_some_iff, Option.map_eq_some_iff] at hdd
    obtain ⟨sc, hsc, fl, hfl, rfl⟩ := hdd
    rw [hsc] at hw
    exact canon_int32 (by intro v hv; rw [List.mem_singleton.mp hv]; exact (hs sc hsc).flags fl hfl)
      (by simp only [scriptW, List.length_singleton] at hw ⊢; omega) hW
  · simp only [scrProg, Option.bind_eq_some_iff] at hdd
    obtain ⟨sc, hsc, p, hp, hd⟩ := hdd
    split at hd
    · cases hd
    · simp only [Option.some.injEq] at hd; subst hd
      rw [hsc] at hw
      exact canon_strArray ((hs sc hsc).prog p hp) (by simp only [scriptW, hp] at hw; omega) hW


/-! ## the dependencies the library adds -/

theorem mem_sortedDedup {l : List Bytes} {u : Bytes} (h : u ∈ sortedDedup l) : u ∈ l :=
  List.mem_mergeSort.mp ((eraseDups_sublist _).subset h)

theorem sortedDedup_sum_le (l : List Bytes) (f : Bytes → Nat) : ((sortedDedup l).map f).sum ≤ (l.map f).sum := by
  have h1 : ((sortedDedup l).map f).sum ≤ ((l.mergeSort (fun a b => decide (a ≤ b))).map f).sum :=
    sublist_sum_le ((eraseDups_sublist _).map f)
  have h2 : ((l.mergeSort (fun a b => decide (a ≤ b))).map f).sum = (l.map f).sum :=
    ((List.mergeSort_perm l _).map f).sum_nat
  omega

theorem filter_sum_le {α} (l : List α) (p : α → Bool) (f : α → Nat) : ((l.filter p).map f).sum ≤ (l.map f).sum :=
  sublist_sum_le (List.filter_sublist.map f)

theorem depsW_append (a b : List Dep) : depsW (a ++ b) = depsW a + depsW b := by simp [depsW]

theorem allProvides_ok {c : Cfg} (ok : CfgOk c) : ∀ d ∈ allProvides c, DepOk d := by
  intro d hd
  simp only [allProvides, List.mem_append, List.mem_cons, List.not_mem_nil, or_false] at hd
  rcases hd with hd | rfl | rfl
  · exact ok.provides d hd
  · exact ⟨ok.name, ok.version, by show DependencyFlags.EQUAL < 4294967296; decide⟩
  · refine ⟨?_, ok.version, by show DependencyFlags.EQUAL < 4294967296; decide⟩
    exact ((ok.name.append (rustStr_ascii [40] (by decide))).append ok.arch).append (rustStr_ascii [41] (by decide))

theorem allProvides_w (c : Cfg) : depsW (allProvides c) ≤ depsW c.provides + 2 * strW c.name + strW c.arch + 2 * strW c.version + 16 := by
  simp only [allProvides, depsW_append]
  simp only [depsW, depW, depEq, strW, List.map_cons, List.map_nil, List.sum_cons, List.sum_nil, List.length_append,
    List.length_cons, List.length_nil]
  omega

theorem rpmlib_ok (n v : Bytes) (hn : ∀ b ∈ n, b < 0x80 ∧ b ≠ 0) (hv : ∀ b ∈ v, b < 0x80 ∧ b ≠ 0) : DepOk (rpmlib n v) :=
  ⟨((rustStr_ascii [114, 112, 109, 108, 105, 98, 40] (by decide)).append (rustStr_ascii n hn)).append (rustStr_ascii [41] (by decide)),
   rustStr_ascii v hv, by show (DependencyFlags.RPMLIB ||| DependencyFlags.EQUAL) < 4294967296; decide⟩

theorem baseRequires_ok {c : Cfg} (ok : CfgOk c) : ∀ d ∈ baseRequires c, DepOk d := by
  intro d hd
  simp only [baseRequires, List.mem_append, List.mem_cons, List.not_mem_nil, or_false] at hd
  rcases hd with (((hd | rfl | rfl | rfl) | hd) | hd) | hd
  · exact ok.requires d hd
  · exact rpmlib_ok _ _ (by decide) (by decide)
  · exact rpmlib_ok _ _ (by decide) (by decide)
  · exact rpmlib_ok _ _ (by decide) (by decide)
  · split at hd <;> simp only [List.mem_cons, List.not_mem_nil, or_false] at hd <;>
      first | (subst hd; exact rpmlib_ok _ _ (by decide) (by decide)) | cases hd
  · split at hd <;> simp only [List.mem_cons, List.not_mem_nil, or_false] at hd <;>
      first | (subst hd; exact rpmlib_ok _ _ (by decide) (by decide)) | cases hd
  · split at hd <;> simp only [List.mem_cons, List.not_mem_nil, or_false] at hd <;>
      first | (subst hd; exact rpmlib_ok _ _ (by decide) (by decide)) | cases hd

theorem baseRequires_w (c : Cfg) : depsW (baseRequires c) ≤ depsW c.requires + 400 := by
  simp only [baseRequires, depsW_append]
  split <;> split <;> split <;>
    (simp only [depsW, depW, rpmlib, strW, List.map_cons, List.map_nil, List.sum_cons, List.sum_nil, List.length_append,
      List.length_cons, List.length_nil]; omega)

/-- one turn of the content-feature loop keeps the dependencies storable … -/
theorem pushFeature_ok {reqs : List Dep} {used : Bool} {f v : Bytes} (h : ∀ d ∈ reqs, DepOk d)
    (hf : ∀ b ∈ f, b < 0x80 ∧ b ≠ 0) (hv : ∀ b ∈ v, b < 0x80 ∧ b ≠ 0) : ∀ d ∈ pushFeature reqs used f v, DepOk d := by
  intro d hd
  unfold pushFeature at hd
  split at hd
  · rcases List.mem_append.mp hd with hd | hd
    · exact h d hd
    · rw [List.mem_singleton.mp hd]; exact rpmlib_ok f v hf hv
  · exact h d hd

/-- … and adds at most one `rpmlib(feature)` entry -/
theorem pushFeature_w (reqs : List Dep) (used : Bool) (f v : Bytes) :
    depsW (pushFeature reqs used f v) ≤ depsW reqs + (f.length + v.length + 14) := by
  unfold pushFeature
  split
  · simp only [depsW_append]
    simp only [depsW, depW, rpmlib, strW, List.map_cons, List.map_nil, List.sum_cons, List.sum_nil, List.length_append,
      List.length_cons, List.length_nil]
    omega
  · omega

theorem allRequires_ok {c : Cfg} (ok : CfgOk c) : ∀ d ∈ allRequires c, DepOk d := by
  unfold allRequires
  exact pushFeature_ok (pushFeature_ok (pushFeature_ok (pushFeature_ok (baseRequires_ok ok) (by decide) (by decide))
    (by decide) (by decide)) (by decide) (by decide)) (by decide) (by decide)

theorem allRequires_w (c : Cfg) : depsW (allRequires c) ≤ depsW c.requires + 700 := by
  unfold allRequires
  have h0 := baseRequires_w c
  have h1 := pushFeature_w (baseRequires c) (versionHas c 126) [84, 105, 108, 100, 101, 73, 110, 86, 101, 114, 115, 105, 111, 110, 115] [52, 46, 49, 48, 46, 48, 45, 49]
  have h2 := pushFeature_w (pushFeature (baseRequires c) (versionHas c 126) [84, 105, 108, 100, 101, 73, 110, 86, 101, 114, 115, 105, 111, 110, 115] [52, 46, 49, 48, 46, 48, 45, 49])
    (versionHas c 94) [67, 97, 114, 101, 116, 73, 110, 86, 101, 114, 115, 105, 111, 110, 115] [52, 46, 49, 53, 46, 48, 45, 49]
  have h3 := pushFeature_w (pushFeature (pushFeature (baseRequires c) (versionHas c 126) [84, 105, 108, 100, 101, 73, 110, 86, 101, 114, 115, 105, 111, 110, 115] [52, 46, 49, 48, 46, 48, 45, 49])
    (versionHas c 94) [67, 97, 114, 101, 116, 73, 110, 86, 101, 114, 115, 105, 111, 110, 115] [52, 46, 49, 53, 46, 48, 45, 49])
    (usesRichDeps c) [82, 105, 99, 104, 68, 101, 112, 101, 110, 100, 101, 110, 99, 105, 101, 115] [52, 46, 49, 50, 46, 48, 45, 49]
  have h4 := pushFeature_w (pushFeature (pushFeature (pushFeature (baseRequires c) (versionHas c 126) [84, 105, 108, 100, 101, 73, 110, 86, 101, 114, 115, 105, 111, 110, 115] [52, 46, 49, 48, 46, 48, 45, 49])
    (versionHas c 94) [67, 97, 114, 101, 116, 73, 110, 86, 101, 114, 115, 105, 111, 110, 115] [52, 46, 49, 53, 46, 48, 45, 49])
    (usesRichDeps c) [82, 105, 99, 104, 68, 101, 112, 101, 110, 100, 101, 110, 99, 105, 101, 115] [52, 46, 49, 50, 46, 48, 45, 49])
    (usesInterpArgs c) [83, 99, 114, 105, 112, 116, 108, 101, 116, 73, 110, 116, 101, 114, 112, 114, 101, 116, 101, 114, 65, 114, 103, 115] [52, 46, 48, 46, 51, 45, 49]
  simp only [List.length_cons, List.length_nil] at h1 h2 h3 h4
  omega

theorem allRecommends_ok {c : Cfg} (ok : CfgOk c) : ∀ d ∈ allRecommends c, DepOk d := by
  intro d hd
  simp only [allRecommends, List.mem_append, List.mem_map] at hd
  rcases hd with (hd | ⟨u, hu, rfl⟩) | ⟨g, hg, rfl⟩
  · exact ok.recommends d hd
  · have hm := List.mem_filter.mp (mem_sortedDedup hu)
    obtain ⟨f, hf, rfl⟩ := List.mem_map.mp hm.1
    exact ⟨((rustStr_ascii [117, 115, 101, 114, 40] (by decide)).append (ok.files f hf).user).append (rustStr_ascii [41] (by decide)),
      rustStr_nil, by show (DependencyFlags.SCRIPT_PRE ||| DependencyFlags.SCRIPT_POSTUN) < 4294967296; decide⟩
  · have hm := List.mem_filter.mp (mem_sortedDedup hg)
    obtain ⟨f, hf, rfl⟩ := List.mem_map.mp hm.1
    exact ⟨((rustStr_ascii [103, 114, 111, 117, 112, 40] (by decide)).append (ok.files f hf).group).append (rustStr_ascii [41] (by decide)),
      rustStr_nil, by show (DependencyFlags.SCRIPT_PRE ||| DependencyFlags.SCRIPT_POSTUN) < 4294967296; decide⟩

theorem allRecommends_w (c : Cfg) : depsW (allRecommends c) ≤ depsW c.recommends + (c.files.map fileW).sum := by
  simp only [allRecommends, depsW_append]
  have hu : depsW ((sortedDedup ((c.files.map (·.user)).filter (· ≠ sRoot))).map depUser) ≤ (c.files.map (fun f => f.user.length + 12)).sum := by
    unfold depsW
    rw [List.map_map]
    refine Nat.le_trans (sortedDedup_sum_le _ _) ?_
    refine Nat.le_trans (filter_sum_le _ _ _) ?_
    rw [List.map_map]
    refine Nat.le_of_eq (congrArg List.sum (List.map_congr_left (fun f _ => ?_)))
    simp only [Function.comp, depW, depUser, strW, List.length_append, List.length_cons, List.length_nil]; omega
  have hg : depsW ((sortedDedup ((c.files.map (·.group)).filter (· ≠ sRoot))).map depGroup) ≤ (c.files.map (fun f => f.group.length + 13)).sum := by
    unfold depsW
    rw [List.map_map]
    refine Nat.le_trans (sortedDedup_sum_le _ _) ?_
    refine Nat.le_trans (filter_sum_le _ _ _) ?_
    rw [List.map_map]
    refine Nat.le_of_eq (congrArg List.sum (List.map_congr_left (fun f _ => ?_)))
    simp only [Function.comp, depW, depGroup, strW, List.length_append, List.length_cons, List.length_nil]; omega
  have hsum : (c.files.map (fun f => f.user.length + 12)).sum + (c.files.map (fun f => f.group.length + 13)).sum ≤ (c.files.map fileW).sum := by
    rw [← sum_map_add]
    exact sum_map_le _ _ _ (fun f _ => by simp only [fileW]; omega)
  omega


/-! ## every slot of `prepare_data` -/

/-- the bound every single record stays below -/
def slotBound (x : Ctx) : Nat := 2 * cfgWeight x.c + x.payloadShaHex.length + x.archiveShaHex.length + 1000

theorem mem_le_sum {l : List Nat} {v : Nat} (h : v ∈ l) : v ≤ l.sum := by
  induction l with
  | nil => cases h
  | cons a r ih =>
    simp only [List.sum_cons]
    rcases List.mem_cons.mp h with rfl | h
    · omega
    · have := ih h; omega

theorem files_len_le (c : Cfg) : 32 * c.files.length ≤ (c.files.map fileW).sum := by
  have := sum_map_le c.files (fun _ => 32) fileW (fun f _ => by simp only [fileW]; omega)
  rw [sum_map_const] at this; exact this

theorem dirIndex_le (dirs : List Bytes) (d : Bytes) : dirIndex dirs d ≤ dirs.length := by
  unfold dirIndex
  cases h : dirs.findIdx? (· == d) with
  | none => simp
  | some i => simp only [Option.getD_some]; exact Nat.le_of_lt (List.findIdx?_eq_some_iff_findIdx_eq.mp h).1

theorem clampMtime_lt {sd : Option Nat} {m : Nat} (hsd : ∀ t, sd = some t → t < 4294967296) (hm : m < 4294967296) :
    clampMtime sd m < 4294967296 := by
  unfold clampMtime
  cases sd with
  | none => exact hm
  | some d => simp only; split; exact hsd d rfl; exact hm

theorem comp_name_ok (k : Comp) (p : Bytes × Bytes) (h : k.name = some p) :
    RustStr p.1 ∧ RustStr p.2 ∧ p.1.length ≤ 5 ∧ p.2.length ≤ 41 := by
  cases k with
  | none => cases h
  | gzip l => cases h; exact ⟨rustStr_ascii [103, 122, 105, 112] (by decide), natDec_rustStr l, (by decide : ([103, 122, 105, 112] : Bytes).length ≤ 5), Nat.le_trans (natDec_length l) (by decide)⟩
  | zstd l => cases h; exact ⟨rustStr_ascii [122, 115, 116, 100] (by decide), intDec_rustStr l, (by decide : ([122, 115, 116, 100] : Bytes).length ≤ 5), intDec_length l⟩
  | xz l => cases h; exact ⟨rustStr_ascii [120, 122] (by decide), natDec_rustStr l, (by decide : ([120, 122] : Bytes).length ≤ 5), Nat.le_trans (natDec_length l) (by decide)⟩
  | bzip2 l => cases h; exact ⟨rustStr_ascii [98, 122, 105, 112, 50] (by decide), natDec_rustStr l, (by decide : ([98, 122, 105, 112, 50] : Bytes).length ≤ 5), Nat.le_trans (natDec_length l) (by decide)⟩

def slotsA : List Slot :=
  [ (IndexTag.RPMTAG_SOURCERPM, always fun _ => IndexData.str sNone),
    (IndexTag.RPMTAG_HEADERI18NTABLE, always fun _ => .strArray [sC]),
    (IndexTag.RPMTAG_NAME, always fun x => .str x.c.name),
    (IndexTag.RPMTAG_EPOCH, always fun x => .int32 [x.c.epoch]),
    (IndexTag.RPMTAG_RPMVERSION, always fun _ => .str (sRpmRs ++ CARGO_PKG_VERSION)),
    (IndexTag.RPMTAG_VERSION, always fun x => .str x.c.version),
    (IndexTag.RPMTAG_RELEASE, always fun x => .str x.c.release),
    (IndexTag.RPMTAG_DESCRIPTION, always fun x => .i18n [x.c.desc.getD x.c.summary]),
    (IndexTag.RPMTAG_SUMMARY, always fun x => .i18n [x.c.summary]),
    (IndexTag.RPMTAG_LONGSIZE, fun x => if usesLargeFiles x.c then some (.int64 [combinedSize x.c]) else none),
    (IndexTag.RPMTAG_SIZE, fun x => if usesLargeFiles x.c then none else some (.int32 [combinedSize x.c])),
    (IndexTag.RPMTAG_LICENSE, always fun x => .str x.c.license),
    (IndexTag.RPMTAG_OS, always fun _ => .str sLinux),
    (IndexTag.RPMTAG_GROUP, always fun x => .i18n [x.c.group.getD sUnspecified]),
    (IndexTag.RPMTAG_ARCH, always fun x => .str x.c.arch),
    (IndexTag.RPMTAG_ENCODING, always fun _ => .str sUtf8),
    (IndexTag.RPMTAG_PAYLOADFORMAT, always fun _ => .str sCpio),
    (IndexTag.RPMTAG_BUILDTIME, always fun x => .int32 [x.bt]),
    (IndexTag.RPMTAG_BUILDHOST, optS (·.buildHost)) ]

def slotsF : List Slot :=
  [
    (IndexTag.RPMTAG_LONGFILESIZES, fun x => if x.c.files.isEmpty || !usesLargeFiles x.c then none else some (IndexData.int64 (x.c.files.map (·.size)))),
    (IndexTag.RPMTAG_FILESIZES, fun x => if x.c.files.isEmpty || usesLargeFiles x.c then none else some (.int32 (x.c.files.map (·.size)))),
    (IndexTag.RPMTAG_FILEMODES, whenFiles fun x => .int16 (x.c.files.map (·.mode))),
    (IndexTag.RPMTAG_FILERDEVS, whenFiles fun x => .int16 (x.c.files.map (fun _ => 0))),
    (IndexTag.RPMTAG_FILEMTIMES, whenFiles fun x => .int32 (x.c.files.map (fun f => clampMtime x.c.sourceDate f.mtime))),
    (IndexTag.RPMTAG_FILEDIGESTS, whenFiles fun x => .strArray (x.c.files.map (·.shaHex))),
    (IndexTag.RPMTAG_FILELINKTOS, whenFiles fun x => .strArray (x.c.files.map (·.link))),
    (IndexTag.RPMTAG_FILEFLAGS, whenFiles fun x => .int32 (x.c.files.map (·.flags))),
    (IndexTag.RPMTAG_FILEUSERNAME, whenFiles fun x => .strArray (x.c.files.map (·.user))),
    (IndexTag.RPMTAG_FILEGROUPNAME, whenFiles fun x => .strArray (x.c.files.map (·.group))),
    (IndexTag.RPMTAG_FILEDEVICES, whenFiles fun x => .int32 (x.c.files.map (fun _ => 1))),
    (IndexTag.RPMTAG_FILEINODES, whenFiles fun x => .int32 ((List.range x.c.files.length).map (· + 1))),
    (IndexTag.RPMTAG_DIRINDEXES, whenFiles fun x => .int32 (x.c.files.map (fun f => dirIndex x.c.directories f.dir))),
    (IndexTag.RPMTAG_FILELANGS, whenFiles fun x => .strArray (x.c.files.map (fun _ => []))),
    (IndexTag.RPMTAG_FILEDIGESTALGO, whenFiles fun _ => .int32 [8]),
    (IndexTag.RPMTAG_FILEVERIFYFLAGS, whenFiles fun x => .int32 (x.c.files.map (·.verifyFlags))),
    (IndexTag.RPMTAG_BASENAMES, whenFiles fun x => .strArray (x.c.files.map (·.baseName))),
    (IndexTag.RPMTAG_DIRNAMES, whenFiles fun x => .strArray x.c.directories),
    (IndexTag.RPMTAG_FILECAPS, fun x => if x.c.files.isEmpty || !usesCaps x.c then none else some (.strArray (x.c.files.map (fun f => f.caps.getD [])))) ]

def slotsB : List Slot :=
  [ (IndexTag.RPMTAG_PAYLOADDIGEST, always fun x => IndexData.strArray [x.payloadShaHex]),
    (IndexTag.RPMTAG_PAYLOADDIGESTALGO, always fun _ => .int32 [8]),
    (IndexTag.RPMTAG_PAYLOADDIGESTALT, always fun x => .strArray [x.archiveShaHex]),
    (IndexTag.RPMTAG_PAYLOADCOMPRESSOR, fun x => x.c.compression.name.map fun p => .str p.1),
    (IndexTag.RPMTAG_PAYLOADFLAGS, fun x => x.c.compression.name.map fun p => .str p.2),
    (IndexTag.RPMTAG_CHANGELOGNAME, fun x => if x.c.changelog.isEmpty then none else some (.strArray (x.c.changelog.map (·.1)))),
    (IndexTag.RPMTAG_CHANGELOGTEXT, fun x => if x.c.changelog.isEmpty then none else some (.strArray (x.c.changelog.map (·.2.1)))),
    (IndexTag.RPMTAG_CHANGELOGTIME, fun x => if x.c.changelog.isEmpty then none else some (.int32 (x.c.changelog.map (·.2.2)))) ]

def slotsC : List Slot :=
  [ (IndexTag.RPMTAG_VENDOR, optS (·.vendor)), (IndexTag.RPMTAG_PACKAGER, optS (·.packager)),
    (IndexTag.RPMTAG_URL, optS (·.url)), (IndexTag.RPMTAG_VCS, optS (·.vcs)), (IndexTag.RPMTAG_COOKIE, optS (·.cookie)) ]

theorem slots_eq : slots =
    (slotsA ++ slotsF) ++
    depSlots IndexTag.RPMTAG_PROVIDENAME IndexTag.RPMTAG_PROVIDEVERSION IndexTag.RPMTAG_PROVIDEFLAGS (fun x => allProvides x.c) true ++
    slotsB ++
    depSlots IndexTag.RPMTAG_OBSOLETENAME IndexTag.RPMTAG_OBSOLETEVERSION IndexTag.RPMTAG_OBSOLETEFLAGS (fun x => x.c.obsoletes) false ++
    depSlots IndexTag.RPMTAG_REQUIRENAME IndexTag.RPMTAG_REQUIREVERSION IndexTag.RPMTAG_REQUIREFLAGS (fun x => allRequires x.c) false ++
    depSlots IndexTag.RPMTAG_CONFLICTNAME IndexTag.RPMTAG_CONFLICTVERSION IndexTag.RPMTAG_CONFLICTFLAGS (fun x => x.c.conflicts) false ++
    depSlots IndexTag.RPMTAG_RECOMMENDNAME IndexTag.RPMTAG_RECOMMENDVERSION IndexTag.RPMTAG_RECOMMENDFLAGS (fun x => allRecommends x.c) false ++
    depSlots IndexTag.RPMTAG_SUGGESTNAME IndexTag.RPMTAG_SUGGESTVERSION IndexTag.RPMTAG_SUGGESTFLAGS (fun x => x.c.suggests) false ++
    depSlots IndexTag.RPMTAG_ENHANCENAME IndexTag.RPMTAG_ENHANCEVERSION IndexTag.RPMTAG_ENHANCEFLAGS (fun x => x.c.enhances) false ++
    depSlots IndexTag.RPMTAG_SUPPLEMENTNAME IndexTag.RPMTAG_SUPPLEMENTVERSION IndexTag.RPMTAG_SUPPLEMENTFLAGS (fun x => x.c.supplements) false ++
    scriptSlots IndexTag.RPMTAG_PREIN IndexTag.RPMTAG_PREINFLAGS IndexTag.RPMTAG_PREINPROG (·.preIn) ++
    scriptSlots IndexTag.RPMTAG_POSTIN IndexTag.RPMTAG_POSTINFLAGS IndexTag.RPMTAG_POSTINPROG (·.postIn) ++
    scriptSlots IndexTag.RPMTAG_PREUN IndexTag.RPMTAG_PREUNFLAGS IndexTag.RPMTAG_PREUNPROG (·.preUn) ++
    scriptSlots IndexTag.RPMTAG_POSTUN IndexTag.RPMTAG_POSTUNFLAGS IndexTag.RPMTAG_POSTUNPROG (·.postUn) ++
    scriptSlots IndexTag.RPMTAG_PRETRANS IndexTag.RPMTAG_PRETRANSFLAGS IndexTag.RPMTAG_PRETRANSPROG (·.preTrans) ++
    scriptSlots IndexTag.RPMTAG_POSTTRANS IndexTag.RPMTAG_POSTTRANSFLAGS IndexTag.RPMTAG_POSTTRANSPROG (·.postTrans) ++
    scriptSlots IndexTag.RPMTAG_PREUNTRANS IndexTag.RPMTAG_PREUNTRANSFLAGS IndexTag.RPMTAG_PREUNTRANSPROG (·.preUntrans) ++
    scriptSlots IndexTag.RPMTAG_POSTUNTRANS IndexTag.RPMTAG_POSTUNTRANSFLAGS IndexTag.RPMTAG_POSTUNTRANSPROG (·.postUntrans) ++
    scriptSlots IndexTag.RPMTAG_VERIFYSCRIPT IndexTag.RPMTAG_VERIFYSCRIPTFLAGS IndexTag.RPMTAG_VERIFYSCRIPTPROG (·.verify) ++
    slotsC := rfl

theorem slots_tags_lt : ∀ s ∈ slots, s.1 < 4294967296 := by
  have : (slots.map (·.1)).all (fun t => decide (t < 4294967296)) = true := by decide +kernel
  intro s hs
  have := List.all_eq_true.mp this s.1 (List.mem_map_of_mem hs)
  simpa using this

theorem sum_le_length_mul {α} (l : List α) (f : α → Nat) (B : Nat) (h : ∀ a ∈ l, f a ≤ B) : (l.map f).sum ≤ l.length * B := by
  have := sum_map_le l f (fun _ => B) h
  rw [sum_map_const] at this
  rw [Nat.mul_comm]; exact this

section slots
variable {x : Ctx} (ok : CfgOk x.c) (hbt : x.bt < 4294967296) (hp : RustStr x.payloadShaHex) (ha : RustStr x.archiveShaHex)
  (hW : slotBound x < 4294967296)
include ok hbt hp ha hW

theorem slotsA_ok : ∀ s ∈ slotsA, SlotOk x (slotBound x) s := by
  unfold slotsA
  have hsum := hW
  simp only [slotBound] at hsum
  simp only [List.forall_mem_cons, List.not_mem_nil, false_imp_iff, implies_true, and_true]
  refine ⟨?_, ?_, ?_, ?_, ?_, ?_, ?_, ?_, ?_, ?_, ?_, ?_, ?_, ?_, ?_, ?_, ?_, ?_, ?_⟩
  · exact slotOk_always (canon_str (rustStr_ascii sNone (by decide)) (by simp only [strW, sNone, slotBound, List.length_cons, List.length_nil]; omega))
  · exact slotOk_always (canon_strArray (by intro s hs; rw [List.mem_singleton.mp hs]; exact rustStr_ascii sC (by decide))
      (by simp only [strsW, strW, sC, slotBound, List.map_cons, List.map_nil, List.sum_cons, List.sum_nil, List.length_cons, List.length_nil]; omega) hW)
  · exact slotOk_always (canon_str ok.name (by simp only [slotBound, cfgWeight]; omega))
  · exact slotOk_always (canon_int32 (by intro v hv; rw [List.mem_singleton.mp hv]; exact ok.epoch)
      (by simp only [slotBound, List.length_singleton]; omega) hW)
  · exact slotOk_always (canon_str (rustStr_ascii _ (by decide))
      (by have : strW (sRpmRs ++ CARGO_PKG_VERSION) = 14 := rfl; simp only [slotBound]; omega))
  · exact slotOk_always (canon_str ok.version (by simp only [slotBound, cfgWeight]; omega))
  · exact slotOk_always (canon_str ok.release (by simp only [slotBound, cfgWeight]; omega))
  · refine slotOk_always (canon_i18n ?_ ?_ hW)
    · intro s hs; rw [List.mem_singleton.mp hs]
      cases hd : x.c.desc with
      | none => exact ok.summary
      | some v => exact ok.desc v hd
    · cases hd : x.c.desc with
      | none => simp only [strsW, Option.getD_none, List.map_cons, List.map_nil, List.sum_cons, List.sum_nil, slotBound, cfgWeight]; omega
      | some v => simp only [strsW, Option.getD_some, List.map_cons, List.map_nil, List.sum_cons, List.sum_nil, slotBound, cfgWeight, hd, optW]; omega
  · exact slotOk_always (canon_i18n (by intro s hs; rw [List.mem_singleton.mp hs]; exact ok.summary)
      (by simp only [strsW, List.map_cons, List.map_nil, List.sum_cons, List.sum_nil, slotBound, cfgWeight]; omega) hW)
  · intro d hd
    dsimp only at hd
    split at hd
    · simp only [Option.some.injEq] at hd; subst hd
      exact canon_int64 (by intro v hv; rw [List.mem_singleton.mp hv]; exact ok.total) (by simp only [slotBound, List.length_singleton]; omega) hW
    · cases hd
  · intro d hd
    dsimp only at hd
    split at hd
    · cases hd
    · rename_i hl
      simp only [Option.some.injEq] at hd; subst hd
      have : combinedSize x.c ≤ x.c.largeFileThreshold := by simpa [usesLargeFiles] using hl
      have := ok.threshold
      exact canon_int32 (by intro v hv; rw [List.mem_singleton.mp hv]; omega) (by simp only [slotBound, List.length_singleton]; omega) hW
  · exact slotOk_always (canon_str ok.license (by simp only [slotBound, cfgWeight]; omega))
  · exact slotOk_always (canon_str (rustStr_ascii sLinux (by decide)) (by simp only [strW, sLinux, slotBound, List.length_cons, List.length_nil]; omega))
  · refine slotOk_always (canon_i18n ?_ ?_ hW)
    · intro s hs; rw [List.mem_singleton.mp hs]
      cases hd : x.c.group with
      | none => exact rustStr_ascii sUnspecified (by decide)
      | some v => exact ok.group v hd
    · cases hd : x.c.group with
      | none => simp only [strsW, strW, sUnspecified, Option.getD_none, List.map_cons, List.map_nil, List.sum_cons, List.sum_nil, slotBound, List.length_cons, List.length_nil]; omega
      | some v => simp only [strsW, Option.getD_some, List.map_cons, List.map_nil, List.sum_cons, List.sum_nil, slotBound, cfgWeight, hd, optW]; omega
  · exact slotOk_always (canon_str ok.arch (by simp only [slotBound, cfgWeight]; omega))
  · exact slotOk_always (canon_str (rustStr_ascii sUtf8 (by decide)) (by simp only [strW, sUtf8, slotBound, List.length_cons, List.length_nil]; omega))
  · exact slotOk_always (canon_str (rustStr_ascii sCpio (by decide)) (by simp only [strW, sCpio, slotBound, List.length_cons, List.length_nil]; omega))
  · exact slotOk_always (canon_int32 (by intro v hv; rw [List.mem_singleton.mp hv]; exact hbt) (by simp only [slotBound, List.length_singleton]; omega) hW)
  · exact slotOk_optS (fun s hs => ⟨ok.buildHost s hs, by simp only [slotBound, cfgWeight, hs, optW]; omega⟩)


theorem slotsF_ok : ∀ s ∈ slotsF, SlotOk x (slotBound x) s := by
  unfold slotsF
  have hfl := files_len_le x.c
  have hWf : (x.c.files.map fileW).sum ≤ slotBound x := by simp only [slotBound, cfgWeight]; omega
  have hsz : ∀ v ∈ x.c.files.map (·.size), v ≤ combinedSize x.c := fun v hv => mem_le_sum hv
  have n4 : 4 * x.c.files.length ≤ slotBound x := by omega
  have n8 : 8 * x.c.files.length ≤ slotBound x := by omega
  have n2 : 2 * x.c.files.length ≤ slotBound x := by omega
  have strs : ∀ (proj : FileE → Bytes), (∀ f ∈ x.c.files, RustStr (proj f)) → (∀ f ∈ x.c.files, strW (proj f) ≤ fileW f) →
      (IndexData.strArray (x.c.files.map proj)).Canon ∧ (IndexData.strArray (x.c.files.map proj)).enc.length ≤ slotBound x := by
    intro proj h1 h2
    exact canon_strArray (fun s hs => by obtain ⟨f, hf, rfl⟩ := List.mem_map.mp hs; exact h1 f hf)
      (Nat.le_trans (strsW_map_le _ _ _ h2) hWf) hW
  have ints : ∀ (proj : FileE → Nat), (∀ f ∈ x.c.files, proj f < 4294967296) →
      (IndexData.int32 (x.c.files.map proj)).Canon ∧ (IndexData.int32 (x.c.files.map proj)).enc.length ≤ slotBound x := by
    intro proj h1
    exact canon_int32 (fun v hv => by obtain ⟨f, hf, rfl⟩ := List.mem_map.mp hv; exact h1 f hf) (by simp only [List.length_map]; exact n4) hW
  simp only [List.forall_mem_cons, List.not_mem_nil, false_imp_iff, implies_true, and_true]
  refine ⟨?_, ?_, ?_, ?_, ?_, ?_, ?_, ?_, ?_, ?_, ?_, ?_, ?_, ?_, ?_, ?_, ?_, ?_, ?_⟩
  · intro d hd
    dsimp only at hd
    split at hd
    · cases hd
    · simp only [Option.some.injEq] at hd; subst hd
      exact canon_int64 (fun v hv => Nat.lt_of_le_of_lt (hsz v hv) ok.total) (by simp only [List.length_map]; exact n8) hW
  · intro d hd
    dsimp only at hd
    split at hd
    · cases hd
    · rename_i hl
      simp only [Option.some.injEq] at hd; subst hd
      have hnl : usesLargeFiles x.c = false := by
        cases h : usesLargeFiles x.c with
        | false => rfl
        | true => simp [h] at hl
      have hc : combinedSize x.c ≤ x.c.largeFileThreshold := by simpa [usesLargeFiles] using hnl
      have := ok.threshold
      exact canon_int32 (fun v hv => by have := hsz v hv; omega) (by simp only [List.length_map]; exact n4) hW
  · exact slotOk_whenFiles (fun _ => canon_int16 (fun v hv => by obtain ⟨f, hf, rfl⟩ := List.mem_map.mp hv; exact (ok.files f hf).mode)
      (by simp only [List.length_map]; exact n2) hW)
  · exact slotOk_whenFiles (fun _ => canon_int16 (fun v hv => by obtain ⟨f, hf, rfl⟩ := List.mem_map.mp hv; decide)
      (by simp only [List.length_map]; exact n2) hW)
  · exact slotOk_whenFiles (fun _ => ints _ (fun f hf => clampMtime_lt ok.sourceDate (ok.files f hf).mtime))
  · exact slotOk_whenFiles (fun _ => strs _ (fun f hf => (ok.files f hf).shaHex) (fun f _ => by simp only [fileW, strW]; omega))
  · exact slotOk_whenFiles (fun _ => strs _ (fun f hf => (ok.files f hf).link) (fun f _ => by simp only [fileW, strW]; omega))
  · exact slotOk_whenFiles (fun _ => ints _ (fun f hf => (ok.files f hf).flags))
  · exact slotOk_whenFiles (fun _ => strs _ (fun f hf => (ok.files f hf).user) (fun f _ => by simp only [fileW, strW]; omega))
  · exact slotOk_whenFiles (fun _ => strs _ (fun f hf => (ok.files f hf).group) (fun f _ => by simp only [fileW, strW]; omega))
  · exact slotOk_whenFiles (fun _ => ints _ (fun _ _ => by decide))
  · refine slotOk_whenFiles (fun _ => canon_int32 (fun v hv => ?_) (by simp only [List.length_map, List.length_range]; exact n4) hW)
    obtain ⟨i, hi, rfl⟩ := List.mem_map.mp hv
    have := List.mem_range.mp hi
    omega
  · refine slotOk_whenFiles (fun _ => ints _ (fun f _ => ?_))
    have h1 := dirIndex_le x.c.directories f.dir
    have h2 : x.c.directories.length ≤ strsW x.c.directories := length_le_sum _ strW (fun a _ => by simp [strW])
    have h3 : strsW x.c.directories ≤ slotBound x := by simp only [slotBound, cfgWeight]; omega
    omega
  · exact slotOk_whenFiles (fun _ => strs _ (fun _ _ => rustStr_nil) (fun f _ => by simp only [fileW, strW, List.length_nil]; omega))
  · exact slotOk_whenFiles (fun _ => canon_int32 (by intro v hv; rw [List.mem_singleton.mp hv]; decide)
      (by simp only [slotBound, List.length_singleton]; omega) hW)
  · exact slotOk_whenFiles (fun _ => ints _ (fun f hf => (ok.files f hf).verifyFlags))
  · exact slotOk_whenFiles (fun _ => strs _ (fun f hf => (ok.files f hf).baseName) (fun f _ => by simp only [fileW, strW]; omega))
  · exact slotOk_whenFiles (fun _ => canon_strArray ok.dirs (by simp only [slotBound, cfgWeight]; omega) hW)
  · intro d hd
    dsimp only at hd
    split at hd
    · cases hd
    · simp only [Option.some.injEq] at hd; subst hd
      refine strs (fun f => f.caps.getD []) (fun f hf => ?_) (fun f _ => ?_)
      · cases hc : f.caps with
        | none => exact rustStr_nil
        | some v => exact (ok.files f hf).caps v hc
      · cases hc : f.caps with
        | none => simp only [Option.getD_none, fileW, strW, List.length_nil]; omega
        | some v => simp only [Option.getD_some, fileW, strW, hc, optW]; omega

theorem slotsB_ok : ∀ s ∈ slotsB, SlotOk x (slotBound x) s := by
  unfold slotsB
  have hcl : changelogW x.c.changelog ≤ slotBound x := by simp only [slotBound, cfgWeight]; omega
  have hname := comp_name_ok x.c.compression
  simp only [List.forall_mem_cons, List.not_mem_nil, false_imp_iff, implies_true, and_true]
  refine ⟨?_, ?_, ?_, ?_, ?_, ?_, ?_, ?_⟩
  · exact slotOk_always (canon_strArray (by intro s hs; rw [List.mem_singleton.mp hs]; exact hp)
      (by simp only [strsW, strW, slotBound, List.map_cons, List.map_nil, List.sum_cons, List.sum_nil]; omega) hW)
  · exact slotOk_always (canon_int32 (by intro v hv; rw [List.mem_singleton.mp hv]; decide) (by simp only [slotBound, List.length_singleton]; omega) hW)
  · exact slotOk_always (canon_strArray (by intro s hs; rw [List.mem_singleton.mp hs]; exact ha)
      (by simp only [strsW, strW, slotBound, List.map_cons, List.map_nil, List.sum_cons, List.sum_nil]; omega) hW)
  · intro d hd
    simp only [Option.map_eq_some_iff] at hd
    obtain ⟨p, hpn, rfl⟩ := hd
    obtain ⟨h1, _, h3, _⟩ := hname p hpn
    exact canon_str h1 (by simp only [strW, slotBound]; omega)
  · intro d hd
    simp only [Option.map_eq_some_iff] at hd
    obtain ⟨p, hpn, rfl⟩ := hd
    obtain ⟨_, h2, _, h4⟩ := hname p hpn
    exact canon_str h2 (by simp only [strW, slotBound]; omega)
  · intro d hd
    dsimp only at hd
    split at hd
    · cases hd
    · simp only [Option.some.injEq] at hd; subst hd
      exact canon_strArray (fun s hs => by obtain ⟨e, he, rfl⟩ := List.mem_map.mp hs; exact (ok.changelog e he).1)
        (Nat.le_trans (strsW_map_le _ _ _ (fun e _ => by omega)) hcl) hW
  · intro d hd
    dsimp only at hd
    split at hd
    · cases hd
    · simp only [Option.some.injEq] at hd; subst hd
      exact canon_strArray (fun s hs => by obtain ⟨e, he, rfl⟩ := List.mem_map.mp hs; exact (ok.changelog e he).2.1)
        (Nat.le_trans (strsW_map_le _ _ _ (fun e _ => by omega)) hcl) hW
  · intro d hd
    dsimp only at hd
    split at hd
    · cases hd
    · simp only [Option.some.injEq] at hd; subst hd
      refine canon_int32 (fun v hv => by obtain ⟨e, he, rfl⟩ := List.mem_map.mp hv; exact (ok.changelog e he).2.2) ?_ hW
      have := sum_map_le x.c.changelog (fun _ => 4) (fun e => strW e.1 + strW e.2.1 + 4) (fun e _ => by omega)
      rw [sum_map_const] at this
      simp only [List.length_map]
      unfold changelogW at hcl
      omega

theorem slotsC_ok : ∀ s ∈ slotsC, SlotOk x (slotBound x) s := by
  unfold slotsC
  simp only [List.forall_mem_cons, List.not_mem_nil, false_imp_iff, implies_true, and_true]
  refine ⟨?_, ?_, ?_, ?_, ?_⟩
  · exact slotOk_optS (fun s hs => ⟨ok.vendor s hs, by simp only [slotBound, cfgWeight, hs, optW]; omega⟩)
  · exact slotOk_optS (fun s hs => ⟨ok.packager s hs, by simp only [slotBound, cfgWeight, hs, optW]; omega⟩)
  · exact slotOk_optS (fun s hs => ⟨ok.url s hs, by simp only [slotBound, cfgWeight, hs, optW]; omega⟩)
  · exact slotOk_optS (fun s hs => ⟨ok.vcs s hs, by simp only [slotBound, cfgWeight, hs, optW]; omega⟩)
  · exact slotOk_optS (fun s hs => ⟨ok.cookie s hs, by simp only [slotBound, cfgWeight, hs, optW]; omega⟩)


/-- **every record `prepare_data` can emit is canonical and at most `slotBound x` bytes long** -/
theorem slots_ok : ∀ s ∈ slots, SlotOk x (slotBound x) s := by
  have hA := slotsA_ok ok hbt hp ha hW
  have hF := slotsF_ok ok hbt hp ha hW
  have hB := slotsB_ok ok hbt hp ha hW
  have hC := slotsC_ok ok hbt hp ha hW
  have hc : cfgWeight x.c ≤ slotBound x := by simp only [slotBound]; omega
  have dep : ∀ {n v f : Nat} {g : Ctx → List Dep} {al : Bool}, (∀ d ∈ g x, DepOk d) → depsW (g x) ≤ slotBound x →
      ∀ s ∈ depSlots n v f g al, SlotOk x (slotBound x) s := fun h1 h2 => slotOk_deps h1 h2 hW
  have scr : ∀ {a b c : Nat} {g : Cfg → Option Scriptlet}, (∀ s, g x.c = some s → ScriptOk s) → scriptW (g x.c) ≤ slotBound x →
      ∀ s ∈ scriptSlots a b c g, SlotOk x (slotBound x) s := fun h1 h2 => slotOk_script h1 h2 hW
  intro s hs
  rw [slots_eq] at hs
  simp only [List.mem_append, or_assoc] at hs
  rcases hs with h | h | h | h | h | h | h | h | h | h | h | h | h | h | h | h | h | h | h | h | h
  · exact hA s h
  · exact hF s h
  · exact dep (g := fun x => allProvides x.c) (allProvides_ok ok) (by have := allProvides_w x.c; simp only [slotBound, cfgWeight] at *; omega) s h
  · exact hB s h
  · exact dep (g := fun x => x.c.obsoletes) ok.obsoletes (by simp only [slotBound, cfgWeight]; omega) s h
  · exact dep (g := fun x => allRequires x.c) (allRequires_ok ok) (by have := allRequires_w x.c; simp only [slotBound, cfgWeight] at *; omega) s h
  · exact dep (g := fun x => x.c.conflicts) ok.conflicts (by simp only [slotBound, cfgWeight]; omega) s h
  · exact dep (g := fun x => allRecommends x.c) (allRecommends_ok ok) (by have := allRecommends_w x.c; simp only [slotBound, cfgWeight] at *; omega) s h
  · exact dep (g := fun x => x.c.suggests) ok.suggests (by simp only [slotBound, cfgWeight]; omega) s h
  · exact dep (g := fun x => x.c.enhances) ok.enhances (by simp only [slotBound, cfgWeight]; omega) s h
  · exact dep (g := fun x => x.c.supplements) ok.supplements (by simp only [slotBound, cfgWeight]; omega) s h
  · exact scr (g := (·.preIn)) ok.preIn (by simp only [slotBound, cfgWeight]; omega) s h
  · exact scr (g := (·.postIn)) ok.postIn (by simp only [slotBound, cfgWeight]; omega) s h
  · exact scr (g := (·.preUn)) ok.preUn (by simp only [slotBound, cfgWeight]; omega) s h
  · exact scr (g := (·.postUn)) ok.postUn (by simp only [slotBound, cfgWeight]; omega) s h
  · exact scr (g := (·.preTrans)) ok.preTrans (by simp only [slotBound, cfgWeight]; omega) s h
  · exact scr (g := (·.postTrans)) ok.postTrans (by simp only [slotBound, cfgWeight]; omega) s h
  · exact scr (g := (·.preUntrans)) ok.preUntrans (by simp only [slotBound, cfgWeight]; omega) s h
  · exact scr (g := (·.postUntrans)) ok.postUntrans (by simp only [slotBound, cfgWeight]; omega) s h
  · exact scr (g := (·.verify)) ok.verify (by simp only [slotBound, cfgWeight]; omega) s h
  · exact hC s h


/-- **a builder state of NUL-free Rust strings, 32-bit numbers and bounded weight yields records `from_entries` turns into a
well-formed header** (`C06.Valid`): every record canonical, fewer than 2^32 of them, store below 2 GiB -/
theorem recsOk_of_cfg (hsize : 102 * (slotBound x + 8) + 16 < 2147483648) :
    RecsOk (recordsOf x) IndexTag.RPMTAG_HEADERIMMUTABLE := by
  have hs := slots_ok ok hbt hp ha hW
  have hrec : ∀ r ∈ recordsOf x, ∃ s ∈ slots, s.2 x = some r.2 ∧ r.1 = s.1 := by
    intro r hr
    simp only [recordsOf, List.mem_filterMap, Option.map_eq_some_iff] at hr
    obtain ⟨s, hs, d, hd, rfl⟩ := hr
    exact ⟨s, hs, hd, rfl⟩
  have hlen : (recordsOf x).length ≤ 102 := by
    unfold recordsOf
    exact Nat.le_trans (List.length_filterMap_le _ _) (Nat.le_of_eq (by decide))
  refine ⟨fun r hr => ?_, fun r hr => ?_, by decide, by omega, ?_⟩
  · obtain ⟨s, hsm, hd, _⟩ := hrec r hr
    exact (hs s hsm r.2 hd).1
  · obtain ⟨s, hsm, _, he⟩ := hrec r hr
    rw [he]; exact slots_tags_lt s hsm
  · have h1 := Sign.fromEntries_store_le (recordsOf x) IndexTag.RPMTAG_HEADERIMMUTABLE
    have h2 := sum_le_length_mul (recordsOf x) (fun r => r.2.enc.length + 8) (slotBound x + 8) (fun r hr => by
      obtain ⟨s, hsm, hd, _⟩ := hrec r hr
      have := (hs s hsm r.2 hd).2
      omega)
    have h3 : (recordsOf x).length * (slotBound x + 8) ≤ 102 * (slotBound x + 8) := Nat.mul_le_mul_right _ hlen
    omega

end slots
end RpmVerif.Bld
