import RpmVerif.Lemmas.BuilderSlots
/-! Helper lemmas for C09 (`tag-type`): every slot combinator of the builder's slot table (`Bld.slots`) emits data of ONE type. -/
namespace RpmVerif.Bld
open RpmVerif RpmVerif.Hdr RpmVerif.RpmValid

/-- a slot only ever emits data of type `t` -/
def SlotTy (f : Ctx → Option IndexData) (t : Nat) : Prop := ∀ x d, f x = some d → d.typeCode = t

/-- a slot whose tag carries data of the type rpm's tag table gives the tag (`hdrchkTagType`) -/
def SlotTypeOk (s : Slot) : Prop := ∀ x d, s.2 x = some d → tagTypeOk s.1 d.typeCode = true

theorem slotOk {tag : Nat} {f : Ctx → Option IndexData} (t : Nat) (hty : SlotTy f t) (hok : tagTypeOk tag t = true) :
    SlotTypeOk (tag, f) := by
  intro x d hd; rw [hty x d hd]; exact hok

theorem ty_always {f : Ctx → IndexData} {t : Nat} (h : ∀ x, (f x).typeCode = t) : SlotTy (always f) t := by
  intro x d hd; simp only [always, Option.some.injEq] at hd; subst hd; exact h x

theorem ty_whenFiles {f : Ctx → IndexData} {t : Nat} (h : ∀ x, (f x).typeCode = t) : SlotTy (whenFiles f) t := by
  intro x d hd
  simp only [whenFiles] at hd
  split at hd
  · cases hd
  · simp only [Option.some.injEq] at hd; subst hd; exact h x

theorem ty_optS (f : Cfg → Option Bytes) : SlotTy (optS f) 6 := by
  intro x d hd
  simp only [optS, Option.map_eq_some_iff] at hd
  obtain ⟨s, _, rfl⟩ := hd
  rfl

theorem ty_depNames (g : Ctx → List Dep) (al : Bool) : SlotTy (depNames g al) 8 := by
  intro x d hd
  simp only [depNames] at hd
  split at hd
  · cases hd
  · simp only [Option.some.injEq] at hd; subst hd; rfl
theorem ty_depVersions (g : Ctx → List Dep) (al : Bool) : SlotTy (depVersions g al) 8 := by
  intro x d hd
  simp only [depVersions] at hd
  split at hd
  · cases hd
  · simp only [Option.some.injEq] at hd; subst hd; rfl
theorem ty_depFlags (g : Ctx → List Dep) (al : Bool) : SlotTy (depFlags g al) 4 := by
  intro x d hd
  simp only [depFlags] at hd
  split at hd
  · cases hd
  · simp only [Option.some.injEq] at hd; subst hd; rfl

theorem ty_scrScript (g : Cfg → Option Scriptlet) : SlotTy (scrScript g) 6 := by
  intro x d hd
  simp only [scrScript, Option.map_eq_some_iff] at hd
  obtain ⟨s, _, rfl⟩ := hd
  rfl
theorem ty_scrFlags (g : Cfg → Option Scriptlet) : SlotTy (scrFlags g) 4 := by
  intro x d hd
  simp only [scrFlags, Option.bind_eq_some_iff, Option.map_eq_some_iff] at hd
  obtain ⟨s, _, fl, _, rfl⟩ := hd
  rfl
theorem ty_scrProg (g : Cfg → Option Scriptlet) : SlotTy (scrProg g) 8 := by
  intro x d hd
  simp only [scrProg, Option.bind_eq_some_iff] at hd
  obtain ⟨s, _, p, _, hp⟩ := hd
  split at hp
  · cases hp
  · simp only [Option.some.injEq] at hp; subst hp; rfl

theorem ty_compMap (sel : Bytes × Bytes → Bytes) :
    SlotTy (fun x => x.c.compression.name.map fun p => IndexData.str (sel p)) 6 := by
  intro x d hd
  simp only [Option.map_eq_some_iff] at hd
  obtain ⟨s, _, rfl⟩ := hd
  rfl

/-- close `SlotTy` for a slot written as a bare conditional -/
macro "slot_ty_cond" : tactic => `(tactic| (
  intro x d hd
  dsimp only at hd
  split at hd <;> cases hd
  all_goals rfl))

theorem depSlots_ty {n v f : Nat} (g : Ctx → List Dep) (al : Bool) (hn : tagTypeOk n 8 = true) (hv : tagTypeOk v 8 = true)
    (hf : tagTypeOk f 4 = true) : ∀ s ∈ depSlots n v f g al, SlotTypeOk s :=
  forall_cons (slotOk 8 (ty_depNames g al) hn) (forall_cons (slotOk 8 (ty_depVersions g al) hv)
    (forall_cons (slotOk 4 (ty_depFlags g al) hf) forall_nil))

theorem scriptSlots_ty {a b c : Nat} (g : Cfg → Option Scriptlet) (ha : tagTypeOk a 6 = true) (hb : tagTypeOk b 4 = true)
    (hc : tagTypeOk c 8 = true) : ∀ s ∈ scriptSlots a b c g, SlotTypeOk s :=
  forall_cons (slotOk 6 (ty_scrScript g) ha) (forall_cons (slotOk 4 (ty_scrFlags g) hb)
    (forall_cons (slotOk 8 (ty_scrProg g) hc) forall_nil))

end RpmVerif.Bld
