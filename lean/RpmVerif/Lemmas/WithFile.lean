import RpmVerif.Model.WithFile
import RpmVerif.Lemmas.FileMode
import RpmVerif.Lemmas.Timestamp
/-!
# Helper lemmas for the builder front-end (`Model/WithFile.lean`): the inherited mode word, the fields `with_file`
stores, chains of `FileOptionsBuilder` setters, the builder state over a sequence of calls
-/
namespace RpmVerif.WithFile
open RpmVerif.FileMode RpmVerif.Bld RpmVerif.AddData RpmVerif.Gen

/-! ### `st_mode as i32` → `FileMode` → `u16` -/

theorem asU16_u32AsI32 (n : Nat) : asU16 (u32AsI32 n) = n % 65536 := by
  unfold asU16 u32AsI32
  split <;> omega

theorem rawMode_fromU16 (w : Nat) (h : w < 65536) : rawMode (fromU16 w) = w := by
  obtain ⟨e1, e2, e3, e4, e5⟩ := consts
  have hs := split_word' w h
  rcases fromU16_cases w with ⟨h1, e⟩ | ⟨h1, e⟩ | ⟨h1, e⟩ | ⟨_, _, _, e⟩
  · rw [e]; simp only [rawMode, fileType]; rw [e3, ← h1]; exact hs
  · rw [e]; simp only [rawMode, fileType]; rw [e4, ← h1]; exact hs
  · rw [e]; simp only [rawMode, fileType]; rw [e5, ← h1]; exact hs
  · rw [e]; simp only [rawMode]; exact asU16_ofNat w h

/-- whatever the integer, the word `raw_mode()` gives back is the integer's low 16 bits (also for `Invalid`) -/
theorem rawMode_fromI32 (z : Int) : rawMode (fromI32 z) = asU16 z := by
  unfold fromI32
  split
  · rfl
  · exact rawMode_fromU16 _ (asU16_lt z)

theorem toU16_inherit (n : Nat) : toU16 (fromI32 (u32AsI32 n)) = n % 65536 := by
  unfold toU16; rw [rawMode_fromI32, asU16_u32AsI32]

/-- the mode word `with_file` stores: the source's `st_mode` (low 16 bits) when inheriting, else the explicit mode -/
theorem inheritMode_word (st : Nat) (o : FileOpts) :
    toU16 (inheritMode st o).mode = if o.inheritPermissions then st % 65536 else rawMode o.mode := by
  unfold inheritMode
  cases o.inheritPermissions
  · rfl
  · simp only [if_true]; exact toU16_inherit st

theorem inheritMode_rest (st : Nat) (o : FileOpts) :
    (inheritMode st o).destination = o.destination ∧ (inheritMode st o).user = o.user ∧ (inheritMode st o).group = o.group ∧
    (inheritMode st o).symlink = o.symlink ∧ (inheritMode st o).flag = o.flag ∧ (inheritMode st o).caps = o.caps ∧
    (inheritMode st o).verifyFlags = o.verifyFlags := by
  unfold inheritMode
  cases o.inheritPermissions <;> simp

/-! ### `Timestamp::try_from(SystemTime)` as used by `with_file` -/

theorem fromSystemTime_cases (t : Timestamp.Instant) :
    (t.secs < 0 ∧ Timestamp.fromSystemTime t = .underflow) ∨
    (0 ≤ t.secs ∧ t.secs < 4294967296 ∧ Timestamp.fromSystemTime t = .ok t.secs.toNat) ∨
    (4294967296 ≤ t.secs ∧ Timestamp.fromSystemTime t = .overflow) := by
  by_cases h0 : 0 ≤ t.secs
  · rw [Timestamp.fromSystemTime_of_nonneg h0]
    by_cases h1 : t.secs < 4294967296
    · right; left
      rw [Timestamp.u32OfU64_of_lt (by omega)]
      exact ⟨h0, h1, rfl⟩
    · right; right
      rw [Timestamp.u32OfU64_of_ge (by omega)]
      exact ⟨by omega, rfl⟩
  · left
    exact ⟨by omega, Timestamp.fromSystemTime_of_neg (by omega)⟩

/-! ### what `with_file` stores -/

/-- the entry `add_data` stores for an accepted destination -/
def entryFor (sha256hex : Bytes → Bytes) (f : SrcFile) (o : FileOpts) (cpio dir base : Bytes) : FileE :=
  { cpioPath := cpio, dir := dir, baseName := base, size := f.content.length,
    mode := if o.inheritPermissions then f.stMode % 65536 else rawMode o.mode,
    user := o.user, group := o.group, link := o.symlink, flags := o.flag, caps := o.caps, verifyFlags := o.verifyFlags,
    mtime := f.mtime.secs.toNat, shaHex := sha256hex f.content }

theorem addDataEntry_inherit (sha256hex : Bytes → Bytes) (f : SrcFile) (o : FileOpts) (t : Nat) :
    addDataEntry sha256hex f.content t (inheritMode f.stMode o) =
      match addData o.destination with
      | .ok (cpio, dir, base) => .ok { entryFor sha256hex f o cpio dir base with mtime := t }
      | .err e => .err e
      | .panic s => .panic s := by
  obtain ⟨hd, hu, hg, hs, hf, hc, hv⟩ := inheritMode_rest f.stMode o
  unfold addDataEntry
  rw [hd]
  cases addData o.destination with
  | ok r =>
    obtain ⟨cpio, dir, base⟩ := r
    simp only [entryFor, hu, hg, hs, hf, hc, hv, inheritMode_word]
  | err e => rfl
  | panic s => rfl

/-- **`with_file` on a readable source**, all outcomes: the mtime conversion is tried first, then the destination -/
theorem withFile_readable (sha256hex : Bytes → Bytes) (f : SrcFile) (o : FileOpts) :
    withFile sha256hex (.readable f) o =
      if f.mtime.secs < 0 ∨ 4294967296 ≤ f.mtime.secs then .err "TimestampConv"
      else match addData o.destination with
        | .ok (cpio, dir, base) => .ok (entryFor sha256hex f o cpio dir base)
        | .err e => .err e
        | .panic s => .panic s := by
  unfold withFile
  rcases fromSystemTime_cases f.mtime with ⟨h, e⟩ | ⟨h0, h1, e⟩ | ⟨h, e⟩
  · simp only [e, errTs]; rw [if_pos (Or.inl h)]
  · simp only [e]
    rw [if_neg (by omega), addDataEntry_inherit]
    cases addData o.destination with
    | ok r => rfl
    | err e => rfl
    | panic s => rfl
  · simp only [e, errTs]; rw [if_pos (Or.inr h)]

theorem withFile_ok {sha256hex : Bytes → Bytes} {src : Source} {o : FileOpts} {e : FileE}
    (h : withFile sha256hex src o = .ok e) :
    ∃ f cpio dir base, src = .readable f ∧ 0 ≤ f.mtime.secs ∧ f.mtime.secs < 4294967296 ∧
      addData o.destination = .ok (cpio, dir, base) ∧ e = entryFor sha256hex f o cpio dir base := by
  cases src with
  | openFails => cases h
  | readFails => cases h
  | readable f =>
    rw [withFile_readable] at h
    split at h
    · cases h
    · rename_i hr
      cases ha : addData o.destination with
      | ok r =>
        obtain ⟨cpio, dir, base⟩ := r
        rw [ha] at h
        simp only [Out.ok.injEq] at h
        exact ⟨f, cpio, dir, base, rfl, by omega, by omega, rfl, h.symm⟩
      | err e => rw [ha] at h; cases h
      | panic s => rw [ha] at h; cases h

/-! ### chains of setters -/

theorem capsSetter_cases (valid : Bytes → Bool) (t : Bytes) :
    capsSetter valid t = .ok t ∨ capsSetter valid t = .err "InvalidCapabilities" := by
  unfold capsSetter; cases valid t <;> simp

theorem Setter.apply_cases (valid : Bytes → Bool) (s : Setter) (o : FileOpts) :
    (∃ o', s.apply valid o = .ok o') ∨ s.apply valid o = .err "InvalidCapabilities" := by
  cases s with
  | caps t =>
    rcases capsSetter_cases valid t with h | h
    · left; exact ⟨{ o with caps := some t }, by simp only [Setter.apply, h]⟩
    · right; simp only [Setter.apply, h]
  | _ => left; exact ⟨_, rfl⟩

theorem applySetters_cases (valid : Bytes → Bool) (ss : List Setter) (o : FileOpts) :
    (∃ o', applySetters valid ss o = .ok o') ∨ applySetters valid ss o = .err "InvalidCapabilities" := by
  induction ss generalizing o with
  | nil => left; exact ⟨o, rfl⟩
  | cons s r ih =>
    rcases Setter.apply_cases valid s o with ⟨o', h⟩ | h
    · simp only [applySetters, h]; exact ih o'
    · right; simp only [applySetters, h]

theorem applySetters_cons_ok {valid : Bytes → Bool} {s : Setter} {r : List Setter} {o o' : FileOpts}
    (h : applySetters valid (s :: r) o = .ok o') : ∃ o₁, s.apply valid o = .ok o₁ ∧ applySetters valid r o₁ = .ok o' := by
  simp only [applySetters] at h
  cases hs : s.apply valid o with
  | ok o₁ => rw [hs] at h; exact ⟨o₁, rfl, h⟩
  | err e => rw [hs] at h; cases h
  | panic p => rw [hs] at h; cases h

theorem applySetters_append_ok {valid : Bytes → Bool} {a b : List Setter} {o o' : FileOpts}
    (h : applySetters valid (a ++ b) o = .ok o') : ∃ o₁, applySetters valid a o = .ok o₁ ∧ applySetters valid b o₁ = .ok o' := by
  induction a generalizing o with
  | nil => exact ⟨o, rfl, h⟩
  | cons s r ih =>
    obtain ⟨o₁, h1, h2⟩ := applySetters_cons_ok (by simpa using h)
    obtain ⟨o₂, h3, h4⟩ := ih h2
    exact ⟨o₂, by simp only [applySetters, h1, h3], h4⟩

/-- what a single non-`mode` setter leaves alone -/
theorem Setter.apply_keeps_mode {valid : Bytes → Bool} {s : Setter} {o o' : FileOpts} (h : s.apply valid o = .ok o')
    (hm : s.isMode = false) : o'.mode = o.mode ∧ o'.inheritPermissions = o.inheritPermissions := by
  cases s with
  | mode m => cases hm
  | caps t =>
    simp only [Setter.apply] at h
    cases hc : capsSetter valid t with
    | ok t' => rw [hc] at h; cases h; exact ⟨rfl, rfl⟩
    | err e => rw [hc] at h; cases h
    | panic p => rw [hc] at h; cases h
  | _ => cases h; exact ⟨rfl, rfl⟩

theorem applySetters_keeps_mode {valid : Bytes → Bool} {ss : List Setter} {o o' : FileOpts}
    (h : applySetters valid ss o = .ok o') (hm : ∀ s ∈ ss, s.isMode = false) :
    o'.mode = o.mode ∧ o'.inheritPermissions = o.inheritPermissions := by
  induction ss generalizing o with
  | nil => cases h; exact ⟨rfl, rfl⟩
  | cons s r ih =>
    obtain ⟨o₁, h1, h2⟩ := applySetters_cons_ok h
    obtain ⟨a, b⟩ := Setter.apply_keeps_mode h1 (hm s (by simp))
    obtain ⟨c, d⟩ := ih h2 (fun t ht => hm t (by simp [ht]))
    exact ⟨c.trans a, d.trans b⟩

theorem Setter.apply_keeps_dest {valid : Bytes → Bool} {s : Setter} {o o' : FileOpts} (h : s.apply valid o = .ok o') :
    o'.destination = o.destination := by
  cases s with
  | caps t =>
    simp only [Setter.apply] at h
    cases hc : capsSetter valid t with
    | ok t' => rw [hc] at h; cases h; rfl
    | err e => rw [hc] at h; cases h
    | panic p => rw [hc] at h; cases h
  | _ => cases h; rfl

theorem applySetters_keeps_dest {valid : Bytes → Bool} {ss : List Setter} {o o' : FileOpts}
    (h : applySetters valid ss o = .ok o') : o'.destination = o.destination := by
  induction ss generalizing o with
  | nil => cases h; rfl
  | cons s r ih =>
    obtain ⟨o₁, h1, h2⟩ := applySetters_cons_ok h
    exact (ih h2).trans (Setter.apply_keeps_dest h1)

/-- the flag word after a chain of setters is the OR of what the `is_*` setters in it insert -/
theorem applySetters_flag {valid : Bytes → Bool} {ss : List Setter} {o o' : FileOpts}
    (h : applySetters valid ss o = .ok o') : o'.flag = settersFlags o.flag ss := by
  induction ss generalizing o with
  | nil => cases h; rfl
  | cons s r ih =>
    obtain ⟨o₁, h1, h2⟩ := applySetters_cons_ok h
    rw [ih h2]
    cases s with
    | flag i => cases h1; rfl
    | caps t =>
      simp only [Setter.apply] at h1
      cases hc : capsSetter valid t with
      | ok t' => rw [hc] at h1; cases h1; rfl
      | err e => rw [hc] at h1; cases h1
      | panic p => rw [hc] at h1; cases h1
    | _ => cases h1; rfl

/-! ### the builder state -/

theorem mem_insertFileE {e x : FileE} {l : List FileE} (h : x ∈ insertFileE e l) : x = e ∨ x ∈ l := by
  induction l with
  | nil => simp only [insertFileE, List.mem_singleton] at h; exact .inl h
  | cons g r ih =>
    simp only [insertFileE] at h
    split at h
    · exact .inr h
    · split at h
      · rcases List.mem_cons.mp h with rfl | h'
        · exact .inl rfl
        · exact .inr h'
      · rcases List.mem_cons.mp h with rfl | h'
        · exact .inr (by simp)
        · rcases ih h' with rfl | h''
          · exact .inl rfl
          · exact .inr (by simp [h''])

theorem mem_insertDir_of_mem {d x : Bytes} {l : List Bytes} (h : x ∈ l) : x ∈ insertDir d l := by
  induction l with
  | nil => cases h
  | cons g r ih =>
    simp only [insertDir]
    split
    · exact h
    · split
      · exact List.mem_cons_of_mem _ h
      · rcases List.mem_cons.mp h with rfl | h'
        · simp
        · exact List.mem_cons_of_mem _ (ih h')

theorem mem_insertDir_self (d : Bytes) (l : List Bytes) : d ∈ insertDir d l := by
  induction l with
  | nil => simp [insertDir]
  | cons g r ih =>
    simp only [insertDir]
    split
    · rename_i h; have : d = g := by simpa using h
      subst this; simp
    · split
      · simp
      · exact List.mem_cons_of_mem _ ih

/-- every file's directory is registered (what `prepare_data`'s `position(..).unwrap()` relies on) -/
def DirsOk (s : BState) : Prop := ∀ e ∈ s.files, e.dir ∈ s.directories

theorem DirsOk.add {s : BState} (h : DirsOk s) (e : FileE) : DirsOk (s.add e) := by
  intro x hx
  rcases mem_insertFileE hx with rfl | hx'
  · exact mem_insertDir_self _ _
  · exact mem_insertDir_of_mem (h x hx')

theorem buildState_cons_ok {sha256hex : Bytes → Bytes} {valid : Bytes → Bool} {c : Call} {r : List Call} {s s' : BState}
    (h : buildState sha256hex valid (c :: r) s = .ok s') :
    ∃ e, runCall sha256hex valid c = .ok e ∧ buildState sha256hex valid r (s.add e) = .ok s' := by
  simp only [buildState] at h
  cases hc : runCall sha256hex valid c with
  | ok e => rw [hc] at h; exact ⟨e, rfl, h⟩
  | err e => rw [hc] at h; cases h
  | panic p => rw [hc] at h; cases h

/-- the state after a successful sequence of calls: every stored entry is the entry one of the calls produced, and the
directory of every entry is registered -/
theorem buildState_ok {sha256hex : Bytes → Bytes} {valid : Bytes → Bool} {calls : List Call} {s s' : BState}
    (h : buildState sha256hex valid calls s = .ok s') :
    (∀ e ∈ s'.files, e ∈ s.files ∨ ∃ c ∈ calls, runCall sha256hex valid c = .ok e) ∧ (DirsOk s → DirsOk s') := by
  induction calls generalizing s with
  | nil => cases h; exact ⟨fun e he => .inl he, id⟩
  | cons c r ih =>
    obtain ⟨e, h1, h2⟩ := buildState_cons_ok h
    obtain ⟨a, b⟩ := ih h2
    refine ⟨fun x hx => ?_, fun hd => b (hd.add e)⟩
    rcases a x hx with hx' | ⟨c', hc', hr⟩
    · rcases mem_insertFileE hx' with rfl | hx''
      · exact .inr ⟨c, by simp, h1⟩
      · exact .inl hx''
    · exact .inr ⟨c', by simp [hc'], hr⟩

end RpmVerif.WithFile
