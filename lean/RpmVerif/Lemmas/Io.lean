import RpmVerif.Model.Io
import RpmVerif.Lemmas.Header
/-! Helper lemmas for C14: `write_all` against response scripts and keyed sinks; `read_exact` /
`read_to_end` over chunked sources equal list `take` / `drop`; every parsing stage fails with
`eof` on a strict prefix of the bytes it consumes. -/
namespace RpmVerif.Io
open RpmVerif.Hdr RpmVerif.Gen

/-! ### sink side -/

theorem writeAll_spec (buf : Bytes) (rs : List Resp) :
    (writeAll buf rs).1 <+: buf ∧ ((writeAll buf rs).2.1 = .ok → (writeAll buf rs).1 = buf)
      ∧ ((writeAll buf rs).2.1 = .starved → (writeAll buf rs).2.2 = []) := by
  fun_induction writeAll buf rs with
  | case1 rs => simp
  | case2 b bs => simp
  | case3 b bs rs ih => exact ih
  | case4 b bs rs => simp
  | case5 b bs rs => simp
  | case6 b bs n rs hn r ih =>
    obtain ⟨⟨t, ht⟩, h2, h3⟩ := ih
    refine ⟨⟨t, ?_⟩, ?_, h3⟩
    · rw [List.append_assoc, ht, List.take_append_drop]
    · intro h
      show _ ++ r.1 = _
      rw [h2 h, List.take_append_drop]

theorem exec_all (b : Bytes) (rs) : exec (.all b) rs = writeAll b rs := rfl

theorem run_cons (a : Act) (as : List Act) (rs : List Resp) :
    run (a :: as) rs = if (exec a rs).2.1 = .ok then
        ((exec a rs).1 ++ (run as (exec a rs).2.2).1, (run as (exec a rs).2.2).2.1, (run as (exec a rs).2.2).2.2)
      else exec a rs := by
  rw [run]
  split
  · rename_i e rs' h; simp [h]
  · rename_i e st rs' hne h
    have : st ≠ .ok := fun hh => hne hh
    simp [h, this]

theorem concat_cons (a : Act) (as : List Act) : concat (a :: as) = a.buf ++ concat as := by
  simp [concat]

theorem concat_append (as bs : List Act) : concat (as ++ bs) = concat as ++ concat bs := by
  simp [concat]

theorem run_spec (as : List Act) (hall : ∀ a ∈ as, a.isAll = true) (rs : List Resp) :
    (run as rs).1 <+: concat as ∧ ((run as rs).2.1 = .ok → (run as rs).1 = concat as)
      ∧ ((run as rs).2.1 = .starved → (run as rs).2.2 = []) := by
  induction as generalizing rs with
  | nil => simp [run, concat]
  | cons a as ih =>
    have ha := hall a (by simp)
    have has : ∀ a' ∈ as, a'.isAll = true := fun a' m => hall a' (by simp [m])
    cases a with
    | once b => simp [Act.isAll] at ha
    | all b =>
      obtain ⟨w1, w2, w3⟩ := writeAll_spec b rs
      rw [run_cons, exec_all, concat_cons]
      by_cases hst : (writeAll b rs).2.1 = .ok
      · rw [if_pos hst]
        obtain ⟨i1, i2, i3⟩ := ih has (writeAll b rs).2.2
        simp only [Act.buf]
        rw [w2 hst]
        refine ⟨(List.prefix_append_right_inj b).mpr i1, ?_, i3⟩
        intro h; rw [i2 h]
      · rw [if_neg hst]
        refine ⟨?_, fun h => absurd h hst, w3⟩
        exact List.IsPrefix.trans w1 (List.prefix_append _ _)

theorem concat_progLead (l : Lead) : concat (progLead l) = writeLead l := by
  simp [concat, progLead, writeLead, Act.buf]

theorem concat_entries (es : List Entry) : concat (es.map progEntry).flatten = (es.map writeEntry).flatten := by
  induction es with
  | nil => rfl
  | cons e es ih =>
    rw [List.map_cons, List.flatten_cons, concat_append, ih]
    simp [concat, progEntry, writeEntry, Act.buf]

theorem concat_progHeader (h : Header) : concat (progHeader h) = writeHeader h := by
  rw [progHeader, concat_append, concat_append, concat_entries]
  simp [concat, progIntro, writeHeader, writeIntro, Act.buf]

theorem concat_progSignature (h : Header) : concat (progSignature h) = writeSignature h := by
  rw [progSignature, concat_append, concat_progHeader, writeSignature]
  split
  · simp [concat, Act.buf]
  · rename_i hp
    have : sigPad h.dataSize = 0 := by omega
    simp [concat, this]

theorem concat_progMetadata (m : Metadata) : concat (progMetadata m) = writeMetadata m := by
  rw [progMetadata, concat_append, concat_append, concat_progLead, concat_progSignature, concat_progHeader, writeMetadata]

theorem all_append {as bs : List Act} (ha : ∀ a ∈ as, a.isAll = true) (hb : ∀ a ∈ bs, a.isAll = true) :
    ∀ a ∈ as ++ bs, a.isAll = true := by
  intro a m
  rcases List.mem_append.mp m with m | m
  · exact ha a m
  · exact hb a m

theorem all_progHeader (h : Header) : ∀ a ∈ progHeader h, a.isAll = true := by
  refine all_append (all_append ?_ ?_) ?_
  · simp [progIntro, Act.isAll]
  · intro a m
    obtain ⟨l, hl, ha⟩ := List.mem_flatten.mp m
    obtain ⟨e, _, rfl⟩ := List.mem_map.mp hl
    revert ha; simp only [progEntry, List.mem_cons, List.not_mem_nil, or_false]
    rintro (rfl | rfl | rfl | rfl) <;> rfl
  · simp [Act.isAll]

theorem all_progSignature (h : Header) : ∀ a ∈ progSignature h, a.isAll = true := by
  refine all_append (all_progHeader h) ?_
  split <;> simp [Act.isAll]

theorem all_progMetadata (m : Metadata) : ∀ a ∈ progMetadata m, a.isAll = true := by
  refine all_append (all_append ?_ (all_progSignature _)) (all_progHeader _)
  simp [progLead, Act.isAll]

/-! K sinks -/
theorem take_split {α} (l : List α) {k m : Nat} (h : k ≤ m) : l.take m = l.take k ++ (l.drop k).take (m - k) := by
  have : m = k + (m - k) := by omega
  rw [this, List.take_add]; congr 2; omega

theorem scriptWF_tail {c : Chunk} {sc : List Chunk} (h : ScriptWF (c :: sc)) : ScriptWF sc :=
  fun c' m => h c' (by simp [m])

theorem writeAllK_spec (limit : Nat) (buf : Bytes) (pat : List Chunk) (acc : Nat) (hwf : ScriptWF pat) (hacc : acc ≤ limit) :
    (writeAllK limit buf pat acc).1 = buf.take (limit - acc)
    ∧ (writeAllK limit buf pat acc).2.1 = (if acc + buf.length ≤ limit then .ok else .err)
    ∧ ScriptWF (writeAllK limit buf pat acc).2.2.1
    ∧ ((writeAllK limit buf pat acc).2.1 = .ok → (writeAllK limit buf pat acc).2.2.2 = acc + buf.length) := by
  fun_induction writeAllK limit buf pat acc with
  | case1 pat acc => simp [hwf, hacc]
  | case2 b bs acc h =>
    simp only [List.length_cons, if_pos h, true_and, ScriptWF]
    refine ⟨?_, by simp⟩
    rw [List.take_of_length_le]; simp only [List.length_cons]; omega
  | case3 b bs acc h =>
    simp only [List.length_cons, if_neg h, true_and, ScriptWF]
    exact ⟨by simp, by simp⟩
  | case4 b bs pat acc h =>
    have : limit - acc = 0 := by omega
    simp only [this, List.take_zero, List.length_cons, true_and]
    refine ⟨by rw [if_neg]; omega, scriptWF_tail hwf, by simp⟩
  | case5 b bs pat acc h ih => exact ih (scriptWF_tail hwf) hacc
  | case6 b bs n pat acc h =>
    have : limit - acc = 0 := by omega
    simp only [this, List.take_zero, List.length_cons, true_and]
    refine ⟨by rw [if_neg]; omega, scriptWF_tail hwf, by simp⟩
  | case7 b bs pat acc h => exact absurd rfl (hwf (.size 0) (by simp))
  | case8 b bs n pat acc h hn r ih =>
    have hlt : (List.take (min n (limit - acc)) (b :: bs)).length = min (min n (limit - acc)) (bs.length + 1) := by
      simp [List.length_take]
    obtain ⟨i1, i2, i3, i4⟩ := ih (scriptWF_tail hwf) (by rw [hlt]; omega)
    change r.1 = _ at i1
    change r.2.1 = _ at i2
    change ScriptWF r.2.2.1 at i3
    change r.2.1 = _ → r.2.2.2 = _ at i4
    clear_value r
    generalize hk : min n (limit - acc) = k at *
    have hk1 : k ≤ limit - acc := by omega
    have hlen : (List.drop k (b :: bs)).length = bs.length + 1 - k := by simp
    refine ⟨?_, ?_, i3, ?_⟩
    · show List.take k (b :: bs) ++ r.1 = _
      rw [i1, take_split (b :: bs) hk1, hlt]
      by_cases hc : k ≤ bs.length + 1
      · congr 2; omega
      · rw [List.drop_of_length_le (by simp only [List.length_cons]; omega)]; simp
    · show r.2.1 = _
      rw [i2, hlen, hlt]; simp only [List.length_cons]
      by_cases hc : acc + (bs.length + 1) ≤ limit
      · rw [if_pos hc, if_pos (by omega)]
      · rw [if_neg hc, if_neg (by omega)]
    · intro hh
      show r.2.2.2 = _
      rw [i4 hh, hlen, hlt]; simp only [List.length_cons]; omega

theorem runK_cons (limit : Nat) (b : Bytes) (bs : List Bytes) (pat : List Chunk) (acc : Nat) :
    runK limit (b :: bs) pat acc =
      if (writeAllK limit b pat acc).2.1 = .ok then
        ((writeAllK limit b pat acc).1 ++ (runK limit bs (writeAllK limit b pat acc).2.2.1 (writeAllK limit b pat acc).2.2.2).1,
         (runK limit bs (writeAllK limit b pat acc).2.2.1 (writeAllK limit b pat acc).2.2.2).2.1,
         (runK limit bs (writeAllK limit b pat acc).2.2.1 (writeAllK limit b pat acc).2.2.2).2.2)
      else writeAllK limit b pat acc := by
  rw [runK]
  split
  · rename_i e p a h; simp [h]
  · rename_i e st p a hne h
    have : st ≠ .ok := fun hh => hne hh
    simp [h, this]

theorem runK_spec (limit : Nat) (bufs : List Bytes) (pat : List Chunk) (acc : Nat) (hwf : ScriptWF pat) (hacc : acc ≤ limit) :
    (runK limit bufs pat acc).1 = bufs.flatten.take (limit - acc)
    ∧ (runK limit bufs pat acc).2.1 = (if acc + bufs.flatten.length ≤ limit then .ok else .err) := by
  induction bufs generalizing pat acc with
  | nil => simp [runK, hacc]
  | cons b bs ih =>
    obtain ⟨w1, w2, w3, w4⟩ := writeAllK_spec limit b pat acc hwf hacc
    rw [runK_cons]
    by_cases hc : acc + b.length ≤ limit
    · rw [if_pos hc] at w2
      rw [if_pos w2]
      obtain ⟨i1, i2⟩ := ih (writeAllK limit b pat acc).2.2.1 (writeAllK limit b pat acc).2.2.2 w3 (by rw [w4 w2]; exact hc)
      rw [w4 w2] at i1 i2
      refine ⟨?_, ?_⟩
      · show _ ++ _ = _
        rw [w4 w2, i1, w1, List.flatten_cons, List.take_append, Nat.sub_sub]
      · show (runK _ _ _ _).2.1 = _
        rw [w4 w2, i2, List.flatten_cons, List.length_append, Nat.add_assoc]
    · rw [if_neg hc] at w2
      rw [if_neg (by rw [w2]; decide)]
      refine ⟨?_, ?_⟩
      · rw [w1, List.flatten_cons, List.take_append_of_le_length (by omega)]
      · rw [w2, if_neg]; rw [List.flatten_cons, List.length_append]; omega

/-! ### a keyed sink is one of the response scripts -/
theorem writeAll_atLimit {a : Resp} (ha : a = .fail ∨ a = .ok 0) (b : UInt8) (bs : Bytes) (rest : List Resp) :
    writeAll (b :: bs) (a :: rest) = ([], .err, rest) := by
  rcases ha with rfl | rfl <;> simp [writeAll]

theorem writeAll_respK {a : Resp} (ha : a = .fail ∨ a = .ok 0) (limit : Nat) (buf : Bytes) (pat : List Chunk) (acc : Nat)
    (rest : List Resp) :
    writeAll buf (respK a limit buf pat acc ++ rest) =
      ((writeAllK limit buf pat acc).1, (writeAllK limit buf pat acc).2.1, rest) := by
  fun_induction writeAllK limit buf pat acc with
  | case1 pat acc => simp [respK, writeAll]
  | case2 b bs acc h =>
    simp only [respK, if_pos h, List.cons_append, List.nil_append]
    rw [writeAll, if_neg (by omega)]
    have : List.drop (bs.length + 1) (b :: bs) = [] := List.drop_of_length_le (by simp)
    rw [this]
    simp [writeAll, List.take_of_length_le]
  | case3 b bs acc h =>
    simp only [respK, if_neg h]
    by_cases hl : limit ≤ acc
    · rw [if_pos hl]
      have : limit - acc = 0 := by omega
      simp only [List.cons_append, List.nil_append, this, List.take_zero]
      exact writeAll_atLimit ha b bs rest
    · rw [if_neg hl]
      simp only [List.cons_append, List.nil_append]
      rw [writeAll, if_neg (by omega)]
      have hne : (List.drop (limit - acc) (b :: bs)).length ≠ 0 := by simp; omega
      match hd : List.drop (limit - acc) (b :: bs), hne with
      | c :: cs, _ => simp [writeAll_atLimit ha]
  | case4 b bs pat acc h =>
    simp only [respK, if_pos h, List.cons_append, List.nil_append]
    exact writeAll_atLimit ha b bs rest
  | case5 b bs pat acc h ih =>
    simp only [respK, if_neg h, List.cons_append]
    rw [writeAll]; exact ih
  | case6 b bs n pat acc h =>
    simp only [respK, if_pos h, List.cons_append, List.nil_append]
    exact writeAll_atLimit ha b bs rest
  | case7 b bs pat acc h =>
    simp only [respK, if_neg h, if_pos, List.cons_append, List.nil_append]
    simp [writeAll]
  | case8 b bs n pat acc h hn r ih =>
    simp only [respK, if_neg h, if_neg hn, List.cons_append]
    rw [writeAll, if_neg (by omega), ih]

theorem respRunK_cons (a : Resp) (limit : Nat) (b : Bytes) (bs : List Bytes) (pat : List Chunk) (acc : Nat) :
    respRunK a limit (b :: bs) pat acc =
      if (writeAllK limit b pat acc).2.1 = .ok then
        respK a limit b pat acc ++ respRunK a limit bs (writeAllK limit b pat acc).2.2.1 (writeAllK limit b pat acc).2.2.2
      else respK a limit b pat acc := by
  rw [respRunK]
  split
  · rename_i e p c h; simp [h]
  · rename_i hne
    rw [if_neg]
    intro hh
    exact hne (writeAllK limit b pat acc).1 (writeAllK limit b pat acc).2.2.1 (writeAllK limit b pat acc).2.2.2 (by rw [← hh])

theorem run_respRunK {a : Resp} (ha : a = .fail ∨ a = .ok 0) (limit : Nat) (bufs : List Bytes) (pat : List Chunk) (acc : Nat)
    (rest : List Resp) :
    run (bufs.map Act.all) (respRunK a limit bufs pat acc ++ rest) =
      ((runK limit bufs pat acc).1, (runK limit bufs pat acc).2.1, rest) := by
  induction bufs generalizing pat acc with
  | nil => simp [run, runK, respRunK]
  | cons b bs ih =>
    rw [List.map_cons, run_cons, exec_all, runK_cons, respRunK_cons]
    by_cases hst : (writeAllK limit b pat acc).2.1 = .ok
    · rw [if_pos hst, if_pos hst, List.append_assoc, writeAll_respK ha]
      dsimp only
      rw [if_pos hst, ih]
    · rw [if_neg hst, if_neg hst, writeAll_respK ha]
      dsimp only
      rw [if_neg hst]

/-! ### source side -/

/-- simulation between a chunked stage and the corresponding list-level stage -/
def Sim {α} (x : Out (α × Src)) (y : Out (α × Bytes)) : Prop :=
  match x with
  | .ok (a, s) => y = .ok (a, s.bytes) ∧ s.WF
  | .err c => y = .err c
  | .panic c => y = .panic c

theorem Sim_bind {α β} {x : Out (α × Src)} {y : Out (α × Bytes)} {f : α × Src → Out (β × Src)} {g : α × Bytes → Out (β × Bytes)}
    (h : Sim x y) (hf : ∀ a s, s.WF → Sim (f (a, s)) (g (a, s.bytes))) : Sim (x >>= f) (y >>= g) := by
  cases x with
  | ok p => obtain ⟨a, s⟩ := p; obtain ⟨rfl, w⟩ := h; exact hf a s w
  | err c => simp only [Sim] at h; subst h; rfl
  | panic c => simp only [Sim] at h; subst h; rfl

theorem Sim_bind_pure {γ α} (z : Out γ) {f : γ → Out (α × Src)} {g : γ → Out (α × Bytes)}
    (hf : ∀ v, Sim (f v) (g v)) : Sim (z >>= f) (z >>= g) := by
  cases z with
  | ok v => exact hf v
  | err c => rfl
  | panic c => rfl

theorem take_step (bs : Bytes) {m n : Nat} (hm : m ≤ n) :
    bs.take n = bs.take m ++ (bs.drop m).take (n - (bs.take m).length) := by
  rw [List.length_take]
  by_cases hc : m ≤ bs.length
  · rw [Nat.min_eq_left hc]; exact take_split bs hm
  · rw [List.drop_of_length_le (by omega), List.take_of_length_le (by omega), List.take_of_length_le (by omega)]; simp

theorem drop_step (bs : Bytes) {m n : Nat} (hm : m ≤ n) :
    (bs.drop m).drop (n - (bs.take m).length) = bs.drop n := by
  rw [List.length_take, List.drop_drop]
  by_cases hc : m ≤ bs.length
  · rw [Nat.min_eq_left hc]; congr 1; omega
  · rw [List.drop_of_length_le (by omega), List.drop_of_length_le (by omega)]

theorem takeN_step (bs : Bytes) {m n : Nat} (hm : m ≤ n) :
    takeN n bs = (takeN (n - (bs.take m).length) (bs.drop m)).map fun p => (bs.take m ++ p.1, p.2) := by
  unfold takeN
  have hl : (bs.take m).length = min m bs.length := List.length_take
  by_cases hc : n ≤ bs.length
  · rw [if_pos hc, if_pos (by rw [hl, List.length_drop]; omega)]
    simp only [Out.map]
    rw [← take_step bs hm, drop_step bs hm]
  · rw [if_neg hc, if_neg (by rw [hl, List.length_drop]; omega)]
    rfl

theorem Sim_map {α β} {x : Out (α × Src)} {y : Out (α × Bytes)} (g : α → β) (h : Sim x y) :
    Sim (x.map fun p => (g p.1, p.2)) (y.map fun p => (g p.1, p.2)) := by
  cases x with
  | ok p => obtain ⟨a, s⟩ := p; obtain ⟨rfl, w⟩ := h; exact ⟨rfl, w⟩
  | err c => simp only [Sim] at h; subst h; rfl
  | panic c => simp only [Sim] at h; subst h; rfl

theorem take_len_zero {bs : Bytes} {m : Nat} (hm : m ≠ 0) (h : (bs.take m).length = 0) : bs = [] := by
  rw [List.length_take] at h
  exact List.length_eq_zero_iff.mp (by omega)

theorem readExactAux_sim (n : Nat) (bs : Bytes) (sc : List Chunk) (hwf : ScriptWF sc) :
    Sim (readExactAux n bs sc) (takeN n bs) := by
  fun_induction readExactAux n bs sc with
  | case1 bs sc => simp [Sim, takeN, Src.WF, hwf]
  | case2 n bs h => simp [Sim, takeN, h, Src.WF, ScriptWF]
  | case3 n bs h => simp [Sim, takeN, h]
  | case4 n bs sc ih => exact ih (scriptWF_tail hwf)
  | case5 n bs k sc hz =>
    have hk : k ≠ 0 := fun h0 => hwf (.size k) (by simp) (by rw [h0])
    have := take_len_zero (show min k (n + 1) ≠ 0 by omega) hz
    subst this
    simp [Sim, takeN]
  | case6 n bs k sc hz ih =>
    rw [takeN_step bs (show min k (n + 1) ≤ n + 1 by omega)]
    exact Sim_map _ (ih (scriptWF_tail hwf))

theorem readExact_sim (n : Nat) (s : Src) (hwf : s.WF) : Sim (readExact n s) (takeN n s.bytes) :=
  readExactAux_sim n s.bytes s.script hwf

theorem readTakeAux_spec (l : Nat) (bs : Bytes) (sc : List Chunk) (hwf : ScriptWF sc) :
    (readTakeAux l bs sc).1 = bs.take l ∧ (readTakeAux l bs sc).2.bytes = bs.drop l ∧ (readTakeAux l bs sc).2.WF := by
  fun_induction readTakeAux l bs sc with
  | case1 bs sc => simp [Src.WF, hwf]
  | case2 l bs => simp [Src.WF, ScriptWF]
  | case3 l bs sc ih => exact ih (scriptWF_tail hwf)
  | case4 l bs k sc hz =>
    have hk : k ≠ 0 := fun h0 => hwf (.size k) (by simp) (by rw [h0])
    have := take_len_zero (show min k (l + 1) ≠ 0 by omega) hz
    subst this
    simp [Src.WF, scriptWF_tail hwf]
  | case5 l bs k sc hz r ih =>
    obtain ⟨i1, i2, i3⟩ := ih (scriptWF_tail hwf)
    change r.1 = _ at i1
    change r.2.bytes = _ at i2
    change r.2.WF at i3
    clear_value r
    have hm : min k (l + 1) ≤ l + 1 := by omega
    refine ⟨?_, ?_, i3⟩
    · show List.take _ bs ++ r.1 = _
      rw [i1]; exact (take_step bs hm).symm
    · show r.2.bytes = _
      rw [i2]; exact drop_step bs hm

theorem readToEndAux_spec (bs : Bytes) (sc : List Chunk) (hwf : ScriptWF sc) : readToEndAux bs sc = bs := by
  fun_induction readToEndAux bs sc with
  | case1 bs => rfl
  | case2 bs sc ih => exact ih (scriptWF_tail hwf)
  | case3 bs k sc hz =>
    have hk : k ≠ 0 := fun h0 => hwf (.size k) (by simp) (by rw [h0])
    exact (take_len_zero hk hz).symm
  | case4 bs k sc hz ih =>
    rw [ih (scriptWF_tail hwf), List.take_append_drop]

theorem Sim_pure {α} (a : α) (s : Src) (r : Bytes) (h : r = s.bytes) (w : s.WF) :
    Sim (pure (a, s) : Out (α × Src)) (pure (a, r)) := by
  subst h; exact ⟨rfl, w⟩

theorem parseHeaderC_sim (s : Src) (hwf : s.WF) : Sim (parseHeaderC s) (parseHeader s.bytes) := by
  unfold parseHeaderC parseHeader
  refine Sim_bind (readExact_sim _ s hwf) ?_
  intro intro s1 w1
  dsimp only
  refine Sim_bind_pure _ ?_
  rintro ⟨n, dl⟩
  dsimp only
  obtain ⟨t1, t2, t3⟩ := readTakeAux_spec (dl + n * INDEX_ENTRY_SIZE) s1.bytes s1.script w1
  unfold readTake
  generalize readTakeAux (dl + n * INDEX_ENTRY_SIZE) s1.bytes s1.script = r at t1 t2 t3
  obtain ⟨buf, s2⟩ := r
  dsimp only at t1 t2 t3 ⊢
  subst t1
  unfold takeN
  by_cases hl : dl + n * INDEX_ENTRY_SIZE ≤ s1.bytes.length
  · rw [if_pos hl, if_neg (by simp; omega)]
    simp only [Out.bind_ok]
    refine Sim_bind_pure _ ?_
    rintro ⟨raw, store⟩
    dsimp only
    refine Sim_bind_pure _ ?_
    intro es
    exact Sim_pure _ _ _ t2.symm t3
  · rw [if_neg hl, if_pos (by simp; omega)]
    rfl

theorem parseSignatureC_sim (s : Src) (hwf : s.WF) : Sim (parseSignatureC s) (parseSignature s.bytes) := by
  unfold parseSignatureC parseSignature
  refine Sim_bind (parseHeaderC_sim s hwf) ?_
  intro h s1 w1
  dsimp only
  refine Sim_bind (readExact_sim _ s1 w1) ?_
  intro _ s2 w2
  exact Sim_pure _ _ _ rfl w2

theorem parseMetadataC_sim (s : Src) (hwf : s.WF) : Sim (parseMetadataC s) (parseMetadata s.bytes) := by
  unfold parseMetadataC parseMetadata
  refine Sim_bind (readExact_sim _ s hwf) ?_
  intro lb s1 w1
  dsimp only
  refine Sim_bind_pure _ ?_
  intro lead
  refine Sim_bind (parseSignatureC_sim s1 w1) ?_
  intro sig s2 w2
  dsimp only
  refine Sim_bind (parseHeaderC_sim s2 w2) ?_
  intro hdr s3 w3
  exact Sim_pure _ _ _ rfl w3

theorem parseChunked_eq (bs : Bytes) (sc : List Chunk) (hwf : ScriptWF sc) : parseChunked bs sc = parsePackage bs := by
  have h := parseMetadataC_sim ⟨bs, sc⟩ hwf
  unfold parseChunked parsePackage
  dsimp only at h
  cases hx : parseMetadataC ⟨bs, sc⟩ with
  | ok p =>
    obtain ⟨m, s⟩ := p
    rw [hx] at h
    obtain ⟨e, w⟩ := h
    rw [e]
    simp only [Out.bind_ok, Out.pure_eq, readToEnd, readToEndAux_spec _ _ w]
  | err c => rw [hx] at h; simp only [Sim] at h; rw [h]; rfl
  | panic c => rw [hx] at h; simp only [Sim] at h; rw [h]; rfl


/-! ### truncation -/

theorem takeN_short {n : Nat} {y : Bytes} (h : y.length < n) : takeN n y = .err "eof" := by
  unfold takeN; rw [if_neg (by omega)]

theorem hdrBytes_len {res : Bytes} {h : Header} (hr : res.length = 4) (wf : HeaderWF h) :
    (hdrBytes res h).length = 16 + (h.dataSize + h.nEntries * 16) := by
  simp only [hdrBytes, List.length_append, hmagic, be32_length, writeRaws_length, List.length_map, wf.nEq, wf.dlEq, hr,
    List.length_cons, List.length_nil]
  omega

theorem parseHeader_trunc {h : Header} (wf : HeaderWF h) {res : Bytes} (hr : res.length = 4) (k : Nat)
    (hk : k < (hdrBytes res h).length) : parseHeader ((hdrBytes res h).take k) = .err "eof" := by
  have hlen := hdrBytes_len hr wf
  have hlenI : (HEADER_MAGIC ++ [1] ++ res ++ be32 h.nEntries ++ be32 h.dataSize).length = INDEX_HEADER_SIZE := by
    simp [hmagic, be32_length, hr, ihs]
  have hsplit : hdrBytes res h = (HEADER_MAGIC ++ [1] ++ res ++ be32 h.nEntries ++ be32 h.dataSize) ++
      (writeRaws (h.entries.map Entry.raw) ++ h.store) := by simp only [hdrBytes, List.append_assoc]
  by_cases h16 : k < 16
  · rw [parseHeader, takeN_short (by rw [ihs, List.length_take]; omega)]; rfl
  · rw [hsplit, List.take_append, List.take_of_length_le (by rw [hlenI, ihs]; omega), parseHeader, ← hlenI, takeN_append]
    simp only [Out.bind_ok]
    rw [parseIntro_write hr wf.nLt wf.dlLt]
    simp only [Out.bind_ok]
    rw [takeN_short]; rfl
    have hB : (writeRaws (h.entries.map Entry.raw) ++ h.store).length = h.dataSize + h.nEntries * 16 := by
      simp only [List.length_append, writeRaws_length, List.length_map, wf.nEq, wf.dlEq]; omega
    rw [List.length_take, hlenI, ihs, ies, hB]
    omega

theorem parseSignature_trunc {h : Header} (wf : HeaderWF h) {res pad : Bytes} (hr : res.length = 4)
    (hpad : pad.length = sigPad h.dataSize) (k : Nat) (hk : k < (hdrBytes res h ++ pad).length) :
    parseSignature ((hdrBytes res h ++ pad).take k) = .err "eof" := by
  by_cases hc : k < (hdrBytes res h).length
  · rw [List.take_append_of_le_length (by omega), parseSignature, parseHeader_trunc wf hr k hc]; rfl
  · rw [List.take_append, List.take_of_length_le (by omega), parseSignature, parseHeader_write wf hr]
    simp only [Out.bind_ok]
    rw [takeN_short]; rfl
    rw [List.length_append] at hk
    rw [List.length_take, ← hpad]; omega

theorem metaBytes_len {m : Metadata} (wf : MetadataWF m) {res1 pad res2 : Bytes} (h1 : res1.length = 4)
    (hpad : pad.length = sigPad m.signature.dataSize) (h2 : res2.length = 4) :
    (metaBytes res1 pad res2 m).length = (writeMetadata m).length := by
  rw [writeMetadata_eq]
  simp only [metaBytes, List.length_append, hdrBytes_len h1 wf.sig, hdrBytes_len h2 wf.hdr,
    hdrBytes_len (show ([0, 0, 0, 0] : Bytes).length = 4 from rfl) wf.sig,
    hdrBytes_len (show ([0, 0, 0, 0] : Bytes).length = 4 from rfl) wf.hdr, hpad, List.length_replicate]

theorem parseMetadata_trunc {m : Metadata} (wf : MetadataWF m) {res1 pad res2 : Bytes} (h1 : res1.length = 4)
    (hpad : pad.length = sigPad m.signature.dataSize) (h2 : res2.length = 4) (k : Nat)
    (hk : k < (metaBytes res1 pad res2 m).length) :
    parseMetadata ((metaBytes res1 pad res2 m).take k) = .err "eof" := by
  have hL := writeLead_length wf.lead
  have e : metaBytes res1 pad res2 m = writeLead m.lead ++ ((hdrBytes res1 m.signature ++ pad) ++ hdrBytes res2 m.header) := by
    simp only [metaBytes, List.append_assoc]
  rw [e] at hk ⊢
  by_cases h96 : k < 96
  · rw [parseMetadata, takeN_short (by rw [lds, List.length_take]; omega)]; rfl
  · rw [List.take_append, List.take_of_length_le (by omega), parseMetadata, lds, ← hL, takeN_append]
    simp only [Out.bind_ok]
    rw [parseLead_write wf.lead]
    simp only [Out.bind_ok]
    rw [List.length_append, hL] at hk
    by_cases hs : k - 96 < (hdrBytes res1 m.signature ++ pad).length
    · rw [hL, List.take_append_of_le_length (by omega), parseSignature_trunc wf.sig h1 hpad _ hs]; rfl
    · rw [hL, List.take_append, List.take_of_length_le (by omega), parseSignature_write wf.sig h1 hpad]
      simp only [Out.bind_ok]
      rw [parseHeader_trunc wf.hdr h2]; rfl
      rw [List.length_append] at hk
      omega

end RpmVerif.Io
