import RpmVerif.Lemmas.Cpio
import RpmVerif.Spec.RpmValid
/-! Helper lemmas for C09: what the Spec's independent newc reader (`RpmValid.readEntry`, a transcription of rpm's
`rpmcpioHeaderRead`) makes of the bytes rpm-rs' writer model (`Cpio.intoHeader`, `Cpio.writeEntry`, `Cpio.strippedHeader`) emits. -/
namespace RpmVerif.RpmValid
open RpmVerif RpmVerif.Cpio RpmVerif.Gen

theorem hexDigit?_hexDig_fin : ∀ d : Fin 16, hexDigit? (hexDig d.val) = some d.val := by decide
theorem hexDigit?_hexDig {d : Nat} (h : d < 16) : hexDigit? (hexDig d) = some d := hexDigit?_hexDig_fin ⟨d, h⟩

/-- `{:08x}` of a 32-bit number is a numeric field in rpm's sense, with that value -/
theorem hexField_fmtHex8 {n : Nat} (h : n < 4294967296) : hexField (fmtHex8 n) = some n := by
  have m : ∀ k, k % 16 < 16 := fun k => Nat.mod_lt _ (by decide)
  simp only [hexField, fmtHex8, hexDigit?_hexDig (m _), Option.bind_eq_bind, Option.bind_some, Option.pure_def, Option.some.injEq]
  omega

theorem rdField_fmt {n : Nat} (h : n < 4294967296) (r : Bytes) : rdField (fmtHex8 n ++ r) = some (n, r) := by
  simp only [rdField, List.take_left' (fmtHex8_length n), List.drop_left' (fmtHex8_length n), hexField_fmtHex8 h, Option.map_some]

theorem pad4_eq_padLen (n : Nat) : pad4 n = padLen n := by
  unfold pad4 padLen; split <;> omega

theorem skipN_append {n : Nat} {a : Bytes} (h : a.length = n) (r : Bytes) : skipN n (a ++ r) = some r := by
  subst h; simp [skipN]

theorem takeWhile_ne_zero (name rest : Bytes) (h : ∀ b ∈ name, b ≠ 0) : (name ++ 0 :: rest).takeWhile (· != 0) = name := by
  induction name with
  | nil => simp
  | cons a t ih =>
    have ha : a ≠ 0 := h a (by simp)
    simp only [List.cons_append, List.takeWhile_cons, bne_iff_ne, ne_eq, ha, not_false_eq_true, if_true, List.cons.injEq, true_and]
    exact ih (fun b hb => h b (by simp [hb]))

/-- the Spec's reader on a header written by `Builder::into_header` -/
theorem readEntry_intoHeader {m : EntryMeta} (hm : m.WF) {fs : Nat} (hfs : fs < 4294967296)
    (ck : Option Nat) (hck : ck.getD 0 < 4294967296) (rest : Bytes) :
    readEntry (intoHeader m fs ck ++ rest) = some (.newc m.name m.mode m.nlink fs, rest) := by
  have hnl : m.name.length + 1 < 4294967296 := by have := hm.nameLen; simp only [cpioNameLenMax] at this; omega
  have hnl' : m.name.length + 1 ≤ 4096 := hm.nameLen
  have h6 : (if ck.isSome then cpioMagicCrc else cpioMagicNewc).length = 6 := by split <;> rfl
  have hmag : ((if ck.isSome then cpioMagicCrc else cpioMagicNewc) = [48, 55, 48, 55, 48, 49] ∨
      (if ck.isSome then cpioMagicCrc else cpioMagicNewc) = [48, 55, 48, 55, 48, 50]) := by
    split
    · exact Or.inr rfl
    · exact Or.inl rfl
  have hlen : m.name.length + 1 ≤ (m.name ++ ([0] ++ (pad (cpioHeaderLen + (m.name.length + 1)) ++ rest))).length := by
    simp only [List.length_append, List.length_cons, List.length_nil]; omega
  have htake : (m.name ++ ([0] ++ (pad (cpioHeaderLen + (m.name.length + 1)) ++ rest))).take (m.name.length + 1) = m.name ++ [0] := by
    rw [← List.append_assoc]; exact List.take_left' (by simp)
  have hdrop : (m.name ++ ([0] ++ (pad (cpioHeaderLen + (m.name.length + 1)) ++ rest))).drop (m.name.length + 1)
      = pad (cpioHeaderLen + (m.name.length + 1)) ++ rest := by
    rw [← List.append_assoc]; exact List.drop_left' (by simp)
  have hpad : skipN (pad4 (110 + (m.name.length + 1))) (pad (cpioHeaderLen + (m.name.length + 1)) ++ rest) = some rest :=
    skipN_append (by rw [pad_length, pad4_eq_padLen]; rfl) rest
  have htw : (m.name ++ [0]).takeWhile (· != 0) = m.name := takeWhile_ne_zero m.name [] hm.nameNulFree
  unfold readEntry intoHeader
  simp only [List.append_assoc, List.take_left' h6, List.drop_left' h6, hmag, if_true,
    rdField_fmt hm.ino, rdField_fmt hm.mode, rdField_fmt hm.uid, rdField_fmt hm.gid, rdField_fmt hm.nlink,
    rdField_fmt hm.mtime, rdField_fmt hfs, rdField_fmt hm.devMajor, rdField_fmt hm.devMinor,
    rdField_fmt hm.rdevMajor, rdField_fmt hm.rdevMinor, rdField_fmt hnl, rdField_fmt hck,
    Option.bind_eq_bind, Option.bind_some, Option.pure_def, htake, hdrop, hpad, htw,
    List.getLast?_append, List.getLast?_singleton]
  have h1 : ¬ (m.name.length + 1 = 0 ∨ 4096 < m.name.length + 1 ∨
      (m.name ++ ([0] ++ (pad (cpioHeaderLen + (m.name.length + 1)) ++ rest))).length < m.name.length + 1) := by
    omega
  simp
  omega

theorem skipData_append (c rest : Bytes) : skipData c.length (c ++ (pad c.length ++ rest)) = some rest := by
  unfold skipData
  rw [← List.append_assoc]
  exact skipN_append (by simp [pad_length, pad4_eq_padLen]) rest

/-- the Spec's reader on a whole entry written by `write_cpio … finish` -/
theorem readEntry_writeEntry {m : EntryMeta} (hm : m.WF) {c : Bytes} (hc : c.length < 4294967296)
    (ck : Option Nat) (hck : ck.getD 0 < 4294967296) (rest : Bytes) :
    readEntry (writeEntry m c ck ++ rest) = some (.newc m.name m.mode m.nlink c.length, c ++ (pad c.length ++ rest)) := by
  simp only [writeEntry, List.append_assoc, readEntry_intoHeader hm hc ck hck]
  rw [pad, padLen_add_mul4 _ (intoHeader_length m c.length ck), ← pad]

/-- the Spec's reader on `stripped_cpio_header(idx)` -/
theorem readEntry_strippedHeader {idx : Nat} (hi : idx < 4294967296) (rest : Bytes) :
    readEntry (strippedHeader idx ++ rest) = some (.stripped idx, rest) := by
  have h6 : cpioMagicStripped.length = 6 := rfl
  have hp : skipN 2 (pad cpioStrippedHeaderLen ++ rest) = some rest := skipN_append (by decide) rest
  have e1 : ¬ (cpioMagicStripped = [48, 55, 48, 55, 48, 49] ∨ cpioMagicStripped = [48, 55, 48, 55, 48, 50]) := by decide
  have e2 : cpioMagicStripped = [48, 55, 48, 55, 48, 88] := rfl
  unfold readEntry strippedHeader
  simp only [List.append_assoc, List.take_left' h6, List.drop_left' h6]
  rw [if_neg e1, if_pos e2]
  simp only [rdField_fmt hi, hp, Option.bind_eq_bind, Option.bind_some, Option.pure_def]

end RpmVerif.RpmValid
