import RpmVerif.Lemmas.Vercmp
/-!
C13: the Rust function works on `char`s, rpm's on bytes. For any encoding that maps ASCII code points to
themselves and every other code point to a non-empty run of bytes ≥ 128 (UTF-8 does), the token keys of a
string and of its encoding coincide — every byte of a non-ASCII character is a separator, exactly like
the character itself.
-/
set_option linter.unusedVariables false
namespace RpmVerif.Vercmp

/-- what the proof needs from the encoding -/
structure AsciiTransparent (enc : Nat → List Nat) : Prop where
  ascii : ∀ c, c < 128 → enc c = [c]
  high : ∀ c, 128 ≤ c → enc c ≠ [] ∧ ∀ b ∈ enc c, 128 ≤ b

def encode (enc : Nat → List Nat) (l : List Nat) : List Nat := l.flatMap enc

theorem sep_of_high {b : Nat} (h : 128 ≤ b) : isSep b = true := by
  simp only [isSep, isDigit, isAlpha, Bool.and_eq_true, Bool.not_eq_true', Bool.and_eq_false_iff,
    Bool.or_eq_false_iff, decide_eq_false_iff_not, bne_iff_ne, ne_eq]
  omega

theorem not_digit_of_high {b : Nat} (h : 128 ≤ b) : isDigit b = false := by
  simp only [isDigit, Bool.and_eq_false_iff, decide_eq_false_iff_not]; omega
theorem not_alpha_of_high {b : Nat} (h : 128 ≤ b) : isAlpha b = false := by
  simp only [isAlpha, Bool.or_eq_false_iff, Bool.and_eq_false_iff, decide_eq_false_iff_not]; omega

theorem dropWhile_all {p : Nat → Bool} {l r : List Nat} (h : ∀ b ∈ l, p b = true) : (l ++ r).dropWhile p = r.dropWhile p := by
  induction l with
  | nil => rfl
  | cons x xs ih =>
    simp only [List.cons_append, List.dropWhile_cons, h x (by simp), if_true]
    exact ih (fun b hb => h b (by simp [hb]))

theorem encode_cons {enc : Nat → List Nat} (c : Nat) (l : List Nat) : encode enc (c :: l) = enc c ++ encode enc l := by
  simp [encode]

section generic
variable {enc : Nat → List Nat} (E : AsciiTransparent enc)
include E

/-- dropping separators commutes with encoding -/
theorem dropWhile_sep_encode (l : List Nat) :
    (encode enc l).dropWhile isSep = encode enc (l.dropWhile isSep) := by
  induction l with
  | nil => rfl
  | cons c cs ih =>
    rw [encode_cons]
    by_cases hc : c < 128
    · rw [E.ascii c hc]
      simp only [List.cons_append, List.nil_append, List.dropWhile_cons]
      split
      · exact ih
      · rw [encode_cons, E.ascii c hc]; rfl
    · have hh : 128 ≤ c := by omega
      rw [dropWhile_all (fun b hb => sep_of_high ((E.high c hh).2 b hb)), ih]
      simp only [List.dropWhile_cons, sep_of_high hh, if_true]

/-- a digit / letter run of the encoding is the run of the string, and the rest is the encoding of the rest -/
theorem run_encode (p : Nat → Bool) (hp : ∀ b, 128 ≤ b → p b = false) (l : List Nat) :
    (encode enc l).takeWhile p = l.takeWhile p ∧ (encode enc l).dropWhile p = encode enc (l.dropWhile p) := by
  induction l with
  | nil => exact ⟨rfl, rfl⟩
  | cons c cs ih =>
    rw [encode_cons]
    by_cases hc : c < 128
    · rw [E.ascii c hc]
      simp only [List.cons_append, List.nil_append, List.takeWhile_cons, List.dropWhile_cons]
      split
      · exact ⟨by rw [ih.1], ih.2⟩
      · exact ⟨rfl, by rw [encode_cons, E.ascii c hc]; rfl⟩
    · have hh : 128 ≤ c := by omega
      obtain ⟨hne, hb⟩ := E.high c hh
      cases he : enc c with
      | nil => exact absurd he hne
      | cons b bs =>
        have hb0 : p b = false := hp b (hb b (by rw [he]; simp))
        simp only [List.cons_append, List.takeWhile_cons, List.dropWhile_cons, hb0, hp c hh, Bool.false_eq_true, if_false]
        refine ⟨trivial, ?_⟩
        rw [encode_cons, he]; rfl

/-- **keys are invariant under the encoding** -/
theorem key_encode (l : List Nat) : key (encode enc l) = key l := by
  induction hn : l.length using Nat.strongRecOn generalizing l with
  | _ n ih =>
    have hd := dropWhile_sep_encode E l
    cases hl : l.dropWhile isSep with
    | nil =>
      rw [key_nil hl, key_nil (by rw [hd, hl]; rfl)]
    | cons x r =>
      have hxs := dw_sep_head hl
      have hx128 : x < 128 := by
        by_cases h : x < 128
        · exact h
        · have := sep_of_high (show 128 ≤ x by omega); rw [this] at hxs; cases hxs
      have hlen : r.length < l.length := by
        have := dw_le isSep l; rw [hl] at this; simp at this; omega
      have hde : (encode enc l).dropWhile isSep = x :: encode enc r := by
        rw [hd, hl, encode_cons, E.ascii x hx128]; rfl
      rw [key_cons hl, key_cons hde]
      have e1 : (x :: encode enc r) = encode enc (x :: r) := by rw [encode_cons, E.ascii x hx128]; rfl
      by_cases h1 : x = 126
      · simp only [h1, if_true]
        rw [ih r.length (by omega) r rfl]
      · by_cases h2 : x = 94
        · simp only [h1, h2, if_true, if_false]
          rw [ih r.length (by omega) r rfl]
        · simp only [h1, h2, if_false]
          by_cases h3 : isDigit x = true
          · simp only [h3, if_true]
            obtain ⟨t1, t2⟩ := run_encode E isDigit (fun b hb => not_digit_of_high hb) (x :: r)
            rw [e1, t1, t2]
            have hlt : ((x :: r).dropWhile isDigit).length < l.length := by
              have := dw_lt (r := r) h3; simp at this ⊢; omega
            rw [ih _ (by omega) _ rfl]
          · simp only [h3, Bool.false_eq_true, if_false]
            have ha : isAlpha x = true := alpha_of_not_digit hl h1 h2 h3
            obtain ⟨t1, t2⟩ := run_encode E isAlpha (fun b hb => not_alpha_of_high hb) (x :: r)
            rw [e1, t1, t2]
            have hlt : ((x :: r).dropWhile isAlpha).length < l.length := by
              have := dw_lt (r := r) ha; simp at this ⊢; omega
            rw [ih _ (by omega) _ rfl]

end generic

/-! ### UTF-8 is ASCII-transparent -/

/-- UTF-8 encoding of a scalar value (as byte values) -/
def utf8 (c : Nat) : List Nat :=
  if c < 0x80 then [c]
  else if c < 0x800 then [0xC0 + c / 64, 0x80 + c % 64]
  else if c < 0x10000 then [0xE0 + c / 4096, 0x80 + c / 64 % 64, 0x80 + c % 64]
  else [0xF0 + c / 262144 % 8, 0x80 + c / 4096 % 64, 0x80 + c / 64 % 64, 0x80 + c % 64]

theorem utf8_transparent : AsciiTransparent utf8 where
  ascii c h := by simp [utf8, h]
  high c h := by
    unfold utf8
    have h0 : ¬ c < 128 := by omega
    rw [if_neg h0]
    split
    · exact ⟨by simp, by intro b hb; simp at hb; omega⟩
    · split
      · exact ⟨by simp, by intro b hb; simp at hb; omega⟩
      · exact ⟨by simp, by intro b hb; simp at hb; omega⟩

end RpmVerif.Vercmp
