import RpmVerif.Model.FileIter
import RpmVerif.Lemmas.Cpio
/-!
Lemmas for Model/FileIter.lean: the position-keeping readers have the outcomes of the `Out`-valued readers of
Model/Cpio.lean (`readerNewS_out`, `readDataS_out`), the counter of `next` (`next_count`), fuel independence of
`drain`, and `iterateE` as the prefix of the drained items up to the first error (`iterateE_is_prefix_gen`).
-/
namespace RpmVerif.FileIter
open RpmVerif.Cpio RpmVerif.Gen

/-! ## the readers that keep the stream have the outcomes of `readerNew` / `readData` -/

/-- outcome of a `Rd (PayloadEntry × Nat)` in the tuple shape of `readerNew` -/
def out3 (m : Rd (PayloadEntry × Nat)) (bs : Bytes) : Out (PayloadEntry × Nat × Bytes) :=
  match m bs with
  | (.ok (e, fs), r) => .ok (e, fs, r)
  | (.err c, _) => .err c
  | (.panic s, _) => .panic s

theorem out_exact (n : Nat) (bs : Bytes) : (exact n).out bs = takeN n bs := by
  unfold Rd.out exact takeN
  by_cases h : n ≤ bs.length <;> simp only [h, if_true, if_false]

theorem out3_bind {α} (m : Rd α) (f : α → Rd (PayloadEntry × Nat)) (bs : Bytes) :
    out3 (m >>= f) bs = (m.out bs >>= fun x => out3 (f x.1) x.2) := by
  show out3 (Rd.bind m f) bs = _
  unfold out3 Rd.out Rd.bind
  rcases h : m bs with ⟨o, r⟩
  cases o <;> rfl

theorem out_bind {α β} (m : Rd α) (f : α → Rd β) (bs : Bytes) :
    (m >>= f).out bs = (m.out bs >>= fun x => (f x.1).out x.2) := by
  show (Rd.bind m f).out bs = _
  unfold Rd.out Rd.bind
  rcases h : m bs with ⟨o, r⟩
  cases o <;> rfl

theorem out_hex8 (bs : Bytes) : hex8.out bs = readHex8 bs := by
  unfold hex8 readHex8
  rw [out_bind, out_exact]
  cases takeN 8 bs with
  | ok x =>
    obtain ⟨f, r⟩ := x
    show Rd.out _ r = _
    simp only [Out.bind_ok]
    cases parseHex8 f <;> rfl
  | err c => rfl
  | panic s => rfl

theorem out3_ite (c : Prop) [Decidable c] (a b : Rd (PayloadEntry × Nat)) (bs : Bytes) :
    out3 (if c then a else b) bs = if c then out3 a bs else out3 b bs := by split <;> rfl

theorem bind_congr' {α β} (x : Out α) (f g : α → Out β) (h : ∀ a, f a = g a) : (x >>= f) = (x >>= g) := by
  cases x <;> simp [h]

/-- `readerNewS` is `Cpio.readerNew` plus the stream position on errors -/
theorem readerNewS_out (sizes : List Nat) (bs : Bytes) : out3 (readerNewS sizes) bs = readerNew sizes bs := by
  unfold readerNewS readerNew
  rw [out3_bind, out_exact]
  refine bind_congr' _ _ _ (fun ⟨magic, r⟩ => ?_)
  dsimp only
  rw [out3_ite]
  split
  · repeat (rw [out3_bind, out_hex8]; refine bind_congr' _ _ _ (fun ⟨_, r⟩ => ?_); dsimp only)
    rw [out3_ite]; split
    · rfl
    rw [out3_bind, out_exact]; refine bind_congr' _ _ _ (fun ⟨_, r⟩ => ?_); dsimp only
    rw [out3_ite]; split
    · rfl
    rw [out3_ite]; split
    · rfl
    rw [out3_bind, out_exact]; refine bind_congr' _ _ _ (fun ⟨_, r⟩ => ?_); rfl
  · rw [out3_ite]; split
    · rw [out3_bind, out_hex8]; refine bind_congr' _ _ _ (fun ⟨idx, r⟩ => ?_); dsimp only
      rw [out3_bind, out_exact]; refine bind_congr' _ _ _ (fun ⟨_, r⟩ => ?_); dsimp only
      rw [out3_ite]; split
      · rfl
      · cases sizes[idx]? <;> rfl
    · rfl

/-- `readDataS` is `Cpio.readData` plus the stream position on errors -/
theorem readDataS_out (fileSize : Nat) (r : Bytes) : (readDataS fileSize).out r = readData fileSize r := by
  unfold Rd.out readDataS readData
  by_cases h : (r.take fileSize).length < fileSize
  · simp only [h, if_true]
  · simp only [h, if_false]
    have := out_exact (padLen fileSize) (r.drop fileSize)
    unfold Rd.out at this
    rw [← this]
    rcases exact (padLen fileSize) (r.drop fileSize) with ⟨o, r'⟩
    cases o <;> rfl

/-- what one `next()` body does, in terms of the `Out`-valued readers of Model/Cpio.lean -/
theorem stepMem_spec (paths : List Bytes) (sizes : List Nat) (bs : Bytes) :
    match readerNew sizes bs with
    | .ok (e, fileSize, r) =>
      if isTrailer e then stepMem paths sizes bs = .trailer r else
      match fileIndex paths e with
      | none => stepMem paths sizes bs = .item (.err "no-such-file") r
      | some i =>
        match readData fileSize r with
        | .ok (content, r') => stepMem paths sizes bs = .item (.ok (i, e, content)) r'
        | .err c => ∃ s, stepMem paths sizes bs = .item (.err c) s
        | .panic p => ∃ s, stepMem paths sizes bs = .item (.panic p) s
    | .err c => ∃ s, stepMem paths sizes bs = .item (.err c) s
    | .panic p => ∃ s, stepMem paths sizes bs = .item (.panic p) s := by
  have h1 := readerNewS_out sizes bs
  unfold out3 at h1
  unfold stepMem
  rcases hS : readerNewS sizes bs with ⟨o, r⟩
  rw [hS] at h1
  cases o with
  | err c => dsimp only at h1 ⊢; rw [← h1]; exact ⟨r, rfl⟩
  | panic p => dsimp only at h1 ⊢; rw [← h1]; exact ⟨r, rfl⟩
  | ok x =>
    obtain ⟨e, fs⟩ := x
    dsimp only at h1 ⊢; rw [← h1]; dsimp only
    cases ht : isTrailer e with
    | true => simp only [if_true]
    | false =>
      simp only [Bool.false_eq_true, if_false]
      cases fileIndex paths e with
      | none => rfl
      | some i =>
        dsimp only
        have h2 := readDataS_out fs r
        unfold Rd.out at h2
        rcases hD : readDataS fs r with ⟨o2, r2⟩
        rw [hD] at h2
        cases o2 with
        | ok c => dsimp only at h2 ⊢; rw [← h2]
        | err c => dsimp only at h2 ⊢; rw [← h2]; exact ⟨r2, rfl⟩
        | panic p => dsimp only at h2 ⊢; rw [← h2]; exact ⟨r2, rfl⟩

/-! ## the counter -/

variable {σ : Type}

theorem next_of_ge (step : σ → Step σ) (n : Nat) (st : St σ) (h : st.count ≥ n) : next step n st = (none, st) := by
  unfold next; rw [if_pos h]

/-- every call leaves the state alone (guard) or adds exactly one to `count` -/
theorem next_count (step : σ → Step σ) (n : Nat) (st : St σ) :
    (st.count ≥ n ∧ next step n st = (none, st)) ∨
    (st.count < n ∧ (next step n st).2.count = st.count + 1) := by
  unfold next
  by_cases h : st.count ≥ n
  · left; exact ⟨h, by rw [if_pos h]⟩
  · right; refine ⟨by omega, ?_⟩
    rw [if_neg h]; cases step st.stream <;> rfl

/-- an item is only handed out by a call that got past the guard and counted -/
theorem next_some_count (step : σ → Step σ) (n : Nat) (st : St σ) (o : Out Item) (st' : St σ)
    (h : next step n st = (some o, st')) : st.count < n ∧ st'.count = st.count + 1 := by
  rcases next_count step n st with ⟨_, h2⟩ | ⟨h1, h2⟩
  · rw [h2] at h; cases h
  · rw [h] at h2; exact ⟨h1, h2⟩

theorem drain_length (step : σ → Step σ) (n : Nat) (fuel : Nat) (st : St σ) :
    (drain step n fuel st).length ≤ n - st.count := by
  induction fuel generalizing st with
  | zero => simp [drain]
  | succ k ih =>
    unfold drain
    split
    · simp
    · next o st' h =>
      obtain ⟨h1, h2⟩ := next_some_count step n st o st' h
      have := ih st'
      simp only [List.length_cons]; omega

theorem drain_fuel (step : σ → Step σ) (n : Nat) (fuel : Nat) (st : St σ) (hf : n - st.count ≤ fuel) :
    drain step n fuel st = drain step n (n - st.count) st := by
  induction fuel generalizing st with
  | zero =>
    have : n - st.count = 0 := by omega
    rw [this]
  | succ k ih =>
    by_cases hc : st.count ≥ n
    · have h0 : n - st.count = 0 := by omega
      rw [h0]; unfold drain; rw [next_of_ge step n st hc]
    · obtain ⟨m, hm⟩ : ∃ m, n - st.count = m + 1 := ⟨n - st.count - 1, by omega⟩
      rw [hm]
      unfold drain
      cases h : next step n st with
      | mk a st' =>
        cases a with
        | none => rfl
        | some o =>
          obtain ⟨h1, h2⟩ := next_some_count step n st o st' h
          dsimp only
          have e : m = n - st'.count := by omega
          rw [ih st' (by omega), e]

theorem answers_some_le (step : σ → Step σ) (n : Nat) (k : Nat) (st : St σ) :
    ((answers step n k st).filter Option.isSome).length ≤ n - st.count := by
  induction k generalizing st with
  | zero => simp [answers]
  | succ k ih =>
    unfold answers
    rcases next_count step n st with ⟨h1, h2⟩ | ⟨h1, h2⟩
    · rw [h2]; have := ih st
      simp only [List.filter_cons, Option.isSome_none, Bool.false_eq_true, if_false]; exact this
    · have := ih (next step n st).2
      rw [List.filter_cons]; split <;> (try simp only [List.length_cons]) <;> omega

theorem stateAfter_count_ge (step : σ → Step σ) (n : Nat) (k : Nat) (st : St σ) (h : st.count + k ≥ n) :
    (stateAfter step n k st).count ≥ n := by
  induction k generalizing st with
  | zero => simpa [stateAfter] using h
  | succ k ih =>
    unfold stateAfter
    rcases next_count step n st with ⟨h1, h2⟩ | ⟨h1, h2⟩
    · rw [h2]; exact ih st (by omega)
    · exact ih _ (by omega)

/-! ## `iterateE` is the prefix up to the first error -/

theorem iterateE_is_prefix_gen (after : Bytes → Bytes) (paths : List Bytes) (sizes : List Nat) (n fuel c : Nat) (bs : Bytes)
    (h : c + fuel ≤ n) :
    uptoErr (drain (stepAfter after paths sizes) n fuel ⟨c, bs⟩) = iterateE paths sizes fuel bs := by
  induction fuel generalizing c bs with
  | zero => rfl
  | succ k ih =>
    have hs := stepMem_spec paths sizes bs
    unfold drain next iterateE stepAfter
    have hc : ¬ (c ≥ n) := by omega
    simp only [hc, if_false]
    cases hr : readerNew sizes bs with
    | err e => rw [hr] at hs; obtain ⟨s, hs⟩ := hs; rw [hs]; rfl
    | panic p => rw [hr] at hs; obtain ⟨s, hs⟩ := hs; rw [hs]; rfl
    | ok x =>
      obtain ⟨e, fs, r⟩ := x
      rw [hr] at hs; dsimp only at hs ⊢
      cases ht : isTrailer e with
      | true => rw [ht] at hs; simp only [if_true] at hs; rw [hs]; simp [uptoErr]
      | false =>
        rw [ht] at hs; simp only [Bool.false_eq_true, if_false] at hs ⊢
        cases hf : fileIndex paths e with
        | none => rw [hf] at hs; dsimp only at hs; rw [hs]; rfl
        | some i =>
          rw [hf] at hs; dsimp only at hs ⊢
          cases hd : readData fs r with
          | err e => rw [hd] at hs; obtain ⟨s, hs⟩ := hs; rw [hs]; rfl
          | panic p => rw [hd] at hs; obtain ⟨s, hs⟩ := hs; rw [hs]; rfl
          | ok y =>
            obtain ⟨content, r'⟩ := y
            rw [hd] at hs; dsimp only at hs ⊢; rw [hs]; dsimp only
            simp only [uptoErr]
            have := ih (c + 1) r' (by omega)
            unfold stepAfter at this
            rw [this]

theorem stepAfter_id (paths : List Bytes) (sizes : List Nat) : stepAfter id paths sizes = stepMem paths sizes := by
  funext bs
  unfold stepAfter
  cases stepMem paths sizes bs with
  | trailer s => rfl
  | item o s => cases o <;> rfl

theorem uptoErr_of_all_ok {α} (l : List (Out α)) (h : ∀ o ∈ l, o.isOk = true) : uptoErr l = l := by
  induction l with
  | nil => rfl
  | cons o r ih =>
    cases o with
    | ok a => simp only [uptoErr]; rw [ih (fun o ho => h o (List.mem_cons_of_mem _ ho))]
    | err c => have := h (.err c) (List.mem_cons_self ..); cases this
    | panic s => have := h (.panic s) (List.mem_cons_self ..); cases this

/-- `uptoErr` keeps a list without errors, and otherwise ends with its first error: if the result has no error the
list had none -/
theorem uptoErr_all_ok_iff {α} (l : List (Out α)) (h : ∀ o ∈ uptoErr l, o.isOk = true) : uptoErr l = l := by
  induction l with
  | nil => rfl
  | cons o r ih =>
    cases o with
    | ok a =>
      simp only [uptoErr] at h ⊢
      rw [ih (fun o ho => h o (List.mem_cons_of_mem _ ho))]
    | err c => have := h (.err c) (by simp [uptoErr]); cases this
    | panic s => have := h (.panic s) (by simp [uptoErr]); cases this

/-- on a stream that is used up every further call is an `UnexpectedEof` error item -/
theorem stepMem_nil (paths : List Bytes) (sizes : List Nat) : stepMem paths sizes [] = .item (.err "eof") [] := rfl

theorem drain_nil (paths : List Bytes) (sizes : List Nat) (n fuel c : Nat) :
    drain (stepMem paths sizes) n fuel ⟨c, []⟩ = List.replicate (min fuel (n - c)) (.err "eof") := by
  induction fuel generalizing c with
  | zero => simp [drain]
  | succ k ih =>
    unfold drain next
    by_cases hc : c ≥ n
    · simp only [hc, if_true]
      have : n - c = 0 := by omega
      simp [this]
    · simp only [hc, if_false, stepMem_nil]
      rw [ih (c + 1)]
      have : min (k + 1) (n - c) = min k (n - (c + 1)) + 1 := by omega
      rw [this, List.replicate_succ]

end RpmVerif.FileIter
