import RpmVerif.Model.Version
/-! Lemmas about the three splitters of `Model/Version.lean` (all strings, any length). -/
namespace RpmVerif.Version
open RpmVerif.Vercmp

theorem splitOnce_none {c : Nat} {s : Str} (h : c ∉ s) : splitOnce c s = none := by
  induction s with
  | nil => rfl
  | cons x xs ih =>
    have hx : x ≠ c := fun e => h (by simp [e])
    have hxs : c ∉ xs := fun m => h (List.mem_cons_of_mem _ m)
    simp [splitOnce, hx, ih hxs]

/-- `split_once` finds the first occurrence -/
theorem splitOnce_append {c : Nat} {a : Str} (b : Str) (h : c ∉ a) :
    splitOnce c (a ++ c :: b) = some (a, b) := by
  induction a with
  | nil => simp [splitOnce]
  | cons x xs ih =>
    have hx : x ≠ c := fun e => h (by simp [e])
    have hxs : c ∉ xs := fun m => h (List.mem_cons_of_mem _ m)
    simp [splitOnce, hx, ih hxs]

/-- the first part returned by `split_once` never contains the separator, and the parts re-assemble -/
theorem splitOnce_some {c : Nat} {s a b : Str} (h : splitOnce c s = some (a, b)) :
    s = a ++ c :: b ∧ c ∉ a := by
  induction s generalizing a with
  | nil => simp [splitOnce] at h
  | cons x xs ih =>
    simp only [splitOnce] at h
    split at h
    · next hx => cases h; simp [hx]
    · next hx =>
      split at h
      · next a' b' h' =>
        cases h
        obtain ⟨rfl, hn⟩ := ih h'
        refine ⟨by simp, ?_⟩
        intro m
        rcases List.mem_cons.mp m with e | m
        · exact hx e.symm
        · exact hn m
      · cases h

theorem splitOnce_eq_none {c : Nat} {s : Str} (h : splitOnce c s = none) : c ∉ s := by
  induction s with
  | nil => simp
  | cons x xs ih =>
    simp only [splitOnce] at h
    split at h
    · cases h
    · next hx =>
      split at h
      · cases h
      · next h' =>
        intro m
        rcases List.mem_cons.mp m with e | m
        · exact hx e.symm
        · exact ih h' m

theorem rsplitOnce_none {c : Nat} {s : Str} (h : c ∉ s) : rsplitOnce c s = none := by
  induction s with
  | nil => rfl
  | cons x xs ih =>
    have hx : x ≠ c := fun e => h (by simp [e])
    have hxs : c ∉ xs := fun m => h (List.mem_cons_of_mem _ m)
    simp [rsplitOnce, hx, ih hxs]

/-- `rsplit_once` finds the last occurrence -/
theorem rsplitOnce_append {c : Nat} (a : Str) {b : Str} (h : c ∉ b) :
    rsplitOnce c (a ++ c :: b) = some (a, b) := by
  induction a with
  | nil => simp [rsplitOnce, rsplitOnce_none h]
  | cons x xs ih => simp [rsplitOnce, ih]

theorem rsplitOnce2_none0 {c : Nat} {s : Str} (h : c ∉ s) : rsplitOnce2 c s = none := by
  induction s with
  | nil => rfl
  | cons x xs ih =>
    have hx : x ≠ c := fun e => h (by simp [e])
    have hxs : c ∉ xs := fun m => h (List.mem_cons_of_mem _ m)
    simp [rsplitOnce2, hx, ih hxs]

/-- a text with exactly one separator has no second-to-last one -/
theorem rsplitOnce2_none1 {c : Nat} {a b : Str} (ha : c ∉ a) (hb : c ∉ b) :
    rsplitOnce2 c (a ++ c :: b) = none := by
  induction a with
  | nil => simp [rsplitOnce2, rsplitOnce2_none0 hb, hb]
  | cons x xs ih =>
    have hx : x ≠ c := fun e => ha (by simp [e])
    have hxs : c ∉ xs := fun m => ha (List.mem_cons_of_mem _ m)
    simp [rsplitOnce2, hx, ih hxs]

/-- `rmatch_indices(c).nth(1)`: the split is at the second-to-last occurrence, whatever precedes it -/
theorem rsplitOnce2_append {c : Nat} (a : Str) {b d : Str} (hb : c ∉ b) (hd : c ∉ d) :
    rsplitOnce2 c (a ++ c :: (b ++ c :: d)) = some (a, b ++ c :: d) := by
  induction a with
  | nil => simp [rsplitOnce2, rsplitOnce2_none1 hb hd]
  | cons x xs ih => simp [rsplitOnce2, ih]

/-! ## shapes of the texts and of the parse results (helpers for Props/C15) -/

/-! ### the two text shapes of an EVR -/

/-- `E:V-R` with ':' ∉ E, '-' ∉ V (R arbitrary; V and R may contain ':') -/
theorem evrParse_epoch {E V : Str} (R : Str) (hE : 58 ∉ E) (hV : 45 ∉ V) :
    evrParseValues (E ++ 58 :: (V ++ 45 :: R)) = (E, V, R) := by
  simp [evrParseValues, splitOnce_append _ hE, splitOnce_append _ hV]

/-- `V-R` with no ':' at all and '-' ∉ V -/
theorem evrParse_noEpoch {V R : Str} (hV : 45 ∉ V) (hV' : 58 ∉ V) (hR : 58 ∉ R) :
    evrParseValues (V ++ 45 :: R) = ([], V, R) := by
  have h : 58 ∉ V ++ 45 :: R := by simp [hV', hR]
  simp [evrParseValues, splitOnce_none h, splitOnce_append _ hV]

theorem epochOr0_ne_nil (E : Str) : epochOr0 E ≠ [] := by
  unfold epochOr0; cases E <;> simp

theorem epochOr0_not_mem {c : Nat} {E : Str} (hc : c ≠ 48) (h : c ∉ E) : c ∉ epochOr0 E := by
  unfold epochOr0; cases E with
  | nil => simp [hc]
  | cons x xs => simpa using h

theorem evr_eq_refl (e : Evr) : e.eq e = true := by simp [Evr.eq]

/-- `N-E:V-R.A` : the name is arbitrary -/
theorem nevraParse_epoch (N : Str) {E V R A : Str} (hE : 45 ∉ E) (hE' : 58 ∉ E) (hV : 45 ∉ V) (hR : 45 ∉ R)
    (hA : 45 ∉ A) (hA' : 46 ∉ A) :
    nevraParseValues (N ++ 45 :: (E ++ 58 :: (V ++ 45 :: (R ++ 46 :: A)))) = (N, E, V, R, A) := by
  have h1 : 45 ∉ E ++ 58 :: V := by simp [hE, hV]
  have h2 : 45 ∉ R ++ 46 :: A := by simp [hR, hA]
  have e1 : N ++ 45 :: (E ++ 58 :: (V ++ 45 :: (R ++ 46 :: A))) = N ++ 45 :: ((E ++ 58 :: V) ++ 45 :: (R ++ 46 :: A)) := by simp
  rw [e1]
  simp only [nevraParseValues, rsplitOnce2_append N h1 h2]
  have e2 : (E ++ 58 :: V) ++ 45 :: (R ++ 46 :: A) = E ++ 58 :: (V ++ 45 :: (R ++ 46 :: A)) := by simp
  rw [e2]
  simp [splitOnce_append _ hE', splitOnce_append _ hV, rsplitOnce_append _ hA']

/-- `N-V-R.A` with no ':' after the name -/
theorem nevraParse_noEpoch (N : Str) {V R A : Str} (hV : 45 ∉ V) (hR : 45 ∉ R) (hA : 45 ∉ A) (hA' : 46 ∉ A)
    (cV : 58 ∉ V) (cR : 58 ∉ R) (cA : 58 ∉ A) :
    nevraParseValues (N ++ 45 :: (V ++ 45 :: (R ++ 46 :: A))) = (N, [], V, R, A) := by
  have h2 : 45 ∉ R ++ 46 :: A := by simp [hR, hA]
  have h3 : 58 ∉ V ++ 45 :: (R ++ 46 :: A) := by simp [cV, cR, cA]
  simp [nevraParseValues, rsplitOnce2_append N hV h2, splitOnce_none h3, splitOnce_append _ hV,
    rsplitOnce_append _ hA']

theorem nevra_eq_refl (n : Nevra) : n.eq n = true := by simp [Nevra.eq, evr_eq_refl]

/-- the four paths through `Evr::parse_values` -/
theorem evrParse_cases (s : Str) :
    (splitOnce 58 s = none ∧ splitOnce 45 s = none ∧ evrParseValues s = ([], s, [])) ∨
    (∃ v r, splitOnce 58 s = none ∧ splitOnce 45 s = some (v, r) ∧ evrParseValues s = ([], v, r)) ∨
    (∃ e b, splitOnce 58 s = some (e, b) ∧ splitOnce 45 b = none ∧ evrParseValues s = (e, b, [])) ∨
    (∃ e b v r, splitOnce 58 s = some (e, b) ∧ splitOnce 45 b = some (v, r) ∧ evrParseValues s = (e, v, r)) := by
  cases h1 : splitOnce 58 s with
  | none =>
    cases h2 : splitOnce 45 s with
    | none => left; simp [evrParseValues, h1, h2]
    | some p => obtain ⟨v, r⟩ := p; right; left; exact ⟨v, r, rfl, rfl, by simp [evrParseValues, h1, h2]⟩
  | some p =>
    obtain ⟨e, b⟩ := p
    cases h2 : splitOnce 45 b with
    | none => right; right; left; exact ⟨e, b, rfl, h2, by simp [evrParseValues, h1, h2]⟩
    | some q => obtain ⟨v, r⟩ := q; right; right; right; exact ⟨e, b, v, r, rfl, h2, by simp [evrParseValues, h1, h2]⟩

/-- the epoch returned by `Evr::parse_values` never contains ':' and the version never contains '-' -/
theorem evrParse_shape (s : Str) : 58 ∉ (evrParseValues s).1 ∧ 45 ∉ (evrParseValues s).2.1 := by
  rcases evrParse_cases s with ⟨h1, h2, h⟩ | ⟨v, r, h1, h2, h⟩ | ⟨e, b, h1, h2, h⟩ | ⟨e, b, v, r, h1, h2, h⟩ <;> rw [h]
  · exact ⟨by simp, splitOnce_eq_none h2⟩
  · exact ⟨by simp, (splitOnce_some h2).2⟩
  · exact ⟨(splitOnce_some h1).2, splitOnce_eq_none h2⟩
  · exact ⟨(splitOnce_some h1).2, (splitOnce_some h2).2⟩

/-- if a text without epoch part parses back to an empty epoch and the same V, R, it holds no ':' -/
theorem evr_noEpoch_conv {V R : Str} (h : evrParseValues (V ++ 45 :: R) = ([], V, R)) :
    58 ∉ V ++ 45 :: R := by
  rcases evrParse_cases (V ++ 45 :: R) with ⟨h1, h2, h'⟩ | ⟨v, r, h1, h2, h'⟩ | ⟨e, b, h1, h2, h'⟩ | ⟨e, b, v, r, h1, h2, h'⟩
  · exact splitOnce_eq_none h1
  · exact splitOnce_eq_none h1
  · rw [h'] at h
    simp only [Prod.mk.injEq] at h
    obtain ⟨rfl, rfl, rfl⟩ := h
    have hs := (splitOnce_some h1).1
    have hm : 45 ∈ b ++ [45] := by simp
    rw [hs] at hm
    simp at hm
    exact absurd hm (splitOnce_eq_none h2)
  · rw [h'] at h
    simp only [Prod.mk.injEq] at h
    obtain ⟨rfl, rfl, rfl⟩ := h
    have hl := congrArg List.length (splitOnce_some h1).1
    rw [(splitOnce_some h2).1] at hl
    simp at hl

/-! ## converse direction: what a successful NEVRA round trip implies (weakest guards) -/

theorem rsplitOnce_eq_none {c : Nat} {s : Str} (h : rsplitOnce c s = none) : c ∉ s := by
  induction s with
  | nil => simp
  | cons x xs ih =>
    simp only [rsplitOnce] at h
    split at h
    · cases h
    · next h' =>
      split at h
      · cases h
      · next hx =>
        intro m
        rcases List.mem_cons.mp m with e | m
        · exact hx e.symm
        · exact ih h' m

theorem rsplitOnce_some {c : Nat} {s a b : Str} (h : rsplitOnce c s = some (a, b)) :
    s = a ++ c :: b ∧ c ∉ b := by
  induction s generalizing a with
  | nil => simp [rsplitOnce] at h
  | cons x xs ih =>
    simp only [rsplitOnce] at h
    split at h
    · next a' b' h' =>
      cases h
      obtain ⟨rfl, hn⟩ := ih h'
      exact ⟨by simp, hn⟩
    · next h' =>
      split at h
      · next hx => cases h; exact ⟨by simp [hx], rsplitOnce_eq_none h'⟩
      · cases h

theorem rsplitOnce2_count_le {c : Nat} {s : Str} (h : rsplitOnce2 c s = none) : s.count c ≤ 1 := by
  induction s with
  | nil => simp
  | cons x xs ih =>
    simp only [rsplitOnce2] at h
    split at h
    · cases h
    · next h' =>
      split at h
      · cases h
      · next hx =>
        have := ih h'
        by_cases e : x = c
        · subst e
          have hm : x ∉ xs := fun m => hx ⟨rfl, m⟩
          simp [List.count_eq_zero.mpr hm]
        · have : (x == c) = false := by simpa using e
          simp [List.count_cons, this]; omega

theorem rsplitOnce2_some {c : Nat} {s a b : Str} (h : rsplitOnce2 c s = some (a, b)) :
    s = a ++ c :: b ∧ b.count c = 1 := by
  induction s generalizing a with
  | nil => simp [rsplitOnce2] at h
  | cons x xs ih =>
    simp only [rsplitOnce2] at h
    split at h
    · next a' b' h' =>
      cases h
      obtain ⟨rfl, hn⟩ := ih h'
      exact ⟨by simp, hn⟩
    · next h' =>
      split at h
      · next hx =>
        cases h
        refine ⟨by simp [hx.1], ?_⟩
        have h1 := rsplitOnce2_count_le h'
        have h2 : 0 < b.count c := List.count_pos_iff.mpr hx.2
        omega
      · cases h

/-- the name / rest split of `Nevra::parse_values` -/
def nameSplit (s : Str) : Str × Str :=
  match rsplitOnce2 45 s with
  | some p => p
  | none => (splitOnce 45 s).getD (s, [])

/-- the epoch / version / release / arch part of `Nevra::parse_values` -/
def evraParse (t : Str) : Str × Str × Str × Str :=
  let p2 := (splitOnce 58 t).getD ([], t)
  let p3 := (splitOnce 45 p2.2).getD (p2.2, [])
  let p4 := (rsplitOnce 46 p3.2).getD (p3.2, [])
  (p2.1, p3.1, p4.1, p4.2)

theorem nevraParse_eq (s : Str) : nevraParseValues s = ((nameSplit s).1, evraParse (nameSplit s).2) := by
  unfold nevraParseValues nameSplit evraParse
  cases rsplitOnce2 45 s <;> rfl

theorem nameSplit_conv {N T T' : Str} (h : nameSplit (N ++ 45 :: T) = (N, T')) (hT : 45 ∈ T) :
    T' = T ∧ T.count 45 = 1 := by
  unfold nameSplit at h
  cases h1 : rsplitOnce2 45 (N ++ 45 :: T) with
  | none =>
    have := rsplitOnce2_count_le h1
    have h2 : 0 < T.count 45 := List.count_pos_iff.mpr hT
    simp [List.count_append] at this
    omega
  | some p =>
    obtain ⟨a, b⟩ := p
    rw [h1] at h
    simp only [Prod.mk.injEq] at h
    obtain ⟨rfl, rfl⟩ := h
    obtain ⟨hs, hc⟩ := rsplitOnce2_some h1
    have := List.append_cancel_left hs
    simp only [List.cons.injEq, true_and] at this
    subst this
    exact ⟨rfl, hc⟩

theorem evraParse_conv_epoch {E V R A : Str} (hV : 45 ∉ V)
    (h : evraParse (E ++ 58 :: (V ++ 45 :: (R ++ 46 :: A))) = (E, V, R, A)) : 58 ∉ E ∧ 46 ∉ A := by
  unfold evraParse at h
  cases h1 : splitOnce 58 (E ++ 58 :: (V ++ 45 :: (R ++ 46 :: A))) with
  | none => exact absurd (splitOnce_eq_none h1) (by simp)
  | some p =>
    obtain ⟨e', vra⟩ := p
    obtain ⟨hs, he⟩ := splitOnce_some h1
    rw [h1] at h
    simp only [Option.getD_some] at h
    have hE : e' = E := congrArg Prod.fst h
    subst hE
    have := List.append_cancel_left hs
    simp only [List.cons.injEq, true_and] at this
    subst this
    rw [splitOnce_append _ hV] at h
    simp only [Option.getD_some] at h
    cases h3 : rsplitOnce 46 (R ++ 46 :: A) with
    | none => exact absurd (rsplitOnce_eq_none h3) (by simp)
    | some q =>
      obtain ⟨r', a'⟩ := q
      rw [h3] at h
      simp only [Option.getD_some, Prod.mk.injEq, true_and] at h
      obtain ⟨_, rfl⟩ := h
      exact ⟨he, (rsplitOnce_some h3).2⟩

theorem evraParse_conv_noEpoch {V R A : Str} (hV : 45 ∉ V)
    (h : evraParse (V ++ 45 :: (R ++ 46 :: A)) = ([], V, R, A)) : 58 ∉ V ∧ 58 ∉ R ∧ 58 ∉ A ∧ 46 ∉ A := by
  unfold evraParse at h
  cases h1 : splitOnce 58 (V ++ 45 :: (R ++ 46 :: A)) with
  | none =>
    have hc := splitOnce_eq_none h1
    rw [h1] at h
    simp only [Option.getD_none, splitOnce_append _ hV, Option.getD_some] at h
    cases h3 : rsplitOnce 46 (R ++ 46 :: A) with
    | none => exact absurd (rsplitOnce_eq_none h3) (by simp)
    | some q =>
      obtain ⟨r', a'⟩ := q
      rw [h3] at h
      simp only [Option.getD_some, Prod.mk.injEq, true_and] at h
      obtain ⟨_, rfl⟩ := h
      simp only [List.mem_append, List.mem_cons, not_or] at hc
      exact ⟨hc.1, hc.2.2.1, hc.2.2.2.2, (rsplitOnce_some h3).2⟩
  | some p =>
    exfalso
    obtain ⟨e', vra⟩ := p
    obtain ⟨hs, _⟩ := splitOnce_some h1
    rw [h1] at h
    simp only [Option.getD_some] at h
    have hE : e' = [] := congrArg Prod.fst h
    subst hE
    simp only [List.nil_append] at hs
    cases h2 : splitOnce 45 vra with
    | none =>
      have h45 : 45 ∈ V ++ 45 :: (R ++ 46 :: A) := by simp
      rw [hs] at h45
      simp at h45
      exact splitOnce_eq_none h2 h45
    | some q =>
      obtain ⟨v', ra⟩ := q
      obtain ⟨hvra, _⟩ := splitOnce_some h2
      rw [h2] at h
      simp only [Option.getD_some] at h
      have hv : v' = V := congrArg (fun p => p.2.1) h
      subst hv
      cases h3 : rsplitOnce 46 ra with
      | none =>
        rw [h3] at h
        simp only [Option.getD_none, Prod.mk.injEq, true_and] at h
        obtain ⟨rfl, rfl⟩ := h
        have h46 := rsplitOnce_eq_none h3
        have hl := congrArg (List.count 46) hs
        rw [hvra] at hl
        simp [List.count_append, List.count_eq_zero.mpr h46] at hl
      | some w =>
        obtain ⟨r', a'⟩ := w
        rw [h3] at h
        simp only [Option.getD_some, Prod.mk.injEq, true_and] at h
        obtain ⟨rfl, rfl⟩ := h
        have hl := congrArg List.length hs
        rw [hvra, (rsplitOnce_some h3).1] at hl
        simp at hl

/-- converse of `nevraParse_epoch`: if `N-E:V-R.A` parses back to exactly (N,E,V,R,A), the components are clean -/
theorem nevraParse_epoch_conv {N E V R A : Str}
    (hp : nevraParseValues (N ++ 45 :: (E ++ 58 :: (V ++ 45 :: (R ++ 46 :: A)))) = (N, E, V, R, A)) :
    45 ∉ E ∧ 58 ∉ E ∧ 45 ∉ V ∧ 45 ∉ R ∧ 45 ∉ A ∧ 46 ∉ A := by
  rw [nevraParse_eq] at hp
  have h1 : (nameSplit (N ++ 45 :: (E ++ 58 :: (V ++ 45 :: (R ++ 46 :: A))))).1 = N := congrArg Prod.fst hp
  have he : evraParse (nameSplit (N ++ 45 :: (E ++ 58 :: (V ++ 45 :: (R ++ 46 :: A))))).2 = (E, V, R, A) :=
    congrArg Prod.snd hp
  have hn : nameSplit (N ++ 45 :: (E ++ 58 :: (V ++ 45 :: (R ++ 46 :: A)))) =
      (N, (nameSplit (N ++ 45 :: (E ++ 58 :: (V ++ 45 :: (R ++ 46 :: A))))).2) := Prod.ext h1 rfl
  obtain ⟨hT, hc⟩ := nameSplit_conv hn (by simp)
  rw [hT] at he
  simp only [List.count_append, List.count_cons_self, List.count_cons_of_ne (show (46:Nat) ≠ 45 by decide),
    List.count_cons_of_ne (show (58:Nat) ≠ 45 by decide)] at hc
  have hc : E.count 45 = 0 ∧ V.count 45 = 0 ∧ R.count 45 = 0 ∧ A.count 45 = 0 := by omega
  have hV := List.count_eq_zero.mp hc.2.1
  obtain ⟨c1, c4⟩ := evraParse_conv_epoch hV he
  exact ⟨List.count_eq_zero.mp hc.1, c1, hV, List.count_eq_zero.mp hc.2.2.1, List.count_eq_zero.mp hc.2.2.2, c4⟩

/-- converse of `nevraParse_noEpoch` -/
theorem nevraParse_noEpoch_conv {N V R A : Str}
    (hp : nevraParseValues (N ++ 45 :: (V ++ 45 :: (R ++ 46 :: A))) = (N, [], V, R, A)) :
    45 ∉ V ∧ 45 ∉ R ∧ 45 ∉ A ∧ 46 ∉ A ∧ 58 ∉ V ∧ 58 ∉ R ∧ 58 ∉ A := by
  rw [nevraParse_eq] at hp
  have h1 : (nameSplit (N ++ 45 :: (V ++ 45 :: (R ++ 46 :: A)))).1 = N := congrArg Prod.fst hp
  have he : evraParse (nameSplit (N ++ 45 :: (V ++ 45 :: (R ++ 46 :: A)))).2 = ([], V, R, A) := congrArg Prod.snd hp
  have hn : nameSplit (N ++ 45 :: (V ++ 45 :: (R ++ 46 :: A))) =
      (N, (nameSplit (N ++ 45 :: (V ++ 45 :: (R ++ 46 :: A)))).2) := Prod.ext h1 rfl
  obtain ⟨hT, hc⟩ := nameSplit_conv hn (by simp)
  rw [hT] at he
  simp only [List.count_append, List.count_cons_self, List.count_cons_of_ne (show (46:Nat) ≠ 45 by decide)] at hc
  have hc : V.count 45 = 0 ∧ R.count 45 = 0 ∧ A.count 45 = 0 := by omega
  have hV := List.count_eq_zero.mp hc.1
  obtain ⟨c1, c2, c3, c4⟩ := evraParse_conv_noEpoch hV he
  exact ⟨hV, List.count_eq_zero.mp hc.2.1, List.count_eq_zero.mp hc.2.2, c4, c1, c2, c3⟩

theorem epochOr0_not_mem_conv {c : Nat} {E : Str} (h : c ∉ epochOr0 E) : c ∉ E := by
  unfold epochOr0 at h
  cases E with
  | nil => simp
  | cons x xs => simpa using h

theorem nevraParse_inj {s : Str} {N E V R A : Str} (h : Nevra.parse s = ⟨N, ⟨E, V, R⟩, A⟩) :
    nevraParseValues s = (N, E, V, R, A) := by
  simp only [Nevra.parse, Nevra.mk.injEq, Evr.mk.injEq] at h
  exact Prod.ext h.1 (Prod.ext h.2.1.1 (Prod.ext h.2.1.2.1 (Prod.ext h.2.1.2.2 h.2.2)))

end RpmVerif.Version
