import RpmVerif.Model.Header
/-! Helper lemmas for the header layer: every successful parse pins the input bytes down exactly. -/
namespace RpmVerif.Hdr
open RpmVerif.Gen

theorem rd8_ok {bs n r} (h : rd8 bs = .ok (n, r)) : bs = [n.toUInt8] ++ r ∧ n < 256 := by
  match bs, h with
  | a :: r', h =>
    simp only [rd8, Out.ok.injEq, Prod.mk.injEq] at h
    obtain ⟨rfl, rfl⟩ := h
    refine ⟨?_, a.toNat_lt⟩
    simp only [List.cons_append, List.nil_append, List.cons.injEq, and_true]
    apply UInt8.toNat_inj.mp; simp only [Nat.toUInt8, UInt8.toNat_ofNat']
    have := a.toNat_lt; omega

theorem rd8_write {n} (h : n < 256) (r : Bytes) : rd8 ([n.toUInt8] ++ r) = .ok (n, r) := by
  simp only [rd8, List.cons_append, List.nil_append]
  congr 2
  simp only [Nat.toUInt8, UInt8.toNat_ofNat']; omega

theorem rd16_ok {bs n r} (h : rd16 bs = .ok (n, r)) : bs = be16 n ++ r ∧ n < 65536 := by
  match bs, h with
  | a :: b :: r', h =>
    simp only [rd16, Out.ok.injEq, Prod.mk.injEq] at h
    obtain ⟨rfl, rfl⟩ := h
    have ha := a.toNat_lt; have hb := b.toNat_lt
    refine ⟨?_, by omega⟩
    simp only [be16, List.cons_append, List.nil_append, List.cons.injEq, and_true]
    refine ⟨?_, ?_⟩ <;>
      (apply UInt8.toNat_inj.mp; simp only [Nat.toUInt8, UInt8.toNat_ofNat']; omega)

theorem rd16_be16 {n} (h : n < 65536) (r : Bytes) : rd16 (be16 n ++ r) = .ok (n, r) := by
  simp only [be16, rd16, List.cons_append, List.nil_append]
  congr 2
  simp only [Nat.toUInt8, UInt8.toNat_ofNat']
  omega

/-- raw index entry as bytes -/
def writeRaw (e : Nat × Nat × Nat × Nat) : Bytes := be32 e.1 ++ be32 e.2.1 ++ be32 e.2.2.1 ++ be32 e.2.2.2

def RawWF (e : Nat × Nat × Nat × Nat) : Prop :=
  e.1 < 4294967296 ∧ e.2.1 ≤ 9 ∧ e.2.2.1 < 4294967296 ∧ e.2.2.2 < 4294967296

theorem writeRaw_length (e) : (writeRaw e).length = 16 := by simp [writeRaw, be32_length]

theorem parseEntryRaw_ok {bs e r} (h : parseEntryRaw bs = .ok (e, r)) : bs = writeRaw e ++ r ∧ RawWF e := by
  simp only [parseEntryRaw, Out.bind_eq_ok, Prod.exists] at h
  obtain ⟨tag, b1, h1, h⟩ := h
  obtain ⟨ty, b2, h2, h⟩ := h
  split at h
  · cases h
  · rename_i hty
    simp only [Out.bind_eq_ok, Prod.exists] at h
    obtain ⟨off, b3, h3, cnt, b4, h4, h⟩ := h
    simp only [Out.pure_eq, Out.ok.injEq, Prod.mk.injEq] at h
    obtain ⟨rfl, rfl⟩ := h
    obtain ⟨rfl, t1⟩ := rd32_ok h1
    obtain ⟨rfl, t2⟩ := rd32_ok h2
    obtain ⟨rfl, t3⟩ := rd32_ok h3
    obtain ⟨rfl, t4⟩ := rd32_ok h4
    refine ⟨by simp [writeRaw, List.append_assoc], t1, Nat.le_of_not_gt hty, t3, t4⟩

theorem parseEntryRaw_write {e} (h : RawWF e) (r : Bytes) : parseEntryRaw (writeRaw e ++ r) = .ok (e, r) := by
  obtain ⟨h1, h2, h3, h4⟩ := h
  simp only [parseEntryRaw, writeRaw, List.append_assoc]
  rw [rd32_be32 h1]; simp only [Out.bind_ok]
  rw [rd32_be32 (by omega)]; simp only [Out.bind_ok]
  rw [if_neg (by omega)]
  rw [rd32_be32 h3]; simp only [Out.bind_ok]
  rw [rd32_be32 h4]; simp only [Out.bind_ok, Out.pure_eq]

def writeRaws (es : List (Nat × Nat × Nat × Nat)) : Bytes := (es.map writeRaw).flatten

theorem writeRaws_length (es) : (writeRaws es).length = es.length * 16 := by
  induction es with
  | nil => rfl
  | cons e es ih => simp only [writeRaws, List.map_cons, List.flatten_cons, List.length_append, writeRaw_length] at *; rw [ih]; simp [Nat.succ_mul]; omega

theorem parseEntriesRaw_ok {k bs es r} (h : parseEntriesRaw k bs = .ok (es, r)) :
    bs = writeRaws es ++ r ∧ es.length = k ∧ ∀ e ∈ es, RawWF e := by
  induction k generalizing bs es r with
  | zero =>
    simp only [parseEntriesRaw, Out.pure_eq, Out.ok.injEq, Prod.mk.injEq] at h
    obtain ⟨rfl, rfl⟩ := h
    simp [writeRaws]
  | succ k ih =>
    simp only [parseEntriesRaw, Out.bind_eq_ok] at h
    obtain ⟨⟨e, b1⟩, h1, ⟨es', b2⟩, h2, h⟩ := h
    simp only [Out.pure_eq, Out.ok.injEq, Prod.mk.injEq] at h
    obtain ⟨rfl, rfl⟩ := h
    obtain ⟨rfl, we⟩ := parseEntryRaw_ok h1
    obtain ⟨rfl, hl, hw⟩ := ih h2
    refine ⟨by simp [writeRaws, List.append_assoc], by simp [hl], ?_⟩
    intro e' he'
    simp only [List.mem_cons] at he'
    rcases he' with rfl | he'
    · exact we
    · exact hw _ he'

theorem parseEntriesRaw_succ (k : Nat) (bs : Bytes) : parseEntriesRaw (k + 1) bs =
    (parseEntryRaw bs >>= fun p => parseEntriesRaw k p.2 >>= fun q => pure (p.1 :: q.1, q.2)) := rfl

theorem parseEntriesRaw_write (es : List (Nat × Nat × Nat × Nat)) (r : Bytes) (h : ∀ e ∈ es, RawWF e) :
    parseEntriesRaw es.length (writeRaws es ++ r) = .ok (es, r) := by
  induction es with
  | nil => rfl
  | cons e es ih =>
    have he := h e (by simp)
    have hes : ∀ e' ∈ es, RawWF e' := fun e' m => h e' (by simp [m])
    have hw : writeRaws (e :: es) ++ r = writeRaw e ++ (writeRaws es ++ r) := by
      simp [writeRaws, List.append_assoc]
    rw [List.length_cons, parseEntriesRaw_succ, hw, parseEntryRaw_write he]
    simp only [Out.bind_ok]
    rw [ih hes]
    rfl

/-! ### data decoding keeps the declared type -/
theorem Out.map_eq_ok {α β} {f : α → β} {x : Out α} {b : β} : x.map f = .ok b ↔ ∃ a, x = .ok a ∧ f a = b := by
  cases x <;> simp [Out.map]

theorem decode_typeCode {store ty off cnt d} (h : decode store ty off cnt = .ok d) : d.typeCode = ty := by
  unfold decode at h
  split at h
  · cases h
  · split at h <;> first
      | (simp only [Out.ok.injEq] at h; subst h; rfl)
      | (obtain ⟨a, _, rfl⟩ := Out.map_eq_ok.mp h; rfl)
      | cases h

/-- raw view of a decoded entry -/
def Entry.raw (e : Entry) : Nat × Nat × Nat × Nat := (e.tag, e.data.typeCode, e.off, e.cnt)

theorem writeEntry_eq_raw (e : Entry) : writeEntry e = writeRaw e.raw := rfl

/-- store bytes the data of the entries occupies together, counted as the second loop of `parse_header` counts them -/
def usedSum (store : Bytes) (es : List Entry) : Nat := (es.map fun e => decodeUsed store e.off e.cnt e.data).sum

theorem usedSum_cons (store : Bytes) (e : Entry) (es : List Entry) :
    usedSum store (e :: es) = decodeUsed store e.off e.cnt e.data + usedSum store es := by
  simp [usedSum]

theorem decodeAllB_ok {store budget raws es} (h : decodeAllB store budget raws = .ok es) :
    es.map Entry.raw = raws ∧ (∀ e ∈ es, decode store e.data.typeCode e.off e.cnt = .ok e.data) ∧ usedSum store es ≤ budget := by
  induction raws generalizing es budget with
  | nil =>
    simp only [decodeAllB, Out.pure_eq, Out.ok.injEq] at h; subst h; simp [usedSum]
  | cons r raws ih =>
    obtain ⟨tag, ty, off, cnt⟩ := r
    simp only [decodeAllB, Out.bind_eq_ok] at h
    obtain ⟨d, hd, h⟩ := h
    split at h
    · cases h
    · rename_i hb
      simp only [Out.bind_eq_ok] at h
      obtain ⟨es', hes, h⟩ := h
      simp only [Out.pure_eq, Out.ok.injEq] at h
      subst h
      obtain ⟨ih1, ih2, ih3⟩ := ih hes
      have ht := decode_typeCode hd
      refine ⟨by simp [Entry.raw, ht, ih1], ?_, ?_⟩
      · intro e he
        simp only [List.mem_cons] at he
        rcases he with rfl | he
        · simp only [ht]; exact hd
        · exact ih2 e he
      · rw [usedSum_cons]; simp only; omega

theorem decodeAllB_write {store : Bytes} {budget : Nat} {es : List Entry}
    (h : ∀ e ∈ es, decode store e.data.typeCode e.off e.cnt = .ok e.data) (hb : usedSum store es ≤ budget) :
    decodeAllB store budget (es.map Entry.raw) = .ok es := by
  induction es generalizing budget with
  | nil => rfl
  | cons e es ih =>
    have he := h e (by simp)
    rw [usedSum_cons] at hb
    have hes := ih (fun e' m => h e' (by simp [m])) (budget := budget - decodeUsed store e.off e.cnt e.data) (by omega)
    simp only [List.map_cons, Entry.raw, decodeAllB]
    rw [he]; simp only [Out.bind_ok]
    rw [if_neg (by omega), hes]; rfl

/-- the budget refuses: the data of the entries, each decodable, is larger than the budget -/
theorem decodeAllB_overlap {store : Bytes} {budget : Nat} {es : List Entry}
    (h : ∀ e ∈ es, decode store e.data.typeCode e.off e.cnt = .ok e.data) (hb : budget < usedSum store es) :
    decodeAllB store budget (es.map Entry.raw) = .err "overlap" := by
  induction es generalizing budget with
  | nil => simp [usedSum] at hb
  | cons e es ih =>
    have he := h e (by simp)
    rw [usedSum_cons] at hb
    simp only [List.map_cons, Entry.raw, decodeAllB]
    rw [he]; simp only [Out.bind_ok]
    split
    · rfl
    · rw [ih (fun e' m => h e' (by simp [m])) (budget := budget - decodeUsed store e.off e.cnt e.data) (by omega)]; rfl

theorem decodeAll_ok {store raws es} (h : decodeAll store raws = .ok es) :
    es.map Entry.raw = raws ∧ (∀ e ∈ es, decode store e.data.typeCode e.off e.cnt = .ok e.data)
      ∧ usedSum store es ≤ store.length := decodeAllB_ok h

theorem decodeAll_write {store : Bytes} {es : List Entry}
    (h : ∀ e ∈ es, decode store e.data.typeCode e.off e.cnt = .ok e.data) (hb : usedSum store es ≤ store.length) :
    decodeAll store (es.map Entry.raw) = .ok es := decodeAllB_write h hb

end RpmVerif.Hdr

namespace RpmVerif.Hdr
open RpmVerif.Gen

theorem ihs : INDEX_HEADER_SIZE = 16 := rfl
theorem ies : INDEX_ENTRY_SIZE = 16 := rfl
theorem lds : LEAD_SIZE = 96 := rfl
theorem hmagic : HEADER_MAGIC = [142, 173, 232] := rfl
theorem rmagic : RPM_MAGIC = [237, 171, 238, 219] := rfl

/-- what every constructor of a header guarantees (`parse`, `from_entries`, `new_empty`, …) -/
structure HeaderWF (h : Header) : Prop where
  nEq : h.entries.length = h.nEntries
  dlEq : h.store.length = h.dataSize
  nLt : h.nEntries < 4294967296
  dlLt : h.dataSize < 4294967296
  fields : ∀ e ∈ h.entries, RawWF e.raw
  dec : ∀ e ∈ h.entries, decode h.store e.data.typeCode e.off e.cnt = .ok e.data
  /-- the byte budget of `parse_header`: the data of all entries together is not larger than the data section
  (entries do not share store bytes) -/
  budget : usedSum h.store h.entries ≤ h.store.length

/-- on-disk bytes of a header with the given four reserved bytes -/
def hdrBytes (res : Bytes) (h : Header) : Bytes :=
  HEADER_MAGIC ++ [1] ++ res ++ be32 h.nEntries ++ be32 h.dataSize ++ writeRaws (h.entries.map Entry.raw) ++ h.store

theorem writeHeader_eq (h : Header) : writeHeader h = hdrBytes [0, 0, 0, 0] h := by
  simp only [writeHeader, writeIntro, hdrBytes, writeRaws, List.map_map, List.append_assoc]
  rfl

theorem parseIntro_ok {intro n dl} (hl : intro.length = 16) (h : parseIntro intro = .ok (n, dl)) :
    ∃ res : Bytes, res.length = 4 ∧ intro = HEADER_MAGIC ++ [1] ++ res ++ be32 n ++ be32 dl
      ∧ n < 4294967296 ∧ dl < 4294967296 := by
  unfold parseIntro at h
  split at h
  · rename_i m0 m1 m2 ver a b c d r
    split at h
    · cases h
    · rename_i hm
      split at h
      · cases h
      · rename_i hv
        simp only [Out.bind_eq_ok, Prod.exists] at h
        obtain ⟨n', r1, h1, dl', r2, h2, h⟩ := h
        simp only [Out.pure_eq, Out.ok.injEq, Prod.mk.injEq] at h
        obtain ⟨rfl, rfl⟩ := h
        obtain ⟨rfl, t1⟩ := rd32_ok h1
        obtain ⟨rfl, t2⟩ := rd32_ok h2
        simp only [List.length_cons, List.length_append, be32_length] at hl
        have : r2 = [] := List.length_eq_zero_iff.mp (by omega)
        subst this
        refine ⟨[a, b, c, d], rfl, ?_, t1, t2⟩
        have hm' : [m0, m1, m2] = HEADER_MAGIC := Decidable.not_not.mp hm
        have hv' : ver = 1 := Decidable.not_not.mp hv
        rw [← hm', hv']
        simp
  · cases h

theorem parseIntro_write {res : Bytes} {n dl : Nat} (hr : res.length = 4) (hn : n < 4294967296) (hd : dl < 4294967296) :
    parseIntro (HEADER_MAGIC ++ [1] ++ res ++ be32 n ++ be32 dl) = .ok (n, dl) := by
  match res, hr with
  | [a, b, c, d], _ =>
    simp only [hmagic, List.cons_append, List.nil_append, parseIntro]
    rw [if_neg (by simp), if_neg (by simp)]
    rw [rd32_be32 hn]; simp only [Out.bind_ok]
    have := rd32_be32 hd []
    simp only [List.append_nil] at this
    rw [this]; rfl

theorem parseHeader_ok {bs h rest} (hp : parseHeader bs = .ok (h, rest)) :
    ∃ res : Bytes, res.length = 4 ∧ bs = hdrBytes res h ++ rest ∧ HeaderWF h := by
  simp only [parseHeader, Out.bind_eq_ok] at hp
  obtain ⟨⟨intro, r⟩, h1, ⟨n, dl⟩, h2, ⟨body, rest'⟩, h3, ⟨raw, store⟩, h4, es, h5, hp⟩ := hp
  dsimp only at h2 h3 h4 h5
  simp only [Out.pure_eq, Out.ok.injEq, Prod.mk.injEq] at hp
  obtain ⟨rfl, rfl⟩ := hp
  obtain ⟨rfl, l1⟩ := takeN_ok h1
  rw [ihs] at l1
  obtain ⟨res, hres, rfl, hn, hd⟩ := parseIntro_ok l1 h2
  obtain ⟨rfl, l3⟩ := takeN_ok h3
  obtain ⟨rfl, l4, w4⟩ := parseEntriesRaw_ok h4
  obtain ⟨m5, d5, b5⟩ := decodeAll_ok h5
  refine ⟨res, hres, ?_, ?_⟩
  · simp only [hdrBytes, m5, List.append_assoc]
  · have hlen : es.length = n := by rw [← l4, ← m5]; simp
    refine ⟨hlen, ?_, hn, hd, ?_, d5, b5⟩
    · simp only [List.length_append, writeRaws_length, l4, ies] at l3
      show store.length = dl
      omega
    · intro e he
      apply w4
      rw [← m5]
      exact List.mem_map_of_mem he

theorem hdrBytes_split (res : Bytes) (h : Header) (rest : Bytes) :
    hdrBytes res h ++ rest =
      (HEADER_MAGIC ++ [1] ++ res ++ be32 h.nEntries ++ be32 h.dataSize) ++
        ((writeRaws (h.entries.map Entry.raw) ++ h.store) ++ rest) := by
  simp only [hdrBytes, List.append_assoc]

theorem parseHeader_write {h : Header} (wf : HeaderWF h) {res : Bytes} (hr : res.length = 4) (rest : Bytes) :
    parseHeader (hdrBytes res h ++ rest) = .ok (h, rest) := by
  have hlenI : (HEADER_MAGIC ++ [1] ++ res ++ be32 h.nEntries ++ be32 h.dataSize).length = INDEX_HEADER_SIZE := by
    simp [hmagic, be32_length, hr, ihs]
  have hlenB : (writeRaws (h.entries.map Entry.raw) ++ h.store).length = h.dataSize + h.nEntries * INDEX_ENTRY_SIZE := by
    simp only [List.length_append, writeRaws_length, List.length_map, wf.nEq, wf.dlEq, ies]; omega
  rw [hdrBytes_split, parseHeader, ← hlenI, takeN_append]
  simp only [Out.bind_ok]
  rw [parseIntro_write hr wf.nLt wf.dlLt]
  simp only [Out.bind_ok]
  rw [← hlenB, takeN_append]
  simp only [Out.bind_ok]
  have hn : h.nEntries = (h.entries.map Entry.raw).length := by simp [wf.nEq]
  rw [hn, parseEntriesRaw_write _ _ (by
    intro e he
    obtain ⟨e', he', rfl⟩ := List.mem_map.mp he
    exact wf.fields e' he')]
  simp only [Out.bind_ok]
  rw [decodeAll_write wf.dec wf.budget]
  simp only [Out.bind_ok, Out.pure_eq, List.length_map, wf.nEq]

/-- **the budget rule is the only new refusal**: bytes that are a header in every other respect (sizes, fields, every
entry's data decodes) whose entries are charged more than the data section holds are refused with class `overlap` -/
theorem parseHeader_write_overlap {h : Header} (nEq : h.entries.length = h.nEntries) (dlEq : h.store.length = h.dataSize)
    (nLt : h.nEntries < 4294967296) (dlLt : h.dataSize < 4294967296) (fields : ∀ e ∈ h.entries, RawWF e.raw)
    (dec : ∀ e ∈ h.entries, decode h.store e.data.typeCode e.off e.cnt = .ok e.data)
    (over : h.store.length < usedSum h.store h.entries) {res : Bytes} (hr : res.length = 4) (rest : Bytes) :
    parseHeader (hdrBytes res h ++ rest) = .err "overlap" := by
  have hlenI : (HEADER_MAGIC ++ [1] ++ res ++ be32 h.nEntries ++ be32 h.dataSize).length = INDEX_HEADER_SIZE := by
    simp [hmagic, be32_length, hr, ihs]
  have hlenB : (writeRaws (h.entries.map Entry.raw) ++ h.store).length = h.dataSize + h.nEntries * INDEX_ENTRY_SIZE := by
    simp only [List.length_append, writeRaws_length, List.length_map, nEq, dlEq, ies]; omega
  rw [hdrBytes_split, parseHeader, ← hlenI, takeN_append]
  simp only [Out.bind_ok]
  rw [parseIntro_write hr nLt dlLt]
  simp only [Out.bind_ok]
  rw [← hlenB, takeN_append]
  simp only [Out.bind_ok]
  have hn : h.nEntries = (h.entries.map Entry.raw).length := by simp [nEq]
  rw [hn, parseEntriesRaw_write _ _ (by
    intro e he
    obtain ⟨e', he', rfl⟩ := List.mem_map.mp he
    exact fields e' he')]
  simp only [Out.bind_ok]
  rw [decodeAll, decodeAllB_overlap dec over]
  rfl

end RpmVerif.Hdr

namespace RpmVerif.Hdr
open RpmVerif.Gen

/-! ### signature header (padding) -/
theorem parseSignature_ok {bs h rest} (hp : parseSignature bs = .ok (h, rest)) :
    ∃ res pad : Bytes, res.length = 4 ∧ pad.length = sigPad h.dataSize ∧
      bs = hdrBytes res h ++ pad ++ rest ∧ HeaderWF h := by
  simp only [parseSignature, Out.bind_eq_ok] at hp
  obtain ⟨⟨h', r⟩, h1, ⟨pad, r'⟩, h2, hp⟩ := hp
  dsimp only at h2
  simp only [Out.pure_eq, Out.ok.injEq, Prod.mk.injEq] at hp
  obtain ⟨rfl, rfl⟩ := hp
  obtain ⟨res, hres, rfl, wf⟩ := parseHeader_ok h1
  obtain ⟨rfl, lp⟩ := takeN_ok h2
  exact ⟨res, pad, hres, lp, by simp [List.append_assoc], wf⟩

theorem parseSignature_write {h : Header} (wf : HeaderWF h) {res pad : Bytes} (hr : res.length = 4)
    (hpad : pad.length = sigPad h.dataSize) (rest : Bytes) :
    parseSignature (hdrBytes res h ++ pad ++ rest) = .ok (h, rest) := by
  rw [parseSignature, List.append_assoc, parseHeader_write wf hr]
  simp only [Out.bind_ok]
  rw [← hpad, takeN_append]
  rfl

theorem writeSignature_eq (h : Header) :
    writeSignature h = hdrBytes [0, 0, 0, 0] h ++ List.replicate (sigPad h.dataSize) 0 := by
  rw [writeSignature, writeHeader_eq]

/-! ### lead -/
structure LeadWF (l : Lead) : Prop where
  major : l.major < 256
  minor : l.minor < 256
  ptype : l.ptype < 65536
  arch : l.arch < 65536
  name : l.name.length = 66
  os : l.os < 65536
  sigtype : l.sigtype < 65536
  reserved : l.reserved.length = 16

theorem parseLead_ok {b l} (hp : parseLead b = .ok l) : b = writeLead l ∧ LeadWF l := by
  simp only [parseLead, Out.bind_eq_ok] at hp
  obtain ⟨⟨magic, r0⟩, h0, hp⟩ := hp
  dsimp only at hp
  split at hp
  · cases hp
  · rename_i hm
    simp only [Out.bind_eq_ok] at hp
    obtain ⟨⟨major, r1⟩, h1, ⟨minor, r2⟩, h2, ⟨ptype, r3⟩, h3, ⟨arch, r4⟩, h4, ⟨name, r5⟩, h5,
      ⟨os, r6⟩, h6, ⟨sigtype, r7⟩, h7, hp⟩ := hp
    dsimp only at h2 h3 h4 h5 h6 h7 hp
    split at hp
    · cases hp
    · rename_i hres
      simp only [Out.pure_eq, Out.ok.injEq] at hp
      subst hp
      obtain ⟨rfl, _⟩ := takeN_ok h0
      obtain ⟨rfl, t1⟩ := rd8_ok h1
      obtain ⟨rfl, t2⟩ := rd8_ok h2
      obtain ⟨rfl, t3⟩ := rd16_ok h3
      obtain ⟨rfl, t4⟩ := rd16_ok h4
      obtain ⟨rfl, t5⟩ := takeN_ok h5
      obtain ⟨rfl, t6⟩ := rd16_ok h6
      obtain ⟨rfl, t7⟩ := rd16_ok h7
      have hm' : magic = RPM_MAGIC := Decidable.not_not.mp hm
      have hres' : r7.length = 16 := Decidable.not_not.mp hres
      subst hm'
      exact ⟨by simp [writeLead, List.append_assoc], ⟨t1, t2, t3, t4, t5, t6, t7, hres'⟩⟩

theorem parseLead_write {l : Lead} (wf : LeadWF l) : parseLead (writeLead l) = .ok l := by
  have hmag : RPM_MAGIC.length = 4 := rfl
  simp only [writeLead, List.append_assoc, parseLead]
  rw [← hmag, takeN_append]
  simp only [Out.bind_ok]
  rw [if_neg (by simp)]
  rw [rd8_write wf.major]; simp only [Out.bind_ok]
  rw [rd8_write wf.minor]; simp only [Out.bind_ok]
  rw [rd16_be16 wf.ptype]; simp only [Out.bind_ok]
  rw [rd16_be16 wf.arch]; simp only [Out.bind_ok]
  rw [← wf.name, takeN_append]; simp only [Out.bind_ok]
  rw [rd16_be16 wf.os]; simp only [Out.bind_ok]
  rw [rd16_be16 wf.sigtype]; simp only [Out.bind_ok]
  rw [if_neg (by simp [wf.reserved])]
  rfl

theorem writeLead_length {l : Lead} (wf : LeadWF l) : (writeLead l).length = 96 := by
  simp [writeLead, rmagic, be16, wf.name, wf.reserved]

/-! ### metadata and package -/
structure MetadataWF (m : Metadata) : Prop where
  lead : LeadWF m.lead
  sig : HeaderWF m.signature
  hdr : HeaderWF m.header

/-- on-disk bytes of metadata with arbitrary reserved / padding bytes -/
def metaBytes (res1 pad res2 : Bytes) (m : Metadata) : Bytes :=
  writeLead m.lead ++ (hdrBytes res1 m.signature ++ pad) ++ hdrBytes res2 m.header

theorem writeMetadata_eq (m : Metadata) :
    writeMetadata m = metaBytes [0, 0, 0, 0] (List.replicate (sigPad m.signature.dataSize) 0) [0, 0, 0, 0] m := by
  simp only [writeMetadata, metaBytes, writeSignature_eq, writeHeader_eq]

theorem parseMetadata_ok {bs m rest} (hp : parseMetadata bs = .ok (m, rest)) :
    ∃ res1 pad res2 : Bytes, res1.length = 4 ∧ pad.length = sigPad m.signature.dataSize ∧ res2.length = 4 ∧
      bs = metaBytes res1 pad res2 m ++ rest ∧ MetadataWF m := by
  simp only [parseMetadata, Out.bind_eq_ok] at hp
  obtain ⟨⟨lb, r0⟩, h0, lead, h1, ⟨sig, r1⟩, h2, ⟨hdr, r2⟩, h3, hp⟩ := hp
  dsimp only at h1 h2 h3 hp
  simp only [Out.pure_eq, Out.ok.injEq, Prod.mk.injEq] at hp
  obtain ⟨rfl, rfl⟩ := hp
  obtain ⟨rfl, _⟩ := takeN_ok h0
  obtain ⟨rfl, wl⟩ := parseLead_ok h1
  obtain ⟨res1, pad, hr1, hpad, rfl, ws⟩ := parseSignature_ok h2
  obtain ⟨res2, hr2, rfl, wh⟩ := parseHeader_ok h3
  exact ⟨res1, pad, res2, hr1, hpad, hr2, by simp [metaBytes, List.append_assoc], ⟨wl, ws, wh⟩⟩

theorem parseMetadata_write {m : Metadata} (wf : MetadataWF m) {res1 pad res2 : Bytes} (h1 : res1.length = 4)
    (hpad : pad.length = sigPad m.signature.dataSize) (h2 : res2.length = 4) (rest : Bytes) :
    parseMetadata (metaBytes res1 pad res2 m ++ rest) = .ok (m, rest) := by
  have e : metaBytes res1 pad res2 m ++ rest =
      writeLead m.lead ++ (hdrBytes res1 m.signature ++ pad ++ (hdrBytes res2 m.header ++ rest)) := by
    simp [metaBytes, List.append_assoc]
  rw [e, parseMetadata, lds, ← writeLead_length wf.lead, takeN_append]
  simp only [Out.bind_ok]
  rw [parseLead_write wf.lead]; simp only [Out.bind_ok]
  rw [parseSignature_write wf.sig h1 hpad]; simp only [Out.bind_ok]
  rw [parseHeader_write wf.hdr h2]; rfl

end RpmVerif.Hdr
