import RpmVerif.Model.FileCaps
import RpmVerif.Spec.FileCaps
/-! Helper lemmas for C19: the model of `filecaps.rs` against the grammar of `Spec/FileCaps.lean`. -/
set_option linter.unusedVariables false
namespace RpmVerif.FileCaps
open RpmVerif RpmVerif.FileCaps.Spec

/-! ## character classes -/

theorem isUniSpace_iff (c : Nat) : isUniSpace c = true ↔
    (c = 0x85 ∨ c = 0xA0 ∨ c = 0x1680 ∨ (0x2000 ≤ c ∧ c ≤ 0x200A) ∨ c = 0x2028 ∨ c = 0x2029 ∨ c = 0x202F ∨
      c = 0x205F ∨ c = 0x3000) := by
  simp only [isUniSpace, List.contains_iff_mem, List.mem_cons, List.not_mem_nil, or_false]
  omega

/-- the spec's most generous notion of whitespace (listed code points) is the model's
`char::is_whitespace` (ranges): both are the `White_Space` property -/
theorem isSpace_eq_isWs (c : Nat) : isSpace c = isWs c := by
  rw [Bool.eq_iff_iff]
  simp only [isSpace, isSureSpace, isDoubtfulSpace, isUniSpace_iff, isWs, Bool.or_eq_true, Bool.and_eq_true, beq_iff_eq,
    decide_eq_true_eq]
  omega

theorem isUniSpace_ge {c : Nat} (h : isUniSpace c = true) : 128 ≤ c := by
  rw [isUniSpace_iff] at h; omega

theorem isSpace_ascii {c : Nat} (h : isSpace c = true) (hd : isDoubtfulSpace c = false) : c < 128 := by
  simp only [isSpace, hd, Bool.or_false, isSureSpace, Bool.or_eq_true, beq_iff_eq] at h
  omega

theorem isSpace_fun : isSpace = isWs := funext isSpace_eq_isWs

theorem isOp_eq_isOpCh (c : Nat) : isOp c = isOpCh c := by
  rw [Bool.eq_iff_iff]
  simp only [isOp, isOpCh, Bool.or_eq_true, beq_iff_eq]
  omega

theorem all_takeWhile (p : Nat → Bool) (l : Str) : (l.takeWhile p).all p = true := by
  induction l with
  | nil => rfl
  | cons c r ih =>
    rw [List.takeWhile_cons]
    split
    · next h => simp only [List.all_cons, h, ih, Bool.and_self]
    · rfl

theorem dropWhile_eq_nil_of_all (p : Nat → Bool) (l : Str) (h : l.all p = true) : l.dropWhile p = [] := by
  induction l with
  | nil => rfl
  | cons c r ih =>
    simp only [List.all_cons, Bool.and_eq_true] at h
    rw [List.dropWhile_cons_of_pos h.1]; exact ih h.2

theorem isOp_iff {c : Nat} : isOp c = true ↔ c = 61 ∨ c = 43 ∨ c = 45 := by
  simp [isOp, or_assoc]

theorem isOpCh_iff {c : Nat} : isOpCh c = true ↔ c = 61 ∨ c = 43 ∨ c = 45 := by
  rw [← isOp_eq_isOpCh]; exact isOp_iff

theorem isFlag_iff {c : Nat} : isFlag c = true ↔ c = 101 ∨ c = 105 ∨ c = 112 := by
  simp [isFlag, or_assoc]

theorem isFlag_not_op {c : Nat} (h : isFlag c = true) : isOp c = false := by
  cases hc : isOp c
  · rfl
  · rw [isFlag_iff] at h; rw [isOp_iff] at hc; omega

/-! ## `split` (model, left to right with an accumulator) = `fields` (spec, right fold) -/

theorem fields_ne_nil (p : Nat → Bool) (s : Str) : fields p s ≠ [] := by
  induction s with
  | nil => simp [fields]
  | cons c r ih =>
    simp only [fields]
    split
    · simp
    · cases h : fields p r with
      | nil => exact absurd h ih
      | cons f fs => simp [consHead]

theorem consHead_nil {l : List Str} (h : l ≠ []) : consHead [] l = l := by
  cases l with
  | nil => exact absurd rfl h
  | cons f fs => rfl

theorem consHead_consHead (a b : Str) (l : List Str) : consHead a (consHead b l) = consHead (a ++ b) l := by
  cases l <;> simp [consHead]

theorem splitGo_eq (p : Nat → Bool) (s acc : Str) : splitGo p acc s = consHead acc.reverse (fields p s) := by
  induction s generalizing acc with
  | nil => simp [splitGo, fields, consHead]
  | cons c r ih =>
    simp only [splitGo, fields]
    split
    · rw [ih [], List.reverse_nil, consHead_nil (fields_ne_nil p r)]; simp [consHead]
    · rw [ih (c :: acc), consHead_consHead]; simp

theorem split_eq_fields (p : Nat → Bool) (s : Str) : split p s = fields p s := by
  rw [split, splitGo_eq]; exact consHead_nil (fields_ne_nil p s)

theorem splitWhitespace_eq_words (s : Str) : splitWhitespace s = words s := by
  rw [splitWhitespace, words, split_eq_fields, isSpace_fun]

/-! ## `trim` does not change the words; the trimmed text is empty iff there are no words -/

theorem filter_consHead_cons (c : Nat) (l : List Str) :
    ∃ w ws, (consHead [c] l).filter (fun w => !w.isEmpty) = w :: ws := by
  cases l with
  | nil => exact ⟨[c], [], by simp [consHead]⟩
  | cons f fs => exact ⟨c :: f, fs.filter (fun w => !w.isEmpty), by simp [consHead]⟩

theorem words_cons_ws {c : Nat} (r : Str) (h : isSpace c = true) : words (c :: r) = words r := by
  simp [words, fields, h]

theorem words_eq_nil_iff (s : Str) : words s = [] ↔ s.all isSpace = true := by
  induction s with
  | nil => simp [words, fields]
  | cons c r ih =>
    by_cases h : isSpace c = true
    · rw [words_cons_ws r h, ih]; simp [h]
    · simp only [Bool.not_eq_true] at h
      obtain ⟨w, ws, hw⟩ := filter_consHead_cons c (fields isSpace r)
      simp [words, fields, h, hw]

theorem words_dropWhile (s : Str) : words (s.dropWhile isSpace) = words s := by
  induction s with
  | nil => rfl
  | cons c r ih =>
    by_cases h : isSpace c = true
    · rw [List.dropWhile_cons_of_pos h, ih, words_cons_ws r h]
    · rw [List.dropWhile_cons_of_neg h]

theorem fields_all_ws (t : Str) (h : t.all isSpace = true) :
    fields isSpace t = [] :: List.replicate t.length [] := by
  induction t with
  | nil => rfl
  | cons c r ih =>
    simp only [List.all_cons, Bool.and_eq_true] at h
    simp [fields, h.1, ih h.2, List.replicate_succ]

theorem consHead_append (a : Str) {l : List Str} (h : l ≠ []) (m : List Str) :
    consHead a (l ++ m) = consHead a l ++ m := by
  cases l with
  | nil => exact absurd rfl h
  | cons f fs => rfl

theorem fields_append_ws (s t : Str) (h : t.all isSpace = true) :
    fields isSpace (s ++ t) = fields isSpace s ++ List.replicate t.length [] := by
  induction s with
  | nil => simp [fields, fields_all_ws t h]
  | cons c r ih =>
    simp only [List.cons_append, fields]
    split
    · rw [ih]; rfl
    · rw [ih, consHead_append _ (fields_ne_nil _ _)]

theorem words_append_ws (s t : Str) (h : t.all isSpace = true) : words (s ++ t) = words s := by
  simp only [words, fields_append_ws s t h, List.filter_append]
  have : (List.replicate t.length ([] : Str)).filter (fun w => !w.isEmpty) = [] := by
    rw [List.filter_eq_nil_iff]; intro a ha; simp [(List.mem_replicate.mp ha).2]
  rw [this, List.append_nil]

theorem trimEnd_decomp (s : Str) : ∃ t, s = trimEnd s ++ t ∧ t.all isSpace = true := by
  refine ⟨(s.reverse.takeWhile isWs).reverse, ?_, ?_⟩
  · have := List.takeWhile_append_dropWhile (p := isWs) (l := s.reverse)
    have h2 := congrArg List.reverse this
    rw [List.reverse_append, List.reverse_reverse] at h2
    exact h2.symm
  · rw [List.all_reverse, isSpace_fun]; exact all_takeWhile _ _

theorem words_trim (s : Str) : words (trim s) = words s := by
  obtain ⟨t, ht, hws⟩ := trimEnd_decomp (trimStart s)
  have h1 : words (trimStart s) = words (trim s) := by
    conv => lhs; rw [ht]
    exact words_append_ws _ _ hws
  rw [← h1, trimStart, ← isSpace_fun, words_dropWhile]

theorem trim_isEmpty_iff (s : Str) : (trim s).isEmpty = true ↔ words s = [] := by
  rw [List.isEmpty_iff]
  constructor
  · intro h
    have := words_trim s
    rw [h] at this
    rw [← this]; rfl
  · intro h
    rw [words_eq_nil_iff] at h
    have h1 : trimStart s = [] := by
      rw [trimStart, ← isSpace_fun]; exact dropWhile_eq_nil_of_all _ _ h
    simp [trim, h1, trimEnd]

/-! ## `validate_suffix` against `groups` -/

theorem flagTest_eq (c : Nat) : (c == 112 || c == 105 || c == 101) = isFlag c := by
  rw [Bool.eq_iff_iff]
  simp only [isFlag, Bool.or_eq_true, beq_iff_eq]
  omega

/-- the spec state `some n` matches `last_ch = Some(l)` when `n = 0 ↔ l is an operator`;
then the model's scan accepts exactly `groups` with flagless last groups allowed -/
theorem suffixLoop_ok_iff {rd : Reading} (hrd : rd.flaglessLast = true) (r : Str) :
    ∀ (l n : Nat), (n = 0 ↔ isOp l = true) →
    (suffixLoop (some l) r = .ok () ↔ groups rd (some n) r = true) := by
  induction r with
  | nil => intro l n _; simp [suffixLoop, groups, hrd]
  | cons ch r ih =>
    intro l n hn
    by_cases hop : isOp ch = true
    · have hf : isFlag ch = false := by
        cases h : isFlag ch
        · rfl
        · rw [isFlag_not_op h] at hop; cases hop
      have hop' : isOpCh ch = true := by rw [← isOp_eq_isOpCh]; exact hop
      simp only [suffixLoop, hop', if_true, groups, hf, hop, Bool.true_and, Bool.false_eq_true, if_false]
      by_cases hl : isOp l = true
      · have hl' : isOpCh l = true := by rw [← isOp_eq_isOpCh]; exact hl
        have : n = 0 := hn.mpr hl
        subst this
        simp [hl']
      · have hl' : isOpCh l = false := by rw [← isOp_eq_isOpCh]; simpa using hl
        have hn' : n > 0 := by
          rcases Nat.eq_zero_or_pos n with h | h
          · exact absurd (hn.mp h) hl
          · exact h
        simp only [hl', Bool.false_eq_true, if_false, Bool.and_eq_true, decide_eq_true_eq, hn', true_and]
        exact ih ch 0 (by simp [hop])
    · have hop1 : isOp ch = false := by simpa using hop
      have hop' : isOpCh ch = false := by rw [← isOp_eq_isOpCh]; exact hop1
      by_cases hf : isFlag ch = true
      · simp only [suffixLoop, hop', Bool.false_eq_true, if_false, flagTest_eq, hf, if_true, Option.isNone_some, groups]
        exact ih ch (n + 1) (by simp [hop1])
      · have hf' : isFlag ch = false := by simpa using hf
        simp [suffixLoop, hop', flagTest_eq, hf', groups, hop1]

theorem suffixLoop_some_not_panic (r : Str) : ∀ l : Nat, (suffixLoop (some l) r).isPanic = false := by
  induction r with
  | nil => intro l; rfl
  | cons ch r ih =>
    intro l
    simp only [suffixLoop]
    split
    · split
      · rfl
      · exact ih ch
    · split
      · simp only [Option.isNone_some, Bool.false_eq_true, if_false]; exact ih ch
      · rfl

theorem validateSuffix_cons_op {x : Nat} (r : Str) (hx : isOpCh x = true) :
    validateSuffix (x :: r) = suffixLoop (some x) r := by
  simp [validateSuffix, suffixLoop, hx]

theorem groups_none_cons (rd : Reading) (x : Nat) (r : Str) :
    groups rd none (x :: r) = (isOp x && groups rd (some 0) r) := rfl

theorem groups_none_head {rd : Reading} {s : Str} (h : groups rd none s = true) :
    ∃ x r, s = x :: r ∧ isOp x = true ∧ groups rd (some 0) r = true := by
  cases s with
  | nil => simp [groups] at h
  | cons x r =>
    rw [groups_none_cons, Bool.and_eq_true] at h
    exact ⟨x, r, rfl, h.1, h.2⟩

/-- `a ≤ b`: reading `b` accepts at least what `a` accepts -/
def Reading.le (a b : Reading) : Prop :=
  (a.flaglessLast = true → b.flaglessLast = true) ∧ (a.allInList = true → b.allInList = true)

/-- the reading the code implements: flagless last group accepted, `all` only on its own -/
def codeReading : Reading := ⟨true, false⟩

theorem strict_le_code : Reading.le strict codeReading := ⟨fun _ => rfl, fun h => h⟩
theorem code_le_lenient : Reading.le codeReading lenient := ⟨fun _ => rfl, fun _ => rfl⟩

theorem groups_mono {a b : Reading} (hab : Reading.le a b) (s : Str) :
    ∀ st, groups a st s = true → groups b st s = true := by
  induction s with
  | nil =>
    intro st; cases st with
    | none => simp [groups]
    | some n =>
      simp only [groups, Bool.or_eq_true, decide_eq_true_eq]
      rintro (h | h)
      · exact Or.inl (hab.1 h)
      · exact Or.inr h
  | cons c r ih =>
    intro st
    cases st with
    | none =>
      simp only [groups, Bool.and_eq_true]
      exact fun h => ⟨h.1, ih _ h.2⟩
    | some n =>
      simp only [groups]
      split
      · exact ih _
      · simp only [Bool.and_eq_true]
        exact fun h => ⟨h.1, ih _ h.2⟩

/-- on a suffix that starts with an operator: model accepts ↔ `groups` under the code's reading -/
theorem validateSuffix_ok_iff {x : Nat} (r : Str) (hx : isOp x = true) :
    validateSuffix (x :: r) = .ok () ↔ groups codeReading none (x :: r) = true := by
  have hx' : isOpCh x = true := by rw [← isOp_eq_isOpCh]; exact hx
  rw [validateSuffix_cons_op r hx', groups_none_cons, hx, Bool.true_and]
  exact suffixLoop_ok_iff rfl r x 0 (by simp [hx])

/-! ## `validate_capset` against `nameList` -/

theorem table_chars :
    Gen.capsTable.all (fun t => t.all (fun a => !(decide (97 ≤ a) && decide (a ≤ 122)) && !isOp a)) = true := by
  decide

theorem table_no_lower {t : Str} (ht : t ∈ Gen.capsTable) {a : Nat} (ha : a ∈ t) : ¬(97 ≤ a ∧ a ≤ 122) := by
  have := List.all_eq_true.mp (List.all_eq_true.mp table_chars t ht) a ha
  simp only [Bool.and_eq_true, Bool.not_eq_true', Bool.and_eq_false_imp, decide_eq_true_eq, decide_eq_false_iff_not] at this
  intro h; exact this.1 h.1 h.2

theorem table_no_op {t : Str} (ht : t ∈ Gen.capsTable) {a : Nat} (ha : a ∈ t) : isOp a = false := by
  have := List.all_eq_true.mp (List.all_eq_true.mp table_chars t ht) a ha
  simp only [Bool.and_eq_true, Bool.not_eq_true'] at this
  exact this.2

theorem toAsciiUpper_eq_iff {a b : Nat} (ha : ¬(97 ≤ a ∧ a ≤ 122)) :
    toAsciiUpper b = a ↔ (b = a ∨ (65 ≤ a ∧ a ≤ 90 ∧ b = a + 32)) := by
  unfold toAsciiUpper; split <;> omega

theorem sameName_iff (t : Str) (ht : ∀ a ∈ t, ¬(97 ≤ a ∧ a ≤ 122)) :
    ∀ n : Str, sameName t n = true ↔ n.map toAsciiUpper = t := by
  induction t with
  | nil => intro n; cases n <;> simp [sameName]
  | cons a t ih =>
    intro n
    cases n with
    | nil => simp [sameName]
    | cons b n =>
      have h1 := toAsciiUpper_eq_iff (b := b) (ht a (List.mem_cons_self ..))
      have h2 := ih (fun x hx => ht x (List.mem_cons_of_mem _ hx)) n
      simp only [sameName, Bool.and_eq_true, Bool.or_eq_true, beq_iff_eq, decide_eq_true_eq, List.map_cons,
        List.cons.injEq, h1, h2, and_assoc]

theorem known_eq_contains (p : Str) : Gen.capsTable.contains (p.map toAsciiUpper) = known p := by
  rw [Bool.eq_iff_iff, List.contains_iff_mem, known, List.any_eq_true]
  constructor
  · intro h
    exact ⟨_, h, (sameName_iff _ (fun a ha => table_no_lower h ha) p).mpr rfl⟩
  · rintro ⟨t, ht, hs⟩
    rw [(sameName_iff t (fun a ha => table_no_lower ht ha) p).mp hs]; exact ht

theorem toAsciiLower_eq_iff (a v : Nat) (hv : 97 ≤ v ∧ v ≤ 122) :
    toAsciiLower a = v ↔ (a = v ∨ a = v - 32) := by
  unfold toAsciiLower; split <;> omega

theorem eqIgnoreAsciiCase_all (n : Str) : eqIgnoreAsciiCase n allLit = isAll n := by
  rw [Bool.eq_iff_iff]
  match n with
  | [] => simp [eqIgnoreAsciiCase, allLit, isAll]
  | [_] => simp [eqIgnoreAsciiCase, allLit, isAll]
  | [_, _] => simp [eqIgnoreAsciiCase, allLit, isAll]
  | _ :: _ :: _ :: _ :: _ => simp [eqIgnoreAsciiCase, allLit, isAll]
  | [a, b, c] =>
    have e1 : toAsciiLower 97 = 97 := by decide
    have e2 : toAsciiLower 108 = 108 := by decide
    simp only [eqIgnoreAsciiCase, allLit, isAll, List.map_cons, List.map_nil, beq_iff_eq, List.cons.injEq, and_true,
      Bool.and_eq_true, Bool.or_eq_true, e1, e2,
      toAsciiLower_eq_iff a 97 (by omega), toAsciiLower_eq_iff b 108 (by omega), toAsciiLower_eq_iff c 108 (by omega)]
    omega

theorem capsetLoop_ok_iff (ps : List Str) :
    capsetLoop ps = .ok () ↔ ps.all known = true := by
  induction ps with
  | nil => simp [capsetLoop]
  | cons p ps ih =>
    simp only [capsetLoop, known_eq_contains, List.all_cons, Bool.and_eq_true]
    cases hk : known p
    · simp
    · simp [ih]

theorem capsetLoop_not_panic (ps : List Str) : (capsetLoop ps).isPanic = false := by
  induction ps with
  | nil => rfl
  | cons p ps ih => simp only [capsetLoop]; split; · rfl
                    · exact ih

theorem validateCapset_not_panic (n : Str) : (validateCapset n).isPanic = false := by
  unfold validateCapset; split
  · rfl
  · exact capsetLoop_not_panic _

/-- what the model's name-list check accepts: nothing, `all`, or a comma list of known names -/
theorem validateCapset_ok_iff (n : Str) :
    validateCapset n = .ok () ↔ (n = [] ∨ isAll n = true ∨ (fields (· == 44) n).all known = true) := by
  unfold validateCapset
  rw [eqIgnoreAsciiCase_all, split_eq_fields]
  cases n with
  | nil => simp
  | cons a n =>
    cases h : isAll (a :: n)
    · simp [capsetLoop_ok_iff]
    · simp

/-! ## no operator inside a name list -/

theorem fields_all_chars (p q : Nat → Bool) (hpq : ∀ c, p c = true → q c = true) (s : Str)
    (h : (fields p s).all (fun f => f.all q) = true) : s.all q = true := by
  induction s with
  | nil => rfl
  | cons c r ih =>
    simp only [fields] at h
    split at h
    · next hp =>
      simp only [List.all_cons, List.all_nil, Bool.true_and] at h
      simp [hpq c hp, ih h]
    · cases hf : fields p r with
      | nil => exact absurd hf (fields_ne_nil p r)
      | cons f fs =>
        rw [hf] at h ih
        simp only [consHead, List.cons_append, List.nil_append, List.all_cons, Bool.and_eq_true] at h ih
        simp [h.1.1, ih ⟨h.1.2, h.2⟩]

theorem isOp_toAsciiUpper {a : Nat} (h : isOp a = true) : toAsciiUpper a = a := by
  rw [isOp_iff] at h; unfold toAsciiUpper; split <;> omega

theorem known_no_op {x : Str} (h : known x = true) : x.all (fun c => !isOp c) = true := by
  rw [← known_eq_contains, List.contains_iff_mem] at h
  rw [List.all_eq_true]; intro a ha
  cases hop : isOp a
  · rfl
  · have hm : toAsciiUpper a ∈ x.map toAsciiUpper := List.mem_map_of_mem ha
    rw [isOp_toAsciiUpper hop] at hm
    rw [table_no_op h hm] at hop; cases hop

theorem isAll_no_op {x : Str} (h : isAll x = true) : x.all (fun c => !isOp c) = true := by
  match x, h with
  | [a, b, c], h =>
    simp only [isAll, Bool.and_eq_true, Bool.or_eq_true, beq_iff_eq] at h
    have ha : isOp a = false := by cases hh : isOp a; rfl; rw [isOp_iff] at hh; omega
    have hb : isOp b = false := by cases hh : isOp b; rfl; rw [isOp_iff] at hh; omega
    have hc : isOp c = false := by cases hh : isOp c; rfl; rw [isOp_iff] at hh; omega
    simp [ha, hb, hc]

theorem nameList_no_op {rd : Reading} {n : Str} (h : nameList rd n = true) : n.all (fun c => !isOp c) = true := by
  unfold nameList at h
  rw [Bool.or_eq_true] at h
  rcases h with h | h
  · exact isAll_no_op h
  · apply fields_all_chars (· == 44) _ _ n
    · rw [List.all_eq_true] at h ⊢
      intro f hf
      have := h f hf
      rw [Bool.or_eq_true, Bool.and_eq_true] at this
      rcases this with hk | ⟨_, ha⟩
      · exact known_no_op hk
      · exact isAll_no_op ha
    · intro c hc
      have : c = 44 := by simpa using hc
      subst this; rfl

/-! ## `find` -/

theorem findOp_append (a : Str) (x : Nat) (r : Str) (ha : a.all (fun c => !isOp c) = true)
    (hx : isOp x = true) : findOp (a ++ x :: r) = some a.length := by
  induction a with
  | nil => simp [findOp, ← isOp_eq_isOpCh, hx]
  | cons c a ih =>
    simp only [List.all_cons, Bool.and_eq_true, Bool.not_eq_true'] at ha
    simp [findOp, ← isOp_eq_isOpCh, ha.1, ih ha.2]

theorem findOp_some {s : Str} {i : Nat} (h : findOp s = some i) :
    i < s.length ∧ ∃ x r, s.drop i = x :: r ∧ isOp x = true := by
  induction s generalizing i with
  | nil => simp [findOp] at h
  | cons c s ih =>
    simp only [findOp] at h
    split at h
    · next hc =>
      cases h
      exact ⟨by simp, c, s, rfl, by rw [isOp_eq_isOpCh]; exact hc⟩
    · cases hf : findOp s with
      | none => rw [hf] at h; simp at h
      | some j =>
        rw [hf] at h
        simp only [Option.map_some, Option.some.injEq] at h
        subst h
        obtain ⟨h1, x, r, h2, h3⟩ := ih hf
        exact ⟨by simp; omega, x, r, by simpa using h2, h3⟩

theorem findOp_zero_iff {s : Str} : findOp s = some 0 ↔ ∃ x r, s = x :: r ∧ isOp x = true := by
  cases s with
  | nil => simp [findOp]
  | cons c s =>
    simp only [findOp, isOp_eq_isOpCh]
    cases hc : isOpCh c
    · cases hf : findOp s <;> simp [hc]
    · simp [hc]

/-! ## one clause -/

theorem exists_ok_unit {x : Out Unit} : (∃ u, x = .ok u) ↔ x = .ok () :=
  ⟨fun ⟨_, h⟩ => h, fun h => ⟨(), h⟩⟩

theorem validateClause_ok_iff (c : Str) :
    validateClause c = .ok () ↔
      ∃ i, findOp c = some i ∧ (i = 0 → c.head? = some 61) ∧
        validateCapset (c.take i) = .ok () ∧ validateSuffix (c.drop i) = .ok () := by
  unfold validateClause
  cases hf : findOp c with
  | none => simp
  | some i =>
    simp only [Option.some.injEq, exists_eq_left']
    by_cases h0 : i = 0
    · subst h0
      by_cases hh : c.head? = some 61
      · simp [hh, Out.bind_eq_ok, exists_ok_unit]
      · simp [hh]
    · have : (i == 0) = false := by simpa using h0
      simp [this, h0, Out.bind_eq_ok, exists_ok_unit]

theorem clause_iff (rd : Reading) (c : Str) :
    clause rd c = true ↔ ∃ k, k ≤ c.length ∧ clauseAt rd c k = true := by
  simp only [clause, List.any_eq_true, List.mem_range]
  constructor
  · rintro ⟨k, hk, h⟩; exact ⟨k, by omega, h⟩
  · rintro ⟨k, hk, h⟩; exact ⟨k, by omega, h⟩

/-- the model accepts a clause ⇒ it is a clause under the code's reading -/
theorem clause_code_of_ok {c : Str} (h : validateClause c = .ok ()) : clause codeReading c = true := by
  obtain ⟨i, hf, h0, hcs, hsf⟩ := (validateClause_ok_iff c).mp h
  obtain ⟨hlt, x, r, hd, hx⟩ := findOp_some hf
  rw [clause_iff]
  refine ⟨i, by omega, ?_⟩
  rw [clauseAt, Bool.and_eq_true]
  constructor
  · rw [hd] at hsf ⊢; exact (validateSuffix_ok_iff r hx).mp hsf
  · by_cases hi : i = 0
    · simp [hi, h0 hi]
    · simp only [hi, if_false]
      rcases (validateCapset_ok_iff _).mp hcs with h1 | h1 | h1
      · have : (c.take i).length = 0 := by rw [h1]; rfl
        rw [List.length_take] at this; omega
      · simp [nameList, h1]
      · rw [nameList, Bool.or_eq_true]; right
        rw [List.all_eq_true] at h1 ⊢
        intro f hfm; simp [h1 f hfm]

/-- a clause under the code's reading ⇒ the model accepts it -/
theorem ok_of_clause_code {c : Str} (h : clause codeReading c = true) : validateClause c = .ok () := by
  obtain ⟨k, hk, hat⟩ := (clause_iff codeReading c).mp h
  rw [clauseAt, Bool.and_eq_true] at hat
  obtain ⟨hg, hn⟩ := hat
  obtain ⟨x, r, hd, hx, _⟩ := groups_none_head hg
  have hnoop : (c.take k).all (fun ch => !isOp ch) = true := by
    by_cases hk0 : k = 0
    · simp [hk0]
    · simp only [hk0, if_false] at hn; exact nameList_no_op hn
  have hfind : findOp c = some k := by
    have := findOp_append (c.take k) x r hnoop hx
    rw [← hd, List.take_append_drop, List.length_take] at this
    rw [this]; congr 1; omega
  rw [validateClause_ok_iff]
  refine ⟨k, hfind, ?_, ?_, ?_⟩
  · intro hk0; simpa [hk0] using hn
  · rw [validateCapset_ok_iff]
    by_cases hk0 : k = 0
    · left; simp [hk0]
    · simp only [hk0, if_false, nameList, Bool.or_eq_true] at hn
      rcases hn with h1 | h1
      · right; left; exact h1
      · right; right
        rw [List.all_eq_true] at h1 ⊢
        intro f hfm; simpa [codeReading] using h1 f hfm
  · rw [hd] at hg ⊢
    exact (validateSuffix_ok_iff r hx).mpr hg

theorem validateClause_not_panic (c : Str) : (validateClause c).isPanic = false := by
  unfold validateClause
  cases hf : findOp c with
  | none => rfl
  | some i =>
    simp only
    split
    · rfl
    · apply Out.bind_not_panic (validateCapset_not_panic _)
      intro _ _
      obtain ⟨_, x, r, hd, hx⟩ := findOp_some hf
      rw [hd, validateSuffix_cons_op r (by rw [← isOp_eq_isOpCh]; exact hx)]
      exact suffixLoop_some_not_panic r x

/-! ## the whole text -/

theorem clauseLoop_ok_iff (ps : List Str) :
    clauseLoop ps = .ok () ↔ ∀ p ∈ ps, validateClause p = .ok () := by
  induction ps with
  | nil => simp [clauseLoop]
  | cons p ps ih => simp [clauseLoop, Out.bind_eq_ok, ih, exists_ok_unit]

theorem clauseLoop_not_panic (ps : List Str) : (clauseLoop ps).isPanic = false := by
  induction ps with
  | nil => rfl
  | cons p ps ih =>
    simp only [clauseLoop]
    exact Out.bind_not_panic (validateClause_not_panic p) (fun _ _ => ih)

theorem validateCapsText_ok_iff (s : Str) :
    validateCapsText s = .ok () ↔ words s ≠ [] ∧ ∀ c ∈ words s, validateClause c = .ok () := by
  unfold validateCapsText
  rw [splitWhitespace_eq_words, words_trim]
  by_cases h : (trim s).isEmpty = true
  · simp [h, (trim_isEmpty_iff s).mp h]
  · have hw : words s ≠ [] := fun hw => h ((trim_isEmpty_iff s).mpr hw)
    simp [h, hw, clauseLoop_ok_iff]

theorem wf_iff (rd : Reading) (s : Str) :
    wf rd s = true ↔ words s ≠ [] ∧ ∀ c ∈ words s, clause rd c = true := by
  simp [wf]

/-! ## monotonicity in the reading -/

theorem nameList_mono {a b : Reading} (hab : Reading.le a b) {n : Str} (h : nameList a n = true) :
    nameList b n = true := by
  unfold nameList at h ⊢
  rw [Bool.or_eq_true] at h ⊢
  rcases h with h | h
  · exact Or.inl h
  · right
    rw [List.all_eq_true] at h ⊢
    intro f hf
    have := h f hf
    rw [Bool.or_eq_true, Bool.and_eq_true] at this ⊢
    rcases this with hk | ⟨h1, h2⟩
    · exact Or.inl hk
    · exact Or.inr ⟨hab.2 h1, h2⟩

theorem clause_mono {a b : Reading} (hab : Reading.le a b) {c : Str} (h : clause a c = true) :
    clause b c = true := by
  rw [clause_iff] at h ⊢
  obtain ⟨k, hk, hat⟩ := h
  refine ⟨k, hk, ?_⟩
  rw [clauseAt, Bool.and_eq_true] at hat ⊢
  refine ⟨groups_mono hab _ _ hat.1, ?_⟩
  by_cases hk0 : k = 0
  · simpa [hk0] using hat.2
  · simp only [hk0, if_false] at hat ⊢; exact nameList_mono hab hat.2

theorem wf_mono {a b : Reading} (hab : Reading.le a b) {s : Str} (h : wf a s = true) : wf b s = true := by
  rw [wf_iff] at h ⊢
  exact ⟨h.1, fun c hc => clause_mono hab (h.2 c hc)⟩

/-- the model accepts exactly the grammar under the code's reading -/
theorem validateCapsText_ok_iff_wf (s : Str) : validateCapsText s = .ok () ↔ wf codeReading s = true := by
  rw [validateCapsText_ok_iff, wf_iff]
  constructor
  · exact fun h => ⟨h.1, fun c hc => clause_code_of_ok (h.2 c hc)⟩
  · exact fun h => ⟨h.1, fun c hc => ok_of_clause_code (h.2 c hc)⟩

/-! ## the gap between the strict and the lenient reading (what the don't-care region consists of) -/

/-- the clause ends with an operator (its last group has no flag) -/
def EndsWithOp (c : Str) : Prop := ∃ x, c.getLast? = some x ∧ isOp x = true

/-- some prefix of the clause is a comma list of at least two items one of which is `all` -/
def AllInList (c : Str) : Prop :=
  ∃ k, 2 ≤ (fields (· == 44) (c.take k)).length ∧ ∃ f ∈ fields (· == 44) (c.take k), isAll f = true

theorem groups_gap (s : Str) : ∀ st, groups lenient st s = true → groups strict st s = false →
    (∃ x, s.getLast? = some x ∧ isOp x = true) ∨ (s = [] ∧ st = some 0) := by
  induction s with
  | nil =>
    intro st hl hs
    cases st with
    | none => simp [groups] at hl
    | some n =>
      right
      simp only [groups, strict, Bool.false_or, decide_eq_false_iff_not] at hs
      exact ⟨rfl, by congr 1; omega⟩
  | cons c r ih =>
    have step : groups lenient (some 0) r = true → groups strict (some 0) r = false → isOp c = true →
        ∃ x, (c :: r).getLast? = some x ∧ isOp x = true := by
      intro h1 h2 hc
      rcases ih (some 0) h1 h2 with ⟨x, hx, hop⟩ | ⟨hr, _⟩
      · cases r with
        | nil => simp at hx
        | cons y r' => exact ⟨x, by rw [List.getLast?_cons_cons]; exact hx, hop⟩
      · subst hr; exact ⟨c, rfl, hc⟩
    intro st hl hs
    left
    cases st with
    | none =>
      simp only [groups, Bool.and_eq_true] at hl
      simp only [groups, hl.1, Bool.true_and] at hs
      exact step hl.2 hs hl.1
    | some n =>
      simp only [groups] at hl hs
      split at hl
      · next hf =>
        simp only [hf, if_true] at hs
        rcases ih _ hl hs with ⟨x, hx, hop⟩ | ⟨hr, hst⟩
        · cases r with
          | nil => simp at hx
          | cons y r' => exact ⟨x, by rw [List.getLast?_cons_cons]; exact hx, hop⟩
        · simp at hst
      · next hf =>
        simp only [hf, Bool.false_eq_true, if_false] at hs
        simp only [Bool.and_eq_true] at hl
        simp only [hl.1.1, hl.1.2, Bool.true_and] at hs
        exact step hl.2 hs hl.1.1

theorem fields_singleton (p : Nat → Bool) (s f : Str) (h : fields p s = [f]) : s = f := by
  induction s generalizing f with
  | nil => simp [fields] at h; exact h.symm
  | cons c r ih =>
    simp only [fields] at h
    split at h
    · simp only [List.cons.injEq] at h
      exact absurd h.2 (fields_ne_nil p r)
    · cases hf : fields p r with
      | nil => exact absurd hf (fields_ne_nil p r)
      | cons g gs =>
        rw [hf] at h
        simp only [consHead, List.cons_append, List.nil_append, List.cons.injEq] at h
        obtain ⟨h1, h2⟩ := h
        subst h2
        rw [ih g hf, ← h1]

/-- a clause on which the two readings differ ends with an operator or has `all` inside a comma list -/
theorem clause_gap {c : Str} (hl : clause lenient c = true) (hs : clause strict c = false) :
    EndsWithOp c ∨ AllInList c := by
  obtain ⟨k, hk, hat⟩ := (clause_iff lenient c).mp hl
  have hnot : clauseAt strict c k = false := by
    have := List.any_eq_false.mp hs k (List.mem_range.mpr (by omega))
    simpa using this
  rw [clauseAt, Bool.and_eq_true] at hat
  rw [clauseAt, Bool.and_eq_false_iff] at hnot
  rcases hnot with hg | hn
  · left
    rcases groups_gap _ none hat.1 hg with ⟨x, hx, hop⟩ | ⟨_, hst⟩
    · rw [List.getLast?_drop] at hx
      split at hx
      · cases hx
      · exact ⟨x, hx, hop⟩
    · cases hst
  · right
    by_cases hk0 : k = 0
    · have h2 := hat.2
      simp only [hk0, if_true] at hn h2
      rw [h2] at hn; cases hn
    · have h2 := hat.2
      simp only [hk0, if_false, nameList] at hn h2
      rw [Bool.or_eq_false_iff] at hn
      rw [hn.1, Bool.false_or] at h2
      obtain ⟨f, hfm, hfk⟩ := List.all_eq_false.mp hn.2
      have hfl := List.all_eq_true.mp h2 f hfm
      simp only [strict, Bool.false_and, Bool.or_false] at hfk
      have hfa : isAll f = true := by
        simp only [Bool.not_eq_true] at hfk
        simpa [hfk, lenient] using hfl
      refine ⟨k, ?_, f, hfm, hfa⟩
      cases hfs : fields (· == 44) (c.take k) with
      | nil => exact absurd hfs (fields_ne_nil _ _)
      | cons g gs =>
        cases gs with
        | nil =>
          have := fields_singleton _ _ _ hfs
          rw [hfs] at hfm
          simp only [List.mem_cons, List.not_mem_nil, or_false] at hfm
          subst hfm
          rw [this, hfa] at hn
          cases hn.1
        | cons g2 gs2 => simp

/-! ## non-ASCII code points: a clause of the grammar is ASCII, under every reading -/

theorem table_ascii : Gen.capsTable.all (fun t => t.all (fun a => decide (a < 128))) = true := by
  decide

theorem toAsciiUpper_lt {a : Nat} (h : toAsciiUpper a < 128) : a < 128 := by
  unfold toAsciiUpper at h; split at h <;> omega

theorem known_ascii {x : Str} (h : known x = true) : x.all (fun a => decide (a < 128)) = true := by
  rw [← known_eq_contains, List.contains_iff_mem] at h
  rw [List.all_eq_true]; intro a ha
  have hm : toAsciiUpper a ∈ x.map toAsciiUpper := List.mem_map_of_mem ha
  have := List.all_eq_true.mp (List.all_eq_true.mp table_ascii _ h) _ hm
  simp only [decide_eq_true_eq] at this ⊢
  exact toAsciiUpper_lt this

theorem isAll_ascii {x : Str} (h : isAll x = true) : x.all (fun a => decide (a < 128)) = true := by
  match x, h with
  | [a, b, c], h =>
    simp only [isAll, Bool.and_eq_true, Bool.or_eq_true, beq_iff_eq] at h
    simp only [List.all_cons, List.all_nil, Bool.and_true, Bool.and_eq_true, decide_eq_true_eq]
    omega

theorem nameList_ascii {rd : Reading} {n : Str} (h : nameList rd n = true) :
    n.all (fun a => decide (a < 128)) = true := by
  unfold nameList at h
  rw [Bool.or_eq_true] at h
  rcases h with h | h
  · exact isAll_ascii h
  · apply fields_all_chars (· == 44) _ _ n
    · rw [List.all_eq_true] at h ⊢
      intro f hf
      have := h f hf
      rw [Bool.or_eq_true, Bool.and_eq_true] at this
      rcases this with hk | ⟨_, ha⟩
      · exact known_ascii hk
      · exact isAll_ascii ha
    · intro c hc
      have : c = 44 := by simpa using hc
      subst this; rfl

theorem isOp_ascii {a : Nat} (h : isOp a = true) : a < 128 := by rw [isOp_iff] at h; omega
theorem isFlag_ascii {a : Nat} (h : isFlag a = true) : a < 128 := by rw [isFlag_iff] at h; omega

theorem groups_ascii (rd : Reading) (s : Str) : ∀ st, groups rd st s = true → ∀ a ∈ s, a < 128 := by
  induction s with
  | nil => intro _ _ a ha; cases ha
  | cons c r ih =>
    intro st h a ha
    have key : c < 128 ∧ ∃ st', groups rd st' r = true := by
      cases st with
      | none =>
        simp only [groups, Bool.and_eq_true] at h
        exact ⟨isOp_ascii h.1, _, h.2⟩
      | some n =>
        simp only [groups] at h
        split at h
        · next hf => exact ⟨isFlag_ascii hf, _, h⟩
        · simp only [Bool.and_eq_true] at h
          exact ⟨isOp_ascii h.1.1, _, h.2⟩
    rcases List.mem_cons.mp ha with rfl | har
    · exact key.1
    · obtain ⟨st', hst⟩ := key.2
      exact ih st' hst a har

/-- every character of a clause of the grammar is ASCII, whichever reading is taken -/
theorem clause_ascii {rd : Reading} {c : Str} (h : clause rd c = true) : ∀ a ∈ c, a < 128 := by
  obtain ⟨k, hk, hat⟩ := (clause_iff rd c).mp h
  rw [clauseAt, Bool.and_eq_true] at hat
  intro a ha
  rw [← List.take_append_drop k c, List.mem_append] at ha
  rcases ha with ha | ha
  · by_cases hk0 : k = 0
    · simp [hk0] at ha
    · have h2 := hat.2
      simp only [hk0, if_false] at h2
      simpa using List.all_eq_true.mp (nameList_ascii h2) a ha
  · exact groups_ascii rd _ none hat.1 a ha

/-- a code point that is not whitespace (under the most generous reading) lies in one of the words -/
theorem mem_words_of_mem {s : Str} {x : Nat} (hx : x ∈ s) (hs : isSpace x = false) : ∃ c ∈ words s, x ∈ c := by
  induction s with
  | nil => cases hx
  | cons a r ih =>
    by_cases ha : isSpace a = true
    · rw [words_cons_ws r ha]
      rcases List.mem_cons.mp hx with rfl | hr
      · rw [hs] at ha; cases ha
      · exact ih hr
    · have ha' : isSpace a = false := by simpa using ha
      cases hf : fields isSpace r with
      | nil => exact absurd hf (fields_ne_nil _ _)
      | cons f fs =>
        have hw : words (a :: r) = (a :: f) :: fs.filter (fun w => !w.isEmpty) := by
          simp [words, fields, ha', hf, consHead]
        rw [hw]
        rcases List.mem_cons.mp hx with rfl | hr
        · exact ⟨x :: f, List.mem_cons_self .., List.mem_cons_self ..⟩
        · obtain ⟨c, hc, hxc⟩ := ih hr
          simp only [words, hf, List.filter_cons] at hc
          split at hc
          · rcases List.mem_cons.mp hc with rfl | hc'
            · exact ⟨a :: c, List.mem_cons_self .., List.mem_cons_of_mem _ hxc⟩
            · exact ⟨c, List.mem_cons_of_mem _ hc', hxc⟩
          · exact ⟨c, List.mem_cons_of_mem _ hc, hxc⟩

/-- a word contains no whitespace (under the most generous reading) -/
theorem words_no_space {s : Str} : ∀ c ∈ words s, ∀ x ∈ c, isSpace x = false := by
  induction s with
  | nil => intro c hc; simp [words, fields] at hc
  | cons a r ih =>
    by_cases ha : isSpace a = true
    · rw [words_cons_ws r ha]; exact ih
    · have ha' : isSpace a = false := by simpa using ha
      cases hf : fields isSpace r with
      | nil => exact absurd hf (fields_ne_nil _ _)
      | cons f fs =>
        have hw : words (a :: r) = (a :: f) :: fs.filter (fun w => !w.isEmpty) := by
          simp [words, fields, ha', hf, consHead]
        have hr : words r = (if (!f.isEmpty) = true then f :: fs.filter (fun w => !w.isEmpty)
            else fs.filter (fun w => !w.isEmpty)) := by
          simp only [words, hf, List.filter_cons]
        rw [hw]
        intro c hc x hxc
        rcases List.mem_cons.mp hc with rfl | hc'
        · rcases List.mem_cons.mp hxc with rfl | hxf
          · exact ha'
          · cases f with
            | nil => cases hxf
            | cons y f' =>
              exact ih (y :: f') (by rw [hr]; simp) x hxf
        · refine ih c ?_ x hxc
          rw [hr]; split
          · exact List.mem_cons_of_mem _ hc'
          · exact hc'

/-- the words of a text are made of characters of the text -/
theorem mem_of_mem_words : ∀ (t : Str), ∀ w ∈ words t, ∀ y ∈ w, y ∈ t := by
  intro t
  induction t with
  | nil => intro w hw; simp [words, fields] at hw
  | cons a r ih =>
    intro w hw y hy
    by_cases ha : isSpace a = true
    · rw [words_cons_ws r ha] at hw; exact List.mem_cons_of_mem _ (ih w hw y hy)
    · have ha' : isSpace a = false := by simpa using ha
      cases hf : fields isSpace r with
      | nil => exact absurd hf (fields_ne_nil _ _)
      | cons f fs =>
        have hr : words r = (if (!f.isEmpty) = true then f :: fs.filter (fun w => !w.isEmpty)
            else fs.filter (fun w => !w.isEmpty)) := by
          simp only [words, hf, List.filter_cons]
        have hw' : w = a :: f ∨ w ∈ fs.filter (fun w => !w.isEmpty) := by
          simpa [words, fields, ha', hf, consHead] using hw
        rcases hw' with rfl | hw'
        · rcases List.mem_cons.mp hy with rfl | hyf
          · exact List.mem_cons_self ..
          · cases f with
            | nil => cases hyf
            | cons z f' => exact List.mem_cons_of_mem _ (ih (z :: f') (by rw [hr]; simp) y hyf)
        · refine List.mem_cons_of_mem _ (ih w ?_ y hy)
          rw [hr]; split
          · exact List.mem_cons_of_mem _ hw'
          · exact hw'

/-- a text with a word that contains a non-ASCII code point is ill formed under every reading -/
theorem not_wf_of_nonascii {rd : Reading} {s c : Str} (hc : c ∈ words s) {x : Nat} (hx : x ∈ c) (h128 : 128 ≤ x) :
    wf rd s = false := by
  cases h : wf rd s
  · rfl
  · have := clause_ascii (((wf_iff rd s).mp h).2 c hc) x hx
    omega

/-! ## the parameterised (pre-e20037b) validator at the ASCII upper-casing is the model -/

theorem flatMap_singleton (f : Nat → Nat) (l : Str) : l.flatMap (fun c => [f c]) = l.map f := by
  induction l with
  | nil => rfl
  | cons a l ih => simp [List.flatMap_cons, ih]

theorem capsetLoopWith_ascii (ps : List Str) :
    capsetLoopWith (fun c => [toAsciiUpper c]) ps = capsetLoop ps := by
  induction ps with
  | nil => rfl
  | cons p ps ih => simp only [capsetLoopWith, capsetLoop, flatMap_singleton, ih]

theorem validateClauseWith_ascii (c : Str) :
    validateClauseWith (fun c => [toAsciiUpper c]) c = validateClause c := by
  simp only [validateClauseWith, validateClause, validateCapsetWith, validateCapset, capsetLoopWith_ascii]

theorem clauseLoopWith_ascii (ps : List Str) :
    clauseLoopWith (fun c => [toAsciiUpper c]) ps = clauseLoop ps := by
  induction ps with
  | nil => rfl
  | cons p ps ih => simp only [clauseLoopWith, clauseLoop, validateClauseWith_ascii, ih]

theorem validateCapsTextWith_ascii (s : Str) :
    validateCapsTextWith (fun c => [toAsciiUpper c]) s = validateCapsText s := by
  simp only [validateCapsTextWith, validateCapsText, clauseLoopWith_ascii]

end RpmVerif.FileCaps
