import RpmVerif.Spec.RpmValid
import RpmVerif.Lemmas.FromEntries
/-! Helper lemmas for C09: the validator's data length on `from_entries` layouts, alignment and
sequential-layout invariants of `layout`. -/
namespace RpmVerif.Hdr
open RpmVerif.RpmValid

/-- a record that occupies at least one byte and one item -/
def IndexData.NonEmpty : IndexData → Prop
  | .null => False
  | .char d => d ≠ []
  | .int8 d => d ≠ []
  | .bin d => d ≠ []
  | .int16 l => l ≠ []
  | .int32 l => l ≠ []
  | .int64 l => l ≠ []
  | .str _ => True
  | .strArray l => l ≠ []
  | .i18n l => l ≠ []

theorem flatten_be16_length (l : List Nat) : ((l.map be16).flatten).length = 2 * l.length := by
  induction l with
  | nil => rfl
  | cons x xs ih => simp only [List.map_cons, List.flatten_cons, List.length_append, ih, List.length_cons, be16, List.length_nil]; omega
theorem flatten_be32_length (l : List Nat) : ((l.map be32).flatten).length = 4 * l.length := by
  induction l with
  | nil => rfl
  | cons x xs ih => simp only [List.map_cons, List.flatten_cons, List.length_append, ih, List.length_cons, be32_length]; omega
theorem be64_length (n : Nat) : (be64 n).length = 8 := rfl
theorem flatten_be64_length (l : List Nat) : ((l.map be64).flatten).length = 8 * l.length := by
  induction l with
  | nil => rfl
  | cons x xs ih => simp only [List.map_cons, List.flatten_cons, List.length_append, ih, List.length_cons, be64_length]; omega

theorem strLen_append (s post : Bytes) (h : (0 : UInt8) ∉ s) : strLen (s ++ 0 :: post) = some (s.length + 1) := by
  induction s with
  | nil => simp [strLen]
  | cons b r ih =>
    have hb : b ≠ 0 := fun e => h (by simp [e])
    have hr : (0 : UInt8) ∉ r := fun m => h (by simp [m])
    simp only [List.cons_append, strLen, if_neg hb, ih hr, Option.map_some, List.length_cons]

theorem stringsLen_enc (l : List Bytes) (post : Bytes) (h : ∀ s ∈ l, (0 : UInt8) ∉ s) :
    stringsLen l.length ((l.map (· ++ [0])).flatten ++ post) = some ((l.map (· ++ [0])).flatten).length := by
  induction l with
  | nil => rfl
  | cons s ss ih =>
    have hs := h s (by simp)
    simp only [List.map_cons, List.flatten_cons, List.append_assoc, List.length_cons, stringsLen,
      List.cons_append, List.nil_append]
    rw [strLen_append s _ hs]
    simp only
    have : List.drop (s.length + 1) (s ++ 0 :: ((ss.map (· ++ [0])).flatten ++ post)) = (ss.map (· ++ [0])).flatten ++ post := by
      rw [show s ++ 0 :: ((ss.map (· ++ [0])).flatten ++ post) = (s ++ [0]) ++ ((ss.map (· ++ [0])).flatten ++ post) by simp]
      exact List.drop_left' (by simp)
    rw [this, ih (fun y m => h y (by simp [m]))]
    simp only [Option.map_some, List.length_append, List.length_cons, List.length_nil, Option.some.injEq]
    omega

theorem enc_pos {d : IndexData} (h : d.NonEmpty) : 0 < d.enc.length := by
  cases d with
  | null => exact absurd h (by simp [IndexData.NonEmpty])
  | char b => simp only [IndexData.NonEmpty] at h; simp only [IndexData.enc]; exact List.length_pos_iff.mpr h
  | int8 b => simp only [IndexData.NonEmpty] at h; simp only [IndexData.enc]; exact List.length_pos_iff.mpr h
  | bin b => simp only [IndexData.NonEmpty] at h; simp only [IndexData.enc]; exact List.length_pos_iff.mpr h
  | int16 l => simp only [IndexData.NonEmpty] at h; have := List.length_pos_iff.mpr h; simp only [IndexData.enc, flatten_be16_length]; omega
  | int32 l => simp only [IndexData.NonEmpty] at h; have := List.length_pos_iff.mpr h; simp only [IndexData.enc, flatten_be32_length]; omega
  | int64 l => simp only [IndexData.NonEmpty] at h; have := List.length_pos_iff.mpr h; simp only [IndexData.enc, flatten_be64_length]; omega
  | str s => simp [IndexData.enc]
  | strArray l =>
    simp only [IndexData.NonEmpty] at h
    cases l with
    | nil => exact absurd rfl h
    | cons a t => simp only [IndexData.enc, List.map_cons, List.flatten_cons, List.length_append, List.length_cons, List.length_nil]; omega
  | i18n l =>
    simp only [IndexData.NonEmpty] at h
    cases l with
    | nil => exact absurd rfl h
    | cons a t => simp only [IndexData.enc, List.map_cons, List.flatten_cons, List.length_append, List.length_cons, List.length_nil]; omega

theorem numItems_pos {d : IndexData} (h : d.NonEmpty) : 1 ≤ d.numItems := by
  cases d <;> simp only [IndexData.NonEmpty, IndexData.numItems] at * <;>
    first | exact absurd h id | exact Nat.le_refl 1 | exact List.length_pos_iff.mpr h

/-- the validator's data length of a canonical record sitting at `pre.length` is the length of its encoding -/
theorem dataLen_enc {d : IndexData} (hc : d.Canon) (hn : d ≠ .null) (pre post : Bytes) :
    dataLen (pre ++ d.enc ++ post) pre.length d.typeCode d.numItems = some d.enc.length := by
  cases d with
  | null => exact absurd rfl hn
  | char b => rfl
  | int8 b => rfl
  | bin b => rfl
  | int16 l => simp only [dataLen, IndexData.typeCode, IndexData.numItems, IndexData.enc, flatten_be16_length]
  | int32 l => simp only [dataLen, IndexData.typeCode, IndexData.numItems, IndexData.enc, flatten_be32_length]
  | int64 l => simp only [dataLen, IndexData.typeCode, IndexData.numItems, IndexData.enc, flatten_be64_length]
  | str s =>
    simp only [dataLen, IndexData.typeCode, IndexData.enc, List.append_assoc, List.drop_left, List.cons_append, List.nil_append]
    rw [strLen_append s post hc.1]; simp
  | strArray l =>
    simp only [dataLen, IndexData.typeCode, IndexData.enc, IndexData.numItems, List.append_assoc, List.drop_left]
    exact stringsLen_enc l post (fun s m => (hc.2 s m).1)
  | i18n l =>
    simp only [dataLen, IndexData.typeCode, IndexData.enc, IndexData.numItems, List.append_assoc, List.drop_left]
    exact stringsLen_enc l post (fun s m => (hc.2 s m).1)

theorem typeAlign_typeCode (d : IndexData) : typeAlign d.typeCode = d.align := by cases d <;> rfl

theorem padTo_aligned {n a : Nat} (h : a = 1 ∨ a = 2 ∨ a = 4 ∨ a = 8) : (n + padTo n a) % a = 0 := by
  unfold padTo
  rcases h with rfl | rfl | rfl | rfl <;> omega

theorem align_cases (d : IndexData) : d.align = 1 ∨ d.align = 2 ∨ d.align = 4 ∨ d.align = 8 := by
  cases d <;> simp [IndexData.align]

/-- sequential layout in terms of the encodings -/
def SeqEnc : Nat → List Entry → Prop
  | _, [] => True
  | start, e :: es => start ≤ e.off ∧ SeqEnc (e.off + e.data.enc.length) es

theorem layout_seq (rs : List (Nat × IndexData)) (store : Bytes) : SeqEnc store.length (layout rs store).1 := by
  induction rs generalizing store with
  | nil => simp [layout, SeqEnc]
  | cons r rs ih =>
    obtain ⟨tag, d⟩ := r
    simp only [layout, SeqEnc]
    refine ⟨by omega, ?_⟩
    have := ih (store ++ List.replicate (padTo store.length d.align) 0 ++ d.enc)
    simpa [Nat.add_assoc] using this

theorem layout_aligned (rs : List (Nat × IndexData)) (store : Bytes) :
    ∀ e ∈ (layout rs store).1, e.off % e.data.align = 0 := by
  induction rs generalizing store with
  | nil => intro e he; simp [layout] at he
  | cons r rs ih =>
    obtain ⟨tag, d⟩ := r
    intro e he
    simp only [layout, List.mem_cons] at he
    rcases he with rfl | he
    · exact padTo_aligned (align_cases d)
    · exact ih _ e he

theorem seqFrom_of_seqEnc (st : Bytes) (es : List Entry) (h : ∀ e ∈ es, entryLen st e = some e.data.enc.length) :
    ∀ s, SeqEnc s es → SeqFrom st s es := by
  induction es with
  | nil => intro _ _; trivial
  | cons e es ih =>
    intro s hs
    simp only [SeqEnc] at hs
    simp only [SeqFrom, h e (by simp), Option.getD_some]
    exact ⟨hs.1, ih (fun e' m => h e' (by simp [m])) _ hs.2⟩

end RpmVerif.Hdr

namespace RpmVerif.Hdr
/-- a tag that no record carries is not found among the entries of a `from_entries` header -/
theorem fromEntries_find_none {recs : List (Nat × IndexData)} {rt t : Nat}
    (hrt : rt ≠ t) (hn : ∀ r ∈ recs, r.1 ≠ t) : (fromEntries recs rt).entries.find? (fun e => e.tag == t) = none := by
  rw [List.find?_eq_none]
  intro e he
  simp only [fromEntries, List.mem_cons] at he
  rcases he with rfl | he
  · simpa using hrt
  · have : (e.tag, e.data) ∈ recs.mergeSort (fun a b => decide (a.1 ≤ b.1)) := by
      have hl := layout_tags (recs.mergeSort (fun a b => decide (a.1 ≤ b.1))) []
      have hmm := List.mem_map_of_mem (f := fun e => (e.tag, e.data)) he
      rw [hl] at hmm; exact hmm
    have := hn _ (List.mem_mergeSort.mp this)
    simpa using this
end RpmVerif.Hdr

namespace RpmVerif.Hdr
theorem padTo_le (n : Nat) (d : IndexData) : padTo n d.align ≤ 7 := by
  unfold padTo
  rcases align_cases d with h | h | h | h <;> rw [h] <;> omega

theorem layout_store_le (rs : List (Nat × IndexData)) (store : Bytes) :
    (layout rs store).2.length ≤ store.length + (rs.map (fun r => r.2.enc.length + 7)).sum := by
  induction rs generalizing store with
  | nil => simp [layout]
  | cons r rs ih =>
    obtain ⟨tag, d⟩ := r
    simp only [layout, List.map_cons, List.sum_cons]
    have := ih (store ++ List.replicate (padTo store.length d.align) 0 ++ d.enc)
    simp only [List.length_append, List.length_replicate] at this
    have := padTo_le store.length d
    omega

/-- an explicit, order-independent bound on the store `from_entries` builds -/
theorem fromEntries_store_le (recs : List (Nat × IndexData)) (rt : Nat) :
    (fromEntries recs rt).store.length ≤ (recs.map (fun r => r.2.enc.length + 7)).sum + 16 := by
  simp only [fromEntries, List.length_append, regionTrailer_length]
  have h := layout_store_le (recs.mergeSort (fun a b => decide (a.1 ≤ b.1))) []
  have hp := ((List.mergeSort_perm recs (fun a b => decide (a.1 ≤ b.1))).map (fun r => r.2.enc.length + 7)).sum_nat
  simp only [List.length_nil, Nat.zero_add] at h
  omega
end RpmVerif.Hdr
