import RpmVerif.Spec.FileMode
/-!
# Helper lemmas for C18 (bit-level facts about 16-bit words and the shape of `fromU16`)
-/
namespace RpmVerif.FileMode
open RpmVerif.Gen

/-- the generated constants, as the literals of the property text -/
theorem consts : fileTypeBitMask = 0o170000 ∧ permissionsBitMask = 0o7777 ∧ dirFileType = 0o040000
    ∧ regularFileType = 0o100000 ∧ symbolicLinkFileType = 0o120000 := by decide

/-- type bits and permission bits partition a 16-bit word -/
theorem split_word (w : Nat) (h : w < 65536) : (w &&& 0o170000) ||| (w &&& 0o7777) = w := by
  rw [← Nat.and_or_distrib_left]
  have : (0o170000 ||| 0o7777 : Nat) = 2 ^ 16 - 1 := by decide
  rw [this, Nat.and_two_pow_sub_one_eq_mod]; omega

theorem split_word' (w : Nat) (h : w < 65536) : (w &&& 0o7777) ||| (w &&& 0o170000) = w := by
  rw [Nat.or_comm]; exact split_word w h

/-- `w as i32 as u16 = w` for a 16-bit word -/
theorem asU16_ofNat (w : Nat) (h : w < 65536) : asU16 (w : Int) = w := by
  unfold asU16; omega

theorem asU16_lt (n : Int) : asU16 n < 65536 := by
  unfold asU16; omega

/-- masked permissions carry no type bits, a type constant carries no permission bits -/
theorem perm_and_type (p : Nat) : (p &&& 0o7777) &&& 0o170000 = 0 := by
  rw [Nat.and_assoc]
  have : (0o7777 &&& 0o170000 : Nat) = 0 := by decide
  rw [this, Nat.and_zero]

theorem perm_and_perm (p : Nat) : (p &&& 0o7777) &&& 0o7777 = p &&& 0o7777 := by
  rw [Nat.and_assoc, Nat.and_self]

theorem and_mask_lt (p : Nat) : p &&& 0o7777 < 4096 :=
  Nat.lt_of_le_of_lt Nat.and_le_right (by decide)

/-- the four branches of `From<u16>`, with the constants written out -/
theorem fromU16_cases (w : Nat) :
    (w &&& 0o170000 = 0o040000 ∧ fromU16 w = .dir (w &&& 0o7777)) ∨
    (w &&& 0o170000 = 0o100000 ∧ fromU16 w = .regular (w &&& 0o7777)) ∨
    (w &&& 0o170000 = 0o120000 ∧ fromU16 w = .symlink (w &&& 0o7777)) ∨
    (w &&& 0o170000 ≠ 0o040000 ∧ w &&& 0o170000 ≠ 0o100000 ∧ w &&& 0o170000 ≠ 0o120000
      ∧ fromU16 w = .invalid (w : Int)) := by
  obtain ⟨e1, e2, e3, e4, e5⟩ := consts
  unfold fromU16
  rw [e1, e2, e3, e4, e5]
  by_cases h1 : w &&& 0o170000 = 0o040000
  · left; exact ⟨h1, if_pos h1⟩
  by_cases h2 : w &&& 0o170000 = 0o100000
  · right; left; refine ⟨h2, ?_⟩; rw [if_neg h1, if_pos h2]
  by_cases h3 : w &&& 0o170000 = 0o120000
  · right; right; left; refine ⟨h3, ?_⟩; rw [if_neg h1, if_neg h2, if_pos h3]
  · right; right; right; refine ⟨h1, h2, h3, ?_⟩; rw [if_neg h1, if_neg h2, if_neg h3]

end RpmVerif.FileMode
