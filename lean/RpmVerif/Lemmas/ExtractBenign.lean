import RpmVerif.Lemmas.Extract
namespace RpmVerif.Fs
open RpmVerif.Extract

theorem CdaPost.persist {T c fs fs1} (h : CdaPost T c fs fs1) {q n} (hq : fs.get q = some n) : fs1.get q = some n := by
  rcases h.only q with h1 | ⟨h1, _⟩
  · rw [h1, hq]
  · rw [hq] at h1; cases h1

theorem append_cancel_left_ne {T a b : List Name} (h : a ≠ b) : T ++ a ≠ T ++ b :=
  fun he => h (List.append_cancel_left he)

/-- positions below the destination where a directory may be -/
def DPos (dl : List Bytes) (done : List Item) (p : List Name) : Prop :=
  p = [] ∨ (∃ d ∈ dl, p <+: compsD d) ∨ ∃ it ∈ done, it.kind = .dir ∧ p <+: compsD it.path

theorem DPos.mono {dl dl' done done' p} (h : DPos dl done p) (h1 : ∀ d ∈ dl, d ∈ dl') (h2 : ∀ i ∈ done, i ∈ done') :
    DPos dl' done' p := by
  rcases h with h | ⟨d, hd, h⟩ | ⟨i, hi, h⟩
  · exact Or.inl h
  · exact Or.inr (Or.inl ⟨d, h1 d hd, h⟩)
  · exact Or.inr (Or.inr ⟨i, h2 i hi, h⟩)

/-- the invariant of a benign run: `dl` = directory names processed, `done` = entries processed -/
structure K (T : Path) (fs0 fs : Fs) (dl : List Bytes) (done : List Item) : Prop where
  top : ∀ k, 0 < k → k ≤ T.length → ∃ m, fs.get (T.take k) = some (.dir m)
  dn : ∀ d ∈ dl, ∀ p, p <+: compsD d → ∃ m, fs.get (T ++ p) = some (.dir m)
  shape : ∀ q n, fs.get q = some n → T <+: q →
    (n.isDir = true ∧ ∃ p, q = T ++ p ∧ DPos dl done p) ∨ (∃ it ∈ done, it.kind ≠ .dir ∧ q = T ++ compsD it.path)
  faithful : ∀ it ∈ done, fs.get (T ++ compsD it.path) = wantNode it
  frame : ∀ q, ¬ T <+: q → fs.get q = fs0.get q

theorem K.congr {T fs0 fs dl dl' done done'} (h : K T fs0 fs dl done)
    (h1 : ∀ d, d ∈ dl ↔ d ∈ dl') (h2 : ∀ i, i ∈ done ↔ i ∈ done') : K T fs0 fs dl' done' := by
  refine ⟨h.top, fun d hd => h.dn d ((h1 d).mpr hd), fun q n hq hT => ?_, fun it hit => h.faithful it ((h2 it).mpr hit), h.frame⟩
  rcases h.shape q n hq hT with ⟨hn, p, hp, hd⟩ | ⟨it, hit, hk, hq'⟩
  · exact Or.inl ⟨hn, p, hp, hd.mono (fun d hd => (h1 d).mp hd) (fun i hi => (h2 i).mp hi)⟩
  · exact Or.inr ⟨it, (h2 it).mp hit, hk, hq'⟩

/-- what the caller must provide: the destination does not exist, nothing is below it, its parent
chain consists of directories -/
structure TargetReady (fs : Fs) (T : Path) : Prop where
  normal : ∀ c ∈ T, Normal c
  short : ∀ c ∈ T, Short c
  nonroot : T ≠ []
  parents : ∀ k, 0 < k → k < T.length → ∃ m, fs.get (T.take k) = some (.dir m)
  vacant : ∀ q, T <+: q → fs.get q = none

theorem take_ne_self_of_lt {T : Path} {k : Nat} (h : k < T.length) : T.take k ≠ T := by
  intro he
  have := congrArg List.length he
  simp at this; omega

theorem mkdir_ready {fs : Fs} {T : Path} (hr : TargetReady fs T) :
    mkdir fs T = .ok (fs.set T (.dir (newDirMode fs T))) ∧ K T fs (fs.set T (.dir (newDirMode fs T))) [] [] := by
  have hres : resolve fs false T = .ok T := resolve_parents fs false T hr.normal hr.parents (by simp)
  refine ⟨mkdir_vacant hres (hr.vacant T (List.prefix_refl _))
    (by simpa using nameTooLong_of_short hr.short (c := []) (by simp)), ?_⟩
  refine ⟨fun k hk hk2 => ?_, fun d hd => by simp at hd, fun q n hq hT => ?_, fun it hit => by simp at hit, fun q hq => ?_⟩
  · rw [get_set]
    by_cases he : T.take k = T
    · exact ⟨_, by rw [if_pos he]⟩
    · have hlt : k < T.length := by
        rcases Nat.lt_or_ge k T.length with h | h
        · exact h
        · exact absurd (List.take_of_length_le h) he
      obtain ⟨m, hm⟩ := hr.parents k hk hlt
      exact ⟨m, by rw [if_neg he, hm]⟩
  · rw [get_set] at hq
    by_cases he : q = T
    · rw [if_pos he] at hq
      injection hq with hq; subst hq
      exact Or.inl ⟨rfl, [], by simp [he], Or.inl rfl⟩
    · rw [if_neg he, hr.vacant q hT] at hq; cases hq
  · rw [get_set]
    have : q ≠ T := fun he => hq (he ▸ List.prefix_refl _)
    rw [if_neg this]

section
variable {T : Path} (hT : ∀ c ∈ T, Normal c) (hne : T ≠ [])
include hT hne

/-- one directory name -/
theorem K_dirname {fs0 fs : Fs} {dl : List Bytes} (hk : K T fs0 fs dl []) (d : Bytes)
    (hn : ∀ x ∈ compsD d, Normal x) (hs : ∀ x ∈ compsD d, Short x) :
    ∃ fs1, createDirAll fs (T ++ compsD d) = .ok fs1 ∧ K T fs0 fs1 (d :: dl) [] := by
  have hpre : ∀ k, k ≤ (compsD d).length → NoneOrDir (fs.get (T ++ (compsD d).take k)) := by
    intro k _
    cases hg : fs.get (T ++ (compsD d).take k) with
    | none => exact Or.inl rfl
    | some n =>
      rcases hk.shape _ n hg (List.prefix_append _ _) with ⟨hd, _⟩ | ⟨it, hit, _⟩
      · cases n with
        | dir m => exact Or.inr ⟨m, rfl⟩
        | file => simp [Node.isDir] at hd
        | symlink => simp [Node.isDir] at hd
      · simp at hit
  obtain ⟨fs1, h1, post⟩ := cda_spec hT hne _ (compsD d) fs rfl hn hs hk.top hpre
  refine ⟨fs1, h1, ⟨fun k hk1 hk2 => ?_, fun d' hd' p hp => ?_, fun q n hq hTq => ?_, fun it hit => by simp at hit, fun q hq => ?_⟩⟩
  · obtain ⟨m, hm⟩ := hk.top k hk1 hk2
    exact ⟨m, post.persist hm⟩
  · rcases List.mem_cons.mp hd' with he | hd'
    · subst he
      have hpt : p = (compsD d').take p.length := List.prefix_iff_eq_take.mp hp
      rw [hpt]
      exact post.made _ (hp.length_le)
    · obtain ⟨m, hm⟩ := hk.dn d' hd' p hp
      exact ⟨m, post.persist hm⟩
  · rcases post.only q with h | ⟨_, ⟨m, hm⟩, k, hk', hqk⟩
    · rw [h] at hq
      rcases hk.shape q n hq hTq with ⟨hd, p, hp, hpos⟩ | ⟨it, hit, _⟩
      · exact Or.inl ⟨hd, p, hp, hpos.mono (fun x hx => List.mem_cons_of_mem _ hx) (fun _ h => h)⟩
      · simp at hit
    · rw [hm] at hq; injection hq with hq; subst hq
      exact Or.inl ⟨rfl, _, hqk, Or.inr (Or.inl ⟨d, by simp, List.take_prefix _ _⟩)⟩
  · rcases post.only q with h | ⟨_, _, k, _, hqk⟩
    · rw [h]; exact hk.frame q hq
    · exact absurd (hqk ▸ List.prefix_append _ _) hq

theorem dirs_ok {fs0 : Fs} : ∀ (dsr : List Bytes) (dl : List Bytes) (fs : Fs), K T fs0 fs dl [] →
    (∀ d ∈ dsr, ∀ x ∈ compsD d, Normal x) → (∀ d ∈ dsr, ∀ x ∈ compsD d, Short x) →
    ∃ fs', extractDirs T fs dsr = ⟨.ok (), fs'⟩ ∧ K T fs0 fs' (dsr.reverse ++ dl) [] := by
  intro dsr
  induction dsr with
  | nil => intro dl fs hk _ _; exact ⟨fs, rfl, by simpa using hk⟩
  | cons d r ih =>
    intro dl fs hk hn hs
    obtain ⟨fs1, h1, k1⟩ := K_dirname hT hne hk d (hn d (by simp)) (hs d (by simp))
    obtain ⟨fs', h2, k2⟩ := ih (d :: dl) fs1 k1 (fun d' hd' => hn d' (by simp [hd'])) (fun d' hd' => hs d' (by simp [hd']))
    refine ⟨fs', ?_, by simpa using k2⟩
    unfold extractDirs
    rw [extractionPath_normal T (hn d (by simp))]
    simp only
    rw [andThenDirs_ok h1]
    exact h2

/-- a directory entry -/
theorem K_diritem {fs0 fs : Fs} {ds : List Bytes} {done : List Item} (hk : K T fs0 fs ds done) (it : Item)
    (hkind : it.kind = .dir)
    (hn : ∀ x ∈ compsD it.path, Normal x) (hs : ∀ x ∈ compsD it.path, Short x)
    (hko : ∀ i ∈ done, i.kind ≠ .other)
    (hfree : ∀ i ∈ done, i.kind ≠ .dir → ¬ compsD i.path <+: compsD it.path)
    (hdist : ∀ i ∈ done, compsD i.path ≠ compsD it.path) :
    ∃ fs2, extractItem T fs it = ⟨.ok (), fs2⟩ ∧ K T fs0 fs2 ds (it :: done) := by
  have hpre : ∀ k, k ≤ (compsD it.path).length → NoneOrDir (fs.get (T ++ (compsD it.path).take k)) := by
    intro k _
    cases hg : fs.get (T ++ (compsD it.path).take k) with
    | none => exact Or.inl rfl
    | some n =>
      rcases hk.shape _ n hg (List.prefix_append _ _) with ⟨hd, _⟩ | ⟨i, hi, hik, hq⟩
      · cases n with
        | dir m => exact Or.inr ⟨m, rfl⟩
        | file => simp [Node.isDir] at hd
        | symlink => simp [Node.isDir] at hd
      · exfalso
        have := List.append_cancel_left hq
        exact hfree i hi hik (this ▸ List.take_prefix _ _)
  obtain ⟨fs1, h1, post⟩ := cda_spec hT hne _ (compsD it.path) fs rfl hn hs hk.top hpre
  have htop1 : ∀ k, 0 < k → k ≤ T.length → ∃ m, fs1.get (T.take k) = some (.dir m) := fun k a b => by
    obtain ⟨m, hm⟩ := hk.top k a b; exact ⟨m, post.persist hm⟩
  obtain ⟨m0, hm0⟩ := post.made (compsD it.path).length (Nat.le_refl _)
  rw [List.take_length] at hm0
  have hres : resolve fs1 true (T ++ compsD it.path) = .ok (T ++ compsD it.path) :=
    resolve_of_dirs hT true _ hn htop1 (fun k hk' => post.made k (Nat.le_of_lt hk')) (fun _ t h => by rw [hm0] at h; cases h)
  have h2 := setPerm_dir it.perm hres hm0
  refine ⟨fs1.set (T ++ compsD it.path) (.dir it.perm), ?_, ?_⟩
  · have href : refuseSymlinks fs T (relOf it.path) true = false :=
      refuse_false hne hT hn hk.top true (fun k hk' _ t ht => by
        rcases hpre k hk' with h | ⟨m, h⟩ <;> rw [h] at ht <;> cases ht)
    unfold extractItem
    rw [extractionPath_normal T hn]
    simp only [hkind, href, Bool.false_eq_true, if_false]
    rw [andThenDirs_ok h1]
    rw [h2]
    rfl
  · refine ⟨fun k a b => ?_, fun d hd p hp => ?_, fun q n hq hTq => ?_, fun i hi => ?_, fun q hq => ?_⟩
    · obtain ⟨m, hm⟩ := htop1 k a b
      rw [get_set]
      by_cases he : T.take k = T ++ compsD it.path
      · exact ⟨_, by rw [if_pos he]⟩
      · exact ⟨m, by rw [if_neg he, hm]⟩
    · obtain ⟨m, hm⟩ := hk.dn d hd p hp
      rw [get_set]
      by_cases he : T ++ p = T ++ compsD it.path
      · exact ⟨_, by rw [if_pos he]⟩
      · exact ⟨m, by rw [if_neg he, post.persist hm]⟩
    · rw [get_set] at hq
      by_cases he : q = T ++ compsD it.path
      · rw [if_pos he] at hq; injection hq with hq; subst hq
        exact Or.inl ⟨rfl, _, he, Or.inr (Or.inr ⟨it, by simp, hkind, List.prefix_refl _⟩)⟩
      · rw [if_neg he] at hq
        rcases post.only q with h | ⟨_, ⟨m, hm⟩, k, _, hqk⟩
        · rw [h] at hq
          rcases hk.shape q n hq hTq with ⟨hd, p, hp, hpos⟩ | ⟨i, hi, hik, hqi⟩
          · exact Or.inl ⟨hd, p, hp, hpos.mono (fun _ h => h) (fun x hx => List.mem_cons_of_mem _ hx)⟩
          · exact Or.inr ⟨i, List.mem_cons_of_mem _ hi, hik, hqi⟩
        · rw [hm] at hq; injection hq with hq; subst hq
          exact Or.inl ⟨rfl, _, hqk, Or.inr (Or.inr ⟨it, by simp, hkind, List.take_prefix _ _⟩)⟩
    · rw [get_set]
      rcases List.mem_cons.mp hi with he | hi
      · subst he
        rw [if_pos rfl]
        simp [wantNode, hkind]
      · rw [if_neg (append_cancel_left_ne (hdist i hi))]
        have hf := hk.faithful i hi
        have hko' := hko i hi
        cases hw : wantNode i with
        | none =>
          exfalso
          unfold wantNode at hw
          cases hkk : i.kind <;> simp [hkk] at hw
          exact hko' hkk
        | some n =>
          rw [hw] at hf
          exact post.persist hf
    · rw [get_set]
      have : q ≠ T ++ compsD it.path := fun he => hq (he ▸ List.prefix_append _ _)
      rw [if_neg this]
      rcases post.only q with h | ⟨_, _, k, _, hqk⟩
      · rw [h]; exact hk.frame q hq
      · exact absurd (hqk ▸ List.prefix_append _ _) hq

omit hT hne in
/-- a regular file or a link put at a vacant position whose parent is one of the pre-created directories -/
theorem K_put {fs0 fs fs2 : Fs} {ds : List Bytes} {done : List Item} (hk : K T fs0 fs ds done) (it : Item) (n : Node)
    (hkind : it.kind ≠ .dir) (hw : wantNode it = some n)
    (hv : fs.get (T ++ compsD it.path) = none)
    (h2 : ∀ q, fs2.get q = if q = T ++ compsD it.path then some n else fs.get q)
    (hdist : ∀ i ∈ done, compsD i.path ≠ compsD it.path) :
    K T fs0 fs2 ds (it :: done) := by
  refine ⟨fun k a b => ?_, fun d hd p hp => ?_, fun q n' hq hTq => ?_, fun i hi => ?_, fun q hq => ?_⟩
  · obtain ⟨m, hm⟩ := hk.top k a b
    have : T.take k ≠ T ++ compsD it.path := fun he => by rw [he, hv] at hm; cases hm
    exact ⟨m, by rw [h2, if_neg this, hm]⟩
  · obtain ⟨m, hm⟩ := hk.dn d hd p hp
    have : T ++ p ≠ T ++ compsD it.path := fun he => by rw [he, hv] at hm; cases hm
    exact ⟨m, by rw [h2, if_neg this, hm]⟩
  · rw [h2] at hq
    by_cases he : q = T ++ compsD it.path
    · exact Or.inr ⟨it, by simp, hkind, he⟩
    · rw [if_neg he] at hq
      rcases hk.shape q n' hq hTq with ⟨hd, p, hp, hpos⟩ | ⟨i, hi, hik, hqi⟩
      · exact Or.inl ⟨hd, p, hp, hpos.mono (fun _ h => h) (fun x hx => List.mem_cons_of_mem _ hx)⟩
      · exact Or.inr ⟨i, List.mem_cons_of_mem _ hi, hik, hqi⟩
  · rw [h2]
    rcases List.mem_cons.mp hi with he | hi
    · subst he; rw [if_pos rfl, hw]
    · rw [if_neg (append_cancel_left_ne (hdist i hi))]; exact hk.faithful i hi
  · have : q ≠ T ++ compsD it.path := fun he => hq (he ▸ List.prefix_append _ _)
    rw [h2, if_neg this]; exact hk.frame q hq

/-- a regular-file or link entry -/
theorem K_leafitem {fs0 fs : Fs} {ds : List Bytes} {done : List Item} (hk : K T fs0 fs ds done) (it : Item)
    (hkind : it.kind = .regular ∨ (it.kind = .symlink ∧ it.linkto ≠ []))
    (hn : ∀ x ∈ compsD it.path, Normal x) (hTs : ∀ c ∈ T, Short c) (hs : ∀ x ∈ compsD it.path, Short x)
    (hparent : ∃ d ∈ ds, (compsD it.path).dropLast <+: compsD d)
    (hself : ¬ DPos ds done (compsD it.path))
    (hdist : ∀ i ∈ done, compsD i.path ≠ compsD it.path) :
    ∃ fs2, extractItem T fs it = ⟨.ok (), fs2⟩ ∧ K T fs0 fs2 ds (it :: done) := by
  have hv : fs.get (T ++ compsD it.path) = none := by
    cases hg : fs.get (T ++ compsD it.path) with
    | none => rfl
    | some n =>
      exfalso
      rcases hk.shape _ n hg (List.prefix_append _ _) with ⟨_, p, hp, hpos⟩ | ⟨i, hi, _, hq⟩
      · exact hself ((List.append_cancel_left hp) ▸ hpos)
      · exact hdist i hi (List.append_cancel_left hq).symm
  obtain ⟨d, hd, hpd⟩ := hparent
  have hdirs : ∀ k, k < (compsD it.path).length → ∃ m, fs.get (T ++ (compsD it.path).take k) = some (.dir m) := by
    intro k hk'
    refine hk.dn d hd _ (List.IsPrefix.trans ?_ hpd)
    rw [List.dropLast_eq_take]
    have : (compsD it.path).take k = ((compsD it.path).take ((compsD it.path).length - 1)).take k := by
      rw [List.take_take]; congr 1; omega
    rw [this]; exact List.take_prefix _ _
  have hres : ∀ fl, resolve fs fl (T ++ compsD it.path) = .ok (T ++ compsD it.path) := fun fl =>
    resolve_of_dirs hT fl _ hn hk.top hdirs (fun _ t h => by rw [hv] at h; cases h)
  have href : refuseSymlinks fs T (relOf it.path) false = false :=
    refuse_false hne hT hn hk.top false (fun k _ hlk t ht => by
      rcases hlk with h | h
      · cases h
      · obtain ⟨m, hm⟩ := hdirs k h
        rw [hm] at ht; cases ht)
  have hnotlink : isSymlinkAt fs (T ++ compsD it.path) = false := by
    unfold isSymlinkAt
    rw [hres false]
    simp only [hv]
  rcases hkind with hreg | ⟨hlnk, hlt⟩
  · have h1 := fileCreate_vacant it.content (hres true) hv (nameTooLong_of_short hTs hs)
    -- the second call sees the file just created
    let fs1 := fs.set (T ++ compsD it.path) (.file it.content (fs.masked 0o666))
    have hg1 : fs1.get (T ++ compsD it.path) = some (.file it.content (fs.masked 0o666)) := by simp [fs1, get_set]
    have hres1 : resolve fs1 true (T ++ compsD it.path) = .ok (T ++ compsD it.path) := by
      refine resolve_of_dirs hT true _ hn (fun k a b => ?_) (fun k hk' => ?_) (fun _ t h => by rw [hg1] at h; cases h)
      · obtain ⟨m, hm⟩ := hk.top k a b
        have : T.take k ≠ T ++ compsD it.path := fun he => by rw [he, hv] at hm; cases hm
        exact ⟨m, by simp only [fs1, get_set, if_neg this, hm]⟩
      · obtain ⟨m, hm⟩ := hdirs k hk'
        exact ⟨m, by simp only [fs1, get_set, if_neg (append_take_ne_of_lt hk'), hm]⟩
    have h2 := setPerm_file it.perm hres1 hg1
    refine ⟨fs1.set (T ++ compsD it.path) (.file it.content it.perm), ?_, ?_⟩
    · unfold extractItem
      rw [extractionPath_normal T hn]
      simp only [hreg, href, hnotlink, Bool.false_eq_true, if_false, andThen_ok]
      rw [h1]
      simp only [andThen_ok]
      rw [h2]
      rfl
    · refine K_put hk it (.file it.content it.perm) (by rw [hreg]; simp) (by simp [wantNode, hreg]) hv (fun q => ?_) hdist
      by_cases he : q = T ++ compsD it.path
      · simp [get_set, he]
      · simp [fs1, get_set, he]
  · have hle : lexists fs (T ++ compsD it.path) = false := lexists_vacant (hres false) hv
    have h1 := symlink_vacant hlt (hres false) hv (nameTooLong_of_short hTs hs)
    refine ⟨fs.set (T ++ compsD it.path) (.symlink it.linkto), ?_, ?_⟩
    · unfold extractItem
      rw [extractionPath_normal T hn]
      simp only [hlnk, href, hle, Bool.false_eq_true, if_false]
      rw [h1]
      rfl
    · refine K_put hk it (.symlink it.linkto) (by rw [hlnk]; simp) (by simp [wantNode, hlnk]) hv (fun q => ?_) hdist
      by_cases he : q = T ++ compsD it.path
      · simp [get_set, he]
      · simp [get_set, he]

end
/-- what `benign` says about the entries, as propositions -/
structure BenignItems (ds : List Bytes) (all : List Item) : Prop where
  kinds : ∀ it ∈ all, it.kind ≠ .other
  normal : ∀ it ∈ all, ∀ x ∈ compsD it.path, Normal x
  short : ∀ it ∈ all, ∀ x ∈ compsD it.path, Short x
  leaf : ∀ it ∈ all, it.kind ≠ .dir →
    (∃ d ∈ ds, (compsD it.path).dropLast <+: compsD d) ∧ compsD it.path ≠ [] ∧
    (¬ ∃ d ∈ ds, compsD it.path <+: compsD d) ∧
    (∀ d ∈ all, d.kind = .dir → ¬ compsD it.path <+: compsD d.path) ∧
    (it.kind = .symlink → it.linkto ≠ [])

section
variable {T : Path} (hT : ∀ c ∈ T, Normal c) (hne : T ≠ [])
include hT hne

theorem items_ok {fs0 : Fs} {ds : List Bytes} {all : List Item} (hTs : ∀ c ∈ T, Short c) (hb : BenignItems ds all) :
    ∀ (rest : List Item) (done : List Item) (fs : Fs), K T fs0 fs ds done →
    (∀ i ∈ rest, i ∈ all) → (∀ i ∈ done, i ∈ all) →
    (rest.map (fun i => compsD i.path)).Nodup →
    (∀ i ∈ done, ∀ j ∈ rest, compsD i.path ≠ compsD j.path) →
    ∃ fs', extractItems T fs rest = ⟨.ok (), fs'⟩ ∧ K T fs0 fs' ds (rest.reverse ++ done) := by
  intro rest
  induction rest with
  | nil => intro done fs hk _ _ _ _; exact ⟨fs, rfl, by simpa using hk⟩
  | cons it r ih =>
    intro done fs hk hra hda hnd hdist
    have hit : it ∈ all := hra it (by simp)
    have hdist1 : ∀ i ∈ done, compsD i.path ≠ compsD it.path := fun i hi => hdist i hi it (by simp)
    have hstep : ∃ fs2, extractItem T fs it = ⟨.ok (), fs2⟩ ∧ K T fs0 fs2 ds (it :: done) := by
      by_cases hkd : it.kind = .dir
      · refine K_diritem hT hne hk it hkd (hb.normal it hit) (hb.short it hit) (fun i hi => hb.kinds i (hda i hi)) ?_ hdist1
        intro i hi hik
        exact (hb.leaf i (hda i hi) hik).2.2.2.1 it hit hkd
      · obtain ⟨hpar, hne', hnotdn, hnotdir, hlink⟩ := hb.leaf it hit hkd
        have hkind : it.kind = .regular ∨ (it.kind = .symlink ∧ it.linkto ≠ []) := by
          have hko := hb.kinds it hit
          cases hkk : it.kind with
          | dir => exact absurd hkk hkd
          | regular => exact Or.inl rfl
          | symlink => exact Or.inr ⟨rfl, hlink hkk⟩
          | other => exact absurd hkk hko
        refine K_leafitem hT hne hk it hkind (hb.normal it hit) hTs (hb.short it hit) hpar ?_ hdist1
        rintro (h | h | ⟨i, hi, hik, hpre⟩)
        · exact hne' h
        · exact hnotdn h
        · exact hnotdir i (hda i hi) hik hpre
    obtain ⟨fs2, h2, k2⟩ := hstep
    have hnd' : compsD it.path ∉ r.map (fun i => compsD i.path) ∧ (r.map (fun i => compsD i.path)).Nodup := by
      rw [List.map_cons] at hnd; exact List.nodup_cons.mp hnd
    obtain ⟨fs', h3, k3⟩ := ih (it :: done) fs2 k2 (fun i hi => hra i (by simp [hi]))
      (fun i hi => by
        rcases List.mem_cons.mp hi with he | hi
        · exact he ▸ hit
        · exact hda i hi)
      hnd'.2
      (fun i hi j hj => by
        rcases List.mem_cons.mp hi with he | hi
        · subst he
          intro heq
          exact hnd'.1 (List.mem_map.mpr ⟨j, hj, heq.symm⟩)
        · exact hdist i hi j (by simp [hj]))
    refine ⟨fs', ?_, by simpa using k3⟩
    unfold extractItems
    rw [h2]
    exact h3

end
theorem benign_spec {inp : Input} (h : benign inp = true) :
    ∃ ds, inp.dirnames = some ds ∧ inp.tailOk = true ∧ (∀ d ∈ ds, ∀ x ∈ compsD d, Normal x) ∧
      (∀ d ∈ ds, ∀ x ∈ compsD d, Short x) ∧
      BenignItems ds inp.items ∧ (inp.items.map (fun i => compsD i.path)).Nodup := by
  unfold benign at h
  cases hd : inp.dirnames with
  | none => rw [hd] at h; simp at h
  | some ds =>
    rw [hd] at h
    simp only [Bool.and_eq_true, List.all_eq_true, decide_eq_true_eq, Bool.or_eq_true] at h
    obtain ⟨⟨⟨⟨⟨⟨⟨htail, hkinds⟩, hdd⟩, _⟩, hitems⟩, hnodup⟩, hleaf⟩, hshort⟩ := h
    have hsh : ∀ s ∈ allTexts inp, ∀ x ∈ compsD s, Short x := by
      intro s hs x hx
      simp only [shortNames, List.all_eq_true, decide_eq_true_eq] at hshort
      exact hshort s hs x hx
    have hall : ∀ s ∈ allTexts inp, hasDotDot s = false := by
      simpa [noDotDot, List.all_eq_true] using hdd
    have hk : ∀ it ∈ inp.items, it.kind ≠ .other := by
      simpa [threeKinds, List.all_eq_true] using hkinds
    refine ⟨ds, rfl, htail, fun d hd' => compsD_normal (hall d (by simp [allTexts, hd, hd'])),
      fun d hd' => hsh d (by simp [allTexts, hd, hd']), ⟨hk, fun it hit => ?_, fun it hit => ?_, fun it hit hnd => ?_⟩, hnodup⟩
    · exact compsD_normal (hall it.path (by simp only [allTexts, List.mem_append, List.mem_map]; exact Or.inr ⟨it, hit, rfl⟩))
    · exact hsh it.path (by simp only [allTexts, List.mem_append, List.mem_map]; exact Or.inr ⟨it, hit, rfl⟩)
    · rcases hleaf it hit with hdir | hrest
      · exact absurd hdir hnd
      · obtain ⟨⟨⟨hpar, hself⟩, hnotdir⟩, hlink⟩ := hrest
        refine ⟨?_, (hitems it hit).2, ?_, ?_, ?_⟩
        · simp only [inDirnames, List.any_eq_true, List.isPrefixOf_iff_prefix] at hpar
          exact hpar
        · simp only [inDirnames, Bool.not_eq_true', List.any_eq_false, List.isPrefixOf_iff_prefix] at hself
          rintro ⟨d, hd', hp⟩
          exact hself d hd' hp
        · intro d hd' hdk hp
          have := hnotdir d hd'
          have hp' : (compsD it.path).isPrefixOf (compsD d.path) = true := List.isPrefixOf_iff_prefix.mpr hp
          simp [hdk, hp'] at this
        · intro hsym
          rcases hlink with h1 | h1
          · exact absurd hsym h1
          · intro he; simp [he] at h1

end RpmVerif.Fs
