import RpmVerif.Lemmas.Contain
namespace RpmVerif.Fs
open RpmVerif.Extract

theorem relOf_eq (s : Bytes) : relOf s = compsD s := rfl

/-- what `extraction_path` returns -/
theorem extractionPath_some {T : List Name} {s : Bytes} {p} (h : extractionPath T s = some p) :
    p = T ++ relOf s ∧ ∀ c ∈ relOf s, Normal c := by
  unfold extractionPath at h
  unfold relOf
  cases hr : relComps s with
  | none =>
    rw [hr] at h
    simp only [Option.some.injEq] at h
    subst h
    simp
  | some cs =>
    rw [hr] at h
    simp only at h
    split at h
    · cases h
    · rename_i hc
      simp only [Option.some.injEq] at h
      subst h
      refine ⟨by simp, fun c hcm => ?_⟩
      simp only [Option.getD_some] at hcm
      have h3 : c ≠ dotdot := by
        intro he; subst he
        rw [List.contains_eq_mem] at hc
        simp at hc
        exact hc hcm
      unfold relComps at hr
      split at hr
      · simp only [Option.some.injEq] at hr
        subst hr
        simp only [List.mem_filter, decide_eq_true_eq] at hcm
        exact ⟨hcm.2.2, hcm.2.1, h3⟩
      · cases hr

/-- the loop of `refuse_symlinks` has looked at every prefix it is meant to look at -/
theorem refuseFrom_false (fs : Fs) (last : Bool) : ∀ (cs cur : List Name), refuseFrom fs last cur cs = false →
    ∀ k, 0 < k → k ≤ cs.length → (last = true ∨ k < cs.length) → isSymlinkAt fs (cur ++ cs.take k) = false := by
  intro cs
  induction cs with
  | nil => intro cur _ k hk hk2; simp at hk2; omega
  | cons c rest ih =>
    intro cur h k hk hk2 hlk
    simp only [refuseFrom, Bool.or_eq_false_iff, Bool.and_eq_false_iff] at h
    obtain ⟨h1, h2⟩ := h
    rcases Nat.lt_or_ge 1 k with hk1 | hk1
    · have := ih (cur ++ [c]) h2 (k - 1) (by omega) (by simp at hk2; omega) (by
        rcases hlk with h | h
        · exact Or.inl h
        · right; simp at h; omega)
      have e : k = (k - 1) + 1 := by omega
      rw [e]
      simpa [List.append_assoc] using this
    · have : k = 1 := by omega
      subst this
      show isSymlinkAt fs (cur ++ [c]) = false
      rcases h1 with h1 | h1
      · rcases hlk with h | h
        · rw [h] at h1; simp at h1
        · exfalso
          have := h1.2
          cases rest with
          | nil => simp at h
          | cons => simp at this
      · exact h1

section
variable {T : Path} (hT : ∀ c ∈ T, Normal c)
include hT

omit hT in
/-- whatever exists below `T` hangs on a chain of directories down from `T` -/
theorem tree_prefix_dirs {fs : Fs} (hi : Inv T fs) : ∀ (n : Nat) (p : List Name) (nd : Node), p.length = n →
    fs.get (T ++ p) = some nd → ∀ j, j < p.length → ∃ m, fs.get (T ++ p.take j) = some (.dir m) := by
  intro n
  induction n with
  | zero => intro p nd hl _ j hj; omega
  | succ n ih =>
    intro p nd hl hg j hj
    obtain ⟨p', x, hpx⟩ : ∃ p' x, p = p' ++ [x] := by
      rcases List.eq_nil_or_concat p with h | ⟨p', x, h⟩
      · subst h; simp at hl
      · exact ⟨p', x, by rw [h, List.concat_eq_append]⟩
    subst hpx
    have hpar : ∃ m, fs.get (T ++ p') = some (.dir m) := by
      have := hi.tree (T ++ (p' ++ [x])) nd hg (List.prefix_append _ _) (by
        intro he; have := congrArg List.length he; simp at this)
      rw [← List.append_assoc, List.dropLast_concat] at this
      exact this
    simp at hj hl
    rcases Nat.lt_or_ge j p'.length with hj' | hj'
    · obtain ⟨m, hm⟩ := hpar
      rw [List.take_append_of_le_length (by omega)]
      exact ih p' _ hl hm j hj'
    · have : j = p'.length := by omega
      subst this
      simpa using hpar

/-- a link below `T` is seen by `is_symlink` -/
theorem isSymlinkAt_true {fs : Fs} (hi : Inv T fs) {p : List Name} (hp : ∀ c ∈ p, Normal c) {t}
    (hg : fs.get (T ++ p) = some (.symlink t)) : isSymlinkAt fs (T ++ p) = true := by
  have hd := tree_prefix_dirs hi p.length p _ rfl hg
  have hres : resolve fs false (T ++ p) = .ok (T ++ p) :=
    resolve_of_dirs hT false p hp hi.dirs hd (by simp)
  unfold isSymlinkAt
  rw [hres]
  simp only [hg]

/-- after `refuse_symlinks` has let a path pass, no link is on the way -/
theorem nolink_of_refuse {fs : Fs} (hi : Inv T fs) {r : List Name} (hr : ∀ c ∈ r, Normal c) {last : Bool}
    (h : refuseSymlinks fs T r last = false) :
    NoLinkTo fs T r (if last then r.length else r.length - 1) := by
  intro k hk hk2 t ht
  have hk3 : k ≤ r.length := by split at hk2 <;> omega
  have hlk : last = true ∨ k < r.length := by
    cases last with
    | true => exact Or.inl rfl
    | false => right; simp at hk2; omega
  have h1 := refuseFrom_false fs last r T h k hk hk3 hlk
  have h2 := isSymlinkAt_true hT hi (p := r.take k) (fun c hc => hr c (List.mem_of_mem_take hc)) ht
  rw [h1] at h2; cases h2

/-- `is_symlink` said no: no link there -/
theorem nolink_of_not_isSymlinkAt {fs : Fs} (hi : Inv T fs) {r : List Name} (hr : ∀ c ∈ r, Normal c)
    (h : isSymlinkAt fs (T ++ r) = false) : ∀ t, fs.get (T ++ r) ≠ some (.symlink t) := by
  intro t ht
  have := isSymlinkAt_true hT hi hr ht
  rw [h] at this; cases this

end

/-! ### the loop bodies -/

theorem andThen_fs_err (fs : Fs) (e : Errno) (k : Fs → Res) : (andThen fs (.error e) k).fs = fs := rfl
theorem andThen_ok (fs fs' : Fs) (k : Fs → Res) : andThen fs (.ok fs') k = k fs' := rfl
theorem andThenDirs_ok {fs fs' : Fs} {p : List Name} (h : createDirAll fs p = .ok fs') (k : Fs → Res) :
    andThenDirs fs p k = k fs' := by unfold andThenDirs; rw [h]
theorem andThenDirs_err {fs : Fs} {p : List Name} {e : Errno} (h : createDirAll fs p = .error e) (k : Fs → Res) :
    andThenDirs fs p k = ⟨.err e.name, createDirAllLeft fs p⟩ := by unfold andThenDirs; rw [h]

section
variable {T : Path} (hT : ∀ c ∈ T, Normal c) (hne : T ≠ [])
include hT hne

/-- one entry — ANY entry — keeps the run inside the destination -/
theorem extractItem_good {fs : Fs} (hi : Inv T fs) (it : Item) : Good T fs (extractItem T fs it).fs := by
  unfold extractItem
  cases hp : extractionPath T it.path with
  | none => exact Good.refl hi
  | some p =>
    obtain ⟨rfl, hn⟩ := extractionPath_some hp
    simp only
    cases hk : it.kind with
    | dir =>
      simp only
      split
      · exact Good.refl hi
      · rename_i href
        have hN := nolink_of_refuse hT hi hn (by simpa using href)
        simp only [if_true] at hN
        cases hc : createDirAll fs (T ++ relOf it.path) with
        | error e =>
          rw [andThenDirs_err hc]
          exact (createDirAllLeft_good hT hne hi hn hN).1
        | ok fs1 =>
          obtain ⟨g1, q1⟩ := createDirAll_good hT hne hi hn hN hc
          rw [andThenDirs_ok hc]
          cases hs : setPerm fs1 (T ++ relOf it.path) it.perm with
          | error e => exact g1
          | ok fs2 =>
            have hN1 := hN.quiet q1
            exact g1.trans (setPerm_good hT hne g1.1 hn (hN1.mono (by omega))
              (fun t ht => by
                rcases Nat.eq_zero_or_pos (relOf it.path).length with h0 | h0
                · have hr0 : relOf it.path = [] := List.length_eq_zero_iff.mp h0
                  rw [hr0, List.append_nil] at ht
                  obtain ⟨m, hm⟩ := g1.1.dirs T.length (by cases T with | nil => exact absurd rfl hne | cons => simp) (Nat.le_refl _)
                  rw [List.take_length, ht] at hm; cases hm
                · have := hN1 (relOf it.path).length h0 (Nat.le_refl _) t
                  rw [List.take_length] at this
                  exact this ht) hs).1
    | regular =>
      simp only
      split
      · exact Good.refl hi
      · rename_i href
        have hN := nolink_of_refuse hT hi hn (by simpa using href)
        simp only [Bool.false_eq_true, if_false] at hN
        -- step 0: a link at the very path is removed first
        have step0 : ∀ fs0, (if isSymlinkAt fs (T ++ relOf it.path) then unlink fs (T ++ relOf it.path) else .ok fs) = .ok fs0 →
            (Good T fs fs0 ∧ Quiet fs fs0) ∧ ∀ t, fs0.get (T ++ relOf it.path) ≠ some (.symlink t) := by
          intro fs0 h0
          split at h0
          · obtain ⟨gq, hv⟩ := unlink_good hT hne hi hn hN h0
            exact ⟨gq, fun t ht => by rw [hv] at ht; cases ht⟩
          · rename_i hns
            injection h0 with h0; subst h0
            exact ⟨⟨Good.refl hi, Quiet.refl _⟩, nolink_of_not_isSymlinkAt hT hi hn (by simpa using hns)⟩
        cases h0 : (if isSymlinkAt fs (T ++ relOf it.path) then unlink fs (T ++ relOf it.path) else Except.ok fs) with
        | error e => exact Good.refl hi
        | ok fs0 =>
          obtain ⟨⟨g0, q0⟩, hl0⟩ := step0 fs0 h0
          simp only [andThen_ok]
          cases hc : fileCreate fs0 (T ++ relOf it.path) it.content with
          | error e => exact g0
          | ok fs1 =>
            obtain ⟨⟨g1, q1⟩, m, hm⟩ := fileCreate_good hT hne g0.1 hn (hN.quiet q0) hl0 hc
            simp only [andThen_ok]
            cases hs : setPerm fs1 (T ++ relOf it.path) it.perm with
            | error e => exact g0.trans g1
            | ok fs2 =>
              exact (g0.trans g1).trans (setPerm_good hT hne g1.1 hn ((hN.quiet q0).quiet q1)
                (fun t ht => by rw [hm] at ht; cases ht) hs).1
    | symlink =>
      simp only
      split
      · exact Good.refl hi
      · rename_i href
        have hN := nolink_of_refuse hT hi hn (by simpa using href)
        simp only [Bool.false_eq_true, if_false] at hN
        split
        · cases hu : unlink fs (T ++ relOf it.path) with
          | error e => exact Good.refl hi
          | ok fs1 =>
            obtain ⟨⟨g1, q1⟩, _⟩ := unlink_good hT hne hi hn hN hu
            simp only [andThen_ok]
            cases hs : symlink fs1 (T ++ relOf it.path) it.linkto with
            | error e => exact g1
            | ok fs2 => exact g1.trans (symlink_good hT hne g1.1 hn (hN.quiet q1) hs)
        · cases hs : symlink fs (T ++ relOf it.path) it.linkto with
          | error e => exact Good.refl hi
          | ok fs2 => exact symlink_good hT hne hi hn hN hs
    | other => exact Good.refl hi

theorem extractItems_good : ∀ (items : List Item) (fs : Fs), Inv T fs → Good T fs (extractItems T fs items).fs := by
  intro items
  induction items with
  | nil => intro fs hi; exact Good.refl hi
  | cons it r ih =>
    intro fs hi
    have g := extractItem_good hT hne hi it
    unfold extractItems
    split
    · rename_i u fs' heq
      rw [heq] at g
      exact g.trans (ih fs' g.1)
    · exact g

/-- no link at or below the destination (the state while the directory names are processed) -/
def NoLinksUnder (T : Path) (fs : Fs) : Prop := ∀ q t, T <+: q → fs.get q ≠ some (.symlink t)

omit hT hne in
theorem NoLinksUnder.quiet {fs fs' : Fs} (h : NoLinksUnder T fs) (hq : Quiet fs fs') : NoLinksUnder T fs' := by
  intro q t hT' ht
  obtain ⟨t', h'⟩ := hq q t ht
  exact h q t' hT' h'

theorem extractDirs_good : ∀ (ds : List Bytes) (fs : Fs), Inv T fs → NoLinksUnder T fs →
    Good T fs (extractDirs T fs ds).fs ∧ Quiet fs (extractDirs T fs ds).fs := by
  intro ds
  induction ds with
  | nil => intro fs hi _; exact ⟨Good.refl hi, Quiet.refl _⟩
  | cons d r ih =>
    intro fs hi hnl
    unfold extractDirs
    cases hp : extractionPath T d with
    | none => exact ⟨Good.refl hi, Quiet.refl _⟩
    | some p =>
      obtain ⟨rfl, hn⟩ := extractionPath_some hp
      simp only
      cases hc : createDirAll fs (T ++ relOf d) with
      | error e =>
        rw [andThenDirs_err hc]
        exact createDirAllLeft_good hT hne hi hn (fun k _ _ t => hnl _ t (List.prefix_append _ _))
      | ok fs1 =>
        obtain ⟨g1, q1⟩ := createDirAll_good hT hne hi hn (fun k _ _ t => hnl _ t (List.prefix_append _ _)) hc
        rw [andThenDirs_ok hc]
        obtain ⟨g2, q2⟩ := ih fs1 g1.1 (hnl.quiet q1)
        exact ⟨g1.trans g2, q1.trans q2⟩

end

/-! ### no panic (the repaired code has no panicking branch left) -/

theorem andThen_not_panic (fs : Fs) (r : Except Errno Fs) (k : Fs → Res)
    (hk : ∀ fs', (k fs').out.isPanic = false) : (andThen fs r k).out.isPanic = false := by
  cases r with
  | error e => rfl
  | ok fs' => exact hk fs'

theorem andThenDirs_not_panic (fs : Fs) (p : List Name) (k : Fs → Res)
    (hk : ∀ fs', (k fs').out.isPanic = false) : (andThenDirs fs p k).out.isPanic = false := by
  unfold andThenDirs
  cases createDirAll fs p with
  | error e => rfl
  | ok fs' => exact hk fs'

theorem extractItem_not_panic (T : List Name) (fs : Fs) (it : Item) : (extractItem T fs it).out.isPanic = false := by
  unfold extractItem
  cases extractionPath T it.path with
  | none => rfl
  | some p =>
    simp only
    cases it.kind with
    | other => rfl
    | dir =>
      simp only
      split
      · rfl
      · exact andThenDirs_not_panic _ _ _ (fun _ => andThen_not_panic _ _ _ (fun _ => rfl))
    | regular =>
      simp only
      split
      · rfl
      · exact andThen_not_panic _ _ _ (fun _ => andThen_not_panic _ _ _ (fun _ => andThen_not_panic _ _ _ (fun _ => rfl)))
    | symlink =>
      simp only
      split
      · rfl
      · split
        · exact andThen_not_panic _ _ _ (fun _ => andThen_not_panic _ _ _ (fun _ => rfl))
        · exact andThen_not_panic _ _ _ (fun _ => rfl)

theorem extractItems_not_panic (T : List Name) : ∀ (items : List Item) (fs : Fs),
    (extractItems T fs items).out.isPanic = false := by
  intro items
  induction items with
  | nil => intro fs; rfl
  | cons it r ih =>
    intro fs
    unfold extractItems
    have h1 := extractItem_not_panic T fs it
    split
    · exact ih _
    · exact h1

theorem extractDirs_not_panic (T : List Name) : ∀ (ds : List Bytes) (fs : Fs),
    (extractDirs T fs ds).out.isPanic = false := by
  intro ds
  induction ds with
  | nil => intro fs; rfl
  | cons d r ih =>
    intro fs
    unfold extractDirs
    cases extractionPath T d with
    | none => rfl
    | some p => exact andThenDirs_not_panic _ _ _ (fun fs' => ih fs')

theorem extract_not_panic (inp : Input) (T : List Name) (fs : Fs) : (extract inp T fs).out.isPanic = false := by
  unfold extract
  refine andThen_not_panic _ _ _ (fun fs0 => ?_)
  cases inp.dirnames with
  | none => rfl
  | some ds =>
    simp only
    have h1 := extractDirs_not_panic T ds fs0
    split
    · rename_i u fs1 heq
      have h2 := extractItems_not_panic T inp.items fs1
      split
      · split <;> rfl
      · exact h2
    · exact h1

/-! ### the log is sound -/

/-- some list of logged paths accounts for every difference -/
def Logged (fs fs' : Fs) : Prop := ∃ L, Ext fs fs' L

theorem Logged.refl (fs : Fs) : Logged fs fs := ⟨[], Ext.refl fs⟩
theorem Logged.trans {a b c : Fs} (h1 : Logged a b) (h2 : Logged b c) : Logged a c := by
  obtain ⟨L1, e1⟩ := h1; obtain ⟨L2, e2⟩ := h2; exact ⟨L2 ++ L1, e1.trans e2⟩

theorem mkdir_logged {fs fs' : Fs} {cs} (h : mkdir fs cs = .ok fs') : Logged fs fs' := by
  obtain ⟨q, _, _, rfl⟩ := mkdir_ok h; exact ⟨[q], Ext.set _ _ _⟩
theorem fileCreate_logged {fs fs' : Fs} {cs c} (h : fileCreate fs cs c = .ok fs') : Logged fs fs' := by
  obtain ⟨q, m, _, rfl, _⟩ := fileCreate_ok h; exact ⟨[q], Ext.set _ _ _⟩
theorem setPerm_logged {fs fs' : Fs} {cs p} (h : setPerm fs cs p = .ok fs') : Logged fs fs' := by
  obtain ⟨q, _, hv⟩ := setPerm_ok h
  rcases hv with ⟨m, _, rfl⟩ | ⟨c, m, _, rfl⟩ <;> exact ⟨[q], Ext.set _ _ _⟩
theorem unlink_logged {fs fs' : Fs} {cs} (h : unlink fs cs = .ok fs') : Logged fs fs' := by
  obtain ⟨q, n, _, _, _, rfl⟩ := unlink_ok h; exact ⟨[q], Ext.del _ _⟩
theorem symlink_logged {fs fs' : Fs} {cs t} (h : symlink fs cs t = .ok fs') : Logged fs fs' := by
  obtain ⟨q, _, _, _, rfl⟩ := symlink_ok h; exact ⟨[q], Ext.set _ _ _⟩

theorem cdaRev_logged : ∀ (rev : List Name) (fs fs' : Fs), createDirAllRev fs rev = .ok fs' → Logged fs fs' := by
  intro rev
  induction rev with
  | nil =>
    intro fs fs' h
    unfold createDirAllRev at h
    split at h
    · injection h with h; subst h; exact Logged.refl _
    · cases h
  | cons c rp ih =>
    intro fs fs' h
    unfold createDirAllRev at h
    split at h
    · rename_i fs1 hm; injection h with h; subst h; exact mkdir_logged hm
    · split at h
      · cases h
      · rename_i fs1 h1
        have g1 := ih fs fs1 h1
        split at h
        · rename_i fs2 h2; injection h with h; subst h; exact g1.trans (mkdir_logged h2)
        · split at h
          · injection h with h; subst h; exact g1
          · cases h
    · split at h
      · injection h with h; subst h; exact Logged.refl _
      · cases h

theorem cdaLeftRev_logged : ∀ (rev : List Name) (fs : Fs), Logged fs (createDirAllLeftRev fs rev) := by
  intro rev
  induction rev with
  | nil => intro fs; exact Logged.refl _
  | cons c rp ih =>
    intro fs
    unfold createDirAllLeftRev
    split
    · split
      · exact ih fs
      · rename_i fs1 h1; exact cdaRev_logged _ _ _ h1
    · exact Logged.refl _

theorem andThenDirs_logged {fs : Fs} {p : List Name} {k : Fs → Res}
    (h2 : ∀ fs', createDirAll fs p = .ok fs' → Logged fs' (k fs').fs) : Logged fs (andThenDirs fs p k).fs := by
  unfold andThenDirs
  cases hc : createDirAll fs p with
  | error e => exact cdaLeftRev_logged _ _
  | ok fs' => exact (cdaRev_logged _ _ _ hc).trans (h2 fs' hc)

theorem andThen_logged {fs : Fs} {r : Except Errno Fs} {k : Fs → Res}
    (h1 : ∀ fs', r = .ok fs' → Logged fs fs') (h2 : ∀ fs', r = .ok fs' → Logged fs' (k fs').fs) :
    Logged fs (andThen fs r k).fs := by
  cases r with
  | error e => exact Logged.refl _
  | ok fs' => exact (h1 fs' rfl).trans (h2 fs' rfl)

theorem extractItem_logged (T : List Name) (fs : Fs) (it : Item) : Logged fs (extractItem T fs it).fs := by
  unfold extractItem
  cases extractionPath T it.path with
  | none => exact Logged.refl _
  | some p =>
    simp only
    cases it.kind with
    | dir =>
      simp only
      split
      · exact Logged.refl _
      · exact andThenDirs_logged (fun fs1 _ =>
          andThen_logged (fun _ h => setPerm_logged h) (fun _ _ => Logged.refl _))
    | regular =>
      simp only
      split
      · exact Logged.refl _
      · refine andThen_logged (fun fs0 h => ?_) (fun fs0 _ =>
          andThen_logged (fun _ h => fileCreate_logged h) (fun fs1 _ =>
            andThen_logged (fun _ h => setPerm_logged h) (fun _ _ => Logged.refl _)))
        split at h
        · exact unlink_logged h
        · injection h with h; subst h; exact Logged.refl _
    | symlink =>
      simp only
      split
      · exact Logged.refl _
      · split
        · exact andThen_logged (fun _ h => unlink_logged h) (fun fs1 _ =>
            andThen_logged (fun _ h => symlink_logged h) (fun _ _ => Logged.refl _))
        · exact andThen_logged (fun _ h => symlink_logged h) (fun _ _ => Logged.refl _)
    | other => exact Logged.refl _

theorem extractItems_logged (T : List Name) : ∀ (items : List Item) (fs : Fs), Logged fs (extractItems T fs items).fs := by
  intro items
  induction items with
  | nil => intro fs; exact Logged.refl _
  | cons it r ih =>
    intro fs
    have g := extractItem_logged T fs it
    unfold extractItems
    split
    · rename_i u fs' heq; rw [heq] at g; exact g.trans (ih fs')
    · exact g

theorem extractDirs_logged (T : List Name) : ∀ (ds : List Bytes) (fs : Fs), Logged fs (extractDirs T fs ds).fs := by
  intro ds
  induction ds with
  | nil => intro fs; exact Logged.refl _
  | cons d r ih =>
    intro fs
    unfold extractDirs
    cases extractionPath T d with
    | none => exact Logged.refl _
    | some p => exact andThenDirs_logged (fun fs1 _ => ih fs1)

/-- the log is sound for EVERY run: whatever differs afterwards was logged -/
theorem extract_logged (inp : Input) (T : List Name) (fs : Fs) : Logged fs (extract inp T fs).fs := by
  unfold extract
  refine andThen_logged (fun _ h => mkdir_logged h) (fun fs0 _ => ?_)
  cases inp.dirnames with
  | none => exact Logged.refl _
  | some ds =>
    simp only
    have g1 := extractDirs_logged T ds fs0
    split
    · rename_i u fs1 heq
      rw [heq] at g1
      have g2 := extractItems_logged T inp.items fs1
      split
      · rename_i u2 fs2 heq2
        rw [heq2] at g2
        split <;> exact g1.trans g2
      · exact g1.trans g2
    · exact g1


/-! ### helpers for runs in which nothing is refused -/

theorem compsD_normal {s : Bytes} (h : hasDotDot s = false) : ∀ c ∈ compsD s, Normal c := by
  intro c hc
  have h3 : c ≠ dotdot := by
    intro he; subst he
    unfold hasDotDot at h
    rw [List.contains_eq_mem] at h
    simp at h
    exact h hc
  unfold compsD relComps at hc
  split at hc
  · simp only [Option.getD_some, List.mem_filter, decide_eq_true_eq] at hc
    exact ⟨hc.2.2, hc.2.1, h3⟩
  · simp at hc

theorem extractionPath_normal (T : List Name) {s : Bytes} (hn : ∀ x ∈ compsD s, Normal x) :
    extractionPath T s = some (T ++ compsD s) := by
  unfold extractionPath
  unfold compsD at hn ⊢
  cases hr : relComps s with
  | none => simp
  | some cs =>
    rw [hr] at hn
    simp only [Option.getD_some] at hn ⊢
    have hm : ¬ dotdot ∈ cs := fun hm => (hn dotdot hm).2.2 rfl
    simp [hm]

theorem isSymlinkAt_false_of_nolink {fs : Fs} {cs : List Name} (hne : cs ≠ []) (hn : ∀ c ∈ cs, Normal c)
    (hs : ∀ k, 0 < k → k ≤ cs.length → ∀ t, fs.get (cs.take k) ≠ some (.symlink t)) :
    isSymlinkAt fs cs = false := by
  unfold isSymlinkAt
  cases hr : resolve fs false cs with
  | error e => rfl
  | ok q =>
    have := resolve_exact fs false cs hn (fun k hk hk2 => hs k hk (Nat.le_of_lt hk2)) (by simp) hr
    subst this
    simp only
    cases hg : fs.get q with
    | none => rfl
    | some n =>
      cases n with
      | dir => rfl
      | file => rfl
      | symlink t =>
        have h0 : 0 < q.length := by cases q with | nil => exact absurd rfl hne | cons => simp
        exact absurd (by simpa using hg) (hs q.length h0 (Nat.le_refl _) t)

/-- `refuse_symlinks` lets a path pass when there is no link on it -/
theorem refuseFrom_eq_false (fs : Fs) (last : Bool) : ∀ (cs cur : List Name),
    (∀ k, 0 < k → k ≤ cs.length → (last = true ∨ k < cs.length) → isSymlinkAt fs (cur ++ cs.take k) = false) →
    refuseFrom fs last cur cs = false := by
  intro cs
  induction cs with
  | nil => intro cur _; rfl
  | cons c rest ih =>
    intro cur h
    simp only [refuseFrom, Bool.or_eq_false_iff, Bool.and_eq_false_iff]
    refine ⟨?_, ih (cur ++ [c]) (fun k hk hk2 hlk => ?_)⟩
    · by_cases hc : last = true ∨ 1 < (c :: rest).length
      · right
        have := h 1 (by omega) (by simp) hc
        simpa using this
      · left
        simp only [not_or, Bool.not_eq_true] at hc
        refine ⟨hc.1, ?_⟩
        have : rest = [] := by
          cases rest with
          | nil => rfl
          | cons => simp at hc
        simp [this]
    · have := h (k + 1) (by omega) (by simp; omega) (by
        rcases hlk with h' | h'
        · exact Or.inl h'
        · right; simp; omega)
      simpa [List.append_assoc] using this

theorem refuse_false {fs : Fs} {T r : List Name} (hne : T ≠ []) (hT : ∀ c ∈ T, Normal c) (hr : ∀ c ∈ r, Normal c)
    (htop : ∀ k, 0 < k → k ≤ T.length → ∃ m, fs.get (T.take k) = some (.dir m)) (last : Bool)
    (hnl : ∀ k, k ≤ r.length → (last = true ∨ k < r.length) → ∀ t, fs.get (T ++ r.take k) ≠ some (.symlink t)) :
    refuseSymlinks fs T r last = false := by
  refine refuseFrom_eq_false fs last r T (fun k hk hk2 hlk => ?_)
  refine isSymlinkAt_false_of_nolink (by simp [hne]) ?_ ?_
  · intro c hc
    rcases List.mem_append.mp hc with hc | hc
    · exact hT c hc
    · exact hr c (List.mem_of_mem_take hc)
  · intro j hj hj2 t ht
    by_cases hle : j ≤ T.length
    · rw [take_append_le T _ j hle] at ht
      obtain ⟨m, hm⟩ := htop j hj hle
      rw [hm] at ht; cases ht
    · rw [take_append_ge T _ j (by omega), List.take_take] at ht
      simp at hj2
      have hmin : min (j - T.length) k = j - T.length := by omega
      rw [hmin] at ht
      refine hnl (j - T.length) (by omega) ?_ t ht
      rcases hlk with h | h
      · exact Or.inl h
      · right; omega

end RpmVerif.Fs
