import RpmVerif.Lemmas.Fs
import RpmVerif.Spec.Extract
namespace RpmVerif.Fs
open RpmVerif.Extract

theorem destJoin_eq (T : List Name) (s : Bytes) : destJoin T s = T ++ compsD s := by
  unfold destJoin compsD
  cases relComps s <;> simp

theorem compsD_normal {s : Bytes} (h : hasDotDot s = false) : ∀ c ∈ compsD s, Normal c := by
  intro c hc
  have h3 : c ≠ dotdot := by
    intro he; subst he
    unfold hasDotDot at h
    rw [List.contains_eq_mem] at h
    simp at h
    exact h hc
  unfold compsD relComps at hc
  split at hc
  · simp only [Option.getD_some, List.mem_filter, decide_eq_true_eq] at hc
    exact ⟨hc.2.2, hc.2.1, h3⟩
  · simp at hc

theorem andThen_fs_err (fs : Fs) (e : Errno) (k : Fs → Res) : (andThen fs (.error e) k).fs = fs := rfl
theorem andThen_ok (fs fs' : Fs) (k : Fs → Res) : andThen fs (.ok fs') k = k fs' := rfl

section
variable {T : Path} (hT : ∀ c ∈ T, Normal c)
include hT

theorem extractItem_good {fs : Fs} {S : List Path} (hi : Inv T fs S) (it : Item)
    (hn : ∀ c ∈ compsD it.path, Normal c)
    (hf : ∀ s ∈ S, ¬ s <+: T ++ followed it) :
    Good T fs (extractItem T fs it).fs (if it.kind = .symlink then (T ++ compsD it.path) :: S else S) := by
  unfold extractItem
  rw [destJoin_eq]
  cases hk : it.kind with
  | dir =>
    simp only [hk, followed] at hf
    simp only [reduceCtorEq, if_false]
    cases hc : createDirAll fs (T ++ compsD it.path) with
    | error e => exact Good.refl hi
    | ok fs1 =>
      have g1 := createDirAll_good hT hi hn hf hc
      simp only [andThen_ok]
      cases hs : setPerm fs1 (T ++ compsD it.path) it.perm with
      | error e => exact g1
      | ok fs2 => exact g1.trans (setPerm_good hT g1.1 hn hf hs)
  | regular =>
    simp only [hk, followed] at hf
    simp only [reduceCtorEq, if_false]
    cases hc : fileCreate fs (T ++ compsD it.path) it.content with
    | error e => exact Good.refl hi
    | ok fs1 =>
      have g1 := fileCreate_good hT hi hn hf hc
      simp only [andThen_ok]
      cases hs : setPerm fs1 (T ++ compsD it.path) it.perm with
      | error e => exact g1
      | ok fs2 => exact g1.trans (setPerm_good hT g1.1 hn hf hs)
  | symlink =>
    simp only [hk, followed] at hf
    simp only [if_true]
    have gweak : Good T fs fs ((T ++ compsD it.path) :: S) := (Good.refl hi).mono (fun q hq => List.mem_cons_of_mem _ hq)
    split
    · cases hu : unlink fs (T ++ compsD it.path) with
      | error e => exact gweak
      | ok fs1 =>
        have g1 := unlink_good hT hi hn hf hu
        simp only [andThen_ok]
        cases hs : symlink fs1 (T ++ compsD it.path) it.linkto with
        | error e => exact g1.mono (fun q hq => List.mem_cons_of_mem _ hq)
        | ok fs2 => exact g1.trans (symlink_good hT g1.1 hn hf hs)
    · cases hs : symlink fs (T ++ compsD it.path) it.linkto with
      | error e => exact gweak
      | ok fs2 => exact symlink_good hT hi hn hf hs
  | other =>
    simp only [reduceCtorEq, if_false]
    exact Good.refl hi

theorem extractItems_good : ∀ (items : List Item) (fs : Fs) (links : List (List Name)),
    Inv T fs (links.map (T ++ ·)) → noBelowLinkAux links items = true →
    (∀ it ∈ items, ∀ c ∈ compsD it.path, Normal c) →
    ∃ S', Good T fs (extractItems T fs items).fs S' := by
  intro items
  induction items with
  | nil => intro fs links hi _ _; exact ⟨_, Good.refl hi⟩
  | cons it r ih =>
    intro fs links hi hb hn
    simp only [noBelowLinkAux, Bool.and_eq_true, List.all_eq_true, Bool.not_eq_true'] at hb
    have hf : ∀ s ∈ links.map (T ++ ·), ¬ s <+: T ++ followed it := by
      intro s hs hh
      obtain ⟨l, hl, rfl⟩ := List.mem_map.mp hs
      rw [List.prefix_append_right_inj] at hh
      have := hb.1 l hl
      rw [← Bool.not_eq_true, List.isPrefixOf_iff_prefix] at this
      exact this hh
    have g := extractItem_good hT hi it (hn it (by simp)) hf
    unfold extractItems
    split
    · rename_i u fs' heq
      rw [heq] at g
      have hi' : Inv T fs' ((if it.kind = .symlink then compsD it.path :: links else links).map (T ++ ·)) := by
        have := g.1
        by_cases hk : it.kind = .symlink
        · simpa [hk] using this
        · simpa [hk] using this
      obtain ⟨S', g'⟩ := ih fs' _ hi' hb.2 (fun it' h' => hn it' (by simp [h']))
      exact ⟨S', g.trans g'⟩
    · exact ⟨_, g⟩

theorem extractDirs_good : ∀ (ds : List Bytes) (fs : Fs), Inv T fs [] →
    (∀ d ∈ ds, ∀ c ∈ compsD d, Normal c) → Good T fs (extractDirs T fs ds).fs [] := by
  intro ds
  induction ds with
  | nil => intro fs hi _; exact Good.refl hi
  | cons d r ih =>
    intro fs hi hn
    unfold extractDirs
    rw [destJoin_eq]
    cases hc : createDirAll fs (T ++ compsD d) with
    | error e => exact Good.refl hi
    | ok fs1 =>
      have g1 := createDirAll_good hT hi (hn d (by simp)) (by simp) hc
      simp only [andThen_ok]
      exact g1.trans (ih fs1 g1.1 (fun d' h' => hn d' (by simp [h'])))

end
/-! ### no panic -/

theorem andThen_not_panic (fs : Fs) (r : Except Errno Fs) (k : Fs → Res)
    (hk : ∀ fs', (k fs').out.isPanic = false) : (andThen fs r k).out.isPanic = false := by
  cases r with
  | error e => rfl
  | ok fs' => exact hk fs'

theorem extractItem_not_panic (T : List Name) (fs : Fs) (it : Item) (h : it.kind ≠ .other) :
    (extractItem T fs it).out.isPanic = false := by
  unfold extractItem
  cases hk : it.kind with
  | other => exact absurd hk h
  | dir => exact andThen_not_panic _ _ _ (fun _ => andThen_not_panic _ _ _ (fun _ => rfl))
  | regular => exact andThen_not_panic _ _ _ (fun _ => andThen_not_panic _ _ _ (fun _ => rfl))
  | symlink =>
    simp only
    split
    · exact andThen_not_panic _ _ _ (fun _ => andThen_not_panic _ _ _ (fun _ => rfl))
    · exact andThen_not_panic _ _ _ (fun _ => rfl)

theorem extractItems_not_panic (T : List Name) : ∀ (items : List Item) (fs : Fs),
    (∀ it ∈ items, it.kind ≠ .other) → (extractItems T fs items).out.isPanic = false := by
  intro items
  induction items with
  | nil => intro fs _; rfl
  | cons it r ih =>
    intro fs h
    unfold extractItems
    have h1 := extractItem_not_panic T fs it (h it (by simp))
    split
    · exact ih _ (fun it' h' => h it' (by simp [h']))
    · exact h1

theorem extractDirs_not_panic (T : List Name) : ∀ (ds : List Bytes) (fs : Fs),
    (extractDirs T fs ds).out.isPanic = false := by
  intro ds
  induction ds with
  | nil => intro fs; rfl
  | cons d r ih => intro fs; unfold extractDirs; exact andThen_not_panic _ _ _ (fun fs' => ih fs')

/-! ### the log is sound -/

/-- some list of logged paths accounts for every difference -/
def Logged (fs fs' : Fs) : Prop := ∃ L, Ext fs fs' L

theorem Logged.refl (fs : Fs) : Logged fs fs := ⟨[], Ext.refl fs⟩
theorem Logged.trans {a b c : Fs} (h1 : Logged a b) (h2 : Logged b c) : Logged a c := by
  obtain ⟨L1, e1⟩ := h1; obtain ⟨L2, e2⟩ := h2; exact ⟨L2 ++ L1, e1.trans e2⟩

theorem mkdir_logged {fs fs' : Fs} {cs} (h : mkdir fs cs = .ok fs') : Logged fs fs' := by
  obtain ⟨q, _, _, rfl⟩ := mkdir_ok h; exact ⟨[q], Ext.set _ _ _⟩
theorem fileCreate_logged {fs fs' : Fs} {cs c} (h : fileCreate fs cs c = .ok fs') : Logged fs fs' := by
  obtain ⟨q, m, _, rfl, _⟩ := fileCreate_ok h; exact ⟨[q], Ext.set _ _ _⟩
theorem setPerm_logged {fs fs' : Fs} {cs p} (h : setPerm fs cs p = .ok fs') : Logged fs fs' := by
  obtain ⟨q, _, hv⟩ := setPerm_ok h
  rcases hv with ⟨m, _, rfl⟩ | ⟨c, m, _, rfl⟩ <;> exact ⟨[q], Ext.set _ _ _⟩
theorem unlink_logged {fs fs' : Fs} {cs} (h : unlink fs cs = .ok fs') : Logged fs fs' := by
  obtain ⟨q, n, _, _, _, rfl⟩ := unlink_ok h; exact ⟨[q], Ext.del _ _⟩
theorem symlink_logged {fs fs' : Fs} {cs t} (h : symlink fs cs t = .ok fs') : Logged fs fs' := by
  obtain ⟨q, _, _, _, rfl⟩ := symlink_ok h; exact ⟨[q], Ext.set _ _ _⟩

theorem cdaRev_logged : ∀ (rev : List Name) (fs fs' : Fs), createDirAllRev fs rev = .ok fs' → Logged fs fs' := by
  intro rev
  induction rev with
  | nil =>
    intro fs fs' h
    unfold createDirAllRev at h
    split at h
    · injection h with h; subst h; exact Logged.refl _
    · cases h
  | cons c rp ih =>
    intro fs fs' h
    unfold createDirAllRev at h
    split at h
    · rename_i fs1 hm; injection h with h; subst h; exact mkdir_logged hm
    · split at h
      · cases h
      · rename_i fs1 h1
        have g1 := ih fs fs1 h1
        split at h
        · rename_i fs2 h2; injection h with h; subst h; exact g1.trans (mkdir_logged h2)
        · split at h
          · injection h with h; subst h; exact g1
          · cases h
    · split at h
      · injection h with h; subst h; exact Logged.refl _
      · cases h

theorem andThen_logged {fs : Fs} {r : Except Errno Fs} {k : Fs → Res}
    (h1 : ∀ fs', r = .ok fs' → Logged fs fs') (h2 : ∀ fs', r = .ok fs' → Logged fs' (k fs').fs) :
    Logged fs (andThen fs r k).fs := by
  cases r with
  | error e => exact Logged.refl _
  | ok fs' => exact (h1 fs' rfl).trans (h2 fs' rfl)

theorem extractItem_logged (T : List Name) (fs : Fs) (it : Item) : Logged fs (extractItem T fs it).fs := by
  unfold extractItem
  cases it.kind with
  | dir =>
    exact andThen_logged (fun _ h => cdaRev_logged _ _ _ h) (fun fs1 _ =>
      andThen_logged (fun _ h => setPerm_logged h) (fun _ _ => Logged.refl _))
  | regular =>
    exact andThen_logged (fun _ h => fileCreate_logged h) (fun fs1 _ =>
      andThen_logged (fun _ h => setPerm_logged h) (fun _ _ => Logged.refl _))
  | symlink =>
    simp only
    split
    · exact andThen_logged (fun _ h => unlink_logged h) (fun fs1 _ =>
        andThen_logged (fun _ h => symlink_logged h) (fun _ _ => Logged.refl _))
    · exact andThen_logged (fun _ h => symlink_logged h) (fun _ _ => Logged.refl _)
  | other => exact Logged.refl _

theorem extractItems_logged (T : List Name) : ∀ (items : List Item) (fs : Fs), Logged fs (extractItems T fs items).fs := by
  intro items
  induction items with
  | nil => intro fs; exact Logged.refl _
  | cons it r ih =>
    intro fs
    have g := extractItem_logged T fs it
    unfold extractItems
    split
    · rename_i u fs' heq; rw [heq] at g; exact g.trans (ih fs')
    · exact g

theorem extractDirs_logged (T : List Name) : ∀ (ds : List Bytes) (fs : Fs), Logged fs (extractDirs T fs ds).fs := by
  intro ds
  induction ds with
  | nil => intro fs; exact Logged.refl _
  | cons d r ih =>
    intro fs
    unfold extractDirs
    exact andThen_logged (fun _ h => cdaRev_logged _ _ _ h) (fun fs1 _ => ih fs1)

/-- the log is sound for EVERY run: whatever differs afterwards was logged -/
theorem extract_logged (inp : Input) (T : List Name) (fs : Fs) : Logged fs (extract inp T fs).fs := by
  unfold extract
  refine andThen_logged (fun _ h => mkdir_logged h) (fun fs0 _ => ?_)
  cases inp.dirnames with
  | none => exact Logged.refl _
  | some ds =>
    simp only
    have g1 := extractDirs_logged T ds fs0
    split
    · rename_i u fs1 heq
      rw [heq] at g1
      have g2 := extractItems_logged T inp.items fs1
      split
      · rename_i u2 fs2 heq2
        rw [heq2] at g2
        split <;> exact g1.trans g2
      · exact g1.trans g2
    · exact g1

end RpmVerif.Fs
