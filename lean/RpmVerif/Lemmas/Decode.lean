import RpmVerif.Lemmas.FromEntries
/-! Decoding characterised relationally: what `decode` returns is exactly what the store holds at the offset. -/
namespace RpmVerif.Hdr

theorem rd16_ok' {bs n r} (h : rd16 bs = .ok (n, r)) : bs = be16 n ++ r ∧ n < 65536 := rd16_ok h

theorem rd64_ok {bs n r} (h : rd64 bs = .ok (n, r)) : bs = be64 n ++ r ∧ n < 18446744073709551616 := by
  simp only [rd64, Out.bind_eq_ok] at h
  obtain ⟨⟨hi, b1⟩, h1, ⟨lo, b2⟩, h2, h⟩ := h
  dsimp only at h2 h
  simp only [Out.pure_eq, Out.ok.injEq, Prod.mk.injEq] at h
  obtain ⟨rfl, rfl⟩ := h
  obtain ⟨rfl, t1⟩ := rd32_ok h1
  obtain ⟨rfl, t2⟩ := rd32_ok h2
  refine ⟨?_, by omega⟩
  simp only [be64, List.append_assoc]
  have e1 : (hi * 4294967296 + lo) / 4294967296 % 4294967296 = hi := by omega
  have e2 : (hi * 4294967296 + lo) % 4294967296 = lo := by omega
  rw [e1, e2]

theorem rdN16_ok {k bs l} (h : rdN16 k bs = .ok l) :
    ∃ rest, bs = (l.map be16).flatten ++ rest ∧ l.length = k ∧ ∀ x ∈ l, x < 65536 := by
  induction k generalizing bs l with
  | zero => simp only [rdN16, Out.pure_eq, Out.ok.injEq] at h; subst h; exact ⟨bs, by simp, rfl, by simp⟩
  | succ k ih =>
    simp only [rdN16, Out.bind_eq_ok] at h
    obtain ⟨⟨x, b1⟩, h1, xs, h2, h⟩ := h
    dsimp only at h2
    simp only [Out.pure_eq, Out.ok.injEq] at h; subst h
    obtain ⟨rfl, t⟩ := rd16_ok h1
    obtain ⟨rest, rfl, hl, hb⟩ := ih h2
    exact ⟨rest, by simp [List.append_assoc], by simp [hl], by
      intro y hy; simp only [List.mem_cons] at hy; rcases hy with rfl | hy; exact t; exact hb y hy⟩

theorem rdN32_ok {k bs l} (h : rdN32 k bs = .ok l) :
    ∃ rest, bs = (l.map be32).flatten ++ rest ∧ l.length = k ∧ ∀ x ∈ l, x < 4294967296 := by
  induction k generalizing bs l with
  | zero => simp only [rdN32, Out.pure_eq, Out.ok.injEq] at h; subst h; exact ⟨bs, by simp, rfl, by simp⟩
  | succ k ih =>
    simp only [rdN32, Out.bind_eq_ok] at h
    obtain ⟨⟨x, b1⟩, h1, xs, h2, h⟩ := h
    dsimp only at h2
    simp only [Out.pure_eq, Out.ok.injEq] at h; subst h
    obtain ⟨rfl, t⟩ := rd32_ok h1
    obtain ⟨rest, rfl, hl, hb⟩ := ih h2
    exact ⟨rest, by simp [List.append_assoc], by simp [hl], by
      intro y hy; simp only [List.mem_cons] at hy; rcases hy with rfl | hy; exact t; exact hb y hy⟩

theorem rdN64_ok {k bs l} (h : rdN64 k bs = .ok l) :
    ∃ rest, bs = (l.map be64).flatten ++ rest ∧ l.length = k ∧ ∀ x ∈ l, x < 18446744073709551616 := by
  induction k generalizing bs l with
  | zero => simp only [rdN64, Out.pure_eq, Out.ok.injEq] at h; subst h; exact ⟨bs, by simp, rfl, by simp⟩
  | succ k ih =>
    simp only [rdN64, Out.bind_eq_ok] at h
    obtain ⟨⟨x, b1⟩, h1, xs, h2, h⟩ := h
    dsimp only at h2
    simp only [Out.pure_eq, Out.ok.injEq] at h; subst h
    obtain ⟨rfl, t⟩ := rd64_ok h1
    obtain ⟨rest, rfl, hl, hb⟩ := ih h2
    exact ⟨rest, by simp [List.append_assoc], by simp [hl], by
      intro y hy; simp only [List.mem_cons] at hy; rcases hy with rfl | hy; exact t; exact hb y hy⟩

/-- `take_till(|b| b == 0)`: splits at the first NUL -/
theorem takeTill0_spec (bs : Bytes) :
    bs = (takeTill0 bs).1 ++ (takeTill0 bs).2 ∧ (0 : UInt8) ∉ (takeTill0 bs).1 ∧
      ((takeTill0 bs).2 = [] ∨ ∃ r, (takeTill0 bs).2 = 0 :: r) := by
  induction bs with
  | nil => simp [takeTill0]
  | cons b r ih =>
    simp only [takeTill0]
    split
    · rename_i hb; subst hb; exact ⟨by simp, by simp, Or.inr ⟨r, rfl⟩⟩
    · rename_i hb
      obtain ⟨i1, i2, i3⟩ := ih
      refine ⟨by simp only [List.cons_append]; rw [← i1], ?_, i3⟩
      intro hm
      simp only [List.mem_cons] at hm
      rcases hm with e | e
      · exact hb e.symm
      · exact i2 e

theorem rdStrings_ok {k bs l} (h : rdStrings k bs = .ok l) :
    ∃ (raws : List Bytes) (rest : Bytes), bs = (raws.map (· ++ [0])).flatten ++ rest ∧ raws.length = k ∧ (∀ r ∈ raws, (0 : UInt8) ∉ r) ∧
      l = raws.map Utf8.lossy := by
  induction k generalizing bs l with
  | zero => simp only [rdStrings, Out.pure_eq, Out.ok.injEq] at h; subst h; exact ⟨[], bs, by simp, rfl, by simp, rfl⟩
  | succ k ih =>
    simp only [rdStrings] at h
    obtain ⟨s1, s2, s3⟩ := takeTill0_spec bs
    split at h
    · cases h
    · rename_i b rest' hrest
      simp only [Out.bind_eq_ok] at h
      obtain ⟨ss, h2, h⟩ := h
      simp only [Out.pure_eq, Out.ok.injEq] at h; subst h
      obtain ⟨raws, rest, rfl, hl, hn, rfl⟩ := ih h2
      have hb : b = 0 := by
        rcases s3 with e | ⟨r, e⟩
        · rw [hrest] at e; cases e
        · rw [hrest] at e; cases e; rfl
      subst hb
      refine ⟨(takeTill0 bs).1 :: raws, rest, ?_, by simp [hl], ?_, by simp⟩
      · conv => lhs; rw [s1, hrest]
        simp [List.append_assoc]
      · intro r hr; simp only [List.mem_cons] at hr
        rcases hr with rfl | hr
        · exact s2
        · exact hn r hr

/-- **what the store holds at an offset**: the relational (parser-independent) reading of the format -/
inductive Stores (store : Bytes) (off cnt : Nat) : IndexData → Prop where
  | null : off ≤ store.length → Stores store off cnt .null
  | char (b rest : Bytes) : store.drop off = b ++ rest → b.length = cnt → off ≤ store.length → Stores store off cnt (.char b)
  | int8 (b rest : Bytes) : store.drop off = b ++ rest → b.length = cnt → off ≤ store.length → Stores store off cnt (.int8 b)
  | bin (b rest : Bytes) : store.drop off = b ++ rest → b.length = cnt → off ≤ store.length → Stores store off cnt (.bin b)
  | int16 (l : List Nat) (rest : Bytes) : store.drop off = (l.map be16).flatten ++ rest → l.length = cnt →
      (∀ x ∈ l, x < 65536) → off ≤ store.length → Stores store off cnt (.int16 l)
  | int32 (l : List Nat) (rest : Bytes) : store.drop off = (l.map be32).flatten ++ rest → l.length = cnt →
      (∀ x ∈ l, x < 4294967296) → off ≤ store.length → Stores store off cnt (.int32 l)
  | int64 (l : List Nat) (rest : Bytes) : store.drop off = (l.map be64).flatten ++ rest → l.length = cnt →
      (∀ x ∈ l, x < 18446744073709551616) → off ≤ store.length → Stores store off cnt (.int64 l)
  /-- a string runs to its terminator, or to the end of the store when there is none -/
  | str (raw rest : Bytes) : (store.drop off = raw ++ 0 :: rest ∨ store.drop off = raw) → (0 : UInt8) ∉ raw →
      off ≤ store.length → Stores store off cnt (.str (Utf8.lossy raw))
  | strArray (raws : List Bytes) (rest : Bytes) : store.drop off = (raws.map (· ++ [0])).flatten ++ rest →
      raws.length = cnt → (∀ r ∈ raws, (0 : UInt8) ∉ r) → off ≤ store.length →
      Stores store off cnt (.strArray (raws.map Utf8.lossy))
  | i18n (raws : List Bytes) (rest : Bytes) : store.drop off = (raws.map (· ++ [0])).flatten ++ rest →
      raws.length = cnt → (∀ r ∈ raws, (0 : UInt8) ∉ r) → off ≤ store.length →
      Stores store off cnt (.i18n (raws.map Utf8.lossy))

theorem rdBin_ok {cnt bs b} (h : rdBin cnt bs = .ok b) : ∃ rest, bs = b ++ rest ∧ b.length = cnt := by
  unfold rdBin at h
  split at h
  · simp only [Out.ok.injEq] at h; subst h
    exact ⟨bs.drop cnt, (List.take_append_drop cnt bs).symm, by simp; omega⟩
  · cases h

/-- whatever `decode` returns is what the store holds there -/
theorem decode_stores {store ty off cnt d} (h : decode store ty off cnt = .ok d) : Stores store off cnt d := by
  unfold decode at h
  split at h
  · cases h
  · rename_i hoff
    have hle : off ≤ store.length := by omega
    split at h
    · simp only [Out.ok.injEq] at h; subst h; exact .null hle
    · obtain ⟨b, hb, rfl⟩ := Out.map_eq_ok.mp h
      obtain ⟨rest, e, l⟩ := rdBin_ok hb; exact .char b rest e l hle
    · obtain ⟨b, hb, rfl⟩ := Out.map_eq_ok.mp h
      obtain ⟨rest, e, l⟩ := rdBin_ok hb; exact .int8 b rest e l hle
    · obtain ⟨l, hl, rfl⟩ := Out.map_eq_ok.mp h
      obtain ⟨rest, e, len, bd⟩ := rdN16_ok hl; exact .int16 l rest e len bd hle
    · obtain ⟨l, hl, rfl⟩ := Out.map_eq_ok.mp h
      obtain ⟨rest, e, len, bd⟩ := rdN32_ok hl; exact .int32 l rest e len bd hle
    · obtain ⟨l, hl, rfl⟩ := Out.map_eq_ok.mp h
      obtain ⟨rest, e, len, bd⟩ := rdN64_ok hl; exact .int64 l rest e len bd hle
    · simp only [Out.ok.injEq] at h; subst h
      obtain ⟨s1, s2, s3⟩ := takeTill0_spec (store.drop off)
      rcases s3 with e | ⟨r, e⟩
      · exact .str _ [] (Or.inr (by rw [e, List.append_nil] at s1; exact s1)) s2 hle
      · exact .str _ r (Or.inl (by rw [e] at s1; exact s1)) s2 hle
    · obtain ⟨b, hb, rfl⟩ := Out.map_eq_ok.mp h
      obtain ⟨rest, e, l⟩ := rdBin_ok hb; exact .bin b rest e l hle
    · obtain ⟨l, hl, rfl⟩ := Out.map_eq_ok.mp h
      obtain ⟨raws, rest, e, len, nn, rfl⟩ := rdStrings_ok hl; exact .strArray raws rest e len nn hle
    · obtain ⟨l, hl, rfl⟩ := Out.map_eq_ok.mp h
      obtain ⟨raws, rest, e, len, nn, rfl⟩ := rdStrings_ok hl; exact .i18n raws rest e len nn hle
    · cases h

end RpmVerif.Hdr
