import RpmVerif.Model.Verify
/-!
Helper lemmas for the model of rpm-rs's own `pgp::Verifier::verify` (`pgpVerifierVerify`, the code after fix
c25de51): a successful subkey loop / issuer loop names a key that was selected by an issuer id and whose
cryptographic check passed over the FULL data.
-/
namespace RpmVerif.Verify

variable {K : Type}

/-- an accepted attempt got past the early checks and the real check passed over the whole data -/
theorem attempt_ok {E : PgpEnv K} {k : K} {data sig : Bytes} (h : (attempt E k data sig).1 = true) :
    E.early k sig = false ∧ E.check k data sig = true := by
  unfold attempt at h
  cases he : E.early k sig
  · simp only [he, Bool.false_eq_true, if_false] at h; exact ⟨rfl, h⟩
  · simp [he] at h

theorem subkeyLoop_found (E : PgpEnv K) (data sig : Bytes) (id : Nat) (ks : List K) :
    ∀ (failed : Bool) (log : List (Attempt K)), (subkeyLoop E data sig id ks failed log).1 = true →
      ∃ k ∈ ks, E.kid k = id ∧ E.early k sig = false ∧ E.check k data sig = true := by
  induction ks with
  | nil => intro failed log h; simp [subkeyLoop] at h
  | cons k ks ih =>
    intro failed log h
    by_cases hk : E.kid k = id
    · cases hr : (attempt E k data sig).1
      · have e : subkeyLoop E data sig id (k :: ks) failed log =
            subkeyLoop E data sig id ks true (log ++ [(attempt E k data sig).2]) := by simp [subkeyLoop, hk, hr]
        rw [e] at h
        obtain ⟨k', hm, h'⟩ := ih _ _ h
        exact ⟨k', List.mem_cons_of_mem _ hm, h'⟩
      · exact ⟨k, List.mem_cons_self, hk, attempt_ok hr⟩
    · have e : subkeyLoop E data sig id (k :: ks) failed log = subkeyLoop E data sig id ks failed log := by
        simp [subkeyLoop, hk]
      rw [e] at h
      obtain ⟨k', hm, h'⟩ := ih _ _ h
      exact ⟨k', List.mem_cons_of_mem _ hm, h'⟩

theorem issuerLoop_ok (E : PgpEnv K) (ring : KeyRing K) (data sig : Bytes) (ids : List Nat) :
    ∀ (failed : Bool) (log : List (Attempt K)), (issuerLoop E ring data sig ids failed log).1 = .ok () →
      ∃ k, ((k = ring.primary ∧ E.kid ring.primary ∈ ids) ∨ (k ∈ ring.subkeys ∧ E.kid k ∈ ids)) ∧
        E.early k sig = false ∧ E.check k data sig = true := by
  induction ids with
  | nil => intro failed log h; simp [issuerLoop] at h
  | cons id ids ih =>
    intro failed log h
    by_cases hp : E.kid ring.primary = id
    · have e : issuerLoop E ring data sig (id :: ids) failed log =
          (if (attempt E ring.primary data sig).1 then .ok () else .err "verify",
            log ++ [(attempt E ring.primary data sig).2]) := by simp [issuerLoop, hp]
      rw [e] at h
      cases hr : (attempt E ring.primary data sig).1
      · simp [hr] at h
      · exact ⟨ring.primary, .inl ⟨rfl, by simp [hp]⟩, attempt_ok hr⟩
    · cases hf : (subkeyLoop E data sig id ring.subkeys failed log).1
      · have e : issuerLoop E ring data sig (id :: ids) failed log =
            issuerLoop E ring data sig ids (subkeyLoop E data sig id ring.subkeys failed log).2.1
              (subkeyLoop E data sig id ring.subkeys failed log).2.2 := by
          simp only [issuerLoop, hp, if_false]
          split
          · rename_i heq; rw [heq] at hf; cases hf
          · rename_i heq; rw [heq]
        rw [e] at h
        obtain ⟨k, hsel, hc⟩ := ih _ _ h
        refine ⟨k, ?_, hc⟩
        rcases hsel with ⟨h1, h2⟩ | ⟨h1, h2⟩
        · exact .inl ⟨h1, List.mem_cons_of_mem _ h2⟩
        · exact .inr ⟨h1, List.mem_cons_of_mem _ h2⟩
      · obtain ⟨k, hm, hid, hc⟩ := subkeyLoop_found E data sig id ring.subkeys failed log hf
        exact ⟨k, .inr ⟨hm, by simp [hid]⟩, hc⟩

/-! ### congruence: the loops look at the environment only through `kid`, `early · sig`, `check · data sig` -/

/-- two environments (each with its own signature argument) that agree on the key ids and, for THESE signatures and
this data, on the early and the real checks -/
structure AgreeAt (E1 E2 : PgpEnv K) (data sig1 sig2 : Bytes) : Prop where
  kid : ∀ k, E1.kid k = E2.kid k
  early : ∀ k, E1.early k sig1 = E2.early k sig2
  check : ∀ k, E1.check k data sig1 = E2.check k data sig2

theorem attempt_congr {E1 E2 : PgpEnv K} {data sig1 sig2 : Bytes} (h : AgreeAt E1 E2 data sig1 sig2) (k : K) :
    attempt E1 k data sig1 = attempt E2 k data sig2 := by
  unfold attempt; rw [h.early k, h.check k]

theorem subkeyLoop_congr {E1 E2 : PgpEnv K} {data sig1 sig2 : Bytes} (h : AgreeAt E1 E2 data sig1 sig2) (id : Nat)
    (ks : List K) : ∀ (failed : Bool) (log : List (Attempt K)),
      subkeyLoop E1 data sig1 id ks failed log = subkeyLoop E2 data sig2 id ks failed log := by
  induction ks with
  | nil => intro failed log; rfl
  | cons k ks ih =>
    intro failed log
    simp only [subkeyLoop, h.kid k, attempt_congr h k, ih]

theorem issuerLoop_congr {E1 E2 : PgpEnv K} {data sig1 sig2 : Bytes} (h : AgreeAt E1 E2 data sig1 sig2)
    (ring : KeyRing K) (ids : List Nat) : ∀ (failed : Bool) (log : List (Attempt K)),
      issuerLoop E1 ring data sig1 ids failed log = issuerLoop E2 ring data sig2 ids failed log := by
  induction ids with
  | nil => intro failed log; rfl
  | cons id ids ih =>
    intro failed log
    simp only [issuerLoop, h.kid ring.primary, attempt_congr h ring.primary, subkeyLoop_congr h, ih]

theorem pgpVerifierVerify_congr {E1 E2 : PgpEnv K} {data sig1 sig2 : Bytes} (h : AgreeAt E1 E2 data sig1 sig2)
    (hi : E1.issuers sig1 = E2.issuers sig2) (ring : KeyRing K) :
    pgpVerifierVerify E1 ring data sig1 = pgpVerifierVerify E2 ring data sig2 := by
  unfold pgpVerifierVerify
  rw [hi]
  cases E2.issuers sig2 with
  | none => rfl
  | some ids =>
    cases ids with
    | nil => simp only [attempt_congr h]
    | cons id ids => simp only [issuerLoop_congr h]

/-- **the two readings of `Verifier::verify` are the same function**: parsing once and working on the parsed signature
(`pgpVerifierVerifyP`) = the opaque-environment model (`pgpVerifierVerify`) instantiated with
`issuers := fun b => (parseSignature P b).map issuers` (`PgpPkt.toEnv`) -/
theorem pgpVerifierVerifyP_eq_toEnv {σ : Type} (E : PgpPkt K σ) (ring : KeyRing K) (data blob : Bytes) :
    pgpVerifierVerifyP E ring data blob = pgpVerifierVerify E.toEnv ring data blob := by
  unfold pgpVerifierVerifyP
  cases hp : Pgp.parseSignature E.parsePkt blob with
  | none =>
    have : E.toEnv.issuers blob = none := by simp [PgpPkt.toEnv, hp]
    simp only [pgpVerifierVerify, this]
  | some s =>
    show pgpVerifierVerify (E.envAt s) ring data blob = pgpVerifierVerify E.toEnv ring data blob
    refine pgpVerifierVerify_congr (E1 := E.envAt s) (E2 := E.toEnv) ⟨fun _ => rfl, fun k => ?_, fun k => ?_⟩ ?_ ring
    · simp [PgpPkt.toEnv, PgpPkt.envAt, hp]
    · simp [PgpPkt.toEnv, PgpPkt.envAt, hp]
    · simp [PgpPkt.toEnv, PgpPkt.envAt, hp]

/-- after parsing, the blob is never looked at again: two blobs with the same first signature packet get the same
verdict and the same attempts -/
theorem pgpVerifierVerifyP_same_parse {σ : Type} (E : PgpPkt K σ) (ring : KeyRing K) (data blob blob' : Bytes)
    (h : Pgp.parseSignature E.parsePkt blob = Pgp.parseSignature E.parsePkt blob') :
    pgpVerifierVerifyP E ring data blob = pgpVerifierVerifyP E ring data blob' := by
  unfold pgpVerifierVerifyP
  rw [h]
  cases Pgp.parseSignature E.parsePkt blob' with
  | none => rfl
  | some s =>
    show pgpVerifierVerify (E.envAt s) ring data blob = pgpVerifierVerify (E.envAt s) ring data blob'
    exact pgpVerifierVerify_congr (E1 := E.envAt s) (E2 := E.envAt s) (data := data) (sig1 := blob) (sig2 := blob') ⟨fun _ => rfl, fun _ => rfl, fun _ => rfl⟩ rfl ring

end RpmVerif.Verify
