import RpmVerif.Model.Verify
/-!
Helper lemmas for the model of rpm-rs's own `pgp::Verifier::verify` (`pgpVerifierVerify`, the code after fix
c25de51): a successful subkey loop / issuer loop names a key that was selected by an issuer id and whose
cryptographic check passed over the FULL data.
-/
namespace RpmVerif.Verify

variable {K : Type}

/-- an accepted attempt got past the early checks and the real check passed over the whole data -/
theorem attempt_ok {E : PgpEnv K} {k : K} {data sig : Bytes} (h : (attempt E k data sig).1 = true) :
    E.early k sig = false ∧ E.check k data sig = true := by
  unfold attempt at h
  cases he : E.early k sig
  · simp only [he, Bool.false_eq_true, if_false] at h; exact ⟨rfl, h⟩
  · simp [he] at h

theorem subkeyLoop_found (E : PgpEnv K) (data sig : Bytes) (id : Nat) (ks : List K) :
    ∀ (failed : Bool) (log : List (Attempt K)), (subkeyLoop E data sig id ks failed log).1 = true →
      ∃ k ∈ ks, E.kid k = id ∧ E.early k sig = false ∧ E.check k data sig = true := by
  induction ks with
  | nil => intro failed log h; simp [subkeyLoop] at h
  | cons k ks ih =>
    intro failed log h
    by_cases hk : E.kid k = id
    · cases hr : (attempt E k data sig).1
      · have e : subkeyLoop E data sig id (k :: ks) failed log =
            subkeyLoop E data sig id ks true (log ++ [(attempt E k data sig).2]) := by simp [subkeyLoop, hk, hr]
        rw [e] at h
        obtain ⟨k', hm, h'⟩ := ih _ _ h
        exact ⟨k', List.mem_cons_of_mem _ hm, h'⟩
      · exact ⟨k, List.mem_cons_self, hk, attempt_ok hr⟩
    · have e : subkeyLoop E data sig id (k :: ks) failed log = subkeyLoop E data sig id ks failed log := by
        simp [subkeyLoop, hk]
      rw [e] at h
      obtain ⟨k', hm, h'⟩ := ih _ _ h
      exact ⟨k', List.mem_cons_of_mem _ hm, h'⟩

theorem issuerLoop_ok (E : PgpEnv K) (ring : KeyRing K) (data sig : Bytes) (ids : List Nat) :
    ∀ (failed : Bool) (log : List (Attempt K)), (issuerLoop E ring data sig ids failed log).1 = .ok () →
      ∃ k, ((k = ring.primary ∧ E.kid ring.primary ∈ ids) ∨ (k ∈ ring.subkeys ∧ E.kid k ∈ ids)) ∧
        E.early k sig = false ∧ E.check k data sig = true := by
  induction ids with
  | nil => intro failed log h; simp [issuerLoop] at h
  | cons id ids ih =>
    intro failed log h
    by_cases hp : E.kid ring.primary = id
    · have e : issuerLoop E ring data sig (id :: ids) failed log =
          (if (attempt E ring.primary data sig).1 then .ok () else .err "verify",
            log ++ [(attempt E ring.primary data sig).2]) := by simp [issuerLoop, hp]
      rw [e] at h
      cases hr : (attempt E ring.primary data sig).1
      · simp [hr] at h
      · exact ⟨ring.primary, .inl ⟨rfl, by simp [hp]⟩, attempt_ok hr⟩
    · cases hf : (subkeyLoop E data sig id ring.subkeys failed log).1
      · have e : issuerLoop E ring data sig (id :: ids) failed log =
            issuerLoop E ring data sig ids (subkeyLoop E data sig id ring.subkeys failed log).2.1
              (subkeyLoop E data sig id ring.subkeys failed log).2.2 := by
          simp only [issuerLoop, hp, if_false]
          split
          · rename_i heq; rw [heq] at hf; cases hf
          · rename_i heq; rw [heq]
        rw [e] at h
        obtain ⟨k, hsel, hc⟩ := ih _ _ h
        refine ⟨k, ?_, hc⟩
        rcases hsel with ⟨h1, h2⟩ | ⟨h1, h2⟩
        · exact .inl ⟨h1, List.mem_cons_of_mem _ h2⟩
        · exact .inr ⟨h1, List.mem_cons_of_mem _ h2⟩
      · obtain ⟨k, hm, hid, hc⟩ := subkeyLoop_found E data sig id ring.subkeys failed log hf
        exact ⟨k, .inr ⟨hm, by simp [hid]⟩, hc⟩

end RpmVerif.Verify
