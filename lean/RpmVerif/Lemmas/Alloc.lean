import RpmVerif.Lemmas.Header
import RpmVerif.Lemmas.Decode
/-!
# Lemmas for the allocation account of `Header::parse` (Model/Header.lean `parseHeaderAcct`), used by Props/C04Alloc.lean
-/
namespace RpmVerif.Hdr
open RpmVerif.Gen RpmVerif

theorem lossyAux_length (fuel : Nat) (bs acc : Bytes) :
    (Utf8.lossyAux fuel bs acc).length ≤ acc.length + 3 * bs.length := by
  induction fuel generalizing bs acc with
  | zero => simp [Utf8.lossyAux]
  | succ f ih =>
    cases bs with
    | nil => simp [Utf8.lossyAux]
    | cons b r =>
      simp only [Utf8.lossyAux]
      generalize Utf8.step (b :: r) = st
      obtain ⟨n, ok⟩ := st
      simp only
      have hm : 1 ≤ (if n = 0 then 1 else n) := by split <;> omega
      generalize (if n = 0 then 1 else n) = m at hm
      split
      · refine Nat.le_trans (ih _ _) ?_
        simp only [List.length_append, List.length_reverse, List.length_take, List.length_drop, List.length_cons]
        omega
      · refine Nat.le_trans (ih _ _) ?_
        simp only [List.length_append, List.length_reverse, List.length_drop, List.length_cons, Utf8.repl, List.length_nil]
        omega

theorem lossy_length_le (bs : Bytes) : (Utf8.lossy bs).length ≤ 3 * bs.length := by
  have := lossyAux_length bs.length bs []
  simpa [Utf8.lossy] using this

theorem strings_kept_le (raws : List Bytes) :
    ((raws.map Utf8.lossy).map fun s => STRING_HEADER_BYTES + s.length).sum ≤ 24 * ((raws.map (· ++ [0])).flatten).length := by
  induction raws with
  | nil => simp
  | cons r rs ih =>
    have := lossy_length_le r
    simp only [List.map_cons, List.sum_cons, List.flatten_cons, List.length_append, List.length_cons, List.length_nil,
      STRING_HEADER_BYTES] at ih ⊢
    omega

theorem reserveOf_le (cnt remLen : Nat) : reserveOf cnt remLen ≤ remLen ∧ reserveOf cnt remLen ≤ cnt := by
  simp only [reserveOf, reserveArg]
  exact ⟨Nat.min_le_right _ _, Nat.min_le_left _ _⟩

theorem decodeReserve_le (store : Bytes) (ty off cnt : Nat) :
    decodeReserve store ty off cnt ≤ 8 * (store.length - off) := by
  unfold decodeReserve
  split
  · omega
  · have := (reserveOf_le cnt (store.length - off)).1
    split <;> (try simp only [elemBytes]) <;> omega

/-- data kept by one accepted entry: at most 24 bytes per store byte from its offset on -/
theorem decode_kept_le {store ty off cnt d} (h : decode store ty off cnt = .ok d) :
    d.keptBytes ≤ 24 * (store.length - off) := by
  have hs := decode_stores h
  have hdrop : ∀ (x rest : Bytes), store.drop off = x ++ rest → x.length ≤ store.length - off := by
    intro x rest e
    have := congrArg List.length e
    simp only [List.length_drop, List.length_append] at this
    omega
  cases hs with
  | null _ => simp [IndexData.keptBytes]
  | char b rest e l _ => have := hdrop _ _ e; simp only [IndexData.keptBytes]; omega
  | int8 b rest e l _ => have := hdrop _ _ e; simp only [IndexData.keptBytes]; omega
  | bin b rest e l _ => have := hdrop _ _ e; simp only [IndexData.keptBytes]; omega
  | int16 l rest e len _ _ =>
    have := hdrop _ _ e; rw [flatten_map_length l be16 2 (fun _ => rfl)] at this
    simp only [IndexData.keptBytes]; omega
  | int32 l rest e len _ _ =>
    have := hdrop _ _ e; rw [flatten_map_length l be32 4 (fun _ => rfl)] at this
    simp only [IndexData.keptBytes]; omega
  | int64 l rest e len _ _ =>
    have := hdrop _ _ e; rw [flatten_map_length l be64 8 (fun _ => by simp [be64, be32_length])] at this
    simp only [IndexData.keptBytes]; omega
  | str raw rest e _ _ =>
    have hl := lossy_length_le raw
    have : raw.length ≤ store.length - off := by
      rcases e with e | e
      · exact hdrop _ _ e
      · have := congrArg List.length e; simp only [List.length_drop] at this; omega
    simp only [IndexData.keptBytes]; omega
  | strArray raws rest e len _ _ =>
    have := hdrop _ _ e; have := strings_kept_le raws
    simp only [IndexData.keptBytes]; omega
  | i18n raws rest e len _ _ =>
    have := hdrop _ _ e; have := strings_kept_le raws
    simp only [IndexData.keptBytes]; omega

theorem stringsPushed_le (k : Nat) (bs : Bytes) : stringsPushed k bs ≤ 24 * bs.length := by
  induction k generalizing bs with
  | zero => simp [stringsPushed]
  | succ k ih =>
    simp only [stringsPushed]
    obtain ⟨s1, _, _⟩ := takeTill0_spec bs
    have hl := lossy_length_le (takeTill0 bs).1
    split
    · omega
    · rename_i b rest' hrest
      have := ih rest'
      have e := congrArg List.length s1
      rw [hrest] at e
      simp only [List.length_append, List.length_cons, STRING_HEADER_BYTES] at e ⊢
      omega

theorem decodePartial_le (store : Bytes) (ty off cnt : Nat) : decodePartial store ty off cnt ≤ 24 * store.length := by
  unfold decodePartial
  split
  · omega
  · split
    · have := stringsPushed_le cnt (store.drop off); simp only [List.length_drop] at this; omega
    · have := stringsPushed_le cnt (store.drop off); simp only [List.length_drop] at this; omega
    · omega

/-- the bytes the budget charges an accepted entry are there: never more than the store holds from its offset on -/
theorem decodeUsed_le {store ty off cnt d} (h : decode store ty off cnt = .ok d) :
    decodeUsed store off cnt d ≤ store.length - off := by
  have hs := decode_stores h
  have hdrop : ∀ (x rest : Bytes), store.drop off = x ++ rest → x.length ≤ store.length - off := by
    intro x rest e
    have := congrArg List.length e
    simp only [List.length_drop, List.length_append] at this
    omega
  cases hs with
  | null _ => simp [decodeUsed]
  | char b rest e l _ => have := hdrop _ _ e; simp only [decodeUsed]; omega
  | int8 b rest e l _ => have := hdrop _ _ e; simp only [decodeUsed]; omega
  | bin b rest e l _ => have := hdrop _ _ e; simp only [decodeUsed]; omega
  | int16 l rest e len _ _ =>
    have := hdrop _ _ e; rw [flatten_map_length l be16 2 (fun _ => rfl)] at this
    simp only [decodeUsed]; omega
  | int32 l rest e len _ _ =>
    have := hdrop _ _ e; rw [flatten_map_length l be32 4 (fun _ => rfl)] at this
    simp only [decodeUsed]; omega
  | int64 l rest e len _ _ =>
    have := hdrop _ _ e; rw [flatten_map_length l be64 8 (fun _ => by simp [be64, be32_length])] at this
    simp only [decodeUsed]; omega
  | str raw rest e _ _ => simp only [decodeUsed]; exact Nat.min_le_right _ _
  | strArray raws rest e len nn _ =>
    have := hdrop _ _ e
    simp only [decodeUsed]; rw [e, ← len, strConsumed_enc raws rest nn]; exact this
  | i18n raws rest e len nn _ =>
    have := hdrop _ _ e
    simp only [decodeUsed]; rw [e, ← len, strConsumed_enc raws rest nn]; exact this

/-- **what an accepted entry keeps is paid for by the budget**: at most 24 bytes of decoded data (a `String` value per
NUL) per store byte the entry is charged -/
theorem decode_kept_le_used {store ty off cnt d} (h : decode store ty off cnt = .ok d) :
    d.keptBytes ≤ 24 * decodeUsed store off cnt d := by
  have hs := decode_stores h
  cases hs with
  | null _ => simp [IndexData.keptBytes]
  | char b rest e l _ => simp only [IndexData.keptBytes, decodeUsed]; omega
  | int8 b rest e l _ => simp only [IndexData.keptBytes, decodeUsed]; omega
  | bin b rest e l _ => simp only [IndexData.keptBytes, decodeUsed]; omega
  | int16 l rest e len _ _ => simp only [IndexData.keptBytes, decodeUsed]; omega
  | int32 l rest e len _ _ => simp only [IndexData.keptBytes, decodeUsed]; omega
  | int64 l rest e len _ _ => simp only [IndexData.keptBytes, decodeUsed]; omega
  | str raw rest e nn hle =>
    have hl := lossy_length_le raw
    simp only [IndexData.keptBytes, decodeUsed]
    rcases e with e | e
    · rw [e, takeTill0_append raw rest nn]
      have := congrArg List.length e
      simp only [List.length_drop, List.length_append, List.length_cons] at this
      simp only [Nat.min_def]; split <;> omega
    · have e' : store.drop off = raw ++ [] := by rw [e, List.append_nil]
      have ht : (takeTill0 raw).1 = raw := by
        obtain ⟨s1, s2, s3⟩ := takeTill0_spec raw
        rcases s3 with z | ⟨r, z⟩
        · rw [z, List.append_nil] at s1; exact s1.symm
        · exfalso; apply nn; rw [s1, z]; simp
      have := congrArg List.length e
      simp only [List.length_drop] at this
      rw [e, ht]
      simp only [Nat.min_def]; split <;> omega
  | strArray raws rest e len nn _ =>
    have := strings_kept_le raws
    simp only [IndexData.keptBytes, decodeUsed]; rw [e, ← len, strConsumed_enc raws rest nn]; exact this
  | i18n raws rest e len nn _ =>
    have := strings_kept_le raws
    simp only [IndexData.keptBytes, decodeUsed]; rw [e, ← len, strConsumed_enc raws rest nn]; exact this

theorem keptOfCallsB_le (store : Bytes) (budget : Nat) (raws : List (Nat × Nat × Nat × Nat)) :
    keptOfCallsB store budget raws ≤ 24 * (raws.length * store.length) := by
  induction raws generalizing budget with
  | nil => simp [keptOfCallsB]
  | cons r rs ih =>
    obtain ⟨tag, ty, off, cnt⟩ := r
    simp only [keptOfCallsB]
    split
    · rename_i d hd
      have := decode_kept_le hd
      simp only [List.length_cons, Nat.succ_mul]
      split
      · omega
      · have := ih (budget - decodeUsed store off cnt d); omega
    · have := decodePartial_le store ty off cnt
      simp only [List.length_cons, Nat.succ_mul]
      omega

theorem keptOfCalls_le (store : Bytes) (raws : List (Nat × Nat × Nat × Nat)) :
    keptOfCalls store raws ≤ 24 * (raws.length * store.length) := keptOfCallsB_le store store.length raws

/-- **with the budget the decoded data is LINEAR in the store, whatever the index says**: the entries the budget
covered keep at most 24 bytes per budget byte; the one entry at which the loop stopped (undecodable, or refused by the
budget after it was decoded) at most 24 bytes per store byte -/
theorem keptOfCallsB_le_linear (store : Bytes) (budget : Nat) (raws : List (Nat × Nat × Nat × Nat)) :
    keptOfCallsB store budget raws ≤ 24 * budget + 24 * store.length := by
  induction raws generalizing budget with
  | nil => simp [keptOfCallsB]
  | cons r rs ih =>
    obtain ⟨tag, ty, off, cnt⟩ := r
    simp only [keptOfCallsB]
    split
    · rename_i d hd
      split
      · have := decode_kept_le hd; omega
      · have := decode_kept_le_used hd
        have := ih (budget - decodeUsed store off cnt d); omega
    · have := decodePartial_le store ty off cnt
      omega

theorem keptOfCalls_le_linear (store : Bytes) (raws : List (Nat × Nat × Nat × Nat)) :
    keptOfCalls store raws ≤ 48 * store.length := by
  have := keptOfCallsB_le_linear store store.length raws
  simp only [keptOfCalls]; omega

theorem decodeCallsB_length_le (store : Bytes) (budget : Nat) (raws : List (Nat × Nat × Nat × Nat)) :
    (decodeCallsB store budget raws).length ≤ raws.length := by
  induction raws generalizing budget with
  | nil => simp [decodeCallsB]
  | cons r rs ih =>
    obtain ⟨tag, ty, off, cnt⟩ := r
    simp only [decodeCallsB]
    split
    · split
      · simp
      · have := ih (budget - decodeUsed store off cnt ‹_›); simp only [List.length_cons]; omega
    · simp

theorem decodeCalls_length_le (store : Bytes) (raws : List (Nat × Nat × Nat × Nat)) :
    (decodeCalls store raws).length ≤ raws.length := decodeCallsB_length_le store store.length raws

theorem rawPushed_le (k : Nat) (bs : Bytes) : rawPushed k bs ≤ k := by
  induction k generalizing bs with
  | zero => simp [rawPushed]
  | succ k ih =>
    simp only [rawPushed]
    split
    · have := ih ‹_›; omega
    · omega

theorem foldl_max_le {l : List Nat} {b init : Nat} (hi : init ≤ b) (h : ∀ x ∈ l, x ≤ b) : l.foldl Nat.max init ≤ b := by
  induction l generalizing init with
  | nil => simpa
  | cons x xs ih =>
    simp only [List.foldl_cons]
    exact ih (Nat.max_le.mpr ⟨hi, h x (by simp)⟩) (fun y hy => h y (by simp [hy]))


theorem decodeCallsB_of_ok {store : Bytes} {budget : Nat} {es : List Entry}
    (h : ∀ e ∈ es, decode store e.data.typeCode e.off e.cnt = .ok e.data) (hb : usedSum store es ≤ budget) :
    decodeCallsB store budget (es.map Entry.raw) = es.map Entry.raw
      ∧ keptOfCallsB store budget (es.map Entry.raw) = (es.map fun e => e.data.keptBytes).sum := by
  induction es generalizing budget with
  | nil => exact ⟨rfl, rfl⟩
  | cons e es ih =>
    have he := h e (by simp)
    rw [usedSum_cons] at hb
    obtain ⟨i1, i2⟩ := ih (fun e' m => h e' (by simp [m])) (budget := budget - decodeUsed store e.off e.cnt e.data) (by omega)
    simp only [List.map_cons, Entry.raw, decodeCallsB, keptOfCallsB, he, List.sum_cons]
    rw [if_neg (by omega), if_neg (by omega)]
    exact ⟨by rw [i1], by rw [i2]⟩

theorem decodeCalls_of_ok {store : Bytes} {es : List Entry}
    (h : ∀ e ∈ es, decode store e.data.typeCode e.off e.cnt = .ok e.data) (hb : usedSum store es ≤ store.length) :
    decodeCalls store (es.map Entry.raw) = es.map Entry.raw
      ∧ keptOfCalls store (es.map Entry.raw) = (es.map fun e => e.data.keptBytes).sum := decodeCallsB_of_ok h hb

/-- what a header with non-overlapping entries keeps is at most 24 bytes per store byte -/
theorem kept_le_of_budget {h : Header} (wf : HeaderWF h) : h.keptBytes ≤ 24 * h.store.length := by
  have key : ∀ es : List Entry, (∀ e ∈ es, decode h.store e.data.typeCode e.off e.cnt = .ok e.data) →
      (es.map fun e => e.data.keptBytes).sum ≤ 24 * usedSum h.store es := by
    intro es
    induction es with
    | nil => intro _; simp [usedSum]
    | cons e es ih =>
      intro hd
      have := decode_kept_le_used (hd e (by simp))
      have := ih (fun e' m => hd e' (by simp [m]))
      rw [usedSum_cons]
      simp only [List.map_cons, List.sum_cons]
      omega
  have := key h.entries wf.dec
  have := wf.budget
  simp only [Header.keptBytes]
  omega

/-- the account of a header that is accepted: exactly its sizes, one reservation per entry, the decoded data -/
theorem acct_of_written {h : Header} (wf : HeaderWF h) {res : Bytes} (hr : res.length = 4) (rest : Bytes) :
    parseHeaderAcct (hdrBytes res h ++ rest) =
      ⟨0, h.dataSize + h.nEntries * 16, h.dataSize, h.nEntries,
        h.entries.map (fun e => decodeReserve h.store e.data.typeCode e.off e.cnt), h.keptBytes⟩ := by
  have hlenI : (HEADER_MAGIC ++ [1] ++ res ++ be32 h.nEntries ++ be32 h.dataSize).length = INDEX_HEADER_SIZE := by
    simp [hmagic, be32_length, hr, ihs]
  have hlenB : (writeRaws (h.entries.map Entry.raw) ++ h.store).length = sizeRest h.dataSize h.nEntries := by
    simp only [List.length_append, writeRaws_length, List.length_map, wf.nEq, wf.dlEq, sizeRest]; omega
  rw [hdrBytes_split, parseHeaderAcct, ← hlenI, takeN_append]
  simp only
  rw [parseIntro_write hr wf.nLt wf.dlLt]
  simp only
  rw [← hlenB, takeN_append]
  simp only
  have hn : h.nEntries = (h.entries.map Entry.raw).length := by simp [wf.nEq]
  rw [hn, parseEntriesRaw_write _ _ (by
    intro e he
    obtain ⟨e', he', rfl⟩ := List.mem_map.mp he
    exact wf.fields e' he')]
  simp only
  obtain ⟨c1, c2⟩ := decodeCalls_of_ok wf.dec wf.budget
  rw [c1, c2]
  simp only [parseBufUpFront, parseReadBounded, if_true, List.length_append, List.map_map, List.length_map, wf.nEq, wf.dlEq,
    writeRaws_length, Header.keptBytes, ParseAcct.mk.injEq, true_and, and_true]
  refine ⟨?_, ?_⟩
  · exact Nat.min_eq_left (by omega) |>.trans (by omega)
  · rfl


theorem sum_replicate' (n x : Nat) : (List.replicate n x).sum = n * x := by
  induction n with
  | zero => simp
  | succ k ih => simp [List.replicate_succ, ih, Nat.succ_mul]; omega

/-- `n` BIN entries that all point at offset 0 of one `S`-byte store with count `S` -/
def overlapHeader (n S : Nat) : Header :=
  ⟨n, S, List.replicate n ⟨1000, .bin (List.replicate S 0), 0, S⟩, List.replicate S 0⟩

/-- everything `HeaderWF` asks for except the budget: the entries of the family decode, one by one -/
theorem overlap_dec (n S : Nat) :
    ∀ e ∈ (overlapHeader n S).entries, decode (overlapHeader n S).store e.data.typeCode e.off e.cnt = .ok e.data := by
  intro e he
  obtain ⟨_, rfl⟩ := List.mem_replicate.mp he
  simp only [overlapHeader, IndexData.typeCode, decode, List.length_replicate, List.drop_zero, rdBin, Out.map]
  rw [if_neg (by omega), if_pos (Nat.le_refl _)]
  simp

theorem overlap_fields {n S : Nat} (hS : S < 4294967296) : ∀ e ∈ (overlapHeader n S).entries, RawWF e.raw := by
  intro e he
  obtain ⟨_, rfl⟩ := List.mem_replicate.mp he
  simp only [RawWF, Entry.raw, IndexData.typeCode]
  omega

/-- the budget charges the family `n · S` bytes for an `S`-byte store -/
theorem overlap_used (n S : Nat) : usedSum (overlapHeader n S).store (overlapHeader n S).entries = n * S := by
  simp only [usedSum, overlapHeader, List.map_replicate, decodeUsed, List.length_replicate, sum_replicate']

theorem overlap_kept (n S : Nat) : (overlapHeader n S).keptBytes = n * S := by
  simp only [Header.keptBytes, overlapHeader, List.map_replicate, IndexData.keptBytes, List.length_replicate, sum_replicate']

theorem overlap_length (n S : Nat) : (writeHeader (overlapHeader n S)).length = 16 + 16 * n + S := by
  simp only [writeHeader, writeIntro, List.length_append, hmagic, be32_length, List.length_cons, List.length_nil,
    List.length_flatten, overlapHeader, List.map_replicate, List.length_replicate, writeEntry, sum_replicate']
  omega


end RpmVerif.Hdr
