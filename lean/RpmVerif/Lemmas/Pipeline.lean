import RpmVerif.Props.C07
import RpmVerif.Props.C08
import RpmVerif.Props.C09
import RpmVerif.Props.C10
/-! Helper lemmas for `Props/Pipeline.lean`: the glue between the per-property theorems. Nothing here re-proves
a layer; every lemma is stated for an ARBITRARY package (so that the large term `Bld.build …` is never unfolded
while a layer's theorem is applied) and is instantiated at the built package in `Props/Pipeline.lean`. -/
namespace RpmVerif.Pipeline
open RpmVerif.Hdr RpmVerif.Gen RpmVerif.Bld RpmVerif.Digest RpmVerif.Sign RpmVerif.Cpio

/-- the builder's hash parameter (`hex::encode(Sha256::digest(..))`) for the raw SHA-256 function `sha256` -/
abbrev hexOf (sha256 : Bytes → Bytes) : Bytes → Bytes := fun b => hexLower (sha256 b)

/-- a signature scheme without keys: used to instantiate the scheme-independent parts of C10 (the digest-only
signature header of `build` / `clear_signatures`) -/
def noKey : SigScheme := ⟨Empty, inferInstance, nofun, nofun, fun _ => none, nofun, nofun, id, some⟩

/-- the hex text of the main header's digest fits a signature header (below 2 GiB; a real SHA-256 has 64
characters). The only thing that has to be assumed about an ARBITRARY hash function for write → parse. -/
def DigestFits (sha256 : Bytes → Bytes) (hb : Bytes) : Prop := (shaHex sha256 hb).length < 2147483000

theorem sigRecsOk_noKey {sha256 : Bytes → Bytes} {hb : Bytes} (h : DigestFits sha256 hb) : SigRecsOk noKey sha256 hb :=
  ⟨nofun, nofun, h⟩

theorem hexLower_length (bs : Bytes) : (hexLower bs).length = 2 * bs.length := by
  induction bs with
  | nil => rfl
  | cons b r ih =>
    have : hexLower (b :: r) = [hexDigitByte (b.toNat / 16), hexDigitByte (b.toNat % 16)] ++ hexLower r := by
      simp [hexLower]
    rw [this, List.length_append, ih]; simp; omega

/-- any hash with digests shorter than 1 GiB (SHA-256: 32 bytes) fits -/
theorem digestFits_of_length {sha256 : Bytes → Bytes} {hb : Bytes} (h : (sha256 hb).length < 1073741500) :
    DigestFits sha256 hb := by
  unfold DigestFits shaHex; rw [hexLower_length]; omega

/-- `DigestAlgorithm::from_u32(8)` is `Sha2_256` (generated table) -/
theorem algo8 : algoFromU32 8 = some "Sha2_256" := by decide

/-! ### packages whose signature header is the digest-only one (`build`, `clear_signatures`) -/

/-- the signature header holds the SHA-256 of the main header and nothing else -/
def Fresh (sha256 : Bytes → Bytes) (p : Package) : Prop :=
  p.md.signature = clearedSig sha256 (writeHeader p.md.header)

theorem fresh_eq_clear {sha256 : Bytes → Bytes} {p : Package} (h : Fresh sha256 p) : p = clearOp sha256 p := by
  obtain ⟨⟨l, s, hd⟩, ct⟩ := p
  simp only [Fresh] at h
  subst h
  rfl

/-- C10 `digests_cleared` at a fresh package -/
theorem fresh_verifies (md5 sha1 : Bytes → Bytes) {sha256 : Bytes → Bytes} {p : Package} (hf : Fresh sha256 p)
    (hp : C10.PayloadDigestOk sha256 p) : verifyDigests md5 sha1 sha256 p = .ok () := by
  rw [fresh_eq_clear hf]
  exact C10.digests_cleared (S := noKey) hp

/-- nothing `verify_signature` would look at is in a fresh signature header -/
theorem fresh_unsigned {sha256 : Bytes → Bytes} {p : Package} (hf : Fresh sha256 p) : C10.Unsigned p.md.signature := by
  rw [hf]
  have e0 : getStringArray (clearedSig sha256 (writeHeader p.md.header)) SigTag.RPMSIGTAG_OPENPGP = .err "notfound" :=
    cleared_absent sha256 _ IndexData.asStringArray _ (by decide) (by decide)
  have e1 : getBinary (clearedSig sha256 (writeHeader p.md.header)) SigTag.RPMSIGTAG_RSA = .err "notfound" :=
    cleared_absent sha256 _ IndexData.asBinary _ (by decide) (by decide)
  have e2 : getBinary (clearedSig sha256 (writeHeader p.md.header)) SigTag.RPMSIGTAG_DSA = .err "notfound" :=
    cleared_absent sha256 _ IndexData.asBinary _ (by decide) (by decide)
  have e3 : getBinary (clearedSig sha256 (writeHeader p.md.header)) SigTag.RPMSIGTAG_PGP = .err "notfound" :=
    cleared_absent sha256 _ IndexData.asBinary _ (by decide) (by decide)
  refine ⟨fun l h => ?_, by rw [e1]; rfl, by rw [e2]; rfl, by rw [e3]; rfl⟩
  rw [e0] at h; cases h

theorem fresh_wf {sha256 : Bytes → Bytes} {p : Package} (hf : Fresh sha256 p) (wl : LeadWF p.md.lead)
    (wh : HeaderWF p.md.header) (hfit : DigestFits sha256 (writeHeader p.md.header)) : MetadataWF p.md :=
  ⟨wl, by rw [hf]; exact clearedSig_wf (sigRecsOk_noKey hfit), wh⟩

/-! ### histories from a fresh package: C10 with the `≠ initial` side conditions discharged -/
section history
variable {S : SigScheme} {md5 sha1 sha256 : Bytes → Bytes} {p0 p : Package}

/-- digests verify after EVERY history (also the empty one and those made of write + re-parse only) -/
theorem fresh_history_digests (hf : Fresh sha256 p0) (hl : S.LegacyOk) (wf : MetadataWF p0.md)
    (ok : SigRecsOk S sha256 (writeHeader p0.md.header)) (hp : C10.PayloadDigestOk sha256 p0) (ops : List (Op S.Key))
    (h : run S sha256 ops p0 = .ok p) : verifyDigests md5 sha1 sha256 p = .ok () := by
  cases hst : stateAfter (SigState.initial (K := S.Key)) ops with
  | initial =>
    rw [C10.history_initial hl wf ok ops hst h]
    exact fresh_verifies md5 sha1 hf hp
  | cleared => exact C10.history_digests hl wf ok hp ops (by rw [hst]; exact fun e => nomatch e) h
  | signed k t => exact C10.history_digests hl wf ok hp ops (by rw [hst]; exact fun e => nomatch e) h

end history

/-! ### one `sign` as a history -/

theorem run_sign (S : SigScheme) (sha256 : Bytes → Bytes) (k : S.Key) (t : Nat) (p : Package) :
    run S sha256 [.sign k t] p = .ok (signOp S sha256 k t p) := rfl

theorem lastSigner_sign {K : Type} (k : K) (t : Nat) : lastSigner [Op.sign k t] = some k := rfl

/-! ### sizes -/

/-- the digest-only signature header also stays within rpm's 64 MiB limit for signature headers -/
theorem sigsOk_nil {sha256 : Bytes → Bytes} {hb : Bytes} (h : (shaHex sha256 hb).length < 67108000) :
    C09.SigsOk [] (shaHex sha256 hb) := by
  refine ⟨by simp, by simp, by simp, by decide, strOk_shaHex sha256 hb, ?_⟩
  have hle := Sign.fromEntries_store_le (C09.sigRecs [] (shaHex sha256 hb)) SigTag.HEADER_SIGNATURES
  rw [C09.signatureHeader_eq]
  simp only [C09.sigRecs, List.getLast?_nil, List.nil_append, List.map_cons, List.map_nil, List.sum_cons, List.sum_nil,
    IndexData.enc, List.length_append, List.length_cons, List.length_nil] at hle ⊢
  omega

theorem fromEntries_nEntries (recs : List (Nat × IndexData)) (rt : Nat) :
    (fromEntries recs rt).nEntries = recs.length + 1 := by
  simp [fromEntries]

/-- length of the serialised main header of a valid configuration, in terms of its records -/
theorem written_header_le {x : Ctx} (v : C06.Valid x) :
    (writeHeader (C06.hdrOf x)).length ≤
      32 + 16 * ((recordsOf x).length + 1) + ((recordsOf x).map (fun r => r.2.enc.length + 8)).sum := by
  have wf := C06.hdr_wf v
  rw [C16.writeHeader_length wf]
  have h1 := fromEntries_nEntries (recordsOf x) IndexTag.RPMTAG_HEADERIMMUTABLE
  have h2 := Sign.fromEntries_store_le (recordsOf x) IndexTag.RPMTAG_HEADERIMMUTABLE
  have h3 := wf.dlEq
  simp only [Header.size, ihs, ies, C06.hdrOf] at h1 h2 h3 ⊢
  omega

/-! ### file paths: what `add_data` guarantees about directory and base name -/

/-- C17 `add_data_ok_shape`: the stored directory starts and ends with `/`, the base name has no leading `/` -/
structure DirShape (f : FileE) : Prop where
  dirHead : f.dir.head? = some 47
  dirLast : f.dir.getLast? = some 47
  baseHead : f.baseName.head? ≠ some 47

theorem pathJoin_of_shape {f : FileE} (h : DirShape f) : Acc.pathJoin f.dir f.baseName = f.dir ++ f.baseName := by
  simp [Acc.pathJoin, h.baseHead, h.dirLast]

theorem namePath_of_shape {f : FileE} (h : DirShape f) : namePath ([46] ++ (f.dir ++ f.baseName)) = f.dir ++ f.baseName := by
  have hd := h.dirHead
  cases hdir : f.dir with
  | nil => rw [hdir] at hd; cases hd
  | cons a r =>
    rw [hdir] at hd
    simp only [List.head?_cons, Option.some.injEq] at hd
    subst hd
    rfl

section files
variable {fes : List (FileE × Bytes)}

theorem header_paths_eq (hf : ∀ p ∈ fes, C09.FileOk p) (hs : ∀ p ∈ fes, DirShape p.1) :
    (fes.map (·.1)).map (fun f => Acc.pathJoin f.dir f.baseName) = headerPaths (fes.map C09.toFileIn) := by
  simp only [headerPaths, List.map_map]
  apply List.map_congr_left
  intro p hp
  simp only [Function.comp, C09.toFileIn, (hf p hp).path, pathJoin_of_shape (hs p hp), namePath_of_shape (hs p hp)]

theorem header_sizes_eq (hf : ∀ p ∈ fes, C09.FileOk p) :
    (fes.map (·.1)).map (·.size) = (fes.map C09.toFileIn).map (·.content.length) := by
  simp only [List.map_map]
  apply List.map_congr_left
  intro p hp
  simp only [Function.comp, C09.toFileIn, (hf p hp).size]

theorem header_paths_nodup (hf : ∀ p ∈ fes, C09.FileOk p) (hs : ∀ p ∈ fes, DirShape p.1)
    (hnd : (fes.map (·.1.cpioPath)).Nodup) : (headerPaths (fes.map C09.toFileIn)).Nodup := by
  refine headerPaths_nodup ?_ (by rw [List.map_map]; exact hnd)
  intro f hfm
  obtain ⟨p, hp, rfl⟩ := List.mem_map.mp hfm
  have hd := (hs p hp).dirHead
  cases hdir : p.1.dir with
  | nil => rw [hdir] at hd; cases hd
  | cons a r =>
    rw [hdir] at hd
    simp only [List.head?_cons, Option.some.injEq] at hd
    subst hd
    exact ⟨r ++ p.1.baseName, by simp [C09.toFileIn, (hf p hp).path, hdir]⟩

end files

end RpmVerif.Pipeline
