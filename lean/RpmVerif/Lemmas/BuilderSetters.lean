import RpmVerif.Model.Builder
/-!
# The builder state as a function of the setter calls (audit item a6): `Cfg.applyAll`

`frame` / `last_wins` are the two generic facts (a field no later call writes keeps its value); the per-family statements
(`Option<String>` setters, scriptlets, dependency lists, changelog, the plain assignments) are what `Props/C06.lean` registers.
-/
namespace RpmVerif.Bld
open RpmVerif.Hdr RpmVerif.Gen

theorem applyAll_append (c : Cfg) (a b : List MetaSetter) : c.applyAll (a ++ b) = (c.applyAll a).applyAll b := by
  simp [Cfg.applyAll, List.foldl_append]

theorem applyAll_cons (c : Cfg) (s : MetaSetter) (r : List MetaSetter) : c.applyAll (s :: r) = (MetaSetter.apply c s).applyAll r := rfl

/-- a field no later call writes keeps its value -/
theorem frame {β} (π : Cfg → β) (post : List MetaSetter) (h : ∀ t ∈ post, ∀ c, π (MetaSetter.apply c t) = π c) (c : Cfg) :
    π (c.applyAll post) = π c := by
  induction post generalizing c with
  | nil => rfl
  | cons t r ih =>
    rw [applyAll_cons, ih (fun u hu => h u (List.mem_cons_of_mem _ hu)), h t (List.mem_cons_self ..)]

/-- **the last call wins** -/
theorem last_wins {β} (π : Cfg → β) (pre post : List MetaSetter) (s : MetaSetter)
    (h : ∀ t ∈ post, ∀ c, π (MetaSetter.apply c t) = π c) (c : Cfg) :
    π (c.applyAll (pre ++ s :: post)) = π (MetaSetter.apply (c.applyAll pre) s) := by
  rw [applyAll_append, applyAll_cons, frame π post h]

def optStrSetters : List ((Bytes → MetaSetter) × (Cfg → Option Bytes)) :=
  [(.url, (·.url)), (.vcs, (·.vcs)), (.description, (·.desc)), (.vendor, (·.vendor)), (.packager, (·.packager)),
   (.group, (·.group)), (.buildHost, (·.buildHost)), (.cookie, (·.cookie))]

theorem opt_setter_untouched : ∀ p ∈ optStrSetters, ∀ (t : MetaSetter), (∀ y, t ≠ p.1 y) → ∀ c, p.2 (MetaSetter.apply c t) = p.2 c := by
  intro p hp t ht c
  simp only [optStrSetters, List.mem_cons, List.not_mem_nil, or_false] at hp
  rcases hp with rfl | rfl | rfl | rfl | rfl | rfl | rfl | rfl <;>
    (cases t <;> first
      | rfl
      | (exfalso; exact ht _ rfl)
      | (rename_i k _; rcases k with _|_|_|_|_|_|_|_|_|k <;> rfl))

/-- **the `Option<String>` setters (`url`, `vcs`, `description`, `vendor`, `packager`, `group`, `build_host`, `cookie`): the
argument of the LAST call is what the state holds**, whatever was called before and whatever other setters are called after -/
theorem opt_setter_last_wins : ∀ p ∈ optStrSetters, ∀ (c : Cfg) (pre post : List MetaSetter) (x : Bytes),
    (∀ t ∈ post, ∀ y, t ≠ p.1 y) → p.2 (c.applyAll (pre ++ p.1 x :: post)) = some x := by
  intro p hp c pre post x h
  rw [last_wins p.2 pre post (p.1 x) (fun t ht c => opt_setter_untouched p hp t (h t ht) c)]
  simp only [optStrSetters, List.mem_cons, List.not_mem_nil, or_false] at hp
  rcases hp with rfl | rfl | rfl | rfl | rfl | rfl | rfl | rfl <;> rfl

/-- … and a setter that is never called leaves the field as `new` made it (`None`) -/
theorem opt_setter_never : ∀ p ∈ optStrSetters, ∀ (c : Cfg) (ss : List MetaSetter),
    (∀ t ∈ ss, ∀ y, t ≠ p.1 y) → p.2 (c.applyAll ss) = p.2 c :=
  fun p hp c ss h => frame p.2 ss (fun t ht c => opt_setter_untouched p hp t (h t ht) c) c

/-- the nine scriptlet fields in the order of the setters (`Bld.scriptSetterNames`) -/
def scriptFields : List (Cfg → Option Scriptlet) :=
  [(·.preIn), (·.postIn), (·.preUn), (·.postUn), (·.preTrans), (·.postTrans), (·.preUntrans), (·.postUntrans), (·.verify)]

theorem script_untouched {k : Nat} {π : Cfg → Option Scriptlet} (hk : scriptFields[k]? = some π) (t : MetaSetter)
    (ht : ∀ s', t ≠ .script k s') (c : Cfg) : π (MetaSetter.apply c t) = π c := by
  rcases k with _|_|_|_|_|_|_|_|_|k <;> simp only [scriptFields, List.getElem?_cons_zero, List.getElem?_cons_succ,
    List.getElem?_nil, Option.some.injEq, reduceCtorEq] at hk <;> subst hk <;>
    (cases t <;> first
      | rfl
      | (rename_i j _; rcases j with _|_|_|_|_|_|_|_|_|j <;> first | rfl | (exfalso; exact ht _ rfl)))

/-- **scriptlet setters: the last call wins** (`k` = position of the setter in `Bld.scriptSetterNames`) -/
theorem script_setter_last_wins {k : Nat} {π : Cfg → Option Scriptlet} (hk : scriptFields[k]? = some π) (c : Cfg)
    (pre post : List MetaSetter) (s : Scriptlet) (h : ∀ t ∈ post, ∀ s', t ≠ .script k s') :
    π (c.applyAll (pre ++ .script k s :: post)) = some s := by
  rw [last_wins π pre post (.script k s) (fun t ht c => script_untouched hk t (h t ht) c)]
  rcases k with _|_|_|_|_|_|_|_|_|k <;> simp only [scriptFields, List.getElem?_cons_zero, List.getElem?_cons_succ,
    List.getElem?_nil, Option.some.injEq, reduceCtorEq] at hk <;> subst hk <;> rfl

/-- the eight dependency lists in the order of the setters (`Bld.depSetterNames`) -/
def depFields : List (Cfg → List Dep) :=
  [(·.provides), (·.requires), (·.conflicts), (·.obsoletes), (·.recommends), (·.suggests), (·.enhances), (·.supplements)]

/-- the arguments of the calls of the `k`-th dependency setter, in call order -/
def depCalls (k : Nat) (ss : List MetaSetter) : List Dep :=
  ss.filterMap fun | .dep j d => if j = k then some d else none | _ => none

theorem dep_apply {k : Nat} {π : Cfg → List Dep} (hk : depFields[k]? = some π) (t : MetaSetter) (c : Cfg) :
    π (MetaSetter.apply c t) = π c ++ depCalls k [t] := by
  rcases k with _|_|_|_|_|_|_|_|k <;> simp only [depFields, List.getElem?_cons_zero, List.getElem?_cons_succ,
    List.getElem?_nil, Option.some.injEq, reduceCtorEq] at hk <;> subst hk <;>
    (cases t <;> first
      | exact (List.append_nil _).symm
      | (rename_i j _; rcases j with _|_|_|_|_|_|_|_|_|j <;> first | rfl | exact (List.append_nil _).symm))

theorem depCalls_cons (k : Nat) (t : MetaSetter) (r : List MetaSetter) : depCalls k (t :: r) = depCalls k [t] ++ depCalls k r := by
  show List.filterMap _ ([t] ++ r) = _
  rw [List.filterMap_append]; rfl

/-- **dependency setters accumulate**: after any call sequence each list is what it was plus the arguments of ITS setter's
calls, in call order (the other setters do not touch it) -/
theorem dep_setters_accumulate {k : Nat} {π : Cfg → List Dep} (hk : depFields[k]? = some π) (c : Cfg) (ss : List MetaSetter) :
    π (c.applyAll ss) = π c ++ depCalls k ss := by
  induction ss generalizing c with
  | nil => simp [Cfg.applyAll, depCalls]
  | cons t r ih => rw [applyAll_cons, ih, dep_apply hk, depCalls_cons k t r, List.append_assoc]

/-- `add_changelog_entry` accumulates (name, text, time) in call order -/
theorem changelog_accumulates (c : Cfg) (ss : List MetaSetter) :
    (c.applyAll ss).changelog = c.changelog ++ ss.filterMap (fun | .changelog n e t => some (n, e, t) | _ => none) := by
  induction ss generalizing c with
  | nil => simp [Cfg.applyAll]
  | cons t r ih =>
    rw [applyAll_cons, ih]
    cases t <;> first
      | rfl
      | (rename_i j _; rcases j with _|_|_|_|_|_|_|_|_|j <;> rfl)
      | (simp only [MetaSetter.apply, List.filterMap_cons, List.append_assoc, List.singleton_append])

/-- `epoch`, `release`, `source_date`, `compression`: the last call wins -/
theorem plain_setters_last_wins (c : Cfg) (pre post : List MetaSetter) :
    (∀ n, (∀ t ∈ post, ∀ m, t ≠ .epoch m) → (c.applyAll (pre ++ .epoch n :: post)).epoch = n) ∧
    (∀ x, (∀ t ∈ post, ∀ y, t ≠ .release y) → (c.applyAll (pre ++ .release x :: post)).release = x) ∧
    (∀ n, (∀ t ∈ post, ∀ m, t ≠ .sourceDate m) → (c.applyAll (pre ++ .sourceDate n :: post)).sourceDate = some n) ∧
    (∀ k, (∀ t ∈ post, ∀ m, t ≠ .compression m) → (c.applyAll (pre ++ .compression k :: post)).compression = k) := by
  refine ⟨fun n h => ?_, fun x h => ?_, fun n h => ?_, fun k h => ?_⟩
  · have hu : ∀ t ∈ post, ∀ c : Cfg, (MetaSetter.apply c t).epoch = c.epoch := by
      intro t ht c
      cases t <;> first | rfl | (exfalso; exact h _ ht _ rfl) | (rename_i j _; rcases j with _|_|_|_|_|_|_|_|_|j <;> rfl)
    rw [last_wins (·.epoch) pre post _ hu]; rfl
  · have hu : ∀ t ∈ post, ∀ c : Cfg, (MetaSetter.apply c t).release = c.release := by
      intro t ht c
      cases t <;> first | rfl | (exfalso; exact h _ ht _ rfl) | (rename_i j _; rcases j with _|_|_|_|_|_|_|_|_|j <;> rfl)
    rw [last_wins (·.release) pre post _ hu]; rfl
  · have hu : ∀ t ∈ post, ∀ c : Cfg, (MetaSetter.apply c t).sourceDate = c.sourceDate := by
      intro t ht c
      cases t <;> first | rfl | (exfalso; exact h _ ht _ rfl) | (rename_i j _; rcases j with _|_|_|_|_|_|_|_|_|j <;> rfl)
    rw [last_wins (·.sourceDate) pre post _ hu]; rfl
  · have hu : ∀ t ∈ post, ∀ c : Cfg, (MetaSetter.apply c t).compression = c.compression := by
      intro t ht c
      cases t <;> first | rfl | (exfalso; exact h _ ht _ rfl) | (rename_i j _; rcases j with _|_|_|_|_|_|_|_|_|j <;> rfl)
    rw [last_wins (·.compression) pre post _ hu]; rfl

/-- the five arguments of `new` are not touched by any setter -/
theorem new_args_kept (c : Cfg) (ss : List MetaSetter) :
    (c.applyAll ss).name = c.name ∧ (c.applyAll ss).version = c.version ∧ (c.applyAll ss).license = c.license ∧
    (c.applyAll ss).arch = c.arch ∧ (c.applyAll ss).summary = c.summary ∧ (c.applyAll ss).files = c.files ∧
    (c.applyAll ss).directories = c.directories ∧ (c.applyAll ss).largeFileThreshold = c.largeFileThreshold := by
  have key : ∀ {β} (π : Cfg → β), (∀ t c, π (MetaSetter.apply c t) = π c) → π (c.applyAll ss) = π c :=
    fun π h => frame π ss (fun t _ c => h t c) c
  refine ⟨key (·.name) ?_, key (·.version) ?_, key (·.license) ?_, key (·.arch) ?_, key (·.summary) ?_, key (·.files) ?_,
    key (·.directories) ?_, key (·.largeFileThreshold) ?_⟩ <;>
    (intro t c; cases t <;> first | rfl | (rename_i j _; rcases j with _|_|_|_|_|_|_|_|_|j <;> rfl))


end RpmVerif.Bld
