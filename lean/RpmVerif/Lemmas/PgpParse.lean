import RpmVerif.Model.PgpFraming
/-!
Helper lemmas for the OpenPGP framing (`splitPackets`) and `Verifier::parse_signature` (`parseSignature`):
the packets are a partition of the blob, each packet's own header declares exactly the packet's length, the
fuel of the loop is immaterial, a leading packet is split off, and what `find_map` consults is a prefix of the
packet list.
-/
namespace RpmVerif.Pgp

theorem splitAux_flatten (fuel : Nat) (blob : Bytes) (ps : List Bytes) (h : splitAux fuel blob = some ps) :
    ps.flatten = blob := by
  induction fuel generalizing blob ps with
  | zero => simp [splitAux] at h
  | succ fuel ih =>
    cases blob with
    | nil => simp [splitAux] at h; subst h; rfl
    | cons t r =>
      simp only [splitAux] at h
      split at h
      · cases h
      · rename_i hh b hl
        split at h
        · simp only [Option.map_eq_some_iff] at h
          obtain ⟨rest, hr, rfl⟩ := h
          rw [List.flatten_cons, ih _ _ hr, List.take_append_drop]
        · cases h

/-- every header is at least the tag byte -/
theorem packetLens_hpos {bs : Bytes} {h b : Nat} (hl : packetLens bs = some (h, b)) : 1 ≤ h := by
  unfold packetLens at hl
  repeat' split at hl
  all_goals (cases hl <;> omega)


/-- the fuel only has to exceed the length of the blob -/
theorem splitAux_fuel (f1 : Nat) : ∀ (f2 : Nat) (blob : Bytes), blob.length < f1 → blob.length < f2 →
    splitAux f1 blob = splitAux f2 blob := by
  induction f1 with
  | zero => intro f2 blob h; omega
  | succ f1 ih =>
    intro f2 blob h1 h2
    cases f2 with
    | zero => omega
    | succ f2 =>
      cases blob with
      | nil => rfl
      | cons t r =>
        simp only [splitAux]
        cases hl : packetLens (t :: r) with
        | none => rfl
        | some hb =>
          obtain ⟨h, b⟩ := hb
          have hp := packetLens_hpos hl
          dsimp only
          split
          · have hd : ((t :: r).drop (h + b)).length < f1 ∧ ((t :: r).drop (h + b)).length < f2 := by
              rw [List.length_drop]; simp only [List.length_cons] at h1 h2 ⊢; omega
            rw [ih f2 _ hd.1 hd.2]
          · rfl


/-- one step of the loop: a leading packet `p` (its header declares exactly `p`'s length) is split off -/
theorem split_cons {p rest : Bytes} {h b : Nat} (hl : packetLens (p ++ rest) = some (h, b)) (hlen : h + b = p.length) :
    splitPackets (p ++ rest) = (splitPackets rest).map (p :: ·) := by
  have hp := packetLens_hpos hl
  unfold splitPackets
  cases hpr : p ++ rest with
  | nil =>
    have : (p ++ rest).length = 0 := by rw [hpr]; rfl
    rw [List.length_append] at this; omega
  | cons t r =>
    rw [hpr] at hl
    have hlen' : (t :: r).length = p.length + rest.length := by rw [← hpr, List.length_append]
    simp only [splitAux, hl]
    rw [if_pos (by omega)]
    have hd : (t :: r).drop (h + b) = rest := by rw [← hpr, hlen, List.drop_left]
    have ht : (t :: r).take (h + b) = p := by rw [← hpr, hlen, List.take_left]
    rw [hd, ht, splitAux_fuel _ (rest.length + 1) rest (by omega) (by omega)]

theorem take_add2 {α} (n : Nat) (x y : α) (r : List α) : (x :: y :: r).take (2 + n) = x :: y :: r.take n := by
  rw [show 2 + n = n + 1 + 1 by omega]; rfl
theorem take_add3 {α} (n : Nat) (x y z : α) (r : List α) : (x :: y :: z :: r).take (3 + n) = x :: y :: z :: r.take n := by
  rw [show 3 + n = n + 1 + 1 + 1 by omega]; rfl
theorem take_add5 {α} (n : Nat) (x y z u v : α) (r : List α) :
    (x :: y :: z :: u :: v :: r).take (5 + n) = x :: y :: z :: u :: v :: r.take n := by
  rw [show 5 + n = n + 1 + 1 + 1 + 1 + 1 by omega]; rfl
theorem take_add6 {α} (n : Nat) (x y z u v w : α) (r : List α) :
    (x :: y :: z :: u :: v :: w :: r).take (6 + n) = x :: y :: z :: u :: v :: w :: r.take n := by
  rw [show 6 + n = n + 1 + 1 + 1 + 1 + 1 + 1 by omega]; rfl

theorem packetLens_take {bs : Bytes} {h b : Nat} (hl : packetLens bs = some (h, b)) (hle : h + b ≤ bs.length) :
    packetLens (bs.take (h + b)) = some (h, b) := by
  unfold packetLens at hl
  repeat' split at hl
  all_goals (try cases hl)
  all_goals (first | rw [take_add6] | rw [take_add5] | rw [take_add3] | rw [take_add2] | skip)
  all_goals (try (simp only [packetLens, *, if_true, if_false, ne_eq, not_false_eq_true]; done))
  · rename_i h1 h2 _ _ h3 _ _ h4 h5 _ _ _ _ _
    simp only [packetLens, h1, h2, h5, if_true, if_false, ne_eq, not_false_eq_true]
    rw [if_neg (by decide), if_neg (by decide)]
  · rename_i h1 h2 rest _ _ heq
    rw [List.take_of_length_le (by simp only [List.length_cons]; omega)]
    simp only [packetLens, h1, h2, heq, if_false]

/-- every packet the loop cuts off carries, in its own header, exactly its own length: the length a packet DECLARES
(what the OpenPGP parser allocates before reading the body) is the number of bytes that are really there -/
theorem splitAux_declared (fuel : Nat) (blob : Bytes) (ps : List Bytes) (h : splitAux fuel blob = some ps) :
    ∀ p ∈ ps, ∃ hl bl, packetLens p = some (hl, bl) ∧ hl + bl = p.length := by
  induction fuel generalizing blob ps with
  | zero => simp [splitAux] at h
  | succ fuel ih =>
    cases blob with
    | nil => simp [splitAux] at h; subst h; intro p hp; cases hp
    | cons t r =>
      simp only [splitAux] at h
      split at h
      · cases h
      · rename_i hh b hl
        split at h
        · rename_i hle
          simp only [Option.map_eq_some_iff] at h
          obtain ⟨rest, hr, rfl⟩ := h
          intro p hp
          rcases List.mem_cons.mp hp with rfl | hp
          · exact ⟨hh, b, packetLens_take hl hle, by rw [List.length_take]; omega⟩
          · exact ih _ _ hr p hp
        · cases h

/-- a blob that is exactly one packet -/
theorem split_single {p : Bytes} {h b : Nat} (hl : packetLens p = some (h, b)) (hlen : h + b = p.length) :
    splitPackets p = some [p] := by
  have := split_cons (p := p) (rest := []) (by rw [List.append_nil]; exact hl) hlen
  rw [List.append_nil] at this
  rw [this]; rfl

/-! ### `find_map` -/

theorem consulted_prefix {σ : Type} (P : Bytes → Option σ) (ps : List Bytes) : consulted P ps <+: ps := by
  induction ps with
  | nil => exact List.prefix_refl _
  | cons p ps ih =>
    unfold consulted
    split
    · exact ⟨ps, rfl⟩
    · exact List.cons_prefix_cons.mpr ⟨rfl, ih⟩

theorem findSome_congr {σ : Type} {P Q : Bytes → Option σ} {ps : List Bytes} (h : ∀ p ∈ ps, P p = Q p) :
    ps.findSome? P = ps.findSome? Q := by
  induction ps with
  | nil => rfl
  | cons p ps ih =>
    rw [List.findSome?_cons, List.findSome?_cons, h p List.mem_cons_self,
      ih (fun q hq => h q (List.mem_cons_of_mem _ hq))]

/-- nothing found: every packet was consulted -/
theorem consulted_of_none {σ : Type} {P : Bytes → Option σ} {ps : List Bytes} (h : ∀ p ∈ ps, P p = none) :
    consulted P ps = ps := by
  induction ps with
  | nil => rfl
  | cons p ps ih =>
    unfold consulted
    rw [h p List.mem_cons_self, ih (fun q hq => h q (List.mem_cons_of_mem _ hq))]
    rfl

/-- a hit: the packets before it and the hit itself were consulted, nothing behind it -/
theorem consulted_of_hit {σ : Type} {P : Bytes → Option σ} {pre post : List Bytes} {p : Bytes} {s : σ}
    (hpre : ∀ q ∈ pre, P q = none) (hp : P p = some s) : consulted P (pre ++ p :: post) = pre ++ [p] := by
  induction pre with
  | nil => simp [consulted, hp]
  | cons q pre ih =>
    simp only [List.cons_append, consulted, hpre q List.mem_cons_self]
    rw [ih (fun x hx => hpre x (List.mem_cons_of_mem _ hx))]
    rfl

theorem consulted_cons {σ : Type} (P : Bytes → Option σ) (q : Bytes) (qs : List Bytes) :
    consulted P (q :: qs) = if (P q).isSome then [q] else q :: consulted P qs := rfl

/-- `consulted` is exactly the call sequence of a left-to-right `find_map`: the result is the answer to the LAST call,
every earlier call answered `None` -/
theorem consulted_faithful {σ : Type} (P : Bytes → Option σ) (ps : List Bytes) :
    ps.findSome? P = (consulted P ps).getLast?.bind P ∧ ∀ p ∈ (consulted P ps).dropLast, P p = none := by
  induction ps with
  | nil => exact ⟨rfl, fun p hp => by cases hp⟩
  | cons q qs ih =>
    rw [consulted_cons, List.findSome?_cons]
    cases hq : P q with
    | some s => exact ⟨by simp [hq], fun p hp => by simp at hp⟩
    | none =>
      simp only [Option.isSome_none, Bool.false_eq_true, if_false]
      cases hc : consulted P qs with
      | nil =>
        rw [hc] at ih
        exact ⟨by rw [ih.1]; simp [hq], fun p hp => by simp at hp⟩
      | cons y ys =>
        rw [hc] at ih
        rw [List.getLast?_cons_cons, List.dropLast_cons_cons]
        refine ⟨ih.1, fun p hp => ?_⟩
        rcases List.mem_cons.mp hp with rfl | hp
        · exact hq
        · exact ih.2 p hp

/-- a member of a list of byte strings is a contiguous slice of their concatenation -/
theorem mem_flatten_slice {ps : List Bytes} {p : Bytes} (h : p ∈ ps) : ∃ pre post, ps.flatten = pre ++ p ++ post := by
  obtain ⟨l1, l2, rfl⟩ := List.append_of_mem h
  exact ⟨l1.flatten, l2.flatten, by simp [List.flatten_append, List.flatten_cons, List.append_assoc]⟩

theorem le_sum_of_mem_nat {l : List Nat} {n : Nat} (h : n ∈ l) : n ≤ l.sum := by
  induction l with
  | nil => cases h
  | cons a l ih =>
    rw [List.sum_cons]
    rcases List.mem_cons.mp h with rfl | h'
    · omega
    · have := ih h'; omega

end RpmVerif.Pgp
