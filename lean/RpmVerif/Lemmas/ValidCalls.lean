import RpmVerif.Lemmas.ValidInputs
import RpmVerif.Lemmas.PrepareData
import RpmVerif.Lemmas.AddData
import RpmVerif.Props.C20
/-!
# From the CALLS to `CfgOk`: what the builder is given decides whether its header is well formed (audit items c17 / c18)

`Lemmas/ValidInputs.lean` goes from the builder state to `C06.Valid`; this file goes from the arguments of the calls
(`Build.Call`: every setter, `with_file` with its options chain) to that state:

* a destination that is a NUL-free Rust string is split into a directory and a base name that are NUL-free Rust strings
  (`addData_rustStr`: the pieces of valid UTF-8 between `/` are valid UTF-8, and so is anything joined from them);
* the `FileOptions` chain keeps its strings / flag words in range (`applySetters_optsOk`), so `with_file` stores a `FileOk` entry;
* every metadata setter keeps `CfgOk` (`cfgOk_apply`), `PackageBuilder::new` establishes it (`cfgOk_new`);
* hence `StOk` after any successful call sequence (`StOk.run`).
-/
set_option linter.unusedVariables false
namespace RpmVerif.Build
open RpmVerif.Hdr RpmVerif.Bld RpmVerif.AddData RpmVerif.WithFile RpmVerif.Path RpmVerif.Utf8

/-! ## Rust strings through the path functions of `add_data` -/

/-- every list of pieces is made of NUL-free Rust strings -/
def Pieces (l : List Bytes) : Prop := ∀ p ∈ l, RustStr p

theorem scalar_sep_or_not {c : Bytes} (h : Scalar c) : c = [47] ∨ ∀ b ∈ c, b ≠ 47 := by
  have cont : ∀ b : UInt8, isCont b = true → b ≠ 47 := by
    intro b hb e; subst e; revert hb; decide
  have lead : ∀ b : UInt8, (¬ b < 0x80) → b ≠ 47 := by
    intro b hb e; subst e; exact hb (by decide)
  match c, h with
  | [b0], _ =>
    by_cases e : b0 = 47
    · left; rw [e]
    · right; intro b hb; rw [List.mem_singleton.mp hb]; exact e
  | [b0, b1], h =>
    right
    obtain ⟨h0, h1⟩ := h
    intro b hb
    simp only [List.mem_cons, List.not_mem_nil, or_false] at hb
    rcases hb with rfl | rfl
    · exact lead _ (lead2 _ h0)
    · exact cont _ h1
  | [b0, b1, b2], h =>
    right
    obtain ⟨h0, h1, h2⟩ := h
    have hb1 : isCont b1 = true := by
      simp only [ok3] at h1
      split at h1
      · revert h1; simp only [isCont, Bool.and_eq_true, decide_eq_true_eq, UInt8.le_iff_toNat_le]; simp only [UInt8.reduceToNat]; omega
      · split at h1
        · revert h1; simp only [isCont, Bool.and_eq_true, decide_eq_true_eq, UInt8.le_iff_toNat_le]; simp only [UInt8.reduceToNat]; omega
        · exact h1
    intro b hb
    simp only [List.mem_cons, List.not_mem_nil, or_false] at hb
    rcases hb with rfl | rfl | rfl
    · exact lead _ (lead3 _ h0).1
    · exact cont _ hb1
    · exact cont _ h2
  | [b0, b1, b2, b3], h =>
    right
    obtain ⟨h0, h1, h2, h3⟩ := h
    have hb1 : isCont b1 = true := by
      simp only [ok4] at h1
      split at h1
      · revert h1; simp only [isCont, Bool.and_eq_true, decide_eq_true_eq, UInt8.le_iff_toNat_le]; simp only [UInt8.reduceToNat]; omega
      · split at h1
        · revert h1; simp only [isCont, Bool.and_eq_true, decide_eq_true_eq, UInt8.le_iff_toNat_le]; simp only [UInt8.reduceToNat]; omega
        · exact h1
    intro b hb
    simp only [List.mem_cons, List.not_mem_nil, or_false] at hb
    rcases hb with rfl | rfl | rfl | rfl
    · exact lead _ (lead4 _ h0).1
    · exact cont _ hb1
    · exact cont _ h2
    · exact cont _ h3

theorem splitSep_append_noSep (c r : Bytes) (h : ∀ b ∈ c, b ≠ 47) :
    splitSep (c ++ r) = (c ++ (splitSep r).headD []) :: (splitSep r).tail := by
  induction c with
  | nil => simp only [List.nil_append]; exact splitSep_eq_cons r
  | cons b t ih =>
    have hb : b ≠ 47 := h b (by simp)
    rw [List.cons_append, splitSep_cons_ne hb, ih (fun x hx => h x (by simp [hx]))]
    rfl

theorem valid_pieces {s : Bytes} (h : Valid s) : ∀ p ∈ splitSep s, Valid p := by
  induction h with
  | nil => intro p hp; simp only [splitSep_nil, List.mem_singleton] at hp; subst hp; exact .nil
  | @cons c r hc _ ih =>
    intro p hp
    rcases scalar_sep_or_not hc with rfl | hns
    · rw [show [47] ++ r = 47 :: r from rfl, splitSep_cons_sep] at hp
      rcases List.mem_cons.mp hp with rfl | hp
      · exact .nil
      · exact ih p hp
    · rw [splitSep_append_noSep c r hns] at hp
      have hhead : Valid ((splitSep r).headD []) := by
        have := splitSep_eq_cons r
        exact ih _ (by rw [this]; exact List.mem_cons_self ..)
      rcases List.mem_cons.mp hp with rfl | hp
      · exact .cons hc hhead
      · exact ih p (List.mem_of_mem_tail hp)

theorem mem_of_mem_piece {s p : Bytes} {b : UInt8} (hp : p ∈ splitSep s) (hb : b ∈ p) : b ∈ s := by
  have := joinSep_splitSep s
  rw [← this]
  clear this
  generalize splitSep s = l at hp
  induction l with
  | nil => cases hp
  | cons a t ih =>
    cases t with
    | nil => simp only [List.mem_singleton] at hp; subst hp; simpa [joinSep] using hb
    | cons x u =>
      rw [joinSep_cons_cons]
      rcases List.mem_cons.mp hp with rfl | hp
      · exact List.mem_append_left _ hb
      · exact List.mem_append_right _ (List.mem_cons_of_mem _ (ih hp))

/-- the pieces of a Rust string between its `/` are Rust strings -/
theorem pieces_splitSep {s : Bytes} (h : RustStr s) : Pieces (splitSep s) :=
  fun p hp => ⟨fun m => h.1 (mem_of_mem_piece hp m), valid_pieces h.2 p hp⟩

theorem Pieces.reverse {l : List Bytes} (h : Pieces l) : Pieces l.reverse := fun p hp => h p (List.mem_reverse.mp hp)
theorem Pieces.trim {l : List Bytes} (h : Pieces l) : Pieces (trimTriv l) := fun p hp => h p ((List.dropWhile_sublist _).subset hp)
theorem Pieces.tail {a : Bytes} {l : List Bytes} (h : Pieces (a :: l)) : Pieces l := fun p hp => h p (List.mem_cons_of_mem _ hp)

theorem rustStr_joinSep {l : List Bytes} (h : Pieces l) : RustStr (joinSep l) := by
  cases l with
  | nil => exact rustStr_nil
  | cons a t =>
    simp only [joinSep]
    refine (h a (List.mem_cons_self ..)).append ?_
    have ht : Pieces t := h.tail
    clear h
    induction t with
    | nil => exact rustStr_nil
    | cons x u ih =>
      simp only [List.flatMap_cons]
      exact ((rustStr_ascii [47] (by decide)).append (ht x (List.mem_cons_self ..))).append (ih ht.tail)

theorem rustStr_dirOf {x : Bytes} (h : RustStr x) : RustStr (dirOf x) := by
  unfold dirOf
  split
  · exact rustStr_ascii [47] (by decide)
  · exact (rustStr_ascii [47] (by decide)).append (h.append (rustStr_ascii [47] (by decide)))

/-- **directory and base name of an accepted Rust-string destination are NUL-free Rust strings** -/
theorem addData_rustStr {dest cpio dir base : Bytes} (hd : RustStr dest) (h : addData dest = .ok (cpio, dir, base)) :
    RustStr dir ∧ RustStr base := by
  obtain ⟨_, c, hraw⟩ : cpio = [46] ++ dir ++ base ∧ ∃ c, addDataRaw dest = .ok (c, dir, base) := by
    unfold addData at h
    cases hr : addDataRaw dest with
    | ok r =>
      obtain ⟨c, d, b⟩ := r
      simp only [hr, Out.map, Out.ok.injEq, Prod.mk.injEq] at h
      obtain ⟨rfl, rfl, rfl⟩ := h
      exact ⟨rfl, c, rfl⟩
    | err e => simp [hr, Out.map] at h
    | panic s => simp [hr, Out.map] at h
  rcases start_cases dest with ⟨r, rfl⟩ | ⟨r, rfl⟩ | hb
  · have hp : Pieces (splitSep r) := by
      have := pieces_splitSep hd
      rw [splitSep_cons_sep] at this
      exact this.tail
    rw [addData_slash] at hraw
    cases hb : trimTriv (splitSep r).reverse with
    | nil => rw [hb] at hraw; cases hraw
    | cons s rest =>
      rw [hb] at hraw
      have hall : Pieces (s :: rest) := by rw [← hb]; exact hp.reverse.trim
      by_cases hdd : (s == [46, 46]) = true
      · simp [hdd, errDest] at hraw
      · simp only [hdd, Bool.false_eq_true, ↓reduceIte, Out.ok.injEq, Prod.mk.injEq] at hraw
        obtain ⟨_, rfl, rfl⟩ := hraw
        exact ⟨rustStr_dirOf (rustStr_joinSep hall.tail.trim.reverse), hall s (List.mem_cons_self ..)⟩
  · have hp : Pieces (splitSep (47 :: r)) := by
      have := pieces_splitSep hd
      rw [splitSep_cons_ne (by decide), splitSep_cons_sep] at this
      rw [splitSep_cons_sep]
      intro p hp
      rcases List.mem_cons.mp hp with rfl | hp
      · exact rustStr_nil
      · exact this p (List.mem_cons_of_mem _ hp)
    rw [addData_dot] at hraw
    cases hb : trimTriv (splitSep (47 :: r)).reverse with
    | nil => rw [hb] at hraw; cases hraw
    | cons s rest =>
      rw [hb] at hraw
      have hall : Pieces (s :: rest) := by rw [← hb]; exact hp.reverse.trim
      by_cases hdd : (s == [46, 46]) = true
      · simp [hdd, errDest] at hraw
      · simp only [hdd, Bool.false_eq_true, ↓reduceIte, Out.ok.injEq, Prod.mk.injEq] at hraw
        obtain ⟨_, rfl, rfl⟩ := hraw
        refine ⟨rustStr_dirOf ?_, hall s (List.mem_cons_self ..)⟩
        unfold dotDirText
        exact rustStr_joinSep (pieces_splitSep (rustStr_joinSep hall.tail.trim.reverse)).trim.reverse.trim.reverse
  · rw [addData_bad_start hb] at hraw; cases hraw


/-! ## the options chain and `with_file` -/

/-- the arguments of one `FileOptionsBuilder` setter: NUL-free Rust strings; a `FileVerifyFlags` is a `u32`; a `FileMode` value
converts to a `u16` (all four variants of the Rust enum do) -/
def SetterArgsOk : Setter → Prop
  | .user u => RustStr u
  | .group g => RustStr g
  | .symlink l => RustStr l
  | .mode m => FileMode.rawMode m < 65536
  | .caps t => RustStr t
  | .verify f => f < 4294967296
  | .flag _ => True

structure OptsOk (o : FileOpts) : Prop where
  user : RustStr o.user
  group : RustStr o.group
  symlink : RustStr o.symlink
  caps : ∀ c, o.caps = some c → RustStr c
  flag : o.flag < 4294967296
  verify : o.verifyFlags < 4294967296
  mode : o.inheritPermissions = false → FileMode.rawMode o.mode < 65536

theorem optsOk_new (dest : Bytes) : OptsOk (FileOpts.new dest) where
  user := rustStr_ascii Gen.fileOptionsNewUser (by decide)
  group := rustStr_ascii Gen.fileOptionsNewGroup (by decide)
  symlink := rustStr_ascii Gen.fileOptionsNewSymlink (by decide)
  caps := fun c h => nomatch h
  flag := (by decide : Gen.fileOptionsNewFlag < 4294967296)
  verify := (by decide : Gen.fileOptionsNewVerifyFlags < 4294967296)
  mode := fun _ => (by decide : FileMode.rawMode defaultMode < 65536)

theorem setterBits_lt (i : Nat) : setterBits i < 4294967296 := by
  unfold setterBits
  cases h : Gen.fileOptionSetters[i]? with
  | none => decide
  | some e =>
    have hall : ∀ e ∈ Gen.fileOptionSetters, e.2 < 4294967296 := by decide
    exact hall e (List.mem_of_getElem? h)

theorem or_lt_u32 {a b : Nat} (ha : a < 4294967296) (hb : b < 4294967296) : a ||| b < 4294967296 :=
  Nat.or_lt_two_pow (n := 32) ha hb

theorem Setter.apply_optsOk {valid : Bytes → Bool} {s : Setter} {o o' : FileOpts} (ok : OptsOk o) (ha : SetterArgsOk s)
    (h : s.apply valid o = .ok o') : OptsOk o' := by
  cases s with
  | user u => cases h; exact { ok with user := ha }
  | group g => cases h; exact { ok with group := ha }
  | symlink l => cases h; exact { ok with symlink := ha }
  | mode m =>
    cases h
    refine ⟨ok.user, ok.group, ok.symlink, ok.caps, ok.flag, ok.verify, fun _ => ha⟩
  | caps t =>
    simp only [Setter.apply] at h
    cases hc : capsSetter valid t with
    | ok t' =>
      rw [hc] at h; cases h
      have : t' = t := by
        rcases capsSetter_cases valid t with h1 | h1 <;> rw [h1] at hc <;> cases hc; rfl
      subst this
      exact { ok with caps := fun c hcc => by cases hcc; exact ha }
    | err e => rw [hc] at h; cases h
    | panic p => rw [hc] at h; cases h
  | verify f => cases h; exact { ok with verify := ha }
  | flag i => cases h; exact { ok with flag := or_lt_u32 ok.flag (setterBits_lt i) }

theorem applySetters_optsOk {valid : Bytes → Bool} {ss : List Setter} {o o' : FileOpts} (ok : OptsOk o)
    (ha : ∀ s ∈ ss, SetterArgsOk s) (h : applySetters valid ss o = .ok o') : OptsOk o' := by
  induction ss generalizing o with
  | nil => cases h; exact ok
  | cons s r ih =>
    obtain ⟨o₁, h1, h2⟩ := applySetters_cons_ok h
    exact ih (Setter.apply_optsOk ok (ha s (by simp)) h1) (fun t ht => ha t (by simp [ht])) h2

/-- one `with_file` call whose destination and options are NUL-free Rust strings (and whose digest text is one: it is hex) -/
def CallArgsOk (c : WithFile.Call) : Prop := RustStr c.dest ∧ ∀ s ∈ c.setters, SetterArgsOk s

/-- **the entry `with_file` stores is storable**: strings, 16-bit mode, 32-bit flags and time; so is its directory -/
theorem runCall_fileOk {sha256hex : Bytes → Bytes} {valid : Bytes → Bool} {c : WithFile.Call} {e : FileE}
    (hsha : ∀ b, RustStr (sha256hex b)) (ha : CallArgsOk c) (h : runCall sha256hex valid c = .ok e) :
    FileOk e ∧ RustStr e.dir := by
  unfold runCall at h
  cases hs : applySetters valid c.setters (FileOpts.new c.dest) with
  | ok o =>
    rw [hs] at h
    have ok := applySetters_optsOk (optsOk_new c.dest) ha.2 hs
    have hdest : o.destination = c.dest := applySetters_keeps_dest hs
    obtain ⟨f, cpio, dir, base, _, h0, h1, hadd, rfl⟩ := withFile_ok h
    rw [hdest] at hadd
    obtain ⟨hdir, hbase⟩ := addData_rustStr ha.1 hadd
    refine ⟨⟨hbase, ok.user, ok.group, ok.symlink, ok.caps, hsha _, ?_, ok.flag, ok.verify, ?_⟩, hdir⟩
    · show (if o.inheritPermissions then f.stMode % 65536 else FileMode.rawMode o.mode) < 65536
      cases hi : o.inheritPermissions with
      | true => simp only [if_true]; exact Nat.mod_lt _ (by decide)
      | false => simp only [Bool.false_eq_true, if_false]; exact ok.mode hi
    · show f.mtime.secs.toNat < 4294967296
      omega
  | err x => rw [hs] at h; cases h
  | panic p => rw [hs] at h; cases h


/-! ## the metadata setters -/

/-- the arguments of one metadata setter: NUL-free Rust strings, `u32` numbers -/
def MetaArgsOk : MetaSetter → Prop
  | .epoch n => n < 4294967296
  | .release s | .url s | .vcs s | .description s | .vendor s | .packager s | .group s | .buildHost s | .cookie s => RustStr s
  | .sourceDate t => t < 4294967296
  | .compression _ => True
  | .changelog n e t => RustStr n ∧ RustStr e ∧ t < 4294967296
  | .script _ s => ScriptOk s
  | .dep _ d => DepOk d

theorem mem_snoc {α} {l : List α} {a x : α} (h : x ∈ l ++ [a]) : x ∈ l ∨ x = a := by
  rcases List.mem_append.mp h with h | h
  · exact .inl h
  · exact .inr (List.mem_singleton.mp h)

theorem cfgOk_apply {c : Cfg} (ok : CfgOk c) {m : MetaSetter} (ha : MetaArgsOk m) : CfgOk (MetaSetter.apply c m) := by
  cases m with
  | epoch n => exact { ok with epoch := ha }
  | release s => exact { ok with release := ha }
  | url s => exact { ok with url := fun x hx => by cases hx; exact ha }
  | vcs s => exact { ok with vcs := fun x hx => by cases hx; exact ha }
  | description s => exact { ok with desc := fun x hx => by cases hx; exact ha }
  | vendor s => exact { ok with vendor := fun x hx => by cases hx; exact ha }
  | packager s => exact { ok with packager := fun x hx => by cases hx; exact ha }
  | group s => exact { ok with group := fun x hx => by cases hx; exact ha }
  | buildHost s => exact { ok with buildHost := fun x hx => by cases hx; exact ha }
  | sourceDate t => exact { ok with sourceDate := fun x hx => by cases hx; exact ha }
  | cookie s => exact { ok with cookie := fun x hx => by cases hx; exact ha }
  | compression k => exact { ok with }
  | changelog n e t =>
    have hcl : ∀ x ∈ c.changelog ++ [(n, e, t)], RustStr x.1 ∧ RustStr x.2.1 ∧ x.2.2 < 4294967296 := by
      intro x hx
      rcases mem_snoc hx with hx | rfl
      · exact ok.changelog x hx
      · exact ha
    exact { ok with changelog := hcl }
  | script k s =>
    rcases k with _|_|_|_|_|_|_|_|_|k
    · exact { ok with preIn := fun x hx => by cases hx; exact ha }
    · exact { ok with postIn := fun x hx => by cases hx; exact ha }
    · exact { ok with preUn := fun x hx => by cases hx; exact ha }
    · exact { ok with postUn := fun x hx => by cases hx; exact ha }
    · exact { ok with preTrans := fun x hx => by cases hx; exact ha }
    · exact { ok with postTrans := fun x hx => by cases hx; exact ha }
    · exact { ok with preUntrans := fun x hx => by cases hx; exact ha }
    · exact { ok with postUntrans := fun x hx => by cases hx; exact ha }
    · exact { ok with verify := fun x hx => by cases hx; exact ha }
    · exact ok
  | dep k d =>
    rcases k with _|_|_|_|_|_|_|_|k
    · exact { ok with provides := fun x hx => (mem_snoc hx).elim (ok.provides x) (fun h => h ▸ ha) }
    · exact { ok with requires := fun x hx => (mem_snoc hx).elim (ok.requires x) (fun h => h ▸ ha) }
    · exact { ok with conflicts := fun x hx => (mem_snoc hx).elim (ok.conflicts x) (fun h => h ▸ ha) }
    · exact { ok with obsoletes := fun x hx => (mem_snoc hx).elim (ok.obsoletes x) (fun h => h ▸ ha) }
    · exact { ok with recommends := fun x hx => (mem_snoc hx).elim (ok.recommends x) (fun h => h ▸ ha) }
    · exact { ok with suggests := fun x hx => (mem_snoc hx).elim (ok.suggests x) (fun h => h ▸ ha) }
    · exact { ok with enhances := fun x hx => (mem_snoc hx).elim (ok.enhances x) (fun h => h ▸ ha) }
    · exact { ok with supplements := fun x hx => (mem_snoc hx).elim (ok.supplements x) (fun h => h ▸ ha) }
    · exact ok


theorem hexLower_length (bs : Bytes) : (Digest.hexLower bs).length = 2 * bs.length := by
  induction bs with
  | nil => rfl
  | cons b r ih =>
    have : Digest.hexLower (b :: r) = [Digest.hexDigitByte (b.toNat / 16), Digest.hexDigitByte (b.toNat % 16)] ++ Digest.hexLower r := by
      simp [Digest.hexLower]
    rw [this, List.length_append, ih]; simp; omega

/-! ## a whole call sequence -/

/-- the arguments of one call: NUL-free Rust strings, numbers of the width of their Rust type. (A `SystemTime` / `DateTime`
argument needs no condition here: the call either panics or stores a `u32`.) -/
def Call.ArgsOk : Call → Prop
  | .set m => MetaArgsOk m
  | .sourceDate (.secs n) => n < 4294967296
  | .sourceDate (.src _) => True
  | .changelog n e (.secs t) => RustStr n ∧ RustStr e ∧ t < 4294967296
  | .changelog n e (.src _) => RustStr n ∧ RustStr e
  | .file c => CallArgsOk c

structure StOk (s : St) : Prop where
  base : CfgOk s.base
  files : ∀ p ∈ s.fes, FileOk p.1
  dirs : ∀ d ∈ s.dirs, RustStr d

theorem timestampSetter_lt {t : TsArg} {n : Nat} (h : timestampSetter t = .ok n) (hs : ∀ k, t = .secs k → k < 4294967296) :
    n < 4294967296 := by
  cases t with
  | secs k => simp only [timestampSetter, Out.ok.injEq] at h; subst h; exact hs k rfl
  | src x =>
    simp only [timestampSetter] at h
    cases hc : Timestamp.convert x with
    | ok m => rw [hc] at h; simp only [Out.ok.injEq] at h; subst h; exact ((C20.ts_ok_iff x m).mp hc).2
    | underflow => rw [hc] at h; cases h
    | overflow => rw [hc] at h; cases h
    | panic p => rw [hc] at h; cases h

theorem mem_insertDir {d x : Bytes} {l : List Bytes} (h : x ∈ insertDir d l) : x = d ∨ x ∈ l := by
  induction l with
  | nil => simp only [insertDir, List.mem_singleton] at h; exact .inl h
  | cons g r ih =>
    simp only [insertDir] at h
    split at h
    · exact .inr h
    · split at h
      · rcases List.mem_cons.mp h with rfl | h'
        · exact .inl rfl
        · exact .inr h'
      · rcases List.mem_cons.mp h with rfl | h'
        · exact .inr (by simp)
        · rcases ih h' with rfl | h''
          · exact .inl rfl
          · exact .inr (by simp [h''])

theorem StOk.step {sha256hex : Bytes → Bytes} {valid : Bytes → Bool} {s s' : St} {c : Call} (ok : StOk s)
    (hsha : ∀ b, RustStr (sha256hex b)) (ha : c.ArgsOk) (h : step sha256hex valid s c = .ok s') : StOk s' := by
  cases c with
  | set m =>
    simp only [Build.step, Out.ok.injEq] at h; subst h
    exact ⟨cfgOk_apply ok.base ha, ok.files, ok.dirs⟩
  | sourceDate t =>
    simp only [Build.step] at h
    cases hs : AddData.sourceDate t with
    | ok n =>
      rw [hs] at h; simp only [Out.map, Out.ok.injEq] at h; subst h
      refine ⟨cfgOk_apply ok.base (m := .sourceDate n) (timestampSetter_lt hs (fun k hk => ?_)), ok.files, ok.dirs⟩
      subst hk; exact ha
    | err e => rw [hs] at h; cases h
    | panic p => rw [hs] at h; cases h
  | changelog name entry t =>
    simp only [Build.step] at h
    cases hs : addChangelogEntry name entry t with
    | ok n =>
      rw [hs] at h; simp only [Out.map, Out.ok.injEq] at h; subst h
      have hne : RustStr name ∧ RustStr entry := by
        cases t with
        | secs k => exact ⟨ha.1, ha.2.1⟩
        | src x => exact ha
      refine ⟨cfgOk_apply ok.base (m := .changelog name entry n) ⟨hne.1, hne.2, timestampSetter_lt hs (fun k hk => ?_)⟩, ok.files, ok.dirs⟩
      subst hk; exact ha.2.2
    | err e => rw [hs] at h; cases h
    | panic p => rw [hs] at h; cases h
  | file wc =>
    simp only [Build.step] at h
    cases hs : runCall sha256hex valid wc with
    | ok e =>
      rw [hs] at h; simp only [Out.map, Out.ok.injEq] at h; subst h
      obtain ⟨hf, hd⟩ := runCall_fileOk hsha ha hs
      refine ⟨ok.base, fun p hp => ?_, fun d hdm => ?_⟩
      · rcases mem_insertFE hp with rfl | hp'
        · exact hf
        · exact ok.files p hp'
      · rcases mem_insertDir hdm with rfl | hd'
        · exact hd
        · exact ok.dirs d hd'
    | err e => rw [hs] at h; cases h
    | panic p => rw [hs] at h; cases h

theorem StOk.run {sha256hex : Bytes → Bytes} {valid : Bytes → Bool} {calls : List Call} {s s' : St} (ok : StOk s)
    (hsha : ∀ b, RustStr (sha256hex b)) (ha : ∀ c ∈ calls, c.ArgsOk) (h : run sha256hex valid calls s = .ok s') : StOk s' := by
  induction calls generalizing s with
  | nil => cases h; exact ok
  | cons c r ih =>
    obtain ⟨s1, h1, h2⟩ := run_cons_ok h
    exact ih (ok.step hsha (ha c (List.mem_cons_self ..)) h1) (fun x hx => ha x (List.mem_cons_of_mem _ hx)) h2

theorem cfgOk_new {name version license arch summary : Bytes} (dc : Bld.Comp) (h1 : RustStr name) (h2 : RustStr version)
    (h3 : RustStr license) (h4 : RustStr arch) (h5 : RustStr summary) : CfgOk (Cfg.new name version license arch summary dc) where
  name := h1
  version := h2
  release := rustStr_ascii Gen.builderNewRelease (by decide)
  license := h3
  arch := h4
  summary := h5
  epoch := (by decide : Gen.builderNewEpoch < 4294967296)
  desc := fun _ h => nomatch h
  vendor := fun _ h => nomatch h
  packager := fun _ h => nomatch h
  group := fun _ h => nomatch h
  url := fun _ h => nomatch h
  vcs := fun _ h => nomatch h
  cookie := fun _ h => nomatch h
  buildHost := fun _ h => nomatch h
  sourceDate := fun _ h => nomatch h
  files := fun _ h => nomatch h
  dirs := fun _ h => nomatch h
  provides := fun _ h => nomatch h
  requires := fun _ h => nomatch h
  conflicts := fun _ h => nomatch h
  obsoletes := fun _ h => nomatch h
  recommends := fun _ h => nomatch h
  suggests := fun _ h => nomatch h
  enhances := fun _ h => nomatch h
  supplements := fun _ h => nomatch h
  preIn := fun _ h => nomatch h
  postIn := fun _ h => nomatch h
  preUn := fun _ h => nomatch h
  postUn := fun _ h => nomatch h
  preTrans := fun _ h => nomatch h
  postTrans := fun _ h => nomatch h
  preUntrans := fun _ h => nomatch h
  postUntrans := fun _ h => nomatch h
  verify := fun _ h => nomatch h
  changelog := fun _ h => nomatch h
  threshold := Nat.le_refl _
  total := (by decide : (0 : Nat) < 18446744073709551616)

theorem stOk_new {name version license arch summary : Bytes} (dc : Bld.Comp) (h1 : RustStr name) (h2 : RustStr version)
    (h3 : RustStr license) (h4 : RustStr arch) (h5 : RustStr summary) : StOk (St.new name version license arch summary dc) :=
  ⟨cfgOk_new dc h1 h2 h3 h4 h5, (fun p hp => by cases hp), (fun d hd => by cases hd)⟩

/-- the state `prepare_data` consumes is `CfgOk` when the metadata part is, the files are, and the sizes sum below 2^64 -/
theorem StOk.cfgOk {s : St} (ok : StOk s) (ht : combinedSize s.cfg < 18446744073709551616) : CfgOk s.cfg := by
  exact
  have hfiles : ∀ f ∈ s.cfg.files, FileOk f := by
    intro f hf
    obtain ⟨p, hp, rfl⟩ := List.mem_map.mp hf
    exact ok.files p hp
  { ok.base with files := hfiles, dirs := ok.dirs, total := ht }

end RpmVerif.Build
