import RpmVerif.Lemmas.ValidCalls
/-!
# The weight of the builder state is bounded by the lengths of the ARGUMENTS of the calls

`C06.valid_of_inputs` bounds `cfgWeight` of the state; this file bounds that by what the caller wrote: directory and base name
of a destination are not longer than the destination (`addData_lengths`, through the piece lists of `std::path`), the options
chain holds what its setters were given (`applySetters_optsW`), every metadata setter adds at most its arguments
(`cfgWeight_apply`), hence `run_weight`.
-/
set_option linter.unusedVariables false
namespace RpmVerif.Build
open RpmVerif.Hdr RpmVerif.Bld RpmVerif.AddData RpmVerif.WithFile RpmVerif.Path

/-! ## lengths through the path functions -/

/-- total length of a list of pieces, one separator each -/
def piecesLen (l : List Bytes) : Nat := (l.map (·.length + 1)).sum

theorem joinSep_length_le (l : List Bytes) : (joinSep l).length ≤ piecesLen l := by
  cases l with
  | nil => simp [joinSep, piecesLen]
  | cons a t =>
    simp only [joinSep, piecesLen, List.map_cons, List.sum_cons, List.length_append]
    have : (t.flatMap (fun x => 47 :: x)).length = (t.map (·.length + 1)).sum := by
      induction t with
      | nil => rfl
      | cons x u ih => simp only [List.flatMap_cons, List.length_append, List.length_cons, List.map_cons, List.sum_cons, ih]
    omega

theorem piecesLen_splitSep (s : Bytes) : piecesLen (splitSep s) = s.length + 1 := by
  induction s with
  | nil => rfl
  | cons b r ih =>
    by_cases hb : b = 47
    · subst hb; rw [splitSep_cons_sep]; simp only [piecesLen, List.map_cons, List.sum_cons, List.length_nil, List.length_cons] at ih ⊢; omega
    · rw [splitSep_cons_ne hb]
      have := splitSep_eq_cons r
      rw [this] at ih
      simp only [piecesLen, List.map_cons, List.sum_cons, List.length_cons] at ih ⊢
      omega

theorem piecesLen_cons (a : Bytes) (l : List Bytes) : piecesLen (a :: l) = a.length + 1 + piecesLen l := by
  simp [piecesLen]

theorem piecesLen_sublist {a b : List Bytes} (h : a.Sublist b) : piecesLen a ≤ piecesLen b :=
  sublist_sum_le (h.map _)

theorem piecesLen_reverse (l : List Bytes) : piecesLen l.reverse = piecesLen l := by
  unfold piecesLen
  exact ((List.reverse_perm l).map _).sum_nat

theorem piecesLen_trim (l : List Bytes) : piecesLen (trimTriv l) ≤ piecesLen l := piecesLen_sublist (List.dropWhile_sublist _)

theorem mem_length_le_piecesLen {l : List Bytes} {p : Bytes} (h : p ∈ l) : p.length + 1 ≤ piecesLen l :=
  mem_le_sum (List.mem_map_of_mem (f := fun x : Bytes => x.length + 1) h)

theorem dirOf_length (x : Bytes) : (dirOf x).length ≤ x.length + 2 := by
  unfold dirOf; split <;> simp

/-- directory and base name of an accepted destination are not longer than the destination (plus the separators added) -/
theorem addData_lengths {dest cpio dir base : Bytes} (h : addData dest = .ok (cpio, dir, base)) :
    base.length ≤ dest.length ∧ dir.length ≤ dest.length + 4 := by
  obtain ⟨c, hraw⟩ : ∃ c, addDataRaw dest = .ok (c, dir, base) := by
    unfold addData at h
    cases hr : addDataRaw dest with
    | ok r =>
      obtain ⟨c, d, b⟩ := r
      simp only [hr, Out.map, Out.ok.injEq, Prod.mk.injEq] at h
      obtain ⟨_, rfl, rfl⟩ := h
      exact ⟨c, rfl⟩
    | err e => simp [hr, Out.map] at h
    | panic s => simp [hr, Out.map] at h
  rcases start_cases dest with ⟨r, rfl⟩ | ⟨r, rfl⟩ | hb
  · rw [addData_slash] at hraw
    cases hb : trimTriv (splitSep r).reverse with
    | nil => rw [hb] at hraw; cases hraw
    | cons s rest =>
      rw [hb] at hraw
      have hall : piecesLen (s :: rest) ≤ r.length + 1 := by
        rw [← hb, ← piecesLen_splitSep r, ← piecesLen_reverse (splitSep r)]; exact piecesLen_trim _
      by_cases hdd : (s == [46, 46]) = true
      · simp [hdd, errDest] at hraw
      · simp only [hdd, Bool.false_eq_true, ↓reduceIte, Out.ok.injEq, Prod.mk.injEq] at hraw
        obtain ⟨_, rfl, rfl⟩ := hraw
        have h1 := joinSep_length_le (trimTriv rest).reverse
        have h2 : piecesLen (trimTriv rest).reverse ≤ piecesLen rest := by rw [piecesLen_reverse]; exact piecesLen_trim _
        have h3 := dirOf_length (joinSep (trimTriv rest).reverse)
        rw [piecesLen_cons] at hall
        simp only [List.length_cons]
        constructor <;> omega
  · rw [addData_dot] at hraw
    cases hb : trimTriv (splitSep (47 :: r)).reverse with
    | nil => rw [hb] at hraw; cases hraw
    | cons s rest =>
      rw [hb] at hraw
      have hall : piecesLen (s :: rest) ≤ r.length + 2 := by
        have := piecesLen_splitSep (47 :: r)
        simp only [List.length_cons] at this
        rw [← hb, ← this, ← piecesLen_reverse (splitSep (47 :: r))]; exact piecesLen_trim _
      by_cases hdd : (s == [46, 46]) = true
      · simp [hdd, errDest] at hraw
      · simp only [hdd, Bool.false_eq_true, ↓reduceIte, Out.ok.injEq, Prod.mk.injEq] at hraw
        obtain ⟨_, rfl, rfl⟩ := hraw
        -- dotDirText rest = joinSep A, A pieces of splitSep (joinSep B), B = (trimTriv rest).reverse
        have hB : piecesLen (trimTriv rest).reverse ≤ piecesLen rest := by rw [piecesLen_reverse]; exact piecesLen_trim _
        have hJ := joinSep_length_le (trimTriv rest).reverse
        have hS := piecesLen_splitSep (joinSep (trimTriv rest).reverse)
        have hA : piecesLen (trimTriv (trimTriv (splitSep (joinSep (trimTriv rest).reverse))).reverse).reverse ≤
            piecesLen (splitSep (joinSep (trimTriv rest).reverse)) := by
          rw [piecesLen_reverse]
          refine Nat.le_trans (piecesLen_trim _) ?_
          rw [piecesLen_reverse]; exact piecesLen_trim _
        have hD := joinSep_length_le (trimTriv (trimTriv (splitSep (joinSep (trimTriv rest).reverse))).reverse).reverse
        have h3 := dirOf_length (dotDirText rest)
        unfold dotDirText at h3 ⊢
        rw [piecesLen_cons] at hall
        simp only [List.length_cons]
        constructor <;> omega
  · rw [addData_bad_start hb] at hraw; cases hraw

/-! ## the weight of the state in terms of the arguments of the calls -/

/-- what one `FileOptionsBuilder` setter call can add to the strings of the entry -/
def setterW : Setter → Nat
  | .user u => u.length
  | .group g => g.length
  | .symlink l => l.length
  | .caps t => strW t
  | _ => 0

def optsW (o : FileOpts) : Nat := o.user.length + o.group.length + o.symlink.length + optW o.caps

theorem optsW_new (dest : Bytes) : optsW (FileOpts.new dest) ≤ 16 := by
  show Gen.fileOptionsNewUser.length + Gen.fileOptionsNewGroup.length + Gen.fileOptionsNewSymlink.length + 0 ≤ 16
  decide

theorem Setter.apply_optsW {valid : Bytes → Bool} {s : Setter} {o o' : FileOpts} (h : s.apply valid o = .ok o') :
    optsW o' ≤ optsW o + setterW s := by
  cases s with
  | caps t =>
    simp only [Setter.apply] at h
    cases hc : capsSetter valid t with
    | ok t' =>
      rw [hc] at h; cases h
      have : t' = t := by
        rcases capsSetter_cases valid t with h1 | h1 <;> rw [h1] at hc <;> cases hc; rfl
      subst this
      simp only [optsW, optW, setterW]; omega
    | err e => rw [hc] at h; cases h
    | panic p => rw [hc] at h; cases h
  | user u => cases h; simp only [optsW, setterW]; omega
  | group g => cases h; simp only [optsW, setterW]; omega
  | symlink l => cases h; simp only [optsW, setterW]; omega
  | mode m => cases h; simp only [optsW, setterW, setMode]; omega
  | verify f => cases h; simp only [optsW, setterW]; omega
  | flag i => cases h; simp only [optsW, setterW, applySetter]; omega

theorem applySetters_optsW {valid : Bytes → Bool} {ss : List Setter} {o o' : FileOpts} (h : applySetters valid ss o = .ok o') :
    optsW o' ≤ optsW o + (ss.map setterW).sum := by
  induction ss generalizing o with
  | nil => cases h; simp
  | cons s r ih =>
    obtain ⟨o₁, h1, h2⟩ := applySetters_cons_ok h
    have := Setter.apply_optsW h1
    have := ih h2
    simp only [List.map_cons, List.sum_cons]; omega

/-- what one `with_file` call can add to the weight of the state: destination (base name and directory), the option strings,
the digest text, the per-file constant -/
def callW (c : WithFile.Call) : Nat := 2 * c.dest.length + (c.setters.map setterW).sum + 128

/-- the entry of one call and its directory weigh at most `callW` (digest texts of at most 64 characters: hex SHA-256) -/
theorem runCall_weight {sha256hex : Bytes → Bytes} {valid : Bytes → Bool} {c : WithFile.Call} {e : FileE}
    (hsha : ∀ b, (sha256hex b).length ≤ 64) (h : runCall sha256hex valid c = .ok e) : fileW e + strW e.dir ≤ callW c := by
  unfold runCall at h
  cases hs : applySetters valid c.setters (FileOpts.new c.dest) with
  | ok o =>
    rw [hs] at h
    have hw := applySetters_optsW hs
    have hn := optsW_new c.dest
    have hdest : o.destination = c.dest := applySetters_keeps_dest hs
    obtain ⟨f, cpio, dir, base, _, _, _, hadd, rfl⟩ := withFile_ok h
    rw [hdest] at hadd
    obtain ⟨hb, hd⟩ := addData_lengths hadd
    have := hsha f.content
    simp only [fileW, entryFor, strW, callW, optsW] at *
    omega
  | err x => rw [hs] at h; cases h
  | panic p => rw [hs] at h; cases h

/-- what one metadata setter call can add -/
def metaW : MetaSetter → Nat
  | .epoch _ | .sourceDate _ | .compression _ => 0
  | .release s | .url s | .vcs s | .description s | .vendor s | .packager s | .group s | .buildHost s | .cookie s => strW s
  | .changelog n e _ => strW n + strW e + 4
  | .script _ s => scriptW (some s)
  | .dep _ d => depW d

theorem depsW_snoc (l : List Dep) (d : Dep) : depsW (l ++ [d]) = depsW l + depW d := by simp [depsW]

theorem changelogW_snoc (l : List (Bytes × Bytes × Nat)) (n e : Bytes) (t : Nat) :
    changelogW (l ++ [(n, e, t)]) = changelogW l + (strW n + strW e + 4) := by simp [changelogW]

theorem cfgWeight_apply (c : Cfg) (m : MetaSetter) : cfgWeight (MetaSetter.apply c m) ≤ cfgWeight c + metaW m := by
  have e : ∀ s : Bytes, optW (some s) = strW s := fun _ => rfl
  cases m with
  | epoch n => simp only [cfgWeight, MetaSetter.apply, metaW]; omega
  | release s => simp only [cfgWeight, MetaSetter.apply, metaW]; omega
  | url s => simp only [cfgWeight, MetaSetter.apply, metaW, e]; omega
  | vcs s => simp only [cfgWeight, MetaSetter.apply, metaW, e]; omega
  | description s => simp only [cfgWeight, MetaSetter.apply, metaW, e]; omega
  | vendor s => simp only [cfgWeight, MetaSetter.apply, metaW, e]; omega
  | packager s => simp only [cfgWeight, MetaSetter.apply, metaW, e]; omega
  | group s => simp only [cfgWeight, MetaSetter.apply, metaW, e]; omega
  | buildHost s => simp only [cfgWeight, MetaSetter.apply, metaW, e]; omega
  | sourceDate t => simp only [cfgWeight, MetaSetter.apply, metaW]; omega
  | cookie s => simp only [cfgWeight, MetaSetter.apply, metaW, e]; omega
  | compression k => simp only [cfgWeight, MetaSetter.apply, metaW]; omega
  | changelog n x t => simp only [cfgWeight, MetaSetter.apply, metaW, changelogW_snoc]; omega
  | script k s =>
    rcases k with _|_|_|_|_|_|_|_|_|k <;> simp only [cfgWeight, MetaSetter.apply, metaW] <;> omega
  | dep k d =>
    rcases k with _|_|_|_|_|_|_|_|k <;> simp only [cfgWeight, MetaSetter.apply, metaW, depsW_snoc] <;> omega

/-- what one call can add to the weight of the state -/
def Call.weight : Call → Nat
  | .set m => metaW m
  | .sourceDate _ => 0
  | .changelog n e _ => strW n + strW e + 4
  | .file c => callW c

def stWeight (s : St) : Nat := cfgWeight s.base + (s.fes.map (fun p => fileW p.1)).sum + strsW s.dirs

theorem insertFE_weight (p : FileE × Bytes) (l : List (FileE × Bytes)) :
    ((insertFE p l).map (fun q => fileW q.1)).sum ≤ (l.map (fun q => fileW q.1)).sum + fileW p.1 := by
  induction l with
  | nil => simp [insertFE]
  | cons g r ih =>
    simp only [insertFE]
    split
    · omega
    · split
      · simp only [List.map_cons, List.sum_cons]; omega
      · simp only [List.map_cons, List.sum_cons]; omega

theorem insertDir_weight (d : Bytes) (l : List Bytes) : strsW (insertDir d l) ≤ strsW l + strW d := by
  induction l with
  | nil => simp [insertDir, strsW]
  | cons g r ih =>
    simp only [insertDir]
    split
    · omega
    · split
      · simp only [strsW, List.map_cons, List.sum_cons]; omega
      · simp only [strsW, List.map_cons, List.sum_cons] at ih ⊢; omega

theorem step_weight {sha256hex : Bytes → Bytes} {valid : Bytes → Bool} {s s' : St} {c : Call}
    (hsha : ∀ b, (sha256hex b).length ≤ 64) (h : step sha256hex valid s c = .ok s') : stWeight s' ≤ stWeight s + c.weight := by
  cases c with
  | set m =>
    simp only [step, Out.ok.injEq] at h; subst h
    have := cfgWeight_apply s.base m
    simp only [stWeight, Call.weight]; omega
  | sourceDate t =>
    simp only [step] at h
    cases hs : AddData.sourceDate t with
    | ok n =>
      rw [hs] at h; simp only [Out.map, Out.ok.injEq] at h; subst h
      have := cfgWeight_apply s.base (.sourceDate n)
      simp only [stWeight, Call.weight, metaW] at *; omega
    | err e => rw [hs] at h; cases h
    | panic p => rw [hs] at h; cases h
  | changelog name entry t =>
    simp only [step] at h
    cases hs : addChangelogEntry name entry t with
    | ok n =>
      rw [hs] at h; simp only [Out.map, Out.ok.injEq] at h; subst h
      have := cfgWeight_apply s.base (.changelog name entry n)
      simp only [stWeight, Call.weight, metaW] at *; omega
    | err e => rw [hs] at h; cases h
    | panic p => rw [hs] at h; cases h
  | file wc =>
    simp only [step] at h
    cases hs : runCall sha256hex valid wc with
    | ok e =>
      rw [hs] at h; simp only [Out.map, Out.ok.injEq] at h; subst h
      have h1 := runCall_weight hsha hs
      have h2 := insertFE_weight (e, srcContent wc.src) s.fes
      have h3 := insertDir_weight e.dir s.dirs
      simp only [stWeight, Call.weight] at *; omega
    | err e => rw [hs] at h; cases h
    | panic p => rw [hs] at h; cases h

theorem run_weight {sha256hex : Bytes → Bytes} {valid : Bytes → Bool} {calls : List Call} {s s' : St}
    (hsha : ∀ b, (sha256hex b).length ≤ 64) (h : run sha256hex valid calls s = .ok s') :
    stWeight s' ≤ stWeight s + (calls.map Call.weight).sum := by
  induction calls generalizing s with
  | nil => cases h; simp
  | cons c r ih =>
    obtain ⟨s1, h1, h2⟩ := run_cons_ok h
    have := step_weight hsha h1
    have := ih h2
    simp only [List.map_cons, List.sum_cons]; omega

/-- the weight of the state `prepare_data` consumes, when the metadata part carries no files of its own (`St.new`, any run) -/
theorem cfgWeight_cfg (s : St) (hf : s.base.files = []) (hd : s.base.directories = []) : cfgWeight s.cfg = stWeight s := by
  simp only [cfgWeight, St.cfg, stWeight, hf, hd, List.map_nil, List.sum_nil, strsW, List.map_map]
  have : (List.map (fileW ∘ fun x => x.fst) s.fes) = List.map (fun p => fileW p.fst) s.fes := rfl
  rw [this]; omega

theorem run_base_nofiles {sha256hex : Bytes → Bytes} {valid : Bytes → Bool} {calls : List Call} {s s' : St}
    (h : run sha256hex valid calls s = .ok s') : s'.base.files = s.base.files ∧ s'.base.directories = s.base.directories := by
  rw [run_base h]
  exact ⟨(new_args_kept _ _).2.2.2.2.2.1, (new_args_kept _ _).2.2.2.2.2.2.1⟩

theorem stWeight_new (name version license arch summary : Bytes) (dc : Bld.Comp) :
    stWeight (St.new name version license arch summary dc) = strW name + strW version + strW license + strW arch + strW summary + 2 := by
  simp only [stWeight, St.new, cfgWeight, Cfg.new, optW, depsW, scriptW, changelogW, strsW, List.map_nil, List.sum_nil]
  have : strW Gen.builderNewRelease = 2 := rfl
  omega

end RpmVerif.Build
