import RpmVerif.Model.Timestamp
import RpmVerif.Spec.Timestamp
/-! Helper lemmas for C20: each partial std / chrono operation of the model, case by case, and the
three regions of the spec. -/
namespace RpmVerif.Timestamp
open RpmVerif.TimestampSpec

theorem durationSinceEpoch_of_nonneg {t : Instant} (h : 0 ≤ t.secs) :
    durationSinceEpoch t = some ⟨t.secs.toNat, t.nanos⟩ := by
  unfold durationSinceEpoch; rw [if_pos h]

theorem durationSinceEpoch_of_neg {t : Instant} (h : t.secs < 0) : durationSinceEpoch t = none := by
  unfold durationSinceEpoch; rw [if_neg (by omega)]

theorem u32OfU64_of_lt {x : Nat} (h : x < 4294967296) : u32OfU64 x = some x := by
  unfold u32OfU64; rw [if_pos h]

theorem u32OfU64_of_ge {x : Nat} (h : 4294967296 ≤ x) : u32OfU64 x = none := by
  unfold u32OfU64; rw [if_neg (by omega)]

theorem u32OfI64_of_range {x : Int} (h0 : 0 ≤ x) (h1 : x < 4294967296) : u32OfI64 x = some x.toNat := by
  unfold u32OfI64; rw [if_pos ⟨h0, h1⟩]

theorem u32OfI64_of_ge {x : Int} (h : 4294967296 ≤ x) : u32OfI64 x = none := by
  unfold u32OfI64; rw [if_neg (by omega)]

theorem u32OfI64_of_neg {x : Int} (h : x < 0) : u32OfI64 x = none := by
  unfold u32OfI64; rw [if_neg (by omega)]

/-- `with_timezone(&Utc).timestamp()` reads the UTC seconds; the offset is gone -/
theorem timestamp_withTimezoneUtc (dt : DateTime) : dt.withTimezoneUtc.timestamp = dt.utc.secs := rfl

theorem fromChrono_unfold (dt : DateTime) : fromChrono dt =
    if dt.utc.secs < 0 then .underflow
    else match u32OfI64 dt.utc.secs with
      | none => .overflow
      | some n => .ok n := rfl

theorem fromSystemTime_of_nonneg {st : Instant} (h : 0 ≤ st.secs) :
    fromSystemTime st = match u32OfU64 st.secs.toNat with | none => .overflow | some n => .ok n := by
  unfold fromSystemTime; rw [durationSinceEpoch_of_nonneg h]; rfl

theorem fromSystemTime_of_neg {st : Instant} (h : st.secs < 0) : fromSystemTime st = .underflow := by
  unfold fromSystemTime; rw [durationSinceEpoch_of_neg h]

/-- the three regions of the spec -/
theorem expect_cases (f : Int) :
    (f < 0 ∧ expect f = .underflow) ∨
    (0 ≤ f ∧ f < 4294967296 ∧ expect f = .value f.toNat) ∨
    (4294967296 ≤ f ∧ expect f = .overflow) := by
  unfold expect
  split
  · next h0 => exact .inl ⟨h0, rfl⟩
  · next h0 =>
    split
    · next h1 => exact .inr (.inl ⟨by omega, h1, rfl⟩)
    · next h1 => exact .inr (.inr ⟨by omega, rfl⟩)

end RpmVerif.Timestamp
