import RpmVerif.Model.PrepareData
import RpmVerif.Lemmas.WithFile
import RpmVerif.Lemmas.PayloadWriter
import RpmVerif.Lemmas.BuilderSetters
/-!
# Lemmas for `Model/PrepareData.lean`: the state a call sequence leaves behind, and the partial steps of `prepare_data`
-/
namespace RpmVerif.Build
open RpmVerif.Hdr RpmVerif.Bld RpmVerif.AddData RpmVerif.WithFile RpmVerif.PWriter

/-! ## the builder state -/

theorem insertFE_map (p : FileE × Bytes) (l : List (FileE × Bytes)) :
    (insertFE p l).map (·.1) = insertFileE p.1 (l.map (·.1)) := by
  induction l with
  | nil => rfl
  | cons g r ih =>
    simp only [insertFE, insertFileE, List.map_cons]
    split
    · rfl
    · split
      · rfl
      · simp only [List.map_cons, ih]

theorem mem_insertFE {p x : FileE × Bytes} {l : List (FileE × Bytes)} (h : x ∈ insertFE p l) : x = p ∨ x ∈ l := by
  induction l with
  | nil => simp only [insertFE, List.mem_singleton] at h; exact .inl h
  | cons g r ih =>
    simp only [insertFE] at h
    split at h
    · exact .inr h
    · split at h
      · rcases List.mem_cons.mp h with rfl | h'
        · exact .inl rfl
        · exact .inr h'
      · rcases List.mem_cons.mp h with rfl | h'
        · exact .inr (by simp)
        · rcases ih h' with rfl | h''
          · exact .inl rfl
          · exact .inr (by simp [h''])

theorem insertFE_length_le (p : FileE × Bytes) (l : List (FileE × Bytes)) : (insertFE p l).length ≤ l.length + 1 := by
  induction l with
  | nil => simp [insertFE]
  | cons g r ih =>
    simp only [insertFE]
    split
    · simp
    · split
      · simp
      · simp only [List.length_cons]; omega

/-- what `prepare_data` relies on: every file's directory is registered (`position(..).unwrap()`), and `entry.size` is the
length of `entry.content` (`add_data`: `size: content.len() as u64`) -/
structure Inv (s : St) : Prop where
  dirs : ∀ p ∈ s.fes, p.1.dir ∈ s.dirs
  size : ∀ p ∈ s.fes, p.1.size = p.2.length

theorem inv_new (name version license arch summary : Bytes) (dc : Comp) : Inv (St.new name version license arch summary dc) :=
  ⟨fun _ hp => (nomatch hp), fun _ hp => (nomatch hp)⟩

theorem runCall_size {sha256hex : Bytes → Bytes} {valid : Bytes → Bool} {c : WithFile.Call} {e : FileE}
    (h : runCall sha256hex valid c = .ok e) : e.size = (srcContent c.src).length := by
  unfold runCall at h
  cases ha : applySetters valid c.setters (FileOpts.new c.dest) with
  | ok o =>
    rw [ha] at h
    obtain ⟨f, cpio, dir, base, hsrc, _, _, _, rfl⟩ := withFile_ok h
    rw [hsrc]; rfl
  | err e => rw [ha] at h; cases h
  | panic p => rw [ha] at h; cases h

/-- the effect of one call on the state -/
theorem step_ok {sha256hex : Bytes → Bytes} {valid : Bytes → Bool} {s s' : St} {c : Call} (h : step sha256hex valid s c = .ok s') :
    (∃ m, s' = { s with base := MetaSetter.apply s.base m }) ∨
    (∃ wc e, c = .file wc ∧ runCall sha256hex valid wc = .ok e ∧
      s' = { s with fes := insertFE (e, srcContent wc.src) s.fes, dirs := insertDir e.dir s.dirs }) := by
  cases c with
  | set m => simp only [step, Out.ok.injEq] at h; exact .inl ⟨m, h.symm⟩
  | sourceDate t =>
    simp only [step] at h
    cases hs : AddData.sourceDate t with
    | ok n => rw [hs] at h; simp only [Out.map, Out.ok.injEq] at h; exact .inl ⟨_, h.symm⟩
    | err e => rw [hs] at h; cases h
    | panic p => rw [hs] at h; cases h
  | changelog name entry t =>
    simp only [step] at h
    cases hs : addChangelogEntry name entry t with
    | ok n => rw [hs] at h; simp only [Out.map, Out.ok.injEq] at h; exact .inl ⟨_, h.symm⟩
    | err e => rw [hs] at h; cases h
    | panic p => rw [hs] at h; cases h
  | file wc =>
    simp only [step] at h
    cases hs : runCall sha256hex valid wc with
    | ok e => rw [hs] at h; simp only [Out.map, Out.ok.injEq] at h; exact .inr ⟨wc, e, rfl, hs, h.symm⟩
    | err e => rw [hs] at h; cases h
    | panic p => rw [hs] at h; cases h

theorem Inv.step {sha256hex : Bytes → Bytes} {valid : Bytes → Bool} {s s' : St} {c : Call} (hi : Inv s)
    (h : step sha256hex valid s c = .ok s') : Inv s' ∧ s'.fes.length ≤ s.fes.length + 1 := by
  rcases step_ok h with ⟨m, rfl⟩ | ⟨wc, e, _, hr, rfl⟩
  · exact ⟨⟨hi.dirs, hi.size⟩, by simp⟩
  · refine ⟨⟨fun p hp => ?_, fun p hp => ?_⟩, insertFE_length_le _ _⟩
    · rcases mem_insertFE hp with rfl | hp'
      · exact mem_insertDir_self _ _
      · exact mem_insertDir_of_mem (hi.dirs p hp')
    · rcases mem_insertFE hp with rfl | hp'
      · exact runCall_size hr
      · exact hi.size p hp'

theorem run_cons_ok {sha256hex : Bytes → Bytes} {valid : Bytes → Bool} {c : Call} {r : List Call} {s s' : St}
    (h : run sha256hex valid (c :: r) s = .ok s') :
    ∃ s1, step sha256hex valid s c = .ok s1 ∧ run sha256hex valid r s1 = .ok s' := by
  simp only [run] at h
  cases hc : step sha256hex valid s c with
  | ok s1 => rw [hc] at h; exact ⟨s1, rfl, h⟩
  | err e => rw [hc] at h; cases h
  | panic p => rw [hc] at h; cases h

/-- **the invariant holds after every successful call sequence**, and there are at most as many files as calls -/
theorem Inv.run {sha256hex : Bytes → Bytes} {valid : Bytes → Bool} {calls : List Call} {s s' : St} (hi : Inv s)
    (h : run sha256hex valid calls s = .ok s') : Inv s' ∧ s'.fes.length ≤ s.fes.length + calls.length := by
  induction calls generalizing s with
  | nil => cases h; exact ⟨hi, by simp⟩
  | cons c r ih =>
    obtain ⟨s1, h1, h2⟩ := run_cons_ok h
    obtain ⟨i1, l1⟩ := hi.step h1
    obtain ⟨i2, l2⟩ := ih i1 h2
    exact ⟨i2, by simp only [List.length_cons]; omega⟩

/-! ## the calls never panic, except the timestamp conversions -/

/-- the instant given to a timestamp setter is inside what a `Timestamp` holds (a `u32` always is) -/
def Call.TsOk : Call → Prop
  | .sourceDate (.src s) => 0 ≤ s.instant.floor ∧ s.instant.floor < 4294967296
  | .changelog _ _ (.src s) => 0 ≤ s.instant.floor ∧ s.instant.floor < 4294967296
  | _ => True

/-! ## the state in terms of the existing models -/

/-- the metadata setter a call amounts to (a timestamp argument after its conversion; none for a conversion that fails and
for `with_file`) -/
def metaOf : Call → Option MetaSetter
  | .set m => some m
  | .sourceDate t => (timestampSetter t).toOption.map .sourceDate
  | .changelog n e t => (timestampSetter t).toOption.map (.changelog n e)
  | .file _ => none

def fileOf : Call → Option WithFile.Call
  | .file c => some c
  | _ => none

/-- **the metadata part of the state after a successful call sequence is `Cfg.applyAll` of the metadata calls** (`with_file`
calls in between do not touch it) -/
theorem run_base {sha256hex : Bytes → Bytes} {valid : Bytes → Bool} {calls : List Call} {s s' : St}
    (h : run sha256hex valid calls s = .ok s') : s'.base = s.base.applyAll (calls.filterMap metaOf) := by
  induction calls generalizing s with
  | nil => cases h; rfl
  | cons c r ih =>
    obtain ⟨s1, h1, h2⟩ := run_cons_ok h
    rw [ih h2]
    cases c with
    | set m => simp only [step, Out.ok.injEq] at h1; subst h1; rfl
    | sourceDate t =>
      simp only [step] at h1
      cases hs : AddData.sourceDate t with
      | ok n =>
        rw [hs] at h1; simp only [Out.map, Out.ok.injEq] at h1; subst h1
        have : timestampSetter t = .ok n := hs
        simp only [List.filterMap_cons, metaOf, this, Out.toOption, Option.map_some]; rfl
      | err e => rw [hs] at h1; cases h1
      | panic p => rw [hs] at h1; cases h1
    | changelog name entry t =>
      simp only [step] at h1
      cases hs : addChangelogEntry name entry t with
      | ok n =>
        rw [hs] at h1; simp only [Out.map, Out.ok.injEq] at h1; subst h1
        have : timestampSetter t = .ok n := hs
        simp only [List.filterMap_cons, metaOf, this, Out.toOption, Option.map_some]; rfl
      | err e => rw [hs] at h1; cases h1
      | panic p => rw [hs] at h1; cases h1
    | file wc =>
      simp only [step] at h1
      cases hs : runCall sha256hex valid wc with
      | ok e => rw [hs] at h1; simp only [Out.map, Out.ok.injEq] at h1; subst h1; rfl
      | err e => rw [hs] at h1; cases h1
      | panic p => rw [hs] at h1; cases h1

/-- **the file part of the state is `WithFile.buildState` of the `with_file` calls** (the model C06's `with_file_readback`,
`readback_flags_of_setters`, `defaults_readback` are stated for) -/
theorem run_files {sha256hex : Bytes → Bytes} {valid : Bytes → Bool} {calls : List Call} {s s' : St}
    (h : run sha256hex valid calls s = .ok s') :
    buildState sha256hex valid (calls.filterMap fileOf) ⟨s.fes.map (·.1), s.dirs⟩ = .ok ⟨s'.fes.map (·.1), s'.dirs⟩ := by
  induction calls generalizing s with
  | nil => cases h; rfl
  | cons c r ih =>
    obtain ⟨s1, h1, h2⟩ := run_cons_ok h
    cases c with
    | set m => simp only [step, Out.ok.injEq] at h1; subst h1; have := ih h2; exact this
    | sourceDate t =>
      simp only [step] at h1
      cases hs : AddData.sourceDate t with
      | ok n => rw [hs] at h1; simp only [Out.map, Out.ok.injEq] at h1; subst h1; have := ih h2; exact this
      | err e => rw [hs] at h1; cases h1
      | panic p => rw [hs] at h1; cases h1
    | changelog name entry t =>
      simp only [step] at h1
      cases hs : addChangelogEntry name entry t with
      | ok n => rw [hs] at h1; simp only [Out.map, Out.ok.injEq] at h1; subst h1; have := ih h2; exact this
      | err e => rw [hs] at h1; cases h1
      | panic p => rw [hs] at h1; cases h1
    | file wc =>
      simp only [step] at h1
      cases hs : runCall sha256hex valid wc with
      | ok e =>
        rw [hs] at h1; simp only [Out.map, Out.ok.injEq] at h1; subst h1
        simp only [List.filterMap_cons, fileOf, buildState, hs]
        have := ih h2
        simp only [insertFE_map] at this
        exact this
      | err e => rw [hs] at h1; cases h1
      | panic p => rw [hs] at h1; cases h1

/-! ## the steps of `prepare_data` -/

theorem sumU64_spec (l : List Nat) (acc : Nat) (hacc : acc < 18446744073709551616) :
    (acc + l.sum < 18446744073709551616 ∧ sumU64 l acc = .ok (acc + l.sum)) ∨
    (18446744073709551616 ≤ acc + l.sum ∧ sumU64 l acc = .panic "u64-overflow") := by
  induction l generalizing acc with
  | nil =>
    simp only [List.sum_nil, Nat.add_zero, sumU64]
    exact .inl ⟨hacc, trivial⟩
  | cons x r ih =>
    simp only [sumU64, List.sum_cons]
    by_cases h : acc + x < 18446744073709551616
    · rw [if_pos h]
      rcases ih (acc + x) h with ⟨a, b⟩ | ⟨a, b⟩
      · left; exact ⟨by omega, by rw [b, Nat.add_assoc]⟩
      · right; exact ⟨by omega, b⟩
    · rw [if_neg h]; right; exact ⟨by omega, rfl⟩

theorem sink_flush_not_panic (s : Sink) : s.flush.isPanic = false := by
  unfold Sink.flush; split <;> rfl

theorem sink_writeAll_cases (s : Sink) (buf : Bytes) :
    (s.writeAll buf).1 = .ok () ∨ (s.writeAll buf).1 = .err "io" ∨ (s.writeAll buf).1 = .err "write-zero" := by
  rcases (Sink.writeAll_spec s buf).2.2.2 with ⟨h, _⟩ | ⟨h | h, _⟩
  · exact .inl h
  · exact .inr (.inl h)
  · exact .inr (.inr h)

theorem strippedW_not_panic (idx : Nat) (content : Bytes) (s : Sink) : (strippedW idx content s).1.isPanic = false := by
  unfold strippedW
  rcases h1 : s.writeAll (Cpio.strippedHeader (idx % 4294967296)) with ⟨r1, s1⟩
  have c1 := sink_writeAll_cases s (Cpio.strippedHeader (idx % 4294967296))
  rw [h1] at c1
  simp only at c1
  rcases c1 with rfl | rfl | rfl
  · simp only
    rcases h2 : s1.writeAll content with ⟨r2, s2⟩
    have c2 := sink_writeAll_cases s1 content
    rw [h2] at c2
    simp only at c2
    rcases c2 with rfl | rfl | rfl
    · simp only
      rcases h3 : s2.writeAll (Cpio.strippedDataPad content.length) with ⟨r3, s3⟩
      have c3 := sink_writeAll_cases s2 (Cpio.strippedDataPad content.length)
      rw [h3] at c3
      simp only at c3
      rcases c3 with rfl | rfl | rfl
      · exact sink_flush_not_panic s3
      · rfl
      · rfl
    · rfl
    · rfl
  · rfl
  · rfl

theorem fileLoop_not_panic (dirs : List Bytes) (large : Bool) (fes : List (FileE × Bytes)) (idx ino : Nat) (s : Sink)
    (hd : ∀ p ∈ fes, p.1.dir ∈ dirs) (hc : large = false → ∀ p ∈ fes, p.2.length < 4294967296)
    (hn : ino + fes.length < 4294967296) : (fileLoop dirs large fes idx ino s).1.isPanic = false := by
  induction fes generalizing idx ino s with
  | nil => rfl
  | cons p r ih =>
    obtain ⟨e, content⟩ := p
    have hmem : dirs.contains e.dir = true := List.contains_iff_mem.mpr (hd (e, content) (List.mem_cons_self ..))
    simp only [fileLoop, hmem, Bool.not_true, Bool.false_eq_true, if_false]
    have hw : ((if large then strippedW idx content s
        else entryW (Cpio.builderMeta 0 0 ino ⟨e.cpioPath, e.mode, content⟩) content s).1 = .ok () ∨
        ∃ x, (if large then strippedW idx content s
        else entryW (Cpio.builderMeta 0 0 ino ⟨e.cpioPath, e.mode, content⟩) content s).1 = .err x) := by
      cases large with
      | true =>
        simp only [if_true]
        have := strippedW_not_panic idx content s
        cases hr : (strippedW idx content s).1 with
        | ok u => left; rfl
        | err x => right; exact ⟨x, rfl⟩
        | panic q => rw [hr] at this; cases this
      | false =>
        simp only [Bool.false_eq_true, if_false]
        rcases (entryW_spec (Cpio.builderMeta 0 0 ino ⟨e.cpioPath, e.mode, content⟩) content s
          (hc rfl (e, content) (List.mem_cons_self ..))).2.2.2 with ⟨h, _⟩ | h | h
        · exact .inl h
        · exact .inr ⟨_, h⟩
        · exact .inr ⟨_, h⟩
    rcases hres : (if large then strippedW idx content s
        else entryW (Cpio.builderMeta 0 0 ino ⟨e.cpioPath, e.mode, content⟩) content s) with ⟨o, s'⟩
    rw [hres] at hw
    simp only at hw
    rcases hw with rfl | ⟨x, rfl⟩
    · simp only
      have hlt : ino + 1 < 4294967296 := by simp only [List.length_cons] at hn; omega
      rw [if_pos hlt]
      exact ih (idx + 1) (ino + 1) s' (fun q hq => hd q (List.mem_cons_of_mem _ hq))
        (fun hl q hq => hc hl q (List.mem_cons_of_mem _ hq)) (by simp only [List.length_cons] at hn; omega)
    · rfl

/-- what is assumed of the codec crates: constructing an encoder inside the checked level range, and finishing the stream, end
in `Ok` or `Err` (the answers to `write` / `flush` are `Ok` / `Err` by the type of `Sink`) -/
structure Env.Quiet (E : Env) : Prop where
  enc : ∀ v l, levelInRange v l = true → (E.enc v l).isPanic = false
  finish : ∀ a, (E.finish a).isPanic = false

/-- the system clock is inside what a `Timestamp` holds: 1970-01-01 .. 2106-02-07T06:28:15Z -/
def Env.ClockOk (E : Env) : Prop := 0 ≤ E.clock.secs ∧ E.clock.secs < 4294967296

theorem compressorConstruct_not_panic {enc : Nat → Int → Out Unit}
    (henc : ∀ v l, levelInRange v l = true → (enc v l).isPanic = false) (v : Nat) (l : Int) :
    (compressorConstruct enc v l).isPanic = false := by
  unfold compressorConstruct
  have hflag : Gen.levelOutOfRangeIsErr = true := by decide
  cases hr : levelInRange v l with
  | false => simp [hflag, Out.isPanic]
  | true => simpa [hflag] using henc v l hr

theorem now_ok {clock : Timestamp.Instant} (h0 : 0 ≤ clock.secs) (h1 : clock.secs < 4294967296) :
    (Timestamp.now clock).toOut = .ok clock.secs.toNat := by
  rcases fromSystemTime_cases clock with ⟨h, _⟩ | ⟨_, _, e⟩ | ⟨h, _⟩
  · omega
  · simp only [Timestamp.now, e, Timestamp.Conv.toOut]
  · omega

theorem slots_length : slots.length = 102 := by decide

theorem records_length_le (c : Cfg) (now : Nat) (a b : Bytes) : (records c now a b).length ≤ 102 := by
  unfold records recordsOf
  exact Nat.le_trans (List.length_filterMap_le _ _) (Nat.le_of_eq slots_length)

theorem fromEntriesOut_records (c : Cfg) (now : Nat) (a b : Bytes) (tag : Nat) :
    fromEntriesOut (records c now a b) tag = .ok (fromEntries (records c now a b) tag) := by
  unfold fromEntriesOut
  have := records_length_le c now a b
  rw [if_pos (by omega)]

theorem sum_map_congr {α} (l : List α) (f g : α → Nat) (h : ∀ a ∈ l, f a = g a) : (l.map f).sum = (l.map g).sum := by
  rw [List.map_congr_left h]


theorem seqS_not_panic {r : Out Unit × Sink} (h : r.1.isPanic = false) : (seqS r).isPanic = false := by
  obtain ⟨o, s⟩ := r
  cases o with
  | ok u => rfl
  | err e => rfl
  | panic p => cases h

theorem seqS_ok {r : Out Unit × Sink} {s : Sink} (h : seqS r = .ok s) : r = (.ok (), s) := by
  obtain ⟨o, s'⟩ := r
  cases o with
  | ok u => cases u; simp only [seqS, Out.ok.injEq] at h; rw [h]
  | err e => cases h
  | panic p => cases h

/-- **`prepare_data` never panics** on a state whose directories are registered and whose sizes are the content lengths,
with a clock inside 1970..2106, codecs that do not panic, fewer than 2^32 − 1 files and less than 2^64 content bytes (both
are bounds of the address space) and the large-file limit at or below `u32::MAX` (it IS `u32::MAX` without the hook) -/
theorem prepareData_not_panic (E : Env) (c : Cfg) (fes : List (FileE × Bytes)) (hq : E.Quiet) (hclock : E.ClockOk)
    (hd : ∀ p ∈ fes, p.1.dir ∈ c.directories) (hs : ∀ p ∈ fes, p.1.size = p.2.length)
    (hmem : (fes.map (·.2.length)).sum < 18446744073709551616) (hcount : fes.length < 4294967295)
    (hthr : c.largeFileThreshold ≤ 4294967295) : (prepareData E c fes).isPanic = false := by
  have hsum : (fes.map (·.1.size)).sum = (fes.map (·.2.length)).sum := sum_map_congr fes _ _ hs
  unfold prepareData
  refine Out.bind_not_panic (compressorConstruct_not_panic hq.enc _ _) (fun _ _ => ?_)
  rcases sumU64_spec (fes.map (·.1.size)) 0 (by decide) with ⟨hlt, hsu⟩ | ⟨hge, _⟩
  · rw [hsu]
    simp only [Nat.zero_add, Out.bind_ok] at hlt ⊢
    -- without the large-file format every size fits a `u32`
    have hsmall : decide ((fes.map (·.1.size)).sum > c.largeFileThreshold) = false → ∀ p ∈ fes, p.1.size < 4294967296 := by
      intro hl p hp
      have hle : ¬ (fes.map (·.1.size)).sum > c.largeFileThreshold := by simpa using hl
      have := sum_le_of_mem (List.mem_map_of_mem (f := fun q : FileE × Bytes => q.1.size) hp)
      omega
    have hloop := fileLoop_not_panic c.directories (decide ((fes.map (·.1.size)).sum > c.largeFileThreshold)) fes 0 1 E.sink hd
      (fun hl p hp => by rw [← hs p hp]; exact hsmall hl p hp) (by omega)
    refine Out.bind_not_panic (seqS_not_panic hloop) (fun s1 _ => ?_)
    have htr : (trailerW s1).1.isPanic = false := by
      rcases (trailerW_spec s1).2.2.2 with ⟨h, _⟩ | h | h <;> rw [h] <;> rfl
    refine Out.bind_not_panic (seqS_not_panic htr) (fun s2 _ => ?_)
    have hexp : (!decide ((fes.map (·.1.size)).sum > c.largeFileThreshold) && decide (4294967296 ≤ (fes.map (·.1.size)).sum)) = false := by
      cases hl : decide ((fes.map (·.1.size)).sum > c.largeFileThreshold) with
      | true => rfl
      | false =>
        have hle : ¬ (fes.map (·.1.size)).sum > c.largeFileThreshold := by simpa using hl
        simp only [Bool.not_false, Bool.true_and, decide_eq_false_iff_not]; omega
    rw [hexp]
    simp only [Bool.false_eq_true, if_false]
    rw [now_ok hclock.1 hclock.2]
    simp only [Out.bind_ok]
    have hexp2 : (!fes.isEmpty && !decide ((fes.map (·.1.size)).sum > c.largeFileThreshold) &&
        fes.any (fun p => decide (4294967296 ≤ p.1.size))) = false := by
      cases hl : decide ((fes.map (·.1.size)).sum > c.largeFileThreshold) with
      | true => simp
      | false =>
        have hsm := hsmall hl
        have h3 : fes.any (fun p => decide (4294967296 ≤ p.1.size)) = false := by
          rw [List.any_eq_false]
          intro p hp
          have := hsm p hp
          simp only [decide_eq_true_eq]; omega
        rw [h3]; simp
    rw [hexp2]
    simp only [Bool.false_eq_true, if_false]
    refine Out.bind_not_panic (hq.finish _) (fun payload _ => ?_)
    rw [fromEntriesOut_records]
    rfl
  · rw [hsum] at hge; omega

theorem fromEntriesOut_ok {recs : List (Nat × IndexData)} {tag : Nat} {h : Header} (e : fromEntriesOut recs tag = .ok h) :
    h = fromEntries recs tag := by
  unfold fromEntriesOut at e
  split at e
  · cases e; rfl
  · cases e

/-- **what an `Ok` of `prepare_data` is**: the lead of the name, the main header of the TOTAL model (`Bld.mainHeader`) for the
clock reading and the two digests, and the compressor's output -/
theorem prepareData_ok {E : Env} {c : Cfg} {fes : List (FileE × Bytes)} {r : Lead × Header × Bytes}
    (h : prepareData E c fes = .ok r) :
    ∃ now archive, (Timestamp.now E.clock).toOut = .ok now ∧ prepareArchive E c fes = some archive ∧ E.finish archive = .ok r.2.2 ∧
      r = (leadNew c.name, mainHeader c now (E.hex r.2.2) (E.hex archive), r.2.2) := by
  unfold prepareData at h
  simp only [Out.bind_eq_ok] at h
  obtain ⟨_, _, combined, hsum, s1, hs1, s2, hs2, h⟩ := h
  have harch : prepareArchive E c fes = some s2.out := by
    unfold prepareArchive
    rw [hsum]; simp only [hs1, hs2]
  split at h
  · cases h
  · simp only [Out.bind_eq_ok] at h
    obtain ⟨now, hnow, h⟩ := h
    split at h
    · cases h
    · simp only [Out.bind_eq_ok, Out.pure_eq, Out.ok.injEq] at h
      obtain ⟨payload, hfin, hdr, hh, rfl⟩ := h
      exact ⟨now, s2.out, hnow, harch, hfin, by rw [fromEntriesOut_ok hh]; rfl⟩

/-- `SignatureHeaderBuilder::build` without signatures cannot fail -/
theorem sigBuild_nil (pubAlg : Bytes → Option Nat) (b64 : Bytes → Bytes) (d : Option Bytes) :
    Sign.sigBuilderBuild pubAlg b64 [] d = .ok (signatureHeader [] d) := rfl

/-- **an `Ok` of `build()` is the package of the total model `Bld.build`** for the clock reading, the archive the compressor
accepted and the payload it returned -/
theorem build_ok {E : Env} {c : Cfg} {fes : List (FileE × Bytes)} {p : Package} (h : build E c fes = .ok p) :
    ∃ now archive, (Timestamp.now E.clock).toOut = .ok now ∧ prepareArchive E c fes = some archive ∧
      E.finish archive = .ok p.content ∧ p = Bld.build c now E.hex archive p.content := by
  unfold build at h
  simp only [Out.bind_eq_ok, Prod.exists] at h
  obtain ⟨lead, hdr, payload, hp, sig, hsig, h⟩ := h
  obtain ⟨now, archive, hnow, harch, hfin, hr⟩ := prepareData_ok hp
  rw [sigBuild_nil] at hsig
  cases hsig
  simp only [Out.pure_eq, Out.ok.injEq] at h
  subst h
  simp only [Prod.mk.injEq] at hr
  obtain ⟨rfl, rfl, _⟩ := hr
  exact ⟨now, archive, hnow, harch, hfin, rfl⟩

/-! ## the archive against C07's models -/
section archive
open RpmVerif.Cpio

/-- an all-accepting compressor: every `write` takes everything, `flush` succeeds -/
def Sink.Accepting (s : Sink) : Prop := s.script = [] ∧ s.flushFails = false

/-- the builder's files as the cpio layer sees them: key, mode word, content -/
def toFileIn (p : FileE × Bytes) : FileIn := ⟨p.1.cpioPath, p.1.mode, p.2⟩

theorem entryW_accepting (m : EntryMeta) (content : Bytes) (s : Sink) (hc : content.length < 4294967296) (ha : Sink.Accepting s) :
    entryW m content s = (.ok (), { s with out := s.out ++ writeEntry m content }) := by
  obtain ⟨h1, h2, h3, h4⟩ := entryW_spec m content s hc
  have hok := h3 ha.1 ha.2
  rcases h4 with ⟨_, hout⟩ | h | h
  · have := sink_eta (entryW m content s).2 s _ hout h1 h2 ha.1
    exact Prod.ext hok this
  · rw [hok] at h; cases h
  · rw [hok] at h; cases h

theorem trailerW_accepting (s : Sink) (ha : Sink.Accepting s) : trailerW s = (.ok (), { s with out := s.out ++ trailer }) := by
  obtain ⟨h1, h2, h3, h4⟩ := trailerW_spec s
  have hok := h3 ha.1 ha.2
  rcases h4 with ⟨_, hout⟩ | h | h
  · exact Prod.ext hok (sink_eta (trailerW s).2 s _ hout h1 h2 ha.1)
  · rw [hok] at h; cases h
  · rw [hok] at h; cases h

theorem accepting_out (s : Sink) (o : Bytes) (ha : Sink.Accepting s) : Sink.Accepting { s with out := o } := ha

theorem strippedW_accepting (idx : Nat) (content : Bytes) (s : Sink) (hi : idx < 4294967296) (ha : Sink.Accepting s) :
    strippedW idx content s = (.ok (), { s with out := s.out ++ (strippedHeader idx ++ (content ++ strippedDataPad content.length)) }) := by
  unfold strippedW
  rw [Nat.mod_eq_of_lt hi]
  rw [(Sink.writeAll_spec s _).2.2.1 ha.1]
  simp only
  rw [(Sink.writeAll_spec { s with out := s.out ++ strippedHeader idx } content).2.2.1 ha.1]
  simp only
  rw [(Sink.writeAll_spec { s with out := s.out ++ strippedHeader idx ++ content } (strippedDataPad content.length)).2.2.1 ha.1]
  simp only [Sink.flush, ha.2, Bool.false_eq_true, if_false, List.append_assoc]

/-- **the file loop of `prepare_data` into an all-accepting compressor writes exactly the entries of C07's archive models**:
standard form `Cpio.builderEntriesFrom` (inode numbers from `ino`), large form `Cpio.archiveStrippedFrom` (indices from `idx`) -/
theorem fileLoop_accepting (dirs : List Bytes) (large : Bool) (fes : List (FileE × Bytes)) (idx ino : Nat) (s : Sink)
    (hd : ∀ p ∈ fes, p.1.dir ∈ dirs) (hc : large = false → ∀ p ∈ fes, p.2.length < 4294967296)
    (hn : ino + fes.length < 4294967296) (hi : idx + fes.length ≤ 4294967296) (ha : Sink.Accepting s) :
    ∃ bytes, fileLoop dirs large fes idx ino s = (.ok (), { s with out := s.out ++ bytes }) ∧
      (large = false → bytes ++ trailer = archiveOf (builderEntriesFrom 0 0 ino (fes.map toFileIn))) ∧
      (large = true → bytes ++ trailer = archiveStrippedFrom idx ((fes.map toFileIn).map (·.content))) := by
  induction fes generalizing idx ino s with
  | nil => exact ⟨[], by simp [fileLoop], fun _ => by simp [archiveOf, builderEntriesFrom], fun _ => by simp [archiveStrippedFrom]⟩
  | cons p r ih =>
    obtain ⟨e, content⟩ := p
    have hmem : dirs.contains e.dir = true := List.contains_iff_mem.mpr (hd (e, content) (List.mem_cons_self ..))
    have hlt : ino + 1 < 4294967296 := by simp only [List.length_cons] at hn; omega
    cases large with
    | false =>
      have hw := entryW_accepting (builderMeta 0 0 ino ⟨e.cpioPath, e.mode, content⟩) content s
        (hc rfl (e, content) (List.mem_cons_self ..)) ha
      obtain ⟨bytes, h1, h2, _⟩ := ih (idx + 1) (ino + 1) { s with out := s.out ++ writeEntry (builderMeta 0 0 ino ⟨e.cpioPath, e.mode, content⟩) content }
        (fun q hq => hd q (List.mem_cons_of_mem _ hq)) (fun hl q hq => hc hl q (List.mem_cons_of_mem _ hq))
        (by simp only [List.length_cons] at hn; omega) (by simp only [List.length_cons] at hi; omega) ha
      refine ⟨writeEntry (builderMeta 0 0 ino ⟨e.cpioPath, e.mode, content⟩) content ++ bytes, ?_, (fun _ => ?_), (fun h => by cases h)⟩
      · simp only [fileLoop, hmem, Bool.not_true, Bool.false_eq_true, if_false, hw, if_pos hlt, h1, List.append_assoc]
      · simp only [List.map_cons, builderEntriesFrom, archiveOf, toFileIn, List.append_assoc]
        rw [h2 rfl]
    | true =>
      have hw := strippedW_accepting idx content s (by simp only [List.length_cons] at hi; omega) ha
      obtain ⟨bytes, h1, _, h3⟩ := ih (idx + 1) (ino + 1)
        { s with out := s.out ++ (strippedHeader idx ++ (content ++ strippedDataPad content.length)) }
        (fun q hq => hd q (List.mem_cons_of_mem _ hq)) (fun hl => by cases hl)
        (by simp only [List.length_cons] at hn; omega) (by simp only [List.length_cons] at hi; omega) ha
      refine ⟨(strippedHeader idx ++ (content ++ strippedDataPad content.length)) ++ bytes, ?_, (fun h => by cases h), (fun _ => ?_)⟩
      · simp only [fileLoop, hmem, Bool.not_true, Bool.false_eq_true, if_false, if_true, hw, if_pos hlt, h1, List.append_assoc]
      · simp only [List.map_cons, archiveStrippedFrom, toFileIn, List.append_assoc]
        rw [← h3 rfl]

/-- **the archive `prepare_data` hands to an all-accepting compressor is the archive of C07 / C09's models**: `Cpio.builderArchive`
(uid = gid = 0, inode numbers from 1) without the large-file format, `Cpio.builderArchiveLarge` with it — for a state whose
directories are registered and whose sizes are the content lengths (every state `Build.run` makes) -/
theorem prepareArchive_accepting (E : Env) (c : Cfg) (fes : List (FileE × Bytes)) (ha : Sink.Accepting E.sink) (ho : E.sink.out = [])
    (hd : ∀ p ∈ fes, p.1.dir ∈ c.directories) (hs : ∀ p ∈ fes, p.1.size = p.2.length)
    (hmem : (fes.map (·.2.length)).sum < 18446744073709551616) (hcount : fes.length < 4294967295)
    (hthr : c.largeFileThreshold ≤ 4294967295) :
    prepareArchive E c fes = some (if (fes.map (·.2.length)).sum > c.largeFileThreshold then builderArchiveLarge (fes.map toFileIn)
      else builderArchive 0 0 (fes.map toFileIn)) := by
  have hsum : (fes.map (·.1.size)).sum = (fes.map (·.2.length)).sum := sum_map_congr fes _ _ hs
  unfold prepareArchive
  rcases sumU64_spec (fes.map (·.1.size)) 0 (by decide) with ⟨_, hsu⟩ | ⟨hge, _⟩
  · rw [hsu]
    simp only [Nat.zero_add, hsum]
    have hsmall : decide ((fes.map (·.2.length)).sum > c.largeFileThreshold) = false → ∀ p ∈ fes, p.2.length < 4294967296 := by
      intro hl p hp
      have hle : ¬ (fes.map (·.2.length)).sum > c.largeFileThreshold := by simpa using hl
      have := sum_le_of_mem (List.mem_map_of_mem (f := fun q : FileE × Bytes => q.2.length) hp)
      omega
    obtain ⟨bytes, h1, h2, h3⟩ := fileLoop_accepting c.directories (decide ((fes.map (·.2.length)).sum > c.largeFileThreshold)) fes 0 1 E.sink
      hd hsmall (by omega) (by omega) ha
    rw [h1]
    simp only [seqS]
    rw [trailerW_accepting _ (accepting_out _ _ ha)]
    simp only [seqS, ho, List.nil_append]
    by_cases hl : (fes.map (·.2.length)).sum > c.largeFileThreshold
    · rw [if_pos hl, h3 (by simpa using hl)]; rfl
    · rw [if_neg hl, h2 (by simpa using hl)]; rfl
  · rw [hsum] at hge; omega


end archive

theorem build_not_panic (E : Env) (c : Cfg) (fes : List (FileE × Bytes)) (hq : E.Quiet) (hclock : E.ClockOk)
    (hd : ∀ p ∈ fes, p.1.dir ∈ c.directories) (hs : ∀ p ∈ fes, p.1.size = p.2.length)
    (hmem : (fes.map (·.2.length)).sum < 18446744073709551616) (hcount : fes.length < 4294967295)
    (hthr : c.largeFileThreshold ≤ 4294967295) : (build E c fes).isPanic = false := by
  unfold build
  refine Out.bind_not_panic (prepareData_not_panic E c fes hq hclock hd hs hmem hcount hthr) (fun r _ => ?_)
  obtain ⟨lead, hdr, payload⟩ := r
  rfl

end RpmVerif.Build
