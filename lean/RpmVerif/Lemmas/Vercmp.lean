import RpmVerif.Spec.Vercmp
/-! Helper lemmas for C13: both loops equal the lexicographic comparison of token keys. -/
set_option linter.unusedVariables false
namespace RpmVerif.Vercmp
open Std

theorem stripPfx_none_cons {c x r} : stripPfx c (x :: r) = none ↔ x ≠ c := by
  simp only [stripPfx]; split <;> simp_all

theorem key_nil {a} (h : a.dropWhile isSep = []) : key a = [(1, 0, [])] := by
  rw [key]; split <;> simp_all

theorem key_cons {a x r} (h : a.dropWhile isSep = x :: r) :
    key a =
      if x = 126 then (0, 0, []) :: key r
      else if x = 94 then (2, 0, []) :: key r
      else if isDigit x then
        (4, (((x :: r).takeWhile isDigit).dropWhile (· == 48)).length,
            ((x :: r).takeWhile isDigit).dropWhile (· == 48)) :: key ((x :: r).dropWhile isDigit)
      else (3, 0, (x :: r).takeWhile isAlpha) :: key ((x :: r).dropWhile isAlpha) := by
  rw [key]
  split
  · simp_all
  · rename_i x' r' h'
    rw [h] at h'
    cases h'
    rfl

theorem head_cases {a : List Nat} {x r} (h : a.dropWhile isSep = x :: r) :
    x = 126 ∨ x = 94 ∨ (x ≠ 126 ∧ x ≠ 94 ∧ isDigit x = true) ∨ (x ≠ 126 ∧ x ≠ 94 ∧ isDigit x = false ∧ isAlpha x = true) := by
  have hs := dw_sep_head h
  simp only [isSep] at hs
  by_cases h1 : x = 126
  · exact Or.inl h1
  by_cases h2 : x = 94
  · exact Or.inr (Or.inl h2)
  by_cases h3 : isDigit x = true
  · exact Or.inr (Or.inr (Or.inl ⟨h1, h2, h3⟩))
  · refine Or.inr (Or.inr (Or.inr ⟨h1, h2, by simpa using h3, ?_⟩))
    simp_all

theorem digit_ne {x} (h : isDigit x = true) : x ≠ 126 ∧ x ≠ 94 := by
  simp only [isDigit, Bool.and_eq_true, decide_eq_true_eq] at h; omega
theorem alpha_ne {x} (h : isAlpha x = true) : x ≠ 126 ∧ x ≠ 94 ∧ isDigit x = false := by
  simp only [isAlpha, isDigit, Bool.or_eq_true, Bool.and_eq_true, decide_eq_true_eq] at *
  refine ⟨by omega, by omega, ?_⟩
  simp; omega

@[simp] theorem cmpK_def (p q : K) : cmpK p q =
    (compare p.1 q.1).then ((compare p.2.1 q.2.1).then (compare p.2.2 q.2.2)) := rfl

theorem cmpNat_eq (a : Nat) : compare a a = .eq := Nat.compare_eq_eq.mpr rfl

theorem key_shape (a : List Nat) :
    (a.dropWhile isSep = [] ∧ key a = [(1, 0, [])]) ∨
    (∃ r, a.dropWhile isSep = 126 :: r ∧ key a = (0, 0, []) :: key r) ∨
    (∃ r, a.dropWhile isSep = 94 :: r ∧ key a = (2, 0, []) :: key r) ∨
    (∃ x r, a.dropWhile isSep = x :: r ∧ x ≠ 126 ∧ x ≠ 94 ∧ isDigit x = true ∧
        key a = (4, (((x :: r).takeWhile isDigit).dropWhile (· == 48)).length,
            ((x :: r).takeWhile isDigit).dropWhile (· == 48)) :: key ((x :: r).dropWhile isDigit)) ∨
    (∃ x r, a.dropWhile isSep = x :: r ∧ x ≠ 126 ∧ x ≠ 94 ∧ isDigit x = false ∧ isAlpha x = true ∧
        key a = (3, 0, (x :: r).takeWhile isAlpha) :: key ((x :: r).dropWhile isAlpha)) := by
  cases h : a.dropWhile isSep with
  | nil => exact Or.inl ⟨rfl, key_nil h⟩
  | cons x r =>
    have hk := key_cons h
    rcases head_cases h with h1 | h1 | ⟨h1, h2, h3⟩ | ⟨h1, h2, h3, h4⟩
    · subst h1; exact Or.inr (Or.inl ⟨r, rfl, by simpa using hk⟩)
    · subst h1; exact Or.inr (Or.inr (Or.inl ⟨r, rfl, by simpa using hk⟩))
    · exact Or.inr (Or.inr (Or.inr (Or.inl ⟨x, r, rfl, h1, h2, h3, by simpa [h1, h2, h3] using hk⟩)))
    · exact Or.inr (Or.inr (Or.inr (Or.inr ⟨x, r, rfl, h1, h2, h3, h4, by simpa [h1, h2, h3] using hk⟩)))

theorem c00 : compare (0:Nat) 0 = .eq := by decide
theorem c01 : compare (0:Nat) 1 = .lt := by decide
theorem c02 : compare (0:Nat) 2 = .lt := by decide
theorem c03 : compare (0:Nat) 3 = .lt := by decide
theorem c04 : compare (0:Nat) 4 = .lt := by decide
theorem c10 : compare (1:Nat) 0 = .gt := by decide
theorem c11 : compare (1:Nat) 1 = .eq := by decide
theorem c12 : compare (1:Nat) 2 = .lt := by decide
theorem c13 : compare (1:Nat) 3 = .lt := by decide
theorem c14 : compare (1:Nat) 4 = .lt := by decide
theorem c20 : compare (2:Nat) 0 = .gt := by decide
theorem c21 : compare (2:Nat) 1 = .gt := by decide
theorem c22 : compare (2:Nat) 2 = .eq := by decide
theorem c23 : compare (2:Nat) 3 = .lt := by decide
theorem c24 : compare (2:Nat) 4 = .lt := by decide
theorem c30 : compare (3:Nat) 0 = .gt := by decide
theorem c31 : compare (3:Nat) 1 = .gt := by decide
theorem c32 : compare (3:Nat) 2 = .gt := by decide
theorem c33 : compare (3:Nat) 3 = .eq := by decide
theorem c34 : compare (3:Nat) 4 = .lt := by decide
theorem c40 : compare (4:Nat) 0 = .gt := by decide
theorem c41 : compare (4:Nat) 1 = .gt := by decide
theorem c42 : compare (4:Nat) 2 = .gt := by decide
theorem c43 : compare (4:Nat) 3 = .gt := by decide
theorem c44 : compare (4:Nat) 4 = .eq := by decide

syntax "shape " ident ident : tactic
macro_rules
  | `(tactic| shape $a $b) => `(tactic| (
      rcases key_shape $a with ⟨ha, ka⟩ | ⟨ra', ha, ka⟩ | ⟨ra', ha, ka⟩ | ⟨xa, ra', ha, na1, na2, da, ka⟩ | ⟨xa, ra', ha, na1, na2, da, aa, ka⟩ <;>
      rcases key_shape $b with ⟨hb, kb⟩ | ⟨rb', hb, kb⟩ | ⟨rb', hb, kb⟩ | ⟨xb, rb', hb, nb1, nb2, db, kb⟩ | ⟨xb, rb', hb, nb1, nb2, db, ab, kb⟩ <;>
      simp_all [stripPfx, List.compareLex_cons_cons, List.compareLex_nil_nil, List.compareLex_cons_nil,
        List.compareLex_nil_cons, compareOn, compareLex, cmpK, c00, c01, c02, c03, c04, c10, c11, c12, c13, c14, c20, c21, c22, c23, c24, c30, c31, c32, c33, c34, c40, c41, c42, c43, c44]))

theorem key_digit {a : List Nat} {x r} (h : a.dropWhile isSep = x :: r) (hx : isDigit x = true) :
    key a = (4, (((x :: r).takeWhile isDigit).dropWhile (· == 48)).length,
            ((x :: r).takeWhile isDigit).dropWhile (· == 48)) :: key ((x :: r).dropWhile isDigit) := by
  have ⟨h1, h2⟩ := digit_ne hx
  rw [key_cons h, if_neg h1, if_neg h2, if_pos hx]

theorem key_alpha {a : List Nat} {x r} (h : a.dropWhile isSep = x :: r) (hx : isAlpha x = true) :
    key a = (3, 0, (x :: r).takeWhile isAlpha) :: key ((x :: r).dropWhile isAlpha) := by
  have ⟨h1, h2, h3⟩ := alpha_ne hx
  rw [key_cons h, if_neg h1, if_neg h2, if_neg (by simp [h3])]

theorem L_cons (p q : K) (s t : List K) :
    List.compareLex cmpK (p :: s) (q :: t) = (cmpK p q).then (List.compareLex cmpK s t) :=
  List.compareLex_cons_cons

theorem then_of_ne_eq {o x : Ordering} (h : o = .eq → False) : o.then x = o := by
  cases o <;> simp_all

theorem alpha_of_not_digit {a : List Nat} {x r} (h : a.dropWhile isSep = x :: r)
    (h1 : x ≠ 126) (h2 : x ≠ 94) (hd : ¬ isDigit x = true) :
    isAlpha x = true := by
  rcases head_cases h with e | e | ⟨_, _, e⟩ | ⟨_, _, _, e⟩
  · exact absurd e h1
  · exact absurd e h2
  · exact absurd e hd
  · exact e

theorem rust_eq_key (a b : List Nat) : rustLoop a b = keyCmp a b := by
  unfold keyCmp
  fun_induction rustLoop a b with
  | case1 a b v h1 h2 => shape a b
  | case2 a b v h1 h2 => shape a b
  | case3 a b a2 b2 h1 h2 ih => shape a b
  | case4 a b h1 h2 v h3 h4 he => shape a b
  | case5 a b h1 h2 v h3 h4 he => shape a b
  | case6 a b h1 h2 v h3 h4 he => shape a b
  | case7 a b h1 h2 v h3 h4 he => shape a b
  | case8 a b h1 h2 a2 b2 h3 h4 ih => shape a b
  | case9 a b h1 h2 h3 h4 h5 h6 => shape a b
  | case10 a b h1 h2 h3 h4 y rb h5 h6 => shape a b
  | case11 a b h1 h2 h3 h4 x ra h5 h6 => shape a b
  | case12 a b h1 h2 h3 h4 x ra y rb h5 h6 hx hy n1 n2 hc ih =>
    rw [key_digit h5 hx, key_digit h6 hy, L_cons, cmpK_def]
    simp only [c44, Ordering.eq_then]
    show _ = ((compare n1.length n2.length).then (compare n1 n2)).then _
    rw [hc]; exact ih
  | case13 a b h1 h2 h3 h4 x ra y rb h5 h6 hx hy n1 n2 hc =>
    rw [key_digit h5 hx, key_digit h6 hy, L_cons, cmpK_def]
    simp only [c44, Ordering.eq_then]
    show _ = ((compare n1.length n2.length).then (compare n1 n2)).then _
    rw [then_of_ne_eq hc]
  | case14 a b h1 h2 h3 h4 x ra y rb h5 h6 hx hy => shape a b
  | case15 a b h1 h2 h3 h4 x ra y rb h5 h6 hx hy hc ih =>
    rw [h5] at h1 h3
    have hax := alpha_of_not_digit h5 (stripPfx_none_cons.mp h1) (stripPfx_none_cons.mp h3) hx
    rw [key_alpha h5 hax, key_alpha h6 hy, L_cons, cmpK_def]
    simp only [cmpNat_eq, Ordering.eq_then]
    rw [hc]; exact ih
  | case16 a b h1 h2 h3 h4 x ra y rb h5 h6 hx hy hc =>
    rw [h5] at h1 h3
    have hax := alpha_of_not_digit h5 (stripPfx_none_cons.mp h1) (stripPfx_none_cons.mp h3) hx
    rw [key_alpha h5 hax, key_alpha h6 hy, L_cons, cmpK_def]
    simp only [cmpNat_eq, Ordering.eq_then]
    rw [then_of_ne_eq hc]
  | case17 a b h1 h2 h3 h4 x ra y rb h5 h6 hx hy => shape a b

theorem cmp_len_gt {a b : Nat} (h : a > b) : compare a b = .gt := Nat.compare_eq_gt.mpr h
theorem cmp_len_lt {a b : Nat} (h : b > a) : compare a b = .lt := Nat.compare_eq_lt.mpr h
theorem cmp_len_eq {a b : Nat} (h1 : ¬ a > b) (h2 : ¬ b > a) : compare a b = .eq :=
  Nat.compare_eq_eq.mpr (by omega)

theorem c_eq_key (a b : List Nat) : cLoop a b = keyCmp a b := by
  unfold keyCmp
  fun_induction cLoop a b with
  | case1 one two h5 h6 => shape one two
  | case2 one two rb h5 h6 => shape one two
  | case3 one two rb h5 h6 hn => shape one two
  | case4 one two y rb h5 h6 h1 h2 => shape one two
  | case5 one two ra h6 h5 => shape one two
  | case6 one two ra h6 h5 hn => shape one two
  | case7 one two x ra h5 h6 h1 h2 => shape one two
  | case8 one two x ra y rb h5 h6 h1 h2 => shape one two
  | case9 one two x ra y rb h5 h6 h1 h2 h3 => shape one two
  | case10 one two x ra y rb h5 h6 h1 h2 h3 ih =>
    have hx : x = 126 := Decidable.not_not.mp h2; have hy : y = 126 := Decidable.not_not.mp h3
    subst hx hy; clear h1 h2 h3; shape one two
  | case11 one two x ra y rb h5 h6 h0 h1 h2 => shape one two
  | case12 one two x ra y rb h5 h6 h0 h1 h2 h3 => shape one two
  | case13 one two x ra y rb h5 h6 h0 h1 h2 h3 ih =>
    have hx : x = 94 := Decidable.not_not.mp h2; have hy : y = 94 := Decidable.not_not.mp h3
    subst hx hy; clear h0 h1 h2 h3; shape one two
  | case14 one two x ra y rb h5 h6 h0 h1 hx hy n1 n2 hl =>
    rw [key_digit h5 hx, key_digit h6 hy, L_cons, cmpK_def]
    simp only [c44, Ordering.eq_then]
    show _ = ((compare n1.length n2.length).then (compare n1 n2)).then _
    rw [cmp_len_gt hl]; rfl
  | case15 one two x ra y rb h5 h6 h0 h1 hx hy n1 n2 hl1 hl =>
    rw [key_digit h5 hx, key_digit h6 hy, L_cons, cmpK_def]
    simp only [c44, Ordering.eq_then]
    show _ = ((compare n1.length n2.length).then (compare n1 n2)).then _
    rw [cmp_len_lt hl]; rfl
  | case16 one two x ra y rb h5 h6 h0 h1 hx hy n1 n2 hl1 hl2 hc ih =>
    rw [key_digit h5 hx, key_digit h6 hy, L_cons, cmpK_def]
    simp only [c44, Ordering.eq_then]
    show _ = ((compare n1.length n2.length).then (compare n1 n2)).then _
    rw [cmp_len_eq hl1 hl2]
    simp only [strcmp] at hc
    simp only [Ordering.eq_then, hc]; exact ih
  | case17 one two x ra y rb h5 h6 h0 h1 hx hy n1 n2 hl1 hl2 hc =>
    rw [key_digit h5 hx, key_digit h6 hy, L_cons, cmpK_def]
    simp only [c44, Ordering.eq_then]
    show _ = ((compare n1.length n2.length).then (compare n1 n2)).then _
    rw [cmp_len_eq hl1 hl2]
    simp only [strcmp] at hc ⊢
    simp only [Ordering.eq_then]
    rw [then_of_ne_eq hc]
  | case18 one two x ra y rb h5 h6 h0 h1 hx hy => shape one two
  | case19 one two x ra y rb h5 h6 h0 h1 hx hy hc ih =>
    have hax := alpha_of_not_digit h5 (by intro e; exact h0 (Or.inl e)) (by intro e; exact h1 (Or.inl e)) hx
    rw [key_alpha h5 hax, key_alpha h6 hy, L_cons, cmpK_def]
    simp only [cmpNat_eq, Ordering.eq_then]
    simp only [strcmp] at hc
    rw [hc]; exact ih
  | case20 one two x ra y rb h5 h6 h0 h1 hx hy hc =>
    have hax := alpha_of_not_digit h5 (by intro e; exact h0 (Or.inl e)) (by intro e; exact h1 (Or.inl e)) hx
    rw [key_alpha h5 hax, key_alpha h6 hy, L_cons, cmpK_def]
    simp only [cmpNat_eq, Ordering.eq_then]
    simp only [strcmp] at hc ⊢
    rw [then_of_ne_eq hc]
  | case21 one two x ra y rb h5 h6 h0 h1 hx hy => shape one two

end RpmVerif.Vercmp
