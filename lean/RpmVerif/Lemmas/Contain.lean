import RpmVerif.Lemmas.Fs
import RpmVerif.Spec.Extract
namespace RpmVerif.Fs
open RpmVerif.Extract

/-- a successful exact walk has passed through directories only -/
theorem walkComps_prefix_dirs (fs : Fs) (follow) (fl : Bool) : ∀ (cs : List Name) (cur : Path),
    (∀ c ∈ cs, Normal c) →
    (∀ k, 0 < k → k < cs.length → ∀ t, fs.get (cur ++ cs.take k) ≠ some (.symlink t)) →
    (fl = true → ∀ t, fs.get (cur ++ cs) ≠ some (.symlink t)) →
    ∀ q, walkComps fs follow fl cur cs = .ok q →
    ∀ k, 0 < k → k < cs.length → ∃ m, fs.get (cur ++ cs.take k) = some (.dir m) := by
  intro cs
  induction cs with
  | nil => intro cur _ _ _ q _ k hk hk2; simp at hk2
  | cons c rest ih =>
    intro cur hn hs hl q h k hk hk2
    have hc : Normal c := hn c (by simp)
    rw [walkComps_cons_normal _ _ _ _ _ _ hc] at h
    have hrest : ∀ c ∈ rest, Normal c := fun c' hc' => hn c' (by simp [hc'])
    have hs' : ∀ k, 0 < k → k < rest.length → ∀ t, fs.get ((cur ++ [c]) ++ rest.take k) ≠ some (.symlink t) := by
      intro k hk hk2 t
      have := hs (k + 1) (by omega) (by simp; omega) t
      simpa [List.append_assoc] using this
    have hl' : fl = true → ∀ t, fs.get ((cur ++ [c]) ++ rest) ≠ some (.symlink t) := by
      intro hfl t
      have := hl hfl t
      simpa [List.append_assoc] using this
    cases rest with
    | nil => simp at hk2; omega
    | cons d r =>
      cases hg : fs.get (cur ++ [c]) with
      | none => rw [hg] at h; simp at h
      | some n =>
        rw [hg] at h
        cases n with
        | dir m =>
          rcases Nat.lt_or_ge 1 k with h1 | h1
          · have := ih (cur ++ [c]) hrest hs' hl' q h (k - 1) (by omega) (by simp at hk2 ⊢; omega)
            have e : k = (k - 1) + 1 := by omega
            rw [e]
            simpa [List.append_assoc] using this
          · have : k = 1 := by omega
            subst this
            exact ⟨m, by simpa using hg⟩
        | file c0 m => simp at h
        | symlink t => exact absurd (by simpa using hg) (hs 1 (by omega) (by simp) t)

theorem resolve_prefix_dirs (fs : Fs) (fl : Bool) (cs : List Name)
    (hn : ∀ c ∈ cs, Normal c)
    (hs : ∀ k, 0 < k → k < cs.length → ∀ t, fs.get (cs.take k) ≠ some (.symlink t))
    (hl : fl = true → ∀ t, fs.get cs ≠ some (.symlink t))
    {q} (h : resolve fs fl cs = .ok q) :
    ∀ k, 0 < k → k < cs.length → ∃ m, fs.get (cs.take k) = some (.dir m) := by
  unfold resolve maxSymlinks walk at h
  have := walkComps_prefix_dirs fs (walk fs fl 39) fl cs [] hn (by simpa using hs) (by simpa using hl) q h
  simpa using this

/-- the invariant of a run of the repaired `extract`: the destination `T` and its ancestors are
directories, and everything strictly below `T` hangs in a directory -/
structure Inv (T : Path) (fs : Fs) : Prop where
  dirs : ∀ k, 0 < k → k ≤ T.length → ∃ m, fs.get (T.take k) = some (.dir m)
  tree : ∀ q n, fs.get q = some n → T <+: q → q ≠ T → ∃ m, fs.get q.dropLast = some (.dir m)

theorem dropLast_ne_self {q : Path} (h : q ≠ []) : q.dropLast ≠ q := by
  intro he
  have := congrArg List.length he
  simp at this
  have : q.length ≠ 0 := fun h0 => h (List.length_eq_zero_iff.mp h0)
  omega

/-- a node is put at `q`: a directory stays a directory, and `q` hangs in a directory -/
theorem Inv.set {T fs} (h : Inv T fs) (q : Path) (n : Node)
    (hd : ∀ m, fs.get q = some (.dir m) → n.isDir = true)
    (hp : T <+: q → q ≠ T → ∃ m, fs.get q.dropLast = some (.dir m)) : Inv T (fs.set q n) := by
  have keep : ∀ p m, fs.get p = some (.dir m) → ∃ m', (fs.set q n).get p = some (.dir m') := by
    intro p m hm
    rw [get_set]
    by_cases he : p = q
    · subst he
      have := hd m hm
      cases n with
      | dir m' => exact ⟨m', by simp⟩
      | file => simp [Node.isDir] at this
      | symlink => simp [Node.isDir] at this
    · exact ⟨m, by simp [he, hm]⟩
  refine ⟨fun k hk hk2 => ?_, fun q' n' hq' hT hne => ?_⟩
  · obtain ⟨m, hm⟩ := h.dirs k hk hk2
    exact keep _ m hm
  · rw [get_set] at hq'
    by_cases he : q' = q
    · subst he
      obtain ⟨m, hm⟩ := hp hT hne
      exact keep _ m hm
    · simp only [he, if_false] at hq'
      obtain ⟨m, hm⟩ := h.tree q' n' hq' hT hne
      exact keep _ m hm

theorem Inv.del {T fs} (h : Inv T fs) (q : Path) (n : Node) (hq : fs.get q = some n) (hd : n.isDir = false) :
    Inv T (fs.del q) := by
  have keep : ∀ p m, fs.get p = some (.dir m) → (fs.del q).get p = some (.dir m) := by
    intro p m hm
    rw [get_del]
    by_cases he : p = q
    · subst he; rw [hq] at hm; injection hm with hm; subst hm; simp [Node.isDir] at hd
    · simp [he, hm]
  refine ⟨fun k hk hk2 => ?_, fun q' n' hq' hT hne => ?_⟩
  · obtain ⟨m, hm⟩ := h.dirs k hk hk2
    exact ⟨m, keep _ m hm⟩
  · rw [get_del] at hq'
    by_cases he : q' = q
    · simp [he] at hq'
    · simp only [he, if_false] at hq'
      obtain ⟨m, hm⟩ := h.tree q' n' hq' hT hne
      exact ⟨m, keep _ m hm⟩

/-- a step of a contained run: invariant re-established, all changes logged and under `T` -/
def Good (T : Path) (fs fs' : Fs) : Prop :=
  Inv T fs' ∧ ∃ L, Ext fs fs' L ∧ ∀ q ∈ L, T <+: q

theorem Good.refl {T fs} (h : Inv T fs) : Good T fs fs := ⟨h, [], Ext.refl fs, by simp⟩

theorem Good.trans {T a b c} (h1 : Good T a b) (h2 : Good T b c) : Good T a c := by
  obtain ⟨_, L1, e1, u1⟩ := h1
  obtain ⟨i2, L2, e2, u2⟩ := h2
  refine ⟨i2, L2 ++ L1, e1.trans e2, fun q hq => ?_⟩
  rcases List.mem_append.mp hq with hq | hq
  · exact u2 q hq
  · exact u1 q hq

/-- no symbolic link appears -/
def Quiet (fs fs' : Fs) : Prop := ∀ q t, fs'.get q = some (.symlink t) → ∃ t', fs.get q = some (.symlink t')

theorem Quiet.refl (fs : Fs) : Quiet fs fs := fun _ t h => ⟨t, h⟩
theorem Quiet.trans {a b c : Fs} (h1 : Quiet a b) (h2 : Quiet b c) : Quiet a c := fun q t h => by
  obtain ⟨t', h'⟩ := h2 q t h; exact h1 q t' h'
theorem Quiet.set {fs : Fs} (q : Path) (n : Node) (hn : n.isSymlink = false) : Quiet fs (fs.set q n) := by
  intro p t h
  rw [get_set] at h
  by_cases he : p = q
  · simp only [he, if_true] at h; injection h with h; subst h; simp [Node.isSymlink] at hn
  · simp only [he, if_false] at h; exact ⟨t, h⟩
theorem Quiet.del {fs : Fs} (q : Path) : Quiet fs (fs.del q) := by
  intro p t h
  rw [get_del] at h
  by_cases he : p = q
  · simp [he] at h
  · simp only [he, if_false] at h; exact ⟨t, h⟩

/-- "no link at the first `n` proper steps below `T` towards `T ++ r`" -/
def NoLinkTo (fs : Fs) (T : Path) (r : List Name) (n : Nat) : Prop :=
  ∀ k, 0 < k → k ≤ n → ∀ t, fs.get (T ++ r.take k) ≠ some (.symlink t)

theorem NoLinkTo.quiet {fs fs' T r n} (h : NoLinkTo fs T r n) (hq : Quiet fs fs') : NoLinkTo fs' T r n := by
  intro k hk hk2 t ht
  obtain ⟨t', h'⟩ := hq _ t ht
  exact h k hk hk2 t' h'

theorem NoLinkTo.mono {fs T r n n'} (h : NoLinkTo fs T r n) (hle : n' ≤ n) : NoLinkTo fs T r n' :=
  fun k hk hk2 => h k hk (Nat.le_trans hk2 hle)

section ops
variable {T : Path} (hT : ∀ c ∈ T, Normal c) (hne : T ≠ [])
include hT hne

/-- under the invariant, a path `T ++ r` of ordinary names with no link on the way resolves to itself,
and its parent is a directory -/
theorem resolve_at {fs : Fs} (hi : Inv T fs) (fl : Bool) (r : List Name) (hr : ∀ c ∈ r, Normal c)
    (hN : NoLinkTo fs T r (r.length - 1))
    (hl : fl = true → ∀ t, fs.get (T ++ r) ≠ some (.symlink t))
    {q} (hq : resolve fs fl (T ++ r) = .ok q) :
    q = T ++ r ∧ (r ≠ [] → ∃ m, fs.get (T ++ r.dropLast) = some (.dir m)) := by
  have hn : ∀ c ∈ T ++ r, Normal c := by
    intro c hc
    rcases List.mem_append.mp hc with hc | hc
    · exact hT c hc
    · exact hr c hc
  have hs : ∀ k, 0 < k → k < (T ++ r).length → ∀ t, fs.get ((T ++ r).take k) ≠ some (.symlink t) := by
    intro k hk hk2 t ht
    by_cases hle : k ≤ T.length
    · rw [take_append_le T r k hle] at ht
      obtain ⟨m, hm⟩ := hi.dirs k hk hle
      rw [hm] at ht; cases ht
    · rw [take_append_ge T r k (by omega)] at ht
      simp only [List.length_append] at hk2
      exact hN (k - T.length) (by omega) (by omega) t ht
  refine ⟨resolve_exact fs fl (T ++ r) hn hs hl hq, fun hrne => ?_⟩
  have hT0 : 0 < T.length := by cases T with | nil => exact absurd rfl hne | cons => simp
  have hr0 : 0 < r.length := by cases r with | nil => exact absurd rfl hrne | cons => simp
  have := resolve_prefix_dirs fs fl (T ++ r) hn hs hl hq (T.length + (r.length - 1)) (by omega) (by simp; omega)
  rw [take_append_ge T r _ (by omega)] at this
  have e : T.length + (r.length - 1) - T.length = r.length - 1 := by omega
  rw [e, ← List.dropLast_eq_take] at this
  exact this

omit hT hne in
theorem parent_cond {fs : Fs} {r : List Name} (hp : r ≠ [] → ∃ m, fs.get (T ++ r.dropLast) = some (.dir m)) :
    T <+: T ++ r → T ++ r ≠ T → ∃ m, fs.get (T ++ r).dropLast = some (.dir m) := by
  intro _ hne'
  have hr : r ≠ [] := fun h => hne' (by simp [h])
  rw [List.dropLast_append_of_ne_nil hr]
  exact hp hr

theorem mkdir_good {fs fs' : Fs} (hi : Inv T fs) {r : List Name} (hr : ∀ c ∈ r, Normal c)
    (hN : NoLinkTo fs T r (r.length - 1)) (h : mkdir fs (T ++ r) = .ok fs') : Good T fs fs' ∧ Quiet fs fs' := by
  obtain ⟨q, hq, hv, rfl⟩ := mkdir_ok h
  obtain ⟨rfl, hp⟩ := resolve_at hT hne hi false r hr hN (by simp) hq
  exact ⟨⟨hi.set _ _ (fun _ _ => rfl) (parent_cond hp), [T ++ r], Ext.set _ _ _, by simp⟩, Quiet.set _ _ rfl⟩

theorem fileCreate_good {fs fs' : Fs} (hi : Inv T fs) {r : List Name} (hr : ∀ c ∈ r, Normal c)
    (hN : NoLinkTo fs T r (r.length - 1)) (hl : ∀ t, fs.get (T ++ r) ≠ some (.symlink t)) {c}
    (h : fileCreate fs (T ++ r) c = .ok fs') :
    (Good T fs fs' ∧ Quiet fs fs') ∧ ∃ m, fs'.get (T ++ r) = some (.file c m) := by
  obtain ⟨q, m, hq, rfl, hv⟩ := fileCreate_ok h
  obtain ⟨rfl, hp⟩ := resolve_at hT hne hi true r hr hN (fun _ => hl) hq
  refine ⟨⟨⟨hi.set _ _ (fun m' hm' => ?_) (parent_cond hp), [T ++ r], Ext.set _ _ _, by simp⟩, Quiet.set _ _ rfl⟩,
    m, by simp [get_set]⟩
  rcases hv with ⟨hv, _⟩ | ⟨c0, hv⟩ <;> rw [hv] at hm' <;> cases hm'

theorem setPerm_good {fs fs' : Fs} (hi : Inv T fs) {r : List Name} (hr : ∀ c ∈ r, Normal c)
    (hN : NoLinkTo fs T r (r.length - 1)) (hl : ∀ t, fs.get (T ++ r) ≠ some (.symlink t)) {p}
    (h : setPerm fs (T ++ r) p = .ok fs') : Good T fs fs' ∧ Quiet fs fs' := by
  obtain ⟨q, hq, hv⟩ := setPerm_ok h
  obtain ⟨rfl, hp⟩ := resolve_at hT hne hi true r hr hN (fun _ => hl) hq
  rcases hv with ⟨m, hv, rfl⟩ | ⟨c, m, hv, rfl⟩
  · exact ⟨⟨hi.set _ _ (fun _ _ => rfl) (parent_cond hp), [T ++ r], Ext.set _ _ _, by simp⟩, Quiet.set _ _ rfl⟩
  · refine ⟨⟨hi.set _ _ (fun m' hm' => ?_) (parent_cond hp), [T ++ r], Ext.set _ _ _, by simp⟩, Quiet.set _ _ rfl⟩
    rw [hv] at hm'; cases hm'

theorem unlink_good {fs fs' : Fs} (hi : Inv T fs) {r : List Name} (hr : ∀ c ∈ r, Normal c)
    (hN : NoLinkTo fs T r (r.length - 1)) (h : unlink fs (T ++ r) = .ok fs') :
    (Good T fs fs' ∧ Quiet fs fs') ∧ fs'.get (T ++ r) = none := by
  obtain ⟨q, n, hq, hv, hd, rfl⟩ := unlink_ok h
  obtain ⟨rfl, _⟩ := resolve_at hT hne hi false r hr hN (by simp) hq
  exact ⟨⟨⟨hi.del _ n hv hd, [T ++ r], Ext.del _ _, by simp⟩, Quiet.del _⟩, by simp [get_del]⟩

theorem symlink_good {fs fs' : Fs} (hi : Inv T fs) {r : List Name} (hr : ∀ c ∈ r, Normal c)
    (hN : NoLinkTo fs T r (r.length - 1)) {t} (h : symlink fs (T ++ r) t = .ok fs') : Good T fs fs' := by
  obtain ⟨q, hq, hv, _, rfl⟩ := symlink_ok h
  obtain ⟨rfl, hp⟩ := resolve_at hT hne hi false r hr hN (by simp) hq
  refine ⟨hi.set _ _ (fun m hm => ?_) (parent_cond hp), [T ++ r], Ext.set _ _ _, by simp⟩
  rw [hv] at hm; cases hm

theorem mkdir_T_not_enoent {fs : Fs} (hi : Inv T fs) : mkdir fs T ≠ .error .ENOENT := by
  have hres : resolve fs false T = .ok T := resolve_dirs fs false T hT (fun k hk hk2 => hi.dirs k hk hk2)
  obtain ⟨m, hm⟩ := hi.dirs T.length (by cases T with | nil => exact absurd rfl hne | cons => simp) (Nat.le_refl _)
  simp only [List.take_length] at hm
  unfold mkdir
  rw [hres]
  simp only [hm]
  intro h; cases h

omit hT hne in
theorem NoLinkTo.concat {fs : Fs} {r' : List Name} {c' : Name} {n : Nat} (h : NoLinkTo fs T (r' ++ [c']) n) (hn : n ≤ r'.length) :
    NoLinkTo fs T r' n := by
  intro k hk hk2 t ht
  have := h k hk hk2 t
  rw [List.take_append_of_le_length (by omega)] at this
  exact this ht

theorem cdaRev_good : ∀ (rev : List Name) (r : List Name) (fs fs' : Fs), rev.reverse = T ++ r → Inv T fs →
    (∀ c ∈ r, Normal c) → NoLinkTo fs T r r.length → createDirAllRev fs rev = .ok fs' → Good T fs fs' ∧ Quiet fs fs' := by
  intro rev
  induction rev with
  | nil =>
    intro r fs fs' _ hi _ _ h
    unfold createDirAllRev at h
    split at h
    · injection h with h; subst h; exact ⟨Good.refl hi, Quiet.refl _⟩
    · cases h
  | cons c rp ih =>
    intro r fs fs' hrev hi hr hl h
    have hp : NoLinkTo fs T r (r.length - 1) := hl.mono (by omega)
    unfold createDirAllRev at h
    rw [hrev] at h
    split at h
    · rename_i fs1 hm
      injection h with h; subst h
      exact mkdir_good hT hne hi hr hp hm
    · rename_i hm
      rcases List.eq_nil_or_concat r with hr0 | ⟨r', c', hr1⟩
      · subst hr0
        exfalso
        simp only [List.append_nil] at hm
        exact mkdir_T_not_enoent hT hne hi hm
      · rw [List.concat_eq_append] at hr1
        subst hr1
        have hrp : rp.reverse = T ++ r' := by
          simp only [List.reverse_cons] at hrev
          rw [← List.append_assoc] at hrev
          exact (List.append_inj' hrev rfl).1
        have hr' : ∀ c ∈ r', Normal c := fun c hc => hr c (by simp [hc])
        have hl' : NoLinkTo fs T r' r'.length := (hl.mono (by simp)).concat (Nat.le_refl _)
        split at h
        · cases h
        · rename_i fs1 h1
          obtain ⟨g1, q1⟩ := ih r' fs fs1 hrp hi hr' hl' h1
          split at h
          · rename_i fs2 h2
            injection h with h; subst h
            obtain ⟨g2, q2⟩ := mkdir_good hT hne g1.1 hr (hp.quiet q1) h2
            exact ⟨g1.trans g2, q1.trans q2⟩
          · split at h
            · injection h with h; subst h; exact ⟨g1, q1⟩
            · cases h
    · split at h
      · injection h with h; subst h; exact ⟨Good.refl hi, Quiet.refl _⟩
      · cases h

theorem createDirAll_good {fs fs' : Fs} (hi : Inv T fs) {r : List Name} (hr : ∀ c ∈ r, Normal c)
    (hl : NoLinkTo fs T r r.length) (h : createDirAll fs (T ++ r) = .ok fs') : Good T fs fs' ∧ Quiet fs fs' :=
  cdaRev_good hT hne (T ++ r).reverse r fs fs' (List.reverse_reverse _) hi hr hl h

/-- what a FAILED `create_dir_all` leaves behind is contained as well: the ancestors it created lie below `T` -/
theorem cdaLeftRev_good : ∀ (rev : List Name) (r : List Name) (fs : Fs), rev.reverse = T ++ r → Inv T fs →
    (∀ c ∈ r, Normal c) → NoLinkTo fs T r r.length →
    Good T fs (createDirAllLeftRev fs rev) ∧ Quiet fs (createDirAllLeftRev fs rev) := by
  intro rev
  induction rev with
  | nil => intro r fs _ hi _ _; exact ⟨Good.refl hi, Quiet.refl _⟩
  | cons c rp ih =>
    intro r fs hrev hi hr hl
    unfold createDirAllLeftRev
    rw [hrev]
    split
    · rename_i hm
      rcases List.eq_nil_or_concat r with hr0 | ⟨r', c', hr1⟩
      · subst hr0
        exfalso
        simp only [List.append_nil] at hm
        exact mkdir_T_not_enoent hT hne hi hm
      · rw [List.concat_eq_append] at hr1
        subst hr1
        have hrp : rp.reverse = T ++ r' := by
          simp only [List.reverse_cons] at hrev
          rw [← List.append_assoc] at hrev
          exact (List.append_inj' hrev rfl).1
        have hr' : ∀ c ∈ r', Normal c := fun c hc => hr c (by simp [hc])
        have hl' : NoLinkTo fs T r' r'.length := (hl.mono (by simp)).concat (Nat.le_refl _)
        split
        · exact ih r' fs hrp hi hr' hl'
        · rename_i fs1 h1
          exact cdaRev_good hT hne rp r' fs fs1 hrp hi hr' hl' h1
    · exact ⟨Good.refl hi, Quiet.refl _⟩

theorem createDirAllLeft_good {fs : Fs} (hi : Inv T fs) {r : List Name} (hr : ∀ c ∈ r, Normal c)
    (hl : NoLinkTo fs T r r.length) : Good T fs (createDirAllLeft fs (T ++ r)) ∧ Quiet fs (createDirAllLeft fs (T ++ r)) :=
  cdaLeftRev_good hT hne (T ++ r).reverse r fs (List.reverse_reverse _) hi hr hl

end ops
end RpmVerif.Fs
