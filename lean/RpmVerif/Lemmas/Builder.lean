import RpmVerif.Lemmas.FromEntries
import RpmVerif.Model.Builder
import RpmVerif.Model.Getters
/-! Lemmas about the builder: looking a tag up in a `from_entries` header returns the record's data;
the tags `prepare_data` emits are pairwise distinct. -/
namespace RpmVerif.Bld
open RpmVerif.Hdr RpmVerif.Gen

/-- in a list whose keys are pairwise distinct, `find?` by key returns the element that carries it -/
theorem find_of_nodup_keys {α} (key : α → Nat) (l : List α) (hn : (l.map key).Nodup) {x : α} (hx : x ∈ l) :
    l.find? (fun y => key y == key x) = some x := by
  induction l with
  | nil => cases hx
  | cons y ys ih =>
    simp only [List.map_cons, List.nodup_cons] at hn
    simp only [List.find?_cons]
    rcases List.mem_cons.mp hx with rfl | hm
    · simp only [beq_self_eq_true]
    · have hne : key y ≠ key x := by
        intro e; exact hn.1 (e ▸ List.mem_map_of_mem hm)
      have hb : (key y == key x) = false := by simpa using hne
      simp only [hb]
      exact ih hn.2 hm

/-- **lookup in a `from_entries` header**: with pairwise distinct tags (none equal to the region tag),
the first entry carrying a record's tag holds that record's data -/
theorem fromEntries_find {recs : List (Nat × IndexData)} {rt : Nat}
    (hn : (recs.map (·.1)).Nodup) (hrt : ∀ r ∈ recs, r.1 ≠ rt) {t : Nat} {d : IndexData} (hm : (t, d) ∈ recs) :
    ∃ e, (fromEntries recs rt).entries.find? (fun e => e.tag == t) = some e ∧ e.tag = t ∧ e.data = d := by
  simp only [fromEntries]
  generalize hs : recs.mergeSort (fun a b => decide (a.1 ≤ b.1)) = sorted
  have hperm : sorted.Perm recs := by rw [← hs]; exact List.mergeSort_perm recs _
  have htags := layout_tags sorted []
  have hm' : (t, d) ∈ sorted := hperm.mem_iff.mpr hm
  -- the laid-out entry for (t, d)
  have : (t, d) ∈ (layout sorted []).1.map (fun e => (e.tag, e.data)) := by rw [htags]; exact hm'
  obtain ⟨e, he, hed⟩ := List.mem_map.mp this
  simp only [Prod.mk.injEq] at hed
  obtain ⟨h1, h2⟩ := hed
  have hnod : ((layout sorted []).1.map (·.tag)).Nodup := by
    have e1 : (layout sorted []).1.map (·.tag) = sorted.map (·.1) := by
      conv => rhs; rw [← htags]
      rw [List.map_map]; rfl
    rw [e1]
    exact (hperm.map _).nodup_iff.mpr hn
  have hf := find_of_nodup_keys (fun e : Entry => e.tag) _ hnod he
  simp only [h1] at hf
  refine ⟨e, ?_, h1, h2⟩
  have hne : rt ≠ t := fun e => hrt _ hm e.symm
  have hb : (rt == t) = false := by simpa using hne
  simp only [List.find?_cons, hb]
  exact hf

/-- a typed getter on a `from_entries` header returns the projection of the record's data -/
theorem fromEntries_get {α} (proj : IndexData → Option α) {recs : List (Nat × IndexData)} {rt : Nat}
    (hn : (recs.map (·.1)).Nodup) (hrt : ∀ r ∈ recs, r.1 ≠ rt) {t : Nat} {d : IndexData} (hm : (t, d) ∈ recs) {a : α}
    (hp : proj d = some a) : getWith proj (fromEntries recs rt) t = .ok a := by
  obtain ⟨e, hf, _, hd⟩ := fromEntries_find hn hrt hm
  exact getWith_eq_ok.mpr ⟨e, hf, by rw [hd]; exact hp⟩

/-- a tag that no record carries is reported absent (`TagNotFound`) -/
theorem fromEntries_absent {α} (proj : IndexData → Option α) {recs : List (Nat × IndexData)} {rt t : Nat}
    (hrt : rt ≠ t) (hn : ∀ r ∈ recs, r.1 ≠ t) : getWith proj (fromEntries recs rt) t = .err "notfound" := by
  unfold getWith findEntry
  have : (fromEntries recs rt).entries.find? (fun e => e.tag == t) = none := by
    rw [List.find?_eq_none]
    intro e he
    simp only [fromEntries, List.mem_cons] at he
    rcases he with rfl | he
    · simpa using hrt
    · have : (e.tag, e.data) ∈ recs.mergeSort (fun a b => decide (a.1 ≤ b.1)) := by
        have hl := layout_tags (recs.mergeSort (fun a b => decide (a.1 ≤ b.1))) []
        have hmm := List.mem_map_of_mem (f := fun e => (e.tag, e.data)) he
        rw [hl] at hmm; exact hmm
      have := hn _ (List.mem_mergeSort.mp this)
      simpa using this
  rw [this]; rfl

end RpmVerif.Bld
