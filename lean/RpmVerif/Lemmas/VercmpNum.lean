import RpmVerif.Lemmas.Vercmp
/-!
# Digit strings under the version comparison: numeric order (AUDIT2 c41)

rpm's EVR comparison runs `rpmvercmp` on the epoch TEXTS; rpm itself only ever has all-digit epochs, for which the property
says "compares epoch (empty meaning 0)" — numerically. This file proves that on all-digit strings the token-key order IS the
order of the decimal values: leading zeros are dropped, then more digits win, then the digits decide.
-/
set_option linter.unusedVariables false
namespace RpmVerif.Vercmp
open Std

/-- every character is an ASCII digit -/
def AllDigits (d : Str) : Prop := ∀ c ∈ d, isDigit c = true
instance (d : Str) : Decidable (AllDigits d) := by unfold AllDigits; exact inferInstance

/-- big-endian decimal value on top of an accumulator -/
def decAccL (d : Str) (acc : Nat) : Nat :=
  match d with
  | [] => acc
  | c :: r => decAccL r (acc * 10 + (c - 48))
def decAcc (acc : Nat) (d : Str) : Nat := decAccL d acc
/-- the decimal value of a digit string (0 for the empty string) -/
def decVal (d : Str) : Nat := decAcc 0 d

theorem decAcc_cons (a x : Nat) (r : Str) : decAcc a (x :: r) = decAcc (a * 10 + (x - 48)) r := by
  unfold decAcc; rw [decAccL]
theorem decAcc_nil (a : Nat) : decAcc a [] = a := by unfold decAcc; rw [decAccL]

theorem isDigit_iff {x : Nat} : isDigit x = true ↔ 48 ≤ x ∧ x ≤ 57 := by
  simp [isDigit]

theorem allDigits_tail {x : Nat} {r : Str} (h : AllDigits (x :: r)) : isDigit x = true ∧ AllDigits r :=
  ⟨h x (by simp), fun c hc => h c (List.mem_cons_of_mem _ hc)⟩

theorem then_assoc (a b c : Ordering) : (a.then b).then c = a.then (b.then c) := by
  cases a <;> rfl

theorem compare_step (a1 a2 x y : Nat) (hx : x < 10) (hy : y < 10) :
    compare (a1 * 10 + x) (a2 * 10 + y) = (compare a1 a2).then (compare x y) := by
  rcases Nat.lt_trichotomy a1 a2 with h | h | h
  · rw [Nat.compare_eq_lt.mpr h, Nat.compare_eq_lt.mpr (by omega)]; rfl
  · subst h
    rw [Nat.compare_eq_eq.mpr rfl]
    rcases Nat.lt_trichotomy x y with g | g | g
    · rw [Nat.compare_eq_lt.mpr g, Nat.compare_eq_lt.mpr (by omega)]; rfl
    · subst g; rw [Nat.compare_eq_eq.mpr rfl, Nat.compare_eq_eq.mpr rfl]; rfl
    · rw [Nat.compare_eq_gt.mpr g, Nat.compare_eq_gt.mpr (by omega)]; rfl
  · rw [Nat.compare_eq_gt.mpr h, Nat.compare_eq_gt.mpr (by omega)]; rfl

theorem compare_digit (x y : Nat) (hx : 48 ≤ x) (hy : 48 ≤ y) : compare (x - 48) (y - 48) = compare x y := by
  rcases Nat.lt_trichotomy x y with g | g | g
  · rw [Nat.compare_eq_lt.mpr g, Nat.compare_eq_lt.mpr (by omega)]
  · subst g; rw [Nat.compare_eq_eq.mpr rfl, Nat.compare_eq_eq.mpr rfl]
  · rw [Nat.compare_eq_gt.mpr g, Nat.compare_eq_gt.mpr (by omega)]

/-- digit strings of the same length: the values compare like (accumulators, then the strings lexicographically) -/
theorem compare_decAcc_same_len (l1 l2 : Str) (h1 : AllDigits l1) (h2 : AllDigits l2) (hl : l1.length = l2.length)
    (a1 a2 : Nat) : compare (decAcc a1 l1) (decAcc a2 l2) = (compare a1 a2).then (compare l1 l2) := by
  induction l1 generalizing l2 a1 a2 with
  | nil =>
    cases l2 with
    | nil =>
      simp only [decAcc_nil, List.compare_nil_nil]
      cases compare a1 a2 <;> rfl
    | cons y s => simp at hl
  | cons x r ih =>
    cases l2 with
    | nil => simp at hl
    | cons y s =>
      obtain ⟨dx, hr⟩ := allDigits_tail h1
      obtain ⟨dy, hs⟩ := allDigits_tail h2
      rw [isDigit_iff] at dx dy
      rw [decAcc_cons, decAcc_cons, ih s hr hs (by simpa using hl), compare_step _ _ _ _ (by omega) (by omega),
        compare_digit x y dx.1 dy.1, List.compare_cons_cons, then_assoc]

theorem decAcc_lower (l : Str) (a : Nat) : a * 10 ^ l.length ≤ decAcc a l := by
  induction l generalizing a with
  | nil => simp [decAcc_nil]
  | cons x r ih =>
    rw [decAcc_cons, List.length_cons, Nat.pow_succ]
    refine Nat.le_trans ?_ (ih _)
    have : a * (10 ^ r.length * 10) = (a * 10) * 10 ^ r.length := by
      rw [Nat.mul_comm (10 ^ r.length) 10, Nat.mul_assoc]
    rw [this]
    exact Nat.mul_le_mul_right _ (Nat.le_add_right _ _)

theorem decAcc_upper (l : Str) (h : AllDigits l) (a : Nat) : decAcc a l < (a + 1) * 10 ^ l.length := by
  induction l generalizing a with
  | nil => simp [decAcc_nil]
  | cons x r ih =>
    obtain ⟨dx, hr⟩ := allDigits_tail h
    rw [isDigit_iff] at dx
    rw [decAcc_cons, List.length_cons, Nat.pow_succ]
    refine Nat.lt_of_lt_of_le (ih hr _) ?_
    have : (a + 1) * (10 ^ r.length * 10) = ((a + 1) * 10) * 10 ^ r.length := by
      rw [Nat.mul_comm (10 ^ r.length) 10, Nat.mul_assoc]
    rw [this]
    exact Nat.mul_le_mul_right _ (by omega)

/-- no leading zero -/
def NoLeadZero (l : Str) : Prop := ∀ x r, l = x :: r → x ≠ 48

/-- a shorter digit string without leading zero is the smaller number -/
theorem decVal_lt_of_shorter (n1 n2 : Str) (h1 : AllDigits n1) (h2 : AllDigits n2) (z2 : NoLeadZero n2)
    (hl : n1.length < n2.length) : decVal n1 < decVal n2 := by
  cases n2 with
  | nil => simp at hl
  | cons y s =>
    obtain ⟨dy, hs⟩ := allDigits_tail h2
    rw [isDigit_iff] at dy
    have hy : y ≠ 48 := z2 y s rfl
    have up := decAcc_upper n1 h1 0
    have lo := decAcc_lower s (0 * 10 + (y - 48))
    simp only [decVal, decAcc_cons]
    have hp : 10 ^ n1.length ≤ 10 ^ s.length := Nat.pow_le_pow_right (by decide) (by simpa using Nat.lt_succ_iff.mp hl)
    have h1' : 1 * 10 ^ s.length ≤ (0 * 10 + (y - 48)) * 10 ^ s.length := Nat.mul_le_mul_right _ (by omega)
    simp only [Nat.zero_add, Nat.one_mul] at up h1'
    omega

/-- the numeric token order — more digits win, then the digits decide — is the order of the values -/
theorem numTok_compare (n1 n2 : Str) (h1 : AllDigits n1) (h2 : AllDigits n2) (z1 : NoLeadZero n1) (z2 : NoLeadZero n2) :
    (compare n1.length n2.length).then (compare n1 n2) = compare (decVal n1) (decVal n2) := by
  rcases Nat.lt_trichotomy n1.length n2.length with h | h | h
  · rw [Nat.compare_eq_lt.mpr h, Nat.compare_eq_lt.mpr (decVal_lt_of_shorter n1 n2 h1 h2 z2 h)]; rfl
  · rw [Nat.compare_eq_eq.mpr h]
    have := compare_decAcc_same_len n1 n2 h1 h2 h 0 0
    rw [Nat.compare_eq_eq.mpr rfl] at this
    exact this.symm
  · rw [Nat.compare_eq_gt.mpr h, Nat.compare_eq_gt.mpr (decVal_lt_of_shorter n2 n1 h2 h1 z1 h)]; rfl

/-- dropping leading zeros: the value stays, what remains has no leading zero and only digits -/
theorem strip_props (d : Str) (h : AllDigits d) :
    decVal (d.dropWhile (· == 48)) = decVal d ∧ AllDigits (d.dropWhile (· == 48)) ∧ NoLeadZero (d.dropWhile (· == 48)) := by
  induction d with
  | nil => exact ⟨rfl, h, by intro x r e; cases e⟩
  | cons x r ih =>
    obtain ⟨dx, hr⟩ := allDigits_tail h
    by_cases hx : x = 48
    · subst hx
      have e : (48 :: r).dropWhile (· == 48) = r.dropWhile (· == 48) := by simp
      rw [e]
      obtain ⟨v, a, z⟩ := ih hr
      exact ⟨by rw [v]; rfl, a, z⟩
    · have e : (x :: r).dropWhile (· == 48) = x :: r := by simp [hx]
      rw [e]
      exact ⟨rfl, h, by intro y s e'; cases e'; exact hx⟩

/-- the token key of a non-empty all-digit string: one numeric token (zeros stripped), then the end marker -/
theorem key_digits (x : Nat) (r : Str) (h : AllDigits (x :: r)) :
    key (x :: r) = [(4, ((x :: r).dropWhile (· == 48)).length, (x :: r).dropWhile (· == 48)), (1, 0, [])] := by
  obtain ⟨dx, hr⟩ := allDigits_tail h
  have tw : ∀ l : Str, AllDigits l → l.takeWhile isDigit = l ∧ l.dropWhile isDigit = [] := by
    intro l hl
    induction l with
    | nil => exact ⟨rfl, rfl⟩
    | cons y s ih =>
      obtain ⟨dy, hs⟩ := allDigits_tail hl
      obtain ⟨a, b⟩ := ih hs
      exact ⟨by rw [List.takeWhile_cons, if_pos dy, a], by rw [List.dropWhile_cons, if_pos dy, b]⟩
  have hsep : isSep x = false := by simp [isSep, dx]
  have hdw : (x :: r).dropWhile isSep = x :: r := by rw [List.dropWhile_cons]; simp [hsep]
  obtain ⟨n1, n2⟩ := digit_ne dx
  rw [key_cons hdw, if_neg n1, if_neg n2, if_pos dx, (tw _ h).1, (tw _ h).2, key_nil (by rfl)]

/-- **numeric order on digit strings**: two non-empty all-digit strings compare (under the token-key order, hence under
`compare_version_string` and `rpmvercmp`) exactly as their decimal values — `00` = `0`, `007` < `10`, 2⁶⁴ > 2⁶⁴ − 1. -/
theorem keyCmp_digits (a b : Str) (ha : AllDigits a) (hb : AllDigits b) (na : a ≠ []) (nb : b ≠ []) :
    keyCmp a b = compare (decVal a) (decVal b) := by
  cases a with
  | nil => exact absurd rfl na
  | cons x r =>
    cases b with
    | nil => exact absurd rfl nb
    | cons y s =>
      obtain ⟨va, da, za⟩ := strip_props _ ha
      obtain ⟨vb, db, zb⟩ := strip_props _ hb
      unfold keyCmp
      rw [key_digits x r ha, key_digits y s hb, List.compareLex_cons_cons, List.compareLex_cons_cons,
        List.compareLex_nil_nil, cmpK_def, cmpK_def]
      simp only [c44, c11, c00, Ordering.then, List.compare_nil_nil]
      have := numTok_compare _ _ da db za zb
      rw [va, vb] at this
      rw [← this]
      cases compare ((x :: r).dropWhile (· == 48)).length ((y :: s).dropWhile (· == 48)).length <;>
        cases compare ((x :: r).dropWhile (· == 48)) ((y :: s).dropWhile (· == 48)) <;> rfl

end RpmVerif.Vercmp
