import RpmVerif.Model.Path
/-! Helper lemmas for C17: pieces of a path (`splitSep` / `joinSep`), trimming of trivial pieces. -/
namespace RpmVerif.Path

/-! ## `splitSep` / `joinSep` -/

theorem splitSep_ne_nil (p : Bytes) : splitSep p ≠ [] := by
  cases p with
  | nil => simp [splitSep]
  | cons b r => unfold splitSep; split <;> simp

theorem splitSep_eq_cons (p : Bytes) : splitSep p = (splitSep p).headD [] :: (splitSep p).tail := by
  have := splitSep_ne_nil p
  cases h : splitSep p with
  | nil => exact absurd h this
  | cons a t => rfl

theorem splitSep_nil : splitSep [] = [[]] := rfl

theorem splitSep_cons_sep (r : Bytes) : splitSep (47 :: r) = [] :: splitSep r := by
  simp [splitSep]

theorem splitSep_cons_ne {b : UInt8} (h : b ≠ 47) (r : Bytes) :
    splitSep (b :: r) = (b :: (splitSep r).headD []) :: (splitSep r).tail := by
  simp [splitSep, h]

theorem joinSep_cons_cons (s x : Bytes) (t : List Bytes) :
    joinSep (s :: x :: t) = s ++ 47 :: joinSep (x :: t) := by
  simp [joinSep]

theorem joinSep_splitSep (p : Bytes) : joinSep (splitSep p) = p := by
  induction p with
  | nil => rfl
  | cons b r ih =>
    by_cases hb : b = 47
    · subst hb
      rw [splitSep_cons_sep, splitSep_eq_cons r, joinSep_cons_cons, ← splitSep_eq_cons r, ih]; rfl
    · rw [splitSep_cons_ne hb]
      rw [splitSep_eq_cons r] at ih
      simp only [joinSep, List.cons_append] at ih ⊢
      rw [ih]

theorem splitSep_append_sep (a b : Bytes) : splitSep (a ++ 47 :: b) = splitSep a ++ splitSep b := by
  induction a with
  | nil => rw [List.nil_append, splitSep_cons_sep]; rfl
  | cons x a ih =>
    by_cases hx : x = 47
    · subst hx
      rw [List.cons_append, splitSep_cons_sep, splitSep_cons_sep, ih]; rfl
    · rw [List.cons_append, splitSep_cons_ne hx, splitSep_cons_ne hx, ih]
      rw [splitSep_eq_cons a]
      simp

theorem splitSep_noSep {s : Bytes} (h : (47 : UInt8) ∉ s) : splitSep s = [s] := by
  induction s with
  | nil => rfl
  | cons b r ih =>
    have hb : b ≠ 47 := fun e => h (by simp [e])
    have hr : (47 : UInt8) ∉ r := fun e => h (by simp [e])
    rw [splitSep_cons_ne hb, ih hr]; rfl

theorem noSep_of_mem_splitSep {p s : Bytes} (h : s ∈ splitSep p) : (47 : UInt8) ∉ s := by
  induction p generalizing s with
  | nil => simp [splitSep] at h; subst h; simp
  | cons b r ih =>
    by_cases hb : b = 47
    · subst hb
      rw [splitSep_cons_sep] at h
      rcases List.mem_cons.mp h with rfl | h
      · simp
      · exact ih h
    · rw [splitSep_cons_ne hb] at h
      have hc := splitSep_eq_cons r
      rcases List.mem_cons.mp h with rfl | h
      · have : (splitSep r).headD [] ∈ splitSep r := by rw [hc]; simp
        have := ih this
        intro hm
        rcases List.mem_cons.mp hm with e | hm
        · exact hb e.symm
        · exact this hm
      · exact ih (by rw [hc]; exact List.mem_cons_of_mem _ h)

/-- the text of `a ++ s :: b` when `a` is not empty -/
theorem joinSep_append_cons {a : List Bytes} (ha : a ≠ []) (s : Bytes) (b : List Bytes) :
    joinSep (a ++ s :: b) = joinSep a ++ 47 :: joinSep (s :: b) := by
  cases a with
  | nil => exact absurd rfl ha
  | cons a0 a' => simp [joinSep, List.flatMap_append]

theorem splitSep_joinSep {l : List Bytes} (hl : l ≠ []) (h : ∀ s ∈ l, (47 : UInt8) ∉ s) :
    splitSep (joinSep l) = l := by
  induction l with
  | nil => exact absurd rfl hl
  | cons s t ih =>
    cases t with
    | nil => simp only [joinSep, List.flatMap_nil, List.append_nil]; exact splitSep_noSep (h s (by simp))
    | cons x t' =>
      rw [joinSep_cons_cons, splitSep_append_sep, splitSep_noSep (h s (by simp)),
        ih (by simp) (fun y hy => h y (List.mem_cons_of_mem _ hy))]
      rfl

/-! ## generic list facts about `dropWhile` from the right -/
section generic
variable {α : Type}

theorem dropWhile_cons_head_false {p : α → Bool} {l : List α} {x : α} {r : List α}
    (h : l.dropWhile p = x :: r) : p x = false := by
  induction l with
  | nil => simp at h
  | cons a t ih =>
    rw [List.dropWhile_cons] at h
    split at h
    · exact ih h
    · next hp => simp only [List.cons.injEq] at h; rw [← h.1]; simpa using hp

theorem reverse_dropWhile_decomp (p : α → Bool) (l : List α) :
    ∃ post, l = (l.reverse.dropWhile p).reverse ++ post ∧ ∀ y ∈ post, p y = true := by
  refine ⟨(l.reverse.takeWhile p).reverse, ?_, ?_⟩
  · have := List.takeWhile_append_dropWhile (p := p) (l := l.reverse)
    have h2 := congrArg List.reverse this
    rw [List.reverse_append, List.reverse_reverse] at h2
    exact h2.symm
  · intro y hy
    have hall := List.all_takeWhile (p := p) (l := l.reverse)
    rw [List.all_eq_true] at hall
    exact hall y (List.mem_reverse.mp hy)

theorem filter_dropWhile_of_imp {p q : α → Bool} (hpq : ∀ x, p x = true → q x = false) (l : List α) :
    (l.dropWhile p).filter q = l.filter q := by
  induction l with
  | nil => rfl
  | cons a t ih =>
    rw [List.dropWhile_cons]
    split
    · next hp => rw [ih, List.filter_cons, hpq a hp]; simp
    · rfl

theorem dropWhile_eq_nil_of_all {p : α → Bool} {l : List α} (h : ∀ x ∈ l, p x = true) : l.dropWhile p = [] := by
  induction l with
  | nil => rfl
  | cons a t ih =>
    rw [List.dropWhile_cons, if_pos (h a (by simp))]
    exact ih (fun x hx => h x (List.mem_cons_of_mem _ hx))

theorem dropWhile_eq_self_of_head {p : α → Bool} {a : α} {t : List α} (h : p a = false) :
    (a :: t).dropWhile p = a :: t := by
  rw [List.dropWhile_cons, if_neg (by simp [h])]

end generic

/-! ## trimming and the name parts -/

theorem isTriv_nil : isTriv [] = true := rfl
theorem isTriv_dot : isTriv [46] = true := rfl
theorem isTriv_iff (s : Bytes) : isTriv s = true ↔ s = [] ∨ s = [46] := by
  cases s with
  | nil => simp [isTriv]
  | cons a t => simp [isTriv]

/-- what the backward iterator finds: nothing but trivial pieces, or a last real piece `s` with
only trivial pieces `post` behind it -/
theorem trimTriv_reverse_cases (S : List Bytes) :
    (trimTriv S.reverse = [] ∧ ∀ s ∈ S, isTriv s = true) ∨
    (∃ s rest post, trimTriv S.reverse = s :: rest ∧ S = rest.reverse ++ s :: post ∧
      isTriv s = false ∧ ∀ y ∈ post, isTriv y = true) := by
  obtain ⟨post, hS, hpost⟩ := reverse_dropWhile_decomp isTriv S
  cases h : trimTriv S.reverse with
  | nil =>
    left
    refine ⟨rfl, ?_⟩
    have h' : S.reverse.dropWhile isTriv = [] := h
    rw [h'] at hS
    simp only [List.reverse_nil, List.nil_append] at hS
    rw [hS]; exact hpost
  | cons s rest =>
    right
    have h' : S.reverse.dropWhile isTriv = s :: rest := h
    refine ⟨s, rest, post, rfl, ?_, dropWhile_cons_head_false h', hpost⟩
    rw [h'] at hS
    simpa using hS

/-- trimming from the right keeps a prefix -/
theorem trimTriv_reverse_prefix (l : List Bytes) :
    ∃ post, l = (trimTriv l.reverse).reverse ++ post ∧ ∀ y ∈ post, isTriv y = true :=
  reverse_dropWhile_decomp isTriv l

theorem nameParts_trimTriv (l : List Bytes) : nameParts (trimTriv l) = nameParts l :=
  filter_dropWhile_of_imp (fun x hx => by simp [hx]) l

theorem nameParts_reverse (l : List Bytes) : nameParts l.reverse = (nameParts l).reverse := by
  simp [nameParts, List.filter_reverse]

theorem nameParts_append (a b : List Bytes) : nameParts (a ++ b) = nameParts a ++ nameParts b := by
  simp [nameParts]

theorem nameParts_of_all_triv {l : List Bytes} (h : ∀ y ∈ l, isTriv y = true) : nameParts l = [] := by
  simp only [nameParts, List.filter_eq_nil_iff]
  intro y hy; simp [h y hy]

theorem nameParts_cons_triv {s : Bytes} (h : isTriv s = true) (l : List Bytes) :
    nameParts (s :: l) = nameParts l := by
  simp [nameParts, h]

theorem nameParts_cons_real {s : Bytes} (h : isTriv s = false) (l : List Bytes) :
    nameParts (s :: l) = s :: nameParts l := by
  simp [nameParts, h]

/-- the name parts of the trimmed-from-the-right list are those of the list -/
theorem nameParts_trim_right (l : List Bytes) : nameParts (trimTriv l.reverse).reverse = nameParts l := by
  rw [nameParts_reverse, nameParts_trimTriv, nameParts_reverse, List.reverse_reverse]

/-- re-splitting the text of a list of `/`-free pieces gives the same name parts (also for `[]`) -/
theorem nameParts_splitSep_joinSep {l : List Bytes} (h : ∀ s ∈ l, (47 : UInt8) ∉ s) :
    nameParts (splitSep (joinSep l)) = nameParts l := by
  cases l with
  | nil => rfl
  | cons s t => rw [splitSep_joinSep (by simp) h]

end RpmVerif.Path
