import RpmVerif.Model.Cpio
/-! Helper lemmas for C07: hex fields, padding arithmetic, one entry, whole archives. -/
namespace RpmVerif.Cpio
open RpmVerif.Gen

/-! ## hex fields -/

theorem hexVal_hexDig_fin : ∀ d : Fin 16, hexVal (hexDig d.val) = some d.val := by decide
theorem hexVal_hexDig {d : Nat} (h : d < 16) : hexVal (hexDig d) = some d := hexVal_hexDig_fin ⟨d, h⟩
theorem hexDig_ne_plus_fin : ∀ d : Fin 16, hexDig d.val ≠ 43 := by decide
theorem hexDig_ne_plus {d : Nat} (h : d < 16) : hexDig d ≠ 43 := hexDig_ne_plus_fin ⟨d, h⟩

theorem parseHex8_fmtHex8 {n : Nat} (h : n < 4294967296) : parseHex8 (fmtHex8 n) = some n := by
  have m : ∀ k, k % 16 < 16 := fun k => Nat.mod_lt _ (by decide)
  simp only [parseHex8, fmtHex8, List.head?_cons, Option.some.injEq, hexDig_ne_plus (m _), if_false,
    List.isEmpty_cons, Bool.false_eq_true, parseDigits, hexVal_hexDig (m _)]
  congr 1
  omega

theorem fmtHex8_length (n : Nat) : (fmtHex8 n).length = 8 := rfl

theorem takeN_append' {n : Nat} {a : Bytes} (h : a.length = n) (r : Bytes) : takeN n (a ++ r) = .ok (a, r) := by
  subst h; exact takeN_append a r

theorem readHex8_fmt {n : Nat} (h : n < 4294967296) (r : Bytes) : readHex8 (fmtHex8 n ++ r) = .ok (n, r) := by
  simp only [readHex8, takeN_append' (fmtHex8_length n) r, Out.bind_ok, parseHex8_fmtHex8 h, Out.pure_eq]

/-! ## padding -/

theorem padLen_add_self (n : Nat) : (n + padLen n) % 4 = 0 := by
  unfold padLen; split <;> omega
theorem padLen_lt (n : Nat) : padLen n < 4 := by
  unfold padLen; split <;> omega
theorem padLen_add_mul4 {a : Nat} (b : Nat) (h : a % 4 = 0) : padLen (a + b) = padLen b := by
  unfold padLen
  have : (a + b) % 4 = b % 4 := by omega
  rw [this]
theorem pad_length (n : Nat) : (pad n).length = padLen n := by simp [pad]
theorem strippedDataPad_eq (n : Nat) : strippedDataPad n = pad n := by
  unfold strippedDataPad pad padLen
  congr 1
  split <;> omega

/-! ## one entry -/

/-- what the writer accepts so that the reader gets the same entry back: a NUL-free UTF-8 name whose
length including the NUL is within the reader's limit, and 32-bit numeric fields -/
structure EntryMeta.WF (m : EntryMeta) : Prop where
  nameNulFree : ∀ b ∈ m.name, b ≠ 0
  nameLen : m.name.length + 1 ≤ cpioNameLenMax
  nameUtf8 : Utf8.isValid m.name = true
  ino : m.ino < 4294967296
  mode : m.mode < 4294967296
  uid : m.uid < 4294967296
  gid : m.gid < 4294967296
  nlink : m.nlink < 4294967296
  mtime : m.mtime < 4294967296
  devMajor : m.devMajor < 4294967296
  devMinor : m.devMinor < 4294967296
  rdevMajor : m.rdevMajor < 4294967296
  rdevMinor : m.rdevMinor < 4294967296

theorem dropWhile_eq_self_of_head {α} (p : α → Bool) (l : List α) (h : ∀ a, l.head? = some a → p a = false) :
    l.dropWhile p = l := by
  cases l with
  | nil => rfl
  | cons a t => simp [List.dropWhile, h a rfl]

theorem stripTrailingNuls_nulfree {l : Bytes} (h : ∀ b ∈ l, b ≠ 0) : stripTrailingNuls l = l := by
  unfold stripTrailingNuls
  rw [dropWhile_eq_self_of_head, List.reverse_reverse]
  intro a ha
  have : a ∈ l := by
    have := List.mem_of_mem_head? ha
    simpa using this
  simpa using h a this

theorem intoHeader_length (m : EntryMeta) (fs : Nat) (ck : Option Nat) :
    (intoHeader m fs ck).length % 4 = 0 := by
  have h6 : (if ck.isSome then cpioMagicCrc else cpioMagicNewc).length = 6 := by split <;> rfl
  simp only [intoHeader, List.length_append, h6, fmtHex8_length, pad_length, List.length_cons, List.length_nil]
  have := padLen_add_self (cpioHeaderLen + (m.name.length + 1))
  simp only [cpioHeaderLen] at this ⊢
  omega

/-- what `Reader::new` returns for an entry written from `m` -/
def entryOf (m : EntryMeta) (fs : Nat) (ck : Option Nat) : CpioEntry :=
  ⟨ck.isSome, m.name, m.ino, m.mode, m.uid, m.gid, m.nlink, m.mtime, fs, m.devMajor, m.devMinor, m.rdevMajor,
   m.rdevMinor, ck.getD 0⟩

theorem readerNew_intoHeader (sizes : List Nat) {m : EntryMeta} (hm : m.WF) {fs : Nat} (hfs : fs < 4294967296)
    (ck : Option Nat) (hck : ck.getD 0 < 4294967296) (rest : Bytes) :
    readerNew sizes (intoHeader m fs ck ++ rest) = .ok (.cpio (entryOf m fs ck), fs, rest) := by
  have hnl : m.name.length + 1 < 4294967296 := by have := hm.nameLen; simp only [cpioNameLenMax] at this; omega
  have h6 : (if ck.isSome then cpioMagicCrc else cpioMagicNewc).length = 6 := by split <;> rfl
  have hmag : ((if ck.isSome then cpioMagicCrc else cpioMagicNewc) = cpioMagicNewc ∨
      (if ck.isSome then cpioMagicCrc else cpioMagicNewc) = cpioMagicCrc) := by split <;> simp
  have hcrc : decide ((if ck.isSome then cpioMagicCrc else cpioMagicNewc) = cpioMagicCrc) = ck.isSome := by
    cases ck <;> simp [cpioMagicCrc, cpioMagicNewc]
  have hname : takeN (m.name.length + 1) (m.name ++ ([0] ++ (pad (cpioHeaderLen + (m.name.length + 1)) ++ rest)))
      = .ok (m.name ++ [0], pad (cpioHeaderLen + (m.name.length + 1)) ++ rest) := by
    rw [← List.append_assoc]; exact takeN_append' (by simp) _
  unfold readerNew intoHeader
  simp only [List.append_assoc, takeN_append' h6, Out.bind_ok, hmag, if_true,
    readHex8_fmt hm.ino, readHex8_fmt hm.mode, readHex8_fmt hm.uid, readHex8_fmt hm.gid, readHex8_fmt hm.nlink,
    readHex8_fmt hm.mtime, readHex8_fmt hfs, readHex8_fmt hm.devMajor, readHex8_fmt hm.devMinor,
    readHex8_fmt hm.rdevMajor, readHex8_fmt hm.rdevMinor, readHex8_fmt hnl, readHex8_fmt hck,
    Nat.not_lt.mpr hm.nameLen, if_false, hname, List.getLast?_append, List.getLast?_singleton,
    List.dropLast_concat, stripTrailingNuls_nulfree hm.nameNulFree, hm.nameUtf8,
    takeN_append' (pad_length _), Out.pure_eq, hcrc, entryOf]
  simp

theorem readData_append (c rest : Bytes) : readData c.length (c ++ (pad c.length ++ rest)) = .ok (c, rest) := by
  simp only [readData, List.take_left', List.drop_left', takeN_append' (pad_length _), Out.bind_ok, Out.pure_eq,
    Nat.lt_irrefl, if_false]

theorem readerNew_writeEntry (sizes : List Nat) {m : EntryMeta} (hm : m.WF) {c : Bytes} (hc : c.length < 4294967296)
    (ck : Option Nat) (hck : ck.getD 0 < 4294967296) (rest : Bytes) :
    readerNew sizes (writeEntry m c ck ++ rest)
      = .ok (.cpio (entryOf m c.length ck), c.length, c ++ (pad c.length ++ rest)) := by
  simp only [writeEntry, List.append_assoc, readerNew_intoHeader sizes hm hc ck hck]
  rw [pad, padLen_add_mul4 _ (intoHeader_length m c.length ck), ← pad]

/-! ## `fileIndex` -/

/-- `idxOf` is the FIRST position -/
theorem idxOf_le_of_getElem? {α} [BEq α] [LawfulBEq α] (l : List α) (a : α) :
    ∀ j, l[j]? = some a → l.idxOf a ≤ j := by
  induction l with
  | nil => intro j h; simp at h
  | cons x t ih =>
    intro j h
    rw [List.idxOf_cons]
    by_cases hx : x = a
    · subst hx; simp
    · cases j with
      | zero => simp at h; exact absurd h hx
      | succ k =>
        simp only [List.getElem?_cons_succ] at h
        have := ih k h
        have hb : (x == a) = false := by simpa using hx
        rw [hb, cond_false]; omega

theorem fileIndex_lt {paths : List Bytes} {e : PayloadEntry} {i : Nat} (h : fileIndex paths e = some i) :
    i < paths.length := by
  cases e with
  | cpio ce =>
    simp only [fileIndex] at h
    split at h
    · cases h; assumption
    · cases h
  | stripped idx =>
    simp only [fileIndex] at h
    split at h
    · cases h; assumption
    · cases h

/-- a cpio entry gets the index of a header file whose path is the one its name stands for … -/
theorem fileIndex_cpio {paths : List Bytes} {ce : CpioEntry} {i : Nat} (h : fileIndex paths (.cpio ce) = some i) :
    paths[i]? = some (namePath ce.name) := by
  simp only [fileIndex] at h
  split at h
  · rename_i hlt
    cases h
    rw [List.getElem?_eq_getElem hlt, List.getElem_idxOf hlt]
  · cases h

/-- … the first such file -/
theorem fileIndex_cpio_first {paths : List Bytes} {ce : CpioEntry} {i : Nat} (h : fileIndex paths (.cpio ce) = some i) :
    ∀ j, paths[j]? = some (namePath ce.name) → i ≤ j := by
  intro j hj
  simp only [fileIndex] at h
  split at h
  · cases h
    exact idxOf_le_of_getElem? paths _ j hj
  · cases h

theorem fileIndex_stripped {paths : List Bytes} {idx i : Nat} (h : fileIndex paths (.stripped idx) = some i) :
    i = idx := by
  simp only [fileIndex] at h
  split at h
  · cases h; rfl
  · cases h

/-- no index exactly when no header file has the path the name stands for -/
theorem fileIndex_cpio_none {paths : List Bytes} {ce : CpioEntry} :
    fileIndex paths (.cpio ce) = none ↔ namePath ce.name ∉ paths := by
  simp only [fileIndex]
  constructor
  · intro h hm
    rw [if_pos (List.idxOf_lt_length_of_mem hm)] at h
    cases h
  · intro h
    rw [if_neg]
    intro hlt
    exact h (List.idxOf_lt_length_iff.mp hlt)

theorem fileIndex_cpio_of_mem {paths : List Bytes} {ce : CpioEntry} (h : namePath ce.name ∈ paths) :
    fileIndex paths (.cpio ce) = some (paths.idxOf (namePath ce.name)) := by
  simp only [fileIndex]
  rw [if_pos (List.idxOf_lt_length_of_mem h)]

theorem fileIndex_stripped_none {paths : List Bytes} {idx : Nat} :
    fileIndex paths (.stripped idx) = none ↔ paths.length ≤ idx := by
  simp only [fileIndex]
  constructor
  · intro h
    split at h
    · cases h
    · omega
  · intro h
    rw [if_neg (by omega)]

/-- what `Reader::new` returns for an entry written from `m` -/
abbrev readOf (x : EntryMeta × Bytes) : PayloadEntry := .cpio (entryOf x.1 x.2.length none)

/-- one `next()` of the iterator on an entry written by the library's writer -/
theorem iterateE_writeEntry (paths : List Bytes) (sizes : List Nat) (fuel : Nat) {m : EntryMeta} (hm : m.WF)
    (hnt : m.name ≠ cpioTrailerName) {c : Bytes} (hc : c.length < 4294967296) (ck : Option Nat)
    (hck : ck.getD 0 < 4294967296) (rest : Bytes) :
    iterateE paths sizes (fuel + 1) (writeEntry m c ck ++ rest)
      = match fileIndex paths (.cpio (entryOf m c.length ck)) with
        | some i => .ok (i, .cpio (entryOf m c.length ck), c) :: iterateE paths sizes fuel rest
        | none => [.err "no-such-file"] := by
  have ht : isTrailer (.cpio (entryOf m c.length ck)) = false := by
    simp [isTrailer, entryOf, hnt]
  simp only [iterateE, readerNew_writeEntry sizes hm hc ck hck, ht, readData_append]
  cases fileIndex paths (.cpio (entryOf m c.length ck)) <;> simp

theorem trailer_wf : EntryMeta.WF { name := cpioTrailerName, nlink := 1 } := by
  constructor <;> decide

theorem iterateE_trailer (paths : List Bytes) (sizes : List Nat) (fuel : Nat) (rest : Bytes) :
    iterateE paths sizes fuel (trailer ++ rest) = [] := by
  cases fuel with
  | zero => rfl
  | succ k =>
    have h := readerNew_writeEntry sizes trailer_wf (c := []) (by decide) none (by decide) rest
    simp only [iterateE, trailer, h]
    simp [isTrailer, entryOf]

/-! ## whole archives -/

/-- entries acceptable to the round-trip theorem -/
def EntryOK (x : EntryMeta × Bytes) : Prop := x.1.WF ∧ x.1.name ≠ cpioTrailerName ∧ x.2.length < 4294967296

/-- what the iterator is to yield for the written entries `es` — in whatever order they are, whichever
header files they leave out: every entry under the index of the header file it names, up to (and
excluding) the first entry that names none, which is an error -/
def expectItems (paths : List Bytes) : List (EntryMeta × Bytes) → List (Out (Nat × PayloadEntry × Bytes))
  | [] => []
  | x :: t =>
    match fileIndex paths (readOf x) with
    | some i => .ok (i, readOf x, x.2) :: expectItems paths t
    | none => [.err "no-such-file"]

theorem iterateE_archiveOf (paths : List Bytes) (sizes : List Nat) (es : List (EntryMeta × Bytes))
    (hes : ∀ x ∈ es, EntryOK x) (rest : Bytes) :
    ∀ fuel, iterateE paths sizes fuel (archiveOf es ++ rest) = expectItems paths (es.take fuel) := by
  induction es with
  | nil => intro fuel; simp [archiveOf, iterateE_trailer, expectItems]
  | cons x t ih =>
    intro fuel
    obtain ⟨m, c⟩ := x
    cases fuel with
    | zero => simp [iterateE, expectItems]
    | succ k =>
      obtain ⟨hw, hn, hl⟩ := hes (m, c) (by simp)
      simp only [archiveOf, List.append_assoc, iterateE_writeEntry paths sizes k hw hn hl none (by decide),
        ih (fun x hx => hes x (by simp [hx])) k, List.take_succ_cons, expectItems, readOf]

/-- all names known: one `ok` item per entry, under the index of the file it names -/
theorem expectItems_known (paths : List Bytes) (es : List (EntryMeta × Bytes))
    (h : ∀ x ∈ es, namePath x.1.name ∈ paths) :
    expectItems paths es = es.map fun x => .ok (paths.idxOf (namePath x.1.name), readOf x, x.2) := by
  induction es with
  | nil => rfl
  | cons x t ih =>
    have hx : namePath (entryOf x.1 x.2.length none).name ∈ paths := h x (by simp)
    simp only [expectItems, readOf, fileIndex_cpio_of_mem hx, List.map_cons,
      ih (fun y hy => h y (by simp [hy]))]
    rfl

/-- the first entry that names no header file ends the iteration with an error item -/
theorem expectItems_unknown (paths : List Bytes) (known : List (EntryMeta × Bytes)) (x : EntryMeta × Bytes)
    (t : List (EntryMeta × Bytes)) (h : ∀ y ∈ known, namePath y.1.name ∈ paths) (hx : namePath x.1.name ∉ paths) :
    expectItems paths (known ++ x :: t)
      = (known.map fun y => .ok (paths.idxOf (namePath y.1.name), readOf y, y.2)) ++ [.err "no-such-file"] := by
  induction known with
  | nil =>
    have : fileIndex paths (readOf x) = none := fileIndex_cpio_none.mpr hx
    simp only [List.nil_append, expectItems, this, List.map_nil]
  | cons y u ih =>
    have hy : namePath (entryOf y.1 y.2.length none).name ∈ paths := h y (by simp)
    simp only [List.cons_append, expectItems, readOf, fileIndex_cpio_of_mem hy, List.map_cons,
      ih (fun z hz => h z (by simp [hz]))]
    rfl

theorem readerNew_strippedHeader (sizes : List Nat) {idx s : Nat} (hi : idx < 4294967295) (hs : sizes[idx]? = some s)
    (rest : Bytes) : readerNew sizes (strippedHeader idx ++ rest) = .ok (.stripped idx, s, rest) := by
  have h6 : cpioMagicStripped.length = 6 := rfl
  have hne : ¬ (cpioMagicStripped = cpioMagicNewc ∨ cpioMagicStripped = cpioMagicCrc) := by decide
  have hidx : idx ≠ 4294967295 := by omega
  simp only [readerNew, strippedHeader, List.append_assoc, takeN_append' h6, Out.bind_ok, hne, if_false, if_true,
    readHex8_fmt (show idx < 4294967296 by omega), takeN_append' (pad_length _), hidx, hs, Out.pure_eq]

theorem iterateE_stripped (paths : List Bytes) (sizes : List Nat) (rest : Bytes) (cs : List Bytes) :
    ∀ (k fuel : Nat), k + cs.length ≤ 4294967295 → k + cs.length ≤ paths.length →
      (∀ j (h : j < cs.length), sizes[k + j]? = some cs[j].length) →
      iterateE paths sizes fuel (archiveStrippedFrom k cs ++ rest)
        = (((cs.take fuel).zipIdx k).map fun x => .ok (x.2, .stripped x.2, x.1)) := by
  induction cs with
  | nil => intro k fuel _ _ _; simp [archiveStrippedFrom, iterateE_trailer]
  | cons c t ih =>
    intro k fuel hk hp hs
    cases fuel with
    | zero => simp [iterateE]
    | succ f =>
      have h0 : sizes[k]? = some c.length := by
        have := hs 0 (by simp)
        simpa only [Nat.add_zero, List.getElem_cons_zero] using this
      have hk' : k < 4294967295 := by simp at hk; omega
      have ht : isTrailer (.stripped k) = false := by simp [isTrailer]; omega
      have hfi : fileIndex paths (.stripped k) = some k := by
        simp only [fileIndex]; rw [if_pos (by simp at hp; omega)]
      have ih' := ih (k + 1) f (by simp at hk; omega) (by simp at hp; omega) (fun j h => by
        have := hs (j + 1) (by simp; omega)
        simp only [List.getElem_cons_succ] at this
        rw [show k + 1 + j = k + (j + 1) by omega]; exact this)
      simp only [archiveStrippedFrom, List.append_assoc, iterateE, readerNew_strippedHeader sizes hk' h0, ht, hfi,
        strippedDataPad_eq, readData_append, ih', List.take_succ_cons, List.zipIdx_cons, List.map_cons]
      simp

/-! ## any archive: sizes -/

theorem readerNew_size {sizes : List Nat} {bs : Bytes} {e : PayloadEntry} {fs : Nat} {r : Bytes}
    (h : readerNew sizes bs = .ok (e, fs, r)) : entrySize sizes e = some fs := by
  unfold readerNew at h
  obtain ⟨⟨magic, r0⟩, _, h⟩ := Out.bind_eq_ok.mp h
  dsimp only at h
  split at h
  · iterate 13 (obtain ⟨⟨_, _⟩, _, h⟩ := Out.bind_eq_ok.mp h; dsimp only at h)
    split at h
    · cases h
    · obtain ⟨⟨_, _⟩, _, h⟩ := Out.bind_eq_ok.mp h
      dsimp only at h
      split at h
      · cases h
      · split at h
        · cases h
        · obtain ⟨⟨_, _⟩, _, h⟩ := Out.bind_eq_ok.mp h
          simp only [Out.pure_eq, Out.ok.injEq, Prod.mk.injEq] at h
          obtain ⟨rfl, rfl, _⟩ := h
          rfl
  · split at h
    · obtain ⟨⟨idx, _⟩, _, h⟩ := Out.bind_eq_ok.mp h
      obtain ⟨⟨_, _⟩, _, h⟩ := Out.bind_eq_ok.mp h
      dsimp only at h
      split at h
      · rename_i hi
        simp only [Out.pure_eq, Out.ok.injEq, Prod.mk.injEq] at h
        obtain ⟨rfl, rfl, _⟩ := h
        simp [entrySize, hi]
      · rename_i hi
        split at h
        · rename_i s hs
          simp only [Out.pure_eq, Out.ok.injEq, Prod.mk.injEq] at h
          obtain ⟨rfl, rfl, _⟩ := h
          simp [entrySize, hi, hs]
        · cases h
    · cases h

theorem readData_ok {fs : Nat} {r c r' : Bytes} (h : readData fs r = .ok (c, r')) :
    c.length = fs ∧ ∃ p, p.length = padLen fs ∧ r = c ++ (p ++ r') := by
  unfold readData at h
  dsimp only at h
  split at h
  · cases h
  · rename_i hlt
    obtain ⟨⟨p, q⟩, hp, h⟩ := Out.bind_eq_ok.mp h
    simp only [Out.pure_eq, Out.ok.injEq, Prod.mk.injEq] at h
    obtain ⟨rfl, rfl⟩ := h
    obtain ⟨hpq, hl⟩ := takeN_ok hp
    have hle : (List.take fs r).length ≤ fs := by simp [List.length_take]; omega
    refine ⟨by omega, p, hl, ?_⟩
    rw [← hpq, List.take_append_drop]

/-- one step of the iterator, read backwards: an `ok` item is the head (entry read, index looked up,
data read) or comes from the rest of the stream -/
theorem iterateE_ok_cases {paths : List Bytes} {sizes : List Nat} {fuel : Nat} {bs : Bytes} {i : Nat}
    {e : PayloadEntry} {c : Bytes} (h : .ok (i, e, c) ∈ iterateE paths sizes (fuel + 1) bs) :
    ∃ e0 fs r, readerNew sizes bs = .ok (e0, fs, r) ∧ isTrailer e0 = false ∧ ∃ i0, fileIndex paths e0 = some i0 ∧
      ∃ c0 r', readData fs r = .ok (c0, r') ∧
        ((i, e, c) = (i0, e0, c0) ∨ .ok (i, e, c) ∈ iterateE paths sizes fuel r') := by
  unfold iterateE at h
  split at h
  · rename_i e0 fs r hr
    split at h
    · cases h
    · rename_i hnt
      split at h
      · simp at h
      · rename_i i0 hi0
        split at h
        · rename_i c0 r' hd
          refine ⟨e0, fs, r, hr, by simpa using hnt, i0, hi0, c0, r', hd, ?_⟩
          simp only [List.mem_cons, Out.ok.injEq] at h
          exact h
        · simp at h
        · simp at h
  · simp at h
  · simp at h

/-- every `ok` item carries the index `fileIndex` gives for its own entry, and a content of the size
the reader took for that entry -/
theorem iterateE_item (paths : List Bytes) (sizes : List Nat) : ∀ (fuel : Nat) (bs : Bytes) (i : Nat)
    (e : PayloadEntry) (c : Bytes), .ok (i, e, c) ∈ iterateE paths sizes fuel bs →
      fileIndex paths e = some i ∧ entrySize sizes e = some c.length := by
  intro fuel
  induction fuel with
  | zero => intro bs i e c h; simp [iterateE] at h
  | succ k ih =>
    intro bs i e c h
    obtain ⟨e0, fs, r, hr, _, i0, hi0, c0, r', hd, h⟩ := iterateE_ok_cases h
    rcases h with h | h
    · simp only [Prod.mk.injEq] at h
      obtain ⟨rfl, rfl, rfl⟩ := h
      exact ⟨hi0, by rw [readerNew_size hr, (readData_ok hd).1]⟩
    · exact ih _ _ _ _ h

theorem iterateE_sizes (paths : List Bytes) (sizes : List Nat) (fuel : Nat) (bs : Bytes) (i : Nat) (e : PayloadEntry)
    (c : Bytes) (h : .ok (i, e, c) ∈ iterateE paths sizes fuel bs) : entrySize sizes e = some c.length :=
  (iterateE_item paths sizes fuel bs i e c h).2

/-! ## the builder's loop -/

/-- a file the property quantifies over: NUL-free UTF-8 cpio path shorter than 4096 bytes that is not
the trailer name (the builder's keys start with `.`), 32-bit mode, content shorter than 4 GiB -/
structure FileIn.OK (f : FileIn) : Prop where
  nulFree : ∀ b ∈ f.path, b ≠ 0
  len : f.path.length + 1 ≤ cpioNameLenMax
  utf8 : Utf8.isValid f.path = true
  notTrailer : f.path ≠ cpioTrailerName
  mode : f.mode < 4294967296
  size : f.content.length < 4294967296

theorem builderEntriesFrom_ok {uid gid : Nat} (hu : uid < 4294967296) (hg : gid < 4294967296) (fs : List FileIn)
    (hfs : ∀ f ∈ fs, f.OK) : ∀ ino, ino + fs.length ≤ 4294967296 →
      ∀ x ∈ builderEntriesFrom uid gid ino fs, EntryOK x := by
  induction fs with
  | nil => intro _ _ x hx; simp [builderEntriesFrom] at hx
  | cons f t ih =>
    intro ino hino x hx
    simp only [builderEntriesFrom, List.mem_cons] at hx
    have hf := hfs f (by simp)
    rcases hx with rfl | hx
    · refine ⟨⟨hf.nulFree, hf.len, hf.utf8, ?_, hf.mode, hu, hg, ?_, ?_, ?_, ?_, ?_, ?_⟩, hf.notTrailer, hf.size⟩
      all_goals first | (simp only [builderMeta]; simp at hino; omega) | decide
    · exact ih (fun g hg' => hfs g (by simp [hg'])) (ino + 1) (by simp at hino; omega) x hx

theorem builderEntriesFrom_map (uid gid : Nat) (fs : List FileIn) : ∀ ino,
    (builderEntriesFrom uid gid ino fs).map (fun x => (x.1.name, x.2)) = fs.map (fun f => (f.path, f.content)) := by
  induction fs with
  | nil => intro _; rfl
  | cons f t ih => intro ino; simp [builderEntriesFrom, builderMeta, ih]

/-! ## header paths -/

/-- the header paths of the written entries: what their names stand for -/
abbrev pathsOf (es : List (EntryMeta × Bytes)) : List Bytes := es.map fun x => namePath x.1.name

/-- the header paths of the builder's files: the cpio path (BTreeMap key, `"." + dir + base`) without its
leading dot -/
abbrev headerPaths (fs : List FileIn) : List Bytes := fs.map fun f => namePath f.path

/-- a builder key: `format!(".{}{}", dir, base_name)` with `dir` starting with `/` -/
def FileIn.Rooted (f : FileIn) : Prop := ∃ r, f.path = 46 :: 47 :: r

/-- for a builder key the header path is the key without its leading dot … -/
theorem namePath_rooted {f : FileIn} (h : f.Rooted) : namePath f.path = f.path.drop 1 := by
  obtain ⟨r, hr⟩ := h
  rw [hr]; rfl

/-- … so distinct keys (a BTreeMap has no others) give distinct header paths -/
theorem headerPaths_nodup {fs : List FileIn} (hr : ∀ f ∈ fs, f.Rooted) (hnd : (fs.map (·.path)).Nodup) :
    (headerPaths fs).Nodup := by
  refine List.pairwise_map.mpr ((List.pairwise_map.mp hnd).imp_of_mem ?_)
  intro a b ha hb hab heq
  obtain ⟨ra, hra⟩ := hr a ha
  obtain ⟨rb, hrb⟩ := hr b hb
  rw [hra, hrb] at heq
  simp only [namePath] at heq
  exact hab (by rw [hra, hrb, heq])

theorem builder_pathsOf (uid gid : Nat) (fs : List FileIn) (ino : Nat) :
    pathsOf (builderEntriesFrom uid gid ino fs) = headerPaths fs := by
  have := congrArg (List.map fun x : Bytes × Bytes => namePath x.1) (builderEntriesFrom_map uid gid fs ino)
  simpa [List.map_map, Function.comp_def] using this

/-! ## the builder's file map (BTreeMap keyed by cpio path) -/

theorem bytesLt_irrefl (a : Bytes) : bytesLt a a = false := by
  induction a with
  | nil => rfl
  | cons x t ih => simp [bytesLt, ih]

theorem bytesLt_trans : ∀ (a b c : Bytes), bytesLt a b = true → bytesLt b c = true → bytesLt a c = true := by
  intro a
  induction a with
  | nil =>
    intro b c h1 h2
    cases b with
    | nil => simp [bytesLt] at h1
    | cons y s => cases c with
      | nil => simp [bytesLt] at h2
      | cons z u => rfl
  | cons x t ih =>
    intro b c h1 h2
    cases b with
    | nil => simp [bytesLt] at h1
    | cons y s =>
      cases c with
      | nil => simp [bytesLt] at h2
      | cons z u =>
        simp only [bytesLt, Bool.or_eq_true, decide_eq_true_eq, Bool.and_eq_true, beq_iff_eq] at h1 h2 ⊢
        rcases h1 with h1 | ⟨rfl, h1⟩
        · rcases h2 with h2 | ⟨rfl, h2⟩
          · left; exact UInt8.lt_trans h1 h2
          · left; exact h1
        · rcases h2 with h2 | ⟨rfl, h2⟩
          · left; exact h2
          · right; exact ⟨rfl, ih s u h1 h2⟩

theorem bytesLt_total : ∀ (a b : Bytes), bytesLt a b = false → a ≠ b → bytesLt b a = true := by
  intro a
  induction a with
  | nil => intro b h hne; cases b with
    | nil => exact absurd rfl hne
    | cons y s => simp [bytesLt] at h
  | cons x t ih =>
    intro b h hne
    cases b with
    | nil => rfl
    | cons y s =>
      simp only [bytesLt, Bool.or_eq_false_iff, decide_eq_false_iff_not, Bool.and_eq_false_imp, beq_iff_eq,
        Bool.or_eq_true, decide_eq_true_eq, Bool.and_eq_true] at h ⊢
      obtain ⟨h1, h2⟩ := h
      by_cases hxy : x = y
      · subst hxy
        right
        refine ⟨rfl, ih s (h2 rfl) ?_⟩
        intro hts; exact hne (by rw [hts])
      · left
        have := UInt8.lt_or_lt_of_ne hxy
        rcases this with h | h
        · exact absurd h h1
        · exact h

/-- strictly ascending by path -/
def SortedByPath (l : List FileIn) : Prop := l.Pairwise fun x y => bytesLt x.path y.path = true

theorem mem_insertFile {f x : FileIn} {l : List FileIn} (h : x ∈ insertFile f l) : x = f ∨ x ∈ l := by
  induction l with
  | nil => simp [insertFile] at h; exact Or.inl h
  | cons g r ih =>
    simp only [insertFile] at h
    split at h
    · simp only [List.mem_cons] at h ⊢; exact h
    · split at h
      · exact Or.inr h
      · simp only [List.mem_cons] at h ⊢
        rcases h with h | h
        · exact Or.inr (Or.inl h)
        · rcases ih h with h | h
          · exact Or.inl h
          · exact Or.inr (Or.inr h)

theorem insertFile_sorted (f : FileIn) {l : List FileIn} (hl : SortedByPath l) : SortedByPath (insertFile f l) := by
  induction l with
  | nil => simp [insertFile, SortedByPath]
  | cons g r ih =>
    have hr : SortedByPath r := (List.pairwise_cons.mp hl).2
    have hg := (List.pairwise_cons.mp hl).1
    simp only [insertFile]
    split
    · rename_i hfg
      refine List.pairwise_cons.mpr ⟨?_, hl⟩
      intro x hx
      simp only [List.mem_cons] at hx
      rcases hx with rfl | hx
      · exact hfg
      · exact bytesLt_trans _ _ _ hfg (hg x hx)
    · split
      · exact hl
      · rename_i hfg hne
        refine List.pairwise_cons.mpr ⟨?_, ih hr⟩
        intro x hx
        rcases mem_insertFile hx with rfl | hx
        · exact bytesLt_total _ _ (by simpa using hfg) hne
        · exact hg x hx

theorem insertFile_perm {f : FileIn} {l : List FileIn} (h : f.path ∉ l.map (·.path)) : (insertFile f l).Perm (f :: l) := by
  induction l with
  | nil => simp [insertFile]
  | cons g r ih =>
    simp only [List.map_cons, List.mem_cons, not_or] at h
    simp only [insertFile]
    split
    · exact List.Perm.refl _
    · rw [if_neg h.1]
      exact ((ih h.2).cons g).trans (List.Perm.swap f g r)

theorem foldl_insert_sorted (given : List FileIn) : ∀ acc, SortedByPath acc →
    SortedByPath (given.foldl (fun acc f => insertFile f acc) acc) := by
  induction given with
  | nil => intro acc h; exact h
  | cons f t ih => intro acc h; exact ih _ (insertFile_sorted f h)

theorem foldl_insert_perm (given : List FileIn) : ∀ acc, ((given ++ acc).map (·.path)).Nodup →
    (given.foldl (fun acc f => insertFile f acc) acc).Perm (given ++ acc) := by
  induction given with
  | nil => intro acc _; exact List.Perm.refl _
  | cons f t ih =>
    intro acc h
    simp only [List.cons_append, List.map_cons, List.nodup_cons, List.map_append, List.mem_append, not_or] at h
    have hp := insertFile_perm h.1.2
    have hnd : ((t ++ insertFile f acc).map (·.path)).Nodup := by
      have : (t ++ insertFile f acc).Perm (t ++ f :: acc) := List.Perm.append_left t hp
      refine (this.map _).nodup_iff.mpr ?_
      simp only [List.map_append, List.map_cons]
      have h2 := h.2
      rw [List.nodup_append] at h2 ⊢
      refine ⟨h2.1, List.nodup_cons.mpr ⟨h.1.2, h2.2.1⟩, ?_⟩
      intro a ha b hb
      simp only [List.mem_cons] at hb
      rcases hb with rfl | hb
      · intro hab; subst hab; exact h.1.1 ha
      · exact h2.2.2 a ha b hb
    refine (ih _ hnd).trans ?_
    simp only [List.cons_append]
    exact (List.Perm.append_left t hp).trans List.perm_middle

theorem subset_insertFile (f : FileIn) (l : List FileIn) : ∀ x ∈ l, x ∈ insertFile f l := by
  induction l with
  | nil => intro x hx; cases hx
  | cons g r ih =>
    intro x hx
    simp only [insertFile]
    split
    · exact List.mem_cons_of_mem _ hx
    · split
      · exact hx
      · simp only [List.mem_cons] at hx ⊢
        rcases hx with h | h
        · exact Or.inl h
        · exact Or.inr (ih x h)

theorem path_mem_insertFile (f : FileIn) (l : List FileIn) : f.path ∈ (insertFile f l).map (·.path) := by
  induction l with
  | nil => simp [insertFile]
  | cons g r ih =>
    simp only [insertFile]
    split
    · simp
    · split
      · rename_i h; simp [h]
      · simp only [List.map_cons, List.mem_cons]; exact Or.inr ih

theorem foldl_insert_mem (given : List FileIn) : ∀ acc x, x ∈ given.foldl (fun acc f => insertFile f acc) acc →
    x ∈ given ∨ x ∈ acc := by
  induction given with
  | nil => intro acc x h; exact Or.inr h
  | cons f t ih =>
    intro acc x h
    rcases ih _ x h with h | h
    · exact Or.inl (List.mem_cons_of_mem _ h)
    · rcases mem_insertFile h with rfl | h
      · exact Or.inl (by simp)
      · exact Or.inr h

theorem foldl_insert_subset (given : List FileIn) : ∀ acc, ∀ x ∈ acc, x ∈ given.foldl (fun acc f => insertFile f acc) acc := by
  induction given with
  | nil => intro acc x h; exact h
  | cons f t ih => intro acc x h; exact ih _ x (subset_insertFile f acc x h)

theorem foldl_insert_paths (given : List FileIn) : ∀ acc, ∀ g ∈ given,
    g.path ∈ (given.foldl (fun acc f => insertFile f acc) acc).map (·.path) := by
  induction given with
  | nil => intro acc g h; cases h
  | cons f t ih =>
    intro acc g h
    simp only [List.mem_cons] at h
    rcases h with rfl | h
    · obtain ⟨x, hx, hxp⟩ := List.mem_map.mp (path_mem_insertFile g acc)
      exact List.mem_map.mpr ⟨x, foldl_insert_subset t _ x hx, hxp⟩
    · exact ih _ g h

end RpmVerif.Cpio
