import RpmVerif.Model.Cpio
/-! Helper lemmas for C07: hex fields, padding arithmetic, one entry, whole archives. -/
namespace RpmVerif.Cpio
open RpmVerif.Gen

/-! ## hex fields -/

theorem hexVal_hexDig_fin : ∀ d : Fin 16, hexVal (hexDig d.val) = some d.val := by decide
theorem hexVal_hexDig {d : Nat} (h : d < 16) : hexVal (hexDig d) = some d := hexVal_hexDig_fin ⟨d, h⟩
theorem hexDig_ne_plus_fin : ∀ d : Fin 16, hexDig d.val ≠ 43 := by decide
theorem hexDig_ne_plus {d : Nat} (h : d < 16) : hexDig d ≠ 43 := hexDig_ne_plus_fin ⟨d, h⟩

theorem parseHex8_fmtHex8 {n : Nat} (h : n < 4294967296) : parseHex8 (fmtHex8 n) = some n := by
  have m : ∀ k, k % 16 < 16 := fun k => Nat.mod_lt _ (by decide)
  simp only [parseHex8, fmtHex8, List.head?_cons, Option.some.injEq, hexDig_ne_plus (m _), if_false,
    List.isEmpty_cons, Bool.false_eq_true, parseDigits, hexVal_hexDig (m _)]
  congr 1
  omega

theorem fmtHex8_length (n : Nat) : (fmtHex8 n).length = 8 := rfl

theorem takeN_append' {n : Nat} {a : Bytes} (h : a.length = n) (r : Bytes) : takeN n (a ++ r) = .ok (a, r) := by
  subst h; exact takeN_append a r

theorem readHex8_fmt {n : Nat} (h : n < 4294967296) (r : Bytes) : readHex8 (fmtHex8 n ++ r) = .ok (n, r) := by
  simp only [readHex8, takeN_append' (fmtHex8_length n) r, Out.bind_ok, parseHex8_fmtHex8 h, Out.pure_eq]

/-! ## padding -/

theorem padLen_add_self (n : Nat) : (n + padLen n) % 4 = 0 := by
  unfold padLen; split <;> omega
theorem padLen_lt (n : Nat) : padLen n < 4 := by
  unfold padLen; split <;> omega
theorem padLen_add_mul4 {a : Nat} (b : Nat) (h : a % 4 = 0) : padLen (a + b) = padLen b := by
  unfold padLen
  have : (a + b) % 4 = b % 4 := by omega
  rw [this]
theorem pad_length (n : Nat) : (pad n).length = padLen n := by simp [pad]
theorem strippedDataPad_eq (n : Nat) : strippedDataPad n = pad n := by
  unfold strippedDataPad pad padLen
  congr 1
  split <;> omega

/-! ## one entry -/

/-- what the writer accepts so that the reader gets the same entry back: a NUL-free UTF-8 name whose
length including the NUL is within the reader's limit, and 32-bit numeric fields -/
structure EntryMeta.WF (m : EntryMeta) : Prop where
  nameNulFree : ∀ b ∈ m.name, b ≠ 0
  nameLen : m.name.length + 1 ≤ cpioNameLenMax
  nameUtf8 : Utf8.isValid m.name = true
  ino : m.ino < 4294967296
  mode : m.mode < 4294967296
  uid : m.uid < 4294967296
  gid : m.gid < 4294967296
  nlink : m.nlink < 4294967296
  mtime : m.mtime < 4294967296
  devMajor : m.devMajor < 4294967296
  devMinor : m.devMinor < 4294967296
  rdevMajor : m.rdevMajor < 4294967296
  rdevMinor : m.rdevMinor < 4294967296

theorem dropWhile_eq_self_of_head {α} (p : α → Bool) (l : List α) (h : ∀ a, l.head? = some a → p a = false) :
    l.dropWhile p = l := by
  cases l with
  | nil => rfl
  | cons a t => simp [List.dropWhile, h a rfl]

theorem stripTrailingNuls_nulfree {l : Bytes} (h : ∀ b ∈ l, b ≠ 0) : stripTrailingNuls l = l := by
  unfold stripTrailingNuls
  rw [dropWhile_eq_self_of_head, List.reverse_reverse]
  intro a ha
  have : a ∈ l := by
    have := List.mem_of_mem_head? ha
    simpa using this
  simpa using h a this

theorem intoHeader_length (m : EntryMeta) (fs : Nat) (ck : Option Nat) :
    (intoHeader m fs ck).length % 4 = 0 := by
  have h6 : (if ck.isSome then cpioMagicCrc else cpioMagicNewc).length = 6 := by split <;> rfl
  simp only [intoHeader, List.length_append, h6, fmtHex8_length, pad_length, List.length_cons, List.length_nil]
  have := padLen_add_self (cpioHeaderLen + (m.name.length + 1))
  simp only [cpioHeaderLen] at this ⊢
  omega

/-- what `Reader::new` returns for an entry written from `m` -/
def entryOf (m : EntryMeta) (fs : Nat) (ck : Option Nat) : CpioEntry :=
  ⟨ck.isSome, m.name, m.ino, m.mode, m.uid, m.gid, m.nlink, m.mtime, fs, m.devMajor, m.devMinor, m.rdevMajor,
   m.rdevMinor, ck.getD 0⟩

theorem readerNew_intoHeader (sizes : List Nat) {m : EntryMeta} (hm : m.WF) {fs : Nat} (hfs : fs < 4294967296)
    (ck : Option Nat) (hck : ck.getD 0 < 4294967296) (rest : Bytes) :
    readerNew sizes (intoHeader m fs ck ++ rest) = .ok (.cpio (entryOf m fs ck), fs, rest) := by
  have hnl : m.name.length + 1 < 4294967296 := by have := hm.nameLen; simp only [cpioNameLenMax] at this; omega
  have h6 : (if ck.isSome then cpioMagicCrc else cpioMagicNewc).length = 6 := by split <;> rfl
  have hmag : ((if ck.isSome then cpioMagicCrc else cpioMagicNewc) = cpioMagicNewc ∨
      (if ck.isSome then cpioMagicCrc else cpioMagicNewc) = cpioMagicCrc) := by split <;> simp
  have hcrc : decide ((if ck.isSome then cpioMagicCrc else cpioMagicNewc) = cpioMagicCrc) = ck.isSome := by
    cases ck <;> simp [cpioMagicCrc, cpioMagicNewc]
  have hname : takeN (m.name.length + 1) (m.name ++ ([0] ++ (pad (cpioHeaderLen + (m.name.length + 1)) ++ rest)))
      = .ok (m.name ++ [0], pad (cpioHeaderLen + (m.name.length + 1)) ++ rest) := by
    rw [← List.append_assoc]; exact takeN_append' (by simp) _
  unfold readerNew intoHeader
  simp only [List.append_assoc, takeN_append' h6, Out.bind_ok, hmag, if_true,
    readHex8_fmt hm.ino, readHex8_fmt hm.mode, readHex8_fmt hm.uid, readHex8_fmt hm.gid, readHex8_fmt hm.nlink,
    readHex8_fmt hm.mtime, readHex8_fmt hfs, readHex8_fmt hm.devMajor, readHex8_fmt hm.devMinor,
    readHex8_fmt hm.rdevMajor, readHex8_fmt hm.rdevMinor, readHex8_fmt hnl, readHex8_fmt hck,
    Nat.not_lt.mpr hm.nameLen, if_false, hname, List.getLast?_append, List.getLast?_singleton,
    List.dropLast_concat, stripTrailingNuls_nulfree hm.nameNulFree, hm.nameUtf8,
    takeN_append' (pad_length _), Out.pure_eq, hcrc, entryOf]
  simp

theorem readData_append (c rest : Bytes) : readData c.length (c ++ (pad c.length ++ rest)) = .ok (c, rest) := by
  simp only [readData, List.take_left', List.drop_left', takeN_append' (pad_length _), Out.bind_ok, Out.pure_eq,
    Nat.lt_irrefl, if_false]

theorem readerNew_writeEntry (sizes : List Nat) {m : EntryMeta} (hm : m.WF) {c : Bytes} (hc : c.length < 4294967296)
    (ck : Option Nat) (hck : ck.getD 0 < 4294967296) (rest : Bytes) :
    readerNew sizes (writeEntry m c ck ++ rest)
      = .ok (.cpio (entryOf m c.length ck), c.length, c ++ (pad c.length ++ rest)) := by
  simp only [writeEntry, List.append_assoc, readerNew_intoHeader sizes hm hc ck hck]
  rw [pad, padLen_add_mul4 _ (intoHeader_length m c.length ck), ← pad]

/-- one `next()` of the iterator on an entry written by the library's writer -/
theorem iterateE_writeEntry (sizes : List Nat) (fuel : Nat) {m : EntryMeta} (hm : m.WF) (hnt : m.name ≠ cpioTrailerName)
    {c : Bytes} (hc : c.length < 4294967296) (ck : Option Nat) (hck : ck.getD 0 < 4294967296) (rest : Bytes) :
    iterateE sizes (fuel + 1) (writeEntry m c ck ++ rest)
      = .ok (.cpio (entryOf m c.length ck), c) :: iterateE sizes fuel rest := by
  have ht : isTrailer (.cpio (entryOf m c.length ck)) = false := by
    simp [isTrailer, entryOf, hnt]
  simp only [iterateE, readerNew_writeEntry sizes hm hc ck hck, ht, readData_append]
  simp

theorem trailer_wf : EntryMeta.WF { name := cpioTrailerName, nlink := 1 } := by
  constructor <;> decide

theorem iterateE_trailer (sizes : List Nat) (fuel : Nat) (rest : Bytes) : iterateE sizes fuel (trailer ++ rest) = [] := by
  cases fuel with
  | zero => rfl
  | succ k =>
    have h := readerNew_writeEntry sizes trailer_wf (c := []) (by decide) none (by decide) rest
    simp only [iterateE, trailer, h]
    simp [isTrailer, entryOf]

/-! ## whole archives -/

/-- entries acceptable to the round-trip theorem -/
def EntryOK (x : EntryMeta × Bytes) : Prop := x.1.WF ∧ x.1.name ≠ cpioTrailerName ∧ x.2.length < 4294967296

theorem iterateE_archiveOf (sizes : List Nat) (es : List (EntryMeta × Bytes)) (hes : ∀ x ∈ es, EntryOK x) (rest : Bytes) :
    ∀ fuel, iterateE sizes fuel (archiveOf es ++ rest)
      = ((es.take fuel).map fun x => .ok (.cpio (entryOf x.1 x.2.length none), x.2)) := by
  induction es with
  | nil => intro fuel; simp [archiveOf, iterateE_trailer]
  | cons x t ih =>
    intro fuel
    obtain ⟨m, c⟩ := x
    cases fuel with
    | zero => simp [iterateE]
    | succ k =>
      obtain ⟨hw, hn, hl⟩ := hes (m, c) (by simp)
      simp only [archiveOf, List.append_assoc, iterateE_writeEntry sizes k hw hn hl none (by decide),
        ih (fun x hx => hes x (by simp [hx])) k, List.take_succ_cons, List.map_cons]

theorem readerNew_strippedHeader (sizes : List Nat) {idx s : Nat} (hi : idx < 4294967295) (hs : sizes[idx]? = some s)
    (rest : Bytes) : readerNew sizes (strippedHeader idx ++ rest) = .ok (.stripped idx, s, rest) := by
  have h6 : cpioMagicStripped.length = 6 := rfl
  have hne : ¬ (cpioMagicStripped = cpioMagicNewc ∨ cpioMagicStripped = cpioMagicCrc) := by decide
  have hidx : idx ≠ 4294967295 := by omega
  simp only [readerNew, strippedHeader, List.append_assoc, takeN_append' h6, Out.bind_ok, hne, if_false, if_true,
    readHex8_fmt (show idx < 4294967296 by omega), takeN_append' (pad_length _), hidx, hs, Out.pure_eq]

theorem iterateE_stripped (sizes : List Nat) (rest : Bytes) (cs : List Bytes) :
    ∀ (k fuel : Nat), k + cs.length ≤ 4294967295 →
      (∀ j (h : j < cs.length), sizes[k + j]? = some cs[j].length) →
      iterateE sizes fuel (archiveStrippedFrom k cs ++ rest)
        = (((cs.take fuel).zipIdx k).map fun x => .ok (.stripped x.2, x.1)) := by
  induction cs with
  | nil => intro k fuel _ _; simp [archiveStrippedFrom, iterateE_trailer]
  | cons c t ih =>
    intro k fuel hk hs
    cases fuel with
    | zero => simp [iterateE]
    | succ f =>
      have h0 : sizes[k]? = some c.length := by
        have := hs 0 (by simp)
        simpa only [Nat.add_zero, List.getElem_cons_zero] using this
      have hk' : k < 4294967295 := by simp at hk; omega
      have ht : isTrailer (.stripped k) = false := by simp [isTrailer]; omega
      have ih' := ih (k + 1) f (by simp at hk; omega) (fun j h => by
        have := hs (j + 1) (by simp; omega)
        simp only [List.getElem_cons_succ] at this
        rw [show k + 1 + j = k + (j + 1) by omega]; exact this)
      simp only [archiveStrippedFrom, List.append_assoc, iterateE, readerNew_strippedHeader sizes hk' h0, ht,
        strippedDataPad_eq, readData_append, ih', List.take_succ_cons, List.zipIdx_cons, List.map_cons]
      simp

/-! ## any archive: sizes -/

theorem readerNew_size {sizes : List Nat} {bs : Bytes} {e : PayloadEntry} {fs : Nat} {r : Bytes}
    (h : readerNew sizes bs = .ok (e, fs, r)) : entrySize sizes e = some fs := by
  unfold readerNew at h
  obtain ⟨⟨magic, r0⟩, _, h⟩ := Out.bind_eq_ok.mp h
  dsimp only at h
  split at h
  · iterate 13 (obtain ⟨⟨_, _⟩, _, h⟩ := Out.bind_eq_ok.mp h; dsimp only at h)
    split at h
    · cases h
    · obtain ⟨⟨_, _⟩, _, h⟩ := Out.bind_eq_ok.mp h
      dsimp only at h
      split at h
      · cases h
      · split at h
        · cases h
        · obtain ⟨⟨_, _⟩, _, h⟩ := Out.bind_eq_ok.mp h
          simp only [Out.pure_eq, Out.ok.injEq, Prod.mk.injEq] at h
          obtain ⟨rfl, rfl, _⟩ := h
          rfl
  · split at h
    · obtain ⟨⟨idx, _⟩, _, h⟩ := Out.bind_eq_ok.mp h
      obtain ⟨⟨_, _⟩, _, h⟩ := Out.bind_eq_ok.mp h
      dsimp only at h
      split at h
      · rename_i hi
        simp only [Out.pure_eq, Out.ok.injEq, Prod.mk.injEq] at h
        obtain ⟨rfl, rfl, _⟩ := h
        simp [entrySize, hi]
      · rename_i hi
        split at h
        · rename_i s hs
          simp only [Out.pure_eq, Out.ok.injEq, Prod.mk.injEq] at h
          obtain ⟨rfl, rfl, _⟩ := h
          simp [entrySize, hi, hs]
        · cases h
    · cases h

theorem readData_ok {fs : Nat} {r c r' : Bytes} (h : readData fs r = .ok (c, r')) :
    c.length = fs ∧ ∃ p, p.length = padLen fs ∧ r = c ++ (p ++ r') := by
  unfold readData at h
  dsimp only at h
  split at h
  · cases h
  · rename_i hlt
    obtain ⟨⟨p, q⟩, hp, h⟩ := Out.bind_eq_ok.mp h
    simp only [Out.pure_eq, Out.ok.injEq, Prod.mk.injEq] at h
    obtain ⟨rfl, rfl⟩ := h
    obtain ⟨hpq, hl⟩ := takeN_ok hp
    have hle : (List.take fs r).length ≤ fs := by simp [List.length_take]; omega
    refine ⟨by omega, p, hl, ?_⟩
    rw [← hpq, List.take_append_drop]

theorem iterateE_sizes (sizes : List Nat) : ∀ (fuel : Nat) (bs : Bytes) (e : PayloadEntry) (c : Bytes),
    .ok (e, c) ∈ iterateE sizes fuel bs → entrySize sizes e = some c.length := by
  intro fuel
  induction fuel with
  | zero => intro bs e c h; simp [iterateE] at h
  | succ k ih =>
    intro bs e c h
    unfold iterateE at h
    split at h
    · rename_i e0 fs r hr
      split at h
      · cases h
      · split at h
        · rename_i c0 r' hd
          simp only [List.mem_cons, Out.ok.injEq, Prod.mk.injEq] at h
          rcases h with ⟨rfl, rfl⟩ | h
          · rw [readerNew_size hr, (readData_ok hd).1]
          · exact ih _ _ _ h
        · simp at h
        · simp at h
    · simp at h
    · simp at h

/-! ## the builder's loop -/

/-- a file the property quantifies over: NUL-free UTF-8 cpio path shorter than 4096 bytes that is not
the trailer name (the builder's keys start with `.`), 32-bit mode, content shorter than 4 GiB -/
structure FileIn.OK (f : FileIn) : Prop where
  nulFree : ∀ b ∈ f.path, b ≠ 0
  len : f.path.length + 1 ≤ cpioNameLenMax
  utf8 : Utf8.isValid f.path = true
  notTrailer : f.path ≠ cpioTrailerName
  mode : f.mode < 4294967296
  size : f.content.length < 4294967296

theorem builderEntriesFrom_ok {uid gid : Nat} (hu : uid < 4294967296) (hg : gid < 4294967296) (fs : List FileIn)
    (hfs : ∀ f ∈ fs, f.OK) : ∀ ino, ino + fs.length ≤ 4294967296 →
      ∀ x ∈ builderEntriesFrom uid gid ino fs, EntryOK x := by
  induction fs with
  | nil => intro _ _ x hx; simp [builderEntriesFrom] at hx
  | cons f t ih =>
    intro ino hino x hx
    simp only [builderEntriesFrom, List.mem_cons] at hx
    have hf := hfs f (by simp)
    rcases hx with rfl | hx
    · refine ⟨⟨hf.nulFree, hf.len, hf.utf8, ?_, hf.mode, hu, hg, ?_, ?_, ?_, ?_, ?_, ?_⟩, hf.notTrailer, hf.size⟩
      all_goals first | (simp only [builderMeta]; simp at hino; omega) | decide
    · exact ih (fun g hg' => hfs g (by simp [hg'])) (ino + 1) (by simp at hino; omega) x hx

theorem builderEntriesFrom_map (uid gid : Nat) (fs : List FileIn) : ∀ ino,
    (builderEntriesFrom uid gid ino fs).map (fun x => (x.1.name, x.2)) = fs.map (fun f => (f.path, f.content)) := by
  induction fs with
  | nil => intro _; rfl
  | cons f t ih => intro ino; simp [builderEntriesFrom, builderMeta, ih]

/-! ## the builder's file map (BTreeMap keyed by cpio path) -/

theorem bytesLt_irrefl (a : Bytes) : bytesLt a a = false := by
  induction a with
  | nil => rfl
  | cons x t ih => simp [bytesLt, ih]

theorem bytesLt_trans : ∀ (a b c : Bytes), bytesLt a b = true → bytesLt b c = true → bytesLt a c = true := by
  intro a
  induction a with
  | nil =>
    intro b c h1 h2
    cases b with
    | nil => simp [bytesLt] at h1
    | cons y s => cases c with
      | nil => simp [bytesLt] at h2
      | cons z u => rfl
  | cons x t ih =>
    intro b c h1 h2
    cases b with
    | nil => simp [bytesLt] at h1
    | cons y s =>
      cases c with
      | nil => simp [bytesLt] at h2
      | cons z u =>
        simp only [bytesLt, Bool.or_eq_true, decide_eq_true_eq, Bool.and_eq_true, beq_iff_eq] at h1 h2 ⊢
        rcases h1 with h1 | ⟨rfl, h1⟩
        · rcases h2 with h2 | ⟨rfl, h2⟩
          · left; exact UInt8.lt_trans h1 h2
          · left; exact h1
        · rcases h2 with h2 | ⟨rfl, h2⟩
          · left; exact h2
          · right; exact ⟨rfl, ih s u h1 h2⟩

theorem bytesLt_total : ∀ (a b : Bytes), bytesLt a b = false → a ≠ b → bytesLt b a = true := by
  intro a
  induction a with
  | nil => intro b h hne; cases b with
    | nil => exact absurd rfl hne
    | cons y s => simp [bytesLt] at h
  | cons x t ih =>
    intro b h hne
    cases b with
    | nil => rfl
    | cons y s =>
      simp only [bytesLt, Bool.or_eq_false_iff, decide_eq_false_iff_not, Bool.and_eq_false_imp, beq_iff_eq,
        Bool.or_eq_true, decide_eq_true_eq, Bool.and_eq_true] at h ⊢
      obtain ⟨h1, h2⟩ := h
      by_cases hxy : x = y
      · subst hxy
        right
        refine ⟨rfl, ih s (h2 rfl) ?_⟩
        intro hts; exact hne (by rw [hts])
      · left
        have := UInt8.lt_or_lt_of_ne hxy
        rcases this with h | h
        · exact absurd h h1
        · exact h

/-- strictly ascending by path -/
def SortedByPath (l : List FileIn) : Prop := l.Pairwise fun x y => bytesLt x.path y.path = true

theorem mem_insertFile {f x : FileIn} {l : List FileIn} (h : x ∈ insertFile f l) : x = f ∨ x ∈ l := by
  induction l with
  | nil => simp [insertFile] at h; exact Or.inl h
  | cons g r ih =>
    simp only [insertFile] at h
    split at h
    · simp only [List.mem_cons] at h ⊢; exact h
    · split at h
      · exact Or.inr h
      · simp only [List.mem_cons] at h ⊢
        rcases h with h | h
        · exact Or.inr (Or.inl h)
        · rcases ih h with h | h
          · exact Or.inl h
          · exact Or.inr (Or.inr h)

theorem insertFile_sorted (f : FileIn) {l : List FileIn} (hl : SortedByPath l) : SortedByPath (insertFile f l) := by
  induction l with
  | nil => simp [insertFile, SortedByPath]
  | cons g r ih =>
    have hr : SortedByPath r := (List.pairwise_cons.mp hl).2
    have hg := (List.pairwise_cons.mp hl).1
    simp only [insertFile]
    split
    · rename_i hfg
      refine List.pairwise_cons.mpr ⟨?_, hl⟩
      intro x hx
      simp only [List.mem_cons] at hx
      rcases hx with rfl | hx
      · exact hfg
      · exact bytesLt_trans _ _ _ hfg (hg x hx)
    · split
      · exact hl
      · rename_i hfg hne
        refine List.pairwise_cons.mpr ⟨?_, ih hr⟩
        intro x hx
        rcases mem_insertFile hx with rfl | hx
        · exact bytesLt_total _ _ (by simpa using hfg) hne
        · exact hg x hx

theorem insertFile_perm {f : FileIn} {l : List FileIn} (h : f.path ∉ l.map (·.path)) : (insertFile f l).Perm (f :: l) := by
  induction l with
  | nil => simp [insertFile]
  | cons g r ih =>
    simp only [List.map_cons, List.mem_cons, not_or] at h
    simp only [insertFile]
    split
    · exact List.Perm.refl _
    · rw [if_neg h.1]
      exact ((ih h.2).cons g).trans (List.Perm.swap f g r)

theorem foldl_insert_sorted (given : List FileIn) : ∀ acc, SortedByPath acc →
    SortedByPath (given.foldl (fun acc f => insertFile f acc) acc) := by
  induction given with
  | nil => intro acc h; exact h
  | cons f t ih => intro acc h; exact ih _ (insertFile_sorted f h)

theorem foldl_insert_perm (given : List FileIn) : ∀ acc, ((given ++ acc).map (·.path)).Nodup →
    (given.foldl (fun acc f => insertFile f acc) acc).Perm (given ++ acc) := by
  induction given with
  | nil => intro acc _; exact List.Perm.refl _
  | cons f t ih =>
    intro acc h
    simp only [List.cons_append, List.map_cons, List.nodup_cons, List.map_append, List.mem_append, not_or] at h
    have hp := insertFile_perm h.1.2
    have hnd : ((t ++ insertFile f acc).map (·.path)).Nodup := by
      have : (t ++ insertFile f acc).Perm (t ++ f :: acc) := List.Perm.append_left t hp
      refine (this.map _).nodup_iff.mpr ?_
      simp only [List.map_append, List.map_cons]
      have h2 := h.2
      rw [List.nodup_append] at h2 ⊢
      refine ⟨h2.1, List.nodup_cons.mpr ⟨h.1.2, h2.2.1⟩, ?_⟩
      intro a ha b hb
      simp only [List.mem_cons] at hb
      rcases hb with rfl | hb
      · intro hab; subst hab; exact h.1.1 ha
      · exact h2.2.2 a ha b hb
    refine (ih _ hnd).trans ?_
    simp only [List.cons_append]
    exact (List.Perm.append_left t hp).trans List.perm_middle

theorem subset_insertFile (f : FileIn) (l : List FileIn) : ∀ x ∈ l, x ∈ insertFile f l := by
  induction l with
  | nil => intro x hx; cases hx
  | cons g r ih =>
    intro x hx
    simp only [insertFile]
    split
    · exact List.mem_cons_of_mem _ hx
    · split
      · exact hx
      · simp only [List.mem_cons] at hx ⊢
        rcases hx with h | h
        · exact Or.inl h
        · exact Or.inr (ih x h)

theorem path_mem_insertFile (f : FileIn) (l : List FileIn) : f.path ∈ (insertFile f l).map (·.path) := by
  induction l with
  | nil => simp [insertFile]
  | cons g r ih =>
    simp only [insertFile]
    split
    · simp
    · split
      · rename_i h; simp [h]
      · simp only [List.map_cons, List.mem_cons]; exact Or.inr ih

theorem foldl_insert_mem (given : List FileIn) : ∀ acc x, x ∈ given.foldl (fun acc f => insertFile f acc) acc →
    x ∈ given ∨ x ∈ acc := by
  induction given with
  | nil => intro acc x h; exact Or.inr h
  | cons f t ih =>
    intro acc x h
    rcases ih _ x h with h | h
    · exact Or.inl (List.mem_cons_of_mem _ h)
    · rcases mem_insertFile h with rfl | h
      · exact Or.inl (by simp)
      · exact Or.inr h

theorem foldl_insert_subset (given : List FileIn) : ∀ acc, ∀ x ∈ acc, x ∈ given.foldl (fun acc f => insertFile f acc) acc := by
  induction given with
  | nil => intro acc x h; exact h
  | cons f t ih => intro acc x h; exact ih _ x (subset_insertFile f acc x h)

theorem foldl_insert_paths (given : List FileIn) : ∀ acc, ∀ g ∈ given,
    g.path ∈ (given.foldl (fun acc f => insertFile f acc) acc).map (·.path) := by
  induction given with
  | nil => intro acc g h; cases h
  | cons f t ih =>
    intro acc g h
    simp only [List.mem_cons] at h
    rcases h with rfl | h
    · obtain ⟨x, hx, hxp⟩ := List.mem_map.mp (path_mem_insertFile g acc)
      exact List.mem_map.mpr ⟨x, foldl_insert_subset t _ x hx, hxp⟩
    · exact ih _ g h

end RpmVerif.Cpio
