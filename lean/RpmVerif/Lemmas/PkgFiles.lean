import RpmVerif.Model.PkgFiles
import RpmVerif.Lemmas.Cpio
/-!
# `PkgFiles.extractInput` in terms of the proved models

`Model/PkgFiles.lean` composes `Acc.getFileEntries`, `Acc.getPayloadCompressorVariant` and `Cpio.iterate`; the lemmas
here say what the composition yields: the items are the `Ok` prefix of the cpio iteration, each with the metadata of the
header file at the index the iteration attached (`collect_items`), the tail flag says whether an `Err` ended it
(`collect_tail`), that index is always in range (`iterate_index_lt`), every digest of a file entry list that
`get_file_entries` returns has a length the source's table pairs with its algorithm (`getFileEntries_digests`), and the
compressor variant agrees with the compressor name of `Acc.getPayloadCompressor` (`compressor_bridge`).
-/
namespace RpmVerif.PkgFiles
open RpmVerif.Hdr RpmVerif.Gen RpmVerif.Fs RpmVerif.Cpio

/-- what a `for x in iter { let x = x?; … }` loop sees: the `Ok` values before the first `Err` -/
def okPrefix {α} : List (Out α) → List α
  | .ok x :: r => x :: okPrefix r
  | _ => []

theorem okPrefix_mem {α} {l : List (Out α)} {x : α} (h : x ∈ okPrefix l) : .ok x ∈ l := by
  induction l with
  | nil => simp [okPrefix] at h
  | cons y r ih =>
    cases y with
    | ok v =>
      simp only [okPrefix, List.mem_cons] at h
      rcases h with rfl | h
      · exact List.mem_cons_self
      · exact List.mem_cons_of_mem _ (ih h)
    | err c => simp [okPrefix] at h
    | panic s => simp [okPrefix] at h

/-- **the items are the `Ok` prefix of the iteration, projected**: same length, same order, and the k-th item is
`RpmFile { metadata: file_entries[i], content: c }` for the k-th `Ok((i, c))` — `itemOf` is `some` throughout, i.e. the
index is in range -/
theorem collect_items (es : List Acc.FileEntry) (l : List (Out (Nat × Bytes)))
    (hin : ∀ i c, .ok (i, c) ∈ l → i < es.length) :
    (collect es l).1.map some = (okPrefix l).map fun x => itemOf es x.1 x.2 := by
  induction l with
  | nil => rfl
  | cons y r ih =>
    cases y with
    | ok v =>
      obtain ⟨i, c⟩ := v
      have hi : i < es.length := hin i c List.mem_cons_self
      have he : es[i]? = some es[i] := List.getElem?_eq_getElem hi
      simp only [collect, itemOf, he, Option.map_some, okPrefix, List.map_cons, List.cons.injEq, true_and]
      exact ih fun i c h => hin i c (List.mem_cons_of_mem _ h)
    | err c => simp only [collect, okPrefix, List.map_nil]
    | panic s => simp only [collect, okPrefix, List.map_nil]

/-- the tail flag: `true` exactly when no `next()` answered `Err` -/
theorem collect_tail (es : List Acc.FileEntry) (l : List (Out (Nat × Bytes)))
    (hin : ∀ i c, .ok (i, c) ∈ l → i < es.length) :
    (collect es l).2 = true ↔ ∀ x ∈ l, x.isOk = true := by
  induction l with
  | nil => simp [collect]
  | cons y r ih =>
    cases y with
    | ok v =>
      obtain ⟨i, c⟩ := v
      have hi : i < es.length := hin i c List.mem_cons_self
      have he : es[i]? = some es[i] := List.getElem?_eq_getElem hi
      simp only [collect, itemOf, he, Option.map_some, List.mem_cons, forall_eq_or_imp, Out.isOk, true_and]
      exact ih fun i c h => hin i c (List.mem_cons_of_mem _ h)
    | err c => simp [collect, Out.isOk]
    | panic s => simp [collect, Out.isOk]

/-- an `Ok` of `Cpio.iterate` is an `Ok` of `Cpio.iterateE` without the archive entry -/
theorem iterate_ok_mem {a : Bytes} {paths : List Bytes} {sizes : List Nat} {i : Nat} {c : Bytes}
    (h : .ok (i, c) ∈ Cpio.iterate a paths sizes) : ∃ e, .ok (i, e, c) ∈ iterateE paths sizes sizes.length a := by
  simp only [Cpio.iterate, iterateFrom, List.mem_map] at h
  obtain ⟨x, hx, hm⟩ := h
  cases x with
  | ok v =>
    obtain ⟨i', e, c'⟩ := v
    simp only [Out.map, Out.ok.injEq, Prod.mk.injEq] at hm
    obtain ⟨rfl, rfl⟩ := hm
    exact ⟨e, hx⟩
  | err s => simp [Out.map] at hm
  | panic s => simp [Out.map] at hm

/-- `self.file_entries[index]` never panics: the index `Reader::file_index` answers is in range -/
theorem iterate_index_lt {a : Bytes} {paths : List Bytes} {sizes : List Nat} {i : Nat} {c : Bytes}
    (h : .ok (i, c) ∈ Cpio.iterate a paths sizes) : i < paths.length := by
  obtain ⟨e, he⟩ := iterate_ok_mem h
  exact fileIndex_lt (iterateE_item paths sizes _ a i e c he).1

theorem itemsOf_in_range (es : List Acc.FileEntry) (a : Bytes) :
    ∀ i c, .ok (i, c) ∈ Cpio.iterate a (es.map (·.path)) (es.map (·.size)) → i < es.length := by
  intro i c h
  simpa using iterate_index_lt h

/-! ## file digests of an accepted entry list -/

theorem digestOf_some {algo : Nat} {d : Bytes} {tbl : List (Nat × Nat)} {v : Nat × Bytes}
    (h : Acc.digestOf algo d tbl = .ok (some v)) : v = (algo, d) ∧ (algo, d.length) ∈ tbl := by
  unfold Acc.digestOf at h
  split at h
  · cases h
  · unfold Acc.fileDigestNew at h
    split at h
    · rename_i hany
      simp only [Out.map, Out.ok.injEq, Option.some.injEq] at h
      obtain ⟨p, hp, hq⟩ := List.any_eq_true.mp hany
      simp only [Bool.and_eq_true, beq_iff_eq] at hq
      refine ⟨h.symm, ?_⟩
      have : p = (algo, d.length) := Prod.ext hq.1 hq.2
      rw [← this]; exact hp
    · simp [Out.map] at h

theorem buildEntries_digests (algo : Nat) (caps ima : Option (List Bytes)) (tbl : List (Nat × Nat)) (idx : Nat)
    (ps us gs : List Bytes) (ms : List Nat) (ds : List Bytes) (ts ss fs : List Nat) (ls : List Bytes)
    (es : List Acc.FileEntry) (h : Acc.buildEntries algo caps ima tbl idx ps us gs ms ds ts ss fs ls = .ok es) :
    ∀ e ∈ es, ∀ d, e.digest = some d → d.1 = algo ∧ (d.1, d.2.length) ∈ tbl := by
  fun_induction Acc.buildEntries algo caps ima tbl idx ps us gs ms ds ts ss fs ls generalizing es with
  | case1 idx p ps u us g gs m ms d ds t ts s ss f fs l ls ih =>
    simp only [Out.bind_eq_ok, Out.pure_eq, Out.ok.injEq] at h
    obtain ⟨dg, hdg, r, hr, rfl⟩ := h
    intro e he d' hd
    simp only [List.mem_cons] at he
    rcases he with rfl | he
    · simp only at hd
      subst hd
      obtain ⟨rfl, hm⟩ := digestOf_some hdg
      exact ⟨rfl, hm⟩
    · exact ih _ hr e he d' hd
  | case2 => cases h; simp

/-- every digest of a file entry list `get_file_entries` returns has a hex length the table pairs with its algorithm -/
theorem getFileEntries_digests (sig h : Header) (tbl : List (Nat × Nat)) (es : List Acc.FileEntry)
    (hes : Acc.getFileEntries sig h tbl = .ok es) :
    ∀ e ∈ es, ∀ d, e.digest = some d → (d.1, d.2.length) ∈ tbl := by
  unfold Acc.getFileEntries at hes
  simp only at hes
  split at hes
  · cases hes; simp
  · split at hes
    · cases hes
    · cases hes
    · split at hes
      · cases hes
      · cases hes
      · split at hes
        · simp only [Out.bind_eq_ok] at hes
          obtain ⟨paths, _, hb⟩ := hes
          intro e he d hd
          exact (buildEntries_digests _ _ _ _ _ _ _ _ _ _ _ _ _ _ _ hb e he d hd).2
        · simp only [Out.bind_eq_ok] at hes
          obtain ⟨_, _, _, _, _, _, _, _, _, _, _, _, _, _, _, _, hp⟩ := hes
          cases hp
/-! ## the payload compressor: variant and name -/

theorem lookup_some {T : List (List Nat × Nat)} {k : List Nat} {v : Nat} (h : T.lookup k = some v) : (k, v) ∈ T := by
  induction T with
  | nil => simp [List.lookup] at h
  | cons p r ih =>
    obtain ⟨a, b⟩ := p
    simp only [List.lookup] at h
    split at h
    · rename_i heq
      simp only [Option.some.injEq] at h
      have : k = a := by simpa using heq
      subst this; subst h
      exact List.mem_cons_self
    · exact List.mem_cons_of_mem _ (ih h)

theorem lookup_none {T : List (List Nat × Nat)} {k : List Nat} (h : T.lookup k = none) : ∀ p ∈ T, p.1 ≠ k := by
  induction T with
  | nil => simp
  | cons p r ih =>
    obtain ⟨a, b⟩ := p
    simp only [List.lookup] at h
    split at h
    · cases h
    · rename_i hne
      intro q hq
      simp only [List.mem_cons] at hq
      rcases hq with rfl | hq
      · intro heq; simp only at heq; subst heq; simp at hne
      · exact ih h q hq

theorem textBytes_toNat (s : Bytes) : Acc.textBytes (s.map UInt8.toNat) = s := by
  induction s with
  | nil => rfl
  | cons b r ih =>
    simp only [Acc.textBytes, List.map_cons, List.map_map, List.cons.injEq] at ih ⊢
    refine ⟨?_, ih⟩
    apply UInt8.toNat_inj.mp
    simp only [Nat.toUInt8, UInt8.toNat_ofNat']
    have := b.toNat_lt
    omega

theorem toNat_textBytes {n : List Nat} (h : ∀ c ∈ n, c < 256) : (Acc.textBytes n).map UInt8.toNat = n := by
  induction n with
  | nil => rfl
  | cons c r ih =>
    simp only [Acc.textBytes, List.map_cons, List.map_map, List.cons.injEq] at ih ⊢
    refine ⟨?_, ih fun c hc => h c (List.mem_cons_of_mem _ hc)⟩
    have := h c List.mem_cons_self
    simp only [Nat.toUInt8, UInt8.toNat_ofNat']
    omega

/-- what the bridge needs of the two scraped tables (decided on the tables as they are on every run): accepted texts
are byte-sized code points, and `Display` prints for every accepted text's variant that very text -/
def TablesAgree : Prop :=
  (∀ p ∈ compressionFromStr, ∀ c ∈ p.1, c < 256) ∧ (∀ p ∈ compressionFromStr, Compression.toStr p.2 = p.1)

/-- **compressor bridge**: the variant `getPayloadCompressorVariant` answers, printed, is the name
`Acc.getPayloadCompressor` answers over the same table (the accessor C05 compares with the real code), and one is an
error exactly when the other is -/
theorem compressor_bridge (ht : TablesAgree) (h : Header) :
    (Acc.getPayloadCompressorVariant h).toOption.map (fun v => Acc.textBytes (Compression.toStr v))
      = (Acc.getPayloadCompressor Acc.compressorNames h).toOption := by
  unfold Acc.getPayloadCompressorVariant Acc.getPayloadCompressor
  split
  · rename_i s hs
    simp only [Compression.fromStr]
    cases hl : compressionFromStr.lookup (s.map UInt8.toNat) with
    | some v =>
      have hm := lookup_some hl
      have hd := ht.2 _ hm
      simp only at hd
      have hc : Acc.compressorNames.contains s = true := by
        simp only [List.contains_iff_mem, Acc.compressorNames, List.mem_map]
        exact ⟨_, hm, textBytes_toNat s⟩
      simp only [hc, if_true, Out.toOption, Option.map_some, hd, textBytes_toNat]
    | none =>
      have hn := lookup_none hl
      have hc : Acc.compressorNames.contains s = false := by
        cases hcc : Acc.compressorNames.contains s with
        | false => rfl
        | true =>
          exfalso
          simp only [List.contains_iff_mem, Acc.compressorNames, List.mem_map] at hcc
          obtain ⟨p, hp, hps⟩ := hcc
          refine hn p hp ?_
          rw [← hps, toNat_textBytes (ht.1 p hp)]
      have hc' : s ∉ Acc.compressorNames := by simpa [List.contains_iff_mem] using hc
      simp [hc', Out.toOption]
  · rfl
  · simp [Out.toOption]
  · simp [Out.toOption]
end RpmVerif.PkgFiles
