import RpmVerif.Lemmas.FileIter
import RpmVerif.Lemmas.PkgFiles
/-!
# The cpio reader on a stream that stops early (a streaming decoder over a damaged / truncated payload)

`decompress_stream` hands `FileIterator` a lazy reader (GzDecoder, zstd / xz / bzip2 decoders): a damaged compressed
payload yields the bytes decoded so far and then an `Err` (or a premature end). What the iterator makes of such a stream:

* `Frame`: every reading step of `Reader::new` / `read_to_end` / `finish` that succeeds on a stream succeeds with the SAME
  value on every extension of that stream (`readerNew_append`, `readData_append_ok`);
* `iterateE_append_ok`: hence the items handed out before the first error are the same whether the stream stops after the
  prefix or goes on (`okPrefix_iterate_prefix`: the `Ok` prefix over the decoded prefix is a prefix of the `Ok` prefix over
  the whole archive) — a damaged stream yields SOME of the right items and then an error, never a wrong item;
* `iterateE_append_clean`: if the iteration over the prefix ends without an error item (the cpio trailer lies inside the
  prefix) the rest of the stream — including the decoder's own failure, e.g. a missing gzip CRC trailer — is never looked at.
-/
namespace RpmVerif.FileIter
open RpmVerif.Cpio RpmVerif.Gen RpmVerif.PkgFiles

/-- a reader that, whenever it succeeds, succeeds with the same value on any longer stream (and leaves the extra bytes) -/
def Frame {α} (m : Rd α) : Prop := ∀ (bs t : Bytes) (a : α) (r : Bytes), m bs = (.ok a, r) → m (bs ++ t) = (.ok a, r ++ t)

theorem Frame.pure {α} (a : α) : Frame (pure a : Rd α) := by
  intro bs t a' r h
  change (Out.ok a, bs) = (Out.ok a', r) at h
  obtain ⟨h1, h2⟩ := Prod.mk.inj h
  cases h1; subst h2; rfl

theorem Frame.fail {α} (c : String) : Frame (Rd.fail c : Rd α) := by
  intro bs t a r h
  change (Out.err c, bs) = (Out.ok a, r) at h
  cases (Prod.mk.inj h).1

theorem Frame.exact (n : Nat) : Frame (exact n) := by
  intro bs t a r h
  unfold FileIter.exact at h ⊢
  split at h
  · rename_i hn
    obtain ⟨h1, h2⟩ := Prod.mk.inj h
    cases h1; subst h2
    have : n ≤ (bs ++ t).length := by simp; omega
    rw [if_pos this, List.take_append_of_le_length hn, List.drop_append_of_le_length hn]
  · cases (Prod.mk.inj h).1

theorem Frame.bind {α β} {m : Rd α} {f : α → Rd β} (hm : Frame m) (hf : ∀ a, Frame (f a)) : Frame (m >>= f) := by
  intro bs t b r h
  change Rd.bind m f bs = _ at h
  change Rd.bind m f (bs ++ t) = _
  unfold Rd.bind at h ⊢
  rcases hmb : m bs with ⟨o, r1⟩
  rw [hmb] at h
  cases o with
  | ok a =>
    rw [hm bs t a r1 hmb]
    exact hf a r1 t b r h
  | err c => cases (Prod.mk.inj h).1
  | panic s => cases (Prod.mk.inj h).1

theorem Frame.hex8 : Frame hex8 := by
  unfold FileIter.hex8
  refine Frame.bind (Frame.exact 8) (fun f => ?_)
  cases parseHex8 f with
  | none => exact Frame.fail _
  | some n => exact Frame.pure n

theorem readerNewS_frame (sizes : List Nat) : Frame (readerNewS sizes) := by
  unfold readerNewS
  refine Frame.bind (Frame.exact 6) (fun magic => ?_)
  split
  · repeat (refine Frame.bind Frame.hex8 (fun _ => ?_))
    split
    · exact Frame.fail _
    refine Frame.bind (Frame.exact _) (fun nameBytes => ?_)
    split
    · exact Frame.fail _
    dsimp only
    split
    · exact Frame.fail _
    refine Frame.bind (Frame.exact _) (fun _ => ?_)
    exact Frame.pure _
  · split
    · refine Frame.bind Frame.hex8 (fun idx => ?_)
      refine Frame.bind (Frame.exact _) (fun _ => ?_)
      split
      · exact Frame.pure _
      · split
        · exact Frame.pure _
        · exact Frame.fail _
    · exact Frame.fail _

/-- `Reader::new` that succeeds on a stream succeeds with the same entry on every longer stream -/
theorem readerNew_append {sizes : List Nat} {bs : Bytes} {e : PayloadEntry} {fs : Nat} {r : Bytes}
    (h : readerNew sizes bs = .ok (e, fs, r)) (t : Bytes) : readerNew sizes (bs ++ t) = .ok (e, fs, r ++ t) := by
  rw [← readerNewS_out] at h ⊢
  unfold out3 at h ⊢
  rcases hS : readerNewS sizes bs with ⟨o, r1⟩
  rw [hS] at h
  cases o with
  | ok x =>
    obtain ⟨e', fs'⟩ := x
    simp only [Out.ok.injEq, Prod.mk.injEq] at h
    obtain ⟨rfl, rfl, rfl⟩ := h
    rw [readerNewS_frame sizes bs t _ _ hS]
  | err c => cases h
  | panic s => cases h

/-- … and so do `read_to_end` + `finish` -/
theorem readData_append_ok {fs : Nat} {r c r' : Bytes} (h : readData fs r = .ok (c, r')) (t : Bytes) :
    readData fs (r ++ t) = .ok (c, r' ++ t) := by
  unfold readData at h ⊢
  simp only at h
  split at h
  · cases h
  · rename_i hlen
    simp only [Out.bind_eq_ok, Prod.exists, Out.pure_eq, Out.ok.injEq, Prod.mk.injEq] at h
    obtain ⟨x, r2, htk, rfl, rfl⟩ := h
    have hfs : fs ≤ r.length := by
      simp only [List.length_take, Nat.not_lt] at hlen
      omega
    have h1 : (r ++ t).take fs = r.take fs := List.take_append_of_le_length hfs
    have h2 : (r ++ t).drop fs = r.drop fs ++ t := List.drop_append_of_le_length hfs
    rw [h1, h2, if_neg hlen]
    unfold takeN at htk ⊢
    split at htk
    · rename_i hp
      simp only [Out.ok.injEq, Prod.mk.injEq] at htk
      obtain ⟨rfl, rfl⟩ := htk
      have hp' : padLen fs ≤ (r.drop fs ++ t).length := by simp at hp ⊢; omega
      rw [if_pos hp']
      simp only [Out.bind_ok, Out.pure_eq, Out.ok.injEq, Prod.mk.injEq, true_and]
      exact List.drop_append_of_le_length hp
    · cases htk

/-- **the items before the first error do not depend on what follows the bytes read**: every `Ok` item of the iteration
over `bs`, preceded by `Ok` items only, is the item at the same position of the iteration over `bs ++ t` -/
theorem okPrefix_iterateE_append (paths : List Bytes) (sizes : List Nat) : ∀ (fuel : Nat) (bs t : Bytes),
    okPrefix (iterateE paths sizes fuel bs) <+: okPrefix (iterateE paths sizes fuel (bs ++ t)) := by
  intro fuel
  induction fuel with
  | zero => intro bs t; exact List.prefix_refl _
  | succ fuel ih =>
    intro bs t
    unfold iterateE
    cases hr : readerNew sizes bs with
    | err c => simp only [okPrefix]; exact List.nil_prefix
    | panic s => simp only [okPrefix]; exact List.nil_prefix
    | ok x =>
      obtain ⟨e, fs, r⟩ := x
      rw [readerNew_append hr t]
      simp only
      split
      · exact List.prefix_refl _
      · cases fileIndex paths e with
        | none => exact List.prefix_refl _
        | some i =>
          simp only
          cases hd : readData fs r with
          | err c => simp only [okPrefix]; exact List.nil_prefix
          | panic s => simp only [okPrefix]; exact List.nil_prefix
          | ok y =>
            obtain ⟨c, r'⟩ := y
            rw [readData_append_ok hd t]
            simp only [okPrefix]
            exact List.prefix_cons_inj _ |>.mpr (ih r' t)

/-- **a trailer inside the prefix ends the iteration for good**: when the iteration over `bs` hands out no error item, the
iteration over any extension `bs ++ t` is the very same list — what follows (more bytes, or the decoder's failure) is never read -/
theorem iterateE_append_clean (paths : List Bytes) (sizes : List Nat) : ∀ (fuel : Nat) (bs t : Bytes),
    (∀ o ∈ iterateE paths sizes fuel bs, o.isOk = true) →
    iterateE paths sizes fuel (bs ++ t) = iterateE paths sizes fuel bs := by
  intro fuel
  induction fuel with
  | zero => intro bs t _; rfl
  | succ fuel ih =>
    intro bs t hall
    unfold iterateE at hall ⊢
    cases hr : readerNew sizes bs with
    | err c => rw [hr] at hall; exact absurd (hall _ List.mem_cons_self) (by simp [Out.isOk])
    | panic s => rw [hr] at hall; exact absurd (hall _ List.mem_cons_self) (by simp [Out.isOk])
    | ok x =>
      obtain ⟨e, fs, r⟩ := x
      rw [hr] at hall
      rw [readerNew_append hr t]
      simp only at hall ⊢
      split
      · rfl
      · rename_i htr
        rw [if_neg htr] at hall
        cases hfi : fileIndex paths e with
        | none => rfl
        | some i =>
          rw [hfi] at hall
          simp only at hall ⊢
          cases hd : readData fs r with
          | err c => rw [hd] at hall; exact absurd (hall _ List.mem_cons_self) (by simp [Out.isOk])
          | panic s => rw [hd] at hall; exact absurd (hall _ List.mem_cons_self) (by simp [Out.isOk])
          | ok y =>
            obtain ⟨c, r'⟩ := y
            rw [hd] at hall
            rw [readData_append_ok hd t]
            simp only at hall ⊢
            rw [ih r' t (fun o ho => hall o (List.mem_cons_of_mem _ ho))]

end RpmVerif.FileIter
