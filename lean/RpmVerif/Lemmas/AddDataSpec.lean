import RpmVerif.Spec.AddData
/-! The driver's decision procedure `splittableB` decides the declarative `Splittable` (C17). -/
namespace RpmVerif.AddDataSpec

theorem Trail.append {u v : Bytes} (hu : Trail u) (hv : Trail v) : Trail (u ++ v) := by
  induction hu with
  | nil => exact hv
  | slash _ ih => exact Trail.slash ih
  | slashDot _ ih => exact Trail.slashDot ih

/-- what `dropTrailRev` removes is a reversed `Trail` -/
theorem dropTrailRev_spec (x : Bytes) : ∃ t, x = t ++ dropTrailRev x ∧ Trail t.reverse := by
  fun_induction dropTrailRev x with
  | case1 r ih =>
    obtain ⟨t, ht, hT⟩ := ih
    refine ⟨47 :: t, by rw [List.cons_append, ← ht], ?_⟩
    rw [List.reverse_cons]
    exact Trail.append hT (Trail.slash Trail.nil)
  | case2 r ih =>
    obtain ⟨t, ht, hT⟩ := ih
    refine ⟨46 :: 47 :: t, by rw [List.cons_append, List.cons_append, ← ht], ?_⟩
    rw [List.reverse_cons, List.reverse_cons, List.append_assoc]
    exact Trail.append hT (Trail.slashDot Trail.nil)
  | case3 r h1 h2 => exact ⟨[], rfl, Trail.nil⟩

theorem dropTrailRev_cons_sep (x : Bytes) : dropTrailRev (47 :: x) = dropTrailRev x := by
  rw [dropTrailRev]

theorem dropTrailRev_cons_dot_sep (x : Bytes) : dropTrailRev (46 :: 47 :: x) = dropTrailRev x := by
  rw [dropTrailRev]

/-- a reversed trail in front of `x` is dropped -/
theorem dropTrailRev_trail {t : Bytes} (h : Trail t) (x : Bytes) :
    dropTrailRev (t.reverse ++ x) = dropTrailRev x := by
  induction h generalizing x with
  | nil => rfl
  | slash _ ih =>
    rw [List.reverse_cons, List.append_assoc, ih]
    exact dropTrailRev_cons_sep x
  | slashDot _ ih =>
    rw [List.reverse_cons, List.reverse_cons, List.append_assoc, List.append_assoc, ih]
    exact dropTrailRev_cons_dot_sep x

/-- nothing is dropped in front of a reversed real name -/
theorem dropTrailRev_name {c : UInt8} {y : Bytes} (hc : c ≠ 47) (hy : c = 46 → ∀ z, y ≠ 47 :: z) :
    dropTrailRev (c :: y) = c :: y := by
  unfold dropTrailRev
  split
  · next r h => simp only [List.cons.injEq] at h; exact absurd h.1 hc
  · next r h =>
    simp only [List.cons.injEq] at h
    exact absurd h.2 (hy h.1 r)
  · rfl

theorem validStartB_iff (dest : Bytes) : validStartB dest = true ↔ ValidStart dest := by
  unfold validStartB ValidStart
  split
  · next r => simp
  · next r => simp
  · next h1 h2 =>
    simp only [Bool.false_eq_true, false_iff, not_or, not_exists]
    exact ⟨fun r e => h1 r e, fun r e => h2 r e⟩

theorem reverse_eq_dot {n : Bytes} : n.reverse = [46] ↔ n = [46] := by
  constructor <;> intro h
  · have := congrArg List.reverse h; simpa using this
  · rw [h]; rfl

theorem reverse_eq_dotdot {n : Bytes} : n.reverse = [46, 46] ↔ n = [46, 46] := by
  constructor <;> intro h
  · have := congrArg List.reverse h; simpa using this
  · rw [h]; rfl

theorem splittableB_of_split {dest d name trail : Bytes} (hv : ValidStart dest) (h : Split dest d name trail) :
    splittableB dest = true := by
  have hne : name.reverse ≠ [] := by simpa using h.nonempty
  have hrev : dest.reverse = trail.reverse ++ (name.reverse ++ 47 :: d.reverse) := by
    rw [h.eq]; simp
  have hall : ∀ a ∈ name.reverse, (a != 47) = true := by
    intro a ha
    have : a ∈ name := List.mem_reverse.mp ha
    have : a ≠ 47 := fun e => h.noSep (e ▸ this)
    simpa using this
  have hdrop : dropTrailRev dest.reverse = name.reverse ++ 47 :: d.reverse := by
    rw [hrev, dropTrailRev_trail h.trail]
    cases hn : name.reverse with
    | nil => exact absurd hn hne
    | cons c y =>
      rw [List.cons_append]
      apply dropTrailRev_name
      · have := hall c (by rw [hn]; simp)
        simpa using this
      · intro hc z hz
        subst hc
        cases y with
        | nil => exact h.notDot (reverse_eq_dot.mp hn)
        | cons y0 y' =>
          simp only [List.cons_append, List.cons.injEq] at hz
          have := hall y0 (by rw [hn]; simp)
          rw [hz.1] at this
          simp at this
  unfold splittableB
  rw [(validStartB_iff dest).mpr hv, hdrop]
  simp only [Bool.true_and]
  rw [List.takeWhile_append_of_pos hall, List.dropWhile_append_of_pos hall]
  have hn1 : name.reverse ≠ [46] := fun e => h.notDot (reverse_eq_dot.mp e)
  have hn2 : name.reverse ≠ [46, 46] := fun e => h.notDotDot (reverse_eq_dotdot.mp e)
  simp [h.nonempty, hn1, hn2]

theorem split_of_splittableB {dest : Bytes} (h : splittableB dest = true) : Splittable dest := by
  unfold splittableB at h
  simp only [Bool.and_eq_true, Bool.not_eq_eq_eq_not, Bool.not_true, bne_iff_ne, ne_eq,
    List.isEmpty_eq_false_iff] at h
  obtain ⟨hv, ⟨⟨⟨hne, hnd⟩, hndd⟩, hrest⟩⟩ := h
  refine ⟨(validStartB_iff dest).mp hv, ?_⟩
  obtain ⟨t, ht, hT⟩ := dropTrailRev_spec dest.reverse
  generalize hr : dropTrailRev dest.reverse = r at *
  have hsplit : r = r.takeWhile (fun b => b != 47) ++ r.dropWhile (fun b => b != 47) :=
    (List.takeWhile_append_dropWhile).symm
  generalize hnm : r.takeWhile (fun b => b != 47) = nm at *
  generalize hrs : r.dropWhile (fun b => b != 47) = rs at *
  cases rs with
  | nil => exact absurd rfl hrest
  | cons c dr =>
    have hc : c = 47 := by
      have := List.head?_dropWhile_not (fun b => b != 47) r
      rw [hrs] at this
      simpa using this
    subst hc
    have hdest : dest = dr.reverse ++ 47 :: (nm.reverse ++ t.reverse) := by
      have := congrArg List.reverse ht
      rw [List.reverse_reverse, hsplit] at this
      rw [this]; simp
    refine ⟨dr.reverse, nm.reverse, t.reverse, hdest, by simpa using hne, ?_, ?_, ?_, hT⟩
    · intro hm
      have hm' : (47 : UInt8) ∈ r.takeWhile (fun b => b != 47) := by rw [hnm]; exact List.mem_reverse.mp hm
      have hall := List.all_takeWhile (p := fun b => b != 47) (l := r)
      rw [List.all_eq_true] at hall
      have := hall 47 hm'
      simp at this
    · intro e; exact hnd (reverse_eq_dot.mp e)
    · intro e; exact hndd (reverse_eq_dotdot.mp e)

end RpmVerif.AddDataSpec
