import RpmVerif.Model.ShaSink
import RpmVerif.Lemmas.PayloadWriter
/-!
Lemmas for Model/ShaSink.lean: every machine over the hashing writer (`HSink`, `HWriter`, …) projects onto its twin over
the bare compressor (`PWriter.Sink`, `PWriter.Writer`, …) — same outcome, same compressor state —, and keeps the invariant
`Inv pre h`: the compressor's accepted bytes are `pre` (what it held when the `Sha256Writer` was made) followed by exactly
the hashed bytes.
-/
namespace RpmVerif.ShaSink
open RpmVerif.Cpio RpmVerif.Gen RpmVerif.PWriter

/-- accepted by the compressor = `pre` ++ hashed -/
def Inv (pre : Bytes) (h : HSink) : Prop := h.inner.out = pre ++ h.hashed

/-- forget the hasher -/
def HWriter.proj (w : HWriter) : Writer := ⟨w.inner.inner, w.written, w.fileSize, w.headerSize, w.header⟩

theorem HSink.write_proj (pre : Bytes) (h : HSink) (buf : Bytes) :
    (h.write buf).1 = (h.inner.write buf).1 ∧ (h.write buf).2.inner = (h.inner.write buf).2
    ∧ (Inv pre h → Inv pre (h.write buf).2)
    ∧ (∀ n, (h.write buf).1 = .ok n → (h.write buf).2.hashed = h.hashed ++ buf.take n)
    ∧ (∀ c, (h.write buf).1 = .err c → (h.write buf).2.hashed = h.hashed) := by
  obtain ⟨_, _, _, _, h5⟩ := Sink.write_spec h.inner buf
  unfold HSink.write
  rcases hw : h.inner.write buf with ⟨r, s⟩
  rw [hw] at h5
  simp only at h5
  rcases h5 with ⟨n, hr, hn, hout⟩ | ⟨hr, hout⟩
  · subst hr
    simp only [hn, if_true]
    refine ⟨trivial, trivial, fun hi => ?_, fun k hk => by cases hk; rfl, fun c hc => by cases hc⟩
    show s.out = pre ++ (h.hashed ++ buf.take n)
    rw [hout, hi, List.append_assoc]
  · rcases hr with hr | hr <;> subst hr <;> dsimp only
    · refine ⟨rfl, rfl, fun hi => ?_, fun k hk => ?_, fun c _ => rfl⟩
      · show s.out = pre ++ h.hashed
        rw [hout]; exact hi
      · cases hk
    · refine ⟨rfl, rfl, fun hi => ?_, fun k hk => ?_, fun c _ => rfl⟩
      · show s.out = pre ++ h.hashed
        rw [hout]; exact hi
      · cases hk

/-- `&buf[..n]` never panics: the hashing layer adds no outcome of its own -/
theorem HSink.write_no_new_panic (h : HSink) (buf : Bytes) (p : String) :
    (h.write buf).1 = .panic p → (h.inner.write buf).1 = .panic p := by
  intro hp
  rw [← (HSink.write_proj [] h buf).1]; exact hp

/-- two `write` functions related by a projection `π` (on states satisfying `P`) have related `write_all` loops -/
theorem loop_proj {σ τ : Type} (w₁ : σ → Bytes → Out Nat × σ) (w₂ : τ → Bytes → Out Nat × τ) (π : σ → τ) (P : σ → Prop)
    (hstep : ∀ s buf, P s → (w₁ s buf).1 = (w₂ (π s) buf).1 ∧ π (w₁ s buf).2 = (w₂ (π s) buf).2 ∧ P (w₁ s buf).2) :
    ∀ (fuel : Nat) (buf : Bytes) (s : σ), P s →
      (writeAllLoop w₁ fuel buf s).1 = (writeAllLoop w₂ fuel buf (π s)).1
      ∧ π (writeAllLoop w₁ fuel buf s).2 = (writeAllLoop w₂ fuel buf (π s)).2
      ∧ P (writeAllLoop w₁ fuel buf s).2 := by
  intro fuel
  induction fuel with
  | zero =>
    intro buf s hp
    cases buf with
    | nil => exact ⟨rfl, rfl, hp⟩
    | cons b bs => exact ⟨rfl, rfl, hp⟩
  | succ f ih =>
    intro buf s hp
    cases buf with
    | nil => exact ⟨rfl, rfl, hp⟩
    | cons b bs =>
      obtain ⟨a1, a2, a3⟩ := hstep s (b :: bs) hp
      unfold writeAllLoop
      rcases h1 : w₁ s (b :: bs) with ⟨r, s'⟩
      rcases h2 : w₂ (π s) (b :: bs) with ⟨r', t'⟩
      rw [h1, h2] at a1 a2
      rw [h1] at a3
      simp only at a1 a2 a3
      subst a1 a2
      cases r with
      | ok n =>
        cases n with
        | zero => exact ⟨rfl, rfl, a3⟩
        | succ n => exact ih _ _ a3
      | err c =>
        by_cases hc : c = "interrupted"
        · simp only [hc, if_true]; exact ih _ _ a3
        · simp only [hc, if_false]; exact ⟨trivial, trivial, a3⟩
      | panic p => exact ⟨rfl, rfl, a3⟩

theorem HSink.writeAll_proj (pre : Bytes) (h : HSink) (buf : Bytes) (hi : Inv pre h) :
    (h.writeAll buf).1 = (h.inner.writeAll buf).1 ∧ (h.writeAll buf).2.inner = (h.inner.writeAll buf).2
    ∧ Inv pre (h.writeAll buf).2 :=
  loop_proj HSink.write Sink.write HSink.inner (Inv pre)
    (fun s b hp => ⟨(HSink.write_proj pre s b).1, (HSink.write_proj pre s b).2.1, (HSink.write_proj pre s b).2.2.1 hp⟩)
    _ buf h hi

/-! ## the `Writer` over the hashing sink -/

theorem HWriter.tryWriteHeader_proj (pre : Bytes) (w : HWriter) (hi : Inv pre w.inner) :
    (w.tryWriteHeader).1 = (w.proj.tryWriteHeader).1 ∧ (w.tryWriteHeader).2.proj = (w.proj.tryWriteHeader).2
    ∧ Inv pre (w.tryWriteHeader).2.inner := by
  unfold HWriter.tryWriteHeader Writer.tryWriteHeader
  by_cases he : w.header.isEmpty
  · have he' : w.proj.header.isEmpty := he
    simp only [he, he', if_true]
    exact ⟨trivial, trivial, hi⟩
  · have he' : ¬ w.proj.header.isEmpty := he
    simp only [he, he']
    obtain ⟨a1, a2, a3⟩ := HSink.writeAll_proj pre w.inner w.header hi
    have e : w.proj.inner.writeAll w.proj.header = w.inner.inner.writeAll w.header := rfl
    rw [e]
    rcases h1 : w.inner.writeAll w.header with ⟨r, s⟩
    rcases h2 : w.inner.inner.writeAll w.header with ⟨r', t⟩
    rw [h1, h2] at a1 a2
    rw [h1] at a3
    simp only at a1 a2 a3
    subst a1 a2
    cases r with
    | ok u => exact ⟨rfl, rfl, a3⟩
    | err c => exact ⟨rfl, rfl, a3⟩
    | panic p => exact ⟨rfl, rfl, a3⟩

theorem HWriter.write_proj (pre : Bytes) (w : HWriter) (buf : Bytes) (hi : Inv pre w.inner) :
    (w.write buf).1 = (w.proj.write buf).1 ∧ (w.write buf).2.proj = (w.proj.write buf).2
    ∧ Inv pre (w.write buf).2.inner := by
  unfold HWriter.write Writer.write
  have ew : w.proj.written = w.written := rfl
  have ef : w.proj.fileSize = w.fileSize := rfl
  rw [ew, ef]
  cases hu : u32Add w.written (buf.length % 4294967296) with
  | none => exact ⟨rfl, rfl, hi⟩
  | some sum =>
    simp only
    by_cases hle : sum ≤ w.fileSize
    · simp only [hle, if_true]
      obtain ⟨a1, a2, a3⟩ := HWriter.tryWriteHeader_proj pre w hi
      rcases h1 : w.tryWriteHeader with ⟨r, w1⟩
      rcases h2 : w.proj.tryWriteHeader with ⟨r', v1⟩
      rw [h1, h2] at a1 a2
      rw [h1] at a3
      simp only at a1 a2 a3
      subst a1 a2
      cases r with
      | ok u =>
        simp only
        obtain ⟨b1, b2, b3, _⟩ := HSink.write_proj pre w1.inner buf
        have e : w1.proj.inner.write buf = w1.inner.inner.write buf := rfl
        rw [e]
        rcases h3 : w1.inner.write buf with ⟨q, s⟩
        rcases h4 : w1.inner.inner.write buf with ⟨q', t⟩
        rw [h3, h4] at b1 b2
        rw [h3] at b3
        simp only at b1 b2 b3
        subst b1 b2
        have b3' := b3 a3
        cases q with
        | ok n =>
          simp only
          have ew1 : w1.proj.written = w1.written := rfl
          rw [ew1]
          cases u32Add w1.written (n % 4294967296) with
          | some wr => exact ⟨rfl, rfl, b3'⟩
          | none => exact ⟨rfl, rfl, b3'⟩
        | err c => exact ⟨rfl, rfl, b3'⟩
        | panic p => exact ⟨rfl, rfl, b3'⟩
      | err c => exact ⟨rfl, rfl, a3⟩
      | panic p => exact ⟨rfl, rfl, a3⟩
    · simp only [hle, if_false]
      exact ⟨trivial, trivial, hi⟩

theorem HWriter.writeAll_proj (pre : Bytes) (w : HWriter) (buf : Bytes) (hi : Inv pre w.inner) :
    (w.writeAll buf).1 = (w.proj.writeAll buf).1 ∧ (w.writeAll buf).2.proj = (w.proj.writeAll buf).2
    ∧ Inv pre (w.writeAll buf).2.inner :=
  loop_proj HWriter.write Writer.write HWriter.proj (fun w => Inv pre w.inner)
    (fun s b hp => HWriter.write_proj pre s b hp) _ buf w hi

theorem HWriter.doFinish_proj (pre : Bytes) (w : HWriter) (hi : Inv pre w.inner) :
    (w.doFinish).1 = (w.proj.doFinish).1 ∧ (w.doFinish).2.proj = (w.proj.doFinish).2
    ∧ Inv pre (w.doFinish).2.inner := by
  unfold HWriter.doFinish Writer.doFinish
  obtain ⟨a1, a2, a3⟩ := HWriter.tryWriteHeader_proj pre w hi
  rcases h1 : w.tryWriteHeader with ⟨r, w1⟩
  rcases h2 : w.proj.tryWriteHeader with ⟨r', v1⟩
  rw [h1, h2] at a1 a2
  rw [h1] at a3
  simp only at a1 a2 a3
  subst a1 a2
  cases r with
  | ok u =>
    simp only
    have e1 : w1.proj.written = w1.written := rfl
    have e2 : w1.proj.fileSize = w1.fileSize := rfl
    have e3 : w1.proj.headerSize = w1.headerSize := rfl
    rw [e1, e2, e3]
    by_cases hw : w1.written = w1.fileSize
    · simp only [hw, if_true]
      by_cases hp : padLen (w1.headerSize + w1.fileSize) = 0
      · simp only [hp, if_true]; exact ⟨trivial, trivial, a3⟩
      · simp only [hp, if_false]
        obtain ⟨b1, b2, b3⟩ := HSink.writeAll_proj pre w1.inner (pad (w1.headerSize + w1.fileSize)) a3
        have e : w1.proj.inner.writeAll (pad (w1.headerSize + w1.fileSize))
            = w1.inner.inner.writeAll (pad (w1.headerSize + w1.fileSize)) := rfl
        rw [e]
        rcases h3 : w1.inner.writeAll (pad (w1.headerSize + w1.fileSize)) with ⟨q, s⟩
        rcases h4 : w1.inner.inner.writeAll (pad (w1.headerSize + w1.fileSize)) with ⟨q', t⟩
        rw [h3, h4] at b1 b2
        rw [h3] at b3
        simp only at b1 b2 b3
        subst b1 b2
        cases q with
        | ok u' =>
          simp only
          unfold HSink.flush
          cases s.inner.flush with
          | ok u'' => exact ⟨rfl, rfl, b3⟩
          | err c => exact ⟨rfl, rfl, b3⟩
          | panic p => exact ⟨rfl, rfl, b3⟩
        | err c => exact ⟨rfl, rfl, b3⟩
        | panic p => exact ⟨rfl, rfl, b3⟩
    · simp only [hw, if_false]; exact ⟨trivial, trivial, a3⟩
  | err c => exact ⟨rfl, rfl, a3⟩
  | panic p => exact ⟨rfl, rfl, a3⟩

theorem HWriter.finish_proj (pre : Bytes) (w : HWriter) (hi : Inv pre w.inner) :
    (w.finish).1 = (w.proj.finish).1 ∧ (w.finish).2.inner = (w.proj.finish).2 ∧ Inv pre (w.finish).2 := by
  obtain ⟨a1, a2, a3⟩ := HWriter.doFinish_proj pre w hi
  unfold HWriter.finish Writer.finish
  rcases h1 : w.doFinish with ⟨r, w1⟩
  rcases h2 : w.proj.doFinish with ⟨r', v1⟩
  rw [h1, h2] at a1 a2
  rw [h1] at a3
  simp only at a1 a2 a3
  subst a1 a2
  exact ⟨rfl, rfl, a3⟩

theorem trailerH_proj (pre : Bytes) (h : HSink) (hi : Inv pre h) :
    (trailerH h).1 = (trailerW h.inner).1 ∧ (trailerH h).2.inner = (trailerW h.inner).2 ∧ Inv pre (trailerH h).2 :=
  HWriter.finish_proj pre (HWriter.new { name := cpioTrailerName, nlink := 1 } 0 none h) hi

theorem entryH_proj (pre : Bytes) (m : EntryMeta) (content : Bytes) (h : HSink) (hi : Inv pre h) :
    (entryH m content h).1 = (entryW m content h.inner).1 ∧ (entryH m content h).2.inner = (entryW m content h.inner).2
    ∧ Inv pre (entryH m content h).2 := by
  unfold entryH entryW
  obtain ⟨a1, a2, a3⟩ := HWriter.writeAll_proj pre (HWriter.new m (content.length % 4294967296) none h) content hi
  have e : (HWriter.new m (content.length % 4294967296) none h).proj = Writer.new m (content.length % 4294967296) none h.inner := rfl
  rw [e] at a1 a2
  rcases h1 : (HWriter.new m (content.length % 4294967296) none h).writeAll content with ⟨r, w1⟩
  rcases h2 : (Writer.new m (content.length % 4294967296) none h.inner).writeAll content with ⟨r', v1⟩
  rw [h1, h2] at a1 a2
  rw [h1] at a3
  simp only at a1 a2 a3
  subst a1 a2
  cases r with
  | ok u => exact HWriter.finish_proj pre w1 a3
  | err c => exact ⟨rfl, rfl, a3⟩
  | panic p => exact ⟨rfl, rfl, a3⟩

theorem entriesH_proj (pre : Bytes) (es : List (EntryMeta × Bytes)) (h : HSink) (hi : Inv pre h) :
    (entriesH es h).1 = (entriesW es h.inner).1 ∧ (entriesH es h).2.inner = (entriesW es h.inner).2
    ∧ Inv pre (entriesH es h).2 := by
  induction es generalizing h with
  | nil => exact trailerH_proj pre h hi
  | cons x r ih =>
    obtain ⟨m, c⟩ := x
    obtain ⟨a1, a2, a3⟩ := entryH_proj pre m c h hi
    unfold entriesH entriesW
    rcases h1 : entryH m c h with ⟨o, h'⟩
    rcases h2 : entryW m c h.inner with ⟨o', s'⟩
    rw [h1, h2] at a1 a2
    rw [h1] at a3
    simp only at a1 a2 a3
    subst a1 a2
    cases o with
    | ok u => exact ih h' a3
    | err c => exact ⟨rfl, rfl, a3⟩
    | panic p => exact ⟨rfl, rfl, a3⟩

/-! ## the large-file branch -/

theorem HSink.writeAll_spec (pre : Bytes) (h : HSink) (buf : Bytes) (hi : Inv pre h) :
    Inv pre (h.writeAll buf).2
    ∧ (h.writeAll buf).2.inner.script.length ≤ h.inner.script.length
    ∧ (h.writeAll buf).2.inner.flushFails = h.inner.flushFails
    ∧ (h.inner.script = [] → (h.writeAll buf).1 = .ok ())
    ∧ (((h.writeAll buf).1 = .ok () ∧ (h.writeAll buf).2.inner.out = h.inner.out ++ buf)
       ∨ ((h.writeAll buf).1 = .err "io" ∨ (h.writeAll buf).1 = .err "write-zero")) := by
  obtain ⟨a1, a2, a3⟩ := HSink.writeAll_proj pre h buf hi
  obtain ⟨b1, b2, b3, b4⟩ := Sink.writeAll_spec h.inner buf
  rw [a1, a2]
  refine ⟨a3, b1, b2, fun hn => by rw [b3 hn], ?_⟩
  rcases b4 with ⟨c1, c2⟩ | ⟨c1, _⟩
  · exact Or.inl ⟨c1, c2⟩
  · exact Or.inr c1

/-- `{:08x}` of a `u32` cast: only the low 32 bits matter -/
theorem fmtHex8_mod (n : Nat) : fmtHex8 (n % 4294967296) = fmtHex8 n := by
  unfold fmtHex8
  have e1 : n % 4294967296 / 268435456 % 16 = n / 268435456 % 16 := by omega
  have e2 : n % 4294967296 / 16777216 % 16 = n / 16777216 % 16 := by omega
  have e3 : n % 4294967296 / 1048576 % 16 = n / 1048576 % 16 := by omega
  have e4 : n % 4294967296 / 65536 % 16 = n / 65536 % 16 := by omega
  have e5 : n % 4294967296 / 4096 % 16 = n / 4096 % 16 := by omega
  have e6 : n % 4294967296 / 256 % 16 = n / 256 % 16 := by omega
  have e7 : n % 4294967296 / 16 % 16 = n / 16 % 16 := by omega
  have e8 : n % 4294967296 % 16 = n % 16 := by omega
  rw [e1, e2, e3, e4, e5, e6, e7, e8]

theorem strippedHeader_mod (n : Nat) : strippedHeader (n % 4294967296) = strippedHeader n := by
  unfold strippedHeader; rw [fmtHex8_mod]

/-- one file of the large-file loop: header, content, data padding, `flush` -/
theorem largeEntryH_spec (pre : Bytes) (idx : Nat) (c : Bytes) (h : HSink) (hi : Inv pre h) :
    Inv pre (largeEntryH idx c h).2
    ∧ (largeEntryH idx c h).2.inner.script.length ≤ h.inner.script.length
    ∧ (largeEntryH idx c h).2.inner.flushFails = h.inner.flushFails
    ∧ (h.inner.script = [] → h.inner.flushFails = false → (largeEntryH idx c h).1 = .ok ())
    ∧ (((largeEntryH idx c h).1 = .ok ()
          ∧ (largeEntryH idx c h).2.inner.out = h.inner.out ++ (strippedHeader idx ++ (c ++ strippedDataPad c.length)))
       ∨ ((largeEntryH idx c h).1 = .err "io" ∨ (largeEntryH idx c h).1 = .err "write-zero")) := by
  unfold largeEntryH
  rw [strippedHeader_mod]
  obtain ⟨a1, a2, a3, a4, a5⟩ := HSink.writeAll_spec pre h (strippedHeader idx) hi
  rcases hw1 : h.writeAll (strippedHeader idx) with ⟨r1, h1⟩
  rw [hw1] at a1 a2 a3 a4 a5
  simp only at a1 a2 a3 a4 a5
  rcases a5 with ⟨e1, o1⟩ | e1
  · subst e1
    simp only [andThen]
    obtain ⟨b1, b2, b3, b4, b5⟩ := HSink.writeAll_spec pre h1 c a1
    rcases hw2 : h1.writeAll c with ⟨r2, h2⟩
    rw [hw2] at b1 b2 b3 b4 b5
    simp only at b1 b2 b3 b4 b5
    rcases b5 with ⟨e2, o2⟩ | e2
    · subst e2
      simp only
      obtain ⟨c1, c2, c3, c4, c5⟩ := HSink.writeAll_spec pre h2 (strippedDataPad c.length) b1
      rcases hw3 : h2.writeAll (strippedDataPad c.length) with ⟨r3, h3⟩
      rw [hw3] at c1 c2 c3 c4 c5
      simp only at c1 c2 c3 c4 c5
      rcases c5 with ⟨e3, o3⟩ | e3
      · subst e3
        simp only
        have hff : h3.inner.flushFails = h.inner.flushFails := by rw [c3, b3, a3]
        have hout : h3.inner.out = h.inner.out ++ (strippedHeader idx ++ (c ++ strippedDataPad c.length)) := by
          rw [o3, o2, o1]; simp only [List.append_assoc]
        unfold HSink.flush Sink.flush
        cases hf : h3.inner.flushFails with
        | true =>
          simp only [if_true]
          refine ⟨c1, by omega, hff, fun _ hf' => ?_, Or.inr (Or.inl trivial)⟩
          rw [← hff, hf] at hf'; cases hf'
        | false =>
          simp only [Bool.false_eq_true, if_false]
          exact ⟨c1, by omega, hff, fun _ _ => trivial, Or.inl ⟨trivial, hout⟩⟩
      · have hne : h.inner.script ≠ [] := by
          intro hn
          have s1 : h1.inner.script = [] := List.eq_nil_of_length_eq_zero (by rw [hn] at a2; simpa using a2)
          have s2 : h2.inner.script = [] := List.eq_nil_of_length_eq_zero (by rw [s1] at b2; simpa using b2)
          have := c4 s2
          rw [this] at e3; rcases e3 with e3 | e3 <;> cases e3
        rcases e3 with e3 | e3 <;> subst e3 <;> simp only
        · exact ⟨c1, by omega, by rw [c3, b3, a3], fun hn => absurd hn hne, Or.inr (Or.inl trivial)⟩
        · exact ⟨c1, by omega, by rw [c3, b3, a3], fun hn => absurd hn hne, Or.inr (Or.inr trivial)⟩
    · have hne : h.inner.script ≠ [] := by
        intro hn
        have s1 : h1.inner.script = [] := List.eq_nil_of_length_eq_zero (by rw [hn] at a2; simpa using a2)
        have := b4 s1
        rw [this] at e2; rcases e2 with e2 | e2 <;> cases e2
      rcases e2 with e2 | e2 <;> subst e2 <;> simp only
      · exact ⟨b1, by omega, by rw [b3, a3], fun hn => absurd hn hne, Or.inr (Or.inl trivial)⟩
      · exact ⟨b1, by omega, by rw [b3, a3], fun hn => absurd hn hne, Or.inr (Or.inr trivial)⟩
  · have hne : h.inner.script ≠ [] := by
      intro hn
      have := a4 hn
      rw [this] at e1; rcases e1 with e1 | e1 <;> cases e1
    rcases e1 with e1 | e1 <;> subst e1 <;> simp only [andThen]
    · exact ⟨a1, a2, a3, fun hn => absurd hn hne, Or.inr (Or.inl trivial)⟩
    · exact ⟨a1, a2, a3, fun hn => absurd hn hne, Or.inr (Or.inr trivial)⟩

/-- the trailer through the hashing writer -/
theorem trailerH_spec (pre : Bytes) (h : HSink) (hi : Inv pre h) :
    Inv pre (trailerH h).2
    ∧ (trailerH h).2.inner.script.length ≤ h.inner.script.length
    ∧ (trailerH h).2.inner.flushFails = h.inner.flushFails
    ∧ (h.inner.script = [] → h.inner.flushFails = false → (trailerH h).1 = .ok ())
    ∧ (((trailerH h).1 = .ok () ∧ (trailerH h).2.inner.out = h.inner.out ++ trailer)
       ∨ ((trailerH h).1 = .err "io" ∨ (trailerH h).1 = .err "write-zero")) := by
  obtain ⟨a1, a2, a3⟩ := trailerH_proj pre h hi
  obtain ⟨b1, b2, b3, b4⟩ := trailerW_spec h.inner
  rw [a1, a2]
  exact ⟨a3, b1, b2, b3, b4⟩

/-- the whole large-file loop plus the trailer -/
theorem largeEntriesH_spec (pre : Bytes) (cs : List Bytes) (idx : Nat) (h : HSink) (hi : Inv pre h) :
    Inv pre (largeEntriesH idx cs h).2
    ∧ (largeEntriesH idx cs h).2.inner.script.length ≤ h.inner.script.length
    ∧ (largeEntriesH idx cs h).2.inner.flushFails = h.inner.flushFails
    ∧ (h.inner.script = [] → h.inner.flushFails = false → (largeEntriesH idx cs h).1 = .ok ())
    ∧ (((largeEntriesH idx cs h).1 = .ok ()
          ∧ (largeEntriesH idx cs h).2.inner.out = h.inner.out ++ archiveStrippedFrom idx cs)
       ∨ ((largeEntriesH idx cs h).1 = .err "io" ∨ (largeEntriesH idx cs h).1 = .err "write-zero")) := by
  induction cs generalizing idx h with
  | nil => exact trailerH_spec pre h hi
  | cons c r ih =>
    obtain ⟨a1, a2, a3, a4, a5⟩ := largeEntryH_spec pre idx c h hi
    unfold largeEntriesH
    rcases hw : largeEntryH idx c h with ⟨o, h'⟩
    rw [hw] at a1 a2 a3 a4 a5
    simp only at a1 a2 a3 a4 a5
    rcases a5 with ⟨e1, o1⟩ | e1
    · subst e1
      simp only
      obtain ⟨b1, b2, b3, b4, b5⟩ := ih (idx + 1) h' a1
      refine ⟨b1, by omega, by rw [b3, a3], fun hn hf => b4 ?_ (by rw [a3]; exact hf), ?_⟩
      · exact List.eq_nil_of_length_eq_zero (by rw [hn] at a2; simpa using a2)
      · rcases b5 with ⟨c1, c2⟩ | c1
        · left; refine ⟨c1, ?_⟩
          rw [c2, o1]; simp only [archiveStrippedFrom, List.append_assoc]
        · right; exact c1
    · have hne : ¬ (h.inner.script = [] ∧ h.inner.flushFails = false) := by
        rintro ⟨hn, hf⟩
        have := a4 hn hf
        rw [this] at e1; rcases e1 with e1 | e1 <;> cases e1
      rcases e1 with e1 | e1 <;> subst e1 <;> simp only
      · exact ⟨a1, a2, a3, fun hn hf => absurd ⟨hn, hf⟩ hne, Or.inr (Or.inl trivial)⟩
      · exact ⟨a1, a2, a3, fun hn hf => absurd ⟨hn, hf⟩ hne, Or.inr (Or.inr trivial)⟩

/-- the standard-mode loop plus the trailer through the hashing writer (contents fit a `u32`) -/
theorem entriesH_spec (pre : Bytes) (es : List (EntryMeta × Bytes)) (hes : ∀ x ∈ es, x.2.length < 4294967296)
    (h : HSink) (hi : Inv pre h) :
    Inv pre (entriesH es h).2
    ∧ (entriesH es h).2.inner.script.length ≤ h.inner.script.length
    ∧ (entriesH es h).2.inner.flushFails = h.inner.flushFails
    ∧ (h.inner.script = [] → h.inner.flushFails = false → (entriesH es h).1 = .ok ())
    ∧ (((entriesH es h).1 = .ok () ∧ (entriesH es h).2.inner.out = h.inner.out ++ archiveOf es)
       ∨ ((entriesH es h).1 = .err "io" ∨ (entriesH es h).1 = .err "write-zero")) := by
  obtain ⟨a1, a2, a3⟩ := entriesH_proj pre es h hi
  obtain ⟨b1, b2, b3, b4⟩ := entriesW_spec es hes h.inner
  rw [a1, a2]
  exact ⟨a3, b1, b2, b3, b4⟩

end RpmVerif.ShaSink
