import RpmVerif.Model.Fs
namespace RpmVerif.Fs

theorem lookup_erase (p q : Path) (l : List (Path × Node)) :
    lookup q (erase p l) = if q = p then none else lookup q l := by
  induction l with
  | nil => simp [erase, lookup]
  | cons e r ih =>
    obtain ⟨a, n⟩ := e
    by_cases h1 : a = p
    · subst h1
      simp only [erase, if_true, ih, lookup]
      by_cases h2 : q = a
      · subst h2; simp
      · have : ¬ a = q := fun h => h2 h.symm
        simp [h2, this]
    · simp only [erase, h1, if_false, lookup, ih]
      by_cases h2 : a = q
      · subst h2
        have : ¬ a = p := h1
        simp [this]
      · simp [h2]

theorem get_set (fs : Fs) (p q : Path) (n : Node) :
    (fs.set p n).get q = if q = p then some n else fs.get q := by
  simp only [Fs.set, Fs.get, lookup, lookup_erase]
  by_cases h : q = p
  · subst h; simp
  · have : ¬ p = q := fun e => h e.symm
    simp [h, this]

theorem get_del (fs : Fs) (p q : Path) :
    (fs.del p).get q = if q = p then none else fs.get q := by
  simp only [Fs.del, Fs.get, lookup_erase]

/-! inversion of the system calls -/

theorem mkdir_ok {fs fs' : Fs} {cs} (h : mkdir fs cs = .ok fs') :
    ∃ q, resolve fs false cs = .ok q ∧ fs.get q = none ∧ fs' = fs.set q (.dir (newDirMode fs q)) := by
  unfold mkdir at h
  split at h
  · cases h
  · rename_i q hq
    split at h
    · cases h
    · rename_i hg
      split at h
      · cases h
      · injection h with h
        exact ⟨q, hq, hg, h.symm⟩

theorem fileCreate_ok {fs fs' : Fs} {cs c} (h : fileCreate fs cs c = .ok fs') :
    ∃ q m, resolve fs true cs = .ok q ∧ fs' = fs.set q (.file c m) ∧
      ((fs.get q = none ∧ m = fs.masked 0o666) ∨ ∃ c0, fs.get q = some (.file c0 m)) := by
  unfold fileCreate at h
  split at h
  · cases h
  · rename_i q hq
    split at h
    · rename_i hg
      split at h
      · cases h
      · injection h with h
        exact ⟨q, _, hq, h.symm, Or.inl ⟨hg, rfl⟩⟩
    · rename_i c0 m hg
      injection h with h
      exact ⟨q, m, hq, h.symm, Or.inr ⟨c0, hg⟩⟩
    · cases h
    · cases h

theorem setPerm_ok {fs fs' : Fs} {cs perm} (h : setPerm fs cs perm = .ok fs') :
    ∃ q, resolve fs true cs = .ok q ∧
      ((∃ m, fs.get q = some (.dir m) ∧ fs' = fs.set q (.dir perm)) ∨
       (∃ c m, fs.get q = some (.file c m) ∧ fs' = fs.set q (.file c perm))) := by
  unfold setPerm at h
  split at h
  · cases h
  · rename_i q hq
    split at h
    · cases h
    · rename_i m hg
      injection h with h
      exact ⟨q, hq, Or.inl ⟨m, hg, h.symm⟩⟩
    · rename_i c m hg
      injection h with h
      exact ⟨q, hq, Or.inr ⟨c, m, hg, h.symm⟩⟩
    · cases h

theorem unlink_ok {fs fs' : Fs} {cs} (h : unlink fs cs = .ok fs') :
    ∃ q n, resolve fs false cs = .ok q ∧ fs.get q = some n ∧ n.isDir = false ∧ fs' = fs.del q := by
  unfold unlink at h
  split at h
  · cases h
  · rename_i q hq
    split at h
    · cases h
    · rename_i n hg
      split at h
      · cases h
      · rename_i hd
        injection h with h
        exact ⟨q, n, hq, hg, by simpa using hd, h.symm⟩

theorem symlink_ok {fs fs' : Fs} {cs t} (h : symlink fs cs t = .ok fs') :
    ∃ q, resolve fs false cs = .ok q ∧ fs.get q = none ∧ t ≠ [] ∧ fs' = fs.set q (.symlink t) := by
  unfold symlink at h
  split at h
  · cases h
  · rename_i ht
    split at h
    · cases h
    · rename_i q hq
      split at h
      · cases h
      · rename_i hg
        split at h
        · cases h
        · injection h with h
          exact ⟨q, hq, hg, by simpa using ht, h.symm⟩

/-- an ordinary file name: not empty, not `.`, not `..` -/
def Normal (c : Name) : Prop := c ≠ dot ∧ c ≠ [] ∧ c ≠ dotdot

/-- a name a file system accepts: at most `NAME_MAX` bytes -/
def Short (c : Name) : Prop := c.length ≤ nameMax

instance (c : Name) : Decidable (Short c) := by unfold Short; infer_instance

theorem nameTooLong_concat (p : Path) (x : Name) : nameTooLong (p ++ [x]) = decide (nameMax < x.length) := by
  simp [nameTooLong]

theorem nameTooLong_of_short {T : Path} (hT : ∀ c ∈ T, Short c) {c : List Name} (hc : ∀ x ∈ c, Short x) :
    nameTooLong (T ++ c) = false := by
  unfold nameTooLong
  cases h : (T ++ c).getLast? with
  | none => rfl
  | some x =>
    have hm : x ∈ T ++ c := List.mem_of_getLast? h
    have : Short x := by
      rcases List.mem_append.mp hm with hm | hm
      · exact hT x hm
      · exact hc x hm
    unfold Short at this
    simp only [decide_eq_false_iff_not]
    omega

instance (c : Name) : Decidable (Normal c) := by unfold Normal; infer_instance

theorem walkComps_cons_normal (fs : Fs) (follow fl cur) (c : Name) (rest : List Name) (hc : Normal c) :
    walkComps fs follow fl cur (c :: rest) =
      match fs.get (cur ++ [c]) with
      | none => if rest.isEmpty then .ok (cur ++ [c]) else .error .ENOENT
      | some (.dir _) => walkComps fs follow fl (cur ++ [c]) rest
      | some (.file _ _) => if rest.isEmpty then .ok (cur ++ [c]) else .error .ENOTDIR
      | some (.symlink t) =>
        if rest.isEmpty && !fl then .ok (cur ++ [c])
        else if t.isEmpty then .error .ENOENT
        else follow (if (parseText t).1 then [] else cur) ((parseText t).2 ++ rest) := by
  obtain ⟨h1, h2, h3⟩ := hc
  rw [walkComps]
  simp only [h1, h2, h3, or_self, if_false]
  generalize fs.get (cur ++ [c]) = o
  cases o with
  | none => rfl
  | some n => cases n <;> rfl

theorem walkComps_exact (fs : Fs) (follow) (fl : Bool) : ∀ (cs : List Name) (cur : Path),
    (∀ c ∈ cs, Normal c) →
    (∀ k, 0 < k → k < cs.length → ∀ t, fs.get (cur ++ cs.take k) ≠ some (.symlink t)) →
    (fl = true → ∀ t, fs.get (cur ++ cs) ≠ some (.symlink t)) →
    ∀ q, walkComps fs follow fl cur cs = .ok q → q = cur ++ cs := by
  intro cs
  induction cs with
  | nil => intro cur _ _ _ q h; simp [walkComps] at h; simp [h]
  | cons c rest ih =>
    intro cur hn hs hl q h
    have hc : Normal c := hn c (by simp)
    rw [walkComps_cons_normal _ _ _ _ _ _ hc] at h
    have hrest : ∀ c ∈ rest, Normal c := fun c' hc' => hn c' (by simp [hc'])
    have hs' : ∀ k, 0 < k → k < rest.length → ∀ t, fs.get ((cur ++ [c]) ++ rest.take k) ≠ some (.symlink t) := by
      intro k hk hk2 t
      have := hs (k + 1) (by omega) (by simp; omega) t
      simpa [List.append_assoc] using this
    have hl' : fl = true → ∀ t, fs.get ((cur ++ [c]) ++ rest) ≠ some (.symlink t) := by
      intro hfl t
      have := hl hfl t
      simpa [List.append_assoc] using this
    cases hg : fs.get (cur ++ [c]) with
    | none =>
      rw [hg] at h
      cases rest with
      | nil => simp at h; simp [h]
      | cons => simp at h
    | some n =>
      rw [hg] at h
      cases n with
      | dir m =>
        have := ih (cur ++ [c]) hrest hs' hl' q h
        simpa [List.append_assoc] using this
      | file c0 m =>
        cases rest with
        | nil => simp at h; simp [h]
        | cons => simp at h
      | symlink t =>
        cases rest with
        | nil =>
          cases hfl : fl with
          | true =>
            exfalso
            exact hl hfl t (by simpa using hg)
          | false =>
            subst hfl
            simp at h; simp [h]
        | cons d r =>
          exfalso
          exact hs 1 (by omega) (by simp) t (by simpa using hg)

theorem walk_exact (fs : Fs) (fl : Bool) (n : Nat) (cs : List Name) (cur : Path)
    (hn : ∀ c ∈ cs, Normal c)
    (hs : ∀ k, 0 < k → k < cs.length → ∀ t, fs.get (cur ++ cs.take k) ≠ some (.symlink t))
    (hl : fl = true → ∀ t, fs.get (cur ++ cs) ≠ some (.symlink t))
    {q} (h : walk fs fl n cur cs = .ok q) : q = cur ++ cs := by
  cases n with
  | zero => exact walkComps_exact fs _ fl cs cur hn hs hl q h
  | succ n => exact walkComps_exact fs _ fl cs cur hn hs hl q h

theorem resolve_exact (fs : Fs) (fl : Bool) (cs : List Name)
    (hn : ∀ c ∈ cs, Normal c)
    (hs : ∀ k, 0 < k → k < cs.length → ∀ t, fs.get (cs.take k) ≠ some (.symlink t))
    (hl : fl = true → ∀ t, fs.get cs ≠ some (.symlink t))
    {q} (h : resolve fs fl cs = .ok q) : q = cs := by
  have := walk_exact fs fl maxSymlinks cs [] hn (by simpa using hs) (by simpa using hl) h
  simpa using this

/-- all components directories: the walk succeeds -/
theorem walkComps_dirs (fs : Fs) (follow) (fl : Bool) : ∀ (cs : List Name) (cur : Path),
    (∀ c ∈ cs, Normal c) →
    (∀ k, 0 < k → k ≤ cs.length → ∃ m, fs.get (cur ++ cs.take k) = some (.dir m)) →
    walkComps fs follow fl cur cs = .ok (cur ++ cs) := by
  intro cs
  induction cs with
  | nil => intro cur _ _; simp [walkComps]
  | cons c rest ih =>
    intro cur hn hd
    have hc : Normal c := hn c (by simp)
    rw [walkComps_cons_normal _ _ _ _ _ _ hc]
    obtain ⟨m, hm⟩ := hd 1 (by omega) (by simp)
    simp at hm
    rw [hm]
    simp only
    have := ih (cur ++ [c]) (fun c' hc' => hn c' (by simp [hc'])) (by
      intro k hk hk2
      have := hd (k + 1) (by omega) (by simp; omega)
      simpa [List.append_assoc] using this)
    simpa [List.append_assoc] using this

theorem resolve_dirs (fs : Fs) (fl : Bool) (cs : List Name)
    (hn : ∀ c ∈ cs, Normal c)
    (hd : ∀ k, 0 < k → k ≤ cs.length → ∃ m, fs.get (cs.take k) = some (.dir m)) :
    resolve fs fl cs = .ok cs := by
  unfold resolve maxSymlinks walk
  have := walkComps_dirs fs (walk fs fl 39) fl cs [] hn (by simpa using hd)
  simpa using this

/-- `fs'` arises from `fs` by changes at the paths `L` only, all of them logged -/
def Ext (fs fs' : Fs) (L : List Path) : Prop :=
  fs'.log = L ++ fs.log ∧ ∀ q, q ∉ L → fs'.get q = fs.get q

theorem Ext.refl (fs : Fs) : Ext fs fs [] := ⟨rfl, fun _ _ => rfl⟩

theorem Ext.trans {a b c : Fs} {L1 L2} (h1 : Ext a b L1) (h2 : Ext b c L2) : Ext a c (L2 ++ L1) := by
  refine ⟨by rw [h2.1, h1.1, List.append_assoc], fun q hq => ?_⟩
  simp only [List.mem_append, not_or] at hq
  rw [h2.2 q hq.1, h1.2 q hq.2]

theorem Ext.set (fs : Fs) (p : Path) (n : Node) : Ext fs (fs.set p n) [p] := by
  refine ⟨rfl, fun q hq => ?_⟩
  simp only [List.mem_singleton] at hq
  simp [get_set, hq]

theorem Ext.del (fs : Fs) (p : Path) : Ext fs (fs.del p) [p] := by
  refine ⟨rfl, fun q hq => ?_⟩
  simp only [List.mem_singleton] at hq
  simp [get_del, hq]

theorem take_append_le {α} (T r : List α) (k : Nat) (h : k ≤ T.length) : (T ++ r).take k = T.take k := by
  rw [List.take_append]
  have : k - T.length = 0 := by omega
  simp [this]

theorem take_append_ge {α} (T r : List α) (k : Nat) (h : T.length ≤ k) : (T ++ r).take k = T ++ r.take (k - T.length) := by
  rw [List.take_append, List.take_of_length_le h]


/-- parents are directories and the last component is not a link that would be followed: the walk
ends at the path itself -/
theorem walkComps_parents (fs : Fs) (follow) (fl : Bool) : ∀ (cs : List Name) (cur : Path),
    (∀ c ∈ cs, Normal c) →
    (∀ k, 0 < k → k < cs.length → ∃ m, fs.get (cur ++ cs.take k) = some (.dir m)) →
    (fl = true → ∀ t, fs.get (cur ++ cs) ≠ some (.symlink t)) →
    walkComps fs follow fl cur cs = .ok (cur ++ cs) := by
  intro cs
  induction cs with
  | nil => intro cur _ _ _; simp [walkComps]
  | cons c rest ih =>
    intro cur hn hd hl
    have hc : Normal c := hn c (by simp)
    rw [walkComps_cons_normal _ _ _ _ _ _ hc]
    cases rest with
    | nil =>
      have hl' := hl
      simp only [List.append_nil] at hl' ⊢
      cases hg : fs.get (cur ++ [c]) with
      | none => simp
      | some n =>
        cases n with
        | dir m => simp [walkComps]
        | file c0 m => simp
        | symlink t =>
          cases hfl : fl with
          | true => exact absurd hg (hl hfl t)
          | false => simp
    | cons d r =>
      obtain ⟨m, hm⟩ := hd 1 (by omega) (by simp)
      simp at hm
      rw [hm]
      simp only
      have := ih (cur ++ [c]) (fun c' hc' => hn c' (by simp [hc'])) (by
        intro k hk hk2
        have := hd (k + 1) (by omega) (by simp at hk2 ⊢; omega)
        simpa [List.append_assoc] using this) (by
        intro hfl t
        have := hl hfl t
        simpa [List.append_assoc] using this)
      simpa [List.append_assoc] using this

theorem resolve_parents (fs : Fs) (fl : Bool) (cs : List Name)
    (hn : ∀ c ∈ cs, Normal c)
    (hd : ∀ k, 0 < k → k < cs.length → ∃ m, fs.get (cs.take k) = some (.dir m))
    (hl : fl = true → ∀ t, fs.get cs ≠ some (.symlink t)) :
    resolve fs fl cs = .ok cs := by
  unfold resolve maxSymlinks walk
  have := walkComps_parents fs (walk fs fl 39) fl cs [] hn (by simpa using hd) (by simpa using hl)
  simpa using this

/-- a missing component before the last one: `ENOENT` -/
theorem walkComps_enoent (fs : Fs) (follow) (fl : Bool) : ∀ (cs : List Name) (cur : Path),
    (∀ c ∈ cs, Normal c) →
    (∀ k, 0 < k → k < cs.length → fs.get (cur ++ cs.take k) = none ∨ ∃ m, fs.get (cur ++ cs.take k) = some (.dir m)) →
    (∃ k, 0 < k ∧ k < cs.length ∧ fs.get (cur ++ cs.take k) = none) →
    walkComps fs follow fl cur cs = .error .ENOENT := by
  intro cs
  induction cs with
  | nil => intro cur _ _ ⟨k, hk, hk2, _⟩; simp at hk2
  | cons c rest ih =>
    intro cur hn hd ⟨k, hk, hk2, hk3⟩
    have hc : Normal c := hn c (by simp)
    rw [walkComps_cons_normal _ _ _ _ _ _ hc]
    cases rest with
    | nil => simp at hk2; omega
    | cons d r =>
      rcases hd 1 (by omega) (by simp) with h1 | ⟨m, h1⟩
      · simp at h1; rw [h1]; simp
      · simp at h1
        rw [h1]
        simp only
        have hk1 : k ≠ 1 := by
          intro he; subst he; simp at hk3; rw [hk3] at h1; cases h1
        refine ih (cur ++ [c]) (fun c' hc' => hn c' (by simp [hc'])) ?_ ⟨k - 1, by omega, by simp at hk2 ⊢; omega, ?_⟩
        · intro j hj hj2
          have := hd (j + 1) (by omega) (by simp at hj2 ⊢; omega)
          simpa [List.append_assoc] using this
        · have : k = (k - 1) + 1 := by omega
          rw [this] at hk3
          simpa [List.append_assoc] using hk3

theorem resolve_enoent (fs : Fs) (fl : Bool) (cs : List Name)
    (hn : ∀ c ∈ cs, Normal c)
    (hd : ∀ k, 0 < k → k < cs.length → fs.get (cs.take k) = none ∨ ∃ m, fs.get (cs.take k) = some (.dir m))
    (he : ∃ k, 0 < k ∧ k < cs.length ∧ fs.get (cs.take k) = none) :
    resolve fs fl cs = .error .ENOENT := by
  unfold resolve maxSymlinks walk
  exact walkComps_enoent fs (walk fs fl 39) fl cs [] hn (by simpa using hd) (by simpa using he)

/-! ### the system calls on a path that resolves to itself -/

theorem mkdir_vacant {fs : Fs} {cs} (hr : resolve fs false cs = .ok cs) (hv : fs.get cs = none)
    (hs : nameTooLong cs = false) :
    mkdir fs cs = .ok (fs.set cs (.dir (newDirMode fs cs))) := by
  unfold mkdir; rw [hr]; simp only [hv, hs, Bool.false_eq_true, if_false]

theorem mkdir_exists {fs : Fs} {cs n} (hr : resolve fs false cs = .ok cs) (hv : fs.get cs = some n) :
    mkdir fs cs = .error .EEXIST := by
  unfold mkdir; rw [hr]; simp only [hv]

theorem isDir_dir {fs : Fs} {cs m} (hr : resolve fs true cs = .ok cs) (hv : fs.get cs = some (.dir m)) :
    isDir fs cs = true := by
  unfold isDir; rw [hr]; simp only [hv]

theorem fileCreate_vacant {fs : Fs} {cs} (c : Bytes) (hr : resolve fs true cs = .ok cs) (hv : fs.get cs = none)
    (hs : nameTooLong cs = false) :
    fileCreate fs cs c = .ok (fs.set cs (.file c (fs.masked 0o666))) := by
  unfold fileCreate; rw [hr]; simp only [hv, hs, Bool.false_eq_true, if_false]

theorem setPerm_file {fs : Fs} {cs c m} (p : Nat) (hr : resolve fs true cs = .ok cs) (hv : fs.get cs = some (.file c m)) :
    setPerm fs cs p = .ok (fs.set cs (.file c p)) := by
  unfold setPerm; rw [hr]; simp only [hv]

theorem setPerm_dir {fs : Fs} {cs m} (p : Nat) (hr : resolve fs true cs = .ok cs) (hv : fs.get cs = some (.dir m)) :
    setPerm fs cs p = .ok (fs.set cs (.dir p)) := by
  unfold setPerm; rw [hr]; simp only [hv]

theorem lexists_vacant {fs : Fs} {cs} (hr : resolve fs false cs = .ok cs) (hv : fs.get cs = none) :
    lexists fs cs = false := by
  unfold lexists; rw [hr]; simp only [hv]; rfl

theorem symlink_vacant {fs : Fs} {cs} {t : Bytes} (ht : t ≠ []) (hr : resolve fs false cs = .ok cs) (hv : fs.get cs = none)
    (hs : nameTooLong cs = false) :
    symlink fs cs t = .ok (fs.set cs (.symlink t)) := by
  unfold symlink
  have : t.isEmpty = false := by cases t <;> simp_all
  rw [this, hr]; simp only [hv, hs, Bool.false_eq_true, if_false]

/-! ### `create_dir_all` when only directories are in the way -/

theorem cdaRev_mkdir_ok {fs fs' : Fs} {x rp P} (hrev : (x :: rp).reverse = P) (h : mkdir fs P = .ok fs') :
    createDirAllRev fs (x :: rp) = .ok fs' := by
  unfold createDirAllRev; rw [hrev, h]

theorem cdaRev_eexist {fs : Fs} {x rp P} (hrev : (x :: rp).reverse = P) (h : mkdir fs P = .error .EEXIST)
    (hd : isDir fs P = true) : createDirAllRev fs (x :: rp) = .ok fs := by
  unfold createDirAllRev; rw [hrev, h]; simp only [hd, if_true]

theorem cdaRev_enoent_ok {fs fs1 fs2 : Fs} {x rp P} (hrev : (x :: rp).reverse = P) (h : mkdir fs P = .error .ENOENT)
    (h1 : createDirAllRev fs rp = .ok fs1) (h2 : mkdir fs1 P = .ok fs2) : createDirAllRev fs (x :: rp) = .ok fs2 := by
  unfold createDirAllRev; rw [hrev, h]; simp only [h1, h2]

theorem cdaRev_enoent_eexist {fs fs1 : Fs} {x rp P} (hrev : (x :: rp).reverse = P) (h : mkdir fs P = .error .ENOENT)
    (h1 : createDirAllRev fs rp = .ok fs1) (h2 : mkdir fs1 P = .error .EEXIST) (hd : isDir fs1 P = true) :
    createDirAllRev fs (x :: rp) = .ok fs1 := by
  unfold createDirAllRev; rw [hrev, h]; simp only [h1, h2, hd, if_true]

/-- the state after `create_dir_all(T ++ c)` relative to the state before -/
structure CdaPost (T : Path) (c : List Name) (fs fs1 : Fs) : Prop where
  made : ∀ k, k ≤ c.length → ∃ m, fs1.get (T ++ c.take k) = some (.dir m)
  only : ∀ q, fs1.get q = fs.get q ∨
    (fs.get q = none ∧ (∃ m, fs1.get q = some (.dir m)) ∧ ∃ k, k ≤ c.length ∧ q = T ++ c.take k)

def NoneOrDir (o : Option Node) : Prop := o = none ∨ ∃ m, o = some (.dir m)

theorem append_take_ne_of_lt {T : Path} {c : List Name} {k : Nat} (hk : k < c.length) : T ++ c.take k ≠ T ++ c := by
  intro h
  have := congrArg List.length h
  simp at this
  omega

section
variable {T : Path} (hT : ∀ c ∈ T, Normal c)
include hT

theorem resolve_of_dirs {fs : Fs} (fl : Bool) (c : List Name) (hc : ∀ x ∈ c, Normal x)
    (htop : ∀ k, 0 < k → k ≤ T.length → ∃ m, fs.get (T.take k) = some (.dir m))
    (hd : ∀ k, k < c.length → ∃ m, fs.get (T ++ c.take k) = some (.dir m))
    (hl : fl = true → ∀ t, fs.get (T ++ c) ≠ some (.symlink t)) :
    resolve fs fl (T ++ c) = .ok (T ++ c) := by
  refine resolve_parents fs fl (T ++ c) ?_ ?_ hl
  · intro x hx
    rcases List.mem_append.mp hx with hx | hx
    · exact hT x hx
    · exact hc x hx
  · intro k hk hk2
    by_cases hle : k ≤ T.length
    · rw [take_append_le T c k hle]; exact htop k hk hle
    · rw [take_append_ge T c k (by omega)]
      simp at hk2
      exact hd (k - T.length) (by omega)

/-- the last `mkdir` of `create_dir_all`: all ancestors are directories already -/
theorem cda_last {fs : Fs} (c' : List Name) (x : Name) (hc : ∀ y ∈ c' ++ [x], Normal y) (hsx : Short x)
    (htop : ∀ k, 0 < k → k ≤ T.length → ∃ m, fs.get (T.take k) = some (.dir m))
    (hd : ∀ k, k ≤ c'.length → ∃ m, fs.get (T ++ c'.take k) = some (.dir m))
    (hp : NoneOrDir (fs.get (T ++ (c' ++ [x])))) :
    (fs.get (T ++ (c' ++ [x])) = none ∧
      mkdir fs (T ++ (c' ++ [x])) = .ok (fs.set (T ++ (c' ++ [x])) (.dir (newDirMode fs (T ++ (c' ++ [x])))))) ∨
    ((∃ m, fs.get (T ++ (c' ++ [x])) = some (.dir m)) ∧ mkdir fs (T ++ (c' ++ [x])) = .error .EEXIST ∧
      isDir fs (T ++ (c' ++ [x])) = true) := by
  have hd' : ∀ k, k < (c' ++ [x]).length → ∃ m, fs.get (T ++ (c' ++ [x]).take k) = some (.dir m) := by
    intro k hk
    simp at hk
    rw [List.take_append_of_le_length (by omega)]
    exact hd k (by omega)
  rcases hp with hv | ⟨m, hv⟩
  · left
    refine ⟨hv, mkdir_vacant (resolve_of_dirs hT false _ hc htop hd' (by simp)) hv ?_⟩
    rw [← List.append_assoc, nameTooLong_concat]
    unfold Short at hsx
    simp only [decide_eq_false_iff_not]; omega
  · right
    refine ⟨⟨m, hv⟩, mkdir_exists (resolve_of_dirs hT false _ hc htop hd' (by simp)) hv,
      isDir_dir (resolve_of_dirs hT true _ hc htop hd' (fun _ t h => ?_)) hv⟩
    rw [hv] at h; cases h


theorem cda_spec (hne : T ≠ []) : ∀ (n : Nat) (c : List Name) (fs : Fs), c.length = n → (∀ x ∈ c, Normal x) →
    (∀ x ∈ c, Short x) →
    (∀ k, 0 < k → k ≤ T.length → ∃ m, fs.get (T.take k) = some (.dir m)) →
    (∀ k, k ≤ c.length → NoneOrDir (fs.get (T ++ c.take k))) →
    ∃ fs1, createDirAll fs (T ++ c) = .ok fs1 ∧ CdaPost T c fs fs1 := by
  intro n
  induction n with
  | zero =>
    intro c fs hlen _ _ htop _
    have hc0 : c = [] := List.length_eq_zero_iff.mp hlen
    subst hc0
    obtain ⟨T', x, hTx⟩ : ∃ T' x, T = T' ++ [x] := by
      rcases List.eq_nil_or_concat T with h | ⟨T', x, h⟩
      · exact absurd h hne
      · exact ⟨T', x, by rw [h, List.concat_eq_append]⟩
    obtain ⟨m, hm⟩ := htop T.length (by cases T with | nil => exact absurd rfl hne | cons => simp) (Nat.le_refl _)
    simp only [List.take_length] at hm
    have hres : ∀ fl, resolve fs fl T = .ok T := fun fl =>
      resolve_dirs fs fl T hT (fun k hk hk2 => htop k hk hk2)
    refine ⟨fs, ?_, ⟨fun k hk => ?_, fun q => Or.inl rfl⟩⟩
    · unfold createDirAll
      simp only [List.append_nil]
      have hrev : T.reverse = x :: T'.reverse := by rw [hTx]; simp
      rw [hrev]
      exact cdaRev_eexist (by rw [← hrev]; simp) (mkdir_exists (hres false) hm) (isDir_dir (hres true) hm)
    · simp at hk; subst hk; simp; exact ⟨m, hm⟩
  | succ n ih =>
    intro c fs hlen hc hsh htop hnd
    obtain ⟨c', x, hcx⟩ : ∃ c' x, c = c' ++ [x] := by
      rcases List.eq_nil_or_concat c with h | ⟨c', x, h⟩
      · subst h; simp at hlen
      · exact ⟨c', x, by rw [h, List.concat_eq_append]⟩
    subst hcx
    have hlen' : c'.length = n := by simp at hlen; exact hlen
    have hc' : ∀ y ∈ c', Normal y := fun y hy => hc y (by simp [hy])
    have hsh' : ∀ y ∈ c', Short y := fun y hy => hsh y (by simp [hy])
    have hsx : Short x := hsh x (by simp)
    have htk : ∀ k, k ≤ c'.length → (c' ++ [x]).take k = c'.take k := fun k hk =>
      List.take_append_of_le_length hk
    have hrev : (T ++ (c' ++ [x])).reverse = x :: (T ++ c').reverse := by simp
    have hrev' : (x :: (T ++ c').reverse).reverse = T ++ (c' ++ [x]) := by simp
    have hP : NoneOrDir (fs.get (T ++ (c' ++ [x]))) := by
      have := hnd (c' ++ [x]).length (Nat.le_refl _)
      rwa [List.take_length] at this
    by_cases hall : ∀ k, k ≤ c'.length → ∃ m, fs.get (T ++ c'.take k) = some (.dir m)
    · -- all ancestors exist
      rcases cda_last hT c' x hc hsx htop hall hP with ⟨hv, hmk⟩ | ⟨⟨m, hv⟩, hmk, hisd⟩
      · refine ⟨fs.set (T ++ (c' ++ [x])) (.dir (newDirMode fs (T ++ (c' ++ [x])))), ?_, ⟨fun k hk => ?_, fun q => ?_⟩⟩
        · unfold createDirAll; rw [hrev]; exact cdaRev_mkdir_ok hrev' hmk
        · by_cases hk' : k ≤ c'.length
          · rw [htk k hk', get_set]
            have : T ++ c'.take k ≠ T ++ (c' ++ [x]) := by
              intro h; have := congrArg List.length h; simp at this; omega
            simp only [this, if_false]
            exact hall k hk'
          · have : k = (c' ++ [x]).length := by simp at hk ⊢; omega
            subst this
            simp only [List.take_length, get_set, if_true]
            exact ⟨_, rfl⟩
        · by_cases hq : q = T ++ (c' ++ [x])
          · right
            subst hq
            exact ⟨hv, ⟨_, by rw [get_set, if_pos rfl]⟩, (c' ++ [x]).length, Nat.le_refl _, by rw [List.take_length]⟩
          · left; simp [get_set, hq]
      · refine ⟨fs, ?_, ⟨fun k hk => ?_, fun q => Or.inl rfl⟩⟩
        · unfold createDirAll; rw [hrev]; exact cdaRev_eexist hrev' hmk hisd
        · by_cases hk' : k ≤ c'.length
          · rw [htk k hk']; exact hall k hk'
          · have : k = (c' ++ [x]).length := by simp at hk ⊢; omega
            subst this
            simp only [List.take_length]
            exact ⟨m, hv⟩
    · -- a missing ancestor: ENOENT, create the parent first
      have hnd' : ∀ k, k ≤ c'.length → NoneOrDir (fs.get (T ++ c'.take k)) := fun k hk => by
        have := hnd k (by simp; omega)
        rwa [htk k hk] at this
      obtain ⟨j, hj, hjn⟩ : ∃ j, j ≤ c'.length ∧ fs.get (T ++ c'.take j) = none := by
        refine Classical.byContradiction fun hcon => hall fun k hk => ?_
        rcases hnd' k hk with h | h
        · exact absurd ⟨k, hk, h⟩ hcon
        · exact h
      have hj0 : 0 < j := by
        rcases Nat.eq_zero_or_pos j with h0 | h0
        · subst h0
          simp at hjn
          obtain ⟨m, hm⟩ := htop T.length (by cases T with | nil => exact absurd rfl hne | cons => simp) (Nat.le_refl _)
          simp only [List.take_length] at hm
          rw [hm] at hjn; cases hjn
        · exact h0
      have henoent : mkdir fs (T ++ (c' ++ [x])) = .error .ENOENT := by
        have hr : resolve fs false (T ++ (c' ++ [x])) = .error .ENOENT := by
          refine resolve_enoent fs false _ ?_ ?_ ⟨T.length + j, by omega, by simp; omega, ?_⟩
          · intro y hy
            rcases List.mem_append.mp hy with hy | hy
            · exact hT y hy
            · exact hc y hy
          · intro k hk hk2
            by_cases hle : k ≤ T.length
            · rw [take_append_le T _ k hle]; exact Or.inr (htop k hk hle)
            · rw [take_append_ge T _ k (by omega)]
              simp at hk2
              have := hnd' (k - T.length) (by omega)
              rw [htk _ (by omega)]
              exact this
          · rw [take_append_ge T _ _ (by omega)]
            have : T.length + j - T.length = j := by omega
            rw [this, htk j hj]
            exact hjn
        unfold mkdir; rw [hr]
      obtain ⟨fs1, h1, post1⟩ := ih c' fs hlen' hc' hsh' htop hnd'
      have htop1 : ∀ k, 0 < k → k ≤ T.length → ∃ m, fs1.get (T.take k) = some (.dir m) := by
        intro k hk hk2
        obtain ⟨m, hm⟩ := htop k hk hk2
        rcases post1.only (T.take k) with h | ⟨h, _⟩
        · exact ⟨m, by rw [h, hm]⟩
        · rw [hm] at h; cases h
      have hP1 : NoneOrDir (fs1.get (T ++ (c' ++ [x]))) := by
        rcases post1.only (T ++ (c' ++ [x])) with h | ⟨_, _, k, hk, hq⟩
        · rw [h]; exact hP
        · have := congrArg List.length hq; simp at this; omega
      unfold createDirAll at h1
      rcases cda_last hT c' x hc hsx htop1 post1.made hP1 with ⟨hv, hmk⟩ | ⟨⟨m, hv⟩, hmk, hisd⟩
      · refine ⟨fs1.set (T ++ (c' ++ [x])) (.dir (newDirMode fs1 (T ++ (c' ++ [x])))), ?_, ⟨fun k hk => ?_, fun q => ?_⟩⟩
        · unfold createDirAll; rw [hrev]; exact cdaRev_enoent_ok hrev' henoent h1 hmk
        · by_cases hk' : k ≤ c'.length
          · rw [htk k hk', get_set]
            have : T ++ c'.take k ≠ T ++ (c' ++ [x]) := by
              intro h; have := congrArg List.length h; simp at this; omega
            simp only [this, if_false]
            exact post1.made k hk'
          · have : k = (c' ++ [x]).length := by simp at hk ⊢; omega
            subst this
            simp only [List.take_length, get_set, if_true]
            exact ⟨_, rfl⟩
        · by_cases hq : q = T ++ (c' ++ [x])
          · right
            subst hq
            refine ⟨?_, ⟨_, by rw [get_set, if_pos rfl]⟩, (c' ++ [x]).length, Nat.le_refl _, by rw [List.take_length]⟩
            rcases post1.only (T ++ (c' ++ [x])) with h | ⟨h, _⟩
            · rw [← h]; exact hv
            · exact h
          · rcases post1.only q with h | ⟨h0, hm, k, hk, hqk⟩
            · left; simp [get_set, hq, h]
            · right
              refine ⟨h0, ?_, k, by simp; omega, by rw [htk k hk]; exact hqk⟩
              simpa [get_set, hq] using hm
      · refine ⟨fs1, ?_, ⟨fun k hk => ?_, fun q => ?_⟩⟩
        · unfold createDirAll; rw [hrev]; exact cdaRev_enoent_eexist hrev' henoent h1 hmk hisd
        · by_cases hk' : k ≤ c'.length
          · rw [htk k hk']; exact post1.made k hk'
          · have : k = (c' ++ [x]).length := by simp at hk ⊢; omega
            subst this
            simp only [List.take_length]
            exact ⟨m, hv⟩
        · rcases post1.only q with h | ⟨h0, hm, k, hk, hqk⟩
          · left; exact h
          · right; exact ⟨h0, hm, k, by simp; omega, by rw [htk k hk]; exact hqk⟩

end
theorem lookup_mem {p : Path} {n : Node} : ∀ {l : List (Path × Node)}, lookup p l = some n → (p, n) ∈ l := by
  intro l
  induction l with
  | nil => intro h; cases h
  | cons e r ih =>
    obtain ⟨a, m⟩ := e
    intro h
    simp only [lookup] at h
    split at h
    · rename_i he; subst he; injection h with h; subst h; simp
    · exact List.mem_cons_of_mem _ (ih h)


end RpmVerif.Fs
