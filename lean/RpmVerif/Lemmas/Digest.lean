import RpmVerif.Model.Digest
import RpmVerif.Spec.Digest
/-!
Helper lemmas for C03: the getters agree with the spec's "first entry with the tag" reading, the two
hex encoders coincide, the algorithm table classifies numbers, and `verifyDigests` is the
"first failing record" fold (`outcome`) over `Recorded`.
-/
namespace RpmVerif.Digest
open RpmVerif.Hdr RpmVerif.Gen RpmVerif.DigestSpec

/-! ### hex -/
theorem hexDigit_eq : ∀ n : Fin 16, hexDigitByte n.val = hexDigits.getD n.val 0 := by decide

theorem hexDigit_eq' {n : Nat} (h : n < 16) : hexDigitByte n = hexDigits.getD n 0 := hexDigit_eq ⟨n, h⟩

theorem hexLower_eq_hexText (bs : Bytes) : hexLower bs = hexText bs := by
  induction bs with
  | nil => rfl
  | cons b r ih =>
    have hb := b.toNat_lt
    have h1 : b.toNat / 16 < 16 := by omega
    have h2 : b.toNat % 16 < 16 := by omega
    simp only [hexLower, List.flatMap_cons, List.cons_append, List.nil_append, hexText] at ih ⊢
    rw [hexDigit_eq' h1, hexDigit_eq' h2, ih]

/-! ### getters = first entry with the tag -/
theorem find?_firstData (es : List Entry) (tag : Nat) :
    (es.find? (fun e => e.tag == tag)).map (·.data) = firstData es tag := by
  induction es with
  | nil => rfl
  | cons e r ih =>
    simp only [List.find?, firstData]
    by_cases h : e.tag = tag
    · simp [h]
    · have : (e.tag == tag) = false := by simp [h]
      simp only [this, h, if_false]
      exact ih

/-- every getter in terms of the spec's `firstData` -/
theorem getWith_eq {α} (proj : IndexData → Option α) (h : Header) (tag : Nat) :
    getWith proj h tag =
      match firstData h.entries tag with
      | none => .err "notfound"
      | some d => match proj d with
        | some a => .ok a
        | none => .err "wrongtype" := by
  rw [← find?_firstData]
  unfold getWith findEntry
  cases h.entries.find? (fun e => e.tag == tag) with
  | none => rfl
  | some e =>
    simp only [Out.bind_ok, Option.map_some]
    cases proj e.data <;> rfl

theorem recMd5_eq (sig : Header) :
    recMd5 sig = match getBinary sig SigTag.RPMSIGTAG_MD5 with | .ok d => [⟨.md5, some d⟩] | _ => [] := by
  rw [recMd5, getBinary, getWith_eq]
  cases firstData sig.entries SigTag.RPMSIGTAG_MD5 with
  | none => rfl
  | some d => cases d <;> rfl

theorem recSha1_eq (sig : Header) :
    recSha1 sig = match getString sig SigTag.RPMSIGTAG_SHA1 with | .ok d => [⟨.sha1, some d⟩] | _ => [] := by
  rw [recSha1, getString, getWith_eq]
  cases firstData sig.entries SigTag.RPMSIGTAG_SHA1 with
  | none => rfl
  | some d => cases d <;> rfl

theorem recSha256_eq (sig : Header) :
    recSha256 sig = match getString sig SigTag.RPMSIGTAG_SHA256 with | .ok d => [⟨.sha256, some d⟩] | _ => [] := by
  rw [recSha256, getString, getWith_eq]
  cases firstData sig.entries SigTag.RPMSIGTAG_SHA256 with
  | none => rfl
  | some d => cases d <;> rfl

theorem recPayload_eq (hdr : Header) :
    recPayload hdr =
      match getStringArray hdr IndexTag.RPMTAG_PAYLOADDIGEST, getU32 hdr IndexTag.RPMTAG_PAYLOADDIGESTALGO with
      | .ok l, .ok a => [⟨.payload a, l.head?⟩]
      | _, _ => [] := by
  rw [recPayload, getStringArray, getU32, getWith_eq, getWith_eq]
  cases firstData hdr.entries IndexTag.RPMTAG_PAYLOADDIGEST with
  | none => rfl
  | some d =>
    cases firstData hdr.entries IndexTag.RPMTAG_PAYLOADDIGESTALGO with
    | none => cases d <;> rfl
    | some a =>
      cases d <;> cases a <;> try rfl
      all_goals (rename_i l1 l2; cases l2 <;> rfl)

/-! ### the algorithm table -/
theorem algo_supported_iff (a : Nat) : algoFromU32 a = some "Sha2_256" ↔ ("Sha2_256", a) ∈ digestAlgoTable := by
  simp only [algoFromU32, digestAlgoTable, List.find?]
  repeat' split
  all_goals simp_all
  all_goals omega

/-! ### the fold over the recorded digests -/

/-- what a record that is not fine turns into -/
def failureOf (r : Rec) : Out Unit :=
  if Supported r.which then .err "mismatch"
  else match r.which with
    | .payload a => if (algoFromU32 a).isSome then .err "unsupported" else .err "enum-variant"
    | _ => .err "mismatch"

/-- first record (in check order) that is not fine decides -/
def outcome (H : Hashes) (p : Package) : List Rec → Out Unit
  | [] => .ok ()
  | r :: rest => if Rec.good H p r then outcome H p rest else failureOf r

theorem outcome_append (H : Hashes) (p : Package) (l1 l2 : List Rec) :
    outcome H p (l1 ++ l2) = (outcome H p l1 >>= fun _ => outcome H p l2) := by
  induction l1 with
  | nil => rfl
  | cons r rest ih =>
    simp only [List.cons_append, outcome]
    split
    · exact ih
    · unfold failureOf
      split
      · rfl
      · split
        · split <;> rfl
        · rfl

/-- a simple (always supported) digest step is the fold over its at most one record -/
theorem checkDeclared_eq (H : Hashes) (p : Package) (w : Which) (hs : Supported w) (g : Out Bytes) (c : Bytes)
    (hc : recompute H p w = c) :
    checkDeclared g c = outcome H p (match g with | .ok d => [⟨w, some d⟩] | _ => []) := by
  cases g with
  | ok d =>
    simp only [checkDeclared, outcome, Rec.good, hc, hs, true_and, Option.some.injEq, failureOf, if_true]
    by_cases h : d = c <;> simp [h]
  | err _ => rfl
  | panic _ => rfl

theorem checkPayload_eq (H : Hashes) (p : Package) :
    checkPayload H.sha256 p = outcome H p (recPayload p.md.header) := by
  rw [recPayload_eq, checkPayload]
  cases getStringArray p.md.header IndexTag.RPMTAG_PAYLOADDIGEST with
  | err _ => rfl
  | panic _ => rfl
  | ok l =>
    cases getU32 p.md.header IndexTag.RPMTAG_PAYLOADDIGESTALGO with
    | err _ => rfl
    | panic _ => rfl
    | ok a =>
      simp only [outcome, Rec.good, failureOf, Supported, recompute, ← algo_supported_iff, ← hexLower_eq_hexText]
      cases hn : algoFromU32 a with
      | none => simp
      | some name =>
        by_cases h : name = "Sha2_256"
        · subst h
          by_cases h2 : l.head? = some (hexLower (H.sha256 p.content)) <;> simp [h2]
        · simp [h]

theorem Out.bind_assoc' {α β γ} (x : Out α) (f : α → Out β) (g : β → Out γ) :
    ((x >>= f) >>= g) = (x >>= fun a => f a >>= g) := by
  cases x <;> rfl

/-- **the model is the first-failure fold over the recorded digests** -/
theorem verifyDigests_eq_outcome (H : Hashes) (p : Package) :
    verifyDigests H.md5 H.sha1 H.sha256 p = outcome H p (Recorded p) := by
  have e1 : checkDeclared (getBinary p.md.signature SigTag.RPMSIGTAG_MD5) (H.md5 (writeHeader p.md.header ++ p.content))
      = outcome H p (recMd5 p.md.signature) := by
    rw [recMd5_eq]; exact checkDeclared_eq H p .md5 trivial _ _ rfl
  have e2 : checkDeclared (getString p.md.signature SigTag.RPMSIGTAG_SHA1) (hexLower (H.sha1 (writeHeader p.md.header)))
      = outcome H p (recSha1 p.md.signature) := by
    rw [recSha1_eq]; exact checkDeclared_eq H p .sha1 trivial _ _ (by simp only [recompute, hexLower_eq_hexText])
  have e3 : checkDeclared (getString p.md.signature SigTag.RPMSIGTAG_SHA256) (hexLower (H.sha256 (writeHeader p.md.header)))
      = outcome H p (recSha256 p.md.signature) := by
    rw [recSha256_eq]; exact checkDeclared_eq H p .sha256 trivial _ _ (by simp only [recompute, hexLower_eq_hexText])
  simp only [verifyDigests, Recorded, outcome_append, e1, e2, e3, checkPayload_eq, Out.bind_assoc']

/-! ### list facts about `outcome` -/
theorem failureOf_ne_ok (r : Rec) : ∀ u, failureOf r ≠ .ok u := by
  intro u; unfold failureOf
  split
  · simp
  · split
    · split <;> simp
    · simp

theorem outcome_ok_iff (H : Hashes) (p : Package) (l : List Rec) :
    outcome H p l = .ok () ↔ ∀ r ∈ l, Rec.good H p r := by
  induction l with
  | nil => simp [outcome]
  | cons r rest ih =>
    simp only [outcome, List.forall_mem_cons]
    by_cases h : Rec.good H p r
    · simp [h, ih]
    · simp only [h, if_false, false_and, iff_false]
      exact failureOf_ne_ok r ()

/-- the check-order statement: the first record that is not fine produces the result -/
theorem outcome_first_failure (H : Hashes) (p : Package) (pre post : List Rec) (r : Rec)
    (hpre : ∀ x ∈ pre, Rec.good H p x) (hr : ¬ Rec.good H p r) :
    outcome H p (pre ++ r :: post) = failureOf r := by
  induction pre with
  | nil => simp [outcome, hr]
  | cons x rest ih =>
    simp only [List.cons_append, outcome, hpre x (List.mem_cons_self), if_true]
    exact ih (fun y hy => hpre y (List.mem_cons_of_mem _ hy))

theorem outcome_not_panic (H : Hashes) (p : Package) (l : List Rec) : (outcome H p l).isPanic = false := by
  induction l with
  | nil => rfl
  | cons r rest ih =>
    simp only [outcome]
    split
    · exact ih
    · unfold failureOf
      split
      · rfl
      · split
        · split <;> rfl
        · rfl

/-- an error result names its cause: a mismatch comes from a supported record that differs
(or, never in `Recorded`, an unsupported non-payload record), any other class from an unsupported algorithm -/
theorem outcome_err (H : Hashes) (p : Package) (l : List Rec) (c : String) (h : outcome H p l = .err c) :
    (c = "mismatch" ∧ ∃ r ∈ l, Rec.differs H p r) ∨ (∃ r ∈ l, ¬ Supported r.which) := by
  induction l with
  | nil => simp [outcome] at h
  | cons r rest ih =>
    simp only [outcome] at h
    by_cases hg : Rec.good H p r
    · simp only [hg, if_true] at h
      rcases ih h with ⟨hc, x, hx, hd⟩ | ⟨x, hx, hs⟩
      · exact .inl ⟨hc, x, List.mem_cons_of_mem _ hx, hd⟩
      · exact .inr ⟨x, List.mem_cons_of_mem _ hx, hs⟩
    · simp only [hg, if_false] at h
      by_cases hs : Supported r.which
      · simp only [failureOf, hs, if_true, Out.err.injEq] at h
        refine .inl ⟨h.symm, r, List.mem_cons_self, hs, ?_⟩
        intro hd
        exact hg ⟨hs, hd⟩
      · exact .inr ⟨r, List.mem_cons_self, hs⟩

end RpmVerif.Digest
