import RpmVerif.Lemmas.Path
import RpmVerif.Model.AddData
import RpmVerif.Spec.AddData
/-! Helper lemmas for C17: `add_data` on the two accepted shapes of destination, in terms of the
pieces of the text. -/
namespace RpmVerif.AddData
open RpmVerif.Path

/-- the stored directory for the directory text `x` (`x` has no leading `/`): `/x/`, or `/` -/
def dirOf (x : Bytes) : Bytes := if x = [] then [47] else 47 :: (x ++ [47])

theorem fixRootDir_wrap (x : Bytes) : fixRootDir (47 :: (x ++ [47])) = dirOf x := by
  cases x with
  | nil => rfl
  | cons a t =>
    simp only [fixRootDir, dirOf, List.cons_append]
    cases t <;> simp

/-! ### destinations starting with `/` -/

theorem backPieces_slash (r : Bytes) : backPieces (47 :: r) = trimTriv (splitSep r).reverse := by
  simp [backPieces, body, lenBeforeBody, hasRoot, includeCurDir]

theorem parent_slash (r : Bytes) : parent (47 :: r) =
    match trimTriv (splitSep r).reverse with
    | [] => none
    | _ :: rest => some (47 :: joinSep (trimTriv rest).reverse) := by
  unfold parent
  rw [backPieces_slash]
  cases trimTriv (splitSep r).reverse <;> simp [lenBeforeBody, hasRoot, includeCurDir]

theorem fileName_slash (r : Bytes) : fileName (47 :: r) =
    match trimTriv (splitSep r).reverse with
    | [] => none
    | s :: _ => if s == [46, 46] then none else some s := by
  unfold fileName
  rw [backPieces_slash]
  cases trimTriv (splitSep r).reverse <;> rfl

theorem addData_slash (r : Bytes) : addDataRaw (47 :: r) =
    match trimTriv (splitSep r).reverse with
    | [] => errDest
    | s :: rest =>
      if s == [46, 46] then errDest
      else .ok (46 :: 47 :: r, dirOf (joinSep (trimTriv rest).reverse), s) := by
  unfold addDataRaw
  rw [parent_slash, fileName_slash]
  cases trimTriv (splitSep r).reverse with
  | nil => simp [strStartsWith]
  | cons s rest =>
    simp only [strStartsWith, toStringLossy]
    by_cases hs : (s == [46, 46]) = true
    · simp [hs, errDest]
    · simp [hs, ← fixRootDir_wrap]

/-! ### destinations starting with `./` -/

theorem backPieces_dot (r : Bytes) : backPieces (46 :: 47 :: r) = trimTriv (splitSep (47 :: r)).reverse := by
  simp [backPieces, body, lenBeforeBody, hasRoot, includeCurDir]

theorem parent_dot (r : Bytes) : parent (46 :: 47 :: r) =
    match trimTriv (splitSep (47 :: r)).reverse with
    | [] => some []
    | _ :: rest => some (46 :: joinSep (trimTriv rest).reverse) := by
  unfold parent
  rw [backPieces_dot]
  cases trimTriv (splitSep (47 :: r)).reverse <;> simp [lenBeforeBody, hasRoot, includeCurDir]

theorem fileName_dot (r : Bytes) : fileName (46 :: 47 :: r) =
    match trimTriv (splitSep (47 :: r)).reverse with
    | [] => none
    | s :: _ => if s == [46, 46] then none else some s := by
  unfold fileName
  rw [backPieces_dot]
  cases trimTriv (splitSep (47 :: r)).reverse <;> rfl

/-- `"." ++ x` has a `CurDir` component when `x` is empty or starts with `/` -/
theorem includeCurDir_dot_cons {x : Bytes} (h : x = [] ∨ ∃ t, x = 47 :: t) : includeCurDir (46 :: x) = true := by
  rcases h with rfl | ⟨t, rfl⟩ <;> simp [includeCurDir, hasRoot]

theorem stripPrefixDot_nil : stripPrefixDot [] = none := by
  simp [stripPrefixDot, includeCurDir, hasRoot]

/-- the text of pieces whose first piece is empty is empty or starts with `/` -/
theorem joinSep_head_of_nil_first {K : List Bytes} (h : K = [] ∨ ∃ K', K = [] :: K') :
    joinSep K = [] ∨ ∃ t, joinSep K = 47 :: t := by
  rcases h with rfl | ⟨K', rfl⟩
  · left; rfl
  · cases K' with
    | nil => left; rfl
    | cons a t => right; exact ⟨a ++ t.flatMap (fun x => 47 :: x), by simp [joinSep]⟩

theorem first_nil_of_prefix {T K R : List Bytes} (h : [] :: T = K ++ R) : K = [] ∨ ∃ K', K = [] :: K' := by
  cases K with
  | nil => left; rfl
  | cons k K' =>
    right
    simp only [List.cons_append, List.cons.injEq] at h
    exact ⟨K', by rw [← h.1]⟩

/-- the parent text of a `./` destination keeps its `CurDir` component -/
theorem includeCurDir_parent_dot {r : Bytes} {s : Bytes} {rest : List Bytes}
    (h : trimTriv (splitSep (47 :: r)).reverse = s :: rest) :
    includeCurDir (46 :: joinSep (trimTriv rest).reverse) = true := by
  apply includeCurDir_dot_cons
  apply joinSep_head_of_nil_first
  rcases trimTriv_reverse_cases (splitSep (47 :: r)) with ⟨h0, _⟩ | ⟨s', rest', post, h1, hS, _, _⟩
  · rw [h0] at h; cases h
  · rw [h1] at h
    simp only [List.cons.injEq] at h
    obtain ⟨rfl, rfl⟩ := h
    obtain ⟨post', hK, _⟩ := trimTriv_reverse_prefix rest'.reverse
    rw [List.reverse_reverse] at hK
    rw [splitSep_cons_sep, hK, List.append_assoc] at hS
    exact first_nil_of_prefix hS

theorem stripPrefixDot_dot_cons {x : Bytes} (h : includeCurDir (46 :: x) = true) :
    stripPrefixDot (46 :: x) = some (joinSep (trimTriv (trimTriv (splitSep x)).reverse).reverse) := by
  simp [stripPrefixDot, h]

/-- the directory text of a `./` destination whose pieces before the file name are `rest` (reversed) -/
def dotDirText (rest : List Bytes) : Bytes :=
  joinSep (trimTriv (trimTriv (splitSep (joinSep (trimTriv rest).reverse))).reverse).reverse

theorem addData_dot (r : Bytes) : addDataRaw (46 :: 47 :: r) =
    match trimTriv (splitSep (47 :: r)).reverse with
    | [] => errDest
    | s :: rest =>
      if s == [46, 46] then errDest
      else .ok (46 :: 47 :: r, dirOf (dotDirText rest), s) := by
  unfold addDataRaw
  rw [parent_dot, fileName_dot]
  cases h : trimTriv (splitSep (47 :: r)).reverse with
  | nil => simp [strStartsWith, stripPrefixDot_nil, errDest]
  | cons s rest =>
    have hinc := includeCurDir_parent_dot h
    simp only [strStartsWith, toStringLossy]
    rw [stripPrefixDot_dot_cons hinc]
    by_cases hs : (s == [46, 46]) = true
    · simp [hs, errDest]
    · simp [hs, ← fixRootDir_wrap, dotDirText]

/-! ### from pieces to the outcome and back -/

/-- the backward iterator on `tl ++ name :: J` (trailing pieces `J` trivial, `name` real) -/
theorem trimTriv_reverse_of_pieces {tl J : List Bytes} {name : Bytes}
    (hJ : ∀ y ∈ J, isTriv y = true) (hn : isTriv name = false) :
    trimTriv (tl ++ name :: J).reverse = name :: tl.reverse := by
  have hrev : (tl ++ name :: J).reverse = J.reverse ++ (name :: tl.reverse) := by simp
  rw [hrev]
  unfold trimTriv
  rw [List.dropWhile_append_of_pos (fun a ha => hJ a (List.mem_reverse.mp ha))]
  exact dropWhile_eq_self_of_head hn

theorem pieces_of_trimTriv_reverse {S rest : List Bytes} {s : Bytes} (h : trimTriv S.reverse = s :: rest) :
    ∃ post, S = rest.reverse ++ s :: post ∧ isTriv s = false ∧ ∀ y ∈ post, isTriv y = true := by
  rcases trimTriv_reverse_cases S with ⟨h0, _⟩ | ⟨s', rest', post, h1, hS, hs, hp⟩
  · rw [h0] at h; cases h
  · rw [h1] at h
    simp only [List.cons.injEq] at h
    obtain ⟨rfl, rfl⟩ := h
    exact ⟨post, hS, hs, hp⟩

theorem ne_dotdot_of_beq {s : Bytes} : ((s == [46, 46]) = true) ↔ s = [46, 46] := by simp

open RpmVerif.AddDataSpec

/-! ### the spec's `Trail` is the text of trivial pieces -/

theorem trail_of_triv {J : List Bytes} (h : ∀ y ∈ J, isTriv y = true) : Trail (J.flatMap (fun x => 47 :: x)) := by
  induction J with
  | nil => exact Trail.nil
  | cons a t ih =>
    have ht := ih (fun y hy => h y (List.mem_cons_of_mem _ hy))
    rcases (isTriv_iff a).mp (h a (by simp)) with rfl | rfl
    · simpa using Trail.slash ht
    · simpa using Trail.slashDot ht

theorem triv_of_trail {t : Bytes} (h : Trail t) :
    ∃ J : List Bytes, (∀ y ∈ J, isTriv y = true) ∧ t = J.flatMap (fun x => 47 :: x) := by
  induction h with
  | nil => exact ⟨[], by simp, rfl⟩
  | slash _ ih =>
    obtain ⟨J, hJ, rfl⟩ := ih
    exact ⟨[] :: J, by intro y hy; rcases List.mem_cons.mp hy with rfl | hy; exact rfl; exact hJ y hy, by simp⟩
  | slashDot _ ih =>
    obtain ⟨J, hJ, rfl⟩ := ih
    exact ⟨[46] :: J, by intro y hy; rcases List.mem_cons.mp hy with rfl | hy; exact rfl; exact hJ y hy, by simp⟩

theorem noSep_of_triv {y : Bytes} (h : isTriv y = true) : (47 : UInt8) ∉ y := by
  rcases (isTriv_iff y).mp h with rfl | rfl <;> simp

theorem isTriv_false_of_name {name : Bytes} (h0 : name ≠ []) (h1 : name ≠ [46]) : isTriv name = false := by
  cases h : isTriv name with
  | false => rfl
  | true => rcases (isTriv_iff name).mp h with e | e; exact absurd e h0; exact absurd e h1

/-- a split of the text is a split of its pieces -/
theorem pieces_of_split {dest d name trail : Bytes} (h : Split dest d name trail) :
    ∃ J : List Bytes, (∀ y ∈ J, isTriv y = true) ∧ splitSep dest = splitSep d ++ name :: J := by
  obtain ⟨J, hJ, rfl⟩ := triv_of_trail h.trail
  refine ⟨J, hJ, ?_⟩
  have hjoin : name ++ J.flatMap (fun x => 47 :: x) = joinSep (name :: J) := rfl
  rw [h.eq, hjoin, splitSep_append_sep, splitSep_joinSep (by simp)]
  intro s hs
  rcases List.mem_cons.mp hs with rfl | hs
  · exact h.noSep
  · exact noSep_of_triv (hJ s hs)

/-- and conversely -/
theorem split_of_pieces {dest name : Bytes} {pre J : List Bytes} (hpre : pre ≠ [])
    (hS : splitSep dest = pre ++ name :: J) (hJ : ∀ y ∈ J, isTriv y = true)
    (hn : isTriv name = false) (hdd : name ≠ [46, 46]) :
    Split dest (joinSep pre) name (J.flatMap (fun x => 47 :: x)) where
  eq := by
    have := joinSep_splitSep dest
    rw [hS, joinSep_append_cons hpre] at this
    exact this.symm
  nonempty := by intro e; rw [e] at hn; cases hn
  noSep := noSep_of_mem_splitSep (p := dest) (by rw [hS]; simp)
  notDot := by intro e; rw [e] at hn; cases hn
  notDotDot := hdd
  trail := trail_of_triv hJ

/-! ### the three shapes of a destination -/

theorem start_cases (dest : Bytes) :
    (∃ r, dest = 47 :: r) ∨ (∃ r, dest = 46 :: 47 :: r) ∨
    (strStartsWith dest [46, 47] = false ∧ strStartsWith dest [47] = false) := by
  cases dest with
  | nil => right; right; simp [strStartsWith]
  | cons a t =>
    by_cases ha : a = 47
    · left; exact ⟨t, by rw [ha]⟩
    · by_cases ha' : a = 46
      · subst ha'
        cases t with
        | nil => right; right; simp [strStartsWith, List.isPrefixOf]
        | cons b u =>
          by_cases hb : b = 47
          · right; left; exact ⟨u, by rw [hb]⟩
          · right; right
            have h3 : ¬ (47 : UInt8) = b := fun e => hb e.symm
            simp [strStartsWith, List.isPrefixOf, h3]
      · right; right
        have h1 : ¬ (46 : UInt8) = a := fun e => ha' e.symm
        have h2 : ¬ (47 : UInt8) = a := fun e => ha e.symm
        simp [strStartsWith, List.isPrefixOf, h1, h2]

theorem addData_bad_start {dest : Bytes}
    (h : strStartsWith dest [46, 47] = false ∧ strStartsWith dest [47] = false) : addDataRaw dest = errDest := by
  unfold addDataRaw
  simp [h.1, h.2]

/-! ### accepted destinations, both directions, both shapes -/

theorem addData_slash_of_pieces {r name : Bytes} {tl J : List Bytes} (hS : splitSep r = tl ++ name :: J)
    (hJ : ∀ y ∈ J, isTriv y = true) (hn : isTriv name = false) (hdd : name ≠ [46, 46]) :
    addDataRaw (47 :: r) = .ok (46 :: 47 :: r, dirOf (joinSep (trimTriv tl.reverse).reverse), name) := by
  rw [addData_slash, hS, trimTriv_reverse_of_pieces hJ hn]
  simp [hdd]

theorem addData_slash_ok {r cpio dir base : Bytes} (h : addDataRaw (47 :: r) = .ok (cpio, dir, base)) :
    ∃ tl J, splitSep r = tl ++ base :: J ∧ (∀ y ∈ J, isTriv y = true) ∧ isTriv base = false ∧
      base ≠ [46, 46] ∧ cpio = 46 :: 47 :: r ∧ dir = dirOf (joinSep (trimTriv tl.reverse).reverse) := by
  rw [addData_slash] at h
  cases hb : trimTriv (splitSep r).reverse with
  | nil => rw [hb] at h; cases h
  | cons s rest =>
    rw [hb] at h
    obtain ⟨post, hS, hs, hpost⟩ := pieces_of_trimTriv_reverse hb
    by_cases hdd : (s == [46, 46]) = true
    · simp [hdd, errDest] at h
    · simp only [hdd, Bool.false_eq_true, ↓reduceIte, Out.ok.injEq, Prod.mk.injEq] at h
      obtain ⟨rfl, rfl, rfl⟩ := h
      refine ⟨rest.reverse, post, hS, hpost, hs, ?_, rfl, by rw [List.reverse_reverse]⟩
      intro e; exact hdd (by rw [e]; rfl)

theorem addData_dot_of_pieces {r name : Bytes} {tl J : List Bytes} (hS : splitSep r = tl ++ name :: J)
    (hJ : ∀ y ∈ J, isTriv y = true) (hn : isTriv name = false) (hdd : name ≠ [46, 46]) :
    addDataRaw (46 :: 47 :: r) = .ok (46 :: 47 :: r, dirOf (dotDirText ([] :: tl).reverse), name) := by
  have hS' : splitSep (47 :: r) = ([] :: tl) ++ name :: J := by rw [splitSep_cons_sep, hS]; rfl
  rw [addData_dot, hS', trimTriv_reverse_of_pieces hJ hn]
  simp [hdd]

theorem addData_dot_ok {r cpio dir base : Bytes} (h : addDataRaw (46 :: 47 :: r) = .ok (cpio, dir, base)) :
    ∃ tl J, splitSep r = tl ++ base :: J ∧ (∀ y ∈ J, isTriv y = true) ∧ isTriv base = false ∧
      base ≠ [46, 46] ∧ cpio = 46 :: 47 :: r ∧ dir = dirOf (dotDirText ([] :: tl).reverse) := by
  rw [addData_dot] at h
  cases hb : trimTriv (splitSep (47 :: r)).reverse with
  | nil => rw [hb] at h; cases h
  | cons s rest =>
    rw [hb] at h
    obtain ⟨post, hS, hs, hpost⟩ := pieces_of_trimTriv_reverse hb
    by_cases hdd : (s == [46, 46]) = true
    · simp [hdd, errDest] at h
    · simp only [hdd, Bool.false_eq_true, ↓reduceIte, Out.ok.injEq, Prod.mk.injEq] at h
      obtain ⟨rfl, rfl, rfl⟩ := h
      rw [splitSep_cons_sep] at hS
      -- the pieces before `s` start with the empty piece in front of the first `/`
      cases hrr : rest.reverse with
      | nil =>
        rw [hrr] at hS
        simp only [List.nil_append, List.cons.injEq] at hS
        rw [← hS.1] at hs; cases hs
      | cons u U =>
        rw [hrr] at hS
        simp only [List.cons_append, List.cons.injEq] at hS
        obtain ⟨hu, hS⟩ := hS
        subst hu
        have hrest : rest = ([] :: U).reverse := by rw [← hrr, List.reverse_reverse]
        refine ⟨U, post, hS, hpost, hs, ?_, rfl, by rw [hrest]⟩
        intro e; exact hdd (by rw [e]; rfl)

/-! ### the shape of an accepted destination's `(dir, base_name)` -/

theorem dirOf_head (x : Bytes) : (dirOf x).head? = some 47 := by
  unfold dirOf; split <;> rfl

theorem dirOf_getLast (x : Bytes) : (dirOf x).getLast? = some 47 := by
  unfold dirOf; split
  · rfl
  · have e : 47 :: (x ++ [47]) = (47 :: x) ++ [47] := rfl
    rw [e, List.getLast?_append]; rfl

theorem dirOf_ne_nil (x : Bytes) : dirOf x ≠ [] := by
  unfold dirOf; split <;> simp

theorem mem_trimTriv {l : List Bytes} {s : Bytes} (h : s ∈ trimTriv l) : s ∈ l :=
  List.dropWhile_subset _ h

theorem nameComps_slash (r : Bytes) : nameComps (47 :: r) = nameParts (splitSep r) := by
  unfold nameComps
  rw [splitSep_cons_sep, nameParts_cons_triv rfl]

theorem nameComps_dot (r : Bytes) : nameComps (46 :: 47 :: r) = nameParts (splitSep r) := by
  unfold nameComps
  rw [splitSep_cons_ne (by decide), splitSep_cons_sep]
  exact nameParts_cons_triv rfl _

/-- the name components of `dir ++ base`: those of the directory text, then the base name -/
theorem nameComps_dirOf_append (x : Bytes) {name : Bytes} (hn : isTriv name = false)
    (h47 : (47 : UInt8) ∉ name) : nameComps (dirOf x ++ name) = nameParts (splitSep x) ++ [name] := by
  unfold dirOf
  split
  · next hx =>
    subst hx
    rw [List.cons_append, List.nil_append, nameComps_slash, splitSep_noSep h47, nameParts_cons_real hn]
    rfl
  · have e : 47 :: (x ++ [47]) ++ name = 47 :: (x ++ 47 :: name) := by simp
    rw [e, nameComps_slash, splitSep_append_sep, nameParts_append, splitSep_noSep h47, nameParts_cons_real hn]
    rfl

/-- `strip_prefix(".")` of the parent text names the same directories as the pieces it came from -/
theorem nameParts_dotDirText {rest : List Bytes} (h : ∀ s ∈ rest, (47 : UInt8) ∉ s) :
    nameParts (splitSep (dotDirText rest)) = nameParts rest.reverse := by
  unfold dotDirText
  have hK : ∀ s ∈ (trimTriv rest).reverse, (47 : UInt8) ∉ s :=
    fun s hs => h s (mem_trimTriv (List.mem_reverse.mp hs))
  rw [nameParts_splitSep_joinSep, nameParts_trim_right, nameParts_trimTriv,
    nameParts_splitSep_joinSep hK, nameParts_reverse, nameParts_trimTriv, nameParts_reverse]
  intro s hs
  have h1 := mem_trimTriv (List.mem_reverse.mp hs)
  have h2 := mem_trimTriv (List.mem_reverse.mp h1)
  exact noSep_of_mem_splitSep h2

theorem join_dir_base {dir base : Bytes} (hd : dir.getLast? = some 47) (hb : (47 : UInt8) ∉ base) :
    Path.join dir base = dir ++ base := by
  unfold Path.join
  have : hasRoot base = false := by
    cases base with
    | nil => rfl
    | cons a t =>
      have : a ≠ 47 := fun e => hb (by simp [e])
      unfold hasRoot
      split
      · next h => simp only [List.cons.injEq] at h; exact absurd h.1 this
      · rfl
  simp [this, hd]

/-- the pieces of a destination behind its first piece, for a destination that has a split -/
theorem tail_pieces {dest d name trail f0 : Bytes} {T : List Bytes} (hS : splitSep dest = f0 :: T)
    (h : Split dest d name trail) :
    ∃ tl J, T = tl ++ name :: J ∧ ∀ y ∈ J, isTriv y = true := by
  obtain ⟨J, hJ, hp⟩ := pieces_of_split h
  rw [splitSep_eq_cons d, hS] at hp
  simp only [List.cons_append, List.cons.injEq] at hp
  exact ⟨_, J, hp.2, hJ⟩

/-! ### sequencing -/

theorem seqOut_not_panic {l : List (Out Unit)} (h : ∀ x ∈ l, x.isPanic = false) : (seqOut l).isPanic = false := by
  induction l with
  | nil => rfl
  | cons x r ih =>
    have hx := h x (by simp)
    have hr := ih (fun y hy => h y (List.mem_cons_of_mem _ hy))
    cases x with
    | ok a => exact hr
    | err c => rfl
    | panic s => cases hx

theorem discardOut_isPanic {α : Type} (x : Out α) : (discardOut x).isPanic = x.isPanic := by
  cases x <;> rfl

end RpmVerif.AddData
