import RpmVerif.Model.Sign
import RpmVerif.Model.Verify
import RpmVerif.Lemmas.Builder
/-! Lemmas for C10: the signature headers `sign` / `clear_signatures` install are well formed, and what the
getters used by `verify_digests`, `verify_signature` and `signature_key_ids` return on them. -/
namespace RpmVerif.Sign
open RpmVerif.Hdr RpmVerif.Gen RpmVerif.Digest RpmVerif.Bld

/-! ### ASCII text is unchanged by `from_utf8_lossy` -/

theorem step_ascii (b : UInt8) (r : Bytes) (h : b < 0x80) : Utf8.step (b :: r) = (1, true) := by
  simp [Utf8.step, h]

theorem lossyAux_ascii (s : Bytes) (h : ∀ b ∈ s, b < 0x80) :
    ∀ fuel acc, s.length ≤ fuel → Utf8.lossyAux fuel s acc = acc.reverse ++ s := by
  induction s with
  | nil => intro fuel acc _; cases fuel <;> simp [Utf8.lossyAux]
  | cons b r ih =>
    intro fuel acc hf
    cases fuel with
    | zero => simp at hf
    | succ f =>
      have hb := h b (by simp)
      have hr : ∀ x ∈ r, x < 0x80 := fun x m => h x (by simp [m])
      simp only [Utf8.lossyAux, step_ascii b r hb]
      simp only [Nat.succ_ne_zero, if_false, if_true, List.drop_succ_cons, List.drop_zero, List.take_succ_cons,
        List.take_zero, List.reverse_cons, List.reverse_nil, List.nil_append, List.singleton_append]
      rw [ih hr f (b :: acc) (by simpa using hf)]
      simp

theorem lossy_ascii (s : Bytes) (h : ∀ b ∈ s, b < 0x80) : Utf8.lossy s = s := by
  have := lossyAux_ascii s h s.length [] (Nat.le_refl _)
  simpa [Utf8.lossy] using this

/-- NUL-free ASCII text is a string the header stores faithfully -/
theorem strOk_ascii (s : Bytes) (h : ∀ b ∈ s, b < 0x80 ∧ b ≠ 0) : StrOk s :=
  ⟨fun m => (h 0 m).2 rfl, lossy_ascii s (fun b m => (h b m).1)⟩

theorem hexDigitByte_ascii (n : Nat) (h : n < 16) : hexDigitByte n < 0x80 ∧ hexDigitByte n ≠ 0 := by
  have key : ∀ i : Fin 16, hexDigitByte i.val < 0x80 ∧ hexDigitByte i.val ≠ 0 := by decide
  exact key ⟨n, h⟩

theorem hexLower_ascii (bs : Bytes) : ∀ b ∈ hexLower bs, b < 0x80 ∧ b ≠ 0 := by
  intro b hb
  simp only [hexLower, List.mem_flatMap, List.mem_cons, List.not_mem_nil, or_false] at hb
  obtain ⟨x, _, rfl | rfl⟩ := hb
  · exact hexDigitByte_ascii _ (by have := x.toNat_lt; omega)
  · exact hexDigitByte_ascii _ (by omega)

/-- the digest text `hex::encode(..)` is always storable -/
theorem strOk_shaHex (sha256 : Bytes → Bytes) (hb : Bytes) : StrOk (shaHex sha256 hb) :=
  strOk_ascii _ (hexLower_ascii _)

/-! ### a size bound for `from_entries` stores -/

theorem padTo_lt (n a : Nat) (h : 0 < a) : padTo n a < a := Nat.mod_lt _ h

theorem align_bounds (d : IndexData) : 0 < d.align ∧ d.align ≤ 8 := by
  cases d <;> simp [IndexData.align]

theorem layout_length_le (rs : List (Nat × IndexData)) (store : Bytes) :
    (layout rs store).2.length ≤ store.length + (rs.map (fun r => r.2.enc.length + 8)).sum := by
  induction rs generalizing store with
  | nil => simp [layout]
  | cons r rs ih =>
    obtain ⟨tag, d⟩ := r
    simp only [layout, List.map_cons, List.sum_cons]
    have h1 := ih (store ++ List.replicate (padTo store.length d.align) 0 ++ d.enc)
    simp only [List.length_append, List.length_replicate] at h1
    have h2 := padTo_lt store.length d.align (align_bounds d).1
    have h3 := (align_bounds d).2
    omega

/-- the store `from_entries` lays out: every record's encoding, less than 8 bytes of alignment each, the trailer -/
theorem fromEntries_store_le (recs : List (Nat × IndexData)) (rt : Nat) :
    (fromEntries recs rt).store.length ≤ (recs.map (fun r => r.2.enc.length + 8)).sum + 16 := by
  simp only [fromEntries, List.length_append, regionTrailer_length]
  have h := layout_length_le (recs.mergeSort (fun a b => decide (a.1 ≤ b.1))) []
  have hp : ((recs.mergeSort (fun a b => decide (a.1 ≤ b.1))).map (fun r => r.2.enc.length + 8)).sum
      = (recs.map (fun r => r.2.enc.length + 8)).sum :=
    ((List.mergeSort_perm recs _).map _).sum_nat
  simp only [List.length_nil] at h
  omega

/-! ### what has to be assumed about sizes and the base64 text -/

/-- the signature-header records built for the serialised main header `hb` fit the header format: the base64
text is NUL-free UTF-8 (it is ASCII for the real encoder), and text + raw signature + digest text stay below
2 GiB (real ones have a few hundred bytes) -/
structure SigRecsOk (S : SigScheme) (sha256 : Bytes → Bytes) (hb : Bytes) : Prop where
  b64 : ∀ k t, StrOk (S.b64enc (S.sign k hb t))
  small : ∀ k t, (S.b64enc (S.sign k hb t)).length + (S.sign k hb t).length + (shaHex sha256 hb).length < 2147483000
  sha : (shaHex sha256 hb).length < 2147483000

theorem SigRecsOk.sigLen {S : SigScheme} {sha256 : Bytes → Bytes} {hb : Bytes} (ok : SigRecsOk S sha256 hb)
    (k : S.Key) (t : Nat) : (S.sign k hb t).length < 4294967296 := by
  have := ok.small k t; omega

theorem SigRecsOk.signSize {S : SigScheme} {sha256 : Bytes → Bytes} {hb : Bytes} (ok : SigRecsOk S sha256 hb)
    (k : S.Key) (t : Nat) : (signedSig S sha256 k t hb).store.length < 2147483648 := by
  have h := fromEntries_store_le (signRecs S sha256 k t hb) SigTag.HEADER_SIGNATURES
  rw [← signedSig_eq] at h
  have := ok.small k t
  simp only [signRecs, List.map_cons, List.map_nil, List.sum_cons, List.sum_nil, IndexData.enc, List.flatten_cons,
    List.flatten_nil, List.length_append, List.length_cons, List.length_nil] at h
  omega

theorem SigRecsOk.clearSize {S : SigScheme} {sha256 : Bytes → Bytes} {hb : Bytes} (ok : SigRecsOk S sha256 hb) :
    (clearedSig sha256 hb).store.length < 2147483648 := by
  have h := fromEntries_store_le (clearRecs sha256 hb) SigTag.HEADER_SIGNATURES
  rw [← clearedSig_eq] at h
  have := ok.sha
  simp only [clearRecs, List.map_cons, List.map_nil, List.sum_cons, List.sum_nil, IndexData.enc,
    List.length_append, List.length_cons, List.length_nil] at h
  omega

theorem legacy_lt {S : SigScheme} (hl : S.LegacyOk) (k : S.Key) : S.legacyTag k < 4294967296 := by
  rcases hl k with h | h <;> rw [h] <;> decide

theorem signRecs_ok {S : SigScheme} {sha256 : Bytes → Bytes} {hb : Bytes} (hl : S.LegacyOk)
    (ok : SigRecsOk S sha256 hb) (k : S.Key) (t : Nat) :
    RecsOk (signRecs S sha256 k t hb) SigTag.HEADER_SIGNATURES := by
  refine ⟨?_, ?_, by decide, by simp [signRecs], ?_⟩
  · intro r hr
    simp only [signRecs, List.mem_cons, List.not_mem_nil, or_false] at hr
    rcases hr with rfl | rfl | rfl
    · exact ⟨by simp, fun s hs => by simp only [List.mem_singleton] at hs; subst hs; exact ok.b64 k t⟩
    · exact ok.sigLen k t
    · exact strOk_shaHex sha256 hb
  · intro r hr
    simp only [signRecs, List.mem_cons, List.not_mem_nil, or_false] at hr
    rcases hr with rfl | rfl | rfl
    · show SigTag.RPMSIGTAG_OPENPGP < 4294967296; decide
    · exact legacy_lt hl k
    · show SigTag.RPMSIGTAG_SHA256 < 4294967296; decide
  · rw [← signedSig_eq]; exact ok.signSize k t

theorem clearRecs_ok {S : SigScheme} {sha256 : Bytes → Bytes} {hb : Bytes} (ok : SigRecsOk S sha256 hb) :
    RecsOk (clearRecs sha256 hb) SigTag.HEADER_SIGNATURES := by
  refine ⟨?_, ?_, by decide, by simp [clearRecs], ?_⟩
  · intro r hr
    simp only [clearRecs, List.mem_singleton] at hr
    subst hr
    exact strOk_shaHex sha256 hb
  · intro r hr
    simp only [clearRecs, List.mem_singleton] at hr
    subst hr
    show SigTag.RPMSIGTAG_SHA256 < 4294967296; decide
  · rw [← clearedSig_eq]; exact ok.clearSize

theorem signedSig_wf {S : SigScheme} {sha256 : Bytes → Bytes} {hb : Bytes} (hl : S.LegacyOk)
    (ok : SigRecsOk S sha256 hb) (k : S.Key) (t : Nat) : HeaderWF (signedSig S sha256 k t hb) := by
  rw [signedSig_eq]; exact fromEntries_wf (signRecs_ok hl ok k t)

theorem clearedSig_wf {S : SigScheme} {sha256 : Bytes → Bytes} {hb : Bytes} (ok : SigRecsOk S sha256 hb) :
    HeaderWF (clearedSig sha256 hb) := by
  rw [clearedSig_eq]; exact fromEntries_wf (clearRecs_ok ok)

/-! ### the getters on a signed signature header -/
section signed
variable {S : SigScheme} (sha256 : Bytes → Bytes) (hl : S.LegacyOk) (k : S.Key) (t : Nat) (hb : Bytes)
include hl

theorem signRecs_nodup : ((signRecs S sha256 k t hb).map (·.1)).Nodup := by
  simp only [signRecs, List.map_cons, List.map_nil]
  rcases hl k with h | h <;> rw [h] <;> decide

theorem signRecs_noRegion : ∀ r ∈ signRecs S sha256 k t hb, r.1 ≠ SigTag.HEADER_SIGNATURES := by
  intro r hr
  simp only [signRecs, List.mem_cons, List.not_mem_nil, or_false] at hr
  rcases hr with rfl | rfl | rfl
  · show SigTag.RPMSIGTAG_OPENPGP ≠ SigTag.HEADER_SIGNATURES; decide
  · show S.legacyTag k ≠ SigTag.HEADER_SIGNATURES
    rcases hl k with h | h <;> rw [h] <;> decide
  · show SigTag.RPMSIGTAG_SHA256 ≠ SigTag.HEADER_SIGNATURES; decide

theorem signed_openpgp :
    getStringArray (signedSig S sha256 k t hb) SigTag.RPMSIGTAG_OPENPGP = .ok [S.b64enc (S.sign k hb t)] := by
  rw [signedSig_eq]
  exact fromEntries_get IndexData.asStringArray (signRecs_nodup sha256 hl k t hb) (signRecs_noRegion sha256 hl k t hb)
    (d := .strArray [S.b64enc (S.sign k hb t)]) (by simp [signRecs]) rfl

theorem signed_sha256 :
    getString (signedSig S sha256 k t hb) SigTag.RPMSIGTAG_SHA256 = .ok (shaHex sha256 hb) := by
  rw [signedSig_eq]
  exact fromEntries_get IndexData.asStr (signRecs_nodup sha256 hl k t hb) (signRecs_noRegion sha256 hl k t hb)
    (d := .str (shaHex sha256 hb)) (by simp [signRecs]) rfl

/-- the legacy tag carries the raw signature -/
theorem signed_legacy :
    getBinary (signedSig S sha256 k t hb) (S.legacyTag k) = .ok (S.sign k hb t) := by
  rw [signedSig_eq]
  exact fromEntries_get IndexData.asBinary (signRecs_nodup sha256 hl k t hb) (signRecs_noRegion sha256 hl k t hb)
    (d := .bin (S.sign k hb t)) (by simp [signRecs]) rfl

theorem signed_absent {α} (proj : IndexData → Option α) (tag : Nat) (h1 : tag ≠ SigTag.HEADER_SIGNATURES)
    (h2 : tag ≠ SigTag.RPMSIGTAG_OPENPGP) (h3 : tag ≠ SigTag.RPMSIGTAG_RSA) (h4 : tag ≠ SigTag.RPMSIGTAG_DSA)
    (h5 : tag ≠ SigTag.RPMSIGTAG_SHA256) :
    getWith proj (signedSig S sha256 k t hb) tag = .err "notfound" := by
  rw [signedSig_eq]
  apply fromEntries_absent proj (Ne.symm h1)
  intro r hr
  simp only [signRecs, List.mem_cons, List.not_mem_nil, or_false] at hr
  rcases hr with rfl | rfl | rfl
  · exact Ne.symm h2
  · rcases hl k with h | h <;> simp only [h]
    · exact Ne.symm h3
    · exact Ne.symm h4
  · exact Ne.symm h5

end signed

/-! ### the getters on a cleared signature header -/
section cleared
variable (sha256 : Bytes → Bytes) (hb : Bytes)

theorem cleared_sha256 : getString (clearedSig sha256 hb) SigTag.RPMSIGTAG_SHA256 = .ok (shaHex sha256 hb) := by
  rw [clearedSig_eq]
  exact fromEntries_get IndexData.asStr (by simp [clearRecs]) (by simp [clearRecs]; decide)
    (d := .str (shaHex sha256 hb)) (by simp [clearRecs]) rfl

theorem cleared_absent {α} (proj : IndexData → Option α) (tag : Nat) (h1 : tag ≠ SigTag.HEADER_SIGNATURES)
    (h5 : tag ≠ SigTag.RPMSIGTAG_SHA256) : getWith proj (clearedSig sha256 hb) tag = .err "notfound" := by
  rw [clearedSig_eq]
  apply fromEntries_absent proj (Ne.symm h1)
  intro r hr
  simp only [clearRecs, List.mem_singleton] at hr
  subst hr
  exact Ne.symm h5

end cleared

end RpmVerif.Sign

/-! ### evaluable forms (the kernel cannot run `mergeSort`; for these record shapes the sorted order is known) -/
namespace RpmVerif.Sign
open RpmVerif.Hdr RpmVerif.Gen

/-- `from_entries` on records that are already in tag order -/
def fromSorted (sorted : List (Nat × IndexData)) (regionTag : Nat) : Header :=
  let r := layout sorted []
  let trailer := regionTrailer regionTag sorted.length
  ⟨sorted.length + 1, (r.2 ++ trailer).length, ⟨regionTag, .bin trailer, r.2.length, 16⟩ :: r.1, r.2 ++ trailer⟩

theorem fromEntries_eq_fromSorted (recs : List (Nat × IndexData)) (rt : Nat) :
    fromEntries recs rt = fromSorted (recs.mergeSort (fun a b => decide (a.1 ≤ b.1))) rt := rfl

theorem sort3 (t : Nat) (h : t = 268 ∨ t = 267) (a b c : IndexData) :
    [(278, a), (t, b), (273, c)].mergeSort (fun x y => decide (x.1 ≤ y.1)) = [(t, b), (273, c), (278, a)] := by
  rcases h with rfl | rfl <;> simp [List.mergeSort]

theorem sort1 (x : Nat × IndexData) : [x].mergeSort (fun x y => decide (x.1 ≤ y.1)) = [x] := by simp

def signedSigE (S : SigScheme) (sha256 : Bytes → Bytes) (k : S.Key) (t : Nat) (hb : Bytes) : Header :=
  fromSorted [(S.legacyTag k, .bin (S.sign k hb t)), (SigTag.RPMSIGTAG_SHA256, .str (shaHex sha256 hb)),
    (SigTag.RPMSIGTAG_OPENPGP, .strArray [S.b64enc (S.sign k hb t)])] SigTag.HEADER_SIGNATURES

def clearedSigE (sha256 : Bytes → Bytes) (hb : Bytes) : Header :=
  fromSorted [(SigTag.RPMSIGTAG_SHA256, .str (shaHex sha256 hb))] SigTag.HEADER_SIGNATURES

theorem signedSig_eq_E {S : SigScheme} (hl : S.LegacyOk) (sha256 : Bytes → Bytes) (k : S.Key) (t : Nat) (hb : Bytes) :
    signedSig S sha256 k t hb = signedSigE S sha256 k t hb := by
  rw [signedSig_eq, fromEntries_eq_fromSorted]
  exact congrArg (fromSorted · SigTag.HEADER_SIGNATURES) (sort3 _ (hl k) _ _ _)

theorem clearedSig_eq_E (sha256 : Bytes → Bytes) (hb : Bytes) : clearedSig sha256 hb = clearedSigE sha256 hb := by
  rw [clearedSig_eq, fromEntries_eq_fromSorted]
  exact congrArg (fromSorted · SigTag.HEADER_SIGNATURES) (sort1 _)

/-- `step` / `run` with the evaluable signature headers -/
def stepE (S : SigScheme) (sha256 : Bytes → Bytes) : Op S.Key → Package → Out Package
  | .sign k t, p => .ok ⟨⟨p.md.lead, signedSigE S sha256 k t (writeHeader p.md.header), p.md.header⟩, p.content⟩
  | .clear, p => .ok ⟨⟨p.md.lead, clearedSigE sha256 (writeHeader p.md.header), p.md.header⟩, p.content⟩
  | .writeParse, p => writeParse p

def runE (S : SigScheme) (sha256 : Bytes → Bytes) : List (Op S.Key) → Package → Out Package
  | [], p => .ok p
  | o :: os, p => stepE S sha256 o p >>= runE S sha256 os

theorem run_eq_runE {S : SigScheme} (hl : S.LegacyOk) (sha256 : Bytes → Bytes) (ops : List (Op S.Key)) (p : Package) :
    run S sha256 ops p = runE S sha256 ops p := by
  induction ops generalizing p with
  | nil => rfl
  | cons o os ih =>
    have hs : step S sha256 o p = stepE S sha256 o p := by
      cases o with
      | sign k t => simp only [step, stepE, signOp, signedSig_eq_E hl]
      | clear => simp only [step, stepE, clearOp, clearedSig_eq_E]
      | writeParse => rfl
    simp only [run, runE, hs]
    cases stepE S sha256 o p with
    | ok q => exact ih q
    | err c => rfl
    | panic c => rfl

end RpmVerif.Sign

/-! ### the symbolic scheme satisfies every hypothesis -/
namespace RpmVerif.Sign.Sym
open RpmVerif.Hdr RpmVerif.Gen

theorem parts_sign (k : UInt8) (m : Bytes) (t : Nat) : parts (sign k m t) = some (k, m) := by
  simp [parts, sign, be32]

theorem verify_sign (k : UInt8) (m : Bytes) (t : Nat) : verify k m (sign k m t) = true := by
  simp [verify, parts_sign]

theorem verify_sign_inv (k k' : UInt8) (m m' : Bytes) (t : Nat) (h : verify k' m' (sign k m t) = true) :
    k' = k ∧ m' = m := by
  simp only [verify, parts_sign, Bool.and_eq_true, beq_iff_eq] at h
  exact ⟨h.1.symm, h.2.symm⟩

theorem signerOf_sign (k : UInt8) (m : Bytes) (t : Nat) : signerOf (sign k m t) = some k := by
  simp [signerOf, parts_sign]

theorem correct (ids : UInt8 → Bytes) : (scheme ids).Correct := fun k m t => verify_sign k m t

theorem binds (ids : UInt8 → Bytes) : (scheme ids).Binds := fun k k' m m' t h => verify_sign_inv k k' m m' t h

theorem issuer_sign (ids : UInt8 → Bytes) (k : UInt8) (m : Bytes) (t : Nat) :
    (signerOf (sign k m t)).map (fun k => [ids k]) = some [ids k] := by
  rw [signerOf_sign]; rfl

theorem issuerOk (ids : UInt8 → Bytes) : (scheme ids).IssuerOk := fun k m t => issuer_sign ids k m t

theorem legacyOk (ids : UInt8 → Bytes) : (scheme ids).LegacyOk := by
  intro k
  simp only [scheme]
  split
  · exact .inl rfl
  · exact .inr rfl

theorem dec_encByte (b : UInt8) (r : Bytes) : dec (encByte b ++ r) = (dec r).map (b :: ·) := by
  have hb := b.toNat_lt
  simp only [encByte, List.cons_append, List.nil_append, dec, Nat.toUInt8, UInt8.toNat_ofNat']
  rw [if_pos (by omega)]
  congr 2
  funext l
  congr 1
  apply UInt8.toNat_inj.mp
  simp only [UInt8.toNat_ofNat']
  omega

theorem b64 (ids : UInt8 → Bytes) : (scheme ids).B64 := by
  intro s
  show dec (enc s) = some s
  induction s with
  | nil => rfl
  | cons b r ih =>
    have : enc (b :: r) = encByte b ++ enc r := by simp [enc]
    rw [this, dec_encByte, ih]; rfl

theorem enc_length (s : Bytes) : (enc s).length = 2 * s.length := by
  induction s with
  | nil => rfl
  | cons b r ih =>
    have : enc (b :: r) = encByte b ++ enc r := by simp [enc]
    rw [this, List.length_append, ih]; simp [encByte]; omega

theorem enc_ascii (s : Bytes) : ∀ b ∈ enc s, b < 0x80 ∧ b ≠ 0 := by
  intro b hb
  have h128 : (0x80 : UInt8).toNat = 128 := rfl
  simp only [enc, List.mem_flatMap, encByte, List.mem_cons, List.not_mem_nil, or_false] at hb
  obtain ⟨x, _, rfl | rfl⟩ := hb
  · have hx := x.toNat_lt
    constructor
    · rw [UInt8.lt_iff_toNat_lt, h128]; simp only [Nat.toUInt8, UInt8.toNat_ofNat']; omega
    · intro h
      have := congrArg UInt8.toNat h
      simp only [Nat.toUInt8, UInt8.toNat_ofNat', UInt8.toNat_zero] at this
      omega
  · constructor
    · rw [UInt8.lt_iff_toNat_lt, h128]; simp only [Nat.toUInt8, UInt8.toNat_ofNat']; omega
    · intro h
      have := congrArg UInt8.toNat h
      simp only [Nat.toUInt8, UInt8.toNat_ofNat', UInt8.toNat_zero] at this
      omega

theorem sign_length (k : UInt8) (m : Bytes) (t : Nat) : (sign k m t).length = m.length + 6 := by
  simp [sign, be32_length]; omega

/-- sizes and text are fine whenever the header and the digest text are of ordinary size -/
theorem sigRecsOk (ids : UInt8 → Bytes) (sha256 : Bytes → Bytes) (hb : Bytes)
    (h : 3 * hb.length + (shaHex sha256 hb).length < 2147482000) : SigRecsOk (scheme ids) sha256 hb := by
  have small : ∀ (k : UInt8) (t : Nat),
      (enc (sign k hb t)).length + (sign k hb t).length + (shaHex sha256 hb).length < 2147483000 := by
    intro k t; rw [enc_length, sign_length]; omega
  exact ⟨fun k t => strOk_ascii _ (enc_ascii _), fun k t => small k t, by omega⟩

end RpmVerif.Sign.Sym

/-! ### C10's `verifyWith` and C02's `verifySignatureS` mirror the same Rust function (`Package::verify_signature`) -/
namespace RpmVerif.Sign
open RpmVerif.Hdr RpmVerif.Gen RpmVerif.Digest

/-- the verifier object `Verifier::load_from_asc_bytes(public half of k)` as C02's `Verifier`: stateless -/
def verifierOf (S : SigScheme) (k : S.Key) : Verify.Verifier := fun _ d s => S.verify k d s

theorem verifyAll_eq_openpgpLoop (S : SigScheme) (k : S.Key) (hb : Bytes) (pre : List Verify.Consult) (sigs : List Bytes) :
    verifyAll S k hb sigs = (Verify.openpgpLoop S.b64dec (verifierOf S k) hb pre sigs).1 := by
  induction sigs generalizing pre with
  | nil => rfl
  | cons s rest ih =>
    simp only [verifyAll, Verify.openpgpLoop]
    cases S.b64dec s with
    | none => rfl
    | some sig =>
      have e : verifierOf S k pre hb sig = S.verify k hb sig := rfl
      cases hv : S.verify k hb sig
      · simp [e, hv]
      · simp only [e, hv, if_true]; exact ih _

/-- one `if let Ok(sig) = tag { verifier.verify(data, sig)? }` in front of the remaining steps -/
theorem runConsults_stepOf (S : SigScheme) (k : S.Key) (data : Bytes) (g : Out Bytes) (pgp : Bool) (pre : List Verify.Consult)
    (rest : List (Bytes × Bytes × Bool)) :
    ∃ pre', (Verify.runConsults (verifierOf S k) pre (Verify.stepOf g data pgp ++ rest)).1 =
      (verifyLegacy S k data g >>= fun _ => (Verify.runConsults (verifierOf S k) pre' rest).1) := by
  cases g with
  | ok s =>
    have e : verifierOf S k pre data s = S.verify k data s := rfl
    simp only [Verify.stepOf, List.cons_append, List.nil_append, Verify.runConsults, verifyLegacy]
    cases hv : S.verify k data s
    · exact ⟨[], by simp [e, hv]⟩
    · exact ⟨pre ++ [⟨data, s, true, pgp⟩], by simp only [e, hv, if_true, Out.bind_ok]⟩
  | err c => exact ⟨pre, rfl⟩
  | panic c => exact ⟨pre, rfl⟩

/-- the legacy branch -/
theorem verifyLegacy_eq_legacy (S : SigScheme) (k : S.Key) (hb content : Bytes) (sig : Header) :
    (if (!(getBinary sig SigTag.RPMSIGTAG_RSA).isOk && !(getBinary sig SigTag.RPMSIGTAG_DSA).isOk
          && !(getBinary sig SigTag.RPMSIGTAG_PGP).isOk) = true then (Out.err "nosig" : Out Unit) else do
        verifyLegacy S k hb (getBinary sig SigTag.RPMSIGTAG_DSA)
        verifyLegacy S k hb (getBinary sig SigTag.RPMSIGTAG_RSA)
        verifyLegacy S k (hb ++ content) (getBinary sig SigTag.RPMSIGTAG_PGP)) =
      (Verify.legacy (verifierOf S k) hb content sig).1 := by
  simp only [Verify.legacy]
  split
  · rfl
  · obtain ⟨p1, h1⟩ := runConsults_stepOf S k hb (getBinary sig SigTag.RPMSIGTAG_DSA) false []
      (Verify.stepOf (getBinary sig SigTag.RPMSIGTAG_RSA) hb false ++
        Verify.stepOf (getBinary sig SigTag.RPMSIGTAG_PGP) (hb ++ content) true)
    obtain ⟨p2, h2⟩ := runConsults_stepOf S k hb (getBinary sig SigTag.RPMSIGTAG_RSA) false p1
      (Verify.stepOf (getBinary sig SigTag.RPMSIGTAG_PGP) (hb ++ content) true)
    obtain ⟨p3, h3⟩ := runConsults_stepOf S k (hb ++ content) (getBinary sig SigTag.RPMSIGTAG_PGP) true p2 []
    rw [List.append_assoc, h1, h2]
    rw [List.append_nil] at h3
    rw [h3]
    simp only [Verify.runConsults]
    cases verifyLegacy S k hb (getBinary sig SigTag.RPMSIGTAG_DSA) <;> simp
    cases verifyLegacy S k hb (getBinary sig SigTag.RPMSIGTAG_RSA) <;> simp
    cases verifyLegacy S k (hb ++ content) (getBinary sig SigTag.RPMSIGTAG_PGP) <;> simp

/-- **the two mirrors of `verify_signature` are one function**: C10's `verifyWith` (a key of the scheme) is C02's
`verifySignatureS` (any, even stateful, verifier object) at the stateless verifier of that key, with the scheme's
base64 decoder — same result, same error class -/
theorem verifyWith_eq_verifySignatureS (S : SigScheme) (md5 sha1 sha256 : Bytes → Bytes) (k : S.Key) (p : Package) :
    verifyWith S md5 sha1 sha256 k p = (Verify.verifySignatureS md5 sha1 sha256 S.b64dec (verifierOf S k) p).1 := by
  unfold verifyWith Verify.verifySignatureS
  cases verifyDigests md5 sha1 sha256 p with
  | err c => rfl
  | panic s => rfl
  | ok u =>
    simp only [Out.bind_ok]
    cases getStringArray p.md.signature SigTag.RPMSIGTAG_OPENPGP with
    | ok sigs =>
      simp only
      by_cases he : sigs.isEmpty = true
      · simp [he]
      · simp only [he, Bool.false_eq_true, if_false]
        exact verifyAll_eq_openpgpLoop S k _ [] sigs
    | err c => exact verifyLegacy_eq_legacy S k _ _ _
    | panic s => exact verifyLegacy_eq_legacy S k _ _ _
end RpmVerif.Sign
