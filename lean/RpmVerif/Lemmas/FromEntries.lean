import RpmVerif.Model.FromEntries
import RpmVerif.Lemmas.Header
/-! `from_entries` produces well-formed headers: every entry decodes back to its own data. -/
namespace RpmVerif.Hdr

/-- a string the header can carry faithfully: NUL-free and unchanged by `from_utf8_lossy` -/
def StrOk (s : Bytes) : Prop := (0 : UInt8) ∉ s ∧ Utf8.lossy s = s

/-- data that survives encode → decode unchanged -/
def IndexData.Canon : IndexData → Prop
  | .null => True
  | .char d => d.length < 4294967296
  | .int8 d => d.length < 4294967296
  | .bin d => d.length < 4294967296
  | .int16 l => l.length < 4294967296 ∧ ∀ x ∈ l, x < 65536
  | .int32 l => l.length < 4294967296 ∧ ∀ x ∈ l, x < 4294967296
  | .int64 l => l.length < 4294967296 ∧ ∀ x ∈ l, x < 18446744073709551616
  | .str s => StrOk s
  | .strArray l => l.length < 4294967296 ∧ ∀ s ∈ l, StrOk s
  | .i18n l => l.length < 4294967296 ∧ ∀ s ∈ l, StrOk s

theorem rd64_be64 {n} (h : n < 18446744073709551616) (r : Bytes) : rd64 (be64 n ++ r) = .ok (n, r) := by
  simp only [be64, rd64, List.append_assoc]
  rw [rd32_be32 (by omega)]; simp only [Out.bind_ok]
  rw [rd32_be32 (by omega)]; simp only [Out.bind_ok, Out.pure_eq]
  congr 2
  omega

theorem rdN16_enc (l : List Nat) (post : Bytes) (h : ∀ x ∈ l, x < 65536) :
    rdN16 l.length ((l.map be16).flatten ++ post) = .ok l := by
  induction l with
  | nil => rfl
  | cons x xs ih =>
    simp only [List.map_cons, List.flatten_cons, List.append_assoc, List.length_cons, rdN16]
    rw [rd16_be16 (h x (by simp))]; simp only [Out.bind_ok]
    rw [ih (fun y m => h y (by simp [m]))]; rfl

theorem rdN32_enc (l : List Nat) (post : Bytes) (h : ∀ x ∈ l, x < 4294967296) :
    rdN32 l.length ((l.map be32).flatten ++ post) = .ok l := by
  induction l with
  | nil => rfl
  | cons x xs ih =>
    simp only [List.map_cons, List.flatten_cons, List.append_assoc, List.length_cons, rdN32]
    rw [rd32_be32 (h x (by simp))]; simp only [Out.bind_ok]
    rw [ih (fun y m => h y (by simp [m]))]; rfl

theorem rdN64_enc (l : List Nat) (post : Bytes) (h : ∀ x ∈ l, x < 18446744073709551616) :
    rdN64 l.length ((l.map be64).flatten ++ post) = .ok l := by
  induction l with
  | nil => rfl
  | cons x xs ih =>
    simp only [List.map_cons, List.flatten_cons, List.append_assoc, List.length_cons, rdN64]
    rw [rd64_be64 (h x (by simp))]; simp only [Out.bind_ok]
    rw [ih (fun y m => h y (by simp [m]))]; rfl

theorem takeTill0_append (s post : Bytes) (h : (0 : UInt8) ∉ s) :
    takeTill0 (s ++ 0 :: post) = (s, 0 :: post) := by
  induction s with
  | nil => simp [takeTill0]
  | cons b r ih =>
    have hb : b ≠ 0 := fun e => h (by simp [e])
    have hr : (0 : UInt8) ∉ r := fun m => h (by simp [m])
    simp only [List.cons_append, takeTill0, if_neg hb, ih hr]

theorem rdStrings_enc (l : List Bytes) (post : Bytes) (h : ∀ s ∈ l, StrOk s) :
    rdStrings l.length ((l.map (· ++ [0])).flatten ++ post) = .ok l := by
  induction l with
  | nil => rfl
  | cons s ss ih =>
    have hs := h s (by simp)
    simp only [List.map_cons, List.flatten_cons, List.append_assoc, List.length_cons, rdStrings,
      List.cons_append, List.nil_append]
    rw [takeTill0_append s _ hs.1]
    simp only
    rw [ih (fun y m => h y (by simp [m]))]
    simp only [Out.bind_ok, Out.pure_eq, hs.2]

theorem rdBin_enc (d post : Bytes) : rdBin d.length (d ++ post) = .ok d := by
  simp [rdBin]

/-- decoding at the offset where the encoding sits returns the data -/
theorem decode_enc {d : IndexData} (hc : d.Canon) (pre post : Bytes) (hoff : pre.length < 2147483648) :
    decode (pre ++ d.enc ++ post) d.typeCode pre.length d.numItems = .ok d := by
  have hle : ¬ (pre.length ≥ 2147483648 ∨ pre.length > (pre ++ d.enc ++ post).length) := by
    simp only [List.length_append]; omega
  unfold decode
  rw [if_neg hle]
  simp only [List.append_assoc, List.drop_left]
  cases d with
  | null => rfl
  | char b => simp only [IndexData.typeCode, IndexData.enc, IndexData.numItems, rdBin_enc, Out.map]
  | int8 b => simp only [IndexData.typeCode, IndexData.enc, IndexData.numItems, rdBin_enc, Out.map]
  | bin b => simp only [IndexData.typeCode, IndexData.enc, IndexData.numItems, rdBin_enc, Out.map]
  | int16 l => simp only [IndexData.typeCode, IndexData.enc, IndexData.numItems, rdN16_enc l post hc.2, Out.map]
  | int32 l => simp only [IndexData.typeCode, IndexData.enc, IndexData.numItems, rdN32_enc l post hc.2, Out.map]
  | int64 l => simp only [IndexData.typeCode, IndexData.enc, IndexData.numItems, rdN64_enc l post hc.2, Out.map]
  | str s =>
    simp only [IndexData.typeCode, IndexData.enc, List.append_assoc, List.cons_append, List.nil_append]
    rw [takeTill0_append s post hc.1, hc.2]
  | strArray l => simp only [IndexData.typeCode, IndexData.enc, IndexData.numItems, rdStrings_enc l post hc.2, Out.map]
  | i18n l => simp only [IndexData.typeCode, IndexData.enc, IndexData.numItems, rdStrings_enc l post hc.2, Out.map]

theorem numItems_lt {d : IndexData} (hc : d.Canon) : d.numItems < 4294967296 := by
  cases d <;> simp only [IndexData.numItems, IndexData.Canon] at * <;> omega

/-! ### the store bytes an encoding occupies are what the reader's budget counts -/
theorem flatten_map_length (l : List Nat) (f : Nat → Bytes) (w : Nat) (hw : ∀ x, (f x).length = w) :
    ((l.map f).flatten).length = w * l.length := by
  induction l with
  | nil => simp
  | cons x xs ih => simp [hw, ih, Nat.mul_succ]; omega

/-- the string loop over `k` terminated, NUL-free strings consumes exactly them -/
theorem strConsumed_enc (l : List Bytes) (post : Bytes) (h : ∀ s ∈ l, (0 : UInt8) ∉ s) :
    strConsumed l.length ((l.map (· ++ [0])).flatten ++ post) = ((l.map (· ++ [0])).flatten).length := by
  induction l with
  | nil => rfl
  | cons s ss ih =>
    simp only [List.map_cons, List.flatten_cons, List.append_assoc, List.length_cons, strConsumed,
      List.cons_append, List.nil_append]
    rw [takeTill0_append s _ (h s (by simp))]
    simp only
    rw [ih (fun y m => h y (by simp [m]))]
    simp only [List.length_append, List.length_cons]
    omega

/-- **the budget charges an encoding its own length**: decoding canonical data at the offset where `IndexData::append`
put it uses exactly the bytes of the encoding (alignment padding is not charged) -/
theorem decodeUsed_enc {d : IndexData} (hc : d.Canon) (pre post : Bytes) :
    decodeUsed (pre ++ d.enc ++ post) pre.length d.numItems d = d.enc.length := by
  cases d with
  | null => rfl
  | char b => rfl
  | int8 b => rfl
  | bin b => rfl
  | int16 l => simp only [decodeUsed, IndexData.enc]; rw [flatten_map_length l be16 2 (fun _ => rfl)]
  | int32 l => simp only [decodeUsed, IndexData.enc]; rw [flatten_map_length l be32 4 (fun _ => rfl)]
  | int64 l => simp only [decodeUsed, IndexData.enc]; rw [flatten_map_length l be64 8 (fun _ => by simp [be64, be32_length])]
  | str s =>
    simp only [decodeUsed, IndexData.enc, List.append_assoc, List.drop_left, List.cons_append, List.nil_append]
    rw [takeTill0_append s post hc.1]
    simp only [List.length_append, List.length_cons]
    exact Nat.min_eq_left (by omega)
  | strArray l =>
    simp only [decodeUsed, IndexData.enc, IndexData.numItems, List.append_assoc, List.drop_left]
    exact strConsumed_enc l post (fun s m => (hc.2 s m).1)
  | i18n l =>
    simp only [decodeUsed, IndexData.enc, IndexData.numItems, List.append_assoc, List.drop_left]
    exact strConsumed_enc l post (fun s m => (hc.2 s m).1)

/-! ### layout invariant -/
theorem layout_prefix (rs : List (Nat × IndexData)) (store : Bytes) : store <+: (layout rs store).2 := by
  induction rs generalizing store with
  | nil => simp [layout]
  | cons r rs ih =>
    obtain ⟨tag, d⟩ := r
    simp only [layout]
    exact List.IsPrefix.trans (by simp [List.append_assoc]) (ih _)

theorem layout_tags (rs : List (Nat × IndexData)) (store : Bytes) :
    (layout rs store).1.map (fun e => (e.tag, e.data)) = rs := by
  induction rs generalizing store with
  | nil => rfl
  | cons r rs ih =>
    obtain ⟨tag, d⟩ := r
    simp only [layout, List.map_cons, ih]

/-- every laid-out entry's encoding sits in the final store at its offset -/
theorem layout_inv (rs : List (Nat × IndexData)) (store : Bytes) :
    ∀ e ∈ (layout rs store).1, ∃ pre post, (layout rs store).2 = pre ++ e.data.enc ++ post ∧
      pre.length = e.off ∧ e.cnt = e.data.numItems ∧ e.off + e.data.enc.length ≤ (layout rs store).2.length := by
  induction rs generalizing store with
  | nil => intro e he; simp [layout] at he
  | cons r rs ih =>
    obtain ⟨tag, d⟩ := r
    intro e he
    simp only [layout, List.mem_cons] at he
    rcases he with rfl | he
    · obtain ⟨post, hp⟩ := layout_prefix rs (store ++ List.replicate (padTo store.length d.align) 0 ++ d.enc)
      refine ⟨store ++ List.replicate (padTo store.length d.align) 0, post, ?_, by simp, rfl, ?_⟩
      · simp only [layout]; rw [← hp]
      · simp only [layout]; rw [← hp]; simp only [List.length_append, List.length_replicate]; omega
    · simp only [layout]
      exact ih _ e he

/-- **`from_entries` lays the data out one record after the other**: the encodings of all records, and the store the
layout started from, fit in the final store (the rest is alignment padding) -/
theorem layout_enc_sum (rs : List (Nat × IndexData)) (store : Bytes) :
    ((layout rs store).1.map fun e => e.data.enc.length).sum + store.length ≤ (layout rs store).2.length := by
  induction rs generalizing store with
  | nil => simp [layout]
  | cons r rs ih =>
    obtain ⟨tag, d⟩ := r
    simp only [layout, List.map_cons, List.sum_cons]
    have := ih (store ++ List.replicate (padTo store.length d.align) 0 ++ d.enc)
    simp only [List.length_append, List.length_replicate] at this
    omega

end RpmVerif.Hdr

namespace RpmVerif.Hdr

theorem regionTrailer_length (tag count : Nat) : (regionTrailer tag count).length = 16 := by
  simp [regionTrailer, be32_length]

theorem layout_length (rs : List (Nat × IndexData)) (store : Bytes) : (layout rs store).1.length = rs.length := by
  have := congrArg List.length (layout_tags rs store)
  simpa using this

theorem typeCode_le9 (d : IndexData) : d.typeCode ≤ 9 := by cases d <;> simp [IndexData.typeCode]

theorem rawWF_iff (e : Entry) : RawWF e.raw ↔
    e.tag < 4294967296 ∧ e.data.typeCode ≤ 9 ∧ e.off < 4294967296 ∧ e.cnt < 4294967296 := Iff.rfl

/-- what `from_entries` needs from its input to produce a well-formed header -/
structure RecsOk (recs : List (Nat × IndexData)) (regionTag : Nat) : Prop where
  canon : ∀ r ∈ recs, r.2.Canon
  tags : ∀ r ∈ recs, r.1 < 4294967296
  region : regionTag < 4294967296
  count : recs.length + 1 < 4294967296
  size : (fromEntries recs regionTag).store.length < 2147483648

theorem mem_sorted {recs : List (Nat × IndexData)} {r} :
    r ∈ recs.mergeSort (fun a b => decide (a.1 ≤ b.1)) ↔ r ∈ recs := List.mem_mergeSort

/-- **`from_entries` yields well-formed headers** (hence they re-parse to themselves, C01/C06/C16). -/
theorem fromEntries_wf {recs : List (Nat × IndexData)} {regionTag : Nat} (ok : RecsOk recs regionTag) :
    HeaderWF (fromEntries recs regionTag) := by
  have hsize := ok.size
  simp only [fromEntries] at hsize ⊢
  generalize hs : recs.mergeSort (fun a b => decide (a.1 ≤ b.1)) = sorted at hsize ⊢
  have hmem : ∀ r, r ∈ sorted ↔ r ∈ recs := fun r => by rw [← hs]; exact mem_sorted
  have hlen : sorted.length = recs.length := by rw [← hs]; exact List.length_mergeSort recs
  have hlay := layout_inv sorted []
  have htags := layout_tags sorted []
  refine ⟨?_, rfl, ?_, ?_, ?_, ?_, ?_⟩
  · simp [layout_length]
  · show sorted.length + 1 < 4294967296
    rw [hlen]; exact ok.count
  · show ((layout sorted []).2 ++ regionTrailer regionTag sorted.length).length < 4294967296
    omega
  · intro e he
    simp only [List.mem_cons] at he
    rcases he with rfl | he
    · rw [rawWF_iff]
      simp only [List.length_append, regionTrailer_length] at hsize
      refine ⟨ok.region, typeCode_le9 _, ?_, (by show (16 : Nat) < 4294967296; omega)⟩
      show (layout sorted []).2.length < 4294967296
      omega
    · obtain ⟨pre, post, hfin, hpre, hcnt, hend⟩ := hlay e he
      have hm : (e.tag, e.data) ∈ sorted := by
        rw [← htags]; exact List.mem_map_of_mem (f := fun e => (e.tag, e.data)) he
      have hr := (hmem _).mp hm
      have hcan := ok.canon _ hr
      simp only [List.length_append, regionTrailer_length] at hsize
      rw [rawWF_iff]
      refine ⟨ok.tags _ hr, typeCode_le9 _, by omega, ?_⟩
      rw [hcnt]; exact numItems_lt hcan
  · intro e he
    simp only [List.mem_cons] at he
    simp only [List.length_append, regionTrailer_length] at hsize
    rcases he with rfl | he
    · have := decode_enc (d := .bin (regionTrailer regionTag sorted.length)) (by simp [IndexData.Canon, regionTrailer_length])
        (layout sorted []).2 [] (by omega)
      simpa [IndexData.enc, IndexData.numItems, IndexData.typeCode, regionTrailer_length] using this
    · obtain ⟨pre, post, hfin, hpre, hcnt, hend⟩ := hlay e he
      have hm : (e.tag, e.data) ∈ sorted := by
        rw [← htags]; exact List.mem_map_of_mem (f := fun e => (e.tag, e.data)) he
      have hcan := ok.canon _ ((hmem _).mp hm)
      have := decode_enc hcan pre (post ++ regionTrailer regionTag sorted.length) (by omega)
      rw [hcnt, ← hpre]
      show decode ((layout sorted []).2 ++ regionTrailer regionTag sorted.length) _ _ _ = _
      rw [hfin]
      simpa [List.append_assoc] using this
  · -- the budget: the region trailer (16 bytes at the end) + the encodings of the records, laid out one after the other
    show usedSum ((layout sorted []).2 ++ regionTrailer regionTag sorted.length)
        (⟨regionTag, .bin (regionTrailer regionTag sorted.length), (layout sorted []).2.length, 16⟩ :: (layout sorted []).1)
      ≤ ((layout sorted []).2 ++ regionTrailer regionTag sorted.length).length
    rw [usedSum_cons]
    have hrest : usedSum ((layout sorted []).2 ++ regionTrailer regionTag sorted.length) (layout sorted []).1
        = ((layout sorted []).1.map fun e => e.data.enc.length).sum := by
      unfold usedSum
      congr 1
      apply List.map_congr_left
      intro e he
      obtain ⟨pre, post, hfin, hpre, hcnt, hend⟩ := hlay e he
      have hm : (e.tag, e.data) ∈ sorted := by
        rw [← htags]; exact List.mem_map_of_mem (f := fun e => (e.tag, e.data)) he
      have hcan := ok.canon _ ((hmem _).mp hm)
      have := decodeUsed_enc hcan pre (post ++ regionTrailer regionTag sorted.length)
      rw [hcnt, ← hpre, hfin]
      simpa [List.append_assoc] using this
    have hsum := layout_enc_sum sorted []
    rw [hrest]
    simp only [decodeUsed, List.length_append, regionTrailer_length, List.length_nil] at hsum ⊢
    omega

end RpmVerif.Hdr

namespace RpmVerif.Hdr

/-- **`from_entries` lays the entries out WITHOUT overlap**: the store bytes the entries of a built header occupy — as the
reader's budget counts them (`decodeUsed`: the region trailer's 16 bytes, every record's encoding) — are together at most
the data section. So every header the builder emits passes the budget check of `parse_header`. -/
theorem fromEntries_within_budget {recs : List (Nat × IndexData)} {regionTag : Nat} (ok : RecsOk recs regionTag) :
    usedSum (fromEntries recs regionTag).store (fromEntries recs regionTag).entries ≤ (fromEntries recs regionTag).store.length :=
  (fromEntries_wf ok).budget

end RpmVerif.Hdr
