-- This module serves as the root of the `RpmVerif` library.
-- Import modules here that should be built as part of the library.
import RpmVerif.Basic
