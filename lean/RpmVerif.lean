-- root of the library: every property's theorems and every driver module
import RpmVerif.Props.C01
import RpmVerif.Props.C05
import RpmVerif.Props.C13
import RpmVerif.Props.C15
import RpmVerif.Props.C16
import RpmVerif.Props.C18
import RpmVerif.Props.C19
import RpmVerif.Props.C20
import RpmVerif.Driver.C01
import RpmVerif.Driver.C05
import RpmVerif.Driver.C13
import RpmVerif.Driver.C15
import RpmVerif.Driver.C16
import RpmVerif.Driver.C18
import RpmVerif.Driver.C19
import RpmVerif.Driver.C20
import RpmVerif.Driver.Common
