#!/bin/sh
# MANIFEST.setup_cmd: build everything from files on disk, offline.
set -e
cd "$(dirname "$0")"
export CARGO_NET_OFFLINE=true
python3 tools/gen_tables.py
(cd lean && lake build)
[ -f harness/Cargo.lock ] || cp /repo/Cargo.lock harness/Cargo.lock
(cd harness && cargo build --release --offline)
# the same harness against rpm-rs with its default cargo features (no bzip2): used by C09 / C17
(cd harness && cargo build --release --offline --no-default-features --target-dir target-nobz)
[ -f harness-default/Cargo.lock ] || cp /repo/Cargo.lock harness-default/Cargo.lock
(cd harness-default && cargo build --release --offline)
echo setup-ok
