#!/bin/sh
# MANIFEST.setup_cmd: build everything from files on disk, offline.
set -e
cd "$(dirname "$0")"
export CARGO_NET_OFFLINE=true
python3 tools/gen_tables.py
(cd lean && lake build)
[ -f harness/Cargo.lock ] || cp /repo/Cargo.lock harness/Cargo.lock
(cd harness && cargo build --release --offline)
[ -f harness-default/Cargo.lock ] || cp /repo/Cargo.lock harness-default/Cargo.lock
(cd harness-default && cargo build --release --offline)
echo setup-ok
