//! C08: every digest the builder records is the true digest.
//! `build8 <cfg>`: build, write, re-parse; report the recorded digests next to digests recomputed
//! independently (sha2 crate over the written bytes; payload decompressed with the codec crates).
//! `shaw <script> <data>`: `Sha256Writer` over a scripted inner sink.
//! `sign08 <key> <api> <src> <cfg…>`: build, then sign with an Ed25519 / RSA-4096 / ECDSA-P256 key through `Package::sign`,
//!     `sign_with_timestamp` or `build_and_sign`, on the package value `build` returned (`mem`) or on the re-parsed one.
//! `hist08 <ops> <package bytes>`: ANY start package (assets, hand-assembled, stale or wrong digests); `ops` = `,`-separated
//!     `c` clear, `sE|sR|sC` sign_with_timestamp (Ed25519 / RSA / ECDSA), `SE|SR|SC` sign(), `w` write + re-parse.
use crate::bld::*;
use crate::common::*;
use crate::pkggen::{asset_paths, gen_package_wf};
use std::io::Write;

fn first_str(h: &rpm::Header<rpm::IndexTag>, tag: rpm::IndexTag) -> String {
    match h.get_entry_data_as_string_array(tag) {
        Ok(v) if !v.is_empty() => v[0].clone(),
        Ok(_) => "empty".into(),
        Err(_) => "absent".into(),
    }
}

fn recorded_file_digests(h: &rpm::Header<rpm::IndexTag>) -> String {
    let v = h.get_entry_data_as_string_array(rpm::IndexTag::RPMTAG_FILEDIGESTS).map(|v| v.to_vec()).unwrap_or_default();
    format!("{}:{:016x}", v.len(), fnv(v.join(",").as_bytes()))
}

fn key_paths(k: char) -> (&'static str, &'static str) {
    match k {
        'R' => ("/repo/tests/assets/signing_keys/secret_rsa4096.asc", "/repo/tests/assets/signing_keys/public_rsa4096.asc"),
        'C' => ("/repo/tests/assets/signing_keys/secret_ecdsa_p256.asc", "/repo/tests/assets/signing_keys/public_ecdsa_p256.asc"),
        _ => ("/repo/tests/assets/signing_keys/secret_ed25519.asc", "/repo/tests/assets/signing_keys/public_ed25519.asc"),
    }
}
fn signer8(k: char) -> Result<rpm::signature::pgp::Signer, rpm::Error> {
    rpm::signature::pgp::Signer::load_from_asc_bytes(&std::fs::read(key_paths(k).0)?)
}
fn verifier8(k: char) -> Result<rpm::signature::pgp::Verifier, rpm::Error> {
    rpm::signature::pgp::Verifier::load_from_asc_bytes(&std::fs::read(key_paths(k).1)?)
}

/// `sign08 <E|R|C> <sign|signts|bas> <mem|reparsed> <cfg…>`: every digest the signed package records, next to the digests
/// recomputed from the written bytes; then `clear_signatures` on it
fn observe_sign8(key: &str, api: &str, src: &str, tokens: &[&str]) -> String {
    let k = key.chars().next().unwrap_or('E');
    let r = (|| -> Result<String, rpm::Error> {
        let b = builder_from(tokens)?;
        let pkg = if api == "bas" {
            b.build_and_sign(signer8(k)?)?
        } else {
            let built = b.build()?;
            let mut p = if src == "mem" { built } else {
                let mut bytes = Vec::new();
                built.write(&mut bytes)?;
                rpm::Package::parse(&mut &bytes[..])?
            };
            if api == "sign" { p.sign(signer8(k)?)?; } else { p.sign_with_timestamp(signer8(k)?, 1_600_000_000u32)?; }
            p
        };
        let mut out = Vec::new();
        pkg.write(&mut out)?;
        let mut p3 = rpm::Package::parse(&mut &out[..])?;
        let o = p3.metadata.get_package_segment_offsets();
        let (h, pl) = (o.header as usize, o.payload as usize);
        let kind = tokens.iter().find_map(|t| t.strip_prefix("c=")).map(|c| c.split(':').next().unwrap()).unwrap_or(crate::bld::default_comp_kind());
        let arch = decompress(kind, &out[pl..]);
        let sha_of = |p: &rpm::Package| p.metadata.signature.get_entry_data_as_string(rpm::IndexSignatureTag::RPMSIGTAG_SHA256).map(|s| s.to_string()).unwrap_or("absent".into());
        let hsha = sha_of(&p3);
        let digests = p3.verify_digests().is_ok();
        let verify = p3.verify_signature(&verifier8(k)?).is_ok();
        let fd = recorded_file_digests(&p3.metadata.header);
        let pd = first_str(&p3.metadata.header, rpm::IndexTag::RPMTAG_PAYLOADDIGEST);
        let pda = first_str(&p3.metadata.header, rpm::IndexTag::RPMTAG_PAYLOADDIGESTALT);
        p3.clear_signatures()?;
        Ok(format!("ok paysha={} archsha={} pd={} pda={} hsha={} hreal={} fd={} digests={} verify={} chsha={}",
            sha256_hex(&out[pl..]), arch.as_ref().map(|a| sha256_hex(a)).unwrap_or("undecodable".into()), pd, pda,
            hsha, sha256_hex(&out[h..pl]), fd, digests, verify, sha_of(&p3)))
    })();
    cleanup();
    match r { Ok(s) => s, Err(_) => "err".into() }
}

/// `hist08 <ops> <package>`: see the module comment. Observation: the header digest recorded at the end, the digest of the main
/// header bytes of the written result, whether main header and payload bytes are those of the start package
fn observe_hist8(ops: &str, bytes: &[u8]) -> String {
    let r = (|| -> Result<String, rpm::Error> {
        let mut p = match rpm::Package::parse(&mut &bytes[..]) { Ok(p) => p, Err(_) => return Ok("err-parse".into()) };
        let o0 = p.metadata.get_package_segment_offsets();
        rpm::verif_hooks::set_now(Some(1_650_000_000));
        for op in ops.split(',').filter(|s| !s.is_empty() && *s != "-") {
            let mut cs = op.chars();
            match (cs.next(), cs.next()) {
                (Some('c'), _) => p.clear_signatures()?,
                (Some('s'), Some(k)) => p.sign_with_timestamp(signer8(k)?, 1_600_000_000u32)?,
                (Some('S'), Some(k)) => p.sign(signer8(k)?)?,
                (Some('w'), _) => {
                    let mut b = Vec::new();
                    p.write(&mut b)?;
                    p = rpm::Package::parse(&mut &b[..])?;
                }
                _ => return Ok("bad-op".into()),
            }
        }
        let mut out = Vec::new();
        p.write(&mut out)?;
        let p3 = rpm::Package::parse(&mut &out[..])?;
        let o = p3.metadata.get_package_segment_offsets();
        let (h, pl) = (o.header as usize, o.payload as usize);
        let hsha = p3.metadata.signature.get_entry_data_as_string(rpm::IndexSignatureTag::RPMSIGTAG_SHA256).map(|s| hx(s.as_bytes())).unwrap_or("absent".into());
        Ok(format!("ok hsha={} hreal={} hdrsame={} paysame={}", hsha, hx(sha256_hex(&out[h..pl]).as_bytes()),
            out[h..pl] == bytes[o0.header as usize..o0.payload as usize], out[pl..] == bytes[o0.payload as usize..]))
    })();
    rpm::verif_hooks::set_now(None);
    match r { Ok(s) => s, Err(_) => "err".into() }
}

fn observe_build8(tokens: &[&str]) -> String {
    let r = (|| -> Result<String, rpm::Error> {
        let b = builder_from(tokens)?;
        let pkg = b.build()?;
        let mut bytes = Vec::new();
        pkg.write(&mut bytes)?;
        let mut p2 = rpm::Package::parse(&mut &bytes[..])?;
        let o = p2.metadata.get_package_segment_offsets();
        let (h, pl) = (o.header as usize, o.payload as usize);
        let kind = tokens.iter().find_map(|t| t.strip_prefix("c=")).map(|c| c.split(':').next().unwrap()).unwrap_or(crate::bld::default_comp_kind());
        let arch = decompress(kind, &bytes[pl..]);
        let hsha = p2.metadata.signature.get_entry_data_as_string(rpm::IndexSignatureTag::RPMSIGTAG_SHA256).map(|s| s.to_string()).unwrap_or("absent".into());
        // file digests: recorded vs the content iterated from the payload vs the content we generated
        let mut fdg = true;
        let mut expected: std::collections::BTreeMap<Vec<u8>, String> = Default::default();
        for t in tokens {
            if let Some(r) = t.strip_prefix("f=") {
                let p: Vec<&str> = r.split(':').collect();
                let (seed, size) = (p[8].parse::<u64>().unwrap(), p[9].parse::<usize>().unwrap());
                expected.entry(unhx(p[0])).or_insert(sha256_hex(&content(seed, size)));
            }
        }
        let mut nfiles = 0;
        for f in p2.files()? {
            let f = f?;
            nfiles += 1;
            let rec = f.metadata.digest.as_ref().map(|d| d.as_hex().to_string()).unwrap_or_default();
            if rec != sha256_hex(&f.content) { fdg = false; }
        }
        for e in p2.metadata.get_file_entries()? {
            let rec = e.digest.as_ref().map(|d| d.as_hex().to_string()).unwrap_or_default();
            if !expected.values().any(|v| *v == rec) { fdg = false; }
        }
        // RPMTAG_FILEDIGESTS as recorded, in header order: `<count>:<fnv of the texts joined with ','>` (predicted by the model
        // from the contents: digest k = SHA-256 of the content archived for file k)
        let fd = recorded_file_digests(&p2.metadata.header);
        // after clearing signatures the header digest must still be the true one
        p2.clear_signatures()?;
        let chsha = p2.metadata.signature.get_entry_data_as_string(rpm::IndexSignatureTag::RPMSIGTAG_SHA256).map(|s| s.to_string()).unwrap_or("absent".into());
        Ok(format!(
            "ok paysha={} archsha={} pd={} pda={} hsha={} hreal={} fd={} fdg={} nfiles={} chsha={}",
            sha256_hex(&bytes[pl..]),
            arch.as_ref().map(|a| sha256_hex(a)).unwrap_or("undecodable".into()),
            first_str(&p2.metadata.header, rpm::IndexTag::RPMTAG_PAYLOADDIGEST),
            first_str(&p2.metadata.header, rpm::IndexTag::RPMTAG_PAYLOADDIGESTALT),
            hsha, sha256_hex(&bytes[h..pl]), fd, fdg, nfiles, chsha
        ))
    })();
    cleanup();
    match r { Ok(s) => s, Err(_) => "err".into() }
}

/// `stale8 <sign|clear> <cfg…>`: build, write, make the recorded header digest STALE (change one hex digit of
/// RPMSIGTAG_SHA256 in the written bytes), parse, then re-sign (Ed25519) or clear: the digest recorded
/// afterwards must be the true digest of the header again
fn observe_stale8(mode: &str, tokens: &[&str]) -> String {
    let r = (|| -> Result<String, rpm::Error> {
        let b = builder_from(tokens)?;
        let pkg = b.build()?;
        let mut bytes = Vec::new();
        pkg.write(&mut bytes)?;
        let rec = pkg.metadata.signature.get_entry_data_as_string(rpm::IndexSignatureTag::RPMSIGTAG_SHA256)?.to_string();
        let pos = bytes.windows(rec.len()).position(|w| w == rec.as_bytes());
        if let Some(pos) = pos {
            bytes[pos] = if bytes[pos] == b'0' { b'1' } else { b'0' };
        }
        let mut p2 = rpm::Package::parse(&mut &bytes[..])?;
        let stale = p2.verify_digests().is_err();
        match mode {
            "sign" => {
                let key = std::fs::read("/repo/tests/assets/signing_keys/secret_ed25519.asc")?;
                let signer = rpm::signature::pgp::Signer::load_from_asc_bytes(&key)?;
                p2.sign_with_timestamp(signer, 1_600_000_000u32)?;
            }
            _ => p2.clear_signatures()?,
        }
        let mut out = Vec::new();
        p2.write(&mut out)?;
        let p3 = rpm::Package::parse(&mut &out[..])?;
        let o = p3.metadata.get_package_segment_offsets();
        let hsha = p3.metadata.signature.get_entry_data_as_string(rpm::IndexSignatureTag::RPMSIGTAG_SHA256).map(|s| s.to_string()).unwrap_or("absent".into());
        Ok(format!("ok stale={} hsha={} hreal={} digests={}", stale, hsha, sha256_hex(&out[o.header as usize..o.payload as usize]), p3.verify_digests().is_ok()))
    })();
    cleanup();
    match r { Ok(s) => s, Err(_) => "err".into() }
}

/// A `Signing` implementation that does NOT read its input to the end (a detached / pre-computed signature): it reads what `mode`
/// says (`none`, `k<N>` bytes, `half`, `bytewise` = everything in 1-byte reads) and returns the real Ed25519 signature over the
/// header bytes it was given beforehand. The digests the library records must not depend on how much a signer chose to read.
#[derive(Debug)]
struct LazySigner { inner: rpm::signature::pgp::Signer, mode: String, expected: Vec<u8> }
impl rpm::signature::Signing for LazySigner {
    type Signature = Vec<u8>;
    fn sign(&self, mut data: impl std::io::Read, t: rpm::Timestamp) -> Result<Vec<u8>, rpm::Error> {
        if self.mode == "fail" {
            // an unreachable HSM: the signer refuses (seed C08-10: the signature header was wiped before the signer was asked)
            return Err(rpm::Error::KeyNotFoundError { key_ref: "harness".into() });
        }
        let want = match self.mode.as_str() {
            "none" => 0usize,
            "half" => self.expected.len() / 2,
            "bytewise" => usize::MAX,
            k => k.trim_start_matches('k').parse().unwrap_or(0),
        };
        let mut one = [0u8; 1];
        let mut got = 0usize;
        while got < want {
            match data.read(&mut one) { Ok(0) => break, Ok(_) => got += 1, Err(_) => break }
        }
        self.inner.sign(&self.expected[..], t)
    }
    fn algorithm(&self) -> rpm::signature::AlgorithmType { self.inner.algorithm() }
}

/// `lazy8 <mode> <how> <cfg…>`: the header bytes are learnt from an unsigned build of the same (reproducible) configuration; then
/// `how` = `bas` → `build_and_sign(lazy signer)`, `resign` → build, write, parse, `sign_with_timestamp(lazy signer)`.
fn observe_lazy8(mode: &str, how: &str, tokens: &[&str]) -> String {
    let r = (|| -> Result<String, rpm::Error> {
        let plain = builder_from(tokens)?.build()?;
        let mut pb = Vec::new();
        plain.write(&mut pb)?;
        let o = plain.metadata.get_package_segment_offsets();
        let expected = pb[o.header as usize..o.payload as usize].to_vec();
        let key = std::fs::read("/repo/tests/assets/signing_keys/secret_ed25519.asc")?;
        let inner = rpm::signature::pgp::Signer::load_from_asc_bytes(&key)?;
        let lazy = LazySigner { inner, mode: mode.to_string(), expected };
        let refused = mode == "fail";
        let pkg = match how {
            "bas" if refused => {
                // build_and_sign consumes the builder: a refusal yields no package at all
                return Ok(match builder_from(tokens)?.build_and_sign(lazy) { Err(_) => "ok refused".to_string(), Ok(_) => "signed-by-a-refusing-signer".to_string() });
            }
            "bas" => builder_from(tokens)?.build_and_sign(lazy)?,
            _ => {
                let mut p = rpm::Package::parse(&mut &pb[..])?;
                match p.sign_with_timestamp(lazy, 1_600_000_000u32) {
                    Err(_) if refused => {}
                    Ok(()) if refused => return Ok("signed-by-a-refusing-signer".to_string()),
                    r => r?,
                }
                p
            }
        };
        let mut out = Vec::new();
        pkg.write(&mut out)?;
        let p3 = rpm::Package::parse(&mut &out[..])?;
        let o = p3.metadata.get_package_segment_offsets();
        let hsha = p3.metadata.signature.get_entry_data_as_string(rpm::IndexSignatureTag::RPMSIGTAG_SHA256).map(|s| s.to_string()).unwrap_or("absent".into());
        let pubkey = std::fs::read("/repo/tests/assets/signing_keys/public_ed25519.asc")?;
        let verifier = rpm::signature::pgp::Verifier::load_from_asc_bytes(&pubkey)?;
        // after a refused signing attempt the package is the unsigned one it was: every digest still recorded and true
        let verify = if refused { "refused".to_string() } else { p3.verify_signature(&verifier).is_ok().to_string() };
        Ok(format!("ok hsha={} hreal={} digests={} verify={}", hsha, sha256_hex(&out[o.header as usize..o.payload as usize]),
            p3.verify_digests().is_ok(), verify))
    })();
    cleanup();
    match r { Ok(s) => s, Err(_) => "err".into() }
}

/// inner sink driven by a finite script; afterwards it accepts everything
struct Scripted { script: Vec<String>, pos: usize, got: Vec<u8> }
impl Write for Scripted {
    fn write(&mut self, buf: &[u8]) -> std::io::Result<usize> {
        let step = self.script.get(self.pos).cloned();
        self.pos += 1;
        match step.as_deref() {
            Some("i") => Err(std::io::Error::from(std::io::ErrorKind::Interrupted)),
            Some("f") => Err(std::io::Error::new(std::io::ErrorKind::Other, "scripted failure")),
            Some(k) if k.starts_with('k') => {
                let n: usize = k[1..].parse().unwrap_or(0);
                let n = n.min(buf.len());
                self.got.extend_from_slice(&buf[..n]);
                Ok(n)
            }
            _ => { self.got.extend_from_slice(buf); Ok(buf.len()) }
        }
    }
    fn flush(&mut self) -> std::io::Result<()> { Ok(()) }
}

fn observe_shaw(script: &str, data: &[u8], chunks: usize) -> String {
    let mut inner = Scripted { script: if script == "-" { vec![] } else { script.split(',').map(|s| s.to_string()).collect() }, pos: 0, got: vec![] };
    let status;
    let digest;
    {
        let mut w = rpm::Sha256Writer::new(&mut inner);
        // the data is submitted as `chunks` separate write_all calls, like the cpio writer does
        let mut st = "ok";
        let step = (data.len() + chunks.max(1) - 1) / chunks.max(1);
        for part in data.chunks(step.max(1)) {
            if w.write_all(part).is_err() { st = "err"; break; }
        }
        status = st;
        digest = hex::encode(w.into_digest().as_ref());
    }
    format!("{} digest={} accepted={:016x}:{}", status, digest, fnv(&inner.got), inner.got.len())
}

pub fn eval(op: &str, a: &[&str]) -> Option<String> {
    match op {
        "build8" => Some(observe_build8(a)),
        "stale8" => Some(observe_stale8(a[0], &a[1..])),
        "lazy8" => Some(observe_lazy8(a[0], a[1], &a[2..])),
        "shaw" => Some(observe_shaw(a[0], &unhx(a[2]), a[1].parse().ok()?)),
        "sign08" if a.len() >= 3 => Some(observe_sign8(a[0], a[1], a[2], &a[3..])),
        "hist08" if a.len() == 2 => Some(observe_hist8(a[0], &arg_bytes(a[1]))),
        _ => None,
    }
}

/// every `<type>:<level>` the library accepts, from the table `tools/gen/compression_levels.py` scrapes out of compressor.rs on
/// every run (lean/RpmVerif/Gen/CompressionLevels.lean: `levelVariants`, `levelAccepted`); zstd's negative levels are sampled.
/// The fixed list is only the fallback for an unreadable table.
fn scraped_levels(thorough: bool) -> Vec<String> {
    let fallback = || ["none", "gzip:1", "gzip:6", "gzip:9", "zstd:3", "zstd:19", "xz:6", "bzip2:9"].iter().map(|s| s.to_string()).collect::<Vec<_>>();
    let text = match std::fs::read_to_string("lean/RpmVerif/Gen/CompressionLevels.lean") { Ok(t) => t, Err(_) => return fallback() };
    let line_of = |key: &str| text.lines().find(|l| l.starts_with(&format!("def {} ", key))).map(|l| l.to_string());
    let names: Vec<String> = match line_of("levelVariants") {
        Some(l) => l.split('"').skip(1).step_by(2).map(|s| s.to_lowercase()).collect(),
        None => return fallback(),
    };
    let acc = match line_of("levelAccepted") { Some(l) => l, None => return fallback() };
    let mut out = vec!["none".to_string()];
    for part in acc.split('(').skip(1) {
        let nums: Vec<i64> = part.split(')').next().unwrap_or("").split(',').filter_map(|x| x.trim().parse().ok()).collect();
        if nums.len() != 3 { continue; }
        let (lo, hi) = (nums[1], nums[2]);
        let name = match names.get(nums[0] as usize) { Some(n) => n.clone(), None => continue };
        let mut ls: Vec<i64> = Vec::new();
        if hi - lo <= 64 { ls.extend(lo..=hi); } else {
            // a long range (zstd -131072..22): both ends, a spread of the negative part, everything from -7 up
            ls.push(lo);
            if thorough { ls.extend([lo / 2, -1000, -50]); }
            ls.extend((-7).max(lo)..=hi);
        }
        // the slowest levels only in the thorough tier
        for l in ls {
            if !thorough && name == "zstd" && l > 19 && l < hi { continue; }
            out.push(format!("{}:{}", name, l));
        }
    }
    if out.len() < 5 { return fallback(); }
    out
}

pub fn gen(ctx: &mut Ctx) {
    let (si, sn) = ctx.shard;
    // scripted short-writing / interrupting / failing inner sinks
    let n = ctx.q(3_000u64, 60_000) / sn;
    for _ in 0..n {
        let len = ctx.rng.below(40) as usize;
        let data = ctx.rng.bytes(len);
        let steps = ctx.rng.below(8);
        let script: Vec<String> = (0..steps).map(|_| match ctx.rng.below(6) {
            0 => "i".to_string(), 1 => "f".to_string(), 2 => "k0".to_string(),
            _ => format!("k{}", 1 + ctx.rng.below(9)),
        }).collect();
        let chunks = 1 + ctx.rng.below(3);
        ctx.req(&format!("shaw {} {} {}", if script.is_empty() { "-".to_string() } else { script.join(",") }, chunks, hx(&data)));
    }
    // builds: every compression type x EVERY level of the range the library accepts (read from the table scraped from
    // compressor.rs on this run), sizes around the buffer sizes of the encoders (32 KiB, 64 KiB, 128 KiB ± 1), standard
    // and large-file (stripped cpio, `lf=0`: hook threshold 0) form
    let comps = scraped_levels(ctx.thorough);
    let sizes: Vec<usize> = vec![0, 1, 4096, 32767, 32768, 32769, 65535, 65536, 65537, 70_000, 131071, 131072, 131073, 300_000];
    let file = |dest: &[u8], seed: u64, size: usize| format!("f={}:33188:726f6f74:726f6f74:0:~:-:1500000000:{}:{}:~", hx(dest), seed, size);
    let head = "n=70 v=31 l=4d4954 a=78 s=73 now=1700000000 sd=1600000000";
    let mut k = 0u64;
    for (ci, c) in comps.iter().enumerate() {
        // quick: three sizes per level, walking through the list; thorough: all of them (+ 3 MB for the usual levels)
        let mut zs: Vec<usize> = if ctx.thorough { sizes.clone() } else { (0..3).map(|j| sizes[(ci * 3 + j) % sizes.len()]).collect() };
        if ctx.thorough && ["none", "gzip:6", "zstd:3", "xz:6", "bzip2:9"].contains(&c.as_str()) { zs.push(3_000_000); }
        for (zi, size) in zs.iter().enumerate() {
            k += 1;
            if k % sn != si { continue; }
            let seed = 2 + ((ci + zi) % 2) as u64;   // compressible / incompressible
            let extra = if (ci + zi) % 3 == 0 { format!(" {}", file(b"/opt/b", seed + 10, 13)) } else { String::new() };
            let lf = if (ci + zi) % 4 == 1 { " lf=0" } else { "" };
            ctx.req(&format!("build8 {}{} c={} {}{}", head, lf, c, file(b"/opt/a", seed, *size), extra));
        }
    }
    // the boundary sizes for the usual levels, both content kinds, standard and large-file form; the large-file switch at its
    // boundary (hook threshold = combined size, combined size - 1)
    for c in ["none", "gzip:1", "gzip:6", "gzip:9", "zstd:3", "zstd:19", "xz:6", "bzip2:9"] {
        for size in [32767usize, 32768, 32769, 131071, 131072, 131073] {
            for seed in [2u64, 3] {
                k += 1;
                if k % sn != si { continue; }
                if !ctx.thorough && (k / sn) % 3 != 0 { continue; }
                let lf = match (size + seed as usize) % 3 { 0 => " lf=0".to_string(), 1 => format!(" lf={}", size + 7), _ => format!(" lf={}", size + 6) };
                ctx.req(&format!("build8 {}{} c={} {} {}", head, lf, c, file(b"/opt/a", seed, size), file(b"/opt/z", seed + 2, 7)));
            }
        }
    }
    // signing: Ed25519 / RSA-4096 / ECDSA-P256 through Package::sign, sign_with_timestamp and build_and_sign, on the package
    // value build() returned and on the re-parsed one
    {
        let mut j = 0u64;
        for key in ["E", "R", "C"] {
            for api in ["sign", "signts", "bas"] {
                for src in ["mem", "reparsed"] {
                    if api == "bas" && src == "reparsed" { continue; }
                    j += 1;
                    if j % sn != si { continue; }
                    let c = ["none", "gzip:6", "zstd:3", "xz:6"][(j % 4) as usize];
                    let lf = if j % 5 == 0 { " lf=0" } else { "" };
                    ctx.req(&format!("sign08 {} {} {} {}{} c={} {} {}", key, api, src, head, lf, c, file(b"/opt/a", 2 + j % 2, 4096 + j as usize), file(b"/etc/b", 5, 13)));
                }
            }
        }
        let n = ctx.q(6u64, 120) / sn + 1;
        for i0 in 0..n {
            let i = i0 * sn + si;
            let cfg = crate::c06::gen_cfg(&mut ctx.rng, &[0usize, 13, 4096]);
            let key = ["E", "R", "C"][(i % 3) as usize];
            let api = ["sign", "signts", "bas"][((i / 3) % 3) as usize];
            ctx.req(&format!("sign08 {} {} {} {}", key, api, if i % 2 == 0 { "mem" } else { "reparsed" }, cfg));
        }
    }
    // sign / clear histories from ANY start package: the crate's assets (rpm-built, some signed), random hand-assembled
    // packages (no digests at all), built packages whose recorded header digest is stale or whose payload was replaced
    {
        let _ = std::fs::create_dir_all("work/c08-blobs");
        let mut starts: Vec<(String, Vec<u8>)> = Vec::new();
        for pth in asset_paths() {
            if let Ok(b) = std::fs::read(&pth) {
                if b.len() > 100_000 && !ctx.thorough { continue; }
                starts.push((pth.file_name().map(|n| n.to_string_lossy().to_string()).unwrap_or_default(), b));
            }
        }
        let mut r2 = Rng::new(ctx.seed ^ 0xC08);
        for i in 0..ctx.q(4, 40) { starts.push((format!("gen{}", i), gen_package_wf(&mut r2))); }
        if let Ok(b) = builder_from(&format!("{} c=gzip:6 {}", head, file(b"/opt/a", 3, 300)).split(' ').collect::<Vec<_>>()).and_then(|b| b.build()) {
            let mut bytes = Vec::new();
            if b.write(&mut bytes).is_ok() {
                let rec = b.metadata.signature.get_entry_data_as_string(rpm::IndexSignatureTag::RPMSIGTAG_SHA256).map(|s| s.to_string()).unwrap_or_default();
                let mut stale = bytes.clone();
                if let Some(pos) = stale.windows(rec.len().max(1)).position(|w| w == rec.as_bytes()) { stale[pos] = if stale[pos] == b'0' { b'1' } else { b'0' }; }
                starts.push(("stale".into(), stale));
                let mut cut = bytes.clone();
                let l = cut.len();
                cut.truncate(l - 9);
                cut.extend_from_slice(b"other payload bytes");
                starts.push(("payload-replaced".into(), cut));
            }
        }
        cleanup();
        let histories = ["-", "w", "c", "sE", "SR", "sC", "c,w", "sR,w", "sE,c", "c,sC,w", "sE,w,sR", "SE,w,c,w", "w,sC,sE", "sR,c,SC"];
        let mut j = 0u64;
        for (name, bytes) in &starts {
            for (hi, hst) in histories.iter().enumerate() {
                j += 1;
                if j % sn != si { continue; }
                if !ctx.thorough && (hi + name.len()) % 3 != 0 && hi > 5 { continue; }
                let arg = blob_arg("work/c08-blobs", &format!("s{}-{}-{}", ctx.seed, si, name), bytes);
                ctx.req(&format!("hist08 {} {}", hst, arg));
            }
        }
    }
    if si == 0 {
        // the same source path handed to with_file twice, rewritten in between with other content of the SAME length
        // and the SAME mtime (bld.rs re-uses the previous source path when seed % 4 == 2): digests must follow the content
        for size in [1usize, 13, 4096] {
            for c in ["none", "gzip:6", "zstd:3"] {
                ctx.req(&format!(
                    "build8 n=70 v=31 l=4d4954 a=78 s=73 now=1700000000 sd=1600000000 c={} f={}:33188:726f6f74:726f6f74:0:~:-:1500000000:5:{}:~ f={}:33188:726f6f74:726f6f74:0:~:-:1500000000:6:{}:~ f={}:33188:726f6f74:726f6f74:0:~:-:1500000000:10:{}:~",
                    c, hx(b"/opt/a"), size, hx(b"/opt/b"), size, hx(b"/opt/c"), size
                ));
            }
        }
    }
    if si == 0 && !ctx.thorough {
        // one 3 MB incompressible case in the quick tier too (all compressors accept partial writes there)
        ctx.req(&format!("build8 n=70 v=31 l=4d4954 a=78 s=73 now=1700000000 sd=1600000000 c=gzip:6 f={}:33188:726f6f74:726f6f74:0:~:-:1500000000:3:3000000:~", hx(b"/opt/a")));
    }
    if si == 0 {
        // the SAME destination handed to with_file twice with different content (seed C08-7): whichever entry the builder keeps,
        // the digest it records must be the digest of the bytes it archives
        for (s1, z1, s2, z2) in [(21u64, 13usize, 22u64, 13usize), (23, 5, 24, 4096), (25, 4096, 26, 0), (27, 0, 28, 7)] {
            for c in ["none", "zstd:3"] {
                ctx.req(&format!(
                    "build8 n=70 v=31 l=4d4954 a=78 s=73 now=1700000000 sd=1600000000 c={} f={}:33188:726f6f74:726f6f74:0:~:-:1500000000:{}:{}:~ f={}:33188:726f6f74:726f6f74:0:~:-:1500000000:{}:{}:~ f={}:33188:726f6f74:726f6f74:0:~:-:1500000000:9:3:~",
                    c, hx(b"/opt/twice"), s1, z1, hx(b"/opt/twice"), s2, z2, hx(b"/opt/z")
                ));
            }
        }
    }
    // signers that do not read their input to the end (seed C08-8): what is recorded must be the digest of the header all the same
    {
        let mut j = 0u64;
        for mode in ["none", "k1", "k16", "half", "bytewise", "fail"] {
            for how in ["bas", "resign"] {
                j += 1;
                if j % sn != si { continue; }
                let cfg = crate::c06::gen_cfg(&mut ctx.rng, &[0usize, 13, 4096]);
                let toks: Vec<&str> = cfg.split(' ').filter(|t| !t.starts_with("sd=") && !t.starts_with("now=")).collect();
                ctx.req(&format!("lazy8 {} {} {} sd=1600000000 now=1700000000", mode, how, toks.join(" ")));
            }
        }
    }
    // re-signing / clearing a package whose recorded header digest is stale
    for (i, mode) in ["sign", "clear", "sign", "clear"].iter().enumerate() {
        if (i as u64) % sn != si { continue; }
        let cfg = crate::c06::gen_cfg(&mut ctx.rng, &[0usize, 13, 4096]);
        ctx.req(&format!("stale8 {} {}", mode, cfg));
    }
    // random configurations as for C06
    let n = ctx.q(60u64, 1500) / sn;
    for _ in 0..n {
        let cfg = crate::c06::gen_cfg(&mut ctx.rng, &[0usize, 1, 13, 4096, 70_000]);
        ctx.req(&format!("build8 {}", cfg));
    }
}
