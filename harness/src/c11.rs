//! C11: builds with a source date are reproducible and clamped.
//! `repro <cfg tokens> [sign=E|R]`: the same configuration is built several times in this process with
//! different pinned clocks, and in freshly started child processes (other hash seeds, TZ, cwd, env);
//! all package bytes must be identical, and no timestamp may exceed the source date.
use crate::bld::*;
use crate::common::*;

fn signer(kind: &str) -> Option<rpm::signature::pgp::Signer> {
    let path = match kind {
        "E" => "/repo/tests/assets/signing_keys/secret_ed25519.asc",
        "R" => "/repo/tests/assets/signing_keys/secret_rsa4096.asc",
        _ => return None,
    };
    let key = std::fs::read(path).ok()?;
    rpm::signature::pgp::Signer::load_from_asc_bytes(&key).ok()
}

/// build once with the clock pinned to `now`; returns the package bytes
pub fn build_once(tokens: &[&str], now: u32) -> Result<Vec<u8>, rpm::Error> {
    let b = builder_from(tokens)?;
    rpm::verif_hooks::set_now(Some(now));
    let sign = tokens.iter().find_map(|t| t.strip_prefix("sign="));
    let pkg = match sign.and_then(signer) {
        Some(s) => b.build_and_sign(s)?,
        None => b.build()?,
    };
    let mut bytes = Vec::new();
    pkg.write(&mut bytes)?;
    cleanup();
    Ok(bytes)
}

fn sig_time(p: &rpm::Package) -> String {
    use pgp::packet::{Packet, PacketParser};
    for tag in [rpm::IndexSignatureTag::RPMSIGTAG_RSA, rpm::IndexSignatureTag::RPMSIGTAG_DSA] {
        if let Ok(raw) = p.metadata.signature.get_entry_data_as_binary(tag) {
            for pk in PacketParser::new(std::io::Cursor::new(raw)) {
                if let Ok(Packet::Signature(s)) = pk {
                    if let Some(t) = s.created() {
                        return t.timestamp().to_string();
                    }
                }
            }
        }
    }
    "-".into()
}

/// the signatures under RPMSIGTAG_OPENPGP (base64 text per item): `<count>:<creation time of each, '+'-joined>:<1 when the
/// first one is byte-identical to the blob under the legacy RSA / DSA tag>` (theorem `sigtime_clamped`: ONE signature, the
/// same packet in both places, created at the clamped time); "-" when the tag is absent
fn sig_time_openpgp(p: &rpm::Package) -> String {
    use pgp::packet::{Packet, PacketParser};
    use std::io::Read;
    let Ok(texts) = p.metadata.signature.get_entry_data_as_string_array(rpm::IndexSignatureTag::RPMSIGTAG_OPENPGP) else { return "-".into() };
    let mut times: Vec<String> = Vec::new();
    let mut first: Option<Vec<u8>> = None;
    for t in texts {
        let mut raw = Vec::new();
        let mut dec = pgp::base64_decoder::Base64Decoder::new(pgp::base64_reader::Base64Reader::new(t.as_bytes()));
        if dec.read_to_end(&mut raw).is_err() { times.push("undecodable".into()); continue; }
        let mut tm = "none".to_string();
        for pk in PacketParser::new(std::io::Cursor::new(&raw[..])) {
            if let Ok(Packet::Signature(s)) = pk {
                if let Some(c) = s.created() { tm = c.timestamp().to_string(); }
                break;
            }
        }
        times.push(tm);
        if first.is_none() { first = Some(raw); }
    }
    let legacy = [rpm::IndexSignatureTag::RPMSIGTAG_RSA, rpm::IndexSignatureTag::RPMSIGTAG_DSA].iter()
        .find_map(|&tag| p.metadata.signature.get_entry_data_as_binary(tag).ok().map(|b| b.to_vec()));
    format!("{}:{}:{}", times.len(), times.join("+"), (first.is_some() && first == legacy) as u8)
}

/// greatest c_mtime of the newc / crc entries of an uncompressed archive ("-" when the archive cannot be walked)
fn max_cpio_mtime(arch: &[u8]) -> String {
    let mut pos = 0usize;
    let mut best = 0u64;
    let hexf = |b: &[u8]| std::str::from_utf8(b).ok().and_then(|s| u64::from_str_radix(s, 16).ok());
    loop {
        if pos + 6 > arch.len() { return "-".into(); }
        let magic = &arch[pos..pos + 6];
        if magic == b"07070X" {
            // stripped entry: no timestamp field; its size comes from the header, which we do not have here
            return best.to_string();
        }
        if magic != b"070701" && magic != b"070702" { return "-".into(); }
        if pos + 110 > arch.len() { return "-".into(); }
        let f = |i: usize| hexf(&arch[pos + 6 + 8 * i..pos + 14 + 8 * i]);
        let (mtime, fsize, nsize) = match (f(5), f(6), f(11)) { (Some(a), Some(b), Some(c)) => (a, b as usize, c as usize), _ => return "-".into() };
        let name_end = pos + 110 + nsize;
        if name_end > arch.len() || nsize == 0 { return "-".into(); }
        let name = &arch[pos + 110..name_end - 1];
        if name == b"TRAILER!!!" { return best.to_string(); }
        best = best.max(mtime);
        let data = (name_end + 3) & !3;
        pos = (data + fsize + 3) & !3;
    }
}

fn observe(tokens: &[&str]) -> String {
    let now: u32 = tokens.iter().find_map(|t| t.strip_prefix("now=")).and_then(|x| x.parse().ok()).unwrap_or(1_700_000_000);
    let mut all: Vec<Vec<u8>> = Vec::new();
    for i in 0..5u32 {
        // the last two in-process builds run with SOURCE_DATE_EPOCH set (to something else than the configured source date)
        if i == 3 { std::env::set_var("SOURCE_DATE_EPOCH", "1650000000"); }
        if i == 4 { std::env::set_var("SOURCE_DATE_EPOCH", "1"); }
        let r = build_once(tokens, now + i * 7919);
        if i >= 3 { std::env::remove_var("SOURCE_DATE_EPOCH"); }
        match r {
            Ok(b) => all.push(b),
            Err(_) => { cleanup(); return "err".into(); }
        }
    }
    // fresh processes: different RandomState seeds, TZ, cwd, environment
    let exe = std::env::current_exe().unwrap();
    let verif = std::env::current_dir().unwrap();
    let nchild: usize = tokens.iter().find_map(|t| t.strip_prefix("children=")).and_then(|x| x.parse().ok()).unwrap_or(2);
    let mut child_fnv: Vec<String> = Vec::new();
    for i in 0..nchild {
        let tz = ["UTC", "Asia/Tokyo", "America/New_York", "Pacific/Chatham"][i % 4];
        let mut cmd = std::process::Command::new(&exe);
        cmd.arg("reprochild").args(tokens).arg(format!("childnow={}", now + 100_003 * (i as u32 + 1)))
            .env("TZ", tz).env("LANG", if i % 2 == 0 { "C" } else { "de_DE.UTF-8" }).env(format!("VERIF_NOISE_{}", i), "x")
            // the environment is not an input of the build: the variables reproducible-build tooling and rpmbuild look at are set
            // to values that differ from the configuration (seed C11-8: SOURCE_DATE_EPOCH overriding the configured source date)
            .env("SOURCE_DATE_EPOCH", format!("{}", [1_650_000_000u32, 1_234_567_890, 1_800_000_000, 0][i % 4]))
            .env("USER", ["alice", "root"][i % 2]).env("LOGNAME", ["alice", "root"][i % 2])
            .env("HOSTNAME", format!("builder{}.example", i)).env("RPM_BUILD_NCPUS", format!("{}", i + 1))
            // … and from another working directory each (nothing the build reads or writes is relative to it but its scratch files)
            .current_dir(&{
                let d = if i == 0 { verif.clone() } else { verif.join(format!("work/c11-cwd-{}-{}/deeper/still", std::process::id(), i)) };
                let _ = std::fs::create_dir_all(&d);
                d
            });
        match cmd.output() {
            Ok(o) => child_fnv.push(String::from_utf8_lossy(&o.stdout).trim().to_string()),
            Err(_) => child_fnv.push("spawn-failed".into()),
        }
    }
    let _ = std::fs::remove_dir_all(verif.join(format!("work/c11-cwd-{}-1", std::process::id())));
    let _ = std::fs::remove_dir_all(verif.join(format!("work/c11-cwd-{}-2", std::process::id())));
    let _ = std::fs::remove_dir_all(verif.join(format!("work/c11-cwd-{}-3", std::process::id())));
    let first = &all[0];
    let mut ids: Vec<String> = all.iter().map(|b| format!("{:016x}", fnv(b))).collect();
    ids.extend(child_fnv);
    let mut distinct = ids.clone();
    distinct.sort();
    distinct.dedup();
    let p = match rpm::Package::parse(&mut &first[..]) { Ok(p) => p, Err(_) => return "err-reparse".into() };
    let o = p.metadata.get_package_segment_offsets();
    let (h, pl) = (o.header as usize, o.payload as usize);
    let kind = crate::bld::comp_kind(tokens);
    let arch = decompress(kind, &first[pl..]);
    let mt = p.metadata.get_file_entries().map(|v| v.iter().map(|f| f.modified_at.0).max().unwrap_or(0)).unwrap_or(0);
    let cmt = arch.as_ref().map(|a| max_cpio_mtime(a)).unwrap_or("-".into());
    format!(
        "ok paysha={} archsha={} runs={} distinct={} hdr={:016x} bt={} mt={} st={} cmt={} sto={}",
        sha256_hex(&first[pl..]), arch.map(|a| sha256_hex(&a)).unwrap_or("undecodable".into()),
        ids.len(), distinct.len(), fnv(&first[h..pl]),
        p.metadata.get_build_time().map(|x| x.to_string()).unwrap_or("-".into()), mt, sig_time(&p), cmt, sig_time_openpgp(&p)
    )
}

pub fn eval(op: &str, a: &[&str]) -> Option<String> {
    match op {
        "repro" => Some(observe(a)),
        _ => None,
    }
}

/// entry point of the child process: prints the fnv of the package it built
pub fn child_main(args: &[String]) {
    let toks: Vec<&str> = args.iter().map(|s| s.as_str()).collect();
    let now: u32 = toks.iter().find_map(|t| t.strip_prefix("childnow=")).and_then(|x| x.parse().ok()).unwrap_or(1_700_000_000);
    match build_once(&toks, now) {
        Ok(b) => println!("{:016x}", fnv(&b)),
        Err(_) => println!("child-err"),
    }
}

pub fn gen(ctx: &mut Ctx) {
    let (_si, sn) = ctx.shard;
    let n = ctx.q(60u64, 1200) / sn;
    let users = ["root", "hugo", "www-data", "zed", "amy", "bob", "eve"];
    for i in 0..n {
        let mut cfg = crate::c06::gen_cfg(&mut ctx.rng, &[0usize, 1, 13, 4096]);
        // a source date in the past of every clock used (the property's guard), several non-root owners
        let toks: Vec<String> = cfg.split(' ').filter(|t| !t.starts_with("sd=") && !t.starts_with("now=")).map(|s| s.to_string()).collect();
        cfg = toks.join(" ");
        let sd = *ctx.rng.pick(&[1u32, 1_500_000_000, 1_600_000_000, 1_699_999_999]);
        let mut extra = format!(" sd={} now=1700000000{}", sd, if ctx.rng.chance(1, 2) { " sdlast" } else { "" });
        // the same source date handed over as another argument type (SystemTime, DateTime in some zone): same package
        let sdk = *ctx.rng.pick(&["u32", "u32", "st", "dt+0000", "dt+0200", "dt-0930", "dt+1400", "dt-1200"]);
        if sdk != "u32" { extra.push_str(&format!(" sdk={}", sdk)); }
        // the order of the setter calls: compression() after source_date() in half of the configurations
        if ctx.rng.chance(1, 2) { extra.push_str(" clast"); }
        let nown = ctx.rng.below(6);
        for k in 0..nown {
            let u = *ctx.rng.pick(&users);
            let g = *ctx.rng.pick(&users);
            let mt = *ctx.rng.pick(&[1_400_000_000u32, 1_600_000_001, 1_750_000_000]);
            extra.push_str(&format!(" f={}:33188:{}:{}:0:~:-:{}:{}:9:~", hx(format!("/own/f{}", k).as_bytes()), hx(u.as_bytes()), hx(g.as_bytes()), mt, k));
        }
        if i % 4 == 1 { extra.push_str(" sign=E"); }
        if i % 29 == 3 { extra.push_str(" sign=R"); }
        extra.push_str(&format!(" children={}", if ctx.thorough { 4 } else { 2 }));
        ctx.req(&format!("repro {}{}", cfg, extra));
        if i % 8 == 6 {
            // a source date in the FUTURE of every clock used (a skewed clock, a tag dated ahead): build time and signature time
            // are the clock's then (`_ => now`), still not later than the source date; the runs differ in exactly that time
            let toks: Vec<&str> = cfg.split(' ').collect();
            let fut = *ctx.rng.pick(&[1_800_000_000u32, 1_700_900_000, u32::MAX]);
            ctx.req(&format!("repro {} sd={} now=1700000000{} children=2", toks.join(" "), fut, if i % 16 == 6 { " sign=E" } else { "" }));
        }
        if i % 16 == 5 {
            // the same configuration with a source date that cannot be represented (before 1970)
            let toks: Vec<&str> = cfg.split(' ').collect();
            let before = 1 + ctx.rng.below(100_000);
            ctx.req(&format!("repro {} sdneg={} now=1700000000 children=0", toks.join(" "), before));
        }
    }
}
