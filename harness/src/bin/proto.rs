use pgp::composed::Deserializable;
use pgp::types::PublicKeyTrait;
use pgp::ser::Serialize;
fn mpi(bits: u16, bytes: &[u8]) -> Vec<u8> { let mut v = bits.to_be_bytes().to_vec(); v.extend_from_slice(bytes); v }
const KEYDIR: &str = "/repo/tests/assets/signing_keys";
fn real_body(name: &str) -> Vec<u8> {
    let t = std::fs::read_to_string(format!("{}/public_{}.asc", KEYDIR, name)).unwrap();
    let (k, _) = pgp::SignedPublicKey::from_string(&t).unwrap();
    k.primary_key.to_bytes().unwrap()
}
fn key_body(alg: u8) -> Vec<u8> {
    let with = |mut b: Vec<u8>| { b[5] = alg; b };
    match alg {
        1 | 2 | 3 => with(real_body("rsa4096")),
        19 => with(real_body("ecdsa_p256")),
        22 => with(real_body("ed25519")),
        27 => { let b = real_body("ed25519"); let mut v = b[..6].to_vec(); v[5] = 27; v.extend_from_slice(&b[b.len() - 32..]); v }
        25 => { let mut v = vec![4, 0x5f, 0, 0, 0, 25]; v.extend([9u8; 32]); v }
        16 | 20 => { let mut v = vec![4, 0x5f, 0, 0, 0, alg]; for _ in 0..3 { v.extend(mpi(9, &[1, 5])); } v }
        17 => { let mut v = vec![4, 0x5f, 0, 0, 0, alg]; for _ in 0..4 { v.extend(mpi(9, &[1, 5])); } v }
        _ => { let mut v = vec![4, 0x5f, 0, 0, 0, alg]; v.extend([1u8, 2, 3, 4, 5, 6, 7, 8]); v }
    }
}
fn packet(tag: u8, body: &[u8]) -> Vec<u8> {
    let mut p = vec![0xC0 | tag, 255];
    p.extend((body.len() as u32).to_be_bytes());
    p.extend_from_slice(body);
    p
}
fn main() {
    for alg in 0..=255u8 {
        let body = key_body(alg);
        let pk = pgp::packet::PublicKey::from_slice(pgp::types::Version::New, &body);
        let s1 = match pk {
            Ok(pk) => {
                let a = u8::from(pk.algorithm());
                match rpm::signature::pgp::Signer::new(pk) {
                    Ok(s) => { let d = format!("{:?}", s); let i = d.rfind("algorithm: ").unwrap(); format!("parsed{} ok {}", a, &d[i..i+18]) }
                    Err(rpm::Error::UnsupportedPGPKeyType(x)) => format!("parsed{} unsupported {}", a, u8::from(x)),
                    Err(_) => "err".into(),
                }
            }
            Err(e) => format!("unparsable {:?}", e),
        };
        let mut cert = packet(6, &body);
        cert.extend(packet(13, b"x <x@y>"));
        let s2 = match pgp::SignedPublicKey::from_bytes(std::io::Cursor::new(&cert[..])) {
            Ok(k) => {
                let asc = k.to_armored_string(Default::default()).unwrap();
                match rpm::signature::pgp::Verifier::load_from_asc(&asc) {
                    Ok(v) => { use rpm::signature::Verifying; format!("ok {:?}", v.algorithm()) }
                    Err(rpm::Error::UnsupportedPGPKeyType(x)) => format!("unsupported {}", u8::from(x)),
                    Err(e) => format!("err {:?}", e),
                }
            }
            Err(e) => format!("unparsable {:?}", e),
        };
        if [0u8,1,2,3,16,17,18,19,20,21,22,25,26,27,28,100,255].contains(&alg) { println!("{} | {} | {}", alg, s1, s2); }
    }
}
